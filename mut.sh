#!/bin/bash
# mut.sh <patch-or-sed-script.sh> <CHECK...> : run checks against a scratch copy of /repo with a mutation applied.
# The mutation is either a unified diff (applied with git apply) or an executable script run inside the copy.
set -e
M="$1"; shift
D=$(mktemp -d /tmp/mutrepo.XXXXXX)
rsync -a --exclude .git /repo/ "$D/"
( cd "$D" && if [[ "$M" == *.sh ]]; then bash "$M"; else patch -p1 -s < "$M"; fi )
export GOFLAGS=-mod=mod GOPROXY=off GOSUMDB=off GOTOOLCHAIN=local
( cd "$D" && go build ./... && go test -vet=off -count=1 ./... >"$D.log" 2>&1 ) || { echo "MUTANT DOES NOT BUILD/PASS"; grep -v "^ok\|no test files" "$D.log" | head; }; rm -f "$D.log"
for c in "$@"; do VERIF_REPO="$D" python3 /verif/run.py check "$c" --tier quick 2>&1 | grep -E "^VIOLATION|signature|^C[0-9]+ |INCONCLUSIVE|KNOWN" | head -8; done
rm -rf "$D" /verif/.build-mut
