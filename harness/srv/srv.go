// Package srv encodes what a TDS 5.0 server sends: packages and row /
// parameter data. Written from the protocol layout (token, little-endian
// lengths and fields), independent of go-dblib's codecs. Only
// encoding/binary-style byte pushing; no go-dblib import.
package srv

import (
	"encoding/binary"
	"math"
)

// Tokens.
const (
	TokEED          = 0xE5
	TokEnvChange    = 0xE3
	TokLoginAck     = 0xAD
	TokDone         = 0xFD
	TokDoneProc     = 0xFE
	TokDoneInProc   = 0xFF
	TokMsg          = 0x65
	TokParamFmt     = 0xEC
	TokParamFmt2    = 0x20
	TokRowFmt       = 0xEE
	TokRowFmt2      = 0x61
	TokParams       = 0xD7
	TokRow          = 0xD1
	TokCapability   = 0xE2
	TokReturnStatus = 0x79
	TokOrderBy      = 0xA9
	TokOrderBy2     = 0x22
)

// Data types used by the response catalogue.
const (
	TInt1       = 0x30
	TInt2       = 0x34
	TInt4       = 0x38
	TInt8       = 0xBF
	TUint2      = 0x41
	TUint4      = 0x42
	TUint8      = 0x43
	TBit        = 0x32
	TFlt4       = 0x3B
	TFlt8       = 0x3E
	TMoney      = 0x3C
	TShortMoney = 0x7A
	TDate       = 0x31
	TTime       = 0x33
	TDateTime   = 0x3D
	TShortDate  = 0x3A
	TIntN       = 0x26
	TUintN      = 0x44
	TFltN       = 0x6D
	TMoneyN     = 0x6E
	TDateN      = 0x7B
	TTimeN      = 0x93
	TDateTimeN  = 0x6F
	TBigDTN     = 0xBB
	TBigTimeN   = 0xBC
	TDecN       = 0x6A
	TNumN       = 0x6C
	TChar       = 0x2F
	TVarChar    = 0x27
	TBinary     = 0x2D
	TVarBinary  = 0x25
	TLongChar   = 0xAF
	TLongBinary = 0xE1
)

// fixed sizes
var fixed = map[byte]int{TInt1: 1, TInt2: 2, TInt4: 4, TInt8: 8, TUint2: 2, TUint4: 4, TUint8: 8, TBit: 1, TFlt4: 4, TFlt8: 8, TMoney: 8, TShortMoney: 4, TDate: 4, TTime: 4, TDateTime: 8, TShortDate: 4}

// width of the length prefix
var lenBytes = map[byte]int{TIntN: 1, TUintN: 1, TFltN: 1, TMoneyN: 1, TDateN: 1, TTimeN: 1, TDateTimeN: 1, TBigDTN: 1, TBigTimeN: 1, TDecN: 1, TNumN: 1, TChar: 1, TVarChar: 1, TBinary: 1, TVarBinary: 1, TLongChar: 4, TLongBinary: 4}

type buf struct{ b []byte }

func (w *buf) u8(v byte)      { w.b = append(w.b, v) }
func (w *buf) u16(v uint16)   { w.b = binary.LittleEndian.AppendUint16(w.b, v) }
func (w *buf) u32(v uint32)   { w.b = binary.LittleEndian.AppendUint32(w.b, v) }
func (w *buf) u64(v uint64)   { w.b = binary.LittleEndian.AppendUint64(w.b, v) }
func (w *buf) bytes(v []byte) { w.b = append(w.b, v...) }
func (w *buf) str8(s string)  { w.u8(byte(len(s))); w.b = append(w.b, s...) }

// Done encodes DONE / DONEPROC / DONEINPROC.
func Done(tok byte, status, tran uint16, count int32) []byte {
	w := &buf{}
	w.u8(tok)
	w.u16(status)
	w.u16(tran)
	w.u32(uint32(count))
	return w.b
}

// DONE status bits.
const (
	DoneFinal  = 0x0
	DoneMore   = 0x1
	DoneError  = 0x2
	DoneInXact = 0x4
	DoneProc   = 0x8
	DoneCount  = 0x10
	DoneAttn   = 0x20
	DoneEvent  = 0x40
)

// EED fields.
type EED struct {
	MsgNr     uint32
	State     byte
	Class     byte
	SQLState  []byte
	Status    byte // 0 none, 1 follows, 2 info
	TranState uint16
	Msg       string
	Server    string
	Proc      string
	Line      uint16
}

func (e EED) Bytes() []byte {
	body := &buf{}
	body.u32(e.MsgNr)
	body.u8(e.State)
	body.u8(e.Class)
	body.u8(byte(len(e.SQLState)))
	body.bytes(e.SQLState)
	body.u8(e.Status)
	body.u16(e.TranState)
	body.u16(uint16(len(e.Msg)))
	body.bytes([]byte(e.Msg))
	body.str8(e.Server)
	body.str8(e.Proc)
	body.u16(e.Line)
	w := &buf{}
	w.u8(TokEED)
	w.u16(uint16(len(body.b)))
	w.bytes(body.b)
	return w.b
}

// EnvMember is one member of an ENVCHANGE.
type EnvMember struct {
	Type     byte // 1 db, 2 lang, 3 charset, 4 packsize
	New, Old string
}

func EnvChange(ms ...EnvMember) []byte {
	body := &buf{}
	for _, m := range ms {
		body.u8(m.Type)
		body.str8(m.New)
		body.str8(m.Old)
	}
	w := &buf{}
	w.u8(TokEnvChange)
	w.u16(uint16(len(body.b)))
	w.bytes(body.b)
	return w.b
}

// LoginAck status values.
const (
	LogSucceed   = 5
	LogFail      = 6
	LogNegotiate = 7
)

func LoginAck(status byte, tdsVersion [4]byte, program string, progVersion [4]byte) []byte {
	w := &buf{}
	w.u8(TokLoginAck)
	w.u16(uint16(1 + 4 + 1 + len(program) + 4))
	w.u8(status)
	w.bytes(tdsVersion[:])
	w.str8(program)
	w.bytes(progVersion[:])
	return w.b
}

func Msg(status byte, id uint16) []byte {
	w := &buf{}
	w.u8(TokMsg)
	w.u8(3)
	w.u8(status)
	w.u16(id)
	return w.b
}

func ReturnStatus(v int32) []byte {
	w := &buf{}
	w.u8(TokReturnStatus)
	w.u32(uint32(v))
	return w.b
}

// CapEntry is one capability type with its value mask.
type CapEntry struct {
	Type byte // 1 request, 2 response, 3 security
	Mask []byte
}

func Capability(es ...CapEntry) []byte {
	body := &buf{}
	for _, e := range es {
		body.u8(e.Type)
		body.u8(byte(len(e.Mask)))
		body.bytes(e.Mask)
	}
	w := &buf{}
	w.u8(TokCapability)
	w.u16(uint16(len(body.b)))
	w.bytes(body.b)
	return w.b
}

// MaskWith returns a value mask of n bytes with the given capability
// numbers set: capability c is bit c%8 of byte n-1-c/8.
func MaskWith(n int, caps ...int) []byte {
	m := make([]byte, n)
	for _, c := range caps {
		if c/8 < n {
			m[n-1-c/8] |= 1 << uint(c%8)
		}
	}
	return m
}

// Col is a column / parameter format.
type Col struct {
	Name     string
	Status   uint32
	UserType int32
	Type     byte
	MaxLen   uint32
	Prec     byte
	Scale    byte
	Locale   string
	// wide ROWFMT2 only
	Label, Catalog, Schema, Table string
}

func (c Col) fmtTail(w *buf) {
	w.u32(uint32(c.UserType))
	w.u8(c.Type)
	if _, ok := fixed[c.Type]; !ok {
		switch lenBytes[c.Type] {
		case 1:
			w.u8(byte(c.MaxLen))
		case 4:
			w.u32(c.MaxLen)
		}
		switch c.Type {
		case TDecN, TNumN:
			w.u8(c.Prec)
			w.u8(c.Scale)
		case TBigDTN, TBigTimeN:
			w.u8(c.Scale)
		}
	}
	w.str8(c.Locale)
}

// ParamFmt encodes PARAMFMT (wide=false, 16-bit length, 8-bit status) or
// PARAMFMT2 (32-bit length, 32-bit status).
func ParamFmt(wide bool, cols ...Col) []byte {
	body := &buf{}
	body.u16(uint16(len(cols)))
	for _, c := range cols {
		body.str8(c.Name)
		if wide {
			body.u32(c.Status)
		} else {
			body.u8(byte(c.Status))
		}
		c.fmtTail(body)
	}
	w := &buf{}
	if wide {
		w.u8(TokParamFmt2)
		w.u32(uint32(len(body.b)))
	} else {
		w.u8(TokParamFmt)
		w.u16(uint16(len(body.b)))
	}
	w.bytes(body.b)
	return w.b
}

// RowFmt encodes ROWFMT (16-bit length, 8-bit status) or ROWFMT2 (32-bit
// length, label/catalog/schema/table/name, 32-bit status).
func RowFmt(wide bool, cols ...Col) []byte {
	body := &buf{}
	body.u16(uint16(len(cols)))
	for _, c := range cols {
		if wide {
			body.str8(c.Label)
			body.str8(c.Catalog)
			body.str8(c.Schema)
			body.str8(c.Table)
		}
		body.str8(c.Name)
		if wide {
			body.u32(c.Status)
		} else {
			body.u8(byte(c.Status))
		}
		c.fmtTail(body)
	}
	w := &buf{}
	if wide {
		w.u8(TokRowFmt2)
		w.u32(uint32(len(body.b)))
	} else {
		w.u8(TokRowFmt)
		w.u16(uint16(len(body.b)))
	}
	w.bytes(body.b)
	return w.b
}

// Val is one data value as raw wire bytes (nil = NULL for nullable types).
type Val struct {
	Raw        []byte
	DataStatus byte // written only if the column has the column-status bit
}

// Data encodes PARAMS (tok=TokParams) or ROW (tok=TokRow) for the columns.
func Data(tok byte, cols []Col, vals []Val) []byte {
	w := &buf{}
	w.u8(tok)
	for i, c := range cols {
		v := vals[i]
		if c.Status&0x8 != 0 {
			w.u8(v.DataStatus)
		}
		if n, ok := fixed[c.Type]; ok {
			raw := v.Raw
			if len(raw) != n {
				raw = make([]byte, n)
				copy(raw, v.Raw)
			}
			w.bytes(raw)
			continue
		}
		switch lenBytes[c.Type] {
		case 1:
			w.u8(byte(len(v.Raw)))
		case 4:
			w.u32(uint32(len(v.Raw)))
		}
		w.bytes(v.Raw)
	}
	return w.b
}

func OrderBy(cols ...byte) []byte {
	w := &buf{}
	w.u8(TokOrderBy)
	w.u16(uint16(len(cols)))
	w.bytes(cols)
	return w.b
}

// ---- raw value helpers (little-endian)

func I32(v int32) []byte { return binary.LittleEndian.AppendUint32(nil, uint32(v)) }
func I16(v int16) []byte { return binary.LittleEndian.AppendUint16(nil, uint16(v)) }
func I64(v int64) []byte { return binary.LittleEndian.AppendUint64(nil, uint64(v)) }
func F64(v float64) []byte {
	return binary.LittleEndian.AppendUint64(nil, math.Float64bits(v))
}

// DateTime is days since 1900-01-01 + 1/300 s ticks.
func DateTime(days int32, ticks int32) []byte { return append(I32(days), I32(ticks)...) }

// Money is the high word then the low word of a 1/10000 count.
func Money(v int64) []byte {
	return append(I32(int32(v>>32)), binary.LittleEndian.AppendUint32(nil, uint32(v))...)
}

// Numeric is sign byte + big-endian magnitude.
func Numeric(neg bool, magnitude []byte) []byte {
	s := byte(0)
	if neg {
		s = 1
	}
	return append([]byte{s}, magnitude...)
}
