// Package canon prints a deterministic, complete dump of any Go value by
// reflection (unexported fields included). Two packages are "the same with
// the same field values" iff their dumps are equal.
package canon

import (
	"bytes"
	"fmt"
	"math"
	"math/big"
	"reflect"
	"sort"
	"strings"
	"time"
	"unsafe"
)

var (
	timeType   = reflect.TypeOf(time.Time{})
	bigIntType = reflect.TypeOf(big.Int{})
	bufType    = reflect.TypeOf(bytes.Buffer{})
)

// Skip lists field names (Type.Field) that are not part of a value's
// identity (none by default).
var Skip = map[string]bool{}

// Dump returns the canonical dump of v.
func Dump(v interface{}) string {
	var sb strings.Builder
	d := &dumper{sb: &sb, seen: map[uintptr]bool{}}
	d.dump(reflect.ValueOf(v), 0)
	return sb.String()
}

type dumper struct {
	sb   *strings.Builder
	seen map[uintptr]bool
}

func access(v reflect.Value) reflect.Value {
	if v.CanInterface() {
		return v
	}
	if v.CanAddr() {
		return reflect.NewAt(v.Type(), unsafe.Pointer(v.UnsafeAddr())).Elem()
	}
	return v
}

func addressable(v reflect.Value) reflect.Value {
	if v.CanAddr() {
		return v
	}
	c := reflect.New(v.Type()).Elem()
	c.Set(v)
	return c
}

func (d *dumper) dump(v reflect.Value, depth int) {
	if depth > 40 {
		d.sb.WriteString("<deep>")
		return
	}
	if !v.IsValid() {
		d.sb.WriteString("nil")
		return
	}
	v = access(v)
	t := v.Type()
	switch t {
	case timeType:
		if v.CanInterface() {
			tm := v.Interface().(time.Time)
			fmt.Fprintf(d.sb, "time(%s)", tm.UTC().Format(time.RFC3339Nano))
			return
		}
	case bigIntType:
		if v.CanAddr() {
			bi := (*big.Int)(unsafe.Pointer(v.UnsafeAddr()))
			fmt.Fprintf(d.sb, "big(%s)", bi.String())
			return
		}
		vv := addressable(v)
		bi := (*big.Int)(unsafe.Pointer(vv.UnsafeAddr()))
		fmt.Fprintf(d.sb, "big(%s)", bi.String())
		return
	case bufType:
		vv := addressable(v)
		bb := (*bytes.Buffer)(unsafe.Pointer(vv.UnsafeAddr()))
		fmt.Fprintf(d.sb, "buf(%x)", bb.Bytes())
		return
	}
	switch v.Kind() {
	case reflect.Bool:
		fmt.Fprintf(d.sb, "%v", v.Bool())
	case reflect.Int, reflect.Int8, reflect.Int16, reflect.Int32, reflect.Int64:
		fmt.Fprintf(d.sb, "%d", v.Int())
	case reflect.Uint, reflect.Uint8, reflect.Uint16, reflect.Uint32, reflect.Uint64, reflect.Uintptr:
		fmt.Fprintf(d.sb, "%d", v.Uint())
	case reflect.Float32:
		fmt.Fprintf(d.sb, "f32(%08x)", math.Float32bits(float32(v.Float())))
	case reflect.Float64:
		fmt.Fprintf(d.sb, "f64(%016x)", math.Float64bits(v.Float()))
	case reflect.String:
		fmt.Fprintf(d.sb, "%q", v.String())
	case reflect.Slice:
		if v.IsNil() {
			// nil and empty slices are the same serialised value
			d.sb.WriteString("[]")
			return
		}
		fallthrough
	case reflect.Array:
		if t.Elem().Kind() == reflect.Uint8 {
			b := make([]byte, v.Len())
			for i := range b {
				b[i] = byte(v.Index(i).Uint())
			}
			fmt.Fprintf(d.sb, "x'%x'", b)
			return
		}
		d.sb.WriteString("[")
		for i := 0; i < v.Len(); i++ {
			if i > 0 {
				d.sb.WriteString(",")
			}
			d.dump(v.Index(i), depth+1)
		}
		d.sb.WriteString("]")
	case reflect.Map:
		type kv struct {
			k string
			v reflect.Value
		}
		var kvs []kv
		it := v.MapRange()
		for it.Next() {
			var ksb strings.Builder
			kd := &dumper{sb: &ksb, seen: d.seen}
			kd.dump(addressable(it.Key()), depth+1)
			kvs = append(kvs, kv{ksb.String(), it.Value()})
		}
		sort.Slice(kvs, func(i, j int) bool { return kvs[i].k < kvs[j].k })
		d.sb.WriteString("map{")
		for i, e := range kvs {
			if i > 0 {
				d.sb.WriteString(",")
			}
			d.sb.WriteString(e.k)
			d.sb.WriteString(":")
			d.dump(addressable(e.v), depth+1)
		}
		d.sb.WriteString("}")
	case reflect.Ptr:
		if v.IsNil() {
			d.sb.WriteString("nil")
			return
		}
		p := v.Pointer()
		if d.seen[p] {
			d.sb.WriteString("<cycle>")
			return
		}
		d.seen[p] = true
		d.sb.WriteString("&")
		d.dump(v.Elem(), depth+1)
		delete(d.seen, p)
	case reflect.Interface:
		if v.IsNil() {
			d.sb.WriteString("nil")
			return
		}
		e := v.Elem()
		d.sb.WriteString("<" + e.Type().String() + ">")
		d.dump(addressable(e), depth+1)
	case reflect.Struct:
		vv := addressable(v)
		d.sb.WriteString(t.String() + "{")
		first := true
		for i := 0; i < t.NumField(); i++ {
			name := t.Field(i).Name
			if Skip[t.Name()+"."+name] {
				continue
			}
			if !first {
				d.sb.WriteString(",")
			}
			first = false
			d.sb.WriteString(name + ":")
			d.dump(vv.Field(i), depth+1)
		}
		d.sb.WriteString("}")
	case reflect.Func:
		if v.IsNil() {
			d.sb.WriteString("func(nil)")
		} else {
			d.sb.WriteString("func")
		}
	case reflect.Chan:
		d.sb.WriteString("chan")
	default:
		fmt.Fprintf(d.sb, "<%s>", v.Kind())
	}
}
