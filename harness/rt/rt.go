// Package rt is the run-time support shared by all checks of the worker:
// seeded PRNG, result accumulation (what was observed), violation records.
package rt

import (
	"encoding/json"
	"fmt"
	"hash/fnv"
	"os"
	"runtime/debug"
	"sort"
	"strings"
	"sync"
	"sync/atomic"
)

// ---------------------------------------------------------------- PRNG

// Rand is a splitmix64-seeded xoshiro256** generator. Deterministic per seed.
type Rand struct{ s [4]uint64 }

func splitmix(x *uint64) uint64 {
	*x += 0x9e3779b97f4a7c15
	z := *x
	z = (z ^ (z >> 30)) * 0xbf58476d1ce4e5b9
	z = (z ^ (z >> 27)) * 0x94d049bb133111eb
	return z ^ (z >> 31)
}

// NewRand derives a generator from a seed and a stream label, so that
// independent parts of a check do not share a sequence.
func NewRand(seed int64, stream string) *Rand {
	h := fnv.New64a()
	h.Write([]byte(stream))
	x := uint64(seed) ^ h.Sum64()
	r := &Rand{}
	for i := range r.s {
		r.s[i] = splitmix(&x)
	}
	return r
}

func rotl(x uint64, k uint) uint64 { return (x << k) | (x >> (64 - k)) }

func (r *Rand) Uint64() uint64 {
	res := rotl(r.s[1]*5, 7) * 9
	t := r.s[1] << 17
	r.s[2] ^= r.s[0]
	r.s[3] ^= r.s[1]
	r.s[1] ^= r.s[2]
	r.s[0] ^= r.s[3]
	r.s[2] ^= t
	r.s[3] = rotl(r.s[3], 45)
	return res
}

// Intn returns a value in [0,n). n must be > 0.
func (r *Rand) Intn(n int) int {
	if n <= 0 {
		panic("rt.Rand.Intn: n <= 0")
	}
	return int(r.Uint64() % uint64(n))
}

// Range returns a value in [lo,hi].
func (r *Rand) Range(lo, hi int) int { return lo + r.Intn(hi-lo+1) }

func (r *Rand) Bool() bool { return r.Uint64()&1 == 1 }

// Chance returns true with probability num/den.
func (r *Rand) Chance(num, den int) bool { return r.Intn(den) < num }

func (r *Rand) Bytes(n int) []byte {
	b := make([]byte, n)
	for i := 0; i < n; i += 8 {
		v := r.Uint64()
		for j := 0; j < 8 && i+j < n; j++ {
			b[i+j] = byte(v >> (8 * uint(j)))
		}
	}
	return b
}

// Perm returns a permutation of 0..n-1.
func (r *Rand) Perm(n int) []int {
	p := make([]int, n)
	for i := range p {
		p[i] = i
	}
	for i := n - 1; i > 0; i-- {
		j := r.Intn(i + 1)
		p[i], p[j] = p[j], p[i]
	}
	return p
}

// ---------------------------------------------------------------- results

// Violation is one observed refutation of a property clause.
type Violation struct {
	// Sig is the signature used to match known findings: it names the
	// input class / call site / history shape that fails, never a
	// concrete value.
	Sig string `json:"sig"`
	// Detail says what was observed versus what was expected.
	Detail string `json:"detail"`
	// Case is the complete case for replaying.
	Case interface{} `json:"case"`
}

// Result accumulates what one worker run observed.
type Result struct {
	Property string `json:"property_id"`
	Tier     string `json:"tier"`
	Seed     int64  `json:"seed"`
	// CheckpointPath: where Violate writes the result when a signature
	// occurs for the first time ("" = nowhere)
	CheckpointPath string `json:"-"`

	mu          sync.Mutex
	evaluations int64
	distinctCtr int64
	distinct    map[uint64]struct{}
	samples     []interface{}
	sampleKeys  map[string]int
	counters    map[string]int64
	sets        map[string]map[string]struct{}
	violations  []Violation
	vioCount    map[string]int64
	notes       []string
	inconcl     []string

	Rule        string   `json:"-"`
	Assumptions []string `json:"-"`
	TrustedBase []string `json:"-"`
	Exhaustive  bool     `json:"-"`
}

func NewResult(prop, tier string, seed int64) *Result {
	return &Result{
		Property: prop, Tier: tier, Seed: seed,
		distinct:   map[uint64]struct{}{},
		sampleKeys: map[string]int{},
		counters:   map[string]int64{},
		sets:       map[string]map[string]struct{}{},
		vioCount:   map[string]int64{},
	}
}

// Eval counts executed cases.
func (r *Result) Eval(n int64) { atomic.AddInt64(&r.evaluations, n) }

// DistinctN adds n cases that are distinct by construction (enumeration
// without repetition) and non-trivial by the check's rule.
func (r *Result) DistinctN(n int64) { atomic.AddInt64(&r.distinctCtr, n) }

// Distinct records a non-trivial case by key; duplicates count once.
func (r *Result) Distinct(key string) {
	h := fnv.New64a()
	h.Write([]byte(key))
	v := h.Sum64()
	r.mu.Lock()
	r.distinct[v] = struct{}{}
	r.mu.Unlock()
}

// DistinctHash is Distinct for a pre-hashed key.
func (r *Result) DistinctHash(v uint64) {
	r.mu.Lock()
	r.distinct[v] = struct{}{}
	r.mu.Unlock()
}

// Count adds to a named monitor counter.
func (r *Result) Count(name string, n int64) {
	r.mu.Lock()
	r.counters[name] += n
	r.mu.Unlock()
}

// Max keeps the maximum for a named counter.
func (r *Result) Max(name string, n int64) {
	r.mu.Lock()
	if n > r.counters[name] {
		r.counters[name] = n
	}
	r.mu.Unlock()
}

// SetAdd adds a member to a named set whose size is reported (e.g. distinct
// interleavings, distinct outcome classes).
func (r *Result) SetAdd(name, member string) {
	r.mu.Lock()
	s := r.sets[name]
	if s == nil {
		s = map[string]struct{}{}
		r.sets[name] = s
	}
	if len(s) < 200000 {
		s[member] = struct{}{}
	}
	r.mu.Unlock()
}

// Sample keeps up to perClass samples per class, at most 12 in total.
func (r *Result) Sample(class string, v interface{}) {
	r.mu.Lock()
	defer r.mu.Unlock()
	if len(r.samples) >= 12 || r.sampleKeys[class] >= 2 {
		return
	}
	r.sampleKeys[class]++
	r.samples = append(r.samples, map[string]interface{}{"class": class, "case": v})
}

// Note records free text for the evidence.
func (r *Result) Note(format string, a ...interface{}) {
	r.mu.Lock()
	r.notes = append(r.notes, fmt.Sprintf(format, a...))
	r.mu.Unlock()
}

// Inconclusive records that part of the run could not be decided.
func (r *Result) Inconclusive(format string, a ...interface{}) {
	r.mu.Lock()
	r.inconcl = append(r.inconcl, fmt.Sprintf(format, a...))
	r.mu.Unlock()
}

// Violate records a violation. At most 3 full records are kept per
// signature; the rest is counted.
func (r *Result) Violate(sig, detail string, c interface{}) {
	r.mu.Lock()
	r.vioCount[sig]++
	first := r.vioCount[sig] == 1
	if r.vioCount[sig] <= 3 {
		if len(detail) > 4000 {
			detail = detail[:4000] + "…"
		}
		r.violations = append(r.violations, Violation{Sig: sig, Detail: detail, Case: c})
	}
	path := r.CheckpointPath
	r.mu.Unlock()
	// A worker that hangs later (the library deadlocks under a mutant) is
	// killed by the leg's watchdog: what it has found so far must not be
	// lost, so the result file is written when a signature first occurs.
	if first && path != "" {
		_ = r.Write(path)
	}
}

func (r *Result) NumViolations() int64 {
	r.mu.Lock()
	defer r.mu.Unlock()
	var n int64
	for _, c := range r.vioCount {
		n += c
	}
	return n
}

type out struct {
	Property     string                 `json:"property_id"`
	Tier         string                 `json:"tier"`
	Seed         int64                  `json:"seed"`
	Evaluations  int64                  `json:"evaluations"`
	DistinctCtr  int64                  `json:"distinct_by_construction"`
	DistinctKeys []uint64               `json:"distinct_keys"`
	Rule         string                 `json:"rule"`
	Samples      []interface{}          `json:"samples"`
	Counters     map[string]int64       `json:"counters"`
	Sets         map[string][]string    `json:"sets"`
	Violations   []Violation            `json:"violations"`
	VioCount     map[string]int64       `json:"violation_counts"`
	Notes        []string               `json:"notes"`
	Inconclusive []string               `json:"inconclusive"`
	Assumptions  []string               `json:"assumptions"`
	TrustedBase  []string               `json:"trusted_base"`
	Exhaustive   bool                   `json:"exhaustive"`
	Extra        map[string]interface{} `json:"extra,omitempty"`
}

// Write stores the result where the orchestrator expects it.
func (r *Result) Write(path string) error {
	r.mu.Lock()
	defer r.mu.Unlock()
	o := out{
		Property: r.Property, Tier: r.Tier, Seed: r.Seed,
		Evaluations: atomic.LoadInt64(&r.evaluations),
		DistinctCtr: atomic.LoadInt64(&r.distinctCtr),
		Rule:        r.Rule, Samples: r.samples, Counters: r.counters,
		Violations: r.violations, VioCount: r.vioCount, Notes: r.notes,
		Inconclusive: r.inconcl, Assumptions: r.Assumptions,
		TrustedBase: r.TrustedBase, Exhaustive: r.Exhaustive,
		Sets: map[string][]string{},
	}
	for k := range r.distinct {
		o.DistinctKeys = append(o.DistinctKeys, k)
	}
	sort.Slice(o.DistinctKeys, func(i, j int) bool { return o.DistinctKeys[i] < o.DistinctKeys[j] })
	for name, s := range r.sets {
		l := make([]string, 0, len(s))
		for m := range s {
			l = append(l, m)
		}
		sort.Strings(l)
		o.Sets[name] = l
	}
	b, err := json.Marshal(o)
	if err != nil {
		return err
	}
	tmp := path + ".tmp"
	if err := os.WriteFile(tmp, b, 0o644); err != nil {
		return err
	}
	return os.Rename(tmp, path)
}

// ---------------------------------------------------------------- panic monitor

// PanicInfo describes a recovered panic.
type PanicInfo struct {
	Value string
	// Frame is the innermost go-dblib function on the panicking stack,
	// without line number (the call-site signature).
	Frame string
	Stack string
}

// Catch runs f and reports a panic on this goroutine, if any.
func Catch(f func()) (pi *PanicInfo) {
	defer func() {
		if v := recover(); v != nil {
			st := string(debug.Stack())
			pi = &PanicInfo{Value: fmt.Sprint(v), Frame: InnermostFrame(st), Stack: st}
		}
	}()
	f()
	return nil
}

// InnermostFrame returns the first go-dblib function in a stack dump.
func InnermostFrame(stack string) string {
	for _, line := range strings.Split(stack, "\n") {
		if strings.HasPrefix(line, "github.com/SAP/go-dblib") {
			fn := line
			if i := strings.LastIndex(fn, "("); i > 0 {
				fn = fn[:i]
			}
			return strings.TrimPrefix(fn, "github.com/SAP/go-dblib/")
		}
	}
	return "?"
}

// CaseLog prints the id of the case about to run, so that a process-fatal
// event is attributed to it by the orchestrator. Callers use it for batches
// that can die (reader goroutine panics, fatal errors).
func CaseLog(format string, a ...interface{}) {
	fmt.Fprintf(os.Stderr, "CASE "+format+"\n", a...)
}
