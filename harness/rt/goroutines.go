package rt

import (
	"regexp"
	"runtime"
	"strconv"
	"strings"
)

// G is one goroutine of a full stack dump.
type G struct {
	ID     int64
	State  string   // wait reason, e.g. "chan send", "sync.RWMutex.Lock", "select", "running"
	Frames []string // function names, innermost first
	Raw    string
}

var gHeader = regexp.MustCompile(`^goroutine (\d+) \[([^\]]*)\]:`)

// Goroutines returns all goroutines with parsed wait states.
func Goroutines() []G {
	buf := make([]byte, 1<<20)
	for {
		n := runtime.Stack(buf, true)
		if n < len(buf) {
			buf = buf[:n]
			break
		}
		buf = make([]byte, 2*len(buf))
	}
	var gs []G
	for _, blk := range strings.Split(string(buf), "\n\n") {
		lines := strings.Split(blk, "\n")
		m := gHeader.FindStringSubmatch(lines[0])
		if m == nil {
			continue
		}
		id, _ := strconv.ParseInt(m[1], 10, 64)
		st := m[2]
		if i := strings.Index(st, ","); i >= 0 {
			st = st[:i]
		}
		g := G{ID: id, State: st, Raw: blk}
		for _, l := range lines[1:] {
			if strings.HasPrefix(l, "\t") || strings.HasPrefix(l, "created by") {
				continue
			}
			fn := l
			if i := strings.LastIndex(fn, "("); i > 0 {
				fn = fn[:i]
			}
			g.Frames = append(g.Frames, fn)
		}
		gs = append(gs, g)
	}
	return gs
}

// Has reports whether the goroutine has a frame containing sub.
func (g G) Has(sub string) bool {
	for _, f := range g.Frames {
		if strings.Contains(f, sub) {
			return true
		}
	}
	return false
}

// FindG returns the goroutine with the id, if it still exists.
func FindG(gs []G, id int64) *G {
	for i := range gs {
		if gs[i].ID == id {
			return &gs[i]
		}
	}
	return nil
}

// DblibGoroutines returns the goroutines that have a go-dblib frame.
func DblibGoroutines(gs []G) []G {
	var out []G
	for _, g := range gs {
		if g.Has("github.com/SAP/go-dblib/") {
			out = append(out, g)
		}
	}
	return out
}

// Parked reports whether the state is one a goroutine cannot leave by
// itself (it waits for another goroutine or for I/O).
func (g G) Parked() bool {
	switch g.State {
	case "running", "runnable", "syscall":
		return false
	}
	return true
}
