module verif/harness

go 1.19

require (
	github.com/SAP/go-dblib v0.0.0
	github.com/anishathalye/porcupine v1.3.0
)

replace github.com/SAP/go-dblib => /repo
