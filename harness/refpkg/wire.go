// Package refpkg is an independent reference codec for TDS 5.0 tokens
// ("packages" in go-dblib's vocabulary), written from the TDS 5.0 functional
// specification. It shares no code with go-dblib: only encoding/binary and
// the standard library are used. All integers are little-endian (the byte
// order a little-endian client announces in its login record).
//
// Every token type has an Encode (what a peer puts on the wire) and a Decode
// that parses structure-driven (by the inner length prefixes), reports every
// length/count field it met together with what actually followed it, and
// never trusts an outer length to find the inner fields unless the layout
// gives no other way (LANGUAGE text, CURUPDATE's optional statement block,
// DYNAMIC's optional statement block).
package refpkg

import (
	"encoding/binary"
	"fmt"
)

// Token values (TDS 5.0).
const (
	TokCurDeclare3  = 0x10
	TokParamFmt2    = 0x20
	TokLanguage     = 0x21
	TokOrderBy2     = 0x22
	TokRowFmt2      = 0x61
	TokDynamic2     = 0x62
	TokMsg          = 0x65
	TokLogout       = 0x71
	TokReturnStatus = 0x79
	TokCurClose     = 0x80
	TokCurDelete    = 0x81
	TokCurFetch     = 0x82
	TokCurInfo      = 0x83
	TokCurOpen      = 0x84
	TokCurUpdate    = 0x85
	TokCurDeclare   = 0x86
	TokCurInfo3     = 0x88
	TokOptionCmd    = 0xA6
	TokOrderBy      = 0xA9
	TokError        = 0xAA
	TokLoginAck     = 0xAD
	TokRow          = 0xD1
	TokParams       = 0xD7
	TokCapability   = 0xE2
	TokEnvChange    = 0xE3
	TokEED          = 0xE5
	TokDynamic      = 0xE7
	TokParamFmt     = 0xEC
	TokRowFmt       = 0xEE
	TokDone         = 0xFD
	TokDoneProc     = 0xFE
	TokDoneInProc   = 0xFF
)

// LenCheck is one length or count field found in an encoding, with what the
// bytes that follow it actually amount to.
type LenCheck struct {
	Field    string `json:"field"`
	Declared int    `json:"declared"`
	Actual   int    `json:"actual"`
}

func (l LenCheck) OK() bool { return l.Declared == l.Actual }

// Pkg is a reference token value.
type Pkg interface {
	// TypeName is the bounded name used in signatures ("EED", "ROWFMT", ...).
	TypeName() string
	// Encode returns the complete wire bytes including the token byte.
	Encode() []byte
}

// ---------------------------------------------------------------- writer

type wr struct{ b []byte }

func (w *wr) u8(v uint8)   { w.b = append(w.b, v) }
func (w *wr) u16(v uint16) { w.b = binary.LittleEndian.AppendUint16(w.b, v) }
func (w *wr) u32(v uint32) { w.b = binary.LittleEndian.AppendUint32(w.b, v) }
func (w *wr) i32(v int32)  { w.u32(uint32(v)) }
func (w *wr) raw(p []byte) { w.b = append(w.b, p...) }
func (w *wr) str(s string) { w.b = append(w.b, s...) }

// s8 / s16 / s32 write a length-prefixed string.
func (w *wr) s8(s string)  { w.u8(uint8(len(s))); w.str(s) }
func (w *wr) s16(s string) { w.u16(uint16(len(s))); w.str(s) }
func (w *wr) s32(s string) { w.u32(uint32(len(s))); w.str(s) }

// frame16 / frame32 prepend token and the length of body.
func frame8(tok byte, body []byte) []byte {
	return append([]byte{tok, uint8(len(body))}, body...)
}
func frame16(tok byte, body []byte) []byte {
	out := []byte{tok, 0, 0}
	binary.LittleEndian.PutUint16(out[1:], uint16(len(body)))
	return append(out, body...)
}
func frame32(tok byte, body []byte) []byte {
	out := []byte{tok, 0, 0, 0, 0}
	binary.LittleEndian.PutUint32(out[1:], uint32(len(body)))
	return append(out, body...)
}

// ---------------------------------------------------------------- reader

// ErrShort is returned when an encoding ends before its structure does.
var ErrShort = fmt.Errorf("refpkg: encoding ends inside a field")

type rd struct {
	b   []byte
	off int
	err error
	lc  []LenCheck
}

func (r *rd) need(n int) bool {
	if r.err != nil {
		return false
	}
	if n < 0 || r.off+n > len(r.b) {
		r.err = fmt.Errorf("%w (need %d bytes at offset %d of %d)", ErrShort, n, r.off, len(r.b))
		return false
	}
	return true
}
func (r *rd) u8() uint8 {
	if !r.need(1) {
		return 0
	}
	v := r.b[r.off]
	r.off++
	return v
}
func (r *rd) u16() uint16 {
	if !r.need(2) {
		return 0
	}
	v := binary.LittleEndian.Uint16(r.b[r.off:])
	r.off += 2
	return v
}
func (r *rd) u32() uint32 {
	if !r.need(4) {
		return 0
	}
	v := binary.LittleEndian.Uint32(r.b[r.off:])
	r.off += 4
	return v
}
func (r *rd) i32() int32 { return int32(r.u32()) }
func (r *rd) raw(n int) []byte {
	if !r.need(n) {
		return nil
	}
	v := append([]byte{}, r.b[r.off:r.off+n]...)
	r.off += n
	return v
}
func (r *rd) str(n int) string { return string(r.raw(n)) }
func (r *rd) s8() string       { return r.str(int(r.u8())) }
func (r *rd) s16() string      { return r.str(int(r.u16())) }
func (r *rd) s32() string      { return r.str(int(r.u32())) }
func (r *rd) left() int        { return len(r.b) - r.off }

func (r *rd) check(field string, declared, actual int) {
	r.lc = append(r.lc, LenCheck{Field: field, Declared: declared, Actual: actual})
}

// token consumes the token byte and verifies it is one of want.
func (r *rd) token(want ...byte) byte {
	t := r.u8()
	if r.err != nil {
		return 0
	}
	for _, w := range want {
		if t == w {
			return t
		}
	}
	r.err = fmt.Errorf("refpkg: token 0x%02x where one of %x was expected", t, want)
	return t
}

// Result of a Decode.
type Decoded struct {
	Pkg      Pkg
	Checks   []LenCheck
	Consumed int
}

func (r *rd) done(p Pkg) (*Decoded, error) {
	if r.err != nil {
		return nil, r.err
	}
	return &Decoded{Pkg: p, Checks: r.lc, Consumed: r.off}, nil
}
