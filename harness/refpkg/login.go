package refpkg

import "fmt"

// The TDS 5.0 login record is a fixed layout of 568 bytes. Character fields
// are padded with zero bytes to their maximum and followed by one byte giving
// the used length.
//
//	off  size field
//	  0  30+1 lhostname, lhostnlen
//	 31  30+1 lusername, lusernlen
//	 62  30+1 lpw, lpwnlen
//	 93  30+1 lhostproc, lhplen
//	124  1    lint2      (3 = little-endian)
//	125  1    lint4      (1 = little-endian)
//	126  1    lchar      (6 = ASCII)
//	127  1    lflt       (10 = IEEE little-endian)
//	128  1    ldate      (9 = little-endian)
//	129  1    lusedb
//	130  1    ldmpld
//	131  1    linterfacespare
//	132  1    ltype
//	133  4    lbufsize
//	137  3    lspare
//	140  30+1 lappname, lappnlen
//	171  30+1 lservname, lservnlen
//	202  255+1 lrempw, lrempwlen
//	458  4    ltds
//	462  10+1 lprogname, lprognlen
//	473  4    lprogvers
//	477  1    lnoshort
//	478  1    lflt4      (13 = IEEE little-endian)
//	479  1    ldate4     (17 = little-endian)
//	480  30+1 llanguage, llanglen
//	511  1    lsetlang
//	512  2    loldsecure
//	514  1    lseclogin
//	515  1    lsecbulk
//	516  1    lhalogin
//	517  6    lhasessionid
//	523  2    lsecspare
//	525  30+1 lcharset, lcharsetlen
//	556  1    lsetcharset
//	557  6+1  lpacketsize, lpacketsizelen
//	564  4    ldummy
const LoginRecordSize = 568

// LoginField is one padded character field as found in a record.
type LoginField struct {
	Name   string `json:"name"`
	Offset int    `json:"offset"`
	Max    int    `json:"max"`
	Len    int    `json:"len"`    // the length byte
	Value  string `json:"value"`  // first Len bytes
	PadOK  bool   `json:"pad_ok"` // bytes Len..Max are all zero
	LenOK  bool   `json:"len_ok"` // Len <= Max
	Raw    []byte `json:"raw"`    // the Max bytes
}

type LoginRecord struct {
	Fields map[string]LoginField `json:"fields"`
	Bytes  map[string][]byte     `json:"bytes"` // fixed-width non-character fields by name
	Size   int                   `json:"size"`
}

var loginCharFields = []struct {
	name     string
	off, max int
}{
	{"hostname", 0, 30}, {"username", 31, 30}, {"password", 62, 30}, {"hostproc", 93, 30},
	{"appname", 140, 30}, {"servname", 171, 30}, {"rempw", 202, 255}, {"progname", 462, 10},
	{"language", 480, 30}, {"charset", 525, 30}, {"packetsize", 557, 6},
}

var loginByteFields = []struct {
	name      string
	off, size int
}{
	{"int2", 124, 1}, {"int4", 125, 1}, {"char", 126, 1}, {"flt", 127, 1}, {"date", 128, 1},
	{"usedb", 129, 1}, {"dmpld", 130, 1}, {"interfacespare", 131, 1}, {"type", 132, 1},
	{"bufsize", 133, 4}, {"spare", 137, 3}, {"tds", 458, 4}, {"progvers", 473, 4},
	{"noshort", 477, 1}, {"flt4", 478, 1}, {"date4", 479, 1}, {"setlang", 511, 1},
	{"oldsecure", 512, 2}, {"seclogin", 514, 1}, {"secbulk", 515, 1}, {"halogin", 516, 1},
	{"hasessionid", 517, 6}, {"secspare", 523, 2}, {"setcharset", 556, 1}, {"dummy", 564, 4},
}

// DecodeLogin reads a login record by absolute offsets.
func DecodeLogin(b []byte) (*LoginRecord, error) {
	if len(b) < LoginRecordSize {
		return nil, fmt.Errorf("refpkg: login record has %d bytes, the layout needs %d", len(b), LoginRecordSize)
	}
	rec := &LoginRecord{Fields: map[string]LoginField{}, Bytes: map[string][]byte{}, Size: len(b)}
	for _, f := range loginCharFields {
		raw := b[f.off : f.off+f.max]
		l := int(b[f.off+f.max])
		lf := LoginField{Name: f.name, Offset: f.off, Max: f.max, Len: l, LenOK: l <= f.max, Raw: append([]byte{}, raw...)}
		n := l
		if n > f.max {
			n = f.max
		}
		lf.Value = string(raw[:n])
		lf.PadOK = true
		for _, c := range raw[n:] {
			if c != 0 {
				lf.PadOK = false
			}
		}
		rec.Fields[f.name] = lf
	}
	for _, f := range loginByteFields {
		rec.Bytes[f.name] = append([]byte{}, b[f.off:f.off+f.size]...)
	}
	return rec, nil
}

// LittleEndianConstants are the byte-order / representation announcements a
// little-endian ASCII IEEE client makes.
var LittleEndianConstants = map[string]byte{
	"int2": 3, "int4": 1, "char": 6, "flt": 10, "date": 9, "flt4": 13, "date4": 17,
}
