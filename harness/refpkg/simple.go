package refpkg

import "fmt"

// ---------------------------------------------------------------- EED 0xE5

// EED: token, uint16 length, int32 msgnumber, uint8 state, uint8 class,
// uint8 sqlstate_len, sqlstate, uint8 status, uint16 transtate,
// uint16 msg_len, msg, uint8 server_len, server, uint8 proc_len, proc,
// uint16 line.
type EED struct {
	MsgNumber uint32 `json:"msgnumber"`
	State     uint8  `json:"state"`
	Class     uint8  `json:"class"`
	SQLState  []byte `json:"sqlstate"`
	Status    uint8  `json:"status"`
	TranState uint16 `json:"transtate"`
	Msg       string `json:"msg"`
	Server    string `json:"server"`
	Proc      string `json:"proc"`
	Line      uint16 `json:"line"`
}

func (EED) TypeName() string { return "EED" }
func (p EED) body() []byte {
	w := &wr{}
	w.u32(p.MsgNumber)
	w.u8(p.State)
	w.u8(p.Class)
	w.u8(uint8(len(p.SQLState)))
	w.raw(p.SQLState)
	w.u8(p.Status)
	w.u16(p.TranState)
	w.s16(p.Msg)
	w.s8(p.Server)
	w.s8(p.Proc)
	w.u16(p.Line)
	return w.b
}
func (p EED) Encode() []byte { return frame16(TokEED, p.body()) }

func DecodeEED(b []byte) (*Decoded, error) {
	r := &rd{b: b}
	r.token(TokEED)
	l := int(r.u16())
	start := r.off
	var p EED
	p.MsgNumber = r.u32()
	p.State = r.u8()
	p.Class = r.u8()
	p.SQLState = r.raw(int(r.u8()))
	p.Status = r.u8()
	p.TranState = r.u16()
	p.Msg = r.s16()
	p.Server = r.s8()
	p.Proc = r.s8()
	p.Line = r.u16()
	r.check("length", l, r.off-start)
	return r.done(p)
}

// ---------------------------------------------------------------- ERROR 0xAA

// ErrorMsg (legacy TDS_ERROR): token, uint16 length, int32 msgnumber,
// uint8 state, uint8 class, uint16 msg_len, msg, uint8 server_len, server,
// uint8 proc_len, proc, uint16 line.
type ErrorMsg struct {
	Number int32  `json:"number"`
	State  uint8  `json:"state"`
	Class  uint8  `json:"class"`
	Msg    string `json:"msg"`
	Server string `json:"server"`
	Proc   string `json:"proc"`
	Line   uint16 `json:"line"`
}

func (ErrorMsg) TypeName() string { return "ERROR" }
func (p ErrorMsg) Encode() []byte {
	w := &wr{}
	w.i32(p.Number)
	w.u8(p.State)
	w.u8(p.Class)
	w.s16(p.Msg)
	w.s8(p.Server)
	w.s8(p.Proc)
	w.u16(p.Line)
	return frame16(TokError, w.b)
}

// EncodeNoStateClass is NOT a TDS layout: it leaves out state and class. It
// exists only to name a failure (a reader that accepts this and not Encode
// does not read state/class).
func (p ErrorMsg) EncodeNoStateClass() []byte {
	w := &wr{}
	w.i32(p.Number)
	w.s16(p.Msg)
	w.s8(p.Server)
	w.s8(p.Proc)
	w.u16(p.Line)
	return frame16(TokError, w.b)
}

func DecodeError(b []byte) (*Decoded, error) {
	r := &rd{b: b}
	r.token(TokError)
	l := int(r.u16())
	start := r.off
	var p ErrorMsg
	p.Number = r.i32()
	p.State = r.u8()
	p.Class = r.u8()
	p.Msg = r.s16()
	p.Server = r.s8()
	p.Proc = r.s8()
	p.Line = r.u16()
	r.check("length", l, r.off-start)
	return r.done(p)
}

// ---------------------------------------------------------------- ENVCHANGE 0xE3

type EnvItem struct {
	Type uint8  `json:"type"`
	New  string `json:"new"`
	Old  string `json:"old"`
}

// EnvChange: token, uint16 length, then items {uint8 type, uint8 newlen,
// new, uint8 oldlen, old} until length is used up.
type EnvChange struct {
	Items []EnvItem `json:"items"`
}

func (EnvChange) TypeName() string { return "ENVCHANGE" }
func (p EnvChange) Encode() []byte {
	w := &wr{}
	for _, it := range p.Items {
		w.u8(it.Type)
		w.s8(it.New)
		w.s8(it.Old)
	}
	return frame16(TokEnvChange, w.b)
}

func DecodeEnvChange(b []byte) (*Decoded, error) {
	r := &rd{b: b}
	r.token(TokEnvChange)
	l := int(r.u16())
	start := r.off
	p := EnvChange{}
	// structure-driven: items until the encoding ends
	for r.err == nil && r.left() > 0 {
		var it EnvItem
		it.Type = r.u8()
		it.New = r.s8()
		it.Old = r.s8()
		p.Items = append(p.Items, it)
	}
	r.check("length", l, r.off-start)
	return r.done(p)
}

// ---------------------------------------------------------------- LOGINACK 0xAD

// LoginAck: token, uint16 length, uint8 status, 4 bytes TDS version,
// uint8 name_len, program name, 4 bytes program version.
type LoginAck struct {
	Status      uint8   `json:"status"`
	TDSVersion  [4]byte `json:"tds_version"`
	ProgName    string  `json:"prog_name"`
	ProgVersion [4]byte `json:"prog_version"`
}

func (LoginAck) TypeName() string { return "LOGINACK" }
func (p LoginAck) Encode() []byte {
	w := &wr{}
	w.u8(p.Status)
	w.raw(p.TDSVersion[:])
	w.s8(p.ProgName)
	w.raw(p.ProgVersion[:])
	return frame16(TokLoginAck, w.b)
}

func DecodeLoginAck(b []byte) (*Decoded, error) {
	r := &rd{b: b}
	r.token(TokLoginAck)
	l := int(r.u16())
	start := r.off
	var p LoginAck
	p.Status = r.u8()
	copy(p.TDSVersion[:], r.raw(4))
	p.ProgName = r.s8()
	copy(p.ProgVersion[:], r.raw(4))
	r.check("length", l, r.off-start)
	return r.done(p)
}

// ---------------------------------------------------------------- DONE 0xFD/0xFE/0xFF

// Done: token, uint16 status, uint16 transtate, int32 count.
type Done struct {
	Tok       byte   `json:"token"`
	Status    uint16 `json:"status"`
	TranState uint16 `json:"transtate"`
	Count     int32  `json:"count"`
}

func (p Done) TypeName() string {
	switch p.Tok {
	case TokDoneProc:
		return "DONEPROC"
	case TokDoneInProc:
		return "DONEINPROC"
	}
	return "DONE"
}
func (p Done) Encode() []byte {
	w := &wr{}
	w.u8(p.Tok)
	w.u16(p.Status)
	w.u16(p.TranState)
	w.i32(p.Count)
	return w.b
}

func DecodeDone(b []byte) (*Decoded, error) {
	r := &rd{b: b}
	var p Done
	p.Tok = r.token(TokDone, TokDoneProc, TokDoneInProc)
	p.Status = r.u16()
	p.TranState = r.u16()
	p.Count = r.i32()
	return r.done(p)
}

// ---------------------------------------------------------------- MSG 0x65

// Msg: token, uint8 length (=3), uint8 status, uint16 msgid.
type Msg struct {
	Status uint8  `json:"status"`
	ID     uint16 `json:"id"`
}

func (Msg) TypeName() string { return "MSG" }
func (p Msg) Encode() []byte {
	w := &wr{}
	w.u8(p.Status)
	w.u16(p.ID)
	return frame8(TokMsg, w.b)
}

func DecodeMsg(b []byte) (*Decoded, error) {
	r := &rd{b: b}
	r.token(TokMsg)
	l := int(r.u8())
	start := r.off
	var p Msg
	p.Status = r.u8()
	p.ID = r.u16()
	r.check("length", l, r.off-start)
	return r.done(p)
}

// ---------------------------------------------------------------- CAPABILITY 0xE2

type CapMask struct {
	Type uint8  `json:"type"` // 1 request, 2 response, 3 security
	Mask []byte `json:"mask"`
}

// Capability: token, uint16 length, then {uint8 type, uint8 masklen, mask}.
// Capability n of a type is bit n%8 of byte len-1-n/8 of that type's mask.
type Capability struct {
	Masks []CapMask `json:"masks"`
}

func (Capability) TypeName() string { return "CAPABILITY" }
func (p Capability) Encode() []byte {
	w := &wr{}
	for _, m := range p.Masks {
		w.u8(m.Type)
		w.u8(uint8(len(m.Mask)))
		w.raw(m.Mask)
	}
	return frame16(TokCapability, w.b)
}

func DecodeCapability(b []byte) (*Decoded, error) {
	r := &rd{b: b}
	r.token(TokCapability)
	l := int(r.u16())
	start := r.off
	p := Capability{}
	for r.err == nil && r.left() > 0 {
		var m CapMask
		m.Type = r.u8()
		m.Mask = r.raw(int(r.u8()))
		p.Masks = append(p.Masks, m)
	}
	r.check("length", l, r.off-start)
	return r.done(p)
}

// MaskOf builds a value mask of n bytes with the given capabilities set.
func MaskOf(n int, caps ...int) []byte {
	m := make([]byte, n)
	for _, c := range caps {
		i := n - 1 - c/8
		if i < 0 || i >= n {
			panic(fmt.Sprintf("refpkg: capability %d does not fit a %d byte mask", c, n))
		}
		m[i] |= 1 << uint(c%8)
	}
	return m
}

// BitsOf lists the capabilities set in a value mask, ascending.
func BitsOf(mask []byte) []int {
	var out []int
	n := len(mask)
	for c := 0; c < n*8; c++ {
		if mask[n-1-c/8]&(1<<uint(c%8)) != 0 {
			out = append(out, c)
		}
	}
	return out
}

// ---------------------------------------------------------------- ORDERBY 0xA9 / ORDERBY2 0x22

// OrderBy: token, uint16 length (= number of columns), one byte per column.
type OrderBy struct {
	Cols []uint8 `json:"cols"`
}

func (OrderBy) TypeName() string { return "ORDERBY" }
func (p OrderBy) Encode() []byte { return frame16(TokOrderBy, p.Cols) }

// OrderBy2: token, uint32 length, uint16 count, uint16 per column.
type OrderBy2 struct {
	Cols []uint16 `json:"cols"`
}

func (OrderBy2) TypeName() string { return "ORDERBY2" }
func (p OrderBy2) Encode() []byte {
	w := &wr{}
	w.u16(uint16(len(p.Cols)))
	for _, c := range p.Cols {
		w.u16(c)
	}
	return frame32(TokOrderBy2, w.b)
}

// ---------------------------------------------------------------- RETURNSTATUS 0x79

// ReturnStatus: token, int32.
type ReturnStatus struct {
	Value int32 `json:"value"`
}

func (ReturnStatus) TypeName() string { return "RETURNSTATUS" }
func (p ReturnStatus) Encode() []byte {
	w := &wr{}
	w.u8(TokReturnStatus)
	w.i32(p.Value)
	return w.b
}

func DecodeReturnStatus(b []byte) (*Decoded, error) {
	r := &rd{b: b}
	r.token(TokReturnStatus)
	p := ReturnStatus{Value: r.i32()}
	return r.done(p)
}

// ---------------------------------------------------------------- LANGUAGE 0x21

// Language: token, uint32 length (= 1 + len(text)), uint8 status, text.
type Language struct {
	Status uint8  `json:"status"`
	Cmd    string `json:"cmd"`
}

func (Language) TypeName() string { return "LANGUAGE" }
func (p Language) Encode() []byte {
	w := &wr{}
	w.u8(p.Status)
	w.str(p.Cmd)
	return frame32(TokLanguage, w.b)
}

// DecodeLanguage: the text has no prefix of its own; it is everything after
// the status byte. b must hold exactly one token.
func DecodeLanguage(b []byte) (*Decoded, error) {
	r := &rd{b: b}
	r.token(TokLanguage)
	l := int(r.u32())
	start := r.off
	var p Language
	p.Status = r.u8()
	p.Cmd = r.str(r.left())
	r.check("length", l, r.off-start)
	return r.done(p)
}

// ---------------------------------------------------------------- LOGOUT 0x71

// Logout: token, uint8 options.
type Logout struct {
	Options uint8 `json:"options"`
}

func (Logout) TypeName() string { return "LOGOUT" }
func (p Logout) Encode() []byte { return []byte{TokLogout, p.Options} }

func DecodeLogout(b []byte) (*Decoded, error) {
	r := &rd{b: b}
	r.token(TokLogout)
	p := Logout{Options: r.u8()}
	return r.done(p)
}

// ---------------------------------------------------------------- DYNAMIC 0xE7 / DYNAMIC2 0x62

// Dynamic: token, length (uint16; DYNAMIC2 uint32), uint8 type, uint8
// status, uint8 id_len, id, and - optional, used with PREPARE and
// EXEC_IMMED - stmt_len (uint16; DYNAMIC2 uint32), stmt.
type Dynamic struct {
	Wide    bool   `json:"wide"`
	Type    uint8  `json:"type"`
	Status  uint8  `json:"status"`
	ID      string `json:"id"`
	HasStmt bool   `json:"has_stmt"`
	Stmt    string `json:"stmt"`
}

func (p Dynamic) TypeName() string {
	if p.Wide {
		return "DYNAMIC2"
	}
	return "DYNAMIC"
}
func (p Dynamic) Encode() []byte {
	w := &wr{}
	w.u8(p.Type)
	w.u8(p.Status)
	w.s8(p.ID)
	if p.HasStmt {
		if p.Wide {
			w.s32(p.Stmt)
		} else {
			w.s16(p.Stmt)
		}
	}
	if p.Wide {
		return frame32(TokDynamic2, w.b)
	}
	return frame16(TokDynamic, w.b)
}

// DecodeDynamic: the statement block is taken as present iff bytes remain
// after the id. b must hold exactly one token.
func DecodeDynamic(b []byte) (*Decoded, error) {
	r := &rd{b: b}
	tok := r.token(TokDynamic, TokDynamic2)
	p := Dynamic{Wide: tok == TokDynamic2}
	var l int
	if p.Wide {
		l = int(r.u32())
	} else {
		l = int(r.u16())
	}
	start := r.off
	p.Type = r.u8()
	p.Status = r.u8()
	p.ID = r.s8()
	if r.err == nil && r.left() > 0 {
		p.HasStmt = true
		if p.Wide {
			p.Stmt = r.s32()
		} else {
			p.Stmt = r.s16()
		}
	}
	r.check("length", l, r.off-start)
	return r.done(p)
}

// ---------------------------------------------------------------- cursor tokens

// Cursor identifies a cursor: by id, or - id 0 - by name (uint8 len, name).
type Cursor struct {
	ID   int32  `json:"id"`
	Name string `json:"name"`
}

func (c Cursor) put(w *wr) {
	w.i32(c.ID)
	if c.ID == 0 {
		w.s8(c.Name)
	}
}
func getCursor(r *rd) Cursor {
	c := Cursor{ID: r.i32()}
	if r.err == nil && c.ID == 0 {
		c.Name = r.s8()
	}
	return c
}

// CurInfo: token, uint16 length, cursor, uint8 command, status (uint16;
// CURINFO3 uint32), CURINFO3 only: int32 rownum, int32 totalrows; if status
// has ROWCNT (0x20): int32 rowcount.
type CurInfo struct {
	Wide      bool   `json:"wide"`
	Cursor    Cursor `json:"cursor"`
	Command   uint8  `json:"command"`
	Status    uint32 `json:"status"`
	RowNum    int32  `json:"rownum"`
	TotalRows int32  `json:"totalrows"`
	RowCount  int32  `json:"rowcount"`
}

const CurStatRowCnt = 0x20

func (p CurInfo) TypeName() string {
	if p.Wide {
		return "CURINFO3"
	}
	return "CURINFO"
}
func (p CurInfo) Encode() []byte {
	w := &wr{}
	p.Cursor.put(w)
	w.u8(p.Command)
	if p.Wide {
		w.u32(p.Status)
		w.i32(p.RowNum)
		w.i32(p.TotalRows)
	} else {
		w.u16(uint16(p.Status))
	}
	if p.Status&CurStatRowCnt != 0 {
		w.i32(p.RowCount)
	}
	if p.Wide {
		return frame16(TokCurInfo3, w.b)
	}
	return frame16(TokCurInfo, w.b)
}

func DecodeCurInfo(b []byte) (*Decoded, error) {
	r := &rd{b: b}
	tok := r.token(TokCurInfo, TokCurInfo3)
	p := CurInfo{Wide: tok == TokCurInfo3}
	l := int(r.u16())
	start := r.off
	p.Cursor = getCursor(r)
	p.Command = r.u8()
	if p.Wide {
		p.Status = r.u32()
		p.RowNum = r.i32()
		p.TotalRows = r.i32()
	} else {
		p.Status = uint32(r.u16())
	}
	if p.Status&CurStatRowCnt != 0 {
		p.RowCount = r.i32()
	}
	r.check("length", l, r.off-start)
	return r.done(p)
}

// CurDeclare: token, length (uint16; CURDECLARE3 uint32), uint8 name_len,
// name, options (uint8; CURDECLARE3 uint32), uint8 status, stmt_len (uint16;
// CURDECLARE3 uint32), stmt, column count, {uint8 len, name}.
// ColCountWidth is the width of the column count as found/emitted: the
// reference does not take a position on it (see the check's assumptions).
type CurDeclare struct {
	Wide          bool     `json:"wide"`
	Name          string   `json:"name"`
	Options       uint32   `json:"options"`
	Status        uint8    `json:"status"`
	Stmt          string   `json:"stmt"`
	Columns       []string `json:"columns"`
	ColCountWidth int      `json:"col_count_width"`
}

func (p CurDeclare) TypeName() string {
	if p.Wide {
		return "CURDECLARE3"
	}
	return "CURDECLARE"
}
func (p CurDeclare) Encode() []byte {
	w := &wr{}
	w.s8(p.Name)
	if p.Wide {
		w.u32(p.Options)
	} else {
		w.u8(uint8(p.Options))
	}
	w.u8(p.Status)
	if p.Wide {
		w.s32(p.Stmt)
	} else {
		w.s16(p.Stmt)
	}
	if p.ColCountWidth == 1 {
		w.u8(uint8(len(p.Columns)))
	} else {
		w.u16(uint16(len(p.Columns)))
	}
	for _, c := range p.Columns {
		w.s8(c)
	}
	if p.Wide {
		return frame32(TokCurDeclare3, w.b)
	}
	return frame16(TokCurDeclare, w.b)
}

// DecodeCurDeclare parses with the given width (1 or 2) of the column count.
func DecodeCurDeclare(b []byte, colCountWidth int) (*Decoded, error) {
	r := &rd{b: b}
	tok := r.token(TokCurDeclare, TokCurDeclare3)
	p := CurDeclare{Wide: tok == TokCurDeclare3, ColCountWidth: colCountWidth}
	var l int
	if p.Wide {
		l = int(r.u32())
	} else {
		l = int(r.u16())
	}
	start := r.off
	p.Name = r.s8()
	if p.Wide {
		p.Options = r.u32()
	} else {
		p.Options = uint32(r.u8())
	}
	p.Status = r.u8()
	if p.Wide {
		p.Stmt = r.s32()
	} else {
		p.Stmt = r.s16()
	}
	var n int
	if colCountWidth == 1 {
		n = int(r.u8())
	} else {
		n = int(r.u16())
	}
	for i := 0; i < n && r.err == nil; i++ {
		p.Columns = append(p.Columns, r.s8())
	}
	r.check("column-count", n, len(p.Columns))
	r.check("length", l, r.off-start)
	return r.done(p)
}

// CurOpen: token, uint16 length, cursor, uint8 status.
type CurOpen struct {
	Cursor Cursor `json:"cursor"`
	Status uint8  `json:"status"`
}

func (CurOpen) TypeName() string { return "CUROPEN" }
func (p CurOpen) Encode() []byte {
	w := &wr{}
	p.Cursor.put(w)
	w.u8(p.Status)
	return frame16(TokCurOpen, w.b)
}
func DecodeCurOpen(b []byte) (*Decoded, error) {
	r := &rd{b: b}
	r.token(TokCurOpen)
	l := int(r.u16())
	start := r.off
	var p CurOpen
	p.Cursor = getCursor(r)
	p.Status = r.u8()
	r.check("length", l, r.off-start)
	return r.done(p)
}

// CurClose: token, uint16 length, cursor, uint8 options.
type CurClose struct {
	Cursor  Cursor `json:"cursor"`
	Options uint8  `json:"options"`
}

func (CurClose) TypeName() string { return "CURCLOSE" }
func (p CurClose) Encode() []byte {
	w := &wr{}
	p.Cursor.put(w)
	w.u8(p.Options)
	return frame16(TokCurClose, w.b)
}
func DecodeCurClose(b []byte) (*Decoded, error) {
	r := &rd{b: b}
	r.token(TokCurClose)
	l := int(r.u16())
	start := r.off
	var p CurClose
	p.Cursor = getCursor(r)
	p.Options = r.u8()
	r.check("length", l, r.off-start)
	return r.done(p)
}

// CurFetch: token, uint16 length, cursor, uint8 type, and for ABS (5) and
// REL (6) an int32 row number.
type CurFetch struct {
	Cursor Cursor `json:"cursor"`
	Type   uint8  `json:"type"`
	RowNum int32  `json:"rownum"`
}

func (CurFetch) TypeName() string { return "CURFETCH" }
func (p CurFetch) hasRow() bool   { return p.Type == 5 || p.Type == 6 }
func (p CurFetch) Encode() []byte {
	w := &wr{}
	p.Cursor.put(w)
	w.u8(p.Type)
	if p.hasRow() {
		w.i32(p.RowNum)
	}
	return frame16(TokCurFetch, w.b)
}
func DecodeCurFetch(b []byte) (*Decoded, error) {
	r := &rd{b: b}
	r.token(TokCurFetch)
	l := int(r.u16())
	start := r.off
	var p CurFetch
	p.Cursor = getCursor(r)
	p.Type = r.u8()
	if p.hasRow() {
		p.RowNum = r.i32()
	}
	r.check("length", l, r.off-start)
	return r.done(p)
}

// CurDelete: token, uint16 length, cursor, uint8 status, uint8 table_len,
// table.
type CurDelete struct {
	Cursor Cursor `json:"cursor"`
	Status uint8  `json:"status"`
	Table  string `json:"table"`
}

func (CurDelete) TypeName() string { return "CURDELETE" }
func (p CurDelete) Encode() []byte {
	w := &wr{}
	p.Cursor.put(w)
	w.u8(p.Status)
	w.s8(p.Table)
	return frame16(TokCurDelete, w.b)
}
func DecodeCurDelete(b []byte) (*Decoded, error) {
	r := &rd{b: b}
	r.token(TokCurDelete)
	l := int(r.u16())
	start := r.off
	var p CurDelete
	p.Cursor = getCursor(r)
	p.Status = r.u8()
	p.Table = r.s8()
	r.check("length", l, r.off-start)
	return r.done(p)
}

// CurUpdate: token, uint16 length, cursor, uint8 status, uint8 table_len,
// table, and a statement block (uint16 len, stmt). Whether the block may be
// left out when empty is not settled by the reference: HasStmt records what
// was found / what is emitted.
type CurUpdate struct {
	Cursor  Cursor `json:"cursor"`
	Status  uint8  `json:"status"`
	Table   string `json:"table"`
	HasStmt bool   `json:"has_stmt"`
	Stmt    string `json:"stmt"`
}

func (CurUpdate) TypeName() string { return "CURUPDATE" }
func (p CurUpdate) Encode() []byte {
	w := &wr{}
	p.Cursor.put(w)
	w.u8(p.Status)
	w.s8(p.Table)
	if p.HasStmt {
		w.s16(p.Stmt)
	}
	return frame16(TokCurUpdate, w.b)
}
func DecodeCurUpdate(b []byte) (*Decoded, error) {
	r := &rd{b: b}
	r.token(TokCurUpdate)
	l := int(r.u16())
	start := r.off
	var p CurUpdate
	p.Cursor = getCursor(r)
	p.Status = r.u8()
	p.Table = r.s8()
	if r.err == nil && r.left() > 0 {
		p.HasStmt = true
		p.Stmt = r.s16()
	}
	r.check("length", l, r.off-start)
	return r.done(p)
}

// ---------------------------------------------------------------- OPTIONCMD 0xA6

// OptionCmd: token, uint16 length, uint8 command, uint8 option,
// uint8 arg_len, arg.
type OptionCmd struct {
	Cmd    uint8  `json:"cmd"`
	Option uint8  `json:"option"`
	Arg    []byte `json:"arg"`
}

func (OptionCmd) TypeName() string { return "OPTIONCMD" }
func (p OptionCmd) Encode() []byte {
	w := &wr{}
	w.u8(p.Cmd)
	w.u8(p.Option)
	w.u8(uint8(len(p.Arg)))
	w.raw(p.Arg)
	return frame16(TokOptionCmd, w.b)
}
func DecodeOptionCmd(b []byte) (*Decoded, error) {
	r := &rd{b: b}
	r.token(TokOptionCmd)
	l := int(r.u16())
	start := r.off
	var p OptionCmd
	p.Cmd = r.u8()
	p.Option = r.u8()
	p.Arg = r.raw(int(r.u8()))
	r.check("length", l, r.off-start)
	return r.done(p)
}
