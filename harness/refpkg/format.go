package refpkg

import "fmt"

// Kind is how a data type's format and data are laid out.
type Kind int

const (
	KFixed   Kind = iota // format: nothing; data: Size bytes
	KLen1                // format: uint8 maxlen; data: uint8 len, bytes
	KLen4                // format: uint32 maxlen; data: uint32 len, bytes
	KDecimal             // format: uint8 maxlen, uint8 precision, uint8 scale; data: uint8 len, bytes
	KBigTime             // format: uint8 maxlen, uint8 scale; data: uint8 len, bytes
	KText                // format: uint32 maxlen, uint16 name_len, object name; data: uint8 txtptr_len [txtptr, 8 bytes timestamp, uint32 len, bytes]
	KBlob                // NOT from the specification, see TypeInfo
)

type TypeInfo struct {
	Code byte
	Name string
	Kind Kind
	Size int // KFixed only
}

// Types lists every TDS 5.0 data type the library has a format for.
// KBlob (0x24) follows the library's own layout (uint8 maxlen, uint8
// blobtype, for blobtype 1 and 2 uint16 classid_len + classid; data:
// uint8 serialisation, uint16-prefixed subclass id or locator, chunks with a
// uint32 length whose high bit marks the last one) because I am not certain
// of the specification there; it is only used to compare the library's
// writer with its reader.
var Types = []TypeInfo{
	{0x30, "INT1", KFixed, 1}, {0x34, "INT2", KFixed, 2}, {0x38, "INT4", KFixed, 4}, {0xBF, "INT8", KFixed, 8},
	{0x41, "UINT2", KFixed, 2}, {0x42, "UINT4", KFixed, 4}, {0x43, "UINT8", KFixed, 8},
	{0x3B, "FLT4", KFixed, 4}, {0x3E, "FLT8", KFixed, 8}, {0x32, "BIT", KFixed, 1},
	{0x3D, "DATETIME", KFixed, 8}, {0x3A, "SHORTDATE", KFixed, 4}, {0x3C, "MONEY", KFixed, 8}, {0x7A, "SHORTMONEY", KFixed, 4},
	{0x31, "DATE", KFixed, 4}, {0x33, "TIME", KFixed, 4}, {0xB0, "SINT1", KFixed, 1}, {0x2E, "INTERVAL", KFixed, 8},
	{0x2F, "CHAR", KLen1, 0}, {0x27, "VARCHAR", KLen1, 0}, {0x2D, "BINARY", KLen1, 0}, {0x25, "VARBINARY", KLen1, 0},
	{0x26, "INTN", KLen1, 0}, {0x44, "UINTN", KLen1, 0}, {0x6D, "FLTN", KLen1, 0}, {0x6E, "MONEYN", KLen1, 0},
	{0x6F, "DATETIMEN", KLen1, 0}, {0x7B, "DATEN", KLen1, 0}, {0x93, "TIMEN", KLen1, 0},
	{0x68, "BOUNDARY", KLen1, 0}, {0x67, "SENSITIVITY", KLen1, 0},
	{0x6A, "DECN", KDecimal, 0}, {0x6C, "NUMN", KDecimal, 0},
	{0xBB, "BIGDATETIMEN", KBigTime, 0}, {0xBC, "BIGTIMEN", KBigTime, 0},
	{0xAF, "LONGCHAR", KLen4, 0}, {0xE1, "LONGBINARY", KLen4, 0},
	{0x23, "TEXT", KText, 0}, {0x22, "IMAGE", KText, 0}, {0xAE, "UNITEXT", KText, 0}, {0xA3, "XML", KText, 0},
	{0x24, "BLOB", KBlob, 0},
}

func LookupType(code byte) (TypeInfo, bool) {
	for _, t := range Types {
		if t.Code == code {
			return t, true
		}
	}
	return TypeInfo{}, false
}

// ColumnStatus is the format status bit that puts a status byte in front of
// every value of the column.
const ColumnStatus = 0x08

// Column is one parameter / column format.
type Column struct {
	// ROWFMT2 only
	Label   string `json:"label,omitempty"`
	Catalog string `json:"catalog,omitempty"`
	Schema  string `json:"schema,omitempty"`
	Table   string `json:"table,omitempty"`

	Name      string `json:"name"`
	Status    uint32 `json:"status"`
	UserType  int32  `json:"usertype"`
	DataType  uint8  `json:"datatype"`
	MaxLen    uint32 `json:"maxlen"`
	Precision uint8  `json:"precision,omitempty"`
	Scale     uint8  `json:"scale,omitempty"`
	ObjName   string `json:"objname,omitempty"` // KText: table name
	BlobType  uint8  `json:"blobtype,omitempty"`
	ClassID   string `json:"classid,omitempty"`
	Locale    string `json:"locale"`
}

func (c Column) blobHasClass() bool { return c.BlobType == 1 || c.BlobType == 2 }

// Format is PARAMFMT 0xEC / PARAMFMT2 0x20 / ROWFMT 0xEE / ROWFMT2 0x61:
// token, length (uint16; the "2" tokens uint32), uint16 count, per column
// [ROWFMT2: label, catalog, schema, table, each uint8-prefixed] uint8
// name_len, name, status (uint8; the "2" tokens uint32), int32 usertype,
// uint8 datatype, type-specific format, uint8 locale_len, locale.
type Format struct {
	Tok  byte     `json:"token"`
	Cols []Column `json:"cols"`
}

func (f Format) Wide() bool { return f.Tok == TokParamFmt2 || f.Tok == TokRowFmt2 }
func (f Format) TypeName() string {
	switch f.Tok {
	case TokParamFmt:
		return "PARAMFMT"
	case TokParamFmt2:
		return "PARAMFMT2"
	case TokRowFmt:
		return "ROWFMT"
	case TokRowFmt2:
		return "ROWFMT2"
	}
	return fmt.Sprintf("FMT%02x", f.Tok)
}

func (f Format) body() []byte {
	w := &wr{}
	w.u16(uint16(len(f.Cols)))
	for _, c := range f.Cols {
		if f.Tok == TokRowFmt2 {
			w.s8(c.Label)
			w.s8(c.Catalog)
			w.s8(c.Schema)
			w.s8(c.Table)
		}
		w.s8(c.Name)
		if f.Wide() {
			w.u32(c.Status)
		} else {
			w.u8(uint8(c.Status))
		}
		w.i32(c.UserType)
		w.u8(c.DataType)
		ti, _ := LookupType(c.DataType)
		switch ti.Kind {
		case KLen1:
			w.u8(uint8(c.MaxLen))
		case KLen4:
			w.u32(c.MaxLen)
		case KDecimal:
			w.u8(uint8(c.MaxLen))
			w.u8(c.Precision)
			w.u8(c.Scale)
		case KBigTime:
			w.u8(uint8(c.MaxLen))
			w.u8(c.Scale)
		case KText:
			w.u32(c.MaxLen)
			w.s16(c.ObjName)
		case KBlob:
			w.u8(uint8(c.MaxLen))
			w.u8(c.BlobType)
			if c.blobHasClass() {
				w.s16(c.ClassID)
			}
		}
		w.s8(c.Locale)
	}
	return w.b
}

func (f Format) Encode() []byte {
	if f.Wide() {
		return frame32(f.Tok, f.body())
	}
	return frame16(f.Tok, f.body())
}

// EncodeLength32 is NOT a TDS layout for the narrow tokens: it frames the
// body with a uint32 length whatever the token. It exists to name a failure
// (a reader of narrow ROWFMT that accepts this and not Encode reads a 4 byte
// length) and to still exercise such a reader's per-column parsing.
func (f Format) EncodeLength32() []byte { return frame32(f.Tok, f.body()) }

// DecodeFormat parses any of the four format tokens.
func DecodeFormat(b []byte) (*Decoded, error) {
	r := &rd{b: b}
	tok := r.token(TokParamFmt, TokParamFmt2, TokRowFmt, TokRowFmt2)
	f := Format{Tok: tok}
	var l int
	if f.Wide() {
		l = int(r.u32())
	} else {
		l = int(r.u16())
	}
	start := r.off
	n := int(r.u16())
	for i := 0; i < n && r.err == nil; i++ {
		var c Column
		if tok == TokRowFmt2 {
			c.Label = r.s8()
			c.Catalog = r.s8()
			c.Schema = r.s8()
			c.Table = r.s8()
		}
		c.Name = r.s8()
		if f.Wide() {
			c.Status = r.u32()
		} else {
			c.Status = uint32(r.u8())
		}
		c.UserType = r.i32()
		c.DataType = r.u8()
		if r.err != nil {
			break
		}
		ti, ok := LookupType(c.DataType)
		if !ok {
			r.err = fmt.Errorf("refpkg: unknown data type 0x%02x in column %d", c.DataType, i)
			break
		}
		switch ti.Kind {
		case KLen1:
			c.MaxLen = uint32(r.u8())
		case KLen4:
			c.MaxLen = r.u32()
		case KDecimal:
			c.MaxLen = uint32(r.u8())
			c.Precision = r.u8()
			c.Scale = r.u8()
		case KBigTime:
			c.MaxLen = uint32(r.u8())
			c.Scale = r.u8()
		case KText:
			c.MaxLen = r.u32()
			c.ObjName = r.s16()
		case KBlob:
			c.MaxLen = uint32(r.u8())
			c.BlobType = r.u8()
			if c.blobHasClass() {
				c.ClassID = r.s16()
			}
		}
		c.Locale = r.s8()
		f.Cols = append(f.Cols, c)
	}
	r.check("count", n, len(f.Cols))
	r.check("length", l, r.off-start)
	return r.done(f)
}

// ---------------------------------------------------------------- ROW 0xD1 / PARAMS 0xD7

// Cell is one value of a row / parameter list.
type Cell struct {
	Status uint8  `json:"status"` // present on the wire iff the column has ColumnStatus
	Data   []byte `json:"data"`   // value bytes (KText: the text itself; KBlob: all chunks joined)

	// KText
	TextNull  bool   `json:"text_null,omitempty"` // txtptr_len 0: nothing follows
	TxtPtr    []byte `json:"txtptr,omitempty"`
	TimeStamp []byte `json:"timestamp,omitempty"` // 8 bytes

	// KBlob (library layout)
	SerType uint8  `json:"sertype,omitempty"`
	SubID   string `json:"subid,omitempty"` // subclass id (blobtype 1,2) or locator (6,7,8)
}

// Row is ROW / PARAMS: token, then one value per column of the preceding
// format token; there is no length field for the row as a whole.
type Row struct {
	Tok   byte   `json:"token"`
	Fmt   Format `json:"fmt"`
	Cells []Cell `json:"cells"`
}

func (p Row) TypeName() string {
	if p.Tok == TokParams {
		return "PARAMS"
	}
	return "ROW"
}

const blobLast = 0x80000000

func (p Row) Encode() []byte {
	w := &wr{}
	w.u8(p.Tok)
	for i, c := range p.Fmt.Cols {
		cell := p.Cells[i]
		if c.Status&ColumnStatus != 0 {
			w.u8(cell.Status)
		}
		ti, _ := LookupType(c.DataType)
		switch ti.Kind {
		case KFixed:
			w.raw(cell.Data)
		case KLen1, KDecimal, KBigTime:
			w.u8(uint8(len(cell.Data)))
			w.raw(cell.Data)
		case KLen4:
			w.u32(uint32(len(cell.Data)))
			w.raw(cell.Data)
		case KText:
			if cell.TextNull {
				w.u8(0)
				break
			}
			w.u8(uint8(len(cell.TxtPtr)))
			w.raw(cell.TxtPtr)
			w.raw(cell.TimeStamp)
			w.u32(uint32(len(cell.Data)))
			w.raw(cell.Data)
		case KBlob:
			w.u8(cell.SerType)
			if c.blobHasClass() || (c.BlobType >= 6 && c.BlobType <= 8) {
				w.s16(cell.SubID)
			}
			w.u32(uint32(len(cell.Data)) | blobLast)
			w.raw(cell.Data)
		}
	}
	return w.b
}

// DecodeRow parses a ROW / PARAMS token against its format.
func DecodeRow(b []byte, f Format) (*Decoded, error) {
	r := &rd{b: b}
	tok := r.token(TokRow, TokParams)
	p := Row{Tok: tok, Fmt: f}
	for i, c := range f.Cols {
		if r.err != nil {
			break
		}
		var cell Cell
		if c.Status&ColumnStatus != 0 {
			cell.Status = r.u8()
		}
		ti, _ := LookupType(c.DataType)
		switch ti.Kind {
		case KFixed:
			cell.Data = r.raw(ti.Size)
		case KLen1, KDecimal, KBigTime:
			cell.Data = r.raw(int(r.u8()))
		case KLen4:
			cell.Data = r.raw(int(r.u32()))
		case KText:
			n := int(r.u8())
			if n == 0 {
				cell.TextNull = true
				break
			}
			cell.TxtPtr = r.raw(n)
			cell.TimeStamp = r.raw(8)
			cell.Data = r.raw(int(r.u32()))
		case KBlob:
			cell.SerType = r.u8()
			if c.blobHasClass() || (c.BlobType >= 6 && c.BlobType <= 8) {
				cell.SubID = r.s16()
			}
			chunks := 0
			for r.err == nil {
				l := r.u32()
				cell.Data = append(cell.Data, r.raw(int(l&^blobLast))...)
				chunks++
				if l&blobLast != 0 {
					break
				}
			}
			_ = chunks
		}
		if r.err != nil {
			r.err = fmt.Errorf("column %d (%s): %w", i, ti.Name, r.err)
		}
		p.Cells = append(p.Cells, cell)
	}
	return r.done(p)
}
