package main

// Bridge between the reference token values (harness/refpkg) and go-dblib's
// package values, shared by C06 and C07: building a library package from a
// reference value, writing a library package into a recording BytesChannel,
// reading bytes with the library through a real PacketQueue the way the
// channel does (token byte, LookupPackage, LastPkg, ReadFrom).

import (
	"encoding/binary"
	"errors"
	"fmt"
	"math"
	"reflect"
	"sort"
	"strings"
	"unsafe"

	"github.com/SAP/go-dblib/asetypes"
	"github.com/SAP/go-dblib/tds"

	"verif/harness/canon"
	"verif/harness/refpkg"
	"verif/harness/rt"
)

// ---------------------------------------------------------------- recording channel

// recCh is a BytesChannel that records what is written to it. Reads fail.
type recCh struct{ b []byte }

var _ tds.BytesChannel = (*recCh)(nil)

func (c *recCh) Position() (int, int)         { return 0, len(c.b) }
func (c *recCh) SetPosition(int, int)         {}
func (c *recCh) DiscardUntilCurrentPosition() {}
func (c *recCh) Read(p []byte) (int, error)   { return 0, tds.ErrNotEnoughBytes }
func (c *recCh) Write(p []byte) (int, error)  { c.b = append(c.b, p...); return len(p), nil }
func (c *recCh) Bytes(n int) ([]byte, error)  { return nil, tds.ErrNotEnoughBytes }
func (c *recCh) WriteBytes(p []byte) error    { c.b = append(c.b, p...); return nil }
func (c *recCh) Byte() (byte, error)          { return 0, tds.ErrNotEnoughBytes }
func (c *recCh) WriteByte(v byte) error       { c.b = append(c.b, v); return nil }
func (c *recCh) Uint8() (uint8, error)        { return 0, tds.ErrNotEnoughBytes }
func (c *recCh) WriteUint8(v uint8) error     { c.b = append(c.b, v); return nil }
func (c *recCh) Int8() (int8, error)          { return 0, tds.ErrNotEnoughBytes }
func (c *recCh) WriteInt8(v int8) error       { c.b = append(c.b, byte(v)); return nil }
func (c *recCh) Uint16() (uint16, error)      { return 0, tds.ErrNotEnoughBytes }
func (c *recCh) WriteUint16(v uint16) error {
	c.b = binary.LittleEndian.AppendUint16(c.b, v)
	return nil
}
func (c *recCh) Int16() (int16, error)    { return 0, tds.ErrNotEnoughBytes }
func (c *recCh) WriteInt16(v int16) error { return c.WriteUint16(uint16(v)) }
func (c *recCh) Uint32() (uint32, error)  { return 0, tds.ErrNotEnoughBytes }
func (c *recCh) WriteUint32(v uint32) error {
	c.b = binary.LittleEndian.AppendUint32(c.b, v)
	return nil
}
func (c *recCh) Int32() (int32, error)    { return 0, tds.ErrNotEnoughBytes }
func (c *recCh) WriteInt32(v int32) error { return c.WriteUint32(uint32(v)) }
func (c *recCh) Uint64() (uint64, error)  { return 0, tds.ErrNotEnoughBytes }
func (c *recCh) WriteUint64(v uint64) error {
	c.b = binary.LittleEndian.AppendUint64(c.b, v)
	return nil
}
func (c *recCh) Int64() (int64, error)      { return 0, tds.ErrNotEnoughBytes }
func (c *recCh) WriteInt64(v int64) error   { return c.WriteUint64(uint64(v)) }
func (c *recCh) String(int) (string, error) { return "", tds.ErrNotEnoughBytes }
func (c *recCh) WriteString(s string) error { c.b = append(c.b, s...); return nil }

// libWrite returns the bytes pkg.WriteTo produces.
func libWrite(pkg tds.Package) (b []byte, err error, pi *rt.PanicInfo) {
	ch := &recCh{}
	pi = rt.Catch(func() { err = pkg.WriteTo(ch) })
	return ch.b, err, pi
}

// ---------------------------------------------------------------- reading like the channel

const pqChunk = 65527 // body of the largest packet a uint16 header length allows

type readResult struct {
	Pkg      tds.Package
	Err      error // ReadFrom's (or LastPkg's / LookupPackage's) error
	Stage    string
	Consumed int // bytes consumed from x including the token byte
	Panic    *rt.PanicInfo
}

// newQueue returns a PacketQueue holding exactly x (cut into packets of at
// most pqChunk bytes).
func newQueue(x []byte) *tds.PacketQueue {
	q := tds.NewPacketQueue(func() int { return pqChunk + 8 })
	addBytes(q, x)
	return q
}

func addBytes(q *tds.PacketQueue, x []byte) {
	for off := 0; off < len(x); off += pqChunk {
		end := off + pqChunk
		if end > len(x) {
			end = len(x)
		}
		p := &tds.Packet{Data: append([]byte(nil), x[off:end]...)}
		p.Header.Length = uint16(8 + end - off)
		q.AddPacket(p)
	}
}

// lookupFresh is LookupPackage plus the two types that have a reader but no
// entry in LookupPackage.
func lookupFresh(tok byte) (tds.Package, error) {
	switch tok {
	case refpkg.TokCurClose:
		return &tds.CurClosePackage{}, nil
	case refpkg.TokOptionCmd:
		return &tds.OptionCmdPackage{}, nil
	}
	return tds.LookupPackage(tds.Token(tok))
}

// parseFrom does what Channel.tryParsePackage does on q at its current
// position: token byte, LookupPackage, LastPkg(prev), ReadFrom.
func parseFrom(q *tds.PacketQueue, prev tds.Package) (res readResult) {
	res.Panic = rt.Catch(func() {
		tok, err := q.Byte()
		if err != nil {
			res.Err, res.Stage = err, "token"
			return
		}
		pkg, err := lookupFresh(tok)
		if err != nil {
			res.Err, res.Stage = err, "lookup"
			return
		}
		res.Pkg = pkg
		if acc, ok := pkg.(tds.LastPkgAcceptor); ok {
			if err := acc.LastPkg(prev); err != nil {
				res.Err, res.Stage = err, "lastpkg"
				return
			}
		}
		if err := pkg.ReadFrom(q); err != nil {
			res.Err, res.Stage = err, "read"
		}
	})
	return res
}

// libRead parses x (one token) with a fresh queue and reports how many bytes
// were consumed. sizes are the packet body sizes the queue holds.
func libRead(x []byte, prev tds.Package) readResult {
	q := newQueue(x)
	res := parseFrom(q, prev)
	res.Consumed = flatPos(q, len(x))
	return res
}

// flatPos converts the queue position to a byte offset for a queue filled
// by addBytes with total bytes in one go.
func flatPos(q *tds.PacketQueue, total int) int {
	pi, di := q.Position()
	off := pi*pqChunk + di
	if off > total {
		off = total
	}
	return off
}

// ---------------------------------------------------------------- unexported fields

func findField(v reflect.Value, name string) (reflect.Value, bool) {
	for v.Kind() == reflect.Ptr || v.Kind() == reflect.Interface {
		if v.IsNil() {
			return reflect.Value{}, false
		}
		v = v.Elem()
	}
	if v.Kind() != reflect.Struct {
		return reflect.Value{}, false
	}
	t := v.Type()
	for i := 0; i < t.NumField(); i++ {
		if t.Field(i).Name == name {
			return v.Field(i), true
		}
	}
	for i := 0; i < t.NumField(); i++ {
		if t.Field(i).Anonymous {
			if f, ok := findField(v.Field(i), name); ok {
				return f, true
			}
		}
	}
	return reflect.Value{}, false
}

// setField sets a (possibly unexported, possibly embedded) field of the
// struct obj points to.
func setField(obj interface{}, name string, val interface{}) error {
	f, ok := findField(reflect.ValueOf(obj), name)
	if !ok {
		return fmt.Errorf("%T has no field %q", obj, name)
	}
	if !f.CanAddr() {
		return fmt.Errorf("%T.%s is not addressable", obj, name)
	}
	w := reflect.NewAt(f.Type(), unsafe.Pointer(f.UnsafeAddr())).Elem()
	v := reflect.ValueOf(val)
	if !v.Type().ConvertibleTo(f.Type()) {
		return fmt.Errorf("%T.%s: cannot store %T in %s", obj, name, val, f.Type())
	}
	w.Set(v.Convert(f.Type()))
	return nil
}

func getField(obj interface{}, name string) (reflect.Value, bool) {
	f, ok := findField(reflect.ValueOf(obj), name)
	if !ok {
		return f, false
	}
	if f.CanAddr() {
		return reflect.NewAt(f.Type(), unsafe.Pointer(f.UnsafeAddr())).Elem(), true
	}
	return f, true
}

// ---------------------------------------------------------------- reference -> library

// Library constants used to decide which optional parts exist.
const (
	dynHasStmtMask = uint8(tds.TDS_DYN_PREPARE | tds.TDS_DYN_EXEC_IMMED)
)

func libFieldFmt(c refpkg.Column, rowWide bool) (tds.FieldFmt, error) {
	f, err := tds.LookupFieldFmt(asetypes.DataType(c.DataType))
	if err != nil {
		return nil, err
	}
	f.SetName(c.Name)
	f.SetStatus(uint(c.Status))
	f.SetUserType(c.UserType)
	f.SetLocaleInfo(c.Locale)
	if rowWide {
		f.SetColumnLabel(c.Label)
		f.SetCatalogue(c.Catalog)
		f.SetSchema(c.Schema)
		f.SetTable(c.Table)
	}
	ti, _ := refpkg.LookupType(c.DataType)
	if ti.Kind != refpkg.KFixed {
		if err := setField(f, "maxLength", int64(c.MaxLen)); err != nil {
			return nil, err
		}
	}
	switch ti.Kind {
	case refpkg.KDecimal:
		if err := setField(f, "precision", c.Precision); err != nil {
			return nil, err
		}
		if err := setField(f, "scale", c.Scale); err != nil {
			return nil, err
		}
	case refpkg.KBigTime:
		if err := setField(f, "scale", c.Scale); err != nil {
			return nil, err
		}
	case refpkg.KText:
		if err := setField(f, "tableName", c.ObjName); err != nil {
			return nil, err
		}
	case refpkg.KBlob:
		if err := setField(f, "blobType", c.BlobType); err != nil {
			return nil, err
		}
		if err := setField(f, "classID", c.ClassID); err != nil {
			return nil, err
		}
	}
	return f, nil
}

func libFormat(q refpkg.Format) (tds.Package, error) {
	pkg, err := tds.LookupPackage(tds.Token(q.Tok))
	if err != nil {
		return nil, err
	}
	fmts := make([]tds.FieldFmt, len(q.Cols))
	for i, c := range q.Cols {
		if fmts[i], err = libFieldFmt(c, q.Tok == refpkg.TokRowFmt2); err != nil {
			return nil, fmt.Errorf("column %d: %w", i, err)
		}
	}
	switch p := pkg.(type) {
	case *tds.ParamFmtPackage:
		p.Fmts = fmts
	case *tds.RowFmtPackage:
		p.Fmts = fmts
	default:
		return nil, fmt.Errorf("LookupPackage(0x%02x) gave %T", q.Tok, pkg)
	}
	return pkg, nil
}

// goValueOf is the Go value the library uses for raw value bytes of a type
// (what its own decoder yields), so that the library's writer is fed values
// of the Go types it expects. Value semantics are C04/C05's subject; the
// package checks only use values chosen to be unproblematic.
func goValueOf(dt uint8, raw []byte) (v interface{}, err error) {
	if pi := rt.Catch(func() { v, err = asetypes.DataType(dt).GoValue(binary.LittleEndian, raw) }); pi != nil {
		return nil, fmt.Errorf("GoValue panicked: %s", pi.Value)
	}
	return v, err
}

var blobSerByWire = map[uint8]map[uint8]uint8{ // wire serialisation -> blobtype -> library enum
	0: {1: 0, 2: 0, 3: 1, 4: 2, 5: 3},
	1: {5: 4},
	2: {5: 5},
}

func libRow(q refpkg.Row) (pkg tds.Package, prev tds.Package, err error) {
	prev, err = libFormat(q.Fmt)
	if err != nil {
		return nil, nil, err
	}
	pkg, err = tds.LookupPackage(tds.Token(q.Tok))
	if err != nil {
		return nil, nil, err
	}
	acc, ok := pkg.(tds.LastPkgAcceptor)
	if !ok {
		return nil, nil, fmt.Errorf("%T is no LastPkgAcceptor", pkg)
	}
	if err := acc.LastPkg(prev); err != nil {
		return nil, nil, fmt.Errorf("LastPkg: %w", err)
	}
	var fields []tds.FieldData
	switch p := pkg.(type) {
	case *tds.ParamsPackage:
		fields = p.DataFields
	case *tds.RowPackage:
		fields = p.DataFields
	}
	if len(fields) != len(q.Cells) {
		return nil, nil, fmt.Errorf("LastPkg prepared %d fields for %d columns", len(fields), len(q.Cells))
	}
	for i, cell := range q.Cells {
		c := q.Fmt.Cols[i]
		ti, _ := refpkg.LookupType(c.DataType)
		fd := fields[i]
		if c.Status&refpkg.ColumnStatus != 0 {
			if err := setField(fd, "status", cell.Status); err != nil {
				return nil, nil, err
			}
		}
		switch ti.Kind {
		case refpkg.KText:
			if err := setField(fd, "txtPtr", append([]byte{}, cell.TxtPtr...)); err != nil {
				return nil, nil, err
			}
			if err := setField(fd, "timeStamp", append([]byte{}, cell.TimeStamp...)); err != nil {
				return nil, nil, err
			}
			if cell.TextNull {
				// txtptr_len 0: SQL NULL, decodes to a nil value
				fd.SetValue(nil)
			} else {
				fd.SetValue(append([]byte{}, cell.Data...))
			}
		case refpkg.KBlob:
			ser, ok := blobSerByWire[cell.SerType][c.BlobType]
			if !ok {
				ser = 0
			}
			if err := setField(fd, "serializationType", ser); err != nil {
				return nil, nil, err
			}
			if c.BlobType == 1 || c.BlobType == 2 {
				if err := setField(fd, "subClassID", cell.SubID); err != nil {
					return nil, nil, err
				}
			} else if c.BlobType >= 6 && c.BlobType <= 8 {
				if err := setField(fd, "locator", cell.SubID); err != nil {
					return nil, nil, err
				}
			}
			fd.SetValue(append([]byte{}, cell.Data...))
		default:
			v, err := goValueOf(c.DataType, cell.Data)
			if err != nil {
				return nil, nil, fmt.Errorf("column %d (%s): no Go value for % x: %w", i, ti.Name, cell.Data, err)
			}
			if dec, ok := v.(*asetypes.Decimal); ok && ti.Kind == refpkg.KDecimal {
				dec.Precision, dec.Scale = int(c.Precision), int(c.Scale)
			}
			fd.SetValue(v)
		}
	}
	return pkg, prev, nil
}

// libPackage builds the library package that has the field values of the
// reference value q. prev is the package LastPkg needs (nil if none).
func libPackage(q refpkg.Pkg) (pkg tds.Package, prev tds.Package, err error) {
	switch v := q.(type) {
	case refpkg.EED:
		return &tds.EEDPackage{MsgNumber: v.MsgNumber, State: v.State, Class: v.Class, SQLState: append([]byte{}, v.SQLState...),
			Status: tds.EEDStatus(v.Status), TranState: v.TranState, Msg: v.Msg, ServerName: v.Server, ProcName: v.Proc, LineNr: v.Line}, nil, nil
	case refpkg.ErrorMsg:
		return &tds.ErrorPackage{ErrorNumber: v.Number, State: v.State, Class: v.Class, ErrorMsg: v.Msg, ServerName: v.Server, ProcName: v.Proc, LineNr: v.Line}, nil, nil
	case refpkg.EnvChange:
		p := &tds.EnvChangePackage{}
		var ms []tds.EnvChangePackageField
		for _, it := range v.Items {
			ms = append(ms, tds.EnvChangePackageField{Type: tds.EnvChangeType(it.Type), NewValue: it.New, OldValue: it.Old})
		}
		if err := setField(p, "members", ms); err != nil {
			return nil, nil, err
		}
		return p, nil, nil
	case refpkg.LoginAck:
		tv, err1 := tds.NewVersion(v.TDSVersion[:])
		pv, err2 := tds.NewVersion(v.ProgVersion[:])
		if err1 != nil || err2 != nil {
			return nil, nil, fmt.Errorf("NewVersion: %v %v", err1, err2)
		}
		return &tds.LoginAckPackage{Length: uint16(10 + len(v.ProgName)), Status: tds.LoginAckStatus(v.Status), Version: tv,
			NameLength: uint8(len(v.ProgName)), ProgramName: v.ProgName, ProgramVersion: pv}, nil, nil
	case refpkg.Done:
		return &tds.DonePackage{Status: tds.DoneState(v.Status), TranState: tds.TransState(v.TranState), Count: v.Count}, nil, nil
	case refpkg.Msg:
		return tds.NewMsgPackage(tds.TDSMsgStatus(v.Status), tds.TDSMsgId(v.ID)), nil, nil
	case refpkg.Capability:
		var req []tds.RequestCapability
		var res []tds.ResponseCapability
		for _, m := range v.Masks {
			for _, b := range refpkg.BitsOf(m.Mask) {
				switch m.Type {
				case 1:
					req = append(req, tds.RequestCapability(b))
				case 2:
					res = append(res, tds.ResponseCapability(b))
				default:
					return nil, nil, fmt.Errorf("capability type %d cannot be set through the library's API", m.Type)
				}
			}
		}
		if (len(req)+len(res))%2 == 1 {
			// every other package is built by a call sequence instead of the
			// constructor: each bit is first disabled (it is not set), then
			// all are enabled; the bit set, and so the encoding, is the same
			p, err := tds.NewCapabilityPackage(nil, nil, nil)
			if err != nil {
				return p, nil, err
			}
			for _, on := range []bool{false, true} {
				for _, b := range req {
					if err := p.SetRequestCapability(b, on); err != nil {
						return p, nil, err
					}
				}
				for _, b := range res {
					if err := p.SetResponseCapability(b, on); err != nil {
						return p, nil, err
					}
				}
			}
			return p, nil, nil
		}
		p, err := tds.NewCapabilityPackage(req, res, nil)
		return p, nil, err
	case refpkg.Format:
		p, err := libFormat(v)
		return p, nil, err
	case refpkg.Row:
		return libRow(v)
	case refpkg.OrderBy:
		p := &tds.OrderByPackage{ColumnOrder: make([]int, len(v.Cols))}
		for i, c := range v.Cols {
			p.ColumnOrder[i] = int(c)
		}
		return p, nil, nil
	case refpkg.OrderBy2:
		p := &tds.OrderBy2Package{}
		p.ColumnOrder = make([]int, len(v.Cols))
		for i, c := range v.Cols {
			p.ColumnOrder[i] = int(c)
		}
		return p, nil, nil
	case refpkg.ReturnStatus:
		return &tds.ReturnStatusPackage{ReturnValue: v.Value}, nil, nil
	case refpkg.Language:
		return &tds.LanguagePackage{Status: tds.LanguageStatus(v.Status), Cmd: v.Cmd}, nil, nil
	case refpkg.Logout:
		return &tds.LogoutPackage{Options: v.Options}, nil, nil
	case refpkg.Dynamic:
		p := tds.NewDynamicPackage(v.Wide)
		p.Type, p.Status, p.ID, p.Stmt = tds.DynamicOperationType(v.Type), tds.DynamicStatusType(v.Status), v.ID, v.Stmt
		return p, nil, nil
	case refpkg.CurInfo:
		tok := tds.TDS_CURINFO
		if v.Wide {
			tok = tds.TDS_CURINFO3
		}
		pkg, err := tds.LookupPackage(tok)
		if err != nil {
			return nil, nil, err
		}
		p := pkg.(*tds.CurInfoPackage)
		p.CursorID, p.Name, p.Command, p.Status = v.Cursor.ID, v.Cursor.Name, tds.CursorCommand(v.Command), tds.CursorIStatus(v.Status)
		p.RowNum, p.TotalRows, p.RowCount = v.RowNum, v.TotalRows, v.RowCount
		return p, nil, nil
	case refpkg.CurDeclare:
		tok := tds.TDS_CURDECLARE
		if v.Wide {
			tok = tds.TDS_CURDECLARE3
		}
		pkg, err := tds.LookupPackage(tok)
		if err != nil {
			return nil, nil, err
		}
		p := pkg.(*tds.CurDeclarePackage)
		p.Name, p.Options, p.Status, p.Stmt = v.Name, tds.CursorOption(v.Options), tds.CursorDStatus(v.Status), v.Stmt
		if len(v.Columns) > 0 {
			if err := setField(p, "columns", append([]string{}, v.Columns...)); err != nil {
				return nil, nil, err
			}
		}
		return p, nil, nil
	case refpkg.CurOpen:
		return &tds.CurOpenPackage{CursorID: v.Cursor.ID, Name: v.Cursor.Name, Status: tds.CursorOStatus(v.Status)}, nil, nil
	case refpkg.CurClose:
		return &tds.CurClosePackage{CursorID: v.Cursor.ID, Name: v.Cursor.Name, Options: tds.CursorCloseOption(v.Options)}, nil, nil
	case refpkg.CurFetch:
		return &tds.CurFetchPackage{CursorID: v.Cursor.ID, Name: v.Cursor.Name, Type: tds.CursorFetchType(v.Type), RowNumber: v.RowNum}, nil, nil
	case refpkg.CurDelete:
		return &tds.CurDeletePackage{CursorID: v.Cursor.ID, Name: v.Cursor.Name, Status: tds.CursorDeleteStatus(v.Status), TableName: v.Table}, nil, nil
	case refpkg.CurUpdate:
		return &tds.CurUpdatePackage{CursorID: v.Cursor.ID, Name: v.Cursor.Name, Status: tds.CursorOStatus(v.Status), TableName: v.Table, Stmt: v.Stmt}, nil, nil
	case refpkg.OptionCmd:
		return &tds.OptionCmdPackage{Cmd: tds.OptionCmd(v.Cmd), Option: tds.OptionCmdOption(v.Option), OptionArg: append([]byte{}, v.Arg...)}, nil, nil
	}
	return nil, nil, fmt.Errorf("no library package for %T", q)
}

// ---------------------------------------------------------------- comparing

// capSets is the serialised content of a capability package: per type the
// ascending list of capabilities set; types with none set do not appear.
func capSets(pkg tds.Package) (string, error) {
	cp, ok := pkg.(*tds.CapabilityPackage)
	if !ok {
		return "", fmt.Errorf("%T is no CapabilityPackage", pkg)
	}
	var parts []string
	for typ, vm := range cp.Capabilities {
		f, ok := getField(vm, "capabilities")
		if !ok {
			return "", fmt.Errorf("valueMask has no field capabilities")
		}
		var set []string
		for i := 0; i < f.Len(); i++ {
			if f.Index(i).Bool() {
				set = append(set, fmt.Sprint(i))
			}
		}
		if len(set) > 0 {
			parts = append(parts, fmt.Sprintf("type%d{%s}", typ, strings.Join(set, ",")))
		}
	}
	sort.Strings(parts)
	return strings.Join(parts, " "), nil
}

func refCapSets(q refpkg.Capability) string {
	var parts []string
	byType := map[uint8][]byte{}
	for _, m := range q.Masks {
		byType[m.Type] = m.Mask
	}
	for typ, mask := range byType {
		var set []string
		for _, b := range refpkg.BitsOf(mask) {
			set = append(set, fmt.Sprint(b))
		}
		if len(set) > 0 {
			parts = append(parts, fmt.Sprintf("type%d{%s}", typ, strings.Join(set, ",")))
		}
	}
	sort.Strings(parts)
	return strings.Join(parts, " ")
}

// cdump is canon.Dump with empty byte strings printed like nil ones (canon
// prints nil slices as [] and empty non-nil byte slices as x”; both are the
// same serialised value).
func cdump(v interface{}) string {
	return strings.ReplaceAll(canon.Dump(v), "x''", "[]")
}

// expectedDump is pkgDump of the package a correct reader produces from the
// encoding of p: for EED the reader trims one trailing newline from the
// message (documented in the code: "Some messages contain a trailing
// newline, but not all").
func expectedDump(p tds.Package) string {
	if e, ok := p.(*tds.EEDPackage); ok {
		c := *e
		c.Msg = strings.TrimSuffix(c.Msg, "\n")
		return pkgDump(&c)
	}
	return pkgDump(p)
}

// pkgDump is the canonical form two library packages are compared in.
//   - CAPABILITY: the in-memory masks are slices of bools whose length
//     depends on how the package was made (constructor: highest known
//     capability + 1; reader: 8*bytes + 1); the serialised content is the set
//     of capabilities per type.
func pkgDump(pkg tds.Package) string {
	switch p := pkg.(type) {
	case *tds.CapabilityPackage:
		s, err := capSets(p)
		if err != nil {
			return "capability-dump-error:" + err.Error()
		}
		return "CapabilityPackage{" + s + "}"
	}
	return cdump(pkg)
}

func isIdent(c byte) bool {
	return c == '_' || (c >= 'a' && c <= 'z') || (c >= 'A' && c <= 'Z') || (c >= '0' && c <= '9')
}

// expectGo returns the Go value a correct decoder yields for raw bytes of
// the simple types whose mapping is beyond doubt; ok=false for the others.
func expectGo(ti refpkg.TypeInfo, raw []byte) (interface{}, bool) {
	le := binary.LittleEndian
	switch ti.Name {
	case "INT1":
		return raw[0], true
	case "INT2":
		return int16(le.Uint16(raw)), true
	case "INT4":
		return int32(le.Uint32(raw)), true
	case "INT8":
		return int64(le.Uint64(raw)), true
	case "UINT2":
		return le.Uint16(raw), true
	case "UINT4":
		return le.Uint32(raw), true
	case "UINT8":
		return le.Uint64(raw), true
	case "FLT4":
		return math.Float32frombits(le.Uint32(raw)), true
	case "FLT8":
		return math.Float64frombits(le.Uint64(raw)), true
	case "CHAR", "VARCHAR", "LONGCHAR":
		if len(raw) == 0 {
			return nil, true
		}
		return string(raw), true
	case "BINARY", "VARBINARY", "LONGBINARY":
		if len(raw) == 0 {
			return nil, true
		}
		return append([]byte{}, raw...), true
	}
	return nil, false
}

func isNotEnough(err error) bool { return errors.Is(err, tds.ErrNotEnoughBytes) }

func hexHead(b []byte) string {
	if len(b) <= 96 {
		return fmt.Sprintf("%x", b)
	}
	return fmt.Sprintf("%x…(%d bytes)…%x", b[:64], len(b), b[len(b)-16:])
}
