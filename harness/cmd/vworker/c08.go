package main

import (
	"crypto/x509"
	"encoding/hex"
	"encoding/json"
	"encoding/pem"
	"fmt"
	"time"

	"github.com/SAP/go-dblib/tds"

	"verif/harness/rt"
	"verif/harness/srv"
)

// C08 — login succeeds exactly when the server accepted it.
//
// Events: the return value of Channel.Login against a scripted peer, when
// it returned relative to its context, Conn.Caps and PacketSize()
// afterwards, what is left queued. Oracle: an independent acceptor over
// the reply script (loginpeer.go: lpClassify).

func init() { register("C08", runC08) }

type c08Case struct {
	Script   lpScript `json:"script"`
	Edit     string   `json:"edit"` // description of the single edit ("" = valid script)
	CutClass string   `json:"cut_class"`
	CutSeed  string   `json:"cut_seed"`
	Overtake bool     `json:"reply_overtakes_writer,omitempty"`
	KeyBits  int      `json:"key_bits"`
	NonceLen int      `json:"nonce_len"`
	PackSize int      `json:"pack_size"`
	Remotes  int      `json:"remote_servers"`
	Class    string   `json:"class"`
	Reason   string   `json:"reason"`
}

func c08Hexify(s *lpScript) {
	for r := range s.Rounds {
		for i := range s.Rounds[r] {
			s.Rounds[r][i].Hex = hex.EncodeToString(s.Rounds[r][i].B)
		}
	}
}
func c08Unhex(s *lpScript) {
	for r := range s.Rounds {
		for i := range s.Rounds[r] {
			s.Rounds[r][i].B, _ = hex.DecodeString(s.Rounds[r][i].Hex)
		}
	}
}

func c08Run(c *Ctx, cs c08Case) {
	r := c.R
	r.Eval(1)
	encrypt := cs.Script.Flow == "encrypted"
	cfg := lpConfig("sa", "secret-Pw1", encrypt)
	for i := 0; i < cs.Remotes; i++ {
		cfg.RemoteServers = append(cfg.RemoteServers, tds.LoginConfigRemoteServer{Name: fmt.Sprintf("rem%d", i), Password: fmt.Sprintf("rempw%d", i)})
	}
	timeout := 4 * time.Second
	if cs.Class != "accept" {
		timeout = 400 * time.Millisecond
	}
	rt.CaseLog("C08 %s/%s/%s", cs.Script.Flow, cs.Edit, cs.CutClass)
	res := lpRun(c.Seed, cs.Script, cfg, lpOptions{CutSeed: cs.CutSeed, CutClass: cs.CutClass, Timeout: timeout, Overtake: cs.Overtake})
	if res.kit != nil {
		defer res.kit.teardown()
	}
	if res.kit == nil {
		r.Inconclusive("setup: %v", res.err)
		return
	}
	r.Count("scripts_"+cs.Class, 1)
	if cs.Edit != "" {
		r.Distinct(cs.Script.Flow + "|" + cs.Edit + "|" + cs.CutClass)
	}
	r.SetAdd("flow_edit", cs.Script.Flow+"|"+cs.Edit)
	sigTail := "/" + cs.Script.Flow + "/" + c08EditKind(cs.Edit)
	describe := func() string {
		var kinds [][]string
		for _, rd := range cs.Script.Rounds {
			var ks []string
			for _, it := range rd {
				k := it.Kind
				switch it.Kind {
				case "loginack", "done":
					k += fmt.Sprintf("(%d)", it.Status)
				case "msg":
					k += fmt.Sprintf("(id %d)", it.MsgID)
				case "params":
					k += fmt.Sprintf("(cipher %d, key %s, types %v)", it.Cipher, it.Key, it.Cols)
				case "paramfmt":
					k += fmt.Sprintf("%v", it.Cols)
				case "capability":
					k += "(" + it.Caps + ")"
				}
				ks = append(ks, k)
			}
			kinds = append(kinds, ks)
		}
		return fmt.Sprintf("flow %s, edit %q, reply script %v, packetisation %s", cs.Script.Flow, cs.Edit, kinds, cs.CutClass)
	}
	if res.watchdog {
		// structural: is Login still parked?
		parked := false
		for _, g := range rt.Goroutines() {
			if g.Has("tds.(*Channel).Login") && g.Parked() {
				parked = true
			}
		}
		if parked {
			r.Violate("wait-outlives-context"+sigTail, fmt.Sprintf("%s: Login did not return %v after its context (%v) expired and is parked", describe(), 15*time.Second, timeout), cs)
		} else {
			r.Inconclusive("watchdog fired but Login is not parked (%s)", describe())
		}
		return
	}
	if res.panicked != nil {
		r.Violate("panic/"+res.panicked.Frame+sigTail, fmt.Sprintf("%s: Login panicked: %s", describe(), res.panicked.Value), cs)
		return
	}
	switch cs.Class {
	case "unspecified":
		if res.err == nil {
			r.Count("unspecified_accepted", 1)
		} else {
			r.Count("unspecified_rejected", 1)
		}
		// Whether such a reply is accepted is not fixed by the property,
		// but "success exactly when ..." makes the outcome a function of
		// the reply: the same script must always get the same answer.
		first := res.err == nil
		for rep := 0; rep < 24; rep++ {
			res2 := lpRun(c.Seed, cs.Script, lpConfig("sa", "secret-Pw1", encrypt), lpOptions{CutSeed: cs.CutSeed, CutClass: cs.CutClass, Timeout: timeout})
			if res2.kit == nil {
				break
			}
			res2.kit.teardown()
			if res2.watchdog || res2.panicked != nil {
				break
			}
			r.Eval(1)
			if (res2.err == nil) != first {
				r.Violate("outcome-not-a-function-of-the-reply"+sigTail, fmt.Sprintf("%s: the same reply script was accepted in one run and rejected in another (first run error: %v, run %d error: %v)", describe(), res.err, rep+2, res2.err), cs)
				return
			}
		}
		return
	case "reject":
		if res.err == nil {
			r.Violate("accepted-invalid-reply"+sigTail, fmt.Sprintf("%s: the independent acceptor rejects the reply (%s) but Login returned nil", describe(), cs.Reason), cs)
		}
		return
	}
	// must accept
	if res.err != nil {
		r.Violate("rejected-valid-reply"+sigTail, fmt.Sprintf("%s: Login returned %v", describe(), res.err), cs)
		return
	}
	k := res.kit
	wantPS0 := 512
	if cs.PackSize > 0 {
		wantPS0 = cs.PackSize
	}
	// the announced size must be in force as soon as Login has returned
	// success (the next request is sent with it), also when the trailing
	// end-of-message packet of the reply has not arrived yet
	if got := k.conn.PacketSize(); got != wantPS0 {
		r.Violate("packet-size-not-the-announced"+sigTail, fmt.Sprintf("%s: PacketSize() = %d right after Login returned success, the server announced %d", describe(), got, wantPS0), cs)
		return
	}
	if res.heldEOM != nil {
		k.tr.Feed(res.heldEOM)
	}
	if !awaitIdle(k.tr, 10*time.Second) {
		r.Inconclusive("reader not idle after login")
		return
	}
	if encrypt {
		r.Count("logins_reached_phase2", 1)
		for bit := 0; bit < 108; bit++ {
			want := false
			for _, b := range lpReqBits {
				if b == bit {
					want = true
				}
			}
			if got := k.conn.Caps.HasRequestCapability(tds.RequestCapability(bit)); got != want {
				r.Violate("caps-not-the-servers"+sigTail, fmt.Sprintf("%s: after a successful login request capability %d is %v, the server's mask says %v", describe(), bit, got, want), cs)
				return
			}
		}
		for bit := 0; bit < 60; bit++ {
			want := false
			for _, b := range lpRespBits {
				if b == bit {
					want = true
				}
			}
			if got := k.conn.Caps.HasResponseCapability(tds.ResponseCapability(bit)); got != want {
				r.Violate("caps-not-the-servers"+sigTail, fmt.Sprintf("%s: after a successful login response capability %d is %v, the server's mask says %v", describe(), bit, got, want), cs)
				return
			}
		}
	}
	wantPS := 512
	if cs.PackSize > 0 {
		wantPS = cs.PackSize
	}
	if got := k.conn.PacketSize(); got != wantPS {
		r.Violate("packet-size-not-the-announced"+sigTail, fmt.Sprintf("%s: PacketSize() = %d after login, the server announced %d", describe(), got, wantPS), cs)
		return
	}
	left := drainChannel(k.ch, k.ctx)
	if len(left.Dumps) > 0 || len(left.Errs) > 0 {
		r.Violate("leftover-after-login"+sigTail, fmt.Sprintf("%s: after a successful login %v / %v are still queued", describe(), left.Types, left.Errs), cs)
	}
}

func c08EditKind(e string) string {
	for i, ch := range e {
		if ch == ':' {
			return e[:i]
		}
	}
	if e == "" {
		return "valid"
	}
	return e
}

// c08Edits enumerates every single-edit mutation of a valid script.
func c08Edits(base lpScript, key *lpKey, nonce []byte) []struct {
	s    lpScript
	edit string
} {
	var out []struct {
		s    lpScript
		edit string
	}
	add := func(s lpScript, e string) {
		out = append(out, struct {
			s    lpScript
			edit string
		}{s, e})
	}
	pkix := func() []byte {
		der, _ := x509.MarshalPKIXPublicKey(&key.priv.PublicKey)
		return pem.EncodeToMemory(&pem.Block{Type: "PUBLIC KEY", Bytes: der})
	}
	types := []int{srv.TInt4, srv.TLongBinary, srv.TLongBinary}
	for r := range base.Rounds {
		for i, it := range base.Rounds[r] {
			pos := fmt.Sprintf("round%d/%s", r+1, it.Kind)
			// delete
			s := base.clone()
			s.Rounds[r] = append(append([]lpItem(nil), s.Rounds[r][:i]...), s.Rounds[r][i+1:]...)
			add(s, "delete:"+pos)
			// duplicate
			s = base.clone()
			s.Rounds[r] = append(append(append([]lpItem(nil), s.Rounds[r][:i+1]...), it), s.Rounds[r][i+1:]...)
			add(s, "duplicate:"+pos)
			// insert a login acknowledgement that does not belong there
			for _, st := range []int{srv.LogNegotiate, srv.LogFail} {
				s = base.clone()
				s.Rounds[r] = append(append(append([]lpItem(nil), s.Rounds[r][:i]...), lpLoginAck(st)), s.Rounds[r][i:]...)
				add(s, fmt.Sprintf("insert:loginack-status-%d-before:%s", st, pos))
			}
			// swap with the next
			if i+1 < len(base.Rounds[r]) {
				s = base.clone()
				s.Rounds[r][i], s.Rounds[r][i+1] = s.Rounds[r][i+1], s.Rounds[r][i]
				add(s, "reorder:"+pos+"<->"+base.Rounds[r][i+1].Kind)
			}
			// alter a field
			alter := func(name string, ni lpItem) {
				s := base.clone()
				s.Rounds[r][i] = ni
				add(s, "alter:"+pos+"/"+name)
			}
			switch it.Kind {
			case "loginack":
				for _, st := range []int{srv.LogFail, srv.LogNegotiate, srv.LogSucceed, 0, 8} {
					if st != it.Status {
						alter(fmt.Sprintf("status=%d", st), lpLoginAck(st))
					}
				}
			case "msg":
				for _, id := range []int{lpMsgEncrypt3, 1, 14, 36} {
					alter(fmt.Sprintf("id=%d", id), lpMsg(1, id))
				}
				alter("status=noargs", lpMsg(0, lpMsgEncrypt4))
			case "done":
				for _, st := range []int{srv.DoneMore, srv.DoneError, srv.DoneCount, srv.DoneError | srv.DoneInXact, srv.DoneProc} {
					alter(fmt.Sprintf("status=%#x", st), lpDone(st))
				}
			case "capability":
				alter("all-zero", lpCaps("all-zero"))
				alter("request-type-zero", lpCaps("request-zero"))
				alter("response-type-zero", lpCaps("response-zero"))
				alter("response-type-omitted", lpCaps("response-omitted"))
				alter("security-type-with-empty-mask", lpCaps("ok+security-empty"))
				alter("security-type-with-empty-mask-first", lpCaps("security-empty+ok"))
			case "params":
				alter("cipher=0", lpParams(types, 0, "valid", key.pem, nonce))
				alter("cipher=2", lpParams(types, 2, "valid", key.pem, nonce))
				alter("key=garbage", lpParams(types, 1, "garbage", []byte("this is not a PEM encoded key at all"), nonce))
				alter("key=pkix-not-pkcs1", lpParams(types, 1, "pkix", pkix(), nonce))
				alter("key=trailing-bytes", lpParams(types, 1, "trailing", append(append([]byte(nil), key.pem...), 'x', 'y'), nonce))
				alter("key=empty", lpParams(types, 1, "empty", nil, nonce))
				alter("key=line-break-only", lpParams(types, 1, "whitespace", []byte("\n"), nonce))
				alter("key=white-space-only", lpParams(types, 1, "whitespace", []byte(" \r\n\t\n"), nonce))
				alter("key=pem-without-end", lpParams(types, 1, "no-pem-end", []byte("-----BEGIN RSA PUBLIC KEY-----\nMIGJAoGBAK"), nonce))
				alter("key=truncated-der", lpParams(types, 1, "truncated-der", pem.EncodeToMemory(&pem.Block{Type: "RSA PUBLIC KEY", Bytes: x509.MarshalPKCS1PublicKey(&key.priv.PublicKey)[:20]}), nonce))
			case "paramfmt":
				// the format and its data are edited together (a server's
				// data always matches its format)
				for name, ts := range map[string][]int{
					"two-params":       {srv.TInt4, srv.TLongBinary},
					"four-params":      {srv.TInt4, srv.TLongBinary, srv.TLongBinary, srv.TLongBinary},
					"cipher-as-int2":   {srv.TInt2, srv.TLongBinary, srv.TLongBinary},
					"key-as-varbinary": {srv.TInt4, srv.TVarBinary, srv.TLongBinary},
					"nonce-as-varchar": {srv.TInt4, srv.TLongBinary, srv.TVarChar},
				} {
					s := base.clone()
					s.Rounds[r][i] = lpParamFmt(ts...)
					for j := range s.Rounds[r] {
						if s.Rounds[r][j].Kind == "params" {
							k := key.pem
							if name == "key-as-varbinary" {
								k = key.pem[:200]
							}
							s.Rounds[r][j] = lpParams(ts, 1, "valid", k, nonce)
							if name == "key-as-varbinary" {
								s.Rounds[r][j].Key = "truncated"
							}
						}
					}
					add(s, "alter:"+pos+"/"+name)
				}
			}
		}
	}
	// nothing at all / an empty round
	s := base.clone()
	s.Rounds[0] = nil
	add(s, "delete:round1/everything")
	if len(base.Rounds) > 1 {
		s = base.clone()
		s.Rounds[1] = nil
		add(s, "delete:round2/everything")
	}
	return out
}

func runC08(c *Ctx) {
	r := c.R
	r.Rule = "reply scripts for both login flows: valid scripts (RSA key sizes 1024/1536/2048, nonce lengths 1..64 (capped by the key capacity for the 32-byte session key), with/without remote servers, ENVCHANGE / informational messages interleaved, packet size announced) and EVERY single-edit mutation (delete, duplicate, reorder-with-next of every package, a login acknowledgement with status NEGOTIATE / FAIL inserted before every package; alter of every checked field: acknowledgement status, message id, parameter count/types, cipher, 8 kinds of unusable keys, capability masks, DONE status; nothing sent at all), each in 2 (quick) / 4 (thorough) packetisation classes, plus seeded multi-edit scripts in thorough; classified by an independent acceptor into must-accept / must-reject / unspecified; non-trivial = script that differs from the valid one; distinct = (flow, edit, packetisation)"
	r.TrustedBase = []string{"independent acceptor lpClassify over the reply as deliverable", "harness/srv encoder", "Go crypto for the server key"}
	r.Assumptions = []string{"unspecified (counted, never judged): the server's DONE missing but supplied by the library, a non-final DONE in encrypted round 1, extra packages before the round-2 acknowledgement or after the final DONE, a single all-zero capability type", "a zero-length nonce is a NULL parameter and not generated as valid script (a conforming server sends a nonce)", "missing packages are detected at context expiry: contexts of 400 ms, structural verdict after a 15 s watchdog"}
	if c.Replay != nil {
		var hc c08HistCase
		if json.Unmarshal(c.Replay, &hc) == nil && hc.Family == "history" {
			c08HistRun(c, hc, map[string]*bool{})
			return
		}
		var wc c08WaitCase
		if json.Unmarshal(c.Replay, &wc) == nil && wc.Family == "wait" && wc.Kind == "slow-reply" {
			if sc, ok := c08WaitScripts()[wc.Name]; ok {
				wc.Script = sc
			}
			c08SlowReply(c, wc)
			return
		}
		if json.Unmarshal(c.Replay, &wc) == nil && wc.Family == "wait" {
			if sc, ok := c08WaitScripts()[wc.Name]; ok {
				wc.Script = sc
				c08WaitRun(c, wc)
			} else {
				runC08Wait(c) // scripts derived from the named ones: run the family
			}
			return
		}
		var cs c08Case
		if err := json.Unmarshal(c.Replay, &cs); err != nil {
			r.Inconclusive("bad replay: %v", err)
			return
		}
		c08Unhex(&cs.Script)
		c08Run(c, cs)
		return
	}
	runC08Wait(c)
	runC08History(c)
	quick := c.Quick()
	cutClasses := []string{"one-packet", "random"}
	if !quick {
		cutClasses = []string{"one-packet", "random", "one-byte", "per-package"}
	}
	var cases []c08Case
	mk := func(s lpScript, edit string, cut string, bits, nl, ps, rem int, idx int) {
		class, reason := lpClassify(s)
		c08Hexify(&s)
		cs := c08Case{Script: s, Edit: edit, CutClass: cut, CutSeed: fmt.Sprintf("%s/%d", edit, idx), KeyBits: bits, NonceLen: nl, PackSize: ps, Remotes: rem, Class: class, Reason: reason}
		cases = append(cases, cs)
		if class == "accept" {
			// the same valid script with the reply overtaking the writer,
			// and with the trailing end-of-message packet arriving late
			cs.Overtake = true
			cases = append(cases, cs)
			cs.Overtake = false
			cs.CutClass = "late-eom"
			cases = append(cases, cs)
		}
	}
	rnd := rt.NewRand(c.Seed, "c08")
	// valid scripts
	keySizes := []int{1024, 1025, 1031}
	if !quick {
		keySizes = []int{1024, 1025, 1031, 1500, 1536, 2047, 2048}
	}
	idx := 0
	for _, extras := range []bool{false, true} {
		for _, cut := range cutClasses {
			ps := 0
			if extras {
				ps = []int{512, 1024, 2048, 4096, 8192}[rnd.Intn(5)]
			}
			mk(lpValid("plain", nil, nil, ps, extras), "", cut, 0, 0, ps, 0, idx)
			idx++
			for _, bits := range keySizes {
				nonces := []int{1, 2, 16, 32, 64}
				if !quick {
					nonces = nil
					for n := 1; n <= 64; n += 3 {
						nonces = append(nonces, n)
					}
				}
				// RSA-OAEP/SHA-1 capacity: nonce + 32 byte session key must
				// fit the modulus, whose size in bytes is rounded UP for key
				// lengths that are not a multiple of 8 bits
				capacity := (bits+7)/8 - 42 - 32
				nonces = append(nonces, capacity, capacity-1)
				for _, nl := range nonces {
					if nl > capacity {
						nl = capacity
					}
					for rem := 0; rem <= 2; rem += 2 {
						ps := 0
						if extras {
							ps = []int{512, 1024, 2048, 4096, 8192}[rnd.Intn(5)]
						}
						mk(lpValid("encrypted", lpGetKey(bits), rnd.Bytes(nl), ps, extras), "", cut, bits, nl, ps, rem, idx)
						idx++
					}
				}
			}
		}
	}
	// single edits
	key := lpGetKey(1024)
	nonce := rnd.Bytes(32)
	for _, base := range []lpScript{lpValid("plain", nil, nil, 0, false), lpValid("encrypted", key, nonce, 0, false), lpValid("plain", nil, nil, 2048, true), lpValid("encrypted", key, nonce, 4096, true)} {
		for _, e := range c08Edits(base, key, nonce) {
			for _, cut := range cutClasses {
				ps := 0
				for _, rd := range base.Rounds {
					for _, it := range rd {
						if it.Kind == "env" {
							ps = -1
						}
					}
				}
				if ps == -1 {
					if base.Flow == "plain" {
						ps = 2048
					} else {
						ps = 4096
					}
					// an edit may have removed or duplicated the ENVCHANGE; packet size is then only judged for accept classes where it is still there once
					n := 0
					for _, rd := range e.s.Rounds {
						for _, it := range rd {
							if it.Kind == "env" {
								n++
							}
						}
					}
					if n == 0 {
						ps = 0
					}
				}
				mk(e.s, e.edit, cut, 1024, 32, ps, 0, idx)
				idx++
			}
		}
	}
	// seeded multi-edit scripts (thorough)
	if !quick {
		for i := 0; i < 3000; i++ {
			rr := rt.NewRand(c.Seed, fmt.Sprintf("c08/multi/%d", i))
			base := lpValid([]string{"plain", "encrypted"}[rr.Intn(2)], key, nonce, 0, false)
			edits := c08Edits(base, key, nonce)
			e1 := edits[rr.Intn(len(edits))]
			edits2 := c08Edits(e1.s, key, nonce)
			if len(edits2) == 0 {
				continue
			}
			e2 := edits2[rr.Intn(len(edits2))]
			mk(e2.s, "multi:"+e1.edit+"+"+e2.edit, cutClasses[rr.Intn(len(cutClasses))], 1024, 32, 0, 0, idx)
			idx++
		}
	}
	r.Count("scripts", int64(len(cases)))
	for i := 0; i < 3; i++ {
		r.Sample(cases[i*131%len(cases)].Class, cases[i*131%len(cases)])
	}
	// pre-generate keys outside the parallel section
	for _, b := range keySizes {
		lpGetKey(b)
	}
	c.parallel(len(cases), func(i int) { c08Run(c, cases[i]) })
}
