package main

import (
	"context"
	"encoding/binary"
	"encoding/json"
	"errors"
	"fmt"
	"hash/fnv"
	"os"
	"runtime"
	"sort"
	"strings"
	"sync"
	"sync/atomic"
	"time"

	"github.com/SAP/go-dblib/tds"

	"verif/harness/rt"
	"verif/harness/srv"
	"verif/harness/xport"
)

// C12 — logical channels are isolated and correctly routed under
// concurrency. Runs under the race detector.
//
// Events: NewChannel results; headers of every packet the peer receives;
// per client goroutine the tagged packages it received; connection errors;
// race-detector log (parsed by run.py).

func init() { register("C12", runC12) }

type c12Case struct {
	Stream     string `json:"stream"` // PRNG stream of the repetition
	Channels   int    `json:"channels"`
	Rounds     int    `json:"rounds"`
	TwoGor     bool   `json:"two_goroutines_per_channel"`
	GoMaxProcs int    `json:"gomaxprocs"`
	Yield      int    `json:"yield_on_write"`
	Inject     int    `json:"inject_unknown_channel_packets"`
	// FastAck: the peer acknowledges a SETUP from inside the client's Write
	// call (an instantly answering server), so that the acknowledgement can
	// reach the reader before NewChannel has done anything after its write.
	FastAck bool `json:"fast_ack"`
	// PacketSize: announced by the peer before the concurrent phase (0 =
	// the default 512 stays); requests then span several packets of it
	PacketSize int    `json:"packet_size,omitempty"`
	Note       string `json:"note,omitempty"`
}

type c12Hdr struct {
	xport.Header
	n int
}

type c12Peer struct {
	tr  *xport.Transport
	in  chan xport.WriteRec
	rnd *rt.Rand

	mu        sync.Mutex
	seen      []xport.Header
	partial   map[uint16][]byte
	pending   map[uint16][][]byte
	order     []uint16 // channels with pending packets (may repeat)
	sent      map[uint16][]int32
	round     map[uint16]int
	setups    []uint16
	injected  int
	toInject  int
	unsol     int32 // unsolicited responses sent on channel 0
	stop      chan struct{}
	done      chan struct{}
	logoutOK  bool
	stream    []byte // bytes written by the client and not yet cut into packets
	streamOff int
	garbled   string // set when the stream stopped parsing as packets
	onGarbled func() // ends the run early (clients would wait for answers that never come)
	fastAck   bool   // SETUPs are acknowledged by the transport hook already
	// quiescence bookkeeping
	submitted int64  // write records handed to the peer (atomic)
	handled   int64  // write records processed (atomic)
	feeding   int    // packets taken from pending but not yet fed (under mu)
	expectCh  int    // number of logical channels the run will create
	created   *int32 // NewChannel calls that have returned (atomic)
}

func c12Tag(ch uint16, round, idx int) int32 {
	return int32(ch&0x7ff)<<20 | int32(round&0xfff)<<8 | int32(idx&0xff)
}

func (p *c12Peer) queueResponse(ch uint16) {
	r := p.round[ch]
	p.round[ch] = r + 1
	n := p.rnd.Range(1, 6)
	var body []byte
	for i := 0; i < n; i++ {
		tag := c12Tag(ch, r, i)
		body = append(body, srv.ReturnStatus(tag)...)
		p.sent[ch] = append(p.sent[ch], tag)
	}
	body = append(body, srv.Done(srv.TokDone, 0, 0, int32(n))...)
	var cuts []int
	switch p.rnd.Intn(4) {
	case 0:
	case 1:
		cuts = randomCuts(p.rnd, len(body), p.rnd.Range(1, 4))
	case 2:
		for i := 1; i < len(body); i++ {
			cuts = append(cuts, i)
		}
	default:
		cuts = []int{len(body) - 9} // DONE alone in the EOM packet
	}
	for _, pk := range xport.Packetize(byte(tds.TDS_BUF_RESPONSE), ch, body, cuts, false) {
		p.pending[ch] = append(p.pending[ch], pk)
		p.order = append(p.order, ch)
	}
}

// handle consumes one transport write. The peer reads a byte STREAM, like a
// server behind a socket: packets are cut out of the concatenation of all
// writes in arrival order, however the client distributes a packet over
// write calls.
func (p *c12Peer) handle(rec xport.WriteRec) {
	p.mu.Lock()
	defer p.mu.Unlock()
	if p.garbled != "" {
		return
	}
	p.stream = append(p.stream, rec.Data...)
	for len(p.stream) >= 8 {
		h, _ := xport.ParseHeader(p.stream)
		if h.Length < 8 {
			p.garbled = fmt.Sprintf("packet header with length %d at stream offset %d (header bytes % x)", h.Length, p.streamOff, p.stream[:8])
			if p.onGarbled != nil {
				p.onGarbled()
			}
			return
		}
		if len(p.stream) < int(h.Length) {
			return
		}
		pkt := p.stream[:h.Length]
		p.stream = p.stream[h.Length:]
		p.streamOff += int(h.Length)
		p.handlePacket(h, pkt)
	}
}

func (p *c12Peer) handlePacket(h xport.Header, data []byte) {
	rec := xport.WriteRec{Data: data}
	// a header no client of this run can have produced means the stream is
	// out of step (bytes of different packets were interleaved)
	known := h.Channel == 0
	for _, id := range p.setups {
		if id == h.Channel {
			known = true
		}
	}
	okType := false
	switch tds.PacketHeaderType(h.Type) {
	case tds.TDS_BUF_SETUP:
		okType, known = true, true
	case tds.TDS_BUF_CLOSE, tds.TDS_BUF_NORMAL:
		okType = true
	}
	if !known || !okType || h.Status&^xport.EOM != 0 {
		p.garbled = fmt.Sprintf("packet at stream offset %d has header type %d status %#x channel %d length %d, which no client of this run sends", p.streamOff-int(h.Length), h.Type, h.Status, h.Channel, h.Length)
		if p.onGarbled != nil {
			p.onGarbled()
		}
		return
	}
	p.seen = append(p.seen, h)
	switch tds.PacketHeaderType(h.Type) {
	case tds.TDS_BUF_SETUP:
		p.setups = append(p.setups, h.Channel)
		if !p.fastAck {
			p.pending[h.Channel] = append(p.pending[h.Channel], xport.Header{Type: byte(tds.TDS_BUF_PROTACK), Status: xport.EOM, Length: 8, Channel: h.Channel}.Bytes())
			p.order = append(p.order, h.Channel)
		}
		// unsolicited traffic on channel 0 while channels are set up
		p.queueResponse(0)
		p.unsol++
		return
	case tds.TDS_BUF_CLOSE:
		p.queueResponse(0)
		p.unsol++
		return
	}
	p.partial[h.Channel] = append(p.partial[h.Channel], rec.Data[8:]...)
	if h.Status&xport.EOM == 0 {
		return
	}
	body := p.partial[h.Channel]
	p.partial[h.Channel] = nil
	// every request of this run is one LANGUAGE package of 'q's (or the
	// logout): a body that is anything else means bytes of different
	// packets were mixed up
	okBody := len(body) == 2 && body[0] == 0x71
	if len(body) >= 6 && body[0] == 0x21 {
		l := int(body[1]) | int(body[2])<<8 | int(body[3])<<16 | int(body[4])<<24
		okBody = l == len(body)-5
		for _, c := range body[6:] {
			if c != 'q' {
				okBody = false
			}
		}
	}
	if !okBody {
		head := body
		if len(head) > 24 {
			head = head[:24]
		}
		p.garbled = fmt.Sprintf("message of %d bytes on channel %d is not the LANGUAGE package the client sent (starts % x)", len(body), h.Channel, head)
		if p.onGarbled != nil {
			p.onGarbled()
		}
		return
	}
	if len(body) > 0 && body[0] == 0x71 && h.Channel == 0 { // LOGOUT
		p.pending[0] = append(p.pending[0], xport.Packet(byte(tds.TDS_BUF_RESPONSE), xport.EOM, 0, srv.Done(srv.TokDone, 0, 0, 0)))
		p.order = append(p.order, 0)
		p.logoutOK = true
		return
	}
	p.queueResponse(h.Channel)
	if p.injected < p.toInject && int(atomic.LoadInt32(p.created)) == p.expectCh && p.rnd.Chance(1, 2) {
		// a packet for a channel that does not exist
		id := uint16(40000 + p.injected)
		p.pending[id] = append(p.pending[id], xport.Packet(byte(tds.TDS_BUF_RESPONSE), xport.EOM, id, srv.Done(srv.TokDone, 0, 0, 0)))
		p.order = append(p.order, id)
		p.injected++
	}
	if p.rnd.Chance(1, 3) {
		p.queueResponse(0)
		p.unsol++
	}
}

// releaseOne feeds one pending packet of a seeded channel choice
// (per-channel order is preserved). Returns false if nothing is pending.
func (p *c12Peer) releaseOne() bool {
	p.mu.Lock()
	if len(p.order) == 0 {
		p.mu.Unlock()
		return false
	}
	// pick a channel that has pending packets
	var chans []uint16
	for c, q := range p.pending {
		if len(q) > 0 {
			chans = append(chans, c)
		}
	}
	if len(chans) == 0 {
		p.order = nil
		p.mu.Unlock()
		return false
	}
	sort.Slice(chans, func(i, j int) bool { return chans[i] < chans[j] })
	c := chans[p.rnd.Intn(len(chans))]
	pk := p.pending[c][0]
	p.pending[c] = p.pending[c][1:]
	p.feeding++
	p.mu.Unlock()
	p.tr.Feed(pk)
	p.mu.Lock()
	p.feeding--
	p.mu.Unlock()
	return true
}

func (p *c12Peer) run() {
	defer close(p.done)
	for {
		select {
		case rec := <-p.in:
			p.handle(rec)
			atomic.AddInt64(&p.handled, 1)
		case <-p.stop:
			for p.releaseOne() {
			}
			return
		default:
			if !p.releaseOne() {
				select {
				case rec := <-p.in:
					p.handle(rec)
					atomic.AddInt64(&p.handled, 1)
				case <-p.stop:
					return
				}
			}
		}
	}
}

func (p *c12Peer) idle() bool {
	p.mu.Lock()
	defer p.mu.Unlock()
	if atomic.LoadInt64(&p.submitted) != atomic.LoadInt64(&p.handled) || p.feeding > 0 {
		return false
	}
	for _, q := range p.pending {
		if len(q) > 0 {
			return false
		}
	}
	return true
}

type c12Client struct {
	tags    []int32
	errs    []string
	invalid int
	newErr  error
}

func c12Recv(ctx context.Context, ch *tds.Channel, cl *c12Client) (final bool) {
	for {
		pkg, err := ch.NextPackage(ctx, true)
		if err != nil {
			// classify first: an error handed out at the moment the
			// context ends must not be lost
			if strings.Contains(err.Error(), "invalid channel") {
				cl.invalid++
				continue
			}
			if errors.Is(err, context.Canceled) {
				return false
			}
			if ctx.Err() != nil {
				return false
			}
			cl.errs = append(cl.errs, err.Error())
			if len(cl.errs) > 20 {
				return false
			}
			continue
		}
		switch p := pkg.(type) {
		case *tds.ReturnStatusPackage:
			cl.tags = append(cl.tags, p.ReturnValue)
		case *tds.DonePackage:
			if p.Status == tds.TDS_DONE_FINAL {
				return true
			}
		default:
			cl.errs = append(cl.errs, fmt.Sprintf("unexpected package %T", pkg))
		}
	}
}

func c12Run(c *Ctx, cs c12Case) {
	r := c.R
	r.Eval(1)
	rt.CaseLog("C12 %+v", cs)
	old := runtime.GOMAXPROCS(cs.GoMaxProcs)
	defer runtime.GOMAXPROCS(old)
	rnd := rt.NewRand(c.Seed, cs.Stream)
	k, err := newKit(256, 0)
	if err != nil {
		r.Inconclusive("setup: %v", err)
		return
	}
	var created int32
	peer := &c12Peer{tr: k.tr, in: make(chan xport.WriteRec, 1<<16), rnd: rt.NewRand(c.Seed, cs.Stream+"/peer"),
		partial: map[uint16][]byte{}, pending: map[uint16][][]byte{}, sent: map[uint16][]int32{}, round: map[uint16]int{},
		stop: make(chan struct{}), done: make(chan struct{}), toInject: cs.Inject, expectCh: cs.Channels, created: &created}
	k.tr.OnWrite = func(rec xport.WriteRec) {
		if cs.FastAck && len(rec.Data) == 8 && rec.Data[0] == byte(tds.TDS_BUF_SETUP) {
			// acknowledge at once, on the writer's goroutine; the peer
			// goroutine still books the SETUP (without queueing a second ack)
			k.tr.Feed(xport.Header{Type: byte(tds.TDS_BUF_PROTACK), Status: xport.EOM, Length: 8, Channel: uint16(rec.Data[4])<<8 | uint16(rec.Data[5])}.Bytes())
		}
		atomic.AddInt64(&peer.submitted, 1)
		peer.in <- rec
	}
	peer.fastAck = cs.FastAck
	peer.onGarbled = k.cancel
	atomic.StoreInt32(&k.tr.YieldOnWrite, int32(cs.Yield))
	go peer.run()

	if cs.PacketSize > 0 {
		k.tr.Feed(xport.Packet(byte(tds.TDS_BUF_RESPONSE), xport.EOM, 0, append(srv.EnvChange(srv.EnvMember{Type: 4, New: itoa(cs.PacketSize), Old: "512"}), srv.Done(srv.TokDone, 0, 0, 0)...)))
		if !awaitIdle(k.tr, 20*time.Second) {
			r.Inconclusive("packet size announcement not processed")
			return
		}
		drainChannel(k.ch, k.ctx)
		if got := k.conn.PacketSize(); got != cs.PacketSize {
			r.Inconclusive("packet size %d announced, PacketSize() = %d (C11's subject)", cs.PacketSize, got)
			return
		}
	}
	var watchdogFired, newChannelStuck, starved int32
	var c0gid int64 // the channel-0 consumer legitimately waits for unsolicited traffic
	watchdog := time.AfterFunc(30*time.Second, func() {
		atomic.StoreInt32(&watchdogFired, 1)
		everythingDelivered := peer.idle() && k.tr.IsIdle()
		for _, g := range rt.Goroutines() {
			if g.Has("tds.(*Conn).NewChannel") && g.Parked() {
				atomic.AddInt32(&newChannelStuck, 1)
			}
			// a client waiting for packages although the peer has released
			// everything and the reader has processed it can never proceed
			if everythingDelivered && g.Has("main.c12Recv") && g.Has("tds.(*Channel).NextPackage") && g.State == "select" && g.ID != atomic.LoadInt64(&c0gid) {
				atomic.AddInt32(&starved, 1)
			}
		}
		fmt.Fprintf(os.Stderr, "C12 watchdog: dumping goroutines\n")
		for _, g := range rt.Goroutines() {
			fmt.Fprintln(os.Stderr, g.Raw)
		}
		k.cancel()
	})
	defer watchdog.Stop()

	ctx := k.ctx
	// channel 0 consumer: unsolicited traffic
	c0 := &c12Client{}
	c0ctx, c0cancel := context.WithCancel(context.Background())
	c0done := make(chan struct{})
	go func() {
		defer close(c0done)
		atomic.StoreInt64(&c0gid, xport.GID())
		for c0ctx.Err() == nil {
			c12Recv(c0ctx, k.ch, c0)
		}
	}()

	clients := make([]*c12Client, cs.Channels)
	var wg sync.WaitGroup
	start := make(chan struct{})
	for i := 0; i < cs.Channels; i++ {
		cl := &c12Client{}
		clients[i] = cl
		crnd := rt.NewRand(c.Seed, fmt.Sprintf("%s/client/%d", cs.Stream, i))
		wg.Add(1)
		go func(i int) {
			defer wg.Done()
			<-start
			ch, err := k.conn.NewChannel()
			if err != nil {
				cl.newErr = err
				return
			}
			atomic.AddInt32(&created, 1)
			send := func(round int) error {
				n := 10
				if crnd.Chance(1, 3) {
					n = crnd.Range(400, 1500) // several packets
				}
				if cs.PacketSize > 0 && crnd.Chance(1, 2) {
					n = crnd.Range(cs.PacketSize-200, 3*cs.PacketSize) // full packets of the announced size
				}
				if crnd.Chance(1, 4) {
					// a request that fills its last packet exactly (the
					// message is ended by a header-only packet): the token,
					// the 4-byte length and the status byte are 6 bytes
					ps := cs.PacketSize
					if ps == 0 {
						ps = 512
					}
					n = crnd.Range(1, 3)*(ps-8) - 6
				}
				return ch.SendPackage(ctx, &tds.LanguagePackage{Cmd: strings.Repeat("q", n)})
			}
			if cs.TwoGor {
				// receiver goroutine + sender goroutine, handing rounds over
				roundDone := make(chan bool)
				go func() {
					for j := 0; j < cs.Rounds; j++ {
						roundDone <- c12Recv(ctx, ch, cl)
					}
				}()
				var sendErrs []string
				for j := 0; j < cs.Rounds; j++ {
					if err := send(j); err != nil {
						sendErrs = append(sendErrs, "send: "+err.Error())
					}
					if !<-roundDone {
						// drain remaining signals
						for jj := j + 1; jj < cs.Rounds; jj++ {
							<-roundDone
						}
						break
					}
				}
				cl.errs = append(cl.errs, sendErrs...)
			} else {
				for j := 0; j < cs.Rounds; j++ {
					if err := send(j); err != nil {
						cl.errs = append(cl.errs, "send: "+err.Error())
						break
					}
					if !c12Recv(ctx, ch, cl) {
						break
					}
				}
			}
			if crnd.Chance(2, 3) {
				if err := ch.Close(); err != nil {
					cl.errs = append(cl.errs, "close: "+err.Error())
				}
			}
		}(i)
	}
	close(start)
	wg.Wait()
	// let the peer release everything and the reader process it
	for i := 0; i < 200000 && !peer.idle(); i++ {
		time.Sleep(50 * time.Microsecond)
	}
	idle := awaitIdle(k.tr, 20*time.Second)
	// channel 0: stop the consumer, drain the rest
	c0cancel()
	<-c0done
	rest := drainChannel(k.ch, k.ctx)
	for _, p := range rest.Pkgs {
		if rs, ok := p.(*tds.ReturnStatusPackage); ok {
			c0.tags = append(c0.tags, rs.ReturnValue)
		}
	}
	for _, e := range rest.Errs {
		if strings.Contains(e, "invalid channel") {
			c0.invalid++
		} else {
			c0.errs = append(c0.errs, e)
		}
	}
	close(peer.stop)
	<-peer.done
	k.tr.OnWrite = nil
	k.teardown()

	peer.mu.Lock()
	defer peer.mu.Unlock()
	// ------------------------------------------------------------ oracle
	fail := func(sig, detail string) { r.Violate(sig, detail, cs) }
	if peer.garbled != "" {
		fail("outgoing/stream-does-not-parse-as-packets", "the bytes the client wrote do not parse as consecutive packets: "+peer.garbled)
		return
	}
	if atomic.LoadInt32(&watchdogFired) != 0 && atomic.LoadInt32(&newChannelStuck) > 0 && len(peer.setups) == cs.Channels {
		inv := c0.invalid
		for _, cl := range clients {
			inv += cl.invalid
		}
		fail("newchannel-blocked-although-acknowledged", fmt.Sprintf("%d NewChannel call(s) were still parked 30 s after the peer had acknowledged all %d SETUP packets (ids %v); %d 'invalid channel' errors were seen although only %d packets for unknown channels had been injected", atomic.LoadInt32(&newChannelStuck), len(peer.setups), peer.setups, inv, peer.injected))
		return
	}
	if atomic.LoadInt32(&watchdogFired) != 0 && atomic.LoadInt32(&starved) > 0 {
		fail("routing/consumer-starved-although-everything-was-delivered", fmt.Sprintf("after 30 s %d client goroutine(s) were still waiting in NextPackage although the peer had released every response packet and the reader had processed all of them: packages were lost or delivered to another channel", atomic.LoadInt32(&starved)))
		return
	}
	if atomic.LoadInt32(&watchdogFired) != 0 {
		r.Inconclusive("C12 repetition did not finish within 30 s (goroutine dump in the worker's stderr): %+v", cs)
		return
	}
	if !idle {
		r.Inconclusive("reader did not become idle at the end of the run (%+v)", cs)
		return
	}
	// (1) NewChannel succeeds when acknowledged; ids distinct
	for i, cl := range clients {
		if cl.newErr != nil {
			fail("newchannel-failed-although-acknowledged", fmt.Sprintf("client %d: NewChannel returned %v; the peer acknowledged every SETUP (setups seen for ids %v)", i, cl.newErr, peer.setups))
			return
		}
	}
	ids := map[uint16]int{}
	for _, id := range peer.setups {
		ids[id]++
		if id == 0 {
			fail("channel-id/zero-for-logical-channel", fmt.Sprintf("SETUP packet with channel id 0 (ids %v)", peer.setups))
			return
		}
	}
	for id, n := range ids {
		if n > 1 {
			fail("channel-id/duplicate", fmt.Sprintf("%d simultaneously live channels were set up with id %d (ids on the wire: %v)", n, id, peer.setups))
			return
		}
	}
	if len(peer.setups) != cs.Channels {
		fail("channel-id/setup-count", fmt.Sprintf("%d channels created, %d SETUP packets seen (%v)", cs.Channels, len(peer.setups), peer.setups))
		return
	}
	r.Count("channels_created", int64(created))
	// (2) routing: every client's tags are exactly what the peer sent to one channel
	claimed := map[uint16]int{}
	total := 0
	check := func(who string, cl *c12Client, wantCh int) bool {
		if len(cl.errs) > 0 {
			fail("unexpected-error/"+who, fmt.Sprintf("%s saw errors: %.600v", who, cl.errs))
			return false
		}
		if len(cl.tags) == 0 && cs.Rounds > 0 && wantCh != 0 {
			fail("routing/nothing-received", who+" received no package")
			return false
		}
		var chID uint16
		if wantCh == 0 {
			chID = 0
		} else {
			chID = uint16(cl.tags[0]>>20) & 0x7ff
			if chID == 0 {
				fail("routing/foreign-package", fmt.Sprintf("%s received a package the peer sent to channel 0: %v", who, cl.tags))
				return false
			}
		}
		if prev, ok := claimed[chID]; ok && wantCh != 0 {
			fail("routing/two-consumers-one-channel", fmt.Sprintf("%s and client %d both received packages of channel %d", who, prev, chID))
			return false
		}
		claimed[chID] = wantCh
		want := peer.sent[chID]
		if len(cl.tags) != len(want) {
			fail("routing/lost-or-duplicated", fmt.Sprintf("%s (channel %d) received %d tagged packages, the peer sent %d: got %v want %v", who, chID, len(cl.tags), len(want), cl.tags, want))
			return false
		}
		for i := range want {
			if cl.tags[i] != want[i] {
				kind := "routing/wrong-order"
				if uint16(cl.tags[i]>>20)&0x7ff != chID {
					kind = "routing/foreign-package"
				}
				fail(kind, fmt.Sprintf("%s (channel %d) package %d has tag %#x, the peer sent %#x (tag = channel<<20|round<<8|index)", who, chID, i, cl.tags[i], want[i]))
				return false
			}
		}
		total += len(want)
		return true
	}
	for i, cl := range clients {
		if !check(fmt.Sprintf("client %d", i), cl, i+1) {
			return
		}
	}
	if !check("channel-0 consumer", c0, 0) {
		return
	}
	r.Count("packages_routed", int64(total))
	// (3) outgoing stream parses as packets; per id > 0 consecutive packet numbers, types
	if peer.garbled != "" {
		fail("outgoing/stream-does-not-parse-as-packets", "the bytes the client wrote do not parse as consecutive packets: "+peer.garbled)
		return
	}
	if len(peer.stream) != 0 {
		fail("outgoing/stream-does-not-parse-as-packets", fmt.Sprintf("%d bytes of an incomplete packet are left at the end of the run", len(peer.stream)))
		return
	}
	next := map[uint16]int{}
	h := fnv.New64a()
	for _, hd := range peer.seen {
		var b [2]byte
		binary.BigEndian.PutUint16(b[:], hd.Channel)
		h.Write(b[:])
		if hd.Channel == 0 {
			continue
		}
		if _, ok := ids[hd.Channel]; !ok {
			fail("outgoing/unknown-channel-id", fmt.Sprintf("packet with channel id %d, set up ids %v", hd.Channel, peer.setups))
			return
		}
		if n, ok := next[hd.Channel]; ok && int(hd.PacketNr) != n {
			fail("outgoing/packet-number-not-consecutive", fmt.Sprintf("channel %d: packet number %d, expected %d", hd.Channel, hd.PacketNr, n))
			return
		}
		next[hd.Channel] = (int(hd.PacketNr) + 1) % 256
		switch tds.PacketHeaderType(hd.Type) {
		case tds.TDS_BUF_SETUP, tds.TDS_BUF_CLOSE, tds.TDS_BUF_NORMAL:
		default:
			fail("outgoing/wrong-header-type", fmt.Sprintf("channel %d: packet of type %d", hd.Channel, hd.Type))
			return
		}
	}
	r.SetAdd("interleavings", fmt.Sprintf("%016x", h.Sum64()))
	// (4) injected packets for unknown channels: exactly that many errors
	inv := c0.invalid
	for _, cl := range clients {
		inv += cl.invalid
	}
	if inv != peer.injected {
		fail("invalid-channel/error-count", fmt.Sprintf("the peer injected %d packets for channels that do not exist, %d 'invalid channel' connection errors were observed", peer.injected, inv))
		return
	}
	r.Count("invalid_channel_errors", int64(inv))
	r.Count("unsolicited_responses_on_channel0", int64(peer.unsol))
	r.Count("packets_seen_by_peer", int64(len(peer.seen)))
	if cs.Channels >= 2 {
		r.Distinct(fmt.Sprintf("%s|%d|%d|%v|%d|%016x", cs.Stream, cs.Channels, cs.Rounds, cs.TwoGor, cs.GoMaxProcs, h.Sum64()))
	}
	_ = rnd
}

func runC12(c *Ctx) {
	r := c.R
	r.Rule = "repetitions of: 1..16 logical channels created concurrently (all NewChannel calls released together) while unsolicited tagged traffic flows on channel 0, 1 or 2 goroutines per channel, 5-40 request/response rounds with multi-packet requests, peer releasing the response packets of different channels in seeded interleaved order and all packetisation classes, packets injected for channels that do not exist, seeded yields at transport writes, GOMAXPROCS in {1,2,4,16}, channels closed at the end by 2/3 of the clients; under the race detector; non-trivial = >= 2 channels active at once; distinct = (parameters, observed interleaving hash of channel ids in peer arrival order)"
	r.TrustedBase = []string{"scripted peer (c12Peer) and its tag bookkeeping", "Go race detector (reports parsed by run.py)"}
	r.Assumptions = []string{"packet-size changes are kept out of the concurrent phase", "a name/channel is used by at most one sender and one receiver goroutine at a time (request/response protocol)", "clients retry on 'invalid channel' connection errors, which may be picked up by any channel"}
	if c.Replay != nil {
		var cc c12CloseCase
		if json.Unmarshal(c.Replay, &cc) == nil && cc.Family == "close" {
			c12CloseRun(c, cc)
			return
		}
		var cs c12Case
		if err := json.Unmarshal(c.Replay, &cs); err != nil || cs.Channels == 0 {
			r.Inconclusive("replay of a process-level event: re-running the quick workload instead")
		} else {
			cs.Note = "replay reproduces the workload, not necessarily the interleaving"
			for i := 0; i < 20 && r.NumViolations() == 0; i++ {
				c12Run(c, cs)
			}
			return
		}
	}
	runC12Close(c)
	reps := 12
	if !c.Quick() {
		reps = 300
	}
	for i := 0; i < reps; i++ {
		idx := c.Batch*reps + i
		rnd := rt.NewRand(c.Seed, fmt.Sprintf("c12/%d", idx))
		cs := c12Case{
			Stream:     fmt.Sprintf("c12/%d", idx),
			Channels:   []int{1, 2, 3, 4, 8, 16}[rnd.Intn(6)],
			Rounds:     rnd.Range(5, 40),
			TwoGor:     rnd.Bool(),
			GoMaxProcs: []int{1, 2, 4, 16}[rnd.Intn(4)],
			Yield:      rnd.Intn(3),
			Inject:     rnd.Intn(6),
			FastAck:    rnd.Bool(),
		}
		if i%4 == 1 {
			cs.PacketSize = []int{4104, 8192, 16384, 32768, 65535}[rnd.Intn(5)]
			if cs.Rounds > 12 {
				cs.Rounds = 12
			}
		}
		if i%3 == 2 {
			// setup storm: many channels, hardly any traffic - the creation
			// phase itself is the workload
			cs.Channels, cs.Rounds, cs.FastAck = 16, 1, true
		}
		if i%12 == 4 {
			// long-lived channels: enough packets per channel for the
			// one-byte packet number to wrap (consecutive mod 256)
			cs.Channels, cs.Rounds, cs.PacketSize, cs.Inject = 2, 170, 0, 0
			r.Count("long_lived_channel_storms", 1)
		}
		if i < 2 {
			r.Sample("repetition", cs)
		}
		c12Run(c, cs)
	}
}
