package main

import (
	"context"
	"encoding/hex"
	"encoding/json"
	"errors"
	"fmt"
	"io"
	"strings"
	"time"

	"github.com/SAP/go-dblib/tds"

	"verif/harness/canon"
	"verif/harness/rt"
	"verif/harness/srv"
	"verif/harness/xport"
)

// C03 — each response is delimited by exactly one final DONE and fully
// drained.
//
// Events: per round the packages the consumer saw, the return values of
// NextPackageUntil, what is still queued at the end.
// Oracle: a round model computed from the generated server packages.

func init() { register("C03", runC03) }

type c03Round struct {
	Shape string `json:"shape"`
	// server packages, hex, and their kinds (see catalogue.go)
	PkgsHex []string `json:"packages_hex"`
	Kinds   []string `json:"kinds"`
	// packetisation
	Cuts     []int  `json:"packet_cuts"`
	EmptyEOM bool   `json:"header_only_eom"`
	CutClass string `json:"cut_class"`
	// StatusExtra: further header status bits on every packet of the
	// response (attention acknowledgement 0x02, event 0x08), also next to
	// the end-of-message bit
	StatusExtra int `json:"other_header_status_bits,omitempty"`
	// consumer
	Style   string `json:"style"`    // "nextpackage" | "until"
	AbortAt int    `json:"abort_at"` // callback invocation index at which the policy applies (-1 never)
	Outcome string `json:"outcome"`  // "true" | "eof" | "err" | "err-wrapping-eof" | "true+err"
	// LateEOM: the response ends with a real final DONE in a packet without
	// EOM; the header-only EOM packet only arrives after the consumer has
	// read the DONE and sent its next request.
	LateEOM bool `json:"late_eom,omitempty"`
	// Sched: "" = the response is fed after the request was sent and is
	// complete before the consumer starts; "overtake" = the first response
	// packet is processed by the reader while the client is still inside the
	// write of its last request packet (a fast server); "staged-nowait" = the
	// consumer starts with wait=false when only the first response packet has
	// arrived, the rest arrives while it is reading.
	Sched string `json:"schedule,omitempty"`
}

type c03Case struct {
	Rounds []c03Round `json:"rounds"`
}

var errC03Callback = errors.New("c03 callback failure")

// an error that wraps io.EOF is "another error", not the unwrapped io.EOF
// that means "stop here, I will resume"
var errC03WrapsEOF = fmt.Errorf("c03 callback failure while scanning: %w", io.EOF)

// c03Expected computes what must be delivered for a round: dumps are not
// known to the model, kinds and count are.
func c03Expected(kinds []string) []string {
	var out []string
	for _, k := range kinds {
		switch k {
		case "env", "info":
		default:
			out = append(out, k)
		}
	}
	if len(out) == 0 || out[len(out)-1] != "done0" {
		out = append(out, "synthetic-done0")
	}
	return out
}

func norm0(s []string) []string {
	o := make([]string, len(s))
	for i, x := range s {
		if x == "synthetic-done0" {
			x = "done0"
		}
		o[i] = x
	}
	return o
}

func c03Kind(pkg tds.Package) string {
	switch p := pkg.(type) {
	case *tds.DonePackage:
		if p.Status == tds.TDS_DONE_FINAL {
			return "done0"
		}
		return "doneX"
	case *tds.EEDPackage:
		return "eed"
	case *tds.EnvChangePackage:
		return "env"
	case tds.HeaderOnlyPackage, *tds.HeaderOnlyPackage:
		return "header-only"
	}
	return "pkg"
}

func c03Run(c *Ctx, cs c03Case) {
	r := c.R
	r.Eval(1)
	k, err := newKit(4096, 0)
	if err != nil {
		r.Inconclusive("cannot set up connection: %v", err)
		return
	}
	defer k.teardown()
	prevEnd := "start"
	nontrivial := false
	var heldEOM []byte
	for ri, rd := range cs.Rounds {
		r.Count("rounds", 1)
		// response packets
		var body []byte
		for _, h := range rd.PkgsHex {
			b, _ := hex.DecodeString(h)
			body = append(body, b...)
		}
		var pkts [][]byte
		if len(body) == 0 {
			pkts = [][]byte{xport.Packet(byte(tds.TDS_BUF_RESPONSE), xport.EOM, 0, nil)}
		} else {
			pkts = c02Packets(body, rd.Cuts, nil, rd.EmptyEOM)
		}
		if rd.StatusExtra != 0 {
			for i := range pkts {
				p := append([]byte(nil), pkts[i]...)
				p[1] |= byte(rd.StatusExtra)
				pkts[i] = p
			}
		}
		fedEarly := 0
		if rd.Sched == "overtake" && heldEOM == nil {
			// the server answers so fast that the reader goroutine has
			// processed the first response packet before the client's
			// write call of the last request packet returns
			k.tr.OnWrite = func(rec xport.WriteRec) {
				if h, err := xport.ParseHeader(rec.Data); err == nil && h.Status&xport.EOM != 0 && fedEarly == 0 {
					fedEarly = 1
					k.tr.Feed(pkts[0])
					awaitIdle(k.tr, 30*time.Second)
				}
			}
		}
		// request
		err := k.ch.SendPackage(context.Background(), &tds.LanguagePackage{Cmd: fmt.Sprintf("select %d", ri)})
		k.tr.OnWrite = nil
		if err != nil {
			r.Violate("request-send-failed", fmt.Sprintf("round %d: SendPackage returned %v", ri, err), cs)
			return
		}
		k.tr.TakeWrites()
		if heldEOM != nil {
			// the previous response's end-of-message packet arrives only now
			k.tr.Feed(heldEOM)
			heldEOM = nil
			if !awaitIdle(k.tr, 30*time.Second) {
				r.Inconclusive("round %d: reader did not process the late end-of-message packet", ri)
				return
			}
		}
		// response
		// a staged consumer starts with wait=false: the first stage must
		// hold the first deliverable package completely
		stageN := 0
		if rd.Sched == "staged-nowait" && !rd.LateEOM && rd.Style != "until-nil" {
			firstEnd, off := -1, 0
			for i, h := range rd.PkgsHex {
				off += len(h) / 2
				if rd.Kinds[i] != "env" && rd.Kinds[i] != "info" {
					firstEnd = off
					break
				}
			}
			got := 0
			for i, p := range pkts {
				got += len(p) - 8
				if firstEnd > 0 && got >= firstEnd {
					stageN = i + 1
					break
				}
			}
			if stageN >= len(pkts) || stageN <= fedEarly {
				stageN = 0
			}
		}
		staged := stageN > 0
		var later [][]byte
		switch {
		case rd.LateEOM && len(pkts) >= 2:
			heldEOM = pkts[len(pkts)-1]
			k.tr.Feed(pkts[fedEarly : len(pkts)-1]...)
		case staged:
			k.tr.Feed(pkts[fedEarly:stageN]...)
			later = pkts[stageN:]
		default:
			k.tr.Feed(pkts[fedEarly:]...)
		}
		if !awaitIdle(k.tr, 30*time.Second) {
			r.Inconclusive("round %d: the reader did not come back for more input (shape %s)", ri, rd.Shape)
			return
		}
		want := c03Expected(rd.Kinds)
		if rd.Style == "until" || rd.Style == "until-nil" {
			var w []string
			for _, x := range want {
				if x != "eed" {
					w = append(w, x)
				}
			}
			want = w
		}
		// consumer with a live context; a lazy watchdog cancels it only
		// if the consumer is stuck (everything the reader will ever
		// queue is already queued, so a correct library never waits here)
		ctx, cancel := context.WithCancel(context.Background())
		finished := make(chan struct{})
		go func() {
			select {
			case <-finished:
			case <-time.After(2 * time.Second):
				cancel()
			}
		}()
		var seen []string
		var seenDump []string
		aborted := false
		blocked := ""
		otherErr := ""
		cbCalls := 0
		roundOver := func() bool { return len(seen) > 0 && seen[len(seen)-1] == "done0" }
		waitFlag := !staged // a staged consumer starts with wait=false: its first package is already queued
		consume := func() {
			if rd.Style == "until-nil" {
				// documented: with a nil callback all packages of the current
				// response are consumed and io.EOF is returned (wrapped in an
				// EEDError if the response carried messages)
				pkg, err := k.ch.NextPackageUntil(ctx, true, nil)
				switch {
				case err != nil && ctx.Err() != nil && errors.Is(err, context.Canceled):
					blocked = "NextPackageUntil(nil)"
				case pkg != nil || (err != nil && !errors.Is(err, io.EOF)):
					// the doc comment promises (nil, io.EOF); the library returns
					// (nil, nil) unless the first package is the final DONE. The
					// property only speaks about what is consumed, so both are
					// accepted here (counted).
					otherErr = fmt.Sprintf("NextPackageUntil with a nil callback returned (%v, %v), want no package and nil or io.EOF", pkg, err)
				default:
					if err == nil {
						r.Count("nil_callback_returned_nil_instead_of_io.EOF", 1)
					}
					// consumed without showing anything: the leftover check below
					// verifies that the whole response is gone
					seen = append([]string(nil), norm0(want)...)
				}
			} else if rd.Style == "nextpackage" {
				for !roundOver() {
					pkg, err := k.ch.NextPackage(ctx, waitFlag || len(seen) > 0)
					if err != nil {
						if ctx.Err() != nil && errors.Is(err, context.Canceled) {
							blocked = "NextPackage"
						} else {
							otherErr = err.Error()
						}
						break
					}
					seen = append(seen, c03Kind(pkg))
					seenDump = append(seenDump, canon.Dump(pkg))
				}
			} else {
				for !roundOver() && !aborted {
					_, err := k.ch.NextPackageUntil(ctx, waitFlag || len(seen) > 0, func(pkg tds.Package) (bool, error) {
						idx := cbCalls
						cbCalls++
						kd := c03Kind(pkg)
						seen = append(seen, kd)
						seenDump = append(seenDump, canon.Dump(pkg))
						if idx == rd.AbortAt {
							switch rd.Outcome {
							case "true":
								return true, nil
							case "eof":
								return false, io.EOF
							case "err":
								aborted = true
								return false, errC03Callback
							case "err-wrapping-eof":
								aborted = true
								return false, errC03WrapsEOF
							case "true+err":
								// "stop" and an error at once, as in the
								// example of the documentation
								aborted = true
								return true, errC03Callback
							}
						}
						return kd == "done0", nil
					})
					if err != nil {
						switch {
						case aborted:
							cb := errC03Callback
							if rd.Outcome == "err-wrapping-eof" {
								cb = errC03WrapsEOF
							}
							if !errors.Is(err, cb) || err == io.EOF {
								if ctx.Err() != nil && errors.Is(err, context.Canceled) {
									blocked = "NextPackageUntil(drain)"
								} else {
									otherErr = "abort error does not match the callback's error: " + err.Error()
								}
							} else if ctx.Err() != nil {
								// the callback's error came back, but only after
								// the watchdog had to release a blocked drain
								blocked = "NextPackageUntil(drain)"
							}
						case err == io.EOF && rd.Outcome == "eof":
							// the consumer resumes
							continue
						case ctx.Err() != nil && errors.Is(err, context.Canceled):
							blocked = "NextPackageUntil"
						default:
							otherErr = err.Error()
						}
						if blocked != "" || otherErr != "" {
							break
						}
					}
				}
			}
		}
		if staged {
			// the consumer reads while the rest of the response arrives
			call := c13Go(consume)
			call.parkedState(2 * time.Second)
			k.tr.Feed(later...)
			if !call.wait(20 * time.Second) {
				cancel()
				call.wait(10 * time.Second)
			}
			if !awaitIdle(k.tr, 30*time.Second) {
				r.Inconclusive("round %d: reader not idle after the staged response", ri)
				return
			}
		} else {
			consume()
		}
		close(finished)
		cancel()
		r.Count("packages_observed", int64(len(seen)))
		policy := rd.Style
		if rd.Style == "until" && rd.AbortAt >= 0 && rd.AbortAt < len(want) {
			policy += "/" + rd.Outcome
		}
		if rd.LateEOM {
			nontrivial = true
		}
		endKind := "real-done0"
		if want[len(want)-1] == "synthetic-done0" {
			endKind = "library-supplied-done"
			nontrivial = true
		}
		if aborted || (rd.Style == "until" && rd.AbortAt >= 0 && rd.AbortAt < len(want)) {
			nontrivial = true
		}
		sigTail := fmt.Sprintf("/%s/after-%s/%s", rd.Shape, prevEnd, policy)
		fail := func(clause, detail string) {
			r.Violate(clause+sigTail, fmt.Sprintf("round %d (shape %s, server sent %v in %d packet(s) [%s], consumer %s abort_at=%d outcome=%s): %s; consumer saw %v, model expects %v",
				ri, rd.Shape, rd.Kinds, len(pkts), rd.CutClass, rd.Style, rd.AbortAt, rd.Outcome, detail, seen, want), cs)
		}
		// compare with the model
		norm := func(s []string) []string {
			o := make([]string, len(s))
			for i, x := range s {
				if x == "synthetic-done0" {
					x = "done0"
				}
				o[i] = x
			}
			return o
		}
		wantN := norm(want)
		if otherErr != "" {
			fail("error-surfaced", otherErr)
			return
		}
		if blocked != "" {
			// structural confirmation: reader idle and nothing queued
			d := drainChannel(k.ch, k.ctx)
			if len(d.Dumps) == 0 {
				fail("consumer-blocked-no-final-done", fmt.Sprintf("%s never returned although the reader had processed the whole response and nothing is queued (released by the watchdog)", blocked))
			} else {
				r.Inconclusive("round %d: watchdog fired but %d packages were still queued (slow consumer?)", ri, len(d.Dumps))
			}
			return
		}
		if aborted {
			// the consumer saw a prefix up to the aborting package; the
			// rest must have been consumed by the library
			upto := rd.AbortAt + 1
			if upto > len(wantN) {
				upto = len(wantN)
			}
			if !sameStrings(seen, wantN[:upto]) {
				fail("wrong-packages-before-abort", "")
				return
			}
		} else if !sameStrings(seen, wantN) {
			kind := "wrong-packages"
			for _, s := range seen {
				if s == "header-only" {
					kind = "header-only-package-delivered"
				}
			}
			n0 := 0
			for _, s := range seen {
				if s == "done0" {
					n0++
				}
			}
			if n0 > 1 {
				kind = "more-than-one-final-done"
			}
			fail(kind, "")
			return
		}
		// nothing of this round may be left over
		left := drainChannel(k.ch, k.ctx)
		if len(left.Dumps) > 0 || len(left.Errs) > 0 {
			fail("leftover-after-round", fmt.Sprintf("after the round %d package(s) %v and %d error(s) %v are still queued", len(left.Dumps), left.Types, len(left.Errs), left.Errs))
			return
		}
		prevEnd = endKind
		r.SetAdd("round_shapes", rd.Shape+"|"+rd.CutClass+"|"+policy)
	}
	if heldEOM != nil {
		k.tr.Feed(heldEOM)
		if !awaitIdle(k.tr, 30*time.Second) {
			r.Inconclusive("reader did not process the last late end-of-message packet")
			return
		}
		if left := drainChannel(k.ch, k.ctx); len(left.Dumps) > 0 || len(left.Errs) > 0 {
			r.Violate("leftover-after-round/late-eom-after-real-final-done", fmt.Sprintf("the end-of-message packet arriving after a real final DONE produced %v / %v", left.Types, left.Errs), cs)
			return
		}
	}
	if nontrivial && len(cs.Rounds) >= 2 {
		var key strings.Builder
		for _, rd := range cs.Rounds {
			fmt.Fprintf(&key, "%s|%s|%v|%s|%d|%s|%v|%s;", rd.Shape, rd.CutClass, rd.Cuts, rd.Style, rd.AbortAt, rd.Outcome, rd.LateEOM, rd.Sched)
		}
		r.Distinct(key.String())
	}
}

// ---------------------------------------------------------------- generator

type c03Shape struct {
	name string
	gen  func(rnd *rt.Rand) *response
}

func c03Shapes() []c03Shape {
	rowsCols := []srv.Col{colI4, colVC}
	row := func(i int) []byte {
		return srv.Data(srv.TokRow, rowsCols, vals(srv.I32(int32(i)), []byte(fmt.Sprintf("row-%d", i))))
	}
	infoEED := func() []byte {
		return srv.EED{MsgNr: 5701, Class: 10, Status: 2, Msg: "info message", Server: "S"}.Bytes()
	}
	errEED := func(nr uint32) []byte {
		return srv.EED{MsgNr: nr, State: 1, Class: 16, SQLState: []byte("ZZZZZ"), Status: 0, TranState: 1, Msg: "error message", Server: "S", Line: 3}.Bytes()
	}
	env := func() []byte { return srv.EnvChange(srv.EnvMember{Type: 1, New: "db2", Old: "db1"}) }
	mkRows := func(rnd *rt.Rand, r *response, n int) {
		r.add("pkg", srv.RowFmt(true, rowsCols...))
		for i := 0; i < n; i++ {
			r.add("pkg", row(i))
		}
	}
	// insert an extra package of the kind at a random package boundary
	// (never after a done0)
	insert := func(rnd *rt.Rand, r *response, kind string, b []byte) {
		max := len(r.Pkgs)
		if max > 0 && r.Kinds[max-1] == "done0" {
			max--
		}
		at := rnd.Intn(max + 1)
		r.Pkgs = append(r.Pkgs[:at], append([][]byte{b}, r.Pkgs[at:]...)...)
		r.Kinds = append(r.Kinds[:at], append([]string{kind}, r.Kinds[at:]...)...)
	}
	return []c03Shape{
		{"done-only", func(rnd *rt.Rand) *response { r := &response{}; r.add(done(0, 0)); return r }},
		{"rows-final", func(rnd *rt.Rand) *response {
			r := &response{}
			mkRows(rnd, r, rnd.Range(0, 4))
			r.add(done(0, 0))
			return r
		}},
		{"rows-done-count", func(rnd *rt.Rand) *response {
			r := &response{}
			mkRows(rnd, r, rnd.Range(1, 3))
			r.add(done(srv.DoneCount, 2))
			return r
		}},
		{"trailing-done-bits", func(rnd *rt.Rand) *response {
			r := &response{}
			r.add("pkg", srv.ReturnStatus(0))
			bits := []uint16{srv.DoneCount, srv.DoneProc, srv.DoneError, srv.DoneInXact, srv.DoneError | srv.DoneInXact, srv.DoneMore, srv.DoneCount | srv.DoneProc}
			r.add(done(bits[rnd.Intn(len(bits))], 1))
			return r
		}},
		{"ends-with-doneproc-final", func(rnd *rt.Rand) *response {
			// a procedure's response may end with DONEPROC / DONEINPROC
			// carrying the final status: that token is the response's one
			// final DONE (the library delivers all three tokens as
			// DonePackage)
			r := &response{}
			if rnd.Bool() {
				mkRows(rnd, r, rnd.Range(0, 2))
				r.add("doneX", srv.Done(srv.TokDoneInProc, srv.DoneMore|srv.DoneCount, 0, 1))
			}
			r.add("pkg", srv.ReturnStatus(0))
			tok := byte(srv.TokDoneProc)
			if rnd.Chance(1, 3) {
				tok = srv.TokDoneInProc
			}
			r.add("done0", srv.Done(tok, 0, 0, 0))
			return r
		}},
		{"multi-result-sets", func(rnd *rt.Rand) *response {
			r := &response{}
			mkRows(rnd, r, rnd.Range(1, 2))
			r.add(done(srv.DoneMore|srv.DoneCount, 1))
			mkRows(rnd, r, rnd.Range(0, 2))
			if rnd.Bool() {
				r.add(done(0, 0))
			} else {
				r.add(done(srv.DoneCount, 1))
			}
			return r
		}},
		{"done-missing", func(rnd *rt.Rand) *response {
			r := &response{}
			if rnd.Bool() {
				mkRows(rnd, r, rnd.Range(1, 2))
			} else {
				r.add("pkg", srv.Msg(0, 13))
			}
			return r
		}},
		{"params-retstat", func(rnd *rt.Rand) *response {
			pc := []srv.Col{{Name: "@o", Type: srv.TIntN, MaxLen: 4, Status: 1}}
			r := &response{}
			r.add("pkg", srv.ReturnStatus(3))
			r.add("pkg", srv.ParamFmt(rnd.Bool(), pc...))
			r.add("pkg", srv.Data(srv.TokParams, pc, vals(srv.I32(5))))
			r.add("doneX", srv.Done(srv.TokDoneProc, srv.DoneProc, 0, 0))
			r.add(done(0, 0))
			return r
		}},
		{"info-eed-anywhere", func(rnd *rt.Rand) *response {
			r := &response{}
			mkRows(rnd, r, rnd.Range(0, 3))
			r.add(done(uint16(rnd.Intn(2))*srv.DoneCount, 0))
			insert(rnd, r, "info", infoEED())
			return r
		}},
		{"error-eed-before-done", func(rnd *rt.Rand) *response {
			r := &response{}
			if rnd.Bool() {
				mkRows(rnd, r, rnd.Range(0, 2))
			}
			r.add("eed", errEED(2601))
			if rnd.Bool() {
				r.add(done(srv.DoneError, 0))
			} else {
				r.add(done(0, 0))
			}
			return r
		}},
		{"error-eed-before-row", func(rnd *rt.Rand) *response {
			// a message between the format and a row, or between rows
			r := &response{}
			r.add("pkg", srv.RowFmt(true, rowsCols...))
			n := rnd.Range(1, 3)
			at := rnd.Intn(n)
			for i := 0; i < n; i++ {
				if i == at {
					r.add("eed", errEED(3606))
				}
				r.add("pkg", row(i))
			}
			r.add(done(0, int32(n)))
			return r
		}},
		{"error-eed-before-params", func(rnd *rt.Rand) *response {
			pc := []srv.Col{{Name: "@o", Type: srv.TIntN, MaxLen: 4, Status: 1}}
			r := &response{}
			r.add("pkg", srv.ParamFmt(false, pc...))
			r.add("eed", errEED(257))
			r.add("pkg", srv.Data(srv.TokParams, pc, vals(srv.I32(5))))
			r.add(done(0, 0))
			return r
		}},
		{"envchange-anywhere", func(rnd *rt.Rand) *response {
			r := &response{}
			mkRows(rnd, r, rnd.Range(0, 2))
			r.add(done(0, 0))
			insert(rnd, r, "env", env())
			return r
		}},
		{"swallowed-only-no-done", func(rnd *rt.Rand) *response {
			r := &response{}
			if rnd.Bool() {
				r.add("env", env())
			}
			r.add("info", infoEED())
			return r
		}},
		{"swallowed-after-final-done", func(rnd *rt.Rand) *response {
			// packages the library keeps to itself (an environment change, an
			// informational message) arrive after the server's final DONE,
			// before the end of the message: the consumer has its final DONE
			r := &response{}
			mkRows(rnd, r, rnd.Range(0, 2))
			r.add(done(0, 0))
			switch rnd.Intn(3) {
			case 0:
				r.add("env", env())
			case 1:
				r.add("info", infoEED())
			default:
				r.add("env", env())
				r.add("info", infoEED())
			}
			return r
		}},
		{"empty-response", func(rnd *rt.Rand) *response { return &response{} }},
	}
}

func c03GenRound(rnd *rt.Rand, shapes []c03Shape, si int) c03Round {
	sh := shapes[si]
	resp := sh.gen(rnd)
	rd := c03Round{Shape: sh.name, Kinds: resp.Kinds}
	for _, p := range resp.Pkgs {
		rd.PkgsHex = append(rd.PkgsHex, hex.EncodeToString(p))
	}
	if rd.Kinds == nil {
		rd.Kinds = []string{}
	}
	n := len(resp.Bytes())
	bounds := resp.Bounds()
	switch cl := rnd.Intn(6); {
	case n < 2 || cl == 0:
		rd.CutClass = "one-packet"
	case cl == 1:
		rd.CutClass = "random-cuts"
		rd.Cuts = randomCuts(rnd, n, rnd.Range(1, 5))
	case cl == 2 && len(bounds) >= 2:
		// the last packet holds exactly the last package (EOM coincides
		// with a package boundary)
		rd.CutClass = "eom-packet-is-last-package"
		rd.Cuts = []int{bounds[len(bounds)-2]}
	case cl == 3:
		rd.CutClass = "one-byte-bodies"
		for i := 1; i < n; i++ {
			rd.Cuts = append(rd.Cuts, i)
		}
	case cl == 4:
		rd.CutClass = "header-only-eom"
		rd.EmptyEOM = true
		rd.Cuts = randomCuts(rnd, n, rnd.Range(0, 2))
		if len(rd.Kinds) > 0 && rd.Kinds[len(rd.Kinds)-1] == "done0" && rnd.Bool() {
			rd.CutClass = "header-only-eom-arriving-after-next-request"
			rd.LateEOM = true
		}
	default:
		rd.CutClass = "cut-inside-last-package"
		lo := 1
		if len(bounds) >= 2 {
			lo = bounds[len(bounds)-2] + 1
		}
		if lo < n {
			rd.Cuts = []int{rnd.Range(lo, n-1)}
		}
	}
	if n == 0 {
		rd.CutClass = "header-only-eom"
	}
	switch rnd.Intn(6) {
	case 0:
		rd.Sched = "overtake"
	case 1:
		rd.Sched = "staged-nowait"
	}
	if rnd.Chance(1, 8) {
		rd.StatusExtra = []int{0x02, 0x08, 0x0a}[rnd.Intn(3)]
	}
	exp := c03Expected(rd.Kinds)
	if rnd.Chance(1, 8) {
		rd.Style = "until-nil"
		rd.AbortAt = -1
	} else if rnd.Chance(1, 3) {
		rd.Style = "nextpackage"
		rd.AbortAt = -1
	} else {
		rd.Style = "until"
		rd.AbortAt = rnd.Range(-1, len(exp)-1)
		rd.Outcome = []string{"true", "eof", "err", "err-wrapping-eof", "true+err"}[rnd.Intn(5)]
	}
	return rd
}

func runC03(c *Ctx) {
	r := c.R
	r.Rule = "histories of 2-6 request/response rounds on one channel; 15 response shapes (rows, several result sets with DONE(MORE), trailing DONE with COUNT/PROC/ERROR/INXACT bits, DONE missing, params+status, info and error EED at package boundaries incl. directly before ROW/PARAMS, ENVCHANGE, only-swallowed packages, swallowed packages after the final DONE, empty response) × 6 packetisation classes × consumers {NextPackage loop, NextPackageUntil with the callback returning true / io.EOF / an error at every package index}; every ordered pair of shapes occurs as consecutive rounds (enumerated), the rest seeded; non-trivial = >= 2 rounds and a round ending without a real final DONE or a consumer abort; distinct = full history description"
	r.TrustedBase = []string{"round model c03Expected (what must be delivered: server packages minus ENVCHANGE / informational EED, plus one library-supplied final DONE iff the last delivered package is not DONE(status 0))", "harness/srv encoder"}
	r.Assumptions = []string{"the consumer starts reading a round only after the reader goroutine has processed the whole response (transport barrier); a consumer that would wait although nothing more can arrive is released by a 2 s watchdog and the hang is confirmed structurally (reader idle, nothing queued)", "EED packages are not passed to a NextPackageUntil callback by design (they are collected for the error value); that consumer style is judged on the non-EED packages"}
	if c.Replay != nil {
		var cs c03Case
		if err := json.Unmarshal(c.Replay, &cs); err != nil {
			r.Inconclusive("bad replay: %v", err)
			return
		}
		c03Run(c, cs)
		return
	}
	shapes := c03Shapes()
	var cases []c03Case
	// enumerated: every ordered pair of shapes as consecutive rounds, a
	// few variants each
	variants := 3
	if !c.Quick() {
		variants = 40
	}
	for a := range shapes {
		for b := range shapes {
			for v := 0; v < variants; v++ {
				rnd := rt.NewRand(c.Seed, fmt.Sprintf("c03/pair/%d/%d/%d", a, b, v))
				cs := c03Case{Rounds: []c03Round{c03GenRound(rnd, shapes, a), c03GenRound(rnd, shapes, b)}}
				if rnd.Bool() {
					cs.Rounds = append(cs.Rounds, c03GenRound(rnd, shapes, rnd.Intn(len(shapes))))
				}
				cases = append(cases, cs)
			}
		}
	}
	// every abort point x outcome for every shape (second round follows)
	for a := range shapes {
		for _, oc := range []string{"true", "eof", "err", "err-wrapping-eof", "true+err"} {
			for at := 0; at < 8; at++ {
				rnd := rt.NewRand(c.Seed, fmt.Sprintf("c03/abort/%d/%s/%d", a, oc, at))
				rd := c03GenRound(rnd, shapes, a)
				if at >= len(c03Expected(rd.Kinds)) {
					continue
				}
				rd.Style, rd.AbortAt, rd.Outcome = "until", at, oc
				cases = append(cases, c03Case{Rounds: []c03Round{rd, c03GenRound(rnd, shapes, rnd.Intn(len(shapes)))}})
			}
		}
	}
	nRand := 1500
	if !c.Quick() {
		nRand = 150000
	}
	for i := 0; i < nRand; i++ {
		rnd := rt.NewRand(c.Seed, fmt.Sprintf("c03/rand/%d", i))
		var cs c03Case
		for j := rnd.Range(2, 6); j > 0; j-- {
			cs.Rounds = append(cs.Rounds, c03GenRound(rnd, shapes, rnd.Intn(len(shapes))))
		}
		cases = append(cases, cs)
	}
	r.Count("histories", int64(len(cases)))
	for i := 0; i < 3; i++ {
		r.Sample("history", cases[i*97%len(cases)])
	}
	c.parallel(len(cases), func(i int) { c03Run(c, cases[i]) })
}
