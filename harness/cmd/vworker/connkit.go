package main

import (
	"context"
	"errors"
	"fmt"
	"time"

	"github.com/SAP/go-dblib/tds"

	"verif/harness/canon"
	"verif/harness/xport"
)

// kit is one Conn + channel 0 on top of an in-memory transport.
type kit struct {
	tr     *xport.Transport
	conn   *tds.Conn
	ch     *tds.Channel
	ctx    context.Context
	cancel context.CancelFunc
	info   *tds.Info
}

func newInfo(queueSize, readTimeout int) *tds.Info {
	info := &tds.Info{}
	info.Network = "tcp"
	info.ClientHostname = "vhost"
	info.PacketReadTimeout = readTimeout
	info.ChannelPackageQueueSize = queueSize
	return info
}

func newKit(queueSize, readTimeout int) (*kit, error) {
	return newKitWith(queueSize, readTimeout, nil)
}

// newKitWith lets the caller adjust the connection information first.
func newKitWith(queueSize, readTimeout int, adjust func(*tds.Info)) (*kit, error) {
	k := &kit{tr: xport.New(), info: newInfo(queueSize, readTimeout)}
	if adjust != nil {
		adjust(k.info)
	}
	k.ctx, k.cancel = context.WithCancel(context.Background())
	conn, err := tds.NewConnTransport(k.ctx, k.info, k.tr)
	if err != nil {
		k.cancel()
		return nil, err
	}
	k.conn = conn
	ch, err := conn.NewChannel()
	if err != nil {
		k.cancel()
		k.tr.Close()
		return nil, err
	}
	k.ch = ch
	return k, nil
}

// teardown ends the connection without the logout exchange Conn.Close does.
func (k *kit) teardown() {
	k.cancel()
	k.tr.Close()
}

// delivered is what a consumer obtained from a channel.
type delivered struct {
	Dumps []string // canonical dumps of packages in delivery order
	Types []string
	Errs  []string
	Pkgs  []tds.Package
}

// drain takes everything that is ready on the channel without blocking.
// NextPackage(wait=false) picks randomly among ready sources once the
// package queue looked empty, so it is repeated until ErrNoPackageReady was
// returned 64 times in a row (the reader must be quiescent).
func drainChannel(ch *tds.Channel, ctx context.Context) delivered {
	var d delivered
	idle := 0
	for idle < 64 {
		pkg, err := ch.NextPackage(ctx, false)
		if err != nil {
			if errors.Is(err, tds.ErrNoPackageReady) {
				idle++
				continue
			}
			idle = 0
			d.Errs = append(d.Errs, err.Error())
			if len(d.Errs) > 64 {
				break
			}
			continue
		}
		idle = 0
		d.Dumps = append(d.Dumps, canon.Dump(pkg))
		d.Types = append(d.Types, fmt.Sprintf("%T", pkg))
		d.Pkgs = append(d.Pkgs, pkg)
	}
	return d
}

// awaitIdle is tr.AwaitIdle with a watchdog; ok=false means the watchdog
// fired (the reader never came back for more input).
func awaitIdle(tr *xport.Transport, d time.Duration) bool {
	done := make(chan bool, 1)
	go func() { done <- tr.AwaitIdle() }()
	t := time.NewTimer(d)
	defer t.Stop() // an unstopped timer stays live until it fires
	select {
	case v := <-done:
		return v
	case <-t.C:
		return false
	}
}

func sameStrings(a, b []string) bool {
	if len(a) != len(b) {
		return false
	}
	for i := range a {
		if a[i] != b[i] {
			return false
		}
	}
	return true
}

func firstDiff(a, b []string) string {
	n := len(a)
	if len(b) < n {
		n = len(b)
	}
	for i := 0; i < n; i++ {
		if a[i] != b[i] {
			return fmt.Sprintf("first difference at index %d: got %.300s, want %.300s", i, a[i], b[i])
		}
	}
	return fmt.Sprintf("lengths differ: got %d, want %d", len(a), len(b))
}
