package main

import (
	"bytes"
	"context"
	"fmt"
	"sync"
	"time"

	"github.com/SAP/go-dblib/tds"

	"verif/harness/rt"
	"verif/harness/srv"
	"verif/harness/xport"
)

// C09, relogin leg: two logins on the SAME connection (the first is refused
// by the server in round 2, the second succeeds), with different nonces and
// account passwords, and with one application-owned remote server list (a
// slice with spare capacity) shared by the two LoginConfigs. Everything the
// second login sends must decrypt to ITS nonce followed by the respective
// password, its session key must be fresh, and the application's list must
// come back untouched.

type c09ReloginCase struct {
	Leg      string `json:"leg"`
	Remotes  int    `json:"remote_servers"`
	SpareCap int    `json:"spare_capacity"`
	KeyBits  int    `json:"key_bits"`
	Idx      int    `json:"idx"`
	// SameConfig: both logins use ONE LoginConfig object whose account
	// password the application changes in between (a retry after "password
	// expired", a pooled configuration)
	SameConfig bool `json:"same_config_object,omitempty"`
	// SecondKeyBits: the second negotiation announces another server key
	// (of this size) than the first one
	SecondKeyBits int `json:"second_login_key_bits,omitempty"`
}

func c09Relogin(c *Ctx, cs c09ReloginCase) {
	r := c.R
	r.Eval(1)
	fail := func(sig, detail string) {
		r.Violate(sig, fmt.Sprintf("two logins on one connection, %d remote servers in an application-owned list with %d spare capacity: %s", cs.Remotes, cs.SpareCap, detail), cs)
	}
	key := lpGetKey(cs.KeyBits)
	keys := []*lpKey{key, key}
	if cs.SecondKeyBits != 0 {
		keys[1] = lpGetKey(cs.SecondKeyBits)
	}
	rnd := rt.NewRand(c.Seed, fmt.Sprintf("c09/relogin/%d", cs.Idx))
	nonces := [][]byte{rnd.Bytes(16), rnd.Bytes(16)}
	pws := []string{"first-Acc0unt-pw", "second-Acc0unt-pw"}
	app := make([]tds.LoginConfigRemoteServer, 0, cs.Remotes+cs.SpareCap)
	var names []string
	for i := 0; i < cs.Remotes; i++ {
		app = append(app, tds.LoginConfigRemoteServer{Name: fmt.Sprintf("REM%d", i), Password: fmt.Sprintf("rem0te-pw-%d", i)})
		names = append(names, fmt.Sprintf("REM%d", i))
	}
	snapshot := append([]tds.LoginConfigRemoteServer(nil), app[:cap(app)]...)

	k, err := newKit(256, 0)
	if err != nil {
		r.Inconclusive("setup: %v", err)
		return
	}
	defer k.teardown()
	types := []int{srv.TInt4, srv.TLongBinary, srv.TLongBinary}
	negotiate := func(i int) []lpItem {
		return []lpItem{lpLoginAck(srv.LogNegotiate), lpMsg(1, lpMsgEncrypt4), lpParamFmt(types...), lpParams(types, 1, "valid", keys[i].pem, nonces[i]), lpDone(0)}
	}
	replies := [][]lpItem{
		negotiate(0), {lpLoginAck(srv.LogFail), lpDone(0)}, // login 1: refused
		negotiate(1), {lpLoginAck(srv.LogSucceed), lpCaps("ok"), lpDone(0)}, // login 2: accepted
	}
	var mu sync.Mutex
	var cur []byte
	var messages [][]byte
	k.tr.OnWrite = func(rec xport.WriteRec) {
		h, err := xport.ParseHeader(rec.Data)
		if err != nil {
			return
		}
		mu.Lock()
		cur = append(cur, rec.Data[8:]...)
		if h.Status&xport.EOM == 0 {
			mu.Unlock()
			return
		}
		messages = append(messages, cur)
		cur = nil
		n := len(messages) - 1
		mu.Unlock()
		if n < len(replies) {
			k.tr.Feed(lpPacketize(rnd, replies[n], "one-packet")...)
		}
	}
	shared := lpConfig("sa", pws[0], true)
	shared.RemoteServers = app
	login := func(i int) (error, *rt.PanicInfo) {
		cfg := lpConfig("sa", pws[i], true)
		cfg.RemoteServers = app // the application's own list
		if cs.SameConfig {
			cfg = shared
			cfg.DSN.Password = pws[i]
		}
		ctx, cancel := context.WithTimeout(k.ctx, 5*time.Second)
		defer cancel()
		var err error
		pi := rt.Catch(func() { err = k.ch.Login(ctx, cfg) })
		return err, pi
	}
	err1, pi1 := login(0)
	if pi1 != nil {
		fail("panic/"+pi1.Frame, pi1.Value)
		return
	}
	if err1 == nil {
		fail("relogin/refused-login-reported-success", "the server answered TDS_LOG_FAIL in round 2, Login returned nil")
		return
	}
	// the application's list must be untouched (length, contents, spare elements)
	if len(app) != cs.Remotes || fmt.Sprint(app[:cap(app)]) != fmt.Sprint(snapshot) {
		// not a clause of the property by itself; what the second login then
		// sends is judged below
		r.Count("callers_remote_server_list_modified_by_login", 1)
	}
	if !awaitIdle(k.tr, 10*time.Second) {
		r.Inconclusive("reader not idle between the logins")
		return
	}
	drainChannel(k.ch, k.ctx)
	err2, pi2 := login(1)
	if pi2 != nil {
		fail("panic/"+pi2.Frame, pi2.Value)
		return
	}
	if err2 != nil {
		fail("relogin/second-login-failed", err2.Error())
		return
	}
	mu.Lock()
	msgs := append([][]byte(nil), messages...)
	mu.Unlock()
	if len(msgs) != 4 {
		fail("relogin/unexpected-message-count", fmt.Sprintf("the client sent %d messages, expected 4 (record+secrets for each login)", len(msgs)))
		return
	}
	var sks [][]byte
	for i := 0; i < 2; i++ {
		secrets := [][]byte{[]byte(pws[i])}
		for j := 0; j < cs.Remotes; j++ {
			secrets = append(secrets, []byte(fmt.Sprintf("rem0te-pw-%d", j)))
		}
		sk, _, ok := c09Phase2(r, func(sig, d string) { fail(sig, fmt.Sprintf("login %d: %s", i+1, d)) }, keys[i], nonces[i], []byte(pws[i]), names, secrets, msgs[2*i+1])
		if !ok {
			return
		}
		sks = append(sks, sk)
		// no secret of the OTHER login may appear in this login's bytes
		other := []byte(pws[1-i])
		if bytes.Contains(msgs[2*i], other) || bytes.Contains(msgs[2*i+1], other) {
			fail("secret-in-clear/other-logins-password", fmt.Sprintf("login %d carries the account password of the other login in clear", i+1))
			return
		}
	}
	if bytes.Equal(sks[0], sks[1]) {
		fail("freshness/session-key-reused-on-the-connection", fmt.Sprintf("the second login on the connection sent the session key of the first one again: %x", sks[1]))
		return
	}
	r.Count("relogin_cases", 1)
	r.Distinct(fmt.Sprintf("relogin|%d|%d|%d|%d", cs.Remotes, cs.SpareCap, cs.KeyBits, cs.SecondKeyBits))
	if cs.SecondKeyBits != 0 {
		r.Count("relogin_cases_with_another_server_key", 1)
	}
}

func runC09Relogin(c *Ctx) {
	var cases []c09ReloginCase
	idx := 0
	for _, rem := range []int{0, 1, 3} {
		for _, spare := range []int{0, 1, 4} {
			cases = append(cases, c09ReloginCase{Leg: "relogin", Remotes: rem, SpareCap: spare, KeyBits: 2048, Idx: idx})
			idx++
		}
	}
	for _, rem := range []int{0, 2} {
		cases = append(cases, c09ReloginCase{Leg: "relogin", Remotes: rem, SpareCap: 1, KeyBits: 2048, Idx: idx, SameConfig: true})
		idx++
	}
	// the server announces another key in the second negotiation
	for _, rem := range []int{0, 2} {
		cases = append(cases, c09ReloginCase{Leg: "relogin", Remotes: rem, SpareCap: 0, KeyBits: 2048, SecondKeyBits: 1024, Idx: idx})
		idx++
		cases = append(cases, c09ReloginCase{Leg: "relogin", Remotes: rem, SpareCap: 1, KeyBits: 1024, SecondKeyBits: 2048, Idx: idx, SameConfig: true})
		idx++
	}
	lpGetKey(2048)
	lpGetKey(1024)
	c.R.Sample("relogin", cases[4])
	c.parallel(len(cases), func(i int) { c09Relogin(c, cases[i]) })
}
