package main

import (
	"encoding/binary"
	"encoding/hex"
	"fmt"

	"github.com/SAP/go-dblib/tds"

	"verif/harness/rt"
)

// Workload generators of C10. A group is the unit of batching: group g runs
// in the batch g % Batches. Case lists are a function of (tier, seed) only.

type c10Group struct {
	Name string
	Gen  func(emit func(cs *c10Case, orig []byte))
}

var (
	c10ByteVals = []byte{0, 1, 0x7f, 0x80, 0xff}
	c10Win2Vals = []uint16{0xffff, 0x8000}
	c10Win4Vals = []uint32{0xffff, 1 << 24, 1 << 28}
)

func c10Mk(leg, kind, seed string, pos int, b []byte) *c10Case {
	return &c10Case{Leg: leg, Kind: kind, Seed: seed, Pos: pos, Hex: hex.EncodeToString(b)}
}

func c10Clone(b []byte) []byte { return append([]byte(nil), b...) }

// c10MutGroups: the position-enumerating mutation families for one seed.
func c10MutGroups(c *Ctx, sd c10Seed, unrouted bool) []c10Group {
	mk := func(kind string, pos int, b []byte) *c10Case {
		cs := c10Mk("direct", kind, sd.Name, pos, b)
		cs.Unrouted = unrouted
		return cs
	}
	orig := sd.Bytes
	gs := []c10Group{
		{Name: sd.Name + "/valid", Gen: func(emit func(*c10Case, []byte)) { emit(mk("valid", 0, orig), orig) }},
		{Name: sd.Name + "/byte", Gen: func(emit func(*c10Case, []byte)) {
			n := 0
			for p := range orig {
				for _, v := range c10ByteVals {
					b := c10Clone(orig)
					b[p] = v
					emit(mk("byte", n, b), orig)
					n++
				}
			}
		}},
		{Name: sd.Name + "/win2", Gen: func(emit func(*c10Case, []byte)) {
			n := 0
			for p := 0; p+2 <= len(orig); p++ {
				for _, v := range c10Win2Vals {
					b := c10Clone(orig)
					binary.LittleEndian.PutUint16(b[p:], v)
					emit(mk("win2", n, b), orig)
					n++
				}
			}
		}},
		{Name: sd.Name + "/win4", Gen: func(emit func(*c10Case, []byte)) {
			n := 0
			for p := 0; p+4 <= len(orig); p++ {
				for _, v := range c10Win4Vals {
					b := c10Clone(orig)
					binary.LittleEndian.PutUint32(b[p:], v)
					emit(mk("win4", n, b), orig)
					n++
				}
			}
		}},
		{Name: sd.Name + "/trunc", Gen: func(emit func(*c10Case, []byte)) {
			for l := 0; l < len(orig); l++ {
				emit(mk("trunc", l, c10Clone(orig[:l])), orig)
			}
		}},
		{Name: sd.Name + "/flip", Gen: func(emit func(*c10Case, []byte)) {
			for p := range orig {
				for bit := 0; bit < 8; bit++ {
					b := c10Clone(orig)
					b[p] ^= 1 << uint(bit)
					emit(mk("flip", p*8+bit, b), orig)
				}
			}
		}},
		{Name: sd.Name + "/rand", Gen: func(emit func(*c10Case, []byte)) {
			rnd := rt.NewRand(c.Seed, "c10/rand/"+sd.Name)
			n := 4 * len(orig)
			if !c.Quick() {
				n = 40 * len(orig)
			}
			for i := 0; i < n; i++ {
				b := c10Clone(orig)
				c10RandWindow(rnd, b)
				emit(mk("rand", i, b), orig)
			}
		}},
	}
	if !c.Quick() {
		const chunks = 8
		per := 6000
		for k := 0; k < chunks; k++ {
			k := k
			gs = append(gs, c10Group{Name: fmt.Sprintf("%s/havoc/%d", sd.Name, k), Gen: func(emit func(*c10Case, []byte)) {
				rnd := rt.NewRand(c.Seed, fmt.Sprintf("c10/havoc/%s/%d", sd.Name, k))
				for i := 0; i < per; i++ {
					b := c10Havoc(rnd, orig)
					emit(mk("havoc", k*per+i, b), orig)
				}
			}})
		}
	}
	return gs
}

func c10RandWindow(rnd *rt.Rand, b []byte) {
	if len(b) == 0 {
		return
	}
	w := []int{1, 2, 4}[rnd.Intn(3)]
	if w > len(b) {
		w = 1
	}
	p := rnd.Intn(len(b) - w + 1)
	v := rnd.Uint64()
	switch rnd.Intn(4) {
	case 0: // small values
		v &= 0xff
	case 1: // around the window's sign bit / maximum
		v = (uint64(1)<<(8*uint(w)) - 1) - (v & 3)
	}
	for i := 0; i < w; i++ {
		b[p+i] = byte(v >> (8 * uint(i)))
	}
}

func c10Havoc(rnd *rt.Rand, orig []byte) []byte {
	b := c10Clone(orig)
	for k := rnd.Range(1, 4); k > 0; k-- {
		switch rnd.Intn(7) {
		case 0, 1:
			c10RandWindow(rnd, b)
		case 2: // interesting value
			if len(b) >= 4 {
				p := rnd.Intn(len(b) - 3)
				binary.LittleEndian.PutUint32(b[p:], []uint32{0, 1, 0xffff, 0x10000, 1 << 24, 1 << 28, 0x7f, 0xff}[rnd.Intn(8)])
			}
		case 3: // insert random bytes
			p := rnd.Intn(len(b) + 1)
			ins := rnd.Bytes(rnd.Range(1, 8))
			b = append(b[:p], append(ins, b[p:]...)...)
		case 4: // delete
			if len(b) > 1 {
				p := rnd.Intn(len(b))
				n := rnd.Range(1, 4)
				if p+n > len(b) {
					n = len(b) - p
				}
				b = append(b[:p], b[p+n:]...)
			}
		case 5: // duplicate a slice
			if len(b) > 1 {
				p := rnd.Intn(len(b))
				n := rnd.Range(1, 8)
				if p+n > len(b) {
					n = len(b) - p
				}
				dup := c10Clone(b[p : p+n])
				b = append(b[:p], append(dup, b[p:]...)...)
			}
		case 6: // truncate
			if len(b) > 0 {
				b = b[:rnd.Intn(len(b)+1)]
			}
		}
	}
	return b
}

func c10Pattern(pat string, n int, rnd *rt.Rand) []byte {
	b := make([]byte, n)
	switch pat {
	case "ff":
		for i := range b {
			b[i] = 0xff
		}
	case "ramp":
		for i := range b {
			b[i] = byte(i + 1)
		}
	case "random":
		return rnd.Bytes(n)
	}
	return b
}

// c10TypeGroups: families that start from a valid format over one data type.
func c10TypeGroups(c *Ctx, leg string, pats []string, nRand int) []c10Group {
	var gs []c10Group
	for _, t := range c10Types() {
		for _, kind := range c10FmtKinds {
			t, kind := t, kind
			name := c10FmtName(kind) + ":" + t.Name
			cols := []c10Col{{T: t, Status: c10KindStatus(kind)}}
			f := c10FmtPkg(kind, cols)
			pre := append(c10Clone(f), c10DataTok(kind))
			if c10HasStatus(cols[0].Status) {
				pre = append(pre, 0)
			}
			valid := append(c10Clone(f), c10RowPkg(kind, cols, [][]byte{t.Data})...)
			// (e) random data bytes after the valid format
			gs = append(gs, c10Group{Name: name + "/rowrand", Gen: func(emit func(*c10Case, []byte)) {
				rnd := rt.NewRand(c.Seed, "c10/rowrand/"+name)
				for i := 0; i < nRand; i++ {
					b := append(c10Clone(f), c10DataTok(kind))
					b = append(b, rnd.Bytes(rnd.Intn(65))...)
					emit(c10Mk(leg, "rowrand", name, i, b), valid)
				}
			}})
			// data length swept over its whole range, data present
			if t.LenSize == 1 || t.LenSize == 4 {
				gs = append(gs, c10Group{Name: name + "/lensweep", Gen: func(emit func(*c10Case, []byte)) {
					rnd := rt.NewRand(c.Seed, "c10/lensweep/"+name)
					n := 0
					lens := make([]int, 0, 260)
					for l := 0; l < 256; l++ {
						lens = append(lens, l)
					}
					if t.LenSize == 4 {
						lens = append(lens, 256, 1000, 4096)
					}
					for _, l := range lens {
						for _, pat := range pats {
							x := &c10bb{b: c10Clone(pre)}
							if t.LenSize == 1 {
								x.u8(byte(l))
							} else {
								x.u32(uint32(l))
							}
							x.raw(c10Pattern(pat, l, rnd))
							emit(c10Mk(leg, "lensweep-"+pat, name, n, x.b), valid)
							n++
						}
					}
					if t.LenSize == 4 {
						// declared, not present
						for _, l := range []uint32{0xffff, 1 << 24, 1 << 26, 1 << 28} {
							x := &c10bb{b: c10Clone(pre)}
							x.u32(l).raw([]byte("abc"))
							emit(c10Mk(leg, "lensweep-declared", name, n, x.b), valid)
							n++
						}
					}
				}})
			}
			// data status byte swept (formats with column status)
			if c10HasStatus(cols[0].Status) {
				gs = append(gs, c10Group{Name: name + "/datastatus", Gen: func(emit func(*c10Case, []byte)) {
					for s := 0; s < 256; s++ {
						b := append(c10Clone(f), c10DataTok(kind), byte(s))
						b = append(b, t.Data...)
						emit(c10Mk(leg, "datastatus", name, s, b), valid)
					}
				}})
			}
		}
	}
	return gs
}

// c10OtherGroups: token sweeps, type byte sweeps, multi-column formats,
// unrouted packages.
func c10OtherGroups(c *Ctx) []c10Group {
	var gs []c10Group
	nTail := 100
	nMulti, multiChunks := 2000, 8
	if !c.Quick() {
		nTail = 16000
		nMulti, multiChunks = 60000, 32
	}
	// (b) every token + random tails of length 0..64
	for tok := 0; tok < 256; tok++ {
		tok := tok
		name := fmt.Sprintf("token-%02x", tok)
		gs = append(gs, c10Group{Name: name + "/tail", Gen: func(emit func(*c10Case, []byte)) {
			rnd := rt.NewRand(c.Seed, "c10/tail/"+name)
			for l := 0; l <= 64; l++ { // every tail length once with zeros and once with 0xff
				emit(c10Mk("direct", "tail-zeros", name, l, append([]byte{byte(tok)}, make([]byte, l)...)), nil)
				emit(c10Mk("direct", "tail-ff", name, l, append([]byte{byte(tok)}, c10Pattern("ff", l, nil)...)), nil)
			}
			for i := 0; i < nTail; i++ {
				b := append([]byte{byte(tok)}, rnd.Bytes(rnd.Intn(65))...)
				emit(c10Mk("direct", "tail", name, i, b), nil)
			}
		}})
	}
	// data type byte of a format swept over 0..255 with every kind of
	// type-specific tail, followed by data bytes
	tails := [][]byte{nil, {0xff}, {8, 6}, {5, 10, 2}, (&c10bb{}).u32(0x7fff).b, (&c10bb{}).u32(0x7fff).s16("tab").b, {0xff, 1, 3, 0, 'c', 'l', 's'}, {0xff, 3}, {0xff, 6}}
	for _, kind := range c10FmtKinds {
		kind := kind
		name := "typesweep:" + c10FmtName(kind)
		gs = append(gs, c10Group{Name: name, Gen: func(emit func(*c10Case, []byte)) {
			rnd := rt.NewRand(c.Seed, "c10/"+name)
			n := 0
			for ty := 0; ty < 256; ty++ {
				for _, tail := range tails {
					for _, st := range []uint32{0, 0x28} {
						body := (&c10bb{}).u16(1).raw(c10FmtField(kind, byte(ty), tail, st))
						f := c10FmtWrap(kind, body.b)
						b := append(f, c10DataTok(kind))
						b = append(b, 0, 4, 1, 2, 3, 4, 0, 0, 0, 0)
						b = append(b, rnd.Bytes(rnd.Intn(12))...)
						emit(c10Mk("direct", "typesweep", name, n, b), nil)
						n++
					}
				}
			}
		}})
	}
	// formats over several random columns: valid row, mutated row, random row
	types := c10Types()
	for k := 0; k < multiChunks; k++ {
		k := k
		name := fmt.Sprintf("multicol/%d", k)
		gs = append(gs, c10Group{Name: name, Gen: func(emit func(*c10Case, []byte)) {
			rnd := rt.NewRand(c.Seed, "c10/"+name)
			per := nMulti / multiChunks
			for i := 0; i < per; i++ {
				kind := c10FmtKinds[rnd.Intn(4)]
				ncol := rnd.Range(1, 6)
				cols := make([]c10Col, ncol)
				data := make([][]byte, ncol)
				for j := range cols {
					cols[j] = c10Col{T: types[rnd.Intn(len(types))], Status: []uint32{0, 0x8, 0x20, 0x28, 0xff}[rnd.Intn(5)]}
					data[j] = cols[j].T.Data
				}
				f := c10FmtPkg(kind, cols)
				row := c10RowPkg(kind, cols, data)
				valid := append(c10Clone(f), row...)
				var b []byte
				switch rnd.Intn(4) {
				case 0: // valid, twice (second data package uses LastPkg of the first)
					b = append(c10Clone(valid), row...)
				case 1: // mutated row
					m := c10Clone(row)
					if len(m) > 1 {
						c10RandWindow(rnd, m[1:])
					}
					b = append(c10Clone(f), m...)
				case 2: // havoc over the whole stream
					b = c10Havoc(rnd, valid)
				default: // random row
					b = append(c10Clone(f), row[0])
					b = append(b, rnd.Bytes(rnd.Intn(65))...)
				}
				emit(c10Mk("direct", "multicol", "multicol", k*per+i, b), valid)
			}
		}})
	}
	gs = append(gs, c10SequenceGroups(c)...)
	return gs
}

// c10SequenceGroups: sequences of individually valid packages in orders and
// family combinations a server should not produce (a format followed by the
// data token of the other family, data repeated after a mismatch, data
// without any format, ORDERBY between them, ...). The state one package
// leaves behind (LastPkg) is input to the next one's parser.
func c10SequenceGroups(c *Ctx) []c10Group {
	types := c10Types()
	simple := types[:0:0]
	for _, t := range types {
		if len(t.Data) > 0 && len(t.Data) < 40 {
			simple = append(simple, t)
		}
	}
	nSeq, chunks := 4000, 8
	if !c.Quick() {
		nSeq, chunks = 400000, 32
	}
	done := []byte{0xfd, 0, 0, 0, 0, 0, 0, 0, 0}
	orderby := []byte{0xa9, 1, 0, 1}
	orderby2 := []byte{0x22, 4, 0, 0, 0, 1, 0, 1, 0}
	msg := []byte{0x65, 3, 0, 13, 0}
	retstat := []byte{0x79, 1, 0, 0, 0}
	var gs []c10Group
	// exhaustive over short sequences of the structural alphabet first
	gs = append(gs, c10Group{Name: "sequence/enumerated", Gen: func(emit func(*c10Case, []byte)) {
		col := []c10Col{{T: simple[0]}}
		dat := [][]byte{simple[0].Data}
		var alpha [][]byte
		for _, kind := range c10FmtKinds {
			alpha = append(alpha, c10FmtPkg(kind, col))
		}
		for _, kind := range []byte{c10ParamFmt, c10RowFmt2} {
			alpha = append(alpha, c10RowPkg(kind, col, dat)) // one PARAMS, one ROW
		}
		alpha = append(alpha, done, orderby, orderby2, msg)
		n := 0
		var rec func(prefix []byte, depth int)
		rec = func(prefix []byte, depth int) {
			if depth > 0 {
				emit(c10Mk("direct", "sequence", "enumerated", n, c10Clone(prefix)), nil)
				n++
			}
			if depth == 4 {
				return
			}
			for _, a := range alpha {
				rec(append(c10Clone(prefix), a...), depth+1)
			}
		}
		rec(nil, 0)
	}})
	for k := 0; k < chunks; k++ {
		k := k
		name := fmt.Sprintf("sequence/%d", k)
		gs = append(gs, c10Group{Name: name, Gen: func(emit func(*c10Case, []byte)) {
			rnd := rt.NewRand(c.Seed, "c10/"+name)
			per := nSeq / chunks
			for i := 0; i < per; i++ {
				var b []byte
				var cols []c10Col
				var data [][]byte
				for j := rnd.Range(2, 6); j > 0; j-- {
					switch rnd.Intn(9) {
					case 0, 1: // a format (any kind) over 1-3 columns
						ncol := rnd.Range(1, 3)
						cols = make([]c10Col, ncol)
						data = make([][]byte, ncol)
						for x := range cols {
							cols[x] = c10Col{T: simple[rnd.Intn(len(simple))], Status: []uint32{0, 0x8, 0x20}[rnd.Intn(3)]}
							data[x] = cols[x].T.Data
						}
						b = append(b, c10FmtPkg(c10FmtKinds[rnd.Intn(4)], cols)...)
					case 2, 3, 4: // a data package of either family for the last format's columns
						kind := c10FmtKinds[rnd.Intn(4)]
						if cols == nil {
							b = append(b, c10DataTok(kind))
							b = append(b, rnd.Bytes(rnd.Intn(9))...)
						} else {
							b = append(b, c10RowPkg(kind, cols, data)...)
						}
					case 5:
						b = append(b, orderby...)
					case 6:
						b = append(b, orderby2...)
					case 7:
						b = append(b, [][]byte{msg, retstat}[rnd.Intn(2)]...)
					default:
						b = append(b, done...)
					}
				}
				emit(c10Mk("direct", "sequence", "random", k*per+i, b), nil)
			}
		}})
	}
	return gs
}

func c10AllDirectGroups(c *Ctx) []c10Group {
	var gs []c10Group
	for _, sd := range c10Seeds() {
		gs = append(gs, c10MutGroups(c, sd, false)...)
	}
	for _, sd := range c10UnroutedSeeds() {
		gs = append(gs, c10MutGroups(c, sd, true)...)
	}
	pats := []string{"zeros", "ramp"}
	nRand := 150
	if !c.Quick() {
		pats = []string{"zeros", "ff", "ramp", "random"}
		nRand = 16000
	}
	gs = append(gs, c10TypeGroups(c, "direct", pats, nRand)...)
	gs = append(gs, c10OtherGroups(c)...)
	return gs
}

func runC10Direct(c *Ctx) {
	r := c.R
	if c.Workers > 1 {
		r.Note("direct leg: %d workers requested; the allocation monitor needs a single goroutine, running serially", c.Workers)
	}
	groups := c10AllDirectGroups(c)
	damp := c10Damp{}
	r.Count("direct_groups_total", 0)
	for gi, g := range groups {
		if gi%c.Batches != c.Batch {
			continue
		}
		r.Count("direct_groups_total", 1)
		// one line per group (a few thousand), so that a process-fatal
		// event is at least attributed to a (seed, family) pair
		rt.CaseLog("direct group %d %s", gi, g.Name)
		g.Gen(func(cs *c10Case, orig []byte) {
			b := cs.bytes()
			if n := c10Cap(b, cs.Unrouted, damp, cs.Seed); n > 0 {
				cs.Hex = hex.EncodeToString(b)
				r.Count("declared_lengths_rewritten", int64(n))
			}
			obs := c10RunDirect(r, cs, true)
			for _, name := range obs.AllocVio {
				if damp[name+"|"+cs.Seed]++; damp[name+"|"+cs.Seed] == c10DampAfter {
					r.Count("alloc_damped_pairs", 1)
				}
			}
			if cs.Kind == "valid" {
				if obs.AllOK {
					r.Count("seeds_accepted", 1)
				} else {
					r.Count("seeds_rejected", 1)
					r.SetAdd("seeds_rejected_names", cs.Seed)
				}
			}
			nontrivial := !obs.AllOK
			c10Account(r, cs, obs, nontrivial)
			if cs.Pos == 3 {
				r.Sample(cs.Kind, map[string]interface{}{"case": cs, "outcome": obs.Classes})
			}
		})
	}
}

// ------------------------------------------------------------ bigalloc leg

// c10BigCases: quick = a handful, thorough = every 32-bit length site x 3 values.
func c10BigCases(quick bool) []*c10Case {
	var out []*c10Case
	vals := []uint32{0x7fffffff, 0x80000000, 0xffffffff}
	types := map[string]c10Type{}
	for _, t := range c10Types() {
		types[t.Name] = t
	}
	n := 0
	cur := ""
	add := func(kind string, b []byte) {
		out = append(out, c10Mk("bigalloc", kind, cur, n, b))
		n++
	}
	for _, v := range vals {
		cur = fmt.Sprintf("0x%08x", v)
		add("LANGUAGE-length", (&c10bb{}).u8(byte(tds.TDS_LANGUAGE)).u32(v).u8(0).raw([]byte("select")).b)
		add("DYNAMIC2-stmt-length", (&c10bb{}).u8(byte(tds.TDS_DYNAMIC2)).u32(30).u8(1, 0).s8("id").u32(v).raw([]byte("select")).b)
		add("CURDECLARE3-stmt-length", (&c10bb{}).u8(byte(tds.TDS_CURDECLARE3)).u32(30).s8("c").u32(0).u8(0).u32(v).raw([]byte("select")).b)
		for _, tn := range []string{"LONGBINARY", "LONGCHAR"} {
			t := types[tn]
			cols := []c10Col{{T: t}}
			b := append(c10FmtPkg(c10RowFmt, cols), byte(tds.TDS_ROW))
			add("ROW-"+tn+"-length", (&c10bb{b: b}).u32(v).raw([]byte("abc")).b)
		}
		t := types["TEXT"]
		cols := []c10Col{{T: t}}
		b := append(c10FmtPkg(c10ParamFmt2, cols), byte(tds.TDS_PARAMS))
		add("PARAMS-TEXT-length", (&c10bb{b: b}).u8(2, 1, 2).raw(make([]byte, 8)).u32(v).raw([]byte("abc")).b)
		t = types["BLOB"]
		cols = []c10Col{{T: t}}
		b = append(c10FmtPkg(c10RowFmt, cols), byte(tds.TDS_ROW))
		add("ROW-BLOB-chunk-length", (&c10bb{b: b}).u8(0).u32(v&0x7fffffff).raw([]byte("abc")).b)
		add("PARAMFMT2-length", (&c10bb{}).u8(c10ParamFmt2).u32(v).u16(0xffff).raw([]byte("abc")).b)
		add("ROWFMT2-length", (&c10bb{}).u8(c10RowFmt2).u32(v).u16(0xffff).raw([]byte("abc")).b)
	}
	if quick {
		// the sites that go through BytesChannel.String copy the buffer
		// they allocated (2 x 2..4 GiB touched, ~13 s each): thorough only
		keep := map[string]bool{"ROW-LONGBINARY-length/0x80000000": true, "ROW-LONGBINARY-length/0xffffffff": true, "ROW-LONGCHAR-length/0x7fffffff": true,
			"PARAMS-TEXT-length/0xffffffff": true, "ROW-BLOB-chunk-length/0x7fffffff": true, "PARAMFMT2-length/0xffffffff": true}
		var q []*c10Case
		for _, cs := range out {
			if keep[cs.Kind+"/"+cs.Seed] {
				q = append(q, cs)
			}
		}
		return q
	}
	return out
}

func runC10BigAlloc(c *Ctx) {
	r := c.R
	var mine []*c10Case
	for i, cs := range c10BigCases(c.Quick()) {
		if i%c.Batches == c.Batch {
			mine = append(mine, cs)
		}
	}
	// one fresh process per case: the first multi-GiB allocation of a
	// process is served with untouched pages from the OS; and an
	// out-of-memory fatal error costs that case only
	c10Supervise(c, mine, true, func(cs *c10Case, res *c10ConnRes) {
		rt.CaseLog("bigalloc %s %s", cs.Kind, cs.Hex)
		obs := c10DirectObs{Attempts: res.Delivered, Classes: res.Classes, MaxAlloc: res.Alloc}
		for _, v := range res.Vio {
			v.Case = cs
			obs.Vio = append(obs.Vio, v)
		}
		c10Account(r, cs, obs, true)
		r.Sample("bigalloc", map[string]interface{}{"case": cs, "outcome": res.Classes, "max_alloc": res.Alloc})
	})
}
