package main

import (
	"context"
	"errors"
	"fmt"
	"runtime"
	"sort"
	"sync"
	"sync/atomic"
	"time"

	"github.com/SAP/go-dblib/tds"

	"verif/harness/canon"
)

// C02, consumer "until-poll": the packets of the response arrive one after
// the other while the consumer polls the channel through
// NextPackageUntil(ctx, wait=false, callback). The callback ends a call at
// every final DONE with an error of its own, so that the messages the call
// collected come back with it; "nothing ready" answers are polled again.
//
// What the consumer obtains this way — packages handed to the callback,
// messages carried by the returned errors, and whatever a plain drain finds
// afterwards — must be the packages of the reference delivery, each exactly
// once. (Messages come back at the end of a call, not where they stood in
// the response, so the comparison is one of multisets; the order clause is
// judged by the other consumers.)

var errC02EndOfResponse = errors.New("c02: end of response reached")

func c02DeliverPoll(pkts [][]byte, prelude bool, finals int, shape int) (out c02Out, err error) {
	k, err := newKit(4096, 0)
	if err != nil {
		return out, err
	}
	defer k.teardown()
	if prelude {
		k.tr.Feed(c02PreludePackets(shape)...)
		if !awaitIdle(k.tr, 30*time.Second) {
			out.watchdog = true
			return out, nil
		}
		if d := drainChannel(k.ch, k.ctx); len(d.Dumps) != 3 || len(d.Errs) != 0 {
			return out, fmt.Errorf("prelude response delivered %v / %v", d.Types, d.Errs)
		}
	}
	cctx, ccancel := context.WithCancel(context.Background())
	defer ccancel()
	var mu sync.Mutex
	var got delivered
	var emptyPolls, seenFinals int64
	add := func(p tds.Package) {
		mu.Lock()
		got.Dumps = append(got.Dumps, canon.Dump(p))
		got.Types = append(got.Types, fmt.Sprintf("%T", p))
		mu.Unlock()
	}
	done := make(chan struct{})
	go func() {
		defer close(done)
		for atomic.LoadInt64(&seenFinals) < int64(finals) {
			_, err := k.ch.NextPackageUntil(cctx, false, func(p tds.Package) (bool, error) {
				add(p)
				if d, ok := p.(*tds.DonePackage); ok && d.Status == tds.TDS_DONE_FINAL {
					atomic.AddInt64(&seenFinals, 1)
					return true, errC02EndOfResponse
				}
				return false, nil
			})
			if cctx.Err() != nil {
				return
			}
			var ee *tds.EEDError
			if errors.As(err, &ee) {
				for _, m := range ee.EEDPackages {
					add(m)
				}
			}
			switch {
			case errors.Is(err, tds.ErrNoPackageReady):
				atomic.AddInt64(&emptyPolls, 1)
				runtime.Gosched()
			case errors.Is(err, errC02EndOfResponse):
			case err == nil:
			default:
				mu.Lock()
				got.Errs = append(got.Errs, err.Error())
				n := len(got.Errs)
				mu.Unlock()
				if n > 50 {
					return
				}
			}
		}
	}()
	for _, p := range pkts {
		before := atomic.LoadInt64(&emptyPolls)
		k.tr.Feed(p)
		if !awaitIdle(k.tr, 30*time.Second) {
			out.watchdog = true
			break
		}
		// give the consumer the chance to poll between two packets: until
		// it reported an empty poll, or (when it waits inside a call) a
		// moment passed
		t0 := time.Now()
		for atomic.LoadInt64(&emptyPolls) == before && time.Since(t0) < 1500*time.Microsecond {
			runtime.Gosched()
		}
	}
	t := time.NewTimer(30 * time.Second)
	select {
	case <-done:
	case <-t.C:
		out.watchdog = true
	}
	t.Stop()
	ccancel()
	if !out.watchdog {
		rest := drainChannel(k.ch, k.ctx)
		mu.Lock()
		got.Dumps = append(got.Dumps, rest.Dumps...)
		got.Types = append(got.Types, rest.Types...)
		got.Errs = append(got.Errs, rest.Errs...)
		mu.Unlock()
	}
	mu.Lock()
	out.d = got
	mu.Unlock()
	return out, nil
}

func c02Sorted(a []string) []string {
	b := append([]string(nil), a...)
	sort.Strings(b)
	return b
}

// c02Finals counts the final DONE packages of a delivery.
func c02Finals(d delivered) int {
	n := 0
	for _, p := range d.Pkgs {
		if dp, ok := p.(*tds.DonePackage); ok && dp.Status == tds.TDS_DONE_FINAL {
			n++
		}
	}
	return n
}
