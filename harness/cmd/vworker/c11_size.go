package main

import (
	"encoding/json"
	"fmt"
	"strings"
	"sync"
	"time"

	"github.com/SAP/go-dblib/tds"

	"verif/harness/rt"
	"verif/harness/srv"
	"verif/harness/xport"
)

// C11, scenario "size": one ENVCHANGE package with a packet size member the
// client accepts followed by one it must refuse (not a number, 8 or less,
// above 65535, empty). What was REPORTED to the hooks is what was APPLIED:
// the accepted size is in force and was reported once; the refused one is
// neither reported nor applied; the refusal surfaces as an error.

type c11SizeCase struct {
	Scenario string `json:"scenario"` // "size"
	Good     int    `json:"accepted_size"`
	Bad      string `json:"refused_value"`
	Between  bool   `json:"another_member_in_between"`
}

func c11SizeRun(c *Ctx, cs c11SizeCase) {
	r := c.R
	r.Eval(1)
	b, _ := json.Marshal(cs)
	rt.CaseLog("C11 size %s", b)
	k, err := newKit(64, 0)
	if err != nil {
		r.Inconclusive("setup: %v", err)
		return
	}
	defer k.teardown()
	var mu sync.Mutex
	var hooks []string
	_ = k.ch.RegisterEnvChangeHooks(func(t tds.EnvChangeType, o, n string) {
		mu.Lock()
		hooks = append(hooks, fmt.Sprintf("%d:%s:%s", t, o, n))
		mu.Unlock()
	})
	ms := []srv.EnvMember{{Type: 4, New: itoa(cs.Good), Old: "512"}}
	want := []string{fmt.Sprintf("4:512:%d", cs.Good)}
	if cs.Between {
		ms = append(ms, srv.EnvMember{Type: 1, New: "db2", Old: "db1"})
		want = append(want, "1:db1:db2")
	}
	ms = append(ms, srv.EnvMember{Type: 4, New: cs.Bad, Old: itoa(cs.Good)})
	body := append(srv.EnvChange(ms...), srv.Done(srv.TokDone, 0, 0, 0)...)
	k.tr.Feed(xport.Packet(byte(tds.TDS_BUF_RESPONSE), xport.EOM, 0, body))
	if !awaitIdle(k.tr, 20*time.Second) {
		r.Inconclusive("size scenario: reader not idle")
		return
	}
	d := drainChannel(k.ch, k.ctx)
	mu.Lock()
	got := append([]string(nil), hooks...)
	mu.Unlock()
	r.Distinct(string(b))
	r.Count("size_scenarios", 1)
	fail := func(sig, detail string) { r.Violate("size/"+sig, detail, cs) }
	switch {
	case !sameStrings(got, want):
		fail("hooks-differ", fmt.Sprintf("ENVCHANGE with the packet size members 512->%d and %d->%q: hooks saw %v, want %v (the refused member is not an environment change)", cs.Good, cs.Good, cs.Bad, got, want))
	case k.conn.PacketSize() != cs.Good:
		fail("reported-but-not-applied", fmt.Sprintf("the change of the packet size 512->%d was reported to the hooks, but PacketSize() = %d (a later member of the same package, %d->%q, was refused)", cs.Good, k.conn.PacketSize(), cs.Good, cs.Bad))
	case len(d.Errs) == 0:
		fail("refusal-not-surfaced", fmt.Sprintf("packet size member %d->%q was neither applied nor reported as an error; delivered %v", cs.Good, cs.Bad, d.Types))
	default:
		for _, e := range d.Errs {
			if !strings.Contains(e, "packet size") {
				fail("other-error", fmt.Sprintf("errors %v", d.Errs))
				return
			}
		}
	}
}

func runC11Size(c *Ctx) {
	for _, good := range []int{2048, 256, 65535} {
		for _, bad := range []string{"abc", "8", "0", "-1", "70000", "", "2048x"} {
			for _, between := range []bool{false, true} {
				c11SizeRun(c, c11SizeCase{Scenario: "size", Good: good, Bad: bad, Between: between})
			}
		}
	}
}
