package main

import (
	"verif/harness/refpkg"
	"verif/harness/rt"
	"verif/harness/srv"
)

// response is one server response: the encodings of its packages in order.
type response struct {
	Name string
	Pkgs [][]byte
	// Kinds[i] classifies package i for the delivery models:
	//   "pkg"   delivered to the consumer
	//   "done0" DONE with status 0 (delivered, final)
	//   "doneX" DONE with other status bits (delivered, not final)
	//   "env"   ENVCHANGE (never delivered)
	//   "info"  informational EED (never delivered)
	//   "eed"   non-informational EED (delivered, hooks called)
	Kinds []string
}

func (r response) Bytes() []byte {
	var b []byte
	for _, p := range r.Pkgs {
		b = append(b, p...)
	}
	return b
}

// Bounds returns the end offset of every package in Bytes().
func (r response) Bounds() []int {
	var out []int
	n := 0
	for _, p := range r.Pkgs {
		n += len(p)
		out = append(out, n)
	}
	return out
}

func (r *response) add(kind string, b []byte) *response {
	r.Pkgs = append(r.Pkgs, b)
	r.Kinds = append(r.Kinds, kind)
	return r
}

func done(status uint16, count int32) (string, []byte) {
	k := "doneX"
	if status == 0 {
		k = "done0"
	}
	return k, srv.Done(srv.TokDone, status, 0, count)
}

var (
	colI4   = srv.Col{Name: "id", Type: srv.TInt4, Label: "id", Table: "t", Schema: "dbo", Catalog: "db"}
	colVC   = srv.Col{Name: "name", Type: srv.TVarChar, MaxLen: 40, Status: 0x20, Label: "nm"}
	colIN   = srv.Col{Name: "n", Type: srv.TIntN, MaxLen: 4, Status: 0x20}
	colDT   = srv.Col{Name: "ts", Type: srv.TDateTime}
	colDec  = srv.Col{Name: "amount", Type: srv.TDecN, MaxLen: 6, Prec: 10, Scale: 2}
	colLB   = srv.Col{Name: "blob", Type: srv.TLongBinary, MaxLen: 0x7fffffff}
	colF8   = srv.Col{Name: "f", Type: srv.TFlt8}
	colMny  = srv.Col{Name: "m", Type: srv.TMoney}
	colI4cs = srv.Col{Name: "idcs", Type: srv.TInt4, Status: 0x8} // with column status byte
	colVCcs = srv.Col{Name: "vccs", Type: srv.TVarChar, MaxLen: 20, Status: 0x28}
)

// every data type the mini encoder knows, with one sample raw value
var allTypeCols = []struct {
	c srv.Col
	v []byte
}{
	{srv.Col{Name: "i1", Type: srv.TInt1}, []byte{0x7f}},
	{srv.Col{Name: "i2", Type: srv.TInt2}, srv.I16(-2)},
	{srv.Col{Name: "i4", Type: srv.TInt4}, srv.I32(-70000)},
	{srv.Col{Name: "i8", Type: srv.TInt8}, srv.I64(-1 << 40)},
	{srv.Col{Name: "u2", Type: srv.TUint2}, []byte{0xff, 0xfe}},
	{srv.Col{Name: "u4", Type: srv.TUint4}, []byte{1, 2, 3, 0xf4}},
	{srv.Col{Name: "u8", Type: srv.TUint8}, []byte{1, 2, 3, 4, 5, 6, 7, 0xf8}},
	{srv.Col{Name: "bit", Type: srv.TBit}, []byte{1}},
	{srv.Col{Name: "f4", Type: srv.TFlt4}, []byte{0, 0, 0x80, 0x3f}},
	{srv.Col{Name: "f8", Type: srv.TFlt8}, srv.F64(-2.5)},
	{srv.Col{Name: "mny", Type: srv.TMoney}, srv.Money(-123456789)},
	{srv.Col{Name: "mny4", Type: srv.TShortMoney}, srv.I32(2147483647)},
	{srv.Col{Name: "d", Type: srv.TDate}, srv.I32(45000)},
	{srv.Col{Name: "t", Type: srv.TTime}, srv.I32(25919999)},
	{srv.Col{Name: "dt", Type: srv.TDateTime}, srv.DateTime(45000, 12960000)},
	{srv.Col{Name: "sdt", Type: srv.TShortDate}, []byte{0x10, 0x27, 0x9f, 0x05}},
	{srv.Col{Name: "intn", Type: srv.TIntN, MaxLen: 8}, srv.I64(77)},
	{srv.Col{Name: "uintn", Type: srv.TUintN, MaxLen: 4}, []byte{9, 0, 0, 0}},
	{srv.Col{Name: "fltn", Type: srv.TFltN, MaxLen: 8}, srv.F64(1e300)},
	{srv.Col{Name: "mnyn", Type: srv.TMoneyN, MaxLen: 8}, srv.Money(10000)},
	{srv.Col{Name: "daten", Type: srv.TDateN, MaxLen: 4}, srv.I32(-100)},
	{srv.Col{Name: "timen", Type: srv.TTimeN, MaxLen: 4}, srv.I32(300)},
	{srv.Col{Name: "dtn", Type: srv.TDateTimeN, MaxLen: 8}, srv.DateTime(1, 1)},
	{srv.Col{Name: "bdtn", Type: srv.TBigDTN, MaxLen: 8, Scale: 6}, srv.I64(63745056000000000)},
	{srv.Col{Name: "btn", Type: srv.TBigTimeN, MaxLen: 8, Scale: 6}, srv.I64(86399999999)},
	{srv.Col{Name: "dec", Type: srv.TDecN, MaxLen: 5, Prec: 9, Scale: 3}, srv.Numeric(true, []byte{0x01, 0xe2, 0x40})},
	{srv.Col{Name: "num", Type: srv.TNumN, MaxLen: 17, Prec: 38, Scale: 0}, srv.Numeric(false, []byte{0x12, 0x34, 0x56, 0x78, 0x9a})},
	{srv.Col{Name: "ch", Type: srv.TChar, MaxLen: 10}, []byte("abc       ")},
	{srv.Col{Name: "vch", Type: srv.TVarChar, MaxLen: 255}, []byte("héllo wörld")},
	{srv.Col{Name: "bin", Type: srv.TBinary, MaxLen: 4}, []byte{0, 1, 2, 3}},
	{srv.Col{Name: "vbin", Type: srv.TVarBinary, MaxLen: 16}, []byte{0xde, 0xad}},
	{srv.Col{Name: "lch", Type: srv.TLongChar, MaxLen: 16384}, []byte("a long character value, still short")},
	{srv.Col{Name: "lbin", Type: srv.TLongBinary, MaxLen: 16384}, []byte{0xff, 0, 0xff, 0, 1}},
}

func vals(raws ...[]byte) []srv.Val {
	v := make([]srv.Val, len(raws))
	for i, r := range raws {
		v[i] = srv.Val{Raw: r}
	}
	return v
}

// catalogue returns the response catalogue. narrowRowFmt adds responses
// that use the narrow TDS_ROWFMT token.
func catalogue() []response {
	var out []response
	mk := func(name string) *response { out = append(out, response{Name: name}); return &out[len(out)-1] }
	ver := [4]byte{5, 0, 0, 0}
	pv := [4]byte{16, 0, 0, 4}

	r := mk("done-only")
	r.add(done(0, 0))

	r = mk("done-count")
	r.add(done(srv.DoneCount, 3))
	// the last DONE has other bits: the library supplies the final one

	r = mk("msg-done")
	r.add("pkg", srv.Msg(0, 13)).add(done(0, 0))

	r = mk("rows-int-varchar")
	cols := []srv.Col{colI4, colVC, colIN}
	r.add("pkg", srv.RowFmt(true, cols...))
	r.add("pkg", srv.Data(srv.TokRow, cols, vals(srv.I32(1), []byte("alpha"), srv.I32(10))))
	r.add("pkg", srv.Data(srv.TokRow, cols, vals(srv.I32(2), []byte(""), nil)))
	r.add("pkg", srv.Data(srv.TokRow, cols, vals(srv.I32(-3), []byte("gamma gamma gamma"), srv.I32(-1))))
	r.add(done(srv.DoneCount, 3))

	r = mk("two-result-sets")
	c1 := []srv.Col{colI4, colDT}
	c2 := []srv.Col{colVC, colDec, colMny}
	r.add("pkg", srv.RowFmt(true, c1...))
	r.add("pkg", srv.Data(srv.TokRow, c1, vals(srv.I32(7), srv.DateTime(40000, 300*3600))))
	r.add(done(srv.DoneMore|srv.DoneCount, 1))
	r.add("pkg", srv.RowFmt(true, c2...))
	r.add("pkg", srv.Data(srv.TokRow, c2, vals([]byte("x"), srv.Numeric(false, []byte{0x30, 0x39}), srv.Money(123450000))))
	r.add("pkg", srv.Data(srv.TokRow, c2, vals([]byte("yy"), srv.Numeric(true, []byte{0x01}), srv.Money(-1))))
	r.add(done(0, 2))

	r = mk("proc-params-status")
	pc := []srv.Col{{Name: "@out", Type: srv.TIntN, MaxLen: 4, Status: 0x1}, {Name: "@s", Type: srv.TVarChar, MaxLen: 30, Status: 0x1}}
	r.add("pkg", srv.RowFmt(true, colI4))
	r.add("pkg", srv.Data(srv.TokRow, []srv.Col{colI4}, vals(srv.I32(42))))
	r.add("doneX", srv.Done(srv.TokDoneInProc, srv.DoneMore|srv.DoneCount, 0, 1))
	r.add("pkg", srv.ReturnStatus(-6))
	r.add("pkg", srv.ParamFmt(false, pc...))
	r.add("pkg", srv.Data(srv.TokParams, pc, vals(srv.I32(99), []byte("out value"))))
	r.add("doneX", srv.Done(srv.TokDoneProc, srv.DoneProc, 0, 0))
	r.add(done(0, 0))

	r = mk("paramfmt2-params")
	pw := []srv.Col{{Name: "@a", Type: srv.TLongBinary, MaxLen: 4096, Status: 0x20}, {Name: "@b", Type: srv.TFlt8}}
	r.add("pkg", srv.ParamFmt(true, pw...))
	r.add("pkg", srv.Data(srv.TokParams, pw, vals([]byte{1, 2, 3, 4, 5, 6, 7, 8, 9}, srv.F64(3.25))))
	r.add(done(0, 0))

	// one format, several PARAMS packages (the format is inherited from the
	// previous data package), also across a message in between
	r = mk("paramfmt-params-twice")
	r.add("pkg", srv.ParamFmt(false, pc...))
	r.add("pkg", srv.Data(srv.TokParams, pc, vals(srv.I32(1), []byte("first"))))
	r.add("pkg", srv.Data(srv.TokParams, pc, vals(srv.I32(2), []byte("second"))))
	r.add("eed", srv.EED{MsgNr: 3621, State: 1, Class: 10, SQLState: []byte("01000"), Status: 0, TranState: 1, Msg: "between", Server: "ASE1", Line: 1}.Bytes())
	r.add("pkg", srv.Data(srv.TokParams, pc, vals(srv.I32(3), []byte("third"))))
	r.add(done(0, 0))

	r = mk("error-eed")
	r.add("eed", srv.EED{MsgNr: 208, State: 1, Class: 16, SQLState: []byte("42S02"), Status: 0, TranState: 1, Msg: "tab not found.\n", Server: "ASE1", Proc: "", Line: 1}.Bytes())
	r.add(done(srv.DoneError, 0))

	r = mk("env-info-done")
	r.add("env", srv.EnvChange(srv.EnvMember{Type: 1, New: "pubs2", Old: "master"}))
	r.add("info", srv.EED{MsgNr: 5701, State: 2, Class: 10, SQLState: []byte("01ZZZ"), Status: 2, Msg: "Changed database context to 'pubs2'.\n", Server: "ASE1", Line: 0}.Bytes())
	r.add(done(0, 0))

	r = mk("env-multi-packsize")
	r.add("env", srv.EnvChange(srv.EnvMember{Type: 4, New: "2048", Old: "512"}, srv.EnvMember{Type: 2, New: "us_english", Old: ""}, srv.EnvMember{Type: 3, New: "utf8", Old: "iso_1"}))
	r.add("pkg", srv.Msg(1, 35))
	r.add(done(0, 0))

	r = mk("loginack-caps-done")
	r.add("pkg", srv.LoginAck(srv.LogSucceed, ver, "ASE", pv))
	r.add("pkg", srv.Capability(srv.CapEntry{Type: 1, Mask: srv.MaskWith(14, 1, 2, 9, 40, 70, 100)}, srv.CapEntry{Type: 2, Mask: srv.MaskWith(14, 3, 50)}))
	r.add(done(0, 0))

	r = mk("negotiate-msg-params")
	nc := []srv.Col{{Type: srv.TInt4}, {Type: srv.TLongBinary, MaxLen: 0x7fffffff}, {Type: srv.TLongBinary, MaxLen: 0x7fffffff}}
	r.add("pkg", srv.LoginAck(srv.LogNegotiate, ver, "ASE", pv))
	r.add("pkg", srv.Msg(1, 35))
	r.add("pkg", srv.ParamFmt(false, nc...))
	r.add("pkg", srv.Data(srv.TokParams, nc, vals(srv.I32(1), []byte("-----BEGIN RSA PUBLIC KEY-----\nMIGJAoGBAK\n-----END RSA PUBLIC KEY-----\n"), []byte{9, 8, 7, 6, 5, 4, 3, 2, 1, 0, 1, 2, 3, 4, 5, 6})))
	r.add(done(0, 0))

	r = mk("eed-between-rows")
	cols = []srv.Col{colI4, colVC}
	r.add("pkg", srv.RowFmt(true, cols...))
	r.add("pkg", srv.Data(srv.TokRow, cols, vals(srv.I32(1), []byte("one"))))
	r.add("info", srv.EED{MsgNr: 3621, Class: 10, Status: 2, Msg: "Command has been aborted.", Server: "S"}.Bytes())
	r.add("pkg", srv.Data(srv.TokRow, cols, vals(srv.I32(2), []byte("two"))))
	r.add("eed", srv.EED{MsgNr: 2601, State: 3, Class: 14, SQLState: []byte("23000"), Status: 1, TranState: 3, Msg: "Attempt to insert duplicate key row", Server: "S", Proc: "p_ins", Line: 12}.Bytes())
	r.add(done(srv.DoneError|srv.DoneInXact, 0))

	r = mk("all-types-row")
	var ac []srv.Col
	var av [][]byte
	for _, e := range allTypeCols {
		ac = append(ac, e.c)
		av = append(av, e.v)
	}
	r.add("pkg", srv.RowFmt(true, ac...))
	r.add("pkg", srv.Data(srv.TokRow, ac, vals(av...)))
	r.add(done(srv.DoneCount, 1))

	r = mk("all-types-params-nulls")
	var nulls [][]byte
	var ncols []srv.Col
	for _, e := range allTypeCols {
		if e.c.MaxLen != 0 { // variable-length types can be NULL
			ncols = append(ncols, e.c)
			nulls = append(nulls, nil)
		}
	}
	r.add("pkg", srv.ParamFmt(true, ncols...))
	r.add("pkg", srv.Data(srv.TokParams, ncols, vals(nulls...)))
	r.add(done(0, 0))

	r = mk("column-status")
	cs := []srv.Col{colI4cs, colVCcs}
	r.add("pkg", srv.RowFmt(true, cs...))
	r.add("pkg", srv.Data(srv.TokRow, cs, []srv.Val{{Raw: srv.I32(5)}, {Raw: []byte("st")}}))
	r.add("pkg", srv.Data(srv.TokRow, cs, []srv.Val{{Raw: srv.I32(6), DataStatus: 0}, {Raw: nil, DataStatus: 1}}))
	r.add(done(0, 0))

	r = mk("no-done-at-all")
	r.add("pkg", srv.Msg(0, 13))

	r = mk("done-inxact-final")
	r.add("pkg", srv.ReturnStatus(0))
	r.add(done(srv.DoneInXact, 0))

	r = mk("long-varchar-rows")
	lc := []srv.Col{{Name: "txt", Type: srv.TLongChar, MaxLen: 70000}}
	big := make([]byte, 300)
	for i := range big {
		big[i] = byte('a' + i%26)
	}
	r.add("pkg", srv.RowFmt(true, lc...))
	r.add("pkg", srv.Data(srv.TokRow, lc, vals(big)))
	r.add(done(0, 1))

	r = mk("narrow-rowfmt")
	nr := []srv.Col{{Name: "a", Type: srv.TInt2}, {Name: "b", Type: srv.TVarChar, MaxLen: 12}}
	r.add("pkg", srv.RowFmt(false, nr...))
	r.add("pkg", srv.Data(srv.TokRow, nr, vals(srv.I16(300), []byte("narrow"))))
	r.add(done(0, 1))

	// ---- packages encoded with the second reference codec (refpkg)
	r = mk("text-pointer-rows")
	tf := refpkg.Format{Tok: refpkg.TokRowFmt2, Cols: []refpkg.Column{
		{Name: "t", DataType: 0x23, MaxLen: 0x7fffffff, ObjName: "db.dbo.tab", Label: "t"},
		{Name: "i", DataType: 0x22, MaxLen: 0x7fffffff, ObjName: "db.dbo.tab"},
		{Name: "u", DataType: 0xAE, MaxLen: 0x7fffffff, ObjName: "db.dbo.tab"},
		{Name: "x", DataType: 0xA3, MaxLen: 0x7fffffff, ObjName: "db.dbo.tab"},
		{Name: "n", DataType: 0x38},
	}}
	ptr := []byte{1, 2, 3, 4, 5, 6, 7, 8, 9, 10, 11, 12, 13, 14, 15, 16}
	ts := []byte{0, 0, 0, 0, 0, 0, 0x12, 0x34}
	r.add("pkg", tf.Encode())
	r.add("pkg", refpkg.Row{Tok: refpkg.TokRow, Fmt: tf, Cells: []refpkg.Cell{
		{TxtPtr: ptr, TimeStamp: ts, Data: []byte("some text value")},
		{TxtPtr: ptr, TimeStamp: ts, Data: []byte{0xff, 0xd8, 0xff, 0xe0, 0, 1}},
		{TxtPtr: ptr, TimeStamp: ts, Data: []byte{0x48, 0, 0xe4, 0, 0x3d, 0xd8, 0, 0xde}},
		{TxtPtr: ptr, TimeStamp: ts, Data: []byte("<a b='1'/>")},
		{Data: srv.I32(1)},
	}}.Encode())
	r.add("pkg", refpkg.Row{Tok: refpkg.TokRow, Fmt: tf, Cells: []refpkg.Cell{
		{TextNull: true}, {TextNull: true}, {TxtPtr: ptr, TimeStamp: ts, Data: nil}, {TextNull: true}, {Data: srv.I32(2)},
	}}.Encode())
	r.add(done(srv.DoneCount, 2))

	r = mk("legacy-error-token")
	r.add("pkg", refpkg.ErrorMsg{Number: 911, State: 2, Class: 11, Msg: "Attempt to locate entry in sysdatabases failed", Server: "ASE1", Proc: "sp_x", Line: 7}.Encode())
	r.add(done(srv.DoneError, 0))

	r = mk("orderby-rows")
	oc := []srv.Col{colI4, colVC}
	r.add("pkg", srv.RowFmt(true, oc...))
	r.add("pkg", refpkg.OrderBy2{Cols: []uint16{2, 1}}.Encode())
	r.add("pkg", srv.Data(srv.TokRow, oc, vals(srv.I32(9), []byte("ordered"))))
	r.add(done(0, 1))

	r = mk("orderby-narrow-rows")
	r.add("pkg", srv.RowFmt(false, srv.Col{Name: "a", Type: srv.TInt4}))
	r.add("pkg", refpkg.OrderBy{Cols: []byte{1}}.Encode())
	r.add("pkg", srv.Data(srv.TokRow, []srv.Col{{Type: srv.TInt4}}, vals(srv.I32(5))))
	r.add(done(0, 1))

	r = mk("cursor-info-dynamic-ack")
	r.add("pkg", refpkg.CurInfo{Wide: false, Cursor: refpkg.Cursor{ID: 7}, Command: 3, Status: 0x20}.Encode())
	r.add("pkg", refpkg.CurInfo{Wide: true, Cursor: refpkg.Cursor{ID: 7}, Command: 3, Status: 0x20, RowNum: 4, TotalRows: 100, RowCount: 10}.Encode())
	r.add("pkg", refpkg.Dynamic{Wide: false, Type: 0x20, Status: 0, ID: "stm1"}.Encode())
	r.add("pkg", refpkg.Dynamic{Wide: true, Type: 0x20, Status: 0, ID: "stm2"}.Encode())
	r.add(done(0, 0))

	return out
}

// shortStreams are responses of at most 14 bytes (all cut sets enumerable).
func shortStreams() []response {
	var out []response
	mk := func(name string) *response { out = append(out, response{Name: name}); return &out[len(out)-1] }
	r := mk("s-done")
	r.add(done(0, 0))
	r = mk("s-msg-done")
	r.add("pkg", srv.Msg(0, 13)).add(done(0, 0))
	r = mk("s-retstat-done")
	r.add("pkg", srv.ReturnStatus(1)).add(done(srv.DoneMore, 0))
	r = mk("s-env")
	r.add("env", srv.EnvChange(srv.EnvMember{Type: 1, New: "abc", Old: "de"}))
	return out
}

// randomCuts returns k distinct ascending cut offsets in (0,n).
func randomCuts(rnd *rt.Rand, n, k int) []int {
	if n <= 1 {
		return nil
	}
	if k > n-1 {
		k = n - 1
	}
	seen := map[int]bool{}
	for len(seen) < k {
		seen[rnd.Range(1, n-1)] = true
	}
	cuts := make([]int, 0, k)
	for c := 1; c < n; c++ {
		if seen[c] {
			cuts = append(cuts, c)
		}
	}
	return cuts
}
