package main

import (
	"context"
	"encoding/json"
	"fmt"
	"runtime"
	"strings"
	"sync"
	"sync/atomic"
	"time"

	"github.com/SAP/go-dblib/asetypes"
	"github.com/SAP/go-dblib/tds"

	"verif/harness/rt"
	"verif/harness/srv"
	"verif/harness/xport"
)

// C12, scripted close scenarios: the storms in c12.go close channels only
// after their last response. Here a channel is closed at a chosen point of a
// response, and the oracle looks at what the REST of the connection sees:
//
//   mid-response: channel X is closed after `before` packets (no EOM yet) of
//       its response have been routed; the peer then sends the remaining
//       `after` packets for X. X does not exist any more: exactly `after`
//       "invalid channel" connection errors, and channel Y's response —
//       sent between or after those packets — arrives complete and in order.
//   unread: X's response (n packages relative to the queue capacity, with or
//       without a final DONE) is never consumed; X is closed. Close must
//       return, and Y's response sent afterwards must arrive.
//   reuse: after closing X a new channel is created; its id differs from
//       every live id and its response is delivered to it.

type c12CloseCase struct {
	Family   string `json:"family"` // "close"
	Kind     string `json:"kind"`   // mid-response | unread | reuse
	Channels int    `json:"channels"`
	Queue    int    `json:"queue_capacity"`
	Before   int    `json:"packets_before_close,omitempty"`
	After    int    `json:"packets_after_close,omitempty"`
	Between  bool   `json:"other_channel_packet_in_between,omitempty"`
	Consumed bool   `json:"consumed_before_close,omitempty"`
	Pkgs     int    `json:"packages_in_response,omitempty"`
	Final    bool   `json:"response_ends_with_final_done,omitempty"`
	Rep      int    `json:"repetition,omitempty"`
}

// c12Settle waits until the reader cannot make progress by itself: parked in
// Read with nothing pending ("idle") or parked queueing a package into a
// full channel ("blocked-on-queue").
func c12Settle(tr *xport.Transport, d time.Duration) (string, bool) {
	deadline := time.Now().Add(d)
	for {
		if tr.IsIdle() {
			return "idle", true
		}
		if gid := tr.ReaderGID(); gid != 0 && !tr.Pending() {
			if g := rt.FindG(rt.Goroutines(), gid); g != nil {
				if g.State == "chan send" || (g.State == "select" && g.Has(".queuePackage")) {
					time.Sleep(2 * time.Millisecond)
					if g2 := rt.FindG(rt.Goroutines(), gid); g2 != nil && g2.State == g.State && !tr.IsIdle() {
						return "blocked-on-queue", true
					}
				}
			}
		}
		if time.Now().After(deadline) {
			return "", false
		}
		time.Sleep(100 * time.Microsecond)
	}
}

func c12CloseRun(c *Ctx, cs c12CloseCase) {
	r := c.R
	r.Eval(1)
	b, _ := json.Marshal(cs)
	rt.CaseLog("C12 close %s", b)
	k, err := newKit(cs.Queue, 0)
	if err != nil {
		r.Inconclusive("setup: %v", err)
		return
	}
	defer k.teardown()
	var mu sync.Mutex
	var setups []uint16
	var ackOff int32 // != 0: SETUP packets are not acknowledged any more
	var refuse int32 // != 0: SETUP packets are answered with something that is no acknowledgement (1: header-only TDS_BUF_ERROR, 2: header-only TDS_BUF_CLOSE, 3: a response packet with a DONE)
	k.tr.OnWrite = func(rec xport.WriteRec) {
		if len(rec.Data) == 8 && rec.Data[0] == byte(tds.TDS_BUF_SETUP) {
			id := uint16(rec.Data[4])<<8 | uint16(rec.Data[5])
			mu.Lock()
			setups = append(setups, id)
			mu.Unlock()
			switch rf := atomic.LoadInt32(&refuse); {
			case rf == 1:
				k.tr.Feed(xport.Header{Type: byte(tds.TDS_BUF_ERROR), Status: xport.EOM, Length: 8, Channel: id}.Bytes())
			case rf == 2:
				k.tr.Feed(xport.Header{Type: byte(tds.TDS_BUF_CLOSE), Status: xport.EOM, Length: 8, Channel: id}.Bytes())
			case rf == 3:
				k.tr.Feed(xport.Packet(byte(tds.TDS_BUF_RESPONSE), xport.EOM, id, srv.Done(srv.TokDone, srv.DoneError, 0, 0)))
			case atomic.LoadInt32(&ackOff) == 0:
				k.tr.Feed(xport.Header{Type: byte(tds.TDS_BUF_PROTACK), Status: xport.EOM, Length: 8, Channel: id}.Bytes())
			}
			return
		}
		// the logout of channel 0 (Conn.Close) is answered at once
		if len(rec.Data) == 10 && rec.Data[4] == 0 && rec.Data[5] == 0 && rec.Data[8] == 0x71 {
			k.tr.Feed(xport.Packet(byte(tds.TDS_BUF_RESPONSE), xport.EOM, 0, srv.Done(srv.TokDone, 0, 0, 0)))
		}
	}
	fail := func(sig, detail string) { r.Violate(sig, detail, cs) }
	newChannel := func() (*tds.Channel, uint16, bool) {
		var ch *tds.Channel
		var err error
		call := c13Go(func() { ch, err = k.conn.NewChannel() })
		if !call.wait(30 * time.Second) {
			if st, desc := c13HangReport(call); st {
				fail("close/newchannel-blocked-although-acknowledged", "NewChannel did not return within 30 s although its SETUP was acknowledged: "+desc)
			} else {
				r.Inconclusive("NewChannel did not return within 30 s: %s", desc)
			}
			return nil, 0, false
		}
		if call.pi != nil {
			fail("panic/"+call.pi.Frame+"/newchannel", "NewChannel panicked: "+call.pi.Value)
			return nil, 0, false
		}
		if err != nil {
			fail("close/newchannel-failed-although-acknowledged", fmt.Sprintf("NewChannel returned %v", err))
			return nil, 0, false
		}
		mu.Lock()
		id := setups[len(setups)-1]
		mu.Unlock()
		return ch, id, true
	}
	var chans []*tds.Channel
	var ids []uint16
	for i := 0; i < cs.Channels; i++ {
		ch, id, ok := newChannel()
		if !ok {
			return
		}
		chans, ids = append(chans, ch), append(ids, id)
	}
	x, xid := chans[0], ids[0]
	y, yid := chans[1], ids[1]

	// response of n tagged packages, one packet per package
	response := func(id uint16, round, n int, final bool) (pkts [][]byte, tags []int32) {
		for i := 0; i < n; i++ {
			tag := c12Tag(id, round, i)
			tags = append(tags, tag)
			body := srv.ReturnStatus(tag)
			st := byte(0)
			if i == n-1 {
				st = xport.EOM
				if final {
					body = append(body, srv.Done(srv.TokDone, 0, 0, int32(n))...)
				}
			}
			pkts = append(pkts, xport.Packet(byte(tds.TDS_BUF_RESPONSE), st, id, body))
		}
		return
	}
	settle := func(where string) (string, bool) {
		st, ok := c12Settle(k.tr, 20*time.Second)
		if !ok {
			gs := rt.Goroutines()
			if g := rt.FindG(gs, k.tr.ReaderGID()); g != nil && g.Parked() {
				fail("close/reader-stuck/"+where, fmt.Sprintf("20 s after the peer's last packet the reader goroutine is parked in [%s] at %s with undelivered input pending: nothing on this connection is routed any more", g.State, firstDblib(*g)))
			} else {
				r.Inconclusive("reader did not settle %s", where)
			}
		}
		return st, ok
	}
	closeX := func() bool {
		var cerr error
		call := c13Go(func() { cerr = x.Close() })
		if !call.wait(30 * time.Second) {
			if st, desc := c13HangReport(call); st {
				fail("close/does-not-return/"+c13WaitClass(desc), fmt.Sprintf("Close of channel %d did not return within 30 s: %s", xid, desc))
			} else {
				r.Inconclusive("Close did not return within 30 s: %s", desc)
			}
			return false
		}
		if call.pi != nil {
			fail("panic/"+call.pi.Frame+"/close", "Close panicked: "+call.pi.Value)
			return false
		}
		if cerr != nil && !strings.Contains(cerr.Error(), "still queued") {
			fail("close/unexpected-error", fmt.Sprintf("Close of channel %d returned %v", xid, cerr))
			return false
		}
		return true
	}
	tagsOf := func(d delivered) (tags []int32, invalid int, other []string) {
		for _, p := range d.Pkgs {
			if rs, ok := p.(*tds.ReturnStatusPackage); ok {
				tags = append(tags, rs.ReturnValue)
			}
		}
		for _, e := range d.Errs {
			if strings.Contains(e, "invalid channel") {
				invalid++
			} else {
				other = append(other, e)
			}
		}
		return
	}
	judge := func(who string, ch *tds.Channel, want []int32, wantInvalid int) {
		dy := drainChannel(ch, k.ctx)
		d0 := drainChannel(k.ch, k.ctx)
		got, inv, other := tagsOf(dy)
		got0, inv0, other0 := tagsOf(d0)
		inv += inv0
		other = append(other, other0...)
		if len(other) > 0 {
			fail("close/unexpected-error", fmt.Sprintf("connection errors other than 'invalid channel': %.400v", other))
			return
		}
		if len(got0) > 0 {
			fail("routing/foreign-package", fmt.Sprintf("channel 0 received tagged packages %v; the peer sent nothing on channel 0", got0))
			return
		}
		if fmt.Sprint(got) != fmt.Sprint(want) {
			kind := "routing/lost-or-duplicated"
			for _, t := range got {
				if len(want) == 0 || uint16(t>>20)&0x7ff != uint16(want[0]>>20)&0x7ff {
					kind = "routing/foreign-package"
				}
			}
			fail(kind+"/after-close", fmt.Sprintf("%s received tags %v, the peer sent %v (tag = channel<<20|round<<8|index) after channel %d had been closed", who, got, want, xid))
			return
		}
		if inv != wantInvalid {
			fail("invalid-channel/error-count/after-close", fmt.Sprintf("the peer sent %d packets for channel %d after its Close had returned; %d 'invalid channel' connection errors were observed", wantInvalid, xid, inv))
			return
		}
		r.Count("close_invalid_channel_errors", int64(inv))
		r.Count("close_packages_routed", int64(len(got)))
	}

	switch cs.Kind {
	case "mid-response":
		px, _ := response(xid, 0, cs.Before+cs.After, cs.Final)
		py, ty := response(yid, 0, 2, true)
		k.tr.Feed(px[:cs.Before]...)
		if st, ok := settle("before-close"); !ok || st != "idle" {
			return
		}
		if cs.Consumed {
			d := drainChannel(x, k.ctx)
			if len(d.Pkgs) != cs.Before || len(d.Errs) > 0 {
				fail("routing/lost-or-duplicated", fmt.Sprintf("channel %d was sent %d packages in complete packets, %d were ready (errors %v)", xid, cs.Before, len(d.Pkgs), d.Errs))
				return
			}
		}
		if !closeX() {
			return
		}
		if cs.Between {
			k.tr.Feed(px[cs.Before : cs.Before+1]...)
			k.tr.Feed(py...)
			k.tr.Feed(px[cs.Before+1:]...)
		} else {
			k.tr.Feed(px[cs.Before:]...)
			k.tr.Feed(py...)
		}
		if _, ok := settle("after-close"); !ok {
			return
		}
		judge(fmt.Sprintf("channel %d", yid), y, ty, cs.After)
	case "unread":
		px, _ := response(xid, 0, cs.Pkgs, cs.Final)
		py, ty := response(yid, 0, 2, true)
		var one []byte
		for i, p := range px {
			// one packet: nothing of this response is on the wire after Close
			if i == 0 {
				one = append(one, p[:8]...)
			}
			one = append(one, p[8:]...)
		}
		one[1] = xport.EOM
		one[2], one[3] = byte(len(one)>>8), byte(len(one))
		k.tr.Feed(one)
		st, ok := settle("before-close")
		if !ok {
			return
		}
		r.SetAdd("close_reader_state_at_close", st)
		if !closeX() {
			return
		}
		k.tr.Feed(py...)
		if _, ok := settle("after-close"); !ok {
			return
		}
		judge(fmt.Sprintf("channel %d", yid), y, ty, 0)
	case "stray-then-create":
		// a packet for an id that is not in use YET (the next ids a new
		// channel can get) is reported; a channel created afterwards with
		// such an id works like any other
		for _, id := range []uint16{ids[len(ids)-1] + 1, ids[len(ids)-1] + 2, ids[len(ids)-1] + 1} {
			k.tr.Feed(xport.Packet(byte(tds.TDS_BUF_RESPONSE), xport.EOM, id, srv.Done(srv.TokDone, 0, 0, 0)))
			if _, ok := settle("before-create"); !ok {
				return
			}
			d0 := drainChannel(k.ch, k.ctx)
			if _, inv, other := tagsOf(d0); inv != 1 || len(other) > 0 {
				fail("invalid-channel/error-count/stray-packet", fmt.Sprintf("a packet for channel %d, which does not exist yet (live ids %v), produced %d 'invalid channel' errors (others: %v); want exactly 1", id, ids, inv, other))
				return
			}
		}
		for n := 0; n < 2; n++ {
			z, zid, ok := newChannel()
			if !ok {
				return
			}
			pz, tz := response(zid, 2, 3, true)
			k.tr.Feed(pz...)
			if _, ok := settle("after-create"); !ok {
				return
			}
			judge(fmt.Sprintf("channel %d, created after a stray packet for an id that was free then", zid), z, tz, 0)
			if r.NumViolations() > 0 {
				return
			}
		}
	case "connclose-vs-pending-newchannel":
		// NewChannel waits for an acknowledgement that never comes; the
		// application gives up and closes the connection. Both calls return.
		atomic.StoreInt32(&ackOff, 1)
		var nerr error
		nc := c13Go(func() { _, nerr = k.conn.NewChannel() })
		if st := nc.parkedState(10 * time.Second); st == "" {
			select {
			case <-nc.done:
				r.Count("close_pending_newchannel_returned_early", 1)
			default:
				r.Inconclusive("NewChannel neither parked nor returned")
				return
			}
		}
		var cerr error
		cc := c13Go(func() { cerr = k.conn.Close() })
		if !cc.wait(75 * time.Second) {
			if st, desc := c13HangReport(cc); st {
				fail("close/conn-close-does-not-return/pending-newchannel", "Conn.Close did not return within 75 s while a NewChannel call was waiting for its acknowledgement (the logout was answered at once): "+desc)
			} else {
				r.Inconclusive("Conn.Close did not return: %s", desc)
			}
			return
		}
		if !nc.wait(30 * time.Second) {
			if st, desc := c13HangReport(nc); st {
				fail("close/newchannel-does-not-return/conn-closed", "NewChannel was still waiting for its acknowledgement 30 s after Conn.Close had returned: "+desc)
			} else {
				r.Inconclusive("NewChannel did not return: %s", desc)
			}
			return
		}
		if cc.pi != nil || nc.pi != nil {
			pi := cc.pi
			if pi == nil {
				pi = nc.pi
			}
			fail("panic/"+pi.Frame+"/conn-close-vs-newchannel", pi.Value)
			return
		}
		if nerr == nil {
			fail("close/newchannel-succeeded-without-acknowledgement", "NewChannel returned a channel although its SETUP was never acknowledged and the connection was closed")
			return
		}
		_ = cerr
		r.Count("close_pending_newchannel_cases", 1)
	case "main-channel-closed":
		// channel 0 is closed on its own (its logout is answered); the
		// logical channels go on. Packets for channel 0 arriving afterwards
		// are packets for a channel that does not exist.
		var cerr error
		call := c13Go(func() { cerr = k.ch.Close() })
		if !call.wait(75 * time.Second) {
			if st, desc := c13HangReport(call); st {
				fail("close/does-not-return/"+c13WaitClass(desc), "Close of channel 0 (logout answered at once) did not return within 75 s: "+desc)
			} else {
				r.Inconclusive("Close of channel 0 did not return: %s", desc)
			}
			return
		}
		_ = cerr
		if call.pi != nil {
			fail("panic/"+call.pi.Frame+"/close", "Close of channel 0 panicked: "+call.pi.Value)
			return
		}
		for i, pkt := range [][]byte{
			xport.Packet(byte(tds.TDS_BUF_RESPONSE), xport.EOM, 0, srv.Done(srv.TokDone, 0, 0, 0)),
			xport.Header{Type: byte(tds.TDS_BUF_RESPONSE), Status: xport.EOM, Length: 8, Channel: 0}.Bytes(),
			xport.Packet(byte(tds.TDS_BUF_NORMAL), 0, 0, srv.ReturnStatus(5)),
		}[:cs.After] {
			k.tr.Feed(pkt)
			if _, ok := settle("after-close"); !ok {
				return
			}
			dy := drainChannel(y, k.ctx)
			_, inv, other := tagsOf(dy)
			if len(other) > 0 || inv != 1 {
				fail("invalid-channel/error-count/main-channel-closed", fmt.Sprintf("packet %d for channel 0 after channel 0 had been closed (logical channels %v still open) produced %d 'invalid channel' connection errors (other errors: %v); want exactly 1", i, ids, inv, other))
				return
			}
		}
		py, ty := response(yid, 0, 3, true)
		k.tr.Feed(py...)
		if _, ok := settle("after-close"); !ok {
			return
		}
		dy := drainChannel(y, k.ctx)
		if got, _, _ := tagsOf(dy); fmt.Sprint(got) != fmt.Sprint(ty) {
			fail("routing/lost-or-duplicated/after-close", fmt.Sprintf("channel %d received tags %v, the peer sent %v after channel 0 had been closed", yid, got, ty))
			return
		}
		r.Count("close_main_channel_closed_cases", 1)
	case "refused-setup-during-traffic":
		// the peer streams a long response to channel Y while further
		// channels are requested, of which the peer refuses every other one
		// (its answer to the SETUP is no acknowledgement): those NewChannel
		// calls return an error, the others a channel, and Y's response is
		// complete and in order
		py, ty := response(yid, 0, 200, true)
		fed := make(chan struct{})
		go func() {
			defer close(fed)
			for _, p := range py {
				k.tr.Feed(p)
				runtime.Gosched()
			}
		}()
		var gotY []int32
		recvDone := make(chan struct{})
		rctx, rcancel := context.WithTimeout(context.Background(), 60*time.Second)
		defer rcancel()
		go func() {
			defer close(recvDone)
			for len(gotY) < len(ty) {
				pkg, err := y.NextPackage(rctx, true)
				if err != nil {
					return
				}
				if rs, ok := pkg.(*tds.ReturnStatusPackage); ok {
					gotY = append(gotY, rs.ReturnValue)
				}
			}
		}()
		refusedOK, created := 0, 0
		for i := 0; i < 6; i++ {
			want := i%2 == 0 // refused
			if want {
				atomic.StoreInt32(&refuse, int32(cs.After))
			} else {
				atomic.StoreInt32(&refuse, 0)
			}
			var ch *tds.Channel
			var err error
			call := c13Go(func() { ch, err = k.conn.NewChannel() })
			if !call.wait(30 * time.Second) {
				if st, desc := c13HangReport(call); st {
					fail("newchannel/does-not-return/refused-setup", fmt.Sprintf("NewChannel (setup refused: %v) did not return within 30 s: %s", want, desc))
				} else {
					r.Inconclusive("NewChannel did not return within 30 s: %s", desc)
				}
				return
			}
			switch {
			case call.pi != nil:
				fail("panic/"+call.pi.Frame+"/newchannel", "NewChannel panicked: "+call.pi.Value)
				return
			case want && err == nil:
				fail("newchannel/refused-setup-reported-success", fmt.Sprintf("the peer answered the SETUP with something that is no acknowledgement (kind %d); NewChannel returned a channel", cs.After))
				return
			case !want && (err != nil || ch == nil):
				fail("close/newchannel-failed-although-acknowledged", fmt.Sprintf("NewChannel returned %v after earlier setups had been refused", err))
				return
			case want:
				refusedOK++
			default:
				created++
			}
		}
		atomic.StoreInt32(&refuse, 0)
		<-fed
		select {
		case <-recvDone:
		case <-time.After(60 * time.Second):
		}
		rcancel()
		<-recvDone
		if fmt.Sprint(gotY) != fmt.Sprint(ty) {
			fail("routing/lost-or-duplicated/refused-setup-during-traffic", fmt.Sprintf("channel %d received %d of %d tagged packages in order while setups of other channels were refused (first tags %v)", yid, len(gotY), len(ty), c12Head(gotY)))
			return
		}
		r.Count("close_refused_setups", int64(refusedOK))
		r.Count("close_setups_after_refused_ones", int64(created))
	case "stray":
		// packets of every header type, header-only and with a body, for an
		// id that was never set up and for the id of the closed channel:
		// each is reported once, and channel Y is not disturbed
		px, _ := response(xid, 0, 1, true)
		k.tr.Feed(px...)
		if _, ok := settle("before-close"); !ok {
			return
		}
		drainChannel(x, k.ctx)
		if !closeX() {
			return
		}
		sent := 0
		for _, id := range []uint16{xid, 9, 65535} {
			var body []byte
			if cs.Final {
				body = srv.Done(srv.TokDone, 0, 0, 0)
			}
			k.tr.Feed(xport.Packet(byte(cs.Before), byte(cs.After), id, body))
			sent++
			if _, ok := settle("after-close"); !ok {
				return
			}
			// one report per packet, taken before the next (the error
			// queue is bounded)
			d0 := drainChannel(k.ch, k.ctx)
			_, inv, other := tagsOf(d0)
			if len(other) > 0 || inv != 1 {
				fail("invalid-channel/error-count/stray-packet", fmt.Sprintf("a packet with header type %d, status %#x, %d body bytes for channel %d (closed channel is %d, live channels %v) produced %d 'invalid channel' connection errors (other errors: %v); want exactly 1", cs.Before, cs.After, len(body), id, xid, ids[1:], inv, other))
				return
			}
		}
		py, ty := response(yid, 0, 2, true)
		k.tr.Feed(py...)
		if _, ok := settle("after-close"); !ok {
			return
		}
		judge(fmt.Sprintf("channel %d", yid), y, ty, 0)
		r.Count("close_stray_packets_reported", int64(sent))
	case "racing-close":
		// a sender and a receiver use X while a third goroutine closes it
		// and the peer keeps sending; the race detector watches, the
		// oracle checks what the rest of the connection sees afterwards
		rnd := rt.NewRand(c.Seed, fmt.Sprintf("c12/close/racing/%d", cs.Rep))
		stop := make(chan struct{})
		var wg sync.WaitGroup
		var pmu sync.Mutex
		var panicked *rt.PanicInfo
		guard := func(f func()) {
			defer wg.Done()
			if pi := rt.Catch(f); pi != nil {
				pmu.Lock()
				panicked = pi
				pmu.Unlock()
			}
		}
		sizes := make([]int, 60)
		for i := range sizes {
			sizes[i] = rnd.Range(1, 1200)
		}
		wg.Add(3)
		go guard(func() {
			for _, n := range sizes {
				if err := x.SendPackage(k.ctx, &tds.LanguagePackage{Cmd: strings.Repeat("q", n)}); err != nil {
					return
				}
			}
		})
		if cs.Rep%2 == 1 {
			// a second sender on the same channel, with packages that
			// look at the channel's last transmitted package (format + data)
			wg.Add(1)
			go guard(func() {
				for i := 0; i < 40; i++ {
					fmtF, data, err := tds.LookupFieldFmtData(asetypes.INT4)
					if err != nil {
						return
					}
					data.SetValue(int32(i))
					if err := x.QueuePackage(k.ctx, tds.NewParamFmtPackage(false, fmtF)); err != nil {
						return
					}
					if err := x.QueuePackage(k.ctx, tds.NewParamsPackage(data)); err != nil {
						return
					}
					if err := x.SendRemainingPackets(k.ctx); err != nil {
						return
					}
				}
			})
		}
		go guard(func() {
			for {
				if _, err := x.NextPackage(k.ctx, true); err != nil && !strings.Contains(err.Error(), "invalid channel") {
					return
				}
			}
		})
		go guard(func() {
			for i := 0; i < 60; i++ {
				select {
				case <-stop:
					return
				default:
				}
				k.tr.Feed(xport.Packet(byte(tds.TDS_BUF_RESPONSE), byte(i%2), xid, srv.ReturnStatus(c12Tag(xid, 0, i))))
			}
		})
		for i := rnd.Intn(20000); i > 0; i-- {
			_ = i
		}
		okClose := closeX()
		close(stop)
		guardTimer := time.AfterFunc(30*time.Second, k.cancel)
		wgDone := make(chan struct{})
		go func() { wg.Wait(); close(wgDone) }()
		select {
		case <-wgDone:
		case <-time.After(60 * time.Second):
			// sender / receiver never came back (closeX has recorded why
			// if Close itself is stuck); do not wait for them for ever
			guardTimer.Stop()
			if okClose {
				stuck := ""
				for _, g := range rt.Goroutines() {
					if g.Has("main.c12CloseRun") && g.Parked() && (g.Has("tds.(*Channel).SendPackage") || g.Has("tds.(*Channel).NextPackage")) {
						stuck += fmt.Sprintf(" [%s] at %s;", g.State, firstDblib(g))
					}
				}
				if stuck != "" {
					fail("close/send-or-receive-does-not-return/racing-close", "60 s after Close had returned and the connection context was cancelled a send or receive on the closed channel is still parked:"+stuck)
				} else {
					r.Inconclusive("racing-close: helper goroutines did not finish")
				}
			}
			return
		}
		guardTimer.Stop()
		pmu.Lock()
		pi := panicked
		pmu.Unlock()
		if pi != nil {
			fail("panic/"+pi.Frame+"/racing-close", "a send or receive on the channel running concurrently with its Close panicked: "+pi.Value)
			return
		}
		if !okClose {
			return
		}
		// the packets that arrived for X after its Close are reported one
		// by one; the error queue is bounded, so somebody has to take the
		// reports for the reader to get on
		for deadline := time.Now().Add(20 * time.Second); ; {
			drainChannel(k.ch, k.ctx)
			if st, ok := c12Settle(k.tr, 20*time.Millisecond); ok && st == "idle" {
				break
			}
			if time.Now().After(deadline) {
				if _, ok := settle("after-close"); !ok {
					return
				}
				break
			}
		}
		// the bytes written by sender and closer still parse as packets
		var stream []byte
		for _, w := range k.tr.Writes() {
			stream = append(stream, w.Data...)
		}
		next := -1
		for off := 0; off < len(stream); {
			if len(stream)-off < 8 {
				fail("outgoing/stream-does-not-parse-as-packets", fmt.Sprintf("%d stray bytes at the end of what the client wrote", len(stream)-off))
				return
			}
			h, _ := xport.ParseHeader(stream[off:])
			if int(h.Length) < 8 || off+int(h.Length) > len(stream) {
				fail("outgoing/stream-does-not-parse-as-packets", fmt.Sprintf("packet at offset %d declares length %d (%d bytes follow)", off, h.Length, len(stream)-off))
				return
			}
			if h.Channel == xid && tds.PacketHeaderType(h.Type) != tds.TDS_BUF_SETUP {
				if next >= 0 && int(h.PacketNr) != next {
					fail("outgoing/packet-number-not-consecutive", fmt.Sprintf("channel %d: packet number %d, expected %d (sender and Close running concurrently)", xid, h.PacketNr, next))
					return
				}
				next = (int(h.PacketNr) + 1) % 256
			}
			off += int(h.Length)
		}
		py, ty := response(yid, 0, 2, true)
		k.tr.Feed(py...)
		if _, ok := settle("after-close"); !ok {
			return
		}
		dy := drainChannel(y, k.ctx)
		got, _, other := tagsOf(dy)
		drainChannel(k.ch, k.ctx)
		if len(other) > 0 {
			fail("close/unexpected-error", fmt.Sprintf("connection errors other than 'invalid channel': %.400v", other))
			return
		}
		if fmt.Sprint(got) != fmt.Sprint(ty) {
			fail("routing/lost-or-duplicated/after-close", fmt.Sprintf("channel %d received tags %v, the peer sent %v after channel %d had been closed under load", yid, got, ty, xid))
			return
		}
		r.Count("close_racing_runs", 1)
	case "reuse":
		px, _ := response(xid, 0, 2, true)
		k.tr.Feed(px...)
		if _, ok := settle("before-close"); !ok {
			return
		}
		drainChannel(x, k.ctx)
		if !closeX() {
			return
		}
		z, zid, ok := newChannel()
		if !ok {
			return
		}
		for _, id := range ids[1:] {
			if id == zid {
				fail("channel-id/duplicate", fmt.Sprintf("a channel created after closing channel %d got id %d, which a live channel has (live ids %v)", xid, zid, ids[1:]))
				return
			}
		}
		if zid == 0 {
			fail("channel-id/zero-for-logical-channel", "SETUP packet with channel id 0")
			return
		}
		pz, tz := response(zid, 1, 3, true)
		k.tr.Feed(pz...)
		if _, ok := settle("after-close"); !ok {
			return
		}
		judge(fmt.Sprintf("new channel %d", zid), z, tz, 0)
		if zid != xid {
			// the old id is gone
			k.tr.Feed(px[:1]...)
			if _, ok := settle("after-close"); !ok {
				return
			}
			judge(fmt.Sprintf("new channel %d", zid), z, nil, 1)
		}
	}
	r.Distinct(string(b))
	r.SetAdd("close_kinds", cs.Kind)
}

func c12CloseCases(c *Ctx) []c12CloseCase {
	var out []c12CloseCase
	for _, n := range []int{2, 3} {
		for before := 1; before <= 3; before++ {
			for after := 1; after <= 3; after++ {
				for _, between := range []bool{false, true} {
					for _, consumed := range []bool{false, true} {
						for _, final := range []bool{false, true} {
							out = append(out, c12CloseCase{Family: "close", Kind: "mid-response", Channels: n, Queue: 16, Before: before, After: after, Between: between, Consumed: consumed, Final: final})
						}
					}
				}
			}
		}
	}
	for _, q := range []int{2, 4, 7} {
		for d := -2; d <= 3; d++ {
			for _, final := range []bool{false, true} {
				if q+d < 1 {
					continue
				}
				out = append(out, c12CloseCase{Family: "close", Kind: "unread", Channels: 2, Queue: q, Pkgs: q + d, Final: final})
			}
		}
	}
	for _, n := range []int{2, 4} {
		out = append(out, c12CloseCase{Family: "close", Kind: "reuse", Channels: n, Queue: 16})
	}
	// Before = header type, After = header status, Final = with a body
	for _, typ := range []int{int(tds.TDS_BUF_NORMAL), int(tds.TDS_BUF_RESPONSE), int(tds.TDS_BUF_PROTACK), int(tds.TDS_BUF_SETUP), int(tds.TDS_BUF_CLOSE), int(tds.TDS_BUF_LOGIN), 0, 1, 6, 7, 8, 13, 16, 19, 255} {
		for _, st := range []int{0, 1} {
			for _, withBody := range []bool{false, true} {
				out = append(out, c12CloseCase{Family: "close", Kind: "stray", Channels: 2, Queue: 16, Before: typ, After: st, Final: withBody})
			}
		}
	}
	for _, n := range []int{2, 3} {
		out = append(out, c12CloseCase{Family: "close", Kind: "stray-then-create", Channels: n, Queue: 16})
		out = append(out, c12CloseCase{Family: "close", Kind: "connclose-vs-pending-newchannel", Channels: n, Queue: 16})
	}
	for _, n := range []int{2, 3} {
		for after := 1; after <= 3; after++ {
			out = append(out, c12CloseCase{Family: "close", Kind: "main-channel-closed", Channels: n, Queue: 16, After: after})
		}
	}
	// After = what the peer answers instead of the acknowledgement
	for after := 1; after <= 3; after++ {
		for _, q := range []int{4, 256} {
			out = append(out, c12CloseCase{Family: "close", Kind: "refused-setup-during-traffic", Channels: 2, Queue: q, After: after})
		}
	}
	reps := 24
	if !c.Quick() {
		reps = 640
	}
	for i := 0; i < reps; i++ {
		out = append(out, c12CloseCase{Family: "close", Kind: "racing-close", Channels: 2, Queue: []int{2, 16, 256}[i%3], Rep: i})
	}
	return out
}

func runC12Close(c *Ctx) {
	cases := c12CloseCases(c)
	for i, cs := range cases {
		if c.Batches > 1 && i%c.Batches != c.Batch {
			continue
		}
		c.R.Count("close_cases", 1)
		c12CloseRun(c, cs)
	}
}

func c12Head(t []int32) []int32 {
	if len(t) > 5 {
		return t[:5]
	}
	return t
}
