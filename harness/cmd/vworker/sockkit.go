package main

import (
	"context"
	"fmt"
	"net"
	"os"
	"path/filepath"
	"sync"
	"syscall"
	"time"
	"unsafe"

	"github.com/SAP/go-dblib/tds"

	"verif/harness/rt"
	"verif/harness/xport"
)

// sockKit is a connection made by the REAL constructor tds.NewConn over a
// unix-domain socket, with the harness as the server side. It closes the gap
// the hook constructor leaves: NewConnTransport duplicates a few lines of
// NewConn, so a change to NewConn alone is only visible here.
type sockKit struct {
	dir    string
	ln     net.Listener
	srv    *net.UnixConn
	conn   *tds.Conn
	ch     *tds.Channel
	ctx    context.Context
	cancel context.CancelFunc
	info   *tds.Info

	mu     sync.Mutex
	rx     []byte // everything the client wrote
	rxErr  error  // error that ended the server's read loop (io.EOF when the client closed)
	rxDone chan struct{}
}

func newSockKit(queueSize, readTimeout int) (*sockKit, error) {
	// run.py removes the directories of its run (a killed worker cannot)
	dir, err := os.MkdirTemp("", "vsock-"+os.Getenv("VERIF_RUN_ID")+"-")
	if err != nil {
		return nil, err
	}
	// tds.NewConn dials "<host>:<port>"; for network "unix" that string is
	// the socket path
	path := filepath.Join(dir, "s:1")
	ln, err := net.Listen("unix", path)
	if err != nil {
		os.RemoveAll(dir)
		return nil, err
	}
	k := &sockKit{dir: dir, ln: ln, rxDone: make(chan struct{})}
	k.info = newInfo(queueSize, readTimeout)
	k.info.Network = "unix"
	k.info.Host = filepath.Join(dir, "s")
	k.info.Port = "1"
	acc := make(chan net.Conn, 1)
	go func() {
		c, err := ln.Accept()
		if err == nil {
			acc <- c
		} else {
			close(acc)
		}
	}()
	k.ctx, k.cancel = context.WithCancel(context.Background())
	conn, err := tds.NewConn(k.ctx, k.info)
	if err != nil {
		k.close()
		return nil, err
	}
	k.conn = conn
	select {
	case c, ok := <-acc:
		if !ok {
			k.close()
			return nil, fmt.Errorf("accept failed")
		}
		k.srv = c.(*net.UnixConn)
	case <-time.After(10 * time.Second):
		k.close()
		return nil, fmt.Errorf("accept timed out")
	}
	go func() {
		defer close(k.rxDone)
		buf := make([]byte, 65536)
		for {
			n, err := k.srv.Read(buf)
			k.mu.Lock()
			k.rx = append(k.rx, buf[:n]...)
			if err != nil {
				k.rxErr = err
			}
			k.mu.Unlock()
			if err != nil {
				return
			}
		}
	}()
	ch, err := conn.NewChannel()
	if err != nil {
		k.close()
		return nil, err
	}
	k.ch = ch
	return k, nil
}

func (k *sockKit) close() {
	if k.cancel != nil {
		k.cancel()
	}
	if k.srv != nil {
		k.srv.Close()
	}
	if k.ln != nil {
		k.ln.Close()
	}
	os.RemoveAll(k.dir)
}

// written returns a copy of everything the client has written so far.
func (k *sockKit) written() []byte {
	k.mu.Lock()
	defer k.mu.Unlock()
	return append([]byte(nil), k.rx...)
}

// outq is the number of bytes written by the server that the client has not
// read yet (SIOCOUTQ on a unix stream socket).
func (k *sockKit) outq() (int, error) {
	rc, err := k.srv.SyscallConn()
	if err != nil {
		return 0, err
	}
	var v int32
	var ierr error
	cerr := rc.Control(func(fd uintptr) {
		const siocoutq = 0x5411
		_, _, e := syscall.Syscall(syscall.SYS_IOCTL, fd, siocoutq, uintptr(unsafe.Pointer(&v)))
		if e != 0 {
			ierr = e
		}
	})
	if cerr != nil {
		return 0, cerr
	}
	return int(v), ierr
}

// readerGID finds the library's reader goroutine of this process by its
// frames (tds.(*Conn).ReadFrom blocked in a network read). Only usable when
// one sockKit is alive at a time in the process (the socket legs are serial).
func sockReaderG() *rt.G {
	for _, g := range rt.Goroutines() {
		if g.Has("tds.(*Conn).ReadFrom") && g.Has("net.(*conn).Read") {
			g := g
			return &g
		}
	}
	return nil
}

// feed writes one chunk and waits until the reader has taken it and is back
// in its socket read (or has otherwise come to rest), so that each chunk is
// (at most) one read result and the reader has processed it.
func (k *sockKit) feed(chunk []byte) error {
	if len(chunk) > 0 {
		if _, err := k.srv.Write(chunk); err != nil {
			return err
		}
	}
	return k.awaitIdle(20 * time.Second)
}

func (k *sockKit) awaitIdle(d time.Duration) error {
	deadline := time.Now().Add(d)
	stable := 0
	for {
		q, err := k.outq()
		if err != nil {
			return err
		}
		g := sockReaderG()
		if q == 0 && g != nil && g.State == "IO wait" {
			stable++
			if stable >= 2 {
				return nil
			}
		} else {
			stable = 0
		}
		if time.Now().After(deadline) {
			st := "gone"
			if g != nil {
				st = g.State
			}
			return fmt.Errorf("reader not idle: %d unread bytes, reader %s", q, st)
		}
		time.Sleep(100 * time.Microsecond)
	}
}

// sockSplitPackets cuts the client's byte stream into packets.
func sockSplitPackets(stream []byte) ([]xport.Header, [][]byte, error) {
	return xport.SplitPackets(stream)
}
