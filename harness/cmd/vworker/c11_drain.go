package main

import (
	"context"
	"encoding/json"
	"errors"
	"fmt"
	"time"

	"github.com/SAP/go-dblib/tds"

	"verif/harness/rt"
	"verif/harness/srv"
	"verif/harness/xport"
)

// C11, "the returned error carries all messages received so far and still
// matches the callback's error" when the clean-up after the failing callback
// fails as well: NextPackageUntil drains the rest of the response, and that
// drain runs into a parse error queued behind the failing package, or into the
// caller's deadline because the rest of the response is slow. The callback's
// error and the messages before it must still come back.

type c11DrainCase struct {
	Drain  string `json:"drain_fails"` // parse-error | deadline
	EEDs   int    `json:"messages_before_the_failing_package"`
	Behind string `json:"behind_the_failing_package"`
}

func c11DrainRun(c *Ctx, cs c11DrainCase) {
	r := c.R
	r.Eval(1)
	b, _ := json.Marshal(cs)
	rt.CaseLog("C11 drain %s", b)
	k, err := newKit(64, 0)
	if err != nil {
		r.Inconclusive("setup: %v", err)
		return
	}
	defer k.teardown()
	var body []byte
	var want []uint32
	for i := 0; i < cs.EEDs; i++ {
		nr := uint32(1001 + i)
		want = append(want, nr)
		body = append(body, srv.EED{MsgNr: nr, State: 1, Class: 16, SQLState: []byte("ZZZZZ"), TranState: 1, Msg: fmt.Sprintf("message %d", nr), Server: "S", Line: 1}.Bytes()...)
	}
	body = append(body, srv.ReturnStatus(7)...) // the callback fails on this one
	// the deadline also ends a drain that waits for a final DONE hidden behind an unparseable package
	ctx, cancel := context.WithTimeout(k.ctx, 700*time.Millisecond)
	switch cs.Drain {
	case "parse-error":
		switch cs.Behind {
		case "language-length-0":
			body = append(body, 0x21, 0, 0, 0, 0)
		case "unknown-token":
			body = append(body, 0x01, 0x02)
		case "row-without-format":
			body = append(body, srv.TokRow, 1, 2, 3)
		}
		body = append(body, srv.Done(srv.TokDone, 0, 0, 0)...)
		k.tr.Feed(xport.Packet(byte(tds.TDS_BUF_RESPONSE), xport.EOM, 0, body))
	case "deadline":
		// the rest of the response never arrives; the caller's deadline ends the drain
		cancel()
		ctx, cancel = context.WithTimeout(k.ctx, 300*time.Millisecond)
		k.tr.Feed(xport.Packet(byte(tds.TDS_BUF_RESPONSE), 0, 0, body))
	}
	defer cancel()
	if !awaitIdle(k.tr, 20*time.Second) {
		r.Inconclusive("reader not idle")
		return
	}
	errCB := errors.New("harness: callback refuses the package")
	var retErr error
	called := false
	call := c13Go(func() {
		_, retErr = k.ch.NextPackageUntil(ctx, true, func(p tds.Package) (bool, error) {
			if _, ok := p.(*tds.ReturnStatusPackage); ok {
				called = true
				return false, errCB
			}
			return false, nil
		})
	})
	if !call.wait(30 * time.Second) {
		r.Inconclusive("NextPackageUntil did not return (C13's subject)")
		return
	}
	if !called && call.pi == nil {
		// on a loaded machine the deadline can end the call before the
		// queued packages were even looked at: nothing to judge
		r.Count("drain_cases_deadline_before_the_callback", 1)
		return
	}
	r.Distinct(string(b))
	if call.pi != nil {
		r.Violate("panic/"+call.pi.Frame+"/drain-fails", call.pi.Value, cs)
		return
	}
	if retErr == nil || !errors.Is(retErr, errCB) {
		r.Violate("callback-error/not-matching/drain-fails-too", fmt.Sprintf("the callback failed with %q, the drain of the rest of the response then failed as well (%s); NextPackageUntil returned %v, which does not match the callback's error", errCB, cs.Drain, retErr), cs)
		return
	}
	var carried []uint32
	var ee *tds.EEDError
	if errors.As(retErr, &ee) {
		for _, p := range ee.EEDPackages {
			carried = append(carried, p.MsgNumber)
		}
	}
	if len(carried) < len(want) || fmt.Sprint(carried[:len(want)]) != fmt.Sprint(want) {
		r.Violate("callback-error/wrong-message-list/drain-fails-too", fmt.Sprintf("messages %v were received before the failing package; the returned error carries %v (%v)", want, carried, retErr), cs)
		return
	}
	r.Count("callback_failures_with_failing_drain_checked", 1)
}

func runC11Drain(c *Ctx) {
	for _, n := range []int{0, 1, 2, 3} {
		for _, behind := range []string{"language-length-0", "unknown-token", "row-without-format"} {
			c11DrainRun(c, c11DrainCase{Drain: "parse-error", EEDs: n, Behind: behind})
		}
		c11DrainRun(c, c11DrainCase{Drain: "deadline", EEDs: n})
	}
}
