package main

// Reference encoding/decoding of harness values per variant (trusted base:
// verif/harness/refdata).

import (
	"errors"
	"fmt"
	"math/big"

	"verif/harness/refdata"
)

// dtRefEnc is the reference encoding of a value for a variant.
type dtRefEnc struct {
	bs []byte
	// canonical: TDS 5.0 prescribes exactly these bytes for the value. False
	// for numerics (length is the sender's choice) and for classic temporal
	// values that do not lie exactly on a tick/minute (the tick below the
	// value is encoded; rounding is the sender's choice).
	canonical bool
}

// dtRefEncode encodes v for the variant. For numerics the server's canonical
// length for the precision is used.
func dtRefEncode(vr *dtVariant, v *dtVal) (dtRefEnc, error) {
	switch v.K {
	case dkNil:
		return dtRefEnc{[]byte{}, true}, nil
	case dkU8:
		return dtRefEnc{refdata.Uint(1, v.N), true}, nil
	case dkI16, dkU16:
		return dtRefEnc{refdata.Uint(2, v.N), true}, nil
	case dkI32, dkU32, dkF32:
		return dtRefEnc{refdata.Uint(4, v.N), true}, nil
	case dkI64, dkU64, dkF64:
		return dtRefEnc{refdata.Uint(8, v.N), true}, nil
	case dkBool:
		return dtRefEnc{refdata.Bit(v.N != 0), true}, nil
	case dkMoney:
		if vr.Len == 4 {
			return dtRefEnc{refdata.Money4(int32(int64(v.N))), true}, nil
		}
		return dtRefEnc{refdata.Money(int64(v.N)), true}, nil
	case dkDec:
		b, err := refdata.Numeric(v.Neg, v.magnitude(), refdata.NumericLen(v.Prec))
		return dtRefEnc{b, false}, err
	case dkBytes:
		return dtRefEnc{append([]byte(nil), v.B...), true}, nil
	case dkStr:
		if vr.Role == "utf16" {
			b, err := refdata.UTF16LE([]rune(string(v.B)))
			return dtRefEnc{b, true}, err
		}
		return dtRefEnc{append([]byte(nil), v.B...), true}, nil
	case dkTime:
		switch vr.Role {
		case "date":
			return dtRefEnc{refdata.Date(v.Day), v.Ns == 0}, nil
		case "time":
			k, exact := refdata.TickExact(v.Ns)
			return dtRefEnc{refdata.Time(k), exact}, nil
		case "datetime":
			k, exact := refdata.TickExact(v.Ns)
			return dtRefEnc{refdata.DateTime(v.Day, k), exact}, nil
		case "shortdate":
			return dtRefEnc{refdata.ShortDate(v.Day, v.Ns/60000000000), v.Ns%60000000000 == 0}, nil
		case "bigdatetime":
			return dtRefEnc{refdata.BigDateTime(v.Day, v.Ns/1000), v.Ns%1000 == 0}, nil
		case "bigtime":
			return dtRefEnc{refdata.BigTime(v.Ns / 1000), v.Ns%1000 == 0}, nil
		}
	}
	return dtRefEnc{}, fmt.Errorf("harness: no reference encoding for %s / %s", vr.label(), v.K)
}

// dtRefWireInstant is what the reference decoder reads out of temporal bytes:
// day number (or the value's own day for time-only types) and the time part
// as an exact multiple of 1/3 ns.
type dtRefWireInstant struct {
	day  int64
	tod3 int64 // time of day in units of 1/3 ns
}

// dtRefDecodeTemporal decodes library bytes with the range checks of a
// conforming server.
func dtRefDecodeTemporal(vr *dtVariant, v *dtVal, bs []byte) (dtRefWireInstant, error) {
	switch vr.Role {
	case "date":
		d, err := refdata.DecodeDate(bs)
		return dtRefWireInstant{d, 0}, err
	case "time":
		k, err := refdata.DecodeTime(bs)
		return dtRefWireInstant{v.Day, k * dtOneTick3}, err
	case "datetime":
		d, k, err := refdata.DecodeDateTime(bs)
		return dtRefWireInstant{d, k * dtOneTick3}, err
	case "shortdate":
		d, m, err := refdata.DecodeShortDate(bs)
		return dtRefWireInstant{d, m * dtOneMin3}, err
	case "bigdatetime":
		d, us, err := refdata.DecodeBigDateTime(bs)
		return dtRefWireInstant{d, us * 3000}, err
	case "bigtime":
		us, err := refdata.DecodeBigTime(bs)
		return dtRefWireInstant{v.Day, us * 3000}, err
	}
	return dtRefWireInstant{}, errors.New("harness: not a temporal variant")
}

// tol3 is the comparison tolerance of a temporal role in 1/3 ns (0 = exact).
func dtTol3Of(vr *dtVariant) int64 {
	switch vr.Role {
	case "time", "datetime":
		return dtOneTick3
	case "shortdate":
		return dtOneMin3
	}
	return 0
}

// dtRangeErrName names the range check a reference decoder failed.
func dtRangeErrName(err error) string {
	switch {
	case errors.Is(err, refdata.ErrTickRange):
		return "tick-out-of-range"
	case errors.Is(err, refdata.ErrMinuteRange):
		return "minutes-out-of-range"
	case errors.Is(err, refdata.ErrDayRange):
		return "day-out-of-range"
	case errors.Is(err, refdata.ErrMicroRange):
		return "microseconds-out-of-range"
	}
	return "not-decodable"
}

var dtBigTen = big.NewInt(10)

func dtPow10(k int) *big.Int { return new(big.Int).Exp(dtBigTen, big.NewInt(int64(k)), nil) }

// dtGridBelow returns the value the reference bytes of v denote: v itself where
// the encoding is exact, the grid point (tick, minute, microsecond, day) at or
// below v otherwise.
func dtGridBelow(vr *dtVariant, v *dtVal, canonical bool) dtVal {
	want := *v
	if v.K != dkTime || canonical {
		return want
	}
	switch vr.Role {
	case "time", "datetime":
		k, _ := refdata.TickExact(v.Ns)
		want.Ns = refdata.TickNs(k)
	case "shortdate":
		want.Ns = v.Ns / 60000000000 * 60000000000
	case "date":
		want.Ns = 0
	default:
		want.Ns = v.Ns / 1000 * 1000
	}
	return want
}
