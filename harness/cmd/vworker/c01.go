package main

import (
	"bytes"
	"context"
	"encoding/json"
	"fmt"
	"strconv"
	"sync"

	"github.com/SAP/go-dblib/asetypes"
	"github.com/SAP/go-dblib/tds"

	"verif/harness/rt"
	"verif/harness/srv"
	"verif/harness/xport"
)

// C01 — outgoing messages are well-formed TDS packet sequences.
//
// Events: the exact byte records handed to the transport between the start
// of a message and the return of SendRemainingPackets/SendPackage.
// Oracle: framing + conservation against the packages' flat encodings.

func init() { register("C01", runC01) }

type c01Pkg struct {
	Kind string `json:"kind"` // raw | lang | msg | logout | dyn | dyn2 | params
	Len  int    `json:"len"`  // encoded length for raw/lang/dyn/dyn2
}

type c01Msg struct {
	PacketSize int      `json:"packet_size"` // announced by the server before this message (0 = unchanged)
	Type       int      `json:"header_type"`
	Pkgs       []c01Pkg `json:"packages"`
	Split      string   `json:"split"` // "sendpackage" (last via SendPackage) | "sendremaining" (all queued, then SendRemainingPackets)
	// AbortedBefore: before this message a short message is queued with a
	// live context and flushed with a cancelled one (a request given up by
	// the caller); its bytes must not show up in this message
	AbortedBefore bool `json:"aborted_message_before,omitempty"`
	// OnChannel0: with a logical channel in the case, send this message on
	// channel 0 instead (the two channels of one connection alternate)
	OnChannel0 bool `json:"on_channel_0,omitempty"`
	// RefusedAt (>= 1): before the package with this index is queued, the
	// client queues a package the library refuses before writing a byte (a
	// DYNAMIC package without a type); the message goes on. The packages
	// accepted before and after it are the message.
	RefusedAt int `json:"refused_package_before_index,omitempty"`
	K, D      int `json:"-"`
}

type c01Case struct {
	// HighID (with Logical): 256..258 channels are set up first, so that the
	// channel under test has an id that does not fit one byte
	HighID   int      `json:"channels_set_up_before,omitempty"`
	Logical  bool     `json:"logical_channel"` // use a channel with id > 0
	Messages []c01Msg `json:"messages"`
}

func c01Build(specs []c01Pkg, tag byte) []tds.Package {
	var out []tds.Package
	fill := func(n int) []byte {
		b := make([]byte, n)
		for i := range b {
			b[i] = 'a' + byte((i+int(tag))%26)
		}
		return b
	}
	for _, s := range specs {
		switch s.Kind {
		case "raw":
			p := tds.NewTokenlessPackage()
			d := fill(s.Len)
			d[0] = 0x03 // not a known token
			p.Data.Write(d)
			out = append(out, p)
		case "lang":
			out = append(out, &tds.LanguagePackage{Status: tds.TDS_LANGUAGE_NOARGS, Cmd: string(fill(s.Len - 6))})
		case "msg":
			out = append(out, tds.NewMsgPackage(tds.TDS_MSG_HASARGS, tds.TDS_MSG_SEC_LOGPWD3))
		case "logout":
			out = append(out, &tds.LogoutPackage{})
		case "dyn":
			// token 1 + length 2 + type 1 + status 1 + idlen 1 + id 4 + stmtlen 2 + stmt
			p := tds.NewDynamicPackage(false)
			p.Type = tds.TDS_DYN_PREPARE
			p.ID = "stm1"
			p.Stmt = string(fill(s.Len - 12))
			out = append(out, p)
		case "dyn2":
			// token 1 + length 4 + type 1 + status 1 + idlen 1 + id 4 + stmtlen 4 + stmt
			p := tds.NewDynamicPackage(true)
			p.Type = tds.TDS_DYN_PREPARE
			p.ID = "stm2"
			p.Stmt = string(fill(s.Len - 16))
			out = append(out, p)
		case "params":
			f1, d1, _ := tds.LookupFieldFmtData(asetypes.INT4)
			f2, d2, _ := tds.LookupFieldFmtData(asetypes.VARCHAR)
			f1.SetName("@a")
			f2.SetName("@b")
			d1.SetValue(int32(0x01020304))
			d2.SetValue("param value")
			out = append(out, tds.NewParamFmtPackage(false, f1, f2), tds.NewParamsPackage(d1, d2))
		default:
			panic("c01: unknown package kind " + s.Kind)
		}
	}
	return out
}

// c01Encode returns the flat encodings of the packages in order.
func c01Encode(pkgs []tds.Package) ([]byte, error) {
	f := &flatCh{}
	var prev tds.Package
	for _, p := range pkgs {
		if acc, ok := p.(tds.LastPkgAcceptor); ok {
			if err := acc.LastPkg(prev); err != nil {
				return nil, err
			}
		}
		if err := p.WriteTo(f); err != nil {
			return nil, err
		}
		prev = p
	}
	return f.b, nil
}

func c01EncLen(specs []c01Pkg) int {
	b, err := c01Encode(c01Build(specs, 0))
	if err != nil {
		panic(err)
	}
	return len(b)
}

var c01SmallLen = map[string]int{}
var c01SmallOnce sync.Once

// c01Compose returns package specs whose encodings total exactly L bytes.
func c01Compose(rnd *rt.Rand, L int) []c01Pkg {
	c01SmallOnce.Do(func() {
		for _, k := range []string{"msg", "logout", "params"} {
			c01SmallLen[k] = c01EncLen([]c01Pkg{{Kind: k}})
		}
	})
	var specs []c01Pkg
	left := L
	// a few small packages first
	for i := rnd.Intn(3); i > 0; i-- {
		k := []string{"msg", "logout", "params"}[rnd.Intn(3)]
		if left-c01SmallLen[k] >= 1 {
			specs = append(specs, c01Pkg{Kind: k})
			left -= c01SmallLen[k]
		}
	}
	// split the rest over 1..3 padded packages
	parts := rnd.Range(1, 3)
	for left > 0 {
		n := left
		if parts > 1 && left > 40 {
			n = rnd.Range(1, left-1)
		}
		parts--
		kind := "raw"
		switch rnd.Intn(4) {
		case 0:
			if n >= 6 {
				kind = "lang"
			}
		case 1:
			if n >= 12 && n <= 30000 {
				kind = "dyn"
			}
		case 2:
			if n >= 16 {
				kind = "dyn2"
			}
		}
		specs = append(specs, c01Pkg{Kind: kind, Len: n})
		left -= n
	}
	// order: shuffle
	p := rnd.Perm(len(specs))
	out := make([]c01Pkg, len(specs))
	for i, j := range p {
		out[i] = specs[j]
	}
	// params must stay a fmt+data pair (it is one spec), nothing to fix up
	return out
}

func c01Run(c *Ctx, cs c01Case) {
	r := c.R
	r.Eval(1)
	k, err := newKit(64, 0)
	if err != nil {
		r.Inconclusive("cannot set up connection: %v", err)
		return
	}
	defer k.teardown()
	ch := k.ch
	chanID := uint16(0)
	if cs.Logical {
		// peer: acknowledge SETUP with a header-only PROTACK on the same id
		setups := 0
		badSetup := ""
		k.tr.OnWrite = func(rec xport.WriteRec) {
			h, err := xport.ParseHeader(rec.Data)
			if err == nil && h.Type == byte(tds.TDS_BUF_SETUP) {
				// ids are handed out in order: the n-th setup is for id n.
				// The acknowledgement goes to that id, so that a setup
				// packet carrying another id does not park NewChannel.
				setups++
				if int(h.Channel) != setups && badSetup == "" {
					badSetup = fmt.Sprintf("the setup packet of the %d. logical channel carries channel id %d", setups, h.Channel)
				}
				k.tr.Feed(xport.Header{Type: byte(tds.TDS_BUF_PROTACK), Status: xport.EOM, Length: 8, Channel: uint16(setups)}.Bytes())
			}
		}
		defer func() {
			if badSetup != "" {
				r.Violate("wrong-channel-id/setup-packet", badSetup, cs)
			}
		}()
		for i := 0; i < cs.HighID; i++ {
			if _, err := k.conn.NewChannel(); err != nil {
				r.Count("logical_channel_setup_failed", 1)
				break
			}
		}
		k.tr.TakeWrites()
		lc, err := k.conn.NewChannel()
		k.tr.OnWrite = nil
		if err != nil {
			// that is C12's clause, not C01's: count and fall back
			r.Count("logical_channel_setup_failed", 1)
			cs.Logical = false
		} else {
			ch = lc
			ws := k.tr.TakeWrites()
			if len(ws) > 0 {
				if h, err := xport.ParseHeader(ws[0].Data); err == nil {
					chanID = h.Channel
				}
			}
		}
	}
	k.tr.TakeWrites()
	ps := 512
	nextNrBy := map[uint16]int{}
	abort := func(ch *tds.Channel) bool {
		if err := ch.QueuePackage(context.Background(), &tds.LanguagePackage{Cmd: "given up"}); err != nil {
			r.Inconclusive("QueuePackage of the aborted message failed: %v", err)
			return false
		}
		cctx, ccancel := context.WithCancel(context.Background())
		ccancel()
		if err := ch.SendRemainingPackets(cctx); err == nil {
			r.Count("aborted_flush_returned_nil", 1)
		}
		if w := k.tr.TakeWrites(); len(w) != 0 {
			r.Count("aborted_flush_wrote_packets", int64(len(w)))
		}
		r.Count("aborted_messages", 1)
		return true
	}
	for mi, m := range cs.Messages {
		abortedEarly := false
		if m.AbortedBefore && m.PacketSize != 0 && m.PacketSize != ps && mi%2 == 1 {
			// the message given up lies BEFORE the packet size announcement:
			// what it left queued was laid out for the old size
			ach := ch
			if cs.Logical && m.OnChannel0 {
				ach = k.ch
			}
			if !abort(ach) {
				return
			}
			abortedEarly = true
			r.Count("aborted_messages_before_a_size_change", 1)
		}
		if m.PacketSize != 0 && m.PacketSize != ps {
			// the server announces a new packet size between two messages
			resp := append(srv.EnvChange(srv.EnvMember{Type: 4, New: strconv.Itoa(m.PacketSize), Old: strconv.Itoa(ps)}), srv.Done(srv.TokDone, 0, 0, 0)...)
			k.tr.Feed(xport.Packet(byte(tds.TDS_BUF_RESPONSE), xport.EOM, 0, resp))
			if !awaitIdle(k.tr, 20e9) {
				r.Inconclusive("reader did not process the packet size announcement")
				return
			}
			drainChannel(k.ch, k.ctx)
			if got := k.conn.PacketSize(); got != m.PacketSize {
				r.Violate("packet-size-not-applied", fmt.Sprintf("server announced packet size %d, PacketSize() = %d", m.PacketSize, got), cs)
				return
			}
			ps = m.PacketSize
		}
		body := ps - 8
		want, err := c01Encode(c01Build(m.Pkgs, byte(mi)))
		if err != nil {
			r.Inconclusive("reference encoding failed: %v", err)
			return
		}
		pkgs := c01Build(m.Pkgs, byte(mi))
		ch := ch
		chanID := chanID
		if cs.Logical && m.OnChannel0 {
			ch, chanID = k.ch, 0
		}
		if m.AbortedBefore && !abortedEarly {
			if !abort(ch) {
				return
			}
		}
		ch.CurrentHeaderType = tds.PacketHeaderType(m.Type)
		ctx := context.Background()
		var sendErr error
		pi := rt.Catch(func() {
			for i, p := range pkgs {
				if m.RefusedAt >= 1 && i == m.RefusedAt {
					if err := ch.QueuePackage(ctx, &tds.DynamicPackage{}); err == nil {
						r.Count("refused_package_was_accepted", 1)
					}
					r.Count("messages_with_a_refused_package_in_between", 1)
				}
				if i == len(pkgs)-1 && m.Split == "sendpackage" {
					sendErr = ch.SendPackage(ctx, p)
				} else {
					sendErr = ch.QueuePackage(ctx, p)
				}
				if sendErr != nil {
					return
				}
			}
			if m.Split != "sendpackage" {
				sendErr = ch.SendRemainingPackets(ctx)
			}
		})
		exact := "other-length"
		if len(want)%body == 0 {
			exact = "exact-multiple"
		}
		sigTail := "/" + exact + "/" + m.Split
		if pi != nil {
			r.Violate("panic/"+pi.Frame+sigTail, fmt.Sprintf("message %d (%d bytes at packet size %d): panic %s", mi, len(want), ps, pi.Value), cs)
			return
		}
		if sendErr != nil {
			r.Violate("send-error"+sigTail, fmt.Sprintf("message %d (%d bytes at packet size %d): send returned %v", mi, len(want), ps, sendErr), cs)
			return
		}
		// The property speaks about the bytes reaching the transport, not
		// about how they are distributed over Write calls: the writes of the
		// message are concatenated and cut into packets by their headers.
		raw := k.tr.TakeWrites()
		var stream []byte
		for _, w := range raw {
			stream = append(stream, w.Data...)
		}
		var ws []xport.WriteRec
		for off := 0; off < len(stream); {
			h, herr := xport.ParseHeader(stream[off:])
			if herr != nil || h.Length < 8 || off+int(h.Length) > len(stream) {
				// keep the rest as one record; the per-packet checks below report it
				ws = append(ws, xport.WriteRec{Data: stream[off:]})
				break
			}
			ws = append(ws, xport.WriteRec{Data: stream[off : off+int(h.Length)]})
			off += int(h.Length)
		}
		r.Count("transport_writes", int64(len(raw)))
		r.Count("messages_checked", 1)
		r.Count("packets_observed", int64(len(ws)))
		r.SetAdd("tuples", fmt.Sprintf("ps%d/k%d/d%d/%s/t%d/ch%d", ps, m.K, m.D, m.Split, m.Type, chanID))
		if len(ws) >= 2 || exact == "exact-multiple" {
			r.Distinct(fmt.Sprintf("%d/%d/%s/%d/%v", ps, len(want), m.Split, m.Type, cs.Logical))
		}
		fail := func(clause, detail string) {
			r.Violate(clause+sigTail, fmt.Sprintf("message %d of the case: %d bytes of packages at packet size %d (body %d), header type %d, split %s: %s; transport saw %d write(s) with lengths %v",
				mi, len(want), ps, body, m.Type, m.Split, detail, len(ws), c01Lens(ws)), cs)
		}
		if len(ws) == 0 {
			fail("nothing-sent", "no packet reached the transport")
			return
		}
		var got []byte
		bad := false
		for i, w := range ws {
			h, err := xport.ParseHeader(w.Data)
			last := i == len(ws)-1
			switch {
			case err != nil:
				fail("record-not-a-packet", fmt.Sprintf("write %d: %v", i, err))
				bad = true
			case int(h.Length) != len(w.Data):
				fail("header-length-mismatch", fmt.Sprintf("write %d has %d bytes, header length %d", i, len(w.Data), h.Length))
				bad = true
			case len(w.Data) > ps:
				fail("packet-exceeds-packet-size", fmt.Sprintf("write %d has %d bytes", i, len(w.Data)))
				bad = true
			case !last && len(w.Data) != ps:
				fail("non-last-packet-not-full", fmt.Sprintf("packet %d of %d has %d bytes", i, len(ws), len(w.Data)))
				bad = true
			case !last && h.Status&xport.EOM != 0:
				fail("eom-on-non-last-packet", fmt.Sprintf("packet %d of %d carries EOM", i, len(ws)))
				bad = true
			case last && h.Status&xport.EOM == 0:
				fail("eom-missing-on-last-packet", fmt.Sprintf("last packet (%d bytes) has status %#x: the message is never terminated", len(w.Data), h.Status))
				bad = true
			case h.Type != byte(m.Type):
				fail("wrong-header-type", fmt.Sprintf("packet %d has type %d", i, h.Type))
				bad = true
			case h.Channel != chanID:
				fail("wrong-channel-id", fmt.Sprintf("packet %d has channel %d, want %d", i, h.Channel, chanID))
				bad = true
			}
			if bad {
				return
			}
			if chanID > 0 {
				if nextNr, ok := nextNrBy[chanID]; ok && int(h.PacketNr) != nextNr {
					fail("packet-number-not-consecutive", fmt.Sprintf("packet %d has number %d, want %d", i, h.PacketNr, nextNr))
					return
				}
				nextNrBy[chanID] = (int(h.PacketNr) + 1) % 256
			}
			got = append(got, w.Data[8:]...)
		}
		if !bytes.Equal(got, want) {
			kind := "body-bytes-differ"
			switch {
			case len(got) < len(want) && bytes.Equal(got, want[:len(got)]):
				kind = "bytes-lost"
			case len(got) > len(want) && bytes.Equal(got[:len(want)], want):
				kind = "extra-bytes"
			}
			fail(kind, fmt.Sprintf("packet bodies concatenate to %d bytes, packages encode to %d", len(got), len(want)))
			return
		}
		// a flush with nothing queued (a redundant SendRemainingPackets, the
		// second of two senders' flushes) sends nothing: a packet now would
		// be an end-of-message on a packet that ends no message
		if mi%3 == 2 {
			var ferr error
			if pi := rt.Catch(func() { ferr = ch.SendRemainingPackets(ctx) }); pi != nil {
				fail("panic/"+pi.Frame, "flush with nothing queued panicked: "+pi.Value)
				return
			}
			r.Count("flushes_with_nothing_queued", 1)
			if w := k.tr.TakeWrites(); len(w) != 0 {
				fail("packet-on-empty-flush", fmt.Sprintf("SendRemainingPackets with nothing queued (returned %v) wrote %d packet(s): % x", ferr, len(w), w[0].Data))
				return
			}
		}
	}
}

func c01Lens(ws []xport.WriteRec) []int {
	l := make([]int, 0, len(ws))
	for i, w := range ws {
		if i >= 12 {
			break
		}
		l = append(l, len(w.Data))
	}
	return l
}

var c01Types = []int{int(tds.TDS_BUF_LANG), int(tds.TDS_BUF_LOGIN), int(tds.TDS_BUF_RPC), int(tds.TDS_BUF_NORMAL), int(tds.TDS_BUF_BULK), int(tds.TDS_BUF_UNFMT)}

func c01GenMsg(rnd *rt.Rand, ps, k, d int) c01Msg {
	L := k*(ps-8) + d
	if L < 1 {
		L = 1
	}
	m := c01Msg{PacketSize: ps, Type: c01Types[rnd.Intn(len(c01Types))], K: k, D: d}
	m.Pkgs = c01Compose(rnd, L)
	m.Split = []string{"sendpackage", "sendremaining"}[rnd.Intn(2)]
	m.AbortedBefore = rnd.Chance(1, 8)
	m.OnChannel0 = rnd.Chance(1, 3)
	if len(m.Pkgs) >= 2 && rnd.Chance(1, 4) {
		m.RefusedAt = rnd.Range(1, len(m.Pkgs)-1)
	}
	return m
}

func runC01(c *Ctx) {
	r := c.R
	r.Rule = "messages of total encoded length k*(packetSize-8)+d, k in 1..3, d in {-1,0,+1}, plus lengths 1, 2 and seeded lengths, built from LANGUAGE/DYNAMIC/DYNAMIC2/PARAMFMT+PARAMS/MSG/LOGOUT/tokenless packages; packet sizes announced by the peer through ENVCHANGE(PACKSIZE) between messages (quick: 9 boundary sizes + 40 seeded; thorough: every size 256..65535 for k in {1,2}); 6 header types; both call splits; 3-6 successive messages per channel; channel 0 and a logical channel; non-trivial = message spans >= 2 packets or ends on an exact multiple of the body size; distinct = (packet size, length, split, type, channel kind)"
	r.TrustedBase = []string{"flat recording BytesChannel (flatch.go) for the reference encodings", "harness/xport header parser"}
	r.Assumptions = []string{"package encodings themselves are C06's subject; here only packetisation of whatever the packages write"}
	if c.Replay != nil {
		var cc c12Case
		if json.Unmarshal(c.Replay, &cc) == nil && cc.Channels > 0 && cc.Stream != "" {
			// a case of the concurrent-senders leg (replay reproduces the
			// workload, not necessarily the interleaving)
			for i := 0; i < 20 && r.NumViolations() == 0; i++ {
				c12Run(c, cc)
			}
			return
		}
		var cs c01Case
		if err := json.Unmarshal(c.Replay, &cs); err != nil {
			r.Inconclusive("bad replay: %v", err)
			return
		}
		c01Run(c, cs)
		return
	}
	quick := c.Quick()
	var sizes []int
	boundary := []int{256, 257, 511, 512, 513, 1024, 4096, 16384, 65535}
	if quick {
		sizes = append(sizes, boundary...)
		rnd := rt.NewRand(c.Seed, "c01/sizes")
		for i := 0; i < 40; i++ {
			sizes = append(sizes, rnd.Range(256, 65535))
		}
	} else {
		for s := 256; s <= 65535; s++ {
			sizes = append(sizes, s)
		}
	}
	// one case per (size index): 3-6 messages walking through (k,d)
	// combinations, with a different size in between now and then
	ncases := len(sizes) * 2
	c.parallel(ncases, func(i int) {
		ps := sizes[i%len(sizes)]
		logical := i >= len(sizes)
		rnd := rt.NewRand(c.Seed, fmt.Sprintf("c01/case/%d", i))
		cs := c01Case{Logical: logical}
		kmax := 2
		isBoundary := false
		for _, b := range boundary {
			if b == ps {
				isBoundary = true
			}
		}
		if isBoundary || (quick && ps < 9000) {
			kmax = 3
		}
		var combos [][2]int
		for k := 1; k <= kmax; k++ {
			for _, d := range []int{-1, 0, 1} {
				combos = append(combos, [2]int{k, d})
			}
		}
		// each case covers all (k,d) for its size, in seeded order, in
		// groups of successive messages; a foreign size and tiny lengths
		// are interleaved
		perm := rnd.Perm(len(combos))
		for _, pi := range perm {
			cs.Messages = append(cs.Messages, c01GenMsg(rnd, ps, combos[pi][0], combos[pi][1]))
			if rnd.Chance(1, 4) {
				other := boundary[rnd.Intn(5)]
				m := c01GenMsg(rnd, other, 1, rnd.Range(-1, 1))
				cs.Messages = append(cs.Messages, m)
			}
			if rnd.Chance(1, 5) {
				m := c01Msg{PacketSize: ps, Type: c01Types[rnd.Intn(len(c01Types))], Split: "sendpackage", K: 0, D: 0}
				m.Pkgs = c01Compose(rnd, []int{1, 2, rnd.Range(3, ps)}[rnd.Intn(3)])
				cs.Messages = append(cs.Messages, m)
			}
		}
		if i < 3 || (logical && i < len(sizes)+2) {
			r.Sample(fmt.Sprintf("ps=%d logical=%v", ps, logical), cs)
		}
		c01Run(c, cs)
	})
	// long-lived channels: enough packets for the 8-bit packet number of a
	// logical channel to wrap around twice (each case ~600 packets), with
	// the two channels of the connection alternating
	for li := 0; li < 3; li++ {
		rnd := rt.NewRand(c.Seed, fmt.Sprintf("c01/long/%d", li))
		cs := c01Case{Logical: true}
		ps := []int{256, 263, 512}[li]
		for len(cs.Messages) < 90 {
			m := c01GenMsg(rnd, ps, rnd.Range(4, 9), rnd.Range(-1, 1))
			m.OnChannel0 = li == 2 && len(cs.Messages)%3 == 2
			cs.Messages = append(cs.Messages, m)
		}
		c01Run(c, cs)
		r.Count("long_lived_channel_cases", 1)
	}
	// a channel whose id needs two bytes, and messages of exactly 255, 256,
	// 257 and 512 full packets (counters of one byte)
	{
		rnd := rt.NewRand(c.Seed, "c01/wide")
		cs := c01Case{Logical: true, HighID: 256 + rnd.Intn(3)}
		for _, kd := range [][2]int{{2, 0}, {1, 1}, {3, -1}} {
			cs.Messages = append(cs.Messages, c01GenMsg(rnd, 512, kd[0], kd[1]))
		}
		c01Run(c, cs)
		r.Count("channel_ids_beyond_one_byte", 1)
		for _, logical := range []bool{false, true} {
			cs := c01Case{Logical: logical}
			for _, kk := range []int{255, 256, 257, 512} {
				m := c01GenMsg(rnd, 256, kk, 0)
				m.AbortedBefore, m.RefusedAt = false, 0
				cs.Messages = append(cs.Messages, m, c01GenMsg(rnd, 256, 1, -1))
			}
			c01Run(c, cs)
			r.Count("messages_of_256_or_more_full_packets", 4)
		}
	}
	// concurrent senders: several channels of one connection flush
	// multi-packet messages at the same time under large packet sizes; the
	// bytes reaching the transport must still parse as consecutive packets
	// (no packet of one channel inside a packet of another). Workload, peer
	// and stream oracle are C12's storm (c12Run), seeded here with large
	// sizes and few rounds.
	nStorm := 4
	if !quick {
		nStorm = 40
	}
	for ci := 0; ci < nStorm; ci++ {
		cs := c12Case{
			Stream:     fmt.Sprintf("c01/concurrent/%d/%d", c.Batch, ci),
			Channels:   []int{2, 3, 4, 8}[ci%4],
			Rounds:     8,
			TwoGor:     ci%2 == 1,
			GoMaxProcs: []int{16, 4, 2, 16}[ci%4],
			Yield:      ci % 3,
			PacketSize: []int{4104, 16384, 65535, 8192}[ci%4],
			Note:       "C01 concurrent-senders leg",
		}
		c12Run(c, cs)
		r.Count("concurrent_sender_storms", 1)
	}
	runSockLegC01(c)
}
