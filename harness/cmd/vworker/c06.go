package main

import (
	"context"
	"encoding/json"
	"fmt"
	"reflect"
	"regexp"
	"strings"
	"time"

	"github.com/SAP/go-dblib/tds"

	"verif/harness/canon"
	"verif/harness/refpkg"
	"verif/harness/rt"
	"verif/harness/xport"
)

// C06 — package encodings are self-consistent and match their wire layout.
//
// Events per package value p (reference value q with the same fields):
//   W(p)   the bytes the library writes (recording BytesChannel)
//   the package the library reads back from W(p) through a real PacketQueue
//          the way the channel does, and how many bytes that consumed
//   R(q)   the reference encoding, and the library's decode of it
//   D(W)   the reference decode of W(p) with every length/count field found
// Oracle (DESIGN.md C06): (1) write->read: same dump, consumed == len(W);
// (2) every length/count field in W equals what follows it; (3) server-sent
// types: decode of R(q) has q's field values; (4) client-sent types: D(W)
// has p's field values; (5) login record by absolute offsets.

func init() { register("C06", runC06) }

type pkgDirs struct {
	libWrites   bool // the library has a working WriteTo for the type
	serverSends bool // judged: library decode of the reference encoding
	clientSends bool // judged: reference decode of the library's bytes recovers every field
}

func dirsOf(typ string) pkgDirs {
	switch typ {
	case "EED", "ERROR", "ENVCHANGE", "LOGINACK", "DONE", "RETURNSTATUS", "ROW":
		return pkgDirs{true, true, false}
	case "DONEPROC", "DONEINPROC", "ROWFMT", "ROWFMT2", "ORDERBY", "ORDERBY2":
		return pkgDirs{false, true, false}
	case "MSG", "CAPABILITY", "PARAMFMT", "PARAMFMT2", "PARAMS", "CURINFO", "CURINFO3", "DYNAMIC", "DYNAMIC2":
		return pkgDirs{true, true, true}
	case "LANGUAGE", "LOGOUT", "CURDECLARE", "CURDECLARE3", "CUROPEN", "CURFETCH", "CURUPDATE", "CURDELETE", "CURCLOSE", "OPTIONCMD":
		return pkgDirs{true, false, true}
	}
	return pkgDirs{}
}

// c06CaseRec is what goes into violations, samples and replay files.
type c06CaseRec struct {
	Kind    string      `json:"kind"` // "package" | "login"
	Type    string      `json:"type,omitempty"`
	Variant string      `json:"variant,omitempty"`
	Opt     string      `json:"opt,omitempty"`
	Ref     interface{} `json:"ref,omitempty"`
	Hex     string      `json:"hex,omitempty"` // the bytes the comparison was about (head, for reading)
	Login   *loginCase  `json:"login,omitempty"`
}

func refFromJSON(typ string, raw json.RawMessage) (refpkg.Pkg, error) {
	var err error
	un := func(v interface{}) { err = json.Unmarshal(raw, v) }
	switch typ {
	case "EED":
		var v refpkg.EED
		un(&v)
		return v, err
	case "ERROR":
		var v refpkg.ErrorMsg
		un(&v)
		return v, err
	case "ENVCHANGE":
		var v refpkg.EnvChange
		un(&v)
		return v, err
	case "LOGINACK":
		var v refpkg.LoginAck
		un(&v)
		return v, err
	case "DONE", "DONEPROC", "DONEINPROC":
		var v refpkg.Done
		un(&v)
		return v, err
	case "MSG":
		var v refpkg.Msg
		un(&v)
		return v, err
	case "CAPABILITY":
		var v refpkg.Capability
		un(&v)
		return v, err
	case "PARAMFMT", "PARAMFMT2", "ROWFMT", "ROWFMT2":
		var v refpkg.Format
		un(&v)
		return v, err
	case "ROW", "PARAMS":
		var v refpkg.Row
		un(&v)
		return v, err
	case "ORDERBY":
		var v refpkg.OrderBy
		un(&v)
		return v, err
	case "ORDERBY2":
		var v refpkg.OrderBy2
		un(&v)
		return v, err
	case "RETURNSTATUS":
		var v refpkg.ReturnStatus
		un(&v)
		return v, err
	case "LANGUAGE":
		var v refpkg.Language
		un(&v)
		return v, err
	case "LOGOUT":
		var v refpkg.Logout
		un(&v)
		return v, err
	case "DYNAMIC", "DYNAMIC2":
		var v refpkg.Dynamic
		un(&v)
		return v, err
	case "CURINFO", "CURINFO3":
		var v refpkg.CurInfo
		un(&v)
		return v, err
	case "CURDECLARE", "CURDECLARE3":
		var v refpkg.CurDeclare
		un(&v)
		return v, err
	case "CUROPEN":
		var v refpkg.CurOpen
		un(&v)
		return v, err
	case "CURCLOSE":
		var v refpkg.CurClose
		un(&v)
		return v, err
	case "CURFETCH":
		var v refpkg.CurFetch
		un(&v)
		return v, err
	case "CURDELETE":
		var v refpkg.CurDelete
		un(&v)
		return v, err
	case "CURUPDATE":
		var v refpkg.CurUpdate
		un(&v)
		return v, err
	case "OPTIONCMD":
		var v refpkg.OptionCmd
		un(&v)
		return v, err
	}
	return nil, fmt.Errorf("unknown package type %q", typ)
}

// refDecode dispatches to the reference decoder of the type.
func refDecode(q refpkg.Pkg, b []byte) (*refpkg.Decoded, error) {
	switch v := q.(type) {
	case refpkg.EED:
		return refpkg.DecodeEED(b)
	case refpkg.ErrorMsg:
		return refpkg.DecodeError(b)
	case refpkg.EnvChange:
		return refpkg.DecodeEnvChange(b)
	case refpkg.LoginAck:
		return refpkg.DecodeLoginAck(b)
	case refpkg.Done:
		return refpkg.DecodeDone(b)
	case refpkg.Msg:
		return refpkg.DecodeMsg(b)
	case refpkg.Capability:
		return refpkg.DecodeCapability(b)
	case refpkg.Format:
		return refpkg.DecodeFormat(b)
	case refpkg.Row:
		return refpkg.DecodeRow(b, v.Fmt)
	case refpkg.ReturnStatus:
		return refpkg.DecodeReturnStatus(b)
	case refpkg.Language:
		return refpkg.DecodeLanguage(b)
	case refpkg.Logout:
		return refpkg.DecodeLogout(b)
	case refpkg.Dynamic:
		return refpkg.DecodeDynamic(b)
	case refpkg.CurInfo:
		return refpkg.DecodeCurInfo(b)
	case refpkg.CurDeclare:
		return refpkg.DecodeCurDeclare(b, v.ColCountWidth)
	case refpkg.CurOpen:
		return refpkg.DecodeCurOpen(b)
	case refpkg.CurClose:
		return refpkg.DecodeCurClose(b)
	case refpkg.CurFetch:
		return refpkg.DecodeCurFetch(b)
	case refpkg.CurDelete:
		return refpkg.DecodeCurDelete(b)
	case refpkg.CurUpdate:
		return refpkg.DecodeCurUpdate(b)
	case refpkg.OptionCmd:
		return refpkg.DecodeOptionCmd(b)
	}
	return nil, fmt.Errorf("no reference decoder for %T", q)
}

// hasVarPart: does the value hold at least one non-empty variable-length
// part (string, byte string, list)?
func hasVarPart(v reflect.Value) bool {
	switch v.Kind() {
	case reflect.String:
		return v.Len() > 0
	case reflect.Slice:
		if v.Len() == 0 {
			return false
		}
		if v.Type().Elem().Kind() == reflect.Uint8 {
			return true
		}
		return true
	case reflect.Struct:
		for i := 0; i < v.NumField(); i++ {
			if hasVarPart(v.Field(i)) {
				return true
			}
		}
	case reflect.Interface, reflect.Ptr:
		if !v.IsNil() {
			return hasVarPart(v.Elem())
		}
	}
	return false
}

var fieldNameRe = regexp.MustCompile(`[A-Za-z_][A-Za-z0-9_]*:`)

// firstDiffField names the field in which two canonical dumps first differ.
func firstDiffField(a, b string) string {
	n := len(a)
	if len(b) < n {
		n = len(b)
	}
	i := 0
	for i < n && a[i] == b[i] {
		i++
	}
	// include the rest of an identifier the difference starts in
	j := i
	for j < len(a) && isIdent(a[j]) {
		j++
	}
	if j < len(a) && a[j] == ':' {
		j++
	}
	locs := fieldNameRe.FindAllStringIndex(a[:j], -1)
	if len(locs) == 0 {
		return "value"
	}
	l := locs[len(locs)-1]
	return a[l[0] : l[1]-1]
}

func clip(s string, n int) string {
	if len(s) <= n {
		return s
	}
	return s[:n] + "…"
}

// diffContext shows both dumps around the first difference.
func diffContext(a, b string) string {
	n := len(a)
	if len(b) < n {
		n = len(b)
	}
	i := 0
	for i < n && a[i] == b[i] {
		i++
	}
	lo := i - 60
	if lo < 0 {
		lo = 0
	}
	return fmt.Sprintf("at dump offset %d: got …%s  want …%s", i, clip(a[lo:], 200), clip(b[lo:], 200))
}

func usesKind(q refpkg.Pkg, k refpkg.Kind) bool {
	var cols []refpkg.Column
	switch v := q.(type) {
	case refpkg.Format:
		cols = v.Cols
	case refpkg.Row:
		cols = v.Fmt.Cols
	}
	for _, c := range cols {
		if ti, ok := refpkg.LookupType(c.DataType); ok && ti.Kind == k {
			return true
		}
	}
	return false
}

func hasTextNull(q refpkg.Pkg) bool {
	if r, ok := q.(refpkg.Row); ok {
		for _, c := range r.Cells {
			if c.TextNull {
				return true
			}
		}
	}
	return false
}

// libCanExpress: can the value be built through the library's API at all?
func libCanExpress(q refpkg.Pkg) bool {
	if c, ok := q.(refpkg.Capability); ok {
		for _, m := range c.Masks {
			max := capReqMax
			switch m.Type {
			case 1:
			case 2:
				max = capResMax
			default:
				return false
			}
			for _, b := range refpkg.BitsOf(m.Mask) {
				if b > max {
					return false
				}
			}
		}
	}
	return true
}

// trivialRowFmt is the preceding ROWFMT an ORDERBY needs for LastPkg.
func trivialRowFmt() tds.Package {
	p, err := libFormat(refpkg.Format{Tok: refpkg.TokRowFmt2, Cols: []refpkg.Column{{Name: "a", DataType: 0x38}}})
	if err != nil {
		panic(err)
	}
	return p
}

// freshPrev builds the package LastPkg gets for a case (a fresh object every
// time, so that no attempt can influence another through it).
func freshPrev(q refpkg.Pkg) (tds.Package, error) {
	switch v := q.(type) {
	case refpkg.Row:
		return libFormat(v.Fmt)
	case refpkg.OrderBy, refpkg.OrderBy2:
		return trivialRowFmt(), nil
	}
	return nil, nil
}

// writeRefused: the library documents in its writer that it will not write
// this value (not a violation, counted).
func writeRefused(q refpkg.Pkg, err error) bool {
	d, ok := q.(refpkg.Dynamic)
	if !ok || err == nil {
		return false
	}
	if d.Type == 0 && strings.Contains(err.Error(), "dynamic type is invalid") {
		return true
	}
	return strings.Contains(err.Error(), "query too long")
}

type c06Runner struct {
	c *Ctx
	r *rt.Result
}

func (x *c06Runner) sig(cmp string, cs pkgCase, class string, withFocus bool) string {
	s := cmp + "/" + cs.Type + "/" + class
	if f := cs.focus(); withFocus && f != "" {
		s += ":" + f
	}
	return s
}

func (x *c06Runner) rec(cs pkgCase, b []byte) c06CaseRec {
	return c06CaseRec{Kind: "package", Type: cs.Type, Variant: cs.Variant, Opt: cs.Opt, Ref: cs.Ref, Hex: hexHead(b)}
}

// check runs every comparison that applies to the case.
func (x *c06Runner) check(cs pkgCase) {
	r := x.r
	q := cs.Ref
	d := dirsOf(cs.Type)
	r.SetAdd("package_types", cs.Type)
	r.SetAdd("type_variant", cs.Type+"/"+cs.Variant)
	r.SetAdd("type_variant_option", cs.Type+"/"+cs.Variant+"/"+cs.Opt)
	if hasVarPart(reflect.ValueOf(q)) {
		r.Distinct(cs.Type + "|" + canon.Dump(q))
	}
	blob := usesKind(q, refpkg.KBlob)
	textNull := hasTextNull(q)

	// ------------------------------------------------ write side
	switch {
	case !d.libWrites:
	case textNull:
		r.Count("unjudged_text_null_write_side", 1)
	case !libCanExpress(q):
		r.Count("not_expressible_through_library_api", 1)
	default:
		x.writeSide(cs, d, blob)
	}

	// ------------------------------------------------ reference encoding -> library
	if d.serverSends {
		if blob {
			r.Count("unjudged_blob_reference_encoding", 1)
		} else {
			x.readSide(cs)
		}
	}
}

func (x *c06Runner) writeSide(cs pkgCase, d pkgDirs, blob bool) {
	r := x.r
	q := cs.Ref
	p, _, err := libPackage(q)
	if err != nil {
		r.Inconclusive("cannot build the library package for %s/%s/%s: %v", cs.Type, cs.Variant, cs.Opt, err)
		return
	}
	wantDump := expectedDump(p)
	W, werr, pi := libWrite(p)
	r.Eval(1)
	r.Count("cmp_write", 1)
	if pi != nil {
		r.Violate("panic/"+pi.Frame+"/"+cs.Type, fmt.Sprintf("WriteTo panicked: %s", pi.Value), x.rec(cs, nil))
		return
	}
	if werr != nil {
		if writeRefused(q, werr) {
			r.Count("write_refused_as_documented", 1)
			return
		}
		r.Violate(x.sig("write", cs, "error", true), fmt.Sprintf("WriteTo returned %v after writing %d bytes (%s)", werr, len(W), hexHead(W)), x.rec(cs, W))
		return
	}
	R := q.Encode()
	tok := R[0]
	dd, derr := refDecode(q, W)
	if len(W) == 0 || W[0] != tok || derr != nil || dd.Consumed != len(W) {
		// does W lack its token? (the first value byte may happen to equal it)
		if d2, e2 := refDecode(q, append([]byte{tok}, W...)); e2 == nil && d2.Consumed == len(W)+1 {
			r.Violate(x.sig("write", cs, "token-missing", false), fmt.Sprintf("W(p) = %s is the body of the token without the token byte 0x%02x; reference encoding %s", hexHead(W), tok, hexHead(R)), x.rec(cs, W))
			return
		}
		if len(W) == 0 || W[0] != tok {
			r.Violate(x.sig("write", cs, "token-wrong", false), fmt.Sprintf("W(p) = %s does not start with the token 0x%02x of %s; reference encoding %s", hexHead(W), tok, cs.Type, hexHead(R)), x.rec(cs, W))
			return
		}
	}

	// (2) + (4): reference decode of W
	badClass := "" // why W(p) is not a well-formed token, if it is not
	r.Eval(1)
	r.Count("cmp_length_fields", 1)
	if derr != nil {
		r.Violate(x.sig("ref-decode", cs, "malformed", true), fmt.Sprintf("the reference decoder cannot parse W(p) = %s: %v (reference encoding of the same value: %s)", hexHead(W), derr, hexHead(R)), x.rec(cs, W))
		badClass = "layout"
	} else {
		r.Count("length_fields_checked", int64(len(dd.Checks)))
		for _, lc := range dd.Checks {
			if !lc.OK() {
				badClass = "length-field"
				r.Violate(x.sig("write", cs, lc.Field+"-field", true), fmt.Sprintf("W(p) = %s: the %s field says %d, what follows it amounts to %d", hexHead(W), lc.Field, lc.Declared, lc.Actual), x.rec(cs, W))
			}
		}
		if dd.Consumed != len(W) {
			if badClass == "" {
				badClass = "layout"
			}
			r.Violate(x.sig("write", cs, "trailing-bytes", true), fmt.Sprintf("W(p) = %s has %d bytes, its structure ends after %d", hexHead(W), len(W), dd.Consumed), x.rec(cs, W))
		}
		// field recovery
		var got, want string
		if cq, ok := q.(refpkg.Capability); ok {
			got, want = refCapSets(dd.Pkg.(refpkg.Capability)), refCapSets(cq)
		} else {
			got, want = cdump(dd.Pkg), cdump(q)
		}
		r.Eval(1)
		r.Count("cmp_ref_decode", 1)
		if got != want {
			if d.clientSends {
				fld := "field:" + firstDiffField(got, want)
				if cs.Type == "CAPABILITY" {
					fld = "bit-positions"
				}
				r.Violate(x.sig("ref-decode", cs, fld, true), fmt.Sprintf("reference decode of W(p) = %s does not give p's fields: %s", hexHead(W), diffContext(got, want)), x.rec(cs, W))
			} else {
				r.Count("ref_decode_differs_on_server_only_type", 1)
			}
		}
	}

	// (1) write -> read
	if lo, ok := q.(refpkg.Logout); ok && lo.Options != 0 {
		r.Count("unjudged_logout_options_rejected_by_reader", 1)
		return
	}
	prev, err := freshPrev(q)
	if err != nil {
		r.Inconclusive("cannot build the preceding format: %v", err)
		return
	}
	rr := libRead(W, prev)
	r.Eval(1)
	r.Count("cmp_write_read", 1)
	if rr.Panic != nil {
		r.Violate("panic/"+rr.Panic.Frame+"/"+cs.Type, fmt.Sprintf("reading W(p) = %s back panicked: %s", hexHead(W), rr.Panic.Value), x.rec(cs, W))
		return
	}
	if _, isTokenless := rr.Pkg.(*tds.TokenlessPackage); isTokenless {
		r.Violate(x.sig("write-read", cs, "no-reader-for-token", false), fmt.Sprintf("LookupPackage(0x%02x) has no package for what the library wrote", W[0]), x.rec(cs, W))
		return
	}
	if rr.Err != nil {
		class := "read-error"
		switch {
		case badClass != "":
			class = badClass
		case rr.Stage == "lastpkg":
			class = "lastpkg-error"
		case isNotEnough(rr.Err):
			class = "wants-more-bytes"
		}
		if e, ok := q.(refpkg.ErrorMsg); ok && readOK(e.EncodeNoStateClass(), nil, "") {
			class = "state-class-not-read"
		}
		r.Violate(x.sig("write-read", cs, class, class != "state-class-not-read"), fmt.Sprintf("the library cannot read back what it wrote: W(p) = %s, ReadFrom: %v (consumed %d of %d)", hexHead(W), rr.Err, rr.Consumed, len(W)), x.rec(cs, W))
		return
	}
	if rr.Consumed != len(W) {
		class := "bytes-left-over"
		if badClass != "" {
			class = badClass
		}
		r.Violate(x.sig("write-read", cs, class, true), fmt.Sprintf("reading back W(p) = %s consumed %d of %d bytes", hexHead(W), rr.Consumed, len(W)), x.rec(cs, W))
		return
	}
	if got := pkgDump(rr.Pkg); got != wantDump {
		fld := "field:" + firstDiffField(got, wantDump)
		if cs.Type == "CAPABILITY" {
			fld = "bit-positions"
		}
		r.Violate(x.sig("write-read", cs, fld, true), fmt.Sprintf("reading back W(p) = %s gives another package: %s", hexHead(W), diffContext(got, wantDump)), x.rec(cs, W))
	}
	if e, ok := q.(refpkg.EED); ok && strings.HasSuffix(e.Msg, "\n") {
		r.Count("eed_trailing_newline_cases_compared_modulo_trim", 1)
	}
	_ = blob
}

// readOK reports whether the library reads b completely into a package whose
// dump is want ("" = any).
func readOK(b []byte, prev tds.Package, want string) bool {
	rr := libRead(b, prev)
	return rr.Panic == nil && rr.Err == nil && rr.Consumed == len(b) && (want == "" || pkgDump(rr.Pkg) == want)
}

func (x *c06Runner) readSide(cs pkgCase) {
	r := x.r
	q := cs.Ref
	R := q.Encode()
	var wantDump string
	if cq, ok := q.(refpkg.Capability); ok {
		wantDump = "CapabilityPackage{" + refCapSets(cq) + "}"
	} else {
		e, _, err := libPackage(q)
		if err != nil {
			r.Inconclusive("cannot build the expected library package for %s/%s/%s: %v", cs.Type, cs.Variant, cs.Opt, err)
			return
		}
		switch q.(type) {
		case refpkg.OrderBy, refpkg.OrderBy2:
			if acc, ok := e.(tds.LastPkgAcceptor); ok {
				acc.LastPkg(trivialRowFmt())
			}
		}
		wantDump = expectedDump(e)
	}
	prev, err := freshPrev(q)
	if err != nil {
		r.Inconclusive("cannot build the preceding format: %v", err)
		return
	}
	rr := libRead(R, prev)
	r.Eval(1)
	r.Count("cmp_ref_encode_read", 1)
	if rr.Panic != nil {
		r.Violate("panic/"+rr.Panic.Frame+"/"+cs.Type, fmt.Sprintf("reading the reference encoding %s panicked: %s", hexHead(R), rr.Panic.Value), x.rec(cs, R))
		return
	}
	ok := rr.Err == nil && rr.Consumed == len(R)
	var got string
	if ok {
		got = pkgDump(rr.Pkg)
		ok = got == wantDump
	}
	if ok {
		// simple-typed values: what arrived is the value the bytes mean
		if row, isRow := q.(refpkg.Row); isRow {
			x.rowValues(cs, row, rr.Pkg, R)
		}
		return
	}
	observed := fmt.Sprintf("ReadFrom: err=%v, consumed %d of %d", rr.Err, rr.Consumed, len(R))
	if rr.Err == nil && rr.Consumed == len(R) {
		observed = "decoded to other field values: " + diffContext(got, wantDump)
	}
	// name the two layouts a reader may have mixed up
	switch v := q.(type) {
	case refpkg.Format:
		if v.Tok == refpkg.TokRowFmt || v.Tok == refpkg.TokParamFmt {
			alt := v.EncodeLength32()
			p2, _ := freshPrev(q)
			if readOK(alt, p2, wantDump) {
				r.Violate(x.sig("ref-encode-read", cs, "narrow-length-width", false), fmt.Sprintf("reference %s %s (uint16 length) is not read (%s); the same columns framed with a uint32 length %s are read as expected: the reader takes a 4-byte length where TDS 5.0 has 2", cs.Type, hexHead(R), observed, hexHead(alt)), x.rec(cs, R))
				r.Count("narrow_format_read_through_length32_dialect", 1)
				return
			}
			// not (only) the width: say what the dialect read gives, per column type
			p3, _ := freshPrev(q)
			rr2 := libRead(alt, p3)
			if rr2.Panic == nil && (rr2.Err != nil || rr2.Consumed != len(alt) || pkgDump(rr2.Pkg) != wantDump) {
				obs2 := fmt.Sprintf("err=%v, consumed %d of %d", rr2.Err, rr2.Consumed, len(alt))
				if rr2.Err == nil && rr2.Consumed == len(alt) {
					obs2 = diffContext(pkgDump(rr2.Pkg), wantDump)
				}
				observed += "; with a uint32 length: " + obs2
			}
		}
	case refpkg.ErrorMsg:
		alt := v.EncodeNoStateClass()
		v0 := v
		v0.State, v0.Class = 0, 0
		e0, _, _ := libPackage(v0)
		if readOK(alt, nil, pkgDump(e0)) {
			r.Violate(x.sig("ref-encode-read", cs, "state-class-not-read", false), fmt.Sprintf("reference ERROR %s is not read (%s); the same token without the state and class bytes %s is read: the reader skips state and class", hexHead(R), observed, hexHead(alt)), x.rec(cs, R))
			return
		}
	}
	class := "field:" + firstDiffField(got, wantDump)
	if cs.Type == "CAPABILITY" {
		class = "bit-positions"
	}
	switch {
	case rr.Err != nil && rr.Stage == "lastpkg":
		class = "lastpkg-error"
	case rr.Err != nil && isNotEnough(rr.Err):
		class = "wants-more-bytes"
	case rr.Err != nil:
		class = "read-error"
	case rr.Consumed != len(R):
		class = "bytes-left-over"
	}
	withFocus := true
	if hasTextNull(q) {
		class, withFocus = "text-null", false
	}
	r.Violate(x.sig("ref-encode-read", cs, class, withFocus), fmt.Sprintf("reference encoding %s of %s: %s", hexHead(R), cs.Type, observed), x.rec(cs, R))
}

func (x *c06Runner) rowValues(cs pkgCase, row refpkg.Row, pkg tds.Package, R []byte) {
	var fields []tds.FieldData
	switch p := pkg.(type) {
	case *tds.ParamsPackage:
		fields = p.DataFields
	case *tds.RowPackage:
		fields = p.DataFields
	}
	for i, c := range row.Fmt.Cols {
		ti, _ := refpkg.LookupType(c.DataType)
		want, ok := expectGo(ti, row.Cells[i].Data)
		if !ok || i >= len(fields) {
			continue
		}
		x.r.Eval(1)
		x.r.Count("cmp_row_simple_values", 1)
		got := fields[i].Value()
		if cdump(got) != cdump(want) {
			x.r.Violate("ref-encode-read/"+cs.Type+"/value:"+ti.Name, fmt.Sprintf("column %d (%s) with value bytes % x decoded to %#v, want %#v", i, ti.Name, row.Cells[i].Data, got, want), x.rec(cs, R))
		}
	}
}

// ---------------------------------------------------------------- login record

type loginCase struct {
	Hostname string `json:"hostname"`
	Username string `json:"username"`
	Password string `json:"password"`
	HostProc string `json:"hostproc"`
	AppName  string `json:"appname"`
	ServName string `json:"servname"`
	Language string `json:"language"`
	CharSet  string `json:"charset"`
	Encrypt  uint16 `json:"encrypt"` // 0 = password in the record; TDS_MSG_SEC_ENCRYPT4 = negotiated later
	Label    string `json:"label"`
}

var loginFieldNames = []string{"hostname", "username", "password", "hostproc", "appname", "servname", "language", "charset"}

func (lc *loginCase) field(name string) *string {
	switch name {
	case "hostname":
		return &lc.Hostname
	case "username":
		return &lc.Username
	case "password":
		return &lc.Password
	case "hostproc":
		return &lc.HostProc
	case "appname":
		return &lc.AppName
	case "servname":
		return &lc.ServName
	case "language":
		return &lc.Language
	case "charset":
		return &lc.CharSet
	}
	return nil
}

// loginNegotiated: the password travels in the encrypted negotiation (and
// the record's slot stays empty) exactly when the configuration asks for
// the one negotiation the library implements. Any other message id in
// LoginConfig.Encrypt (the field accepts any TDSMsgId) is a login without
// negotiation, whose only way to transmit the password is the record.
func loginNegotiated(enc uint16) bool { return tds.TDSMsgId(enc) == tds.TDS_MSG_SEC_ENCRYPT4 }

func nominalLogin(enc uint16) loginCase {
	return loginCase{Hostname: "clienthost", Username: "sa_user", Password: "secret-pw", HostProc: "4711", AppName: "app", ServName: "ASESRV", Language: "us_english", CharSet: "utf8", Encrypt: enc}
}

type loginOutcome struct {
	LoginErr  error
	Stream    []byte // concatenated packet bodies written on channel 0
	Packets   int
	HeaderErr error
	Stuck     bool
}

// runLogin performs Channel.Login with the configuration on a Conn over the
// in-memory transport and returns what was written. The server's answer is
// queued beforehand so that Login returns by itself.
func runLogin(lc loginCase) (out loginOutcome) {
	tr := xport.New()
	ctx, cancel := context.WithCancel(context.Background())
	defer func() {
		cancel()
		tr.Close()
	}()
	info := &tds.Info{}
	info.Host, info.Port, info.Username, info.Password = "ASESRV", "5000", lc.Username, lc.Password
	info.Network = "tcp"
	info.PacketReadTimeout = 50
	info.ChannelPackageQueueSize = 100
	conn, err := tds.NewConnTransport(ctx, info, tr)
	if err != nil {
		out.LoginErr = fmt.Errorf("NewConnTransport: %w", err)
		out.Stuck = true
		return
	}
	ch, err := conn.NewChannel()
	if err != nil {
		out.LoginErr = fmt.Errorf("NewChannel: %w", err)
		out.Stuck = true
		return
	}
	cfg := &tds.LoginConfig{DSN: info, Hostname: lc.Hostname, HostProc: lc.HostProc, AppName: lc.AppName, ServName: lc.ServName,
		Language: lc.Language, CharSet: lc.CharSet, Encrypt: tds.TDSMsgId(lc.Encrypt)}
	// answer: LOGINACK(succeed) + DONE(final) for a clear-text login; a
	// failing LOGINACK otherwise (Login gives up after it, having written
	// its record)
	ack := refpkg.LoginAck{Status: 5, TDSVersion: [4]byte{5, 0, 0, 0}, ProgName: "srv", ProgVersion: [4]byte{16, 0, 0, 0}}
	if loginNegotiated(lc.Encrypt) {
		ack.Status = 6
	}
	body := append(ack.Encode(), refpkg.Done{Tok: refpkg.TokDone}.Encode()...)
	tr.Feed(xport.Packet(4, xport.EOM, 0, body))

	done := make(chan error, 1)
	lctx, lcancel := context.WithTimeout(ctx, 30*time.Second) // watchdog only
	defer lcancel()
	go func() {
		var e error
		if pi := rt.Catch(func() { e = ch.Login(lctx, cfg) }); pi != nil {
			e = fmt.Errorf("panic in Login: %s at %s", pi.Value, pi.Frame)
		}
		done <- e
	}()
	out.LoginErr = <-done
	if lctx.Err() != nil {
		out.Stuck = true
	}
	for _, w := range tr.Writes() {
		out.Stream = append(out.Stream, w.Data...)
	}
	// strip packet headers
	hs, bodies, herr := xport.SplitPackets(out.Stream)
	out.HeaderErr = herr
	out.Packets = len(hs)
	out.Stream = nil
	for _, b := range bodies {
		out.Stream = append(out.Stream, b...)
	}
	return out
}

func (x *c06Runner) loginCheck(lc loginCase) {
	r := x.r
	rec := c06CaseRec{Kind: "login", Login: &lc}
	r.Eval(1)
	r.Count("cmp_login", 1)
	r.SetAdd("package_types", "LOGIN")
	r.SetAdd("type_variant_option", "LOGIN/-/"+lc.Label)
	r.Distinct("LOGIN|" + canon.Dump(lc))
	out := runLogin(lc)
	if out.Stuck {
		r.Inconclusive("login case %s: %v", lc.Label, out.LoginErr)
		return
	}
	rec.Hex = hexHead(out.Stream)
	oversize := ""
	for _, n := range loginFieldNames {
		if n == "password" && loginNegotiated(lc.Encrypt) {
			continue // not part of the record when the password is negotiated
		}
		if len(*lc.field(n)) > 30 {
			oversize = n
			break
		}
	}
	if oversize != "" {
		r.Count("login_oversize_cases", 1)
		if len(out.Stream) != 0 {
			what := "written"
			if rc, err := refpkg.DecodeLogin(out.Stream); err == nil {
				f := rc.Fields[oversize]
				what = fmt.Sprintf("written with %s = %q (length byte %d)", oversize, f.Value, f.Len)
			}
			r.Violate("login/"+oversize+"/oversize-written", fmt.Sprintf("%s has %d bytes (maximum 30); Login returned %v and %d bytes went out, record %s", oversize, len(*lc.field(oversize)), out.LoginErr, len(out.Stream), what), rec)
		} else if out.LoginErr == nil {
			r.Violate("login/"+oversize+"/oversize-no-error", fmt.Sprintf("%s has %d bytes (maximum 30); Login returned nil", oversize, len(*lc.field(oversize))), rec)
		}
		return
	}
	if out.HeaderErr != nil || len(out.Stream) == 0 {
		r.Violate("login/record/not-written", fmt.Sprintf("valid configuration: Login returned %v, %d bytes written (packet parse: %v)", out.LoginErr, len(out.Stream), out.HeaderErr), rec)
		return
	}
	rc, err := refpkg.DecodeLogin(out.Stream)
	if err != nil {
		r.Violate("login/record/short", err.Error(), rec)
		return
	}
	want := map[string]string{"hostname": lc.Hostname, "username": lc.Username, "password": lc.Password, "hostproc": lc.HostProc,
		"appname": lc.AppName, "servname": lc.ServName, "language": lc.Language, "charset": lc.CharSet, "rempw": ""}
	if loginNegotiated(lc.Encrypt) {
		want["password"] = ""
	}
	for name, w := range want {
		f := rc.Fields[name]
		switch {
		case f.Len != len(w):
			r.Violate("login/"+name+"/length-byte", fmt.Sprintf("%s = %q (%d bytes): length byte at offset %d is %d; field bytes % x", name, w, len(w), f.Offset+f.Max, f.Len, f.Raw), rec)
		case f.Value != w:
			r.Violate("login/"+name+"/value", fmt.Sprintf("%s: bytes at offset %d are %q, want %q", name, f.Offset, f.Value, w), rec)
		case !f.PadOK:
			r.Violate("login/"+name+"/padding", fmt.Sprintf("%s: padding after %d bytes is not zero: % x", name, f.Len, f.Raw), rec)
		}
	}
	if !loginNegotiated(lc.Encrypt) && lc.Password != "" {
		r.Count("login_cleartext_password_records", 1)
	}
	for name, w := range refpkg.LittleEndianConstants {
		if got := rc.Bytes[name][0]; got != w {
			r.Violate("login/constant/"+name, fmt.Sprintf("l%s is %d, a little-endian client announces %d", name, got, w), rec)
		}
	}
	if got := rc.Bytes["tds"]; got[0] != 5 || got[1] != 0 {
		r.Violate("login/constant/tds-version", fmt.Sprintf("ltds is % x, want 05 00 .. ..", got), rec)
	}
	// what follows the record must start exactly at its end: the
	// capability token
	rest := out.Stream[refpkg.LoginRecordSize:]
	if len(rest) == 0 || rest[0] != refpkg.TokCapability {
		r.Violate("login/record/size", fmt.Sprintf("after %d bytes of login record the stream continues with %s, want the CAPABILITY token (0xe2): record shifted or of another size (stream has %d bytes)", refpkg.LoginRecordSize, hexHead(rest), len(out.Stream)), rec)
		return
	}
	dd, derr := refpkg.DecodeCapability(rest)
	if derr != nil || dd.Consumed != len(rest) {
		r.Violate("login/capability/malformed", fmt.Sprintf("capability token after the record %s: err=%v", hexHead(rest), derr), rec)
		return
	}
	for _, lcq := range dd.Checks {
		if !lcq.OK() {
			r.Violate("login/capability/length-field", fmt.Sprintf("capability token %s: %s says %d, %d follow", hexHead(rest), lcq.Field, lcq.Declared, lcq.Actual), rec)
		}
	}
	r.Sample("login", rec)
}

func genLoginCases(g genCtx) []loginCase {
	var out []loginCase
	rnd := g.rnd("login")
	for _, enc := range []uint16{0, uint16(tds.TDS_MSG_SEC_ENCRYPT4), uint16(tds.TDS_MSG_SEC_LOGPWD), uint16(tds.TDS_MSG_SEC_OPAQUE), 0xffff} {
		encLab := "cleartext"
		switch {
		case loginNegotiated(enc):
			encLab = "encrypt4"
		case enc != 0:
			encLab = fmt.Sprintf("cleartext-msgid-%d", enc)
		}
		lens := []int{}
		for l := 0; l <= 31; l++ {
			lens = append(lens, l)
		}
		if !g.quick {
			lens = append(lens, 32, 33, 64, 255, 256, 300)
		}
		for _, name := range loginFieldNames {
			for _, l := range lens {
				lc := nominalLogin(enc)
				*lc.field(name) = sfill(name[:3]+"_", l)
				lab := "len=0..30"
				if l > 30 {
					lab = "len>30"
				}
				lc.Label = encLab + "," + name + "," + lab
				out = append(out, lc)
			}
		}
		// values with multi-byte characters: the limits count bytes
		for _, name := range loginFieldNames {
			for _, v := range []string{"h\u00f4te", "\u00e4\u00f6\u00fc", strings.Repeat("\u00e9", 15), "x" + strings.Repeat("\u00e9", 15), strings.Repeat("\u00e9", 16), strings.Repeat("\u6771", 10), strings.Repeat("\u6771", 11), strings.Repeat("\U0001f600", 7), strings.Repeat("\U0001f600", 8)} {
				lc := nominalLogin(enc)
				*lc.field(name) = v
				lab := "multi-byte,len=0..30"
				if len(v) > 30 {
					lab = "multi-byte,len>30"
				}
				lc.Label = encLab + "," + name + "," + lab
				out = append(out, lc)
			}
		}
		// all fields at the same length
		for _, l := range []int{0, 1, 29, 30, 31} {
			lc := nominalLogin(enc)
			for _, name := range loginFieldNames {
				*lc.field(name) = sfill(name[:3]+"_", l)
			}
			lc.Label = fmt.Sprintf("%s,all-fields,len=%d", encLab, l)
			out = append(out, lc)
		}
		n := 100
		if !g.quick {
			n = 3000
		}
		for i := 0; i < n; i++ {
			lc := nominalLogin(enc)
			over := false
			for _, name := range loginFieldNames {
				l := rnd.Intn(31)
				if rnd.Chance(1, 40) {
					l = 31 + rnd.Intn(4)
					over = true
				}
				*lc.field(name) = sfill(name[:3]+"_", l)
			}
			lc.Label = encLab + ",random"
			if over {
				lc.Label += "-with-oversize"
			}
			out = append(out, lc)
		}
	}
	return out
}

// ---------------------------------------------------------------- main

func runC06(c *Ctx) {
	r := c.R
	r.Rule = "package values generated per type reachable from LookupPackage (plus CURCLOSE and OPTIONCMD, which have codecs but no LookupPackage entry), narrow and wide: every combination of optional parts, every string at lengths 0/1/max-1/max of its length prefix (one-byte prefixes at every length 0..255 in the thorough tier; where the token's outer length is itself 16 bit the maximum is what the outer length leaves), every single capability bit + seeded random subsets, format tokens over every data type x status bits, rows/params over every data type the library can decode, login configurations with each field at every length 0..31; non-trivial = at least one variable-length part non-empty; distinct = distinct (type, field values)"
	r.TrustedBase = []string{"harness/refpkg: reference encoder/decoder written from the TDS 5.0 specification (encoding/binary only)", "harness/canon: reflection dump", "harness/xport: in-memory transport and packet header codec (login record only)"}
	r.Assumptions = []string{
		"CURUPDATE: whether the statement block may be omitted when empty is not settled by the reference; the library's writer is compared with its reader only",
		"DYNAMIC/DYNAMIC2: the statement block (length + text) exists exactly for types with PREPARE or EXEC_IMMED (the specification calls it optional); the reference emits and expects it on that rule",
		"CURDECLARE/CURDECLARE3: the width of the column count (library: 2 bytes in both) is not judged against the specification; writer vs reader only",
		"BLOB (0x24) format and data layout are taken from the library's writer (uint8 length before the blob type; chunked data); only writer-vs-reader and length bookkeeping are judged for it, not the decode of a reference encoding",
		"TEXT/IMAGE/UNITEXT/XML values: a text pointer length of 0 means NULL and nothing else follows (as servers send and other clients read it)",
		"value semantics of individual data types belong to C04/C05: rows here use values chosen to be unproblematic and compare structure, byte accounting and the plain integer/float/string/binary values",
		"data types SINT1, INTERVAL, BOUNDARY, SENSITIVITY (value decoder answers 'unhandled data type') have no read direction for values: formats are exercised, rows are not",
		"LoginConfig.RemoteServers is never serialised into lrempw by pack(); not judged (remote passwords travel in the encrypted negotiation)",
		"LOGOUT options != 0 are rejected by the library's reader by design; judged by the reference decoder only",
		"EED message is compared modulo the single trailing newline the reader trims (packageEED.go: strings.TrimSuffix(msg, \"\\n\"))",
		"in-memory capability masks are compared as sets of capabilities per type (their bool-slice length depends on how the package was built)",
	}
	x := &c06Runner{c: c, r: r}
	if c.Replay != nil {
		var rec struct {
			Kind    string          `json:"kind"`
			Type    string          `json:"type"`
			Variant string          `json:"variant"`
			Opt     string          `json:"opt"`
			Ref     json.RawMessage `json:"ref"`
			Login   *loginCase      `json:"login"`
		}
		if err := json.Unmarshal(c.Replay, &rec); err != nil {
			r.Inconclusive("bad replay: %v", err)
			return
		}
		if rec.Kind == "login" && rec.Login != nil {
			x.loginCheck(*rec.Login)
			return
		}
		var cc c06ChainCase
		if json.Unmarshal(c.Replay, &cc) == nil && cc.Chain != "" {
			for _, resp := range catalogue() {
				if resp.Name == cc.Chain {
					c06ChainRun(c, resp)
				}
			}
			return
		}
		q, err := refFromJSON(rec.Type, rec.Ref)
		if err != nil {
			r.Inconclusive("bad replay: %v", err)
			return
		}
		x.check(pkgCase{Type: rec.Type, Variant: rec.Variant, Opt: rec.Opt, Ref: q})
		return
	}

	g := genCtx{quick: c.Quick(), seed: c.Seed}
	corpus := genCorpus(g)
	nRandom := 40
	if !c.Quick() {
		nRandom = 20000
	}
	for k, n := range corpusStats(corpus) {
		r.Count("cases:"+k, int64(n))
	}
	var unread []string
	for _, ti := range refpkg.Types {
		if unreadableTypes[ti.Code] {
			unread = append(unread, ti.Name)
		}
	}
	r.Note("data types without a value decoder (no rows generated): %v", unread)
	c.parallel(len(corpus), func(i int) {
		cs := corpus[i]
		if i%997 == 0 || (cs.Type == "EED" && strings.Contains(cs.Opt, "newline")) {
			if enc := cs.Ref.Encode(); len(enc) <= 2048 {
				r.Sample(cs.Type, c06CaseRec{Kind: "package", Type: cs.Type, Variant: cs.Variant, Opt: cs.Opt, Ref: cs.Ref, Hex: hexHead(enc)})
			}
		}
		x.check(cs)
	})
	// seeded random values, one of every type per batch
	c.parallel(nRandom, func(i int) {
		for _, cs := range genRandomOne(g, i) {
			x.check(cs)
		}
	})
	r.Count("random_batches", int64(nRandom))

	c06Rewrite(c, corpus)
	runC06Chains(c)

	logins := genLoginCases(g)
	c.parallel(len(logins), func(i int) { x.loginCheck(logins[i]) })
	r.Count("login_cases", int64(len(logins)))
}
