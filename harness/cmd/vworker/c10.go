package main

import (
	"encoding/binary"
	"encoding/hex"
	"encoding/json"
	"errors"
	"fmt"
	"regexp"
	"runtime/metrics"
	"strings"
	"syscall"

	"github.com/SAP/go-dblib/asetypes"
	"github.com/SAP/go-dblib/tds"

	"verif/harness/rt"
)

// C10 — no server input can crash the client.
//
// Events: (1) a panic on the parsing goroutine (recovered, innermost go-dblib
// frame), (2) death of a process whose reader goroutine parsed the input,
// (3) bytes allocated by ONE parse attempt (runtime/metrics
// /gc/heap/allocs:bytes before/after, single-goroutine process).
// Oracle: no panic, no process death, allocation of one attempt
// <= 4 MiB + 64 x (bytes available to the attempt). Returning an error is
// always fine.
//
// Legs (plans.py):
//   direct    byte strings parsed through a real tds.PacketQueue holding
//             exactly the bytes, with the package lookup / LastPkg wiring of
//             Channel.tryParsePackage. One goroutine per process (workers=1),
//             so every attempt is allocation-measured; parallelism = batches.
//   value     asetypes.DataType.GoValue for every type x length 0..255.
//   conn      the same byte strings in packets (+ raw header values) fed
//             through xport.Transport to a live Conn. The leg process is a
//             supervisor: it pipes cases to a `conn-child` process, and
//             restarts it after the case that killed it.
//   bigalloc  a handful of full-range (2^31, 2^32-1) declared lengths, serial.
//
// Files: c10.go (engine, monitors, replay), c10_corpus.go (valid encodings),
// c10_gen.go (workload generators), c10_conn.go (connection leg).

func init() { register("C10", runC10) }

const (
	c10AllocBase   = 4 << 20
	c10AllocFactor = 64
	c10LenCap      = 1 << 28 // hostile declared lengths are capped here outside the bigalloc leg
)

// c10Case is one input; it is also the replay format.
type c10Case struct {
	Leg  string `json:"leg"`            // direct | value | conn | bigalloc
	Kind string `json:"kind"`           // generator family / mutation kind
	Seed string `json:"seed,omitempty"` // name of the valid encoding it was derived from
	Pos  int    `json:"pos"`            // mutated position / enumeration index
	// direct, bigalloc: the byte stream (packages back to back: a format
	// package, if any, is simply the first package of the stream).
	Hex string `json:"hex,omitempty"`
	// conn: chunks handed to the transport (one Read each at most).
	Chunks []string `json:"chunks,omitempty"`
	// conn: after the reader went idle, send one LANGUAGE package (the
	// client's next request) on the worker goroutine.
	PostSend bool `json:"post_send,omitempty"`
	// direct: parse with the exported package types LookupPackage never
	// returns (CURCLOSE, OPTIONCMD, KEY, CONTROL) instead of LookupPackage
	Unrouted bool `json:"unrouted,omitempty"`
	// value leg
	DataType  int  `json:"data_type,omitempty"`
	BigEndian bool `json:"big_endian,omitempty"`
}

func (cs *c10Case) bytes() []byte {
	b, _ := hex.DecodeString(cs.Hex)
	return b
}

// ------------------------------------------------------------ alloc monitor

var c10AllocSample = []metrics.Sample{{Name: "/gc/heap/allocs:bytes"}}

func c10Allocs() uint64 {
	metrics.Read(c10AllocSample)
	return c10AllocSample[0].Value.Uint64()
}

func c10Bound(avail int) uint64 { return uint64(c10AllocBase) + uint64(c10AllocFactor)*uint64(avail) }

// ------------------------------------------------------------ parse engine

// c10Attempt is what one parse attempt (token byte, LookupPackage, LastPkg,
// ReadFrom — what Channel.tryParsePackage does) produced.
type c10Attempt struct {
	Start  int    // offset of the token byte in the stream
	Avail  int    // bytes available to the attempt (token byte included)
	Token  byte   // token byte
	Name   string // token name ("TOKENLESS" for tokens LookupPackage does not know)
	Class  string // ok | not-enough-bytes | other-error | lastpkg-error | panic
	Err    error
	Panic  *rt.PanicInfo
	Alloc  uint64
	Pkg    tds.Package
	Last   tds.Package // lastPkgRx at the time of the attempt
	Routed bool        // false: package type LookupPackage never returns (parsed via c10Unrouted)
}

func c10Queue(b []byte) *tds.PacketQueue {
	q := tds.NewPacketQueue(func() int { return 512 })
	p := &tds.Packet{Data: b}
	p.Header.Length = uint16(8 + len(b))
	p.Header.Status = tds.TDS_BUFSTAT_EOM
	q.AddPacket(p)
	return q
}

// c10QueueOpen is c10Queue without the end-of-message status on the packet.
func c10QueueOpen(b []byte) *tds.PacketQueue {
	q := tds.NewPacketQueue(func() int { return 512 })
	p := &tds.Packet{Data: b}
	p.Header.Length = uint16(8 + len(b))
	q.AddPacket(p)
	return q
}

func c10TokenName(tok byte, pkg tds.Package) string {
	if _, ok := pkg.(*tds.TokenlessPackage); ok {
		return "TOKENLESS"
	}
	s := tds.Token(tok).String()
	return strings.TrimPrefix(s, "TDS_")
}

// c10Unrouted: exported Package implementations that LookupPackage never
// returns (a server cannot reach them through Channel); parsed only in the
// "unrouted" family of the direct leg and named as such in signatures.
func c10Unrouted(tok byte, sub byte) tds.Package {
	switch tds.Token(tok) {
	case tds.TDS_CURCLOSE:
		return &tds.CurClosePackage{}
	case tds.TDS_OPTIONCMD:
		return &tds.OptionCmdPackage{}
	case tds.TDS_KEY:
		return &tds.KeyPackage{DataType: asetypes.DataType(sub)}
	case tds.TDS_CONTROL:
		return &tds.ControlPackage{}
	}
	return nil
}

// c10Offset is the flat offset of a single-packet queue.
func c10Offset(q tds.BytesChannel, total int) int {
	pi, di := q.Position()
	if pi > 0 {
		return total
	}
	return di
}

// c10ParseStream parses b the way Channel.WritePacket does for one EOM
// packet: attempts until one fails or the bytes are used up. ch wraps the
// real queue for the length-capping shadow pass; nil = the real queue only.
// unrouted: first byte selects a c10Unrouted package; b[1] is its sub type
// for KEY.
func c10ParseStream(b []byte, measure bool, wrap func(*tds.PacketQueue) tds.BytesChannel, unrouted bool, visit func(*c10Attempt)) {
	q := c10Queue(b)
	if len(b)%2 == 1 {
		// every other input arrives in a packet WITHOUT the end-of-message
		// status (a first or middle packet of a longer response): what a
		// parser may allocate must not depend on more packets being possible
		q = c10QueueOpen(b)
	}
	var ch tds.BytesChannel = q
	if wrap != nil {
		ch = wrap(q)
	}
	var last tds.Package
	for step := 0; step < 4096; step++ {
		if q.AllPacketsConsumed() {
			return
		}
		at := &c10Attempt{Last: last, Routed: !unrouted}
		_, di := q.Position()
		at.Start = di
		at.Avail = len(b) - at.Start
		var a0 uint64
		if measure {
			a0 = c10Allocs()
		}
		at.Panic = rt.Catch(func() {
			tok, err := ch.Byte()
			if err != nil {
				at.Class, at.Err = "not-enough-bytes", err
				return
			}
			at.Token = tok
			var pkg tds.Package
			if unrouted {
				sub := byte(0)
				if tds.Token(tok) == tds.TDS_KEY {
					sub, err = ch.Byte()
					if err != nil {
						at.Class, at.Err = "not-enough-bytes", err
						return
					}
				}
				pkg = c10Unrouted(tok, sub)
				if pkg == nil {
					at.Class, at.Err = "other-error", errors.New("no unrouted package")
					return
				}
				at.Name = strings.TrimPrefix(tds.Token(tok).String(), "TDS_") + "(unrouted)"
			} else {
				pkg, err = tds.LookupPackage(tds.Token(tok))
				if err != nil {
					at.Class, at.Err = "other-error", err
					return
				}
				at.Name = c10TokenName(tok, pkg)
				if tl, ok := pkg.(*tds.TokenlessPackage); ok {
					tl.Data.WriteByte(tok)
				}
			}
			at.Pkg = pkg
			if acc, ok := pkg.(tds.LastPkgAcceptor); ok {
				if err := acc.LastPkg(last); err != nil {
					at.Class, at.Err = "lastpkg-error", err
					return
				}
			}
			if err := pkg.ReadFrom(ch); err != nil {
				at.Err = err
				if errors.Is(err, tds.ErrNotEnoughBytes) {
					at.Class = "not-enough-bytes"
				} else {
					at.Class = "other-error"
				}
				return
			}
			at.Class = "ok"
		})
		if measure {
			at.Alloc = c10Allocs() - a0
		}
		if at.Panic != nil {
			at.Class = "panic"
			if at.Name == "" {
				at.Name = "TOKEN-READ"
			}
		}
		if at.Name == "" {
			at.Name = "TOKEN-READ"
		}
		visit(at)
		if at.Class != "ok" {
			return
		}
		// handleSpecialPackage: env changes and EED(INFO) are swallowed
		// and do not become lastPkgRx
		switch p := at.Pkg.(type) {
		case *tds.EnvChangePackage:
		case *tds.EEDPackage:
			if p.Status&tds.TDS_EED_INFO != tds.TDS_EED_INFO {
				last = at.Pkg
			}
		default:
			last = at.Pkg
		}
		// DiscardUntilCurrentPosition, as WritePacket does. With a single
		// queued packet the data index stays the flat offset: a partly used
		// packet is kept, a used-up one is dropped (queue empty).
		q.DiscardUntilCurrentPosition()
	}
}

// ------------------------------------------------------------ length capping

// c10Tracer delegates to the real queue but refuses byte requests above the
// cap, remembering where the 32-bit value that led to the request was read.
// It is used ONLY to rewrite generated inputs so that no believed 32-bit
// length exceeds 2^28 (DESIGN.md 3.6); verdicts come from a second pass over
// the rewritten input on the bare PacketQueue.
type c10Tracer struct {
	*tds.PacketQueue
	total   int
	lastU32 int
	over    []int // offsets of 32-bit values that led to a request above the cap
	big     []int // ... to a request of more than 1 MiB that the queued bytes do not cover
}

func (t *c10Tracer) Uint32() (uint32, error) {
	t.lastU32 = c10Offset(t.PacketQueue, t.total)
	return t.PacketQueue.Uint32()
}

func (t *c10Tracer) Int32() (int32, error) {
	t.lastU32 = c10Offset(t.PacketQueue, t.total)
	return t.PacketQueue.Int32()
}

func (t *c10Tracer) note(n int) bool {
	if n > c10LenCap {
		t.over = append(t.over, t.lastU32)
		return true
	}
	if n > 1<<20 && n > t.total-c10Offset(t.PacketQueue, t.total) {
		t.big = append(t.big, t.lastU32)
	}
	return false
}

func (t *c10Tracer) Bytes(n int) ([]byte, error) {
	if t.note(n) {
		return nil, tds.ErrNotEnoughBytes
	}
	if n > 1<<20 {
		// the shadow pass does not need the allocation either
		return nil, tds.ErrNotEnoughBytes
	}
	return t.PacketQueue.Bytes(n)
}

func (t *c10Tracer) String(n int) (string, error) {
	if t.note(n) || n > 1<<20 {
		return "", tds.ErrNotEnoughBytes
	}
	return t.PacketQueue.String(n)
}

// c10Damp is the cost control of the direct leg on a tree that believes
// declared lengths: once c10DampAfter allocation violations were recorded in
// this process for one (token, seed encoding) pair, further inputs of that
// pair get their unbacked 32-bit lengths rewritten below 64 KiB, i.e. they
// stop exercising the (already reported) over-allocation and only cost a
// parse. On a tree that does not over-allocate nothing is ever damped.
type c10Damp map[string]int

const c10DampAfter = 48

// c10Cap rewrites b in place until no parse believes a 32-bit length above
// 2^28. Returns the number of rewritten fields.
func c10Cap(b []byte, unrouted bool, damp c10Damp, seed string) int {
	patched := 0
	for round := 0; round < 16; round++ {
		var tr *c10Tracer
		type span struct {
			start int
			name  string
		}
		var atts []span
		c10ParseStream(b, false, func(q *tds.PacketQueue) tds.BytesChannel {
			tr = &c10Tracer{PacketQueue: q, total: len(b), lastU32: -1}
			return tr
		}, unrouted, func(at *c10Attempt) { atts = append(atts, span{at.Start, at.Name}) })
		if tr == nil || (len(tr.over) == 0 && (len(tr.big) == 0 || damp == nil)) {
			return patched
		}
		damped := func(off int) bool {
			if damp == nil {
				return false
			}
			name := ""
			for _, a := range atts {
				if a.start <= off {
					name = a.name
				}
			}
			return damp[name+"|"+seed] >= c10DampAfter
		}
		progress := false
		rewrite := func(off int, over bool) {
			if off < 0 || off+4 > len(b) {
				return
			}
			v := binary.LittleEndian.Uint32(b[off:])
			var nv uint32
			switch {
			case damped(off):
				nv = v&0x7fff | 0x8000
			case over:
				// rewritten into [2^22, 2^24): still far beyond what is
				// available (and beyond the allocation bound), at a
				// sixteenth of the memory traffic of 2^28. The explicit
				// 2^28 of the window mutations is not above the cap and
				// stays.
				nv = v&0x00ffffff | 0x00400000
			default:
				return
			}
			if nv != v {
				binary.LittleEndian.PutUint32(b[off:], nv)
				patched++
				progress = true
			}
		}
		for _, off := range tr.over {
			rewrite(off, true)
		}
		for _, off := range tr.big {
			rewrite(off, false)
		}
		if !progress {
			return patched
		}
	}
	return patched
}

// ------------------------------------------------------------ labels

// c10Fmts returns the column formats a ROW/PARAMS package would use.
func c10DataFields(pkg tds.Package) []tds.FieldData {
	switch p := pkg.(type) {
	case *tds.RowPackage:
		return p.DataFields
	case *tds.ParamsPackage:
		return p.DataFields
	}
	return nil
}

// c10Culprit re-runs a failed ROW/PARAMS attempt field by field and returns
// the data type of the field that panicked (wantPanic) or allocated most.
func c10Culprit(b []byte, at *c10Attempt, wantPanic bool) string {
	if at.Start+1 > len(b) {
		return ""
	}
	pkg, err := tds.LookupPackage(tds.Token(at.Token))
	if err != nil {
		return ""
	}
	acc, ok := pkg.(tds.LastPkgAcceptor)
	if !ok {
		return ""
	}
	if rt.Catch(func() { err = acc.LastPkg(at.Last) }) != nil || err != nil {
		return ""
	}
	fields := c10DataFields(pkg)
	if fields == nil {
		return ""
	}
	q := c10Queue(b[at.Start+1:])
	best, bestAlloc := "", uint64(0)
	for _, f := range fields {
		a0 := c10Allocs()
		var ferr error
		pi := rt.Catch(func() { _, ferr = f.ReadFrom(q) })
		d := c10Allocs() - a0
		name := f.Format().DataType().String()
		if pi != nil {
			if wantPanic {
				return name
			}
			return best
		}
		if d > bestAlloc {
			best, bestAlloc = name, d
		}
		if ferr != nil {
			break
		}
	}
	if wantPanic {
		return ""
	}
	return best
}

var c10FieldErrRe = regexp.MustCompile(`reading param field \d+ data \(([A-Z0-9_]+)\)`)

// c10Label names what a violation is grouped by: the data type of the field
// for ROW/PARAMS (when it can be determined), else the token name.
func c10Label(b []byte, at *c10Attempt, wantPanic bool) (label string, isField bool) {
	if at.Routed && (tds.Token(at.Token) == tds.TDS_ROW || tds.Token(at.Token) == tds.TDS_PARAMS) {
		// ParamsPackage.ReadFrom names the failing field's type in its
		// error; that saves repeating a large allocation
		if !wantPanic && at.Err != nil {
			if m := c10FieldErrRe.FindStringSubmatch(at.Err.Error()); m != nil {
				return m[1], true
			}
		}
		if dt := c10Culprit(b, at, wantPanic); dt != "" {
			return dt, true
		}
	}
	return at.Name, false
}

// ------------------------------------------------------------ direct case

type c10DirectObs struct {
	Attempts int
	Classes  []string // token:class per attempt
	Vio      []rt.Violation
	AllOK    bool
	MaxAlloc uint64
	// AllocVio names the attempts (token names) that broke the allocation bound
	AllocVio []string
}

// c10RunDirect executes one direct/bigalloc case on the calling goroutine.
// measure requires that no other goroutine allocates.
func c10RunDirect(r *rt.Result, cs *c10Case, measure bool) c10DirectObs {
	b := cs.bytes()
	unrouted := cs.Unrouted
	obs := c10DirectObs{AllOK: true}
	c10ParseStream(b, measure, nil, unrouted, func(at *c10Attempt) {
		obs.Attempts++
		obs.Classes = append(obs.Classes, at.Name+":"+at.Class)
		if at.Class != "ok" {
			obs.AllOK = false
		}
		if at.Alloc > obs.MaxAlloc {
			obs.MaxAlloc = at.Alloc
		}
		switch {
		case at.Panic != nil:
			label, _ := c10Label(b, at, true)
			sig := "panic/" + at.Panic.Frame + "/" + label
			obs.Vio = append(obs.Vio, rt.Violation{Sig: sig, Case: cs,
				Detail: fmt.Sprintf("parse attempt for token 0x%02x (%s) at offset %d of %x panicked: %s\ninnermost go-dblib frame: %s\nexpected: a value or an error\n%s",
					at.Token, at.Name, at.Start, b, at.Panic.Value, at.Panic.Frame, c10TrimStack(at.Panic.Stack))})
		case measure && at.Alloc > c10Bound(at.Avail):
			// a borderline excess is confirmed by measuring the same
			// attempt once more; a gross one (this process has a single
			// allocating goroutine) is not repeated
			again := at.Alloc
			if at.Alloc < 2*c10Bound(at.Avail) {
				again = c10Remeasure(b, at, unrouted)
				if again <= c10Bound(at.Avail) {
					r.Count("alloc_unconfirmed", 1)
					break
				}
			}
			label, isField := c10Label(b, at, false)
			sig := "alloc/" + label + "/declared-length"
			if isField {
				sig = "alloc/field/" + label + "-length"
			}
			obs.AllocVio = append(obs.AllocVio, at.Name)
			obs.Vio = append(obs.Vio, rt.Violation{Sig: sig, Case: cs,
				Detail: fmt.Sprintf("parse attempt for token 0x%02x (%s) at offset %d with %d bytes available allocated %d bytes (re-measured: %d); bound 4 MiB + 64 x %d = %d; outcome of the attempt: %s (%v); input %x",
					at.Token, at.Name, at.Start, at.Avail, at.Alloc, again, at.Avail, c10Bound(at.Avail), at.Class, at.Err, c10Head(b, 96))})
		}
		// the Stringer is part of the Package interface; not a parser, so
		// counted, not judged
		if at.Class == "ok" && at.Pkg != nil {
			if pi := rt.Catch(func() { _ = at.Pkg.String() }); pi != nil {
				r.Count("string_method_panics", 1)
				r.SetAdd("string_method_panic_sites", at.Name+"@"+pi.Frame)
			}
		}
	})
	return obs
}

// c10Remeasure repeats the attempt that starts at at.Start in isolation.
func c10Remeasure(b []byte, at *c10Attempt, unrouted bool) uint64 {
	// replay the stream up to and including the attempt; the attempt with
	// the same Start is the one to read off
	var got uint64
	c10ParseStream(b, true, nil, unrouted, func(a *c10Attempt) {
		if a.Start == at.Start {
			got = a.Alloc
		}
	})
	return got
}

func c10Head(b []byte, n int) []byte {
	if len(b) > n {
		return b[:n]
	}
	return b
}

func c10TrimStack(st string) string {
	lines := strings.Split(st, "\n")
	var out []string
	for i := 0; i < len(lines); i++ {
		l := lines[i]
		if strings.HasPrefix(l, "github.com/SAP/go-dblib") || strings.HasPrefix(l, "panic(") || strings.HasPrefix(l, "runtime.") {
			out = append(out, l)
			if i+1 < len(lines) {
				out = append(out, lines[i+1])
				i++
			}
		}
		if len(out) > 24 {
			break
		}
	}
	return strings.Join(out, "\n")
}

// c10Account books one executed direct case into the result.
func c10Account(r *rt.Result, cs *c10Case, obs c10DirectObs, nontrivial bool) {
	r.Eval(1)
	r.Count("inputs_"+cs.Leg, 1)
	r.Count("parse_attempts", int64(obs.Attempts))
	r.Max("max_alloc_one_attempt", int64(obs.MaxAlloc))
	for _, c := range obs.Classes {
		r.SetAdd("outcome_classes", c)
	}
	if nontrivial {
		r.Distinct(cs.Leg + "|" + cs.Seed + "|" + cs.Kind + "|" + fmt.Sprint(cs.Pos))
	}
	r.SetAdd("families", cs.Leg+":"+cs.Kind)
	for _, v := range obs.Vio {
		r.Violate(v.Sig, v.Detail, v.Case)
	}
}

// ------------------------------------------------------------ value leg

func c10RunValue(r *rt.Result, cs *c10Case) {
	b := cs.bytes()
	dt := asetypes.DataType(cs.DataType)
	var order binary.ByteOrder = binary.LittleEndian
	if cs.BigEndian {
		order = binary.BigEndian
	}
	var err error
	pi := rt.Catch(func() { _, err = dt.GoValue(order, b) })
	r.Eval(1)
	r.Count("inputs_value", 1)
	class := "ok"
	switch {
	case pi != nil:
		class = "panic"
	case err != nil:
		class = "other-error"
	}
	r.SetAdd("outcome_classes", "GoValue("+dt.String()+"):"+class)
	if pi != nil {
		r.Violate("panic/"+pi.Frame+"/"+dt.String(),
			fmt.Sprintf("DataType(0x%02x = %s).GoValue(%v, %x) [%d bytes] panicked: %s\ninnermost go-dblib frame: %s\nexpected: a value or an error\n%s",
				cs.DataType, dt, order, b, len(b), pi.Value, pi.Frame, c10TrimStack(pi.Stack)), cs)
	}
}

func runC10Value(c *Ctx) {
	r := c.R
	pats := []string{"zeros", "ff", "ramp", "random"}
	n := 0
	for dt := 0; dt < 256; dt++ {
		for l := 0; l < 256; l++ {
			for pi, pat := range pats {
				for _, be := range []bool{false, true} {
					if n++; (n-1)%c.Batches != c.Batch {
						continue
					}
					b := make([]byte, l)
					switch pat {
					case "ff":
						for i := range b {
							b[i] = 0xff
						}
					case "ramp":
						for i := range b {
							b[i] = byte(i + 1)
						}
					case "random":
						b = rt.NewRand(c.Seed, fmt.Sprintf("c10/value/%d/%d", dt, l)).Bytes(l)
					}
					cs := &c10Case{Leg: "value", Kind: pat, Pos: l, DataType: dt, BigEndian: be, Hex: hex.EncodeToString(b)}
					c10RunValue(r, cs)
					// non-trivial: a length the type does not define
					// (fixed-size types: any other length; all: > 0)
					if sz := asetypes.DataType(dt).ByteSize(); sz == -1 || sz != l {
						r.DistinctN(1)
					}
					if dt == int(asetypes.DATETIMEN) && l == 5 && pi == 2 && !be {
						r.Sample("value", cs)
					}
				}
			}
		}
	}
}

// ------------------------------------------------------------ entry

// c10LimitAS sets the soft address-space limit of this process. A tree that
// sizes an allocation from a 32-bit wire value the generators cannot cap
// (anything that does not go through BytesChannel.Bytes/String) then dies
// with "fatal error: out of memory" — attributed through the last CASE line —
// instead of driving the machine into the OOM killer. Only the soft limit is
// set, so that child processes can choose their own.
func c10LimitAS(gib uint64) {
	var l syscall.Rlimit
	if err := syscall.Getrlimit(syscall.RLIMIT_AS, &l); err != nil {
		return
	}
	if v := gib << 30; v <= l.Max {
		l.Cur = v
		syscall.Setrlimit(syscall.RLIMIT_AS, &l)
	}
}

func runC10(c *Ctx) {
	r := c.R
	c10LimitAS(10)
	if c.Leg == "conn-child" {
		c10ConnChild(c)
		return
	}
	if c.Leg == "state" {
		runC10State(c)
		return
	}
	if c.Leg == "retain" {
		runC10Retain(c)
		return
	}
	r.Rule = "direct: byte strings parsed through a real tds.PacketQueue with tryParsePackage's lookup/LastPkg wiring — valid encodings of every package (library-written and hand-written) with every byte position replaced by {0,1,0x7f,0x80,0xff}, every 2/4-byte window by {0xffff,0x8000 | 0xffff,2^24,2^28}, seeded random windows, every truncation, every bit flip, every token 0..255 + random tails, formats over every data type + random / length-swept row bytes; value: every DataType x length 0..255 x 4 patterns x 2 byte orders; conn: the same strings in packets plus raw header values through a live Conn. non-trivial = the input differs from every valid encoding (value leg: a length the type does not define); distinct = (leg, seed encoding, mutation kind, position)"
	r.TrustedBase = []string{"hand-written TDS encoders in c10_corpus.go (only used to produce inputs; a wrong encoder yields an input that is merely counted as rejected)", "runtime/metrics /gc/heap/allocs:bytes", "harness/xport transport and header codec"}
	r.Assumptions = []string{
		"one parse attempt = token byte + LookupPackage + LastPkg + ReadFrom, as in Channel.tryParsePackage; bytes available = bytes from the token byte to the end of the queued data",
		"declared 32-bit lengths above 2^28 are rewritten into [2^22, 2^24) outside the bigalloc leg (so that a tree that believes them costs memory bandwidth, not an OOM); the explicit window value 2^28 stays",
		"cost control on a tree that over-allocates: after 48 recorded allocation violations for one (token, seed encoding) pair in a process, further inputs of that pair get their unbacked 32-bit lengths rewritten below 64 KiB (counter alloc_damped_pairs); a tree that does not over-allocate is never damped",
		"Package.String() is not a parser: panics there are counted (string_method_panics), not judged",
		"a reader that spins or blocks for ever is not a crash: the conn leg's watchdog reports it as inconclusive, and the generators avoid the one known way to get there (header length < 8 followed by >= 65528 bytes)",
	}
	if c.Replay != nil {
		var cs c10Case
		if err := json.Unmarshal(c.Replay, &cs); err != nil {
			r.Inconclusive("bad replay: %v", err)
			return
		}
		if cs.Leg == "" {
			cs.Leg = c.Leg
		}
		switch cs.Leg {
		case "state":
			runC10State(c)
		case "value":
			c10RunValue(r, &cs)
		case "conn":
			c10ConnSupervise(c, []*c10Case{&cs})
		case "bigalloc":
			c10Supervise(c, []*c10Case{&cs}, true, func(cs *c10Case, res *c10ConnRes) {
				for _, v := range res.Vio {
					r.Violate(v.Sig, v.Detail, cs)
				}
				r.Eval(1)
				fmt.Println("attempts:", res.Classes, "max alloc", res.Alloc)
			})
		default:
			obs := c10RunDirect(r, &cs, true)
			c10Account(r, &cs, obs, true)
			for _, cl := range obs.Classes {
				fmt.Println("attempt:", cl)
			}
		}
		return
	}
	switch c.Leg {
	case "", "direct":
		runC10Direct(c)
	case "value":
		runC10Value(c)
	case "conn":
		runC10Conn(c)
	case "bigalloc":
		runC10BigAlloc(c)
	default:
		r.Inconclusive("C10: unknown leg %q", c.Leg)
	}
}
