package main

import (
	"bytes"
	"fmt"

	"github.com/SAP/go-dblib/tds"

	"verif/harness/refpkg"
	"verif/harness/rt"
)

// C06, second-write leg: "reading back what it wrote reproduces the
// package's serialised fields" also has to hold for a package object that
// is written more than once, and - where the API allows changing the package
// between two writes (capability setters) - for the state it has at the time
// of the write.

func c06Rewrite(c *Ctx, corpus []pkgCase) {
	r := c.R
	// (a) writing the same object twice yields the same serialised value
	c.parallel(len(corpus), func(i int) {
		cs := corpus[i]
		d := dirsOf(cs.Type)
		if !d.libWrites || usesKind(cs.Ref, refpkg.KBlob) || hasTextNull(cs.Ref) || !libCanExpress(cs.Ref) {
			return
		}
		p, _, err := libPackage(cs.Ref)
		if err != nil {
			return
		}
		W1, e1, p1 := libWrite(p)
		W2, e2, p2 := libWrite(p)
		if p1 != nil || p2 != nil || e1 != nil || e2 != nil {
			return // the first-write leg reports writer errors
		}
		r.Eval(1)
		r.Count("cmp_second_write", 1)
		same := bytes.Equal(W1, W2)
		if !same && cs.Type == "CAPABILITY" {
			// the order of capability types on the wire is not fixed (map); compare as sets
			d1, x1 := refpkg.DecodeCapability(W1)
			d2, x2 := refpkg.DecodeCapability(W2)
			same = x1 == nil && x2 == nil && refCapSets(d1.Pkg.(refpkg.Capability)) == refCapSets(d2.Pkg.(refpkg.Capability))
		}
		if !same {
			r.Violate("second-write/"+cs.Type+"/differs-from-first", fmt.Sprintf("writing the same %s object twice gave %s and then %s", cs.Type, hexHead(W1), hexHead(W2)), c06CaseRec{Kind: "package", Type: cs.Type, Variant: cs.Variant, Opt: cs.Opt, Ref: cs.Ref, Hex: hexHead(W1)})
		}
	})
	// (b) capability package changed through its setters between two writes
	n := 200
	if !c.Quick() {
		n = 20000
	}
	c.parallel(n, func(i int) {
		rnd := rt.NewRand(c.Seed, fmt.Sprintf("c06/rewrite/%d", i))
		set := func(max, k int) map[int]bool {
			m := map[int]bool{}
			for j := 0; j < k; j++ {
				m[rnd.Intn(max)] = true
			}
			return m
		}
		maxReq, maxRes := int(tds.TDS_REQ_COMMAND_ENCRYPTION)+1, int(tds.TDS_RES_DR_NOKILL)+1
		reqA, resA := set(maxReq, rnd.Range(1, 20)), set(maxRes, rnd.Range(1, 8))
		var req []tds.RequestCapability
		var res []tds.ResponseCapability
		for b := range reqA {
			req = append(req, tds.RequestCapability(b))
		}
		for b := range resA {
			res = append(res, tds.ResponseCapability(b))
		}
		p, err := tds.NewCapabilityPackage(req, res, nil)
		if err != nil {
			return
		}
		if _, err, pi := libWrite(p); err != nil || pi != nil {
			return
		}
		// change the package: toggle a few capabilities
		want := map[uint8]map[int]bool{1: {}, 2: {}}
		for b := range reqA {
			want[1][b] = true
		}
		for b := range resA {
			want[2][b] = true
		}
		for j := rnd.Range(1, 6); j > 0; j-- {
			if rnd.Bool() {
				b := rnd.Intn(maxReq)
				on := !want[1][b]
				if p.SetRequestCapability(tds.RequestCapability(b), on) == nil {
					want[1][b] = on
				}
			} else {
				b := rnd.Intn(maxRes)
				on := !want[2][b]
				if p.SetResponseCapability(tds.ResponseCapability(b), on) == nil {
					want[2][b] = on
				}
			}
		}
		W, err, pi := libWrite(p)
		if err != nil || pi != nil {
			return
		}
		r.Eval(1)
		r.Count("cmp_capability_rewrite", 1)
		dd, derr := refpkg.DecodeCapability(W)
		rec := c06CaseRec{Kind: "package", Type: "CAPABILITY", Variant: "narrow", Opt: "changed-between-two-writes", Hex: hexHead(W)}
		if derr != nil {
			r.Violate("second-write/CAPABILITY/undecodable", derr.Error(), rec)
			return
		}
		got := map[uint8]map[int]bool{1: {}, 2: {}}
		for _, m := range dd.Pkg.(refpkg.Capability).Masks {
			for _, b := range refpkg.BitsOf(m.Mask) {
				if got[m.Type] == nil {
					got[m.Type] = map[int]bool{}
				}
				got[m.Type][b] = true
			}
		}
		for typ := uint8(1); typ <= 2; typ++ {
			for b := 0; b < 108; b++ {
				if got[typ][b] != want[typ][b] {
					r.Violate("second-write/CAPABILITY/does-not-reflect-the-package", fmt.Sprintf("after a first write the package was changed through its setters; the second write carries capability %d of type %d as %v, the package has it as %v (%s)", b, typ, got[typ][b], want[typ][b], hexHead(W)), rec)
					return
				}
			}
		}
		r.Distinct(fmt.Sprintf("caprewrite|%d", i))
	})
}
