package main

// Value domains shared by C04 and C05 (DESIGN.md C04 "W"). The case list is
// a function of (tier, seed) only.

import (
	"fmt"
	"math"
	"math/big"
	"os"
	"runtime/pprof"
	"sort"
	"time"

	"verif/harness/refdata"
	"verif/harness/rt"
)

// dtVisit is called for every (variant, value); pk says whether the package
// legs are to be run for this case as well (always on the small domains,
// strided on the enumerations of ticks and days).
type dtVisit func(acc *dtAcc, vr *dtVariant, v *dtVal, pk bool)

type dtWork func(acc *dtAcc)

func dtUniq64(l []uint64) []uint64 {
	sort.Slice(l, func(i, j int) bool { return l[i] < l[j] })
	out := l[:0]
	for i, x := range l {
		if i == 0 || x != l[i-1] {
			out = append(out, x)
		}
	}
	return out
}

// dtIntDomain: boundaries, powers of two +-1, strided, seeded random for a
// width of w bytes; values are returned as the low w bytes (two's complement).
func dtIntDomain(seed int64, w int, quick bool, stream string) []uint64 {
	bits := uint(8 * w)
	mask := ^uint64(0)
	if bits < 64 {
		mask = 1<<bits - 1
	}
	var l []uint64
	add := func(x uint64) { l = append(l, x&mask) }
	for _, x := range []int64{0, 1, -1, 2, -2, 10, -10, 255, 256, -255, -256, 65535, 65536, -65536} {
		add(uint64(x))
	}
	for k := uint(0); k < bits; k++ {
		p := uint64(1) << k
		add(p)
		add(p - 1)
		add(p + 1)
		add(-p)
		add(-p - 1)
		add(-p + 1)
	}
	add(mask)      // -1 / max unsigned
	add(mask >> 1) // max signed
	add(mask>>1 + 1)
	add(mask>>1 + 2)
	add(mask>>1 - 1)
	nStride, nRand := 4096, 20000
	if !quick {
		nStride, nRand = 1<<18, 1000000
	}
	step := mask/uint64(nStride) + 1
	for i := 0; i < nStride; i++ {
		add(uint64(i) * step)
	}
	rnd := rt.NewRand(seed, "c04c05/int/"+stream)
	for i := 0; i < nRand; i++ {
		x := rnd.Uint64()
		// half of the draws with a random magnitude so that small values occur
		if i%2 == 1 {
			x >>= uint(rnd.Intn(64))
			if rnd.Bool() {
				x = -x
			}
		}
		add(x)
	}
	return dtUniq64(l)
}

func dtFloatDomain(seed int64, w int, quick bool) []uint64 {
	var l []uint64
	if w == 4 {
		for _, b := range []uint32{0, 0x80000000, 0x7f800000, 0xff800000, 0x7fc00000, 0xffc00000, 0x7fa00000, 0x7f800001, 0xffffffff, 0x7fffffff,
			0x00000001, 0x007fffff, 0x00800000, 0x7f7fffff, 0xff7fffff, 0x3f800000, 0xbf800000, 0x3dcccccd, 0x40490fdb} {
			l = append(l, uint64(b))
		}
		for _, f := range []float32{0.5, 1.5, -2.25, 100, 1e10, 1e-10, 3.4e38, 16777216, 16777217} {
			l = append(l, uint64(math.Float32bits(f)))
		}
	} else {
		for _, b := range []uint64{0, 1 << 63, 0x7ff0000000000000, 0xfff0000000000000, 0x7ff8000000000000, 0xfff8000000000000, 0x7ff4000000000000, 0x7ff0000000000001,
			^uint64(0), 1<<63 - 1, 1, 0x000fffffffffffff, 0x0010000000000000, 0x7fefffffffffffff, 0xffefffffffffffff, 0x3ff0000000000000, 0xbff0000000000000} {
			l = append(l, b)
		}
		for _, f := range []float64{0.1, 0.5, 1.5, -2.25, 100, 1e100, 1e-100, math.Pi, 9007199254740992, 9007199254740993} {
			l = append(l, math.Float64bits(f))
		}
	}
	n := 50000
	if !quick {
		n = 2000000
	}
	rnd := rt.NewRand(seed, fmt.Sprintf("c04c05/float/%d", w))
	for i := 0; i < n; i++ {
		x := rnd.Uint64()
		if w == 4 {
			x &= 0xffffffff
		}
		l = append(l, x)
	}
	return dtUniq64(l)
}

// dtDecDomain: values for precision p: 0, +-1, +-10^k, +-(10^k-1), seeded random
// with at most p digits.
func dtDecDomain(seed int64, p int, quick bool) []*big.Int {
	var l []*big.Int
	seen := map[string]bool{}
	add := func(x *big.Int) {
		if s := x.String(); !seen[s] {
			seen[s] = true
			l = append(l, x)
		}
	}
	add(new(big.Int))
	for k := 0; k <= p; k++ {
		t := dtPow10(k)
		if k < p {
			add(t)
		}
		if k > 0 {
			add(new(big.Int).Sub(t, big.NewInt(1)))
		}
	}
	// byte-boundary magnitudes that fit
	lim := dtPow10(p)
	for b := uint(7); b < 128; b += 8 {
		for _, d := range []int64{-1, 0, 1} {
			x := new(big.Int).Lsh(big.NewInt(1), b)
			x.Add(x, big.NewInt(d))
			if x.Cmp(lim) < 0 {
				add(x)
			}
		}
		x := new(big.Int).Lsh(big.NewInt(1), b+1)
		x.Sub(x, big.NewInt(1))
		if x.Cmp(lim) < 0 {
			add(x)
		}
	}
	n := 6
	if !quick {
		n = 300
	}
	rnd := rt.NewRand(seed, fmt.Sprintf("c04c05/dec/%d", p))
	for i := 0; i < n; i++ {
		digits := rnd.Range(1, p)
		x := new(big.Int).SetBytes(rnd.Bytes(17))
		x.Mod(x, dtPow10(digits))
		add(x)
	}
	return l
}

// dtDayDomain returns the day numbers (since 1970-01-01) to test in [lo, hi].
// Thorough: every day. Quick: strided plus every first/last day of a month,
// Feb 28/29, and +-3 days around the epochs and limits.
func dtDayDomain(lo, hi int64, quick bool) []int64 {
	if !quick {
		l := make([]int64, 0, hi-lo+1)
		for d := lo; d <= hi; d++ {
			l = append(l, d)
		}
		return l
	}
	set := map[int64]bool{}
	add := func(d int64) {
		if d >= lo && d <= hi {
			set[d] = true
		}
	}
	for d := lo; d <= hi; d += 11 {
		add(d)
	}
	y0, _, _ := refdata.CivilFromDays(lo)
	y1, _, _ := refdata.CivilFromDays(hi)
	for y := y0; y <= y1; y++ {
		for m := int64(1); m <= 12; m++ {
			f := refdata.DaysFromCivil(y, m, 1)
			add(f)
			add(f - 1)
		}
		add(refdata.DaysFromCivil(y, 2, 28))
		add(refdata.DaysFromCivil(y, 3, 1) - 1)
	}
	for _, e := range []int64{refdata.DayMin, refdata.Day1753, refdata.Day1900, 0, refdata.DaySmallDT, refdata.DayMax,
		refdata.DaysFromCivil(1582, 10, 4), refdata.DaysFromCivil(1582, 10, 15), refdata.DaysFromCivil(2000, 2, 29), refdata.DaysFromCivil(2038, 1, 19)} {
		for k := int64(-3); k <= 3; k++ {
			add(e + k)
		}
	}
	l := make([]int64, 0, len(set))
	for d := range set {
		l = append(l, d)
	}
	sort.Slice(l, func(i, j int) bool { return l[i] < l[j] })
	return l
}

// dtSubTickOffsets are nanosecond offsets above a tick that are not on the
// tick grid.
var dtSubTickOffsets = []int64{1, 1000, 1000000, 1666666, 1666667, 2000000, 3000000, 3333332}

// dtDayEndNs: instants at the end of a day.
var dtDayEndNs = []int64{
	refdata.NanosPerDay - 1, refdata.NanosPerDay - 1000, refdata.NanosPerDay - 1000000, refdata.NanosPerDay - 1666666, refdata.NanosPerDay - 1666667,
	refdata.NanosPerDay - 2000000, refdata.NanosPerDay - 3000000, refdata.NanosPerDay - 3333333, refdata.NanosPerDay - 3333334, refdata.NanosPerDay - 4000000,
	refdata.NanosPerDay - 10000000, refdata.NanosPerDay - 1000000000,
}

func dtStrCodepoints(rnd *rt.Rand, class string, n int) []rune {
	cps := make([]rune, n)
	for i := range cps {
		var c rune
		switch class {
		case "ascii":
			c = rune(rnd.Range(0x20, 0x7e))
		case "ascii-nul":
			c = rune(rnd.Range(0x20, 0x7e))
			if i > 0 && i < n-1 && rnd.Chance(1, 4) {
				c = 0
			}
		case "latin1":
			c = rune(rnd.Range(0x20, 0xff))
			if i == 0 {
				c = rune(rnd.Range(0x80, 0xff))
			}
		case "bmp":
			c = rune(rnd.Range(0x100, 0xffff))
			if i == 0 {
				c = []rune{0x100, 0x20ac, 0xffff, 0xd7ff, 0xe000, 0xfffd, 0x4e2d, 0x0100}[rnd.Intn(8)]
			}
			if i%3 == 2 {
				c = rune(rnd.Range(0x20, 0x7e))
			}
		case "supp":
			c = rune(rnd.Range(0x10000, 0x10ffff))
			if i == 0 {
				c = []rune{0x10000, 0x1f600, 0x10ffff, 0x2f800, 0xf0000}[rnd.Intn(5)]
			}
			if i%4 == 3 {
				c = rune(rnd.Range(0x20, 0xffff))
			}
		case "special":
			// characters with a meaning to encoders and decoders: byte order
			// marks (U+FEFF and its byte-swapped twin U+FFFE) at the start
			// and inside, the replacement character, the last BMP code
			// points, line / paragraph separators
			sp := []rune{0xfeff, 0xfffe, 0xfffd, 0xffff, 0x2028, 0x2029, 0x00a0, 0x200b, 0x0085}
			c = sp[rnd.Intn(len(sp))]
			if i == 0 {
				c = []rune{0xfeff, 0xfffe}[rnd.Intn(2)]
			}
			if i%3 == 1 {
				c = rune(rnd.Range(0x20, 0x7e))
			}
		case "mixed":
			switch rnd.Intn(5) {
			case 0:
				c = rune(rnd.Range(1, 0x7f))
			case 1:
				c = rune(rnd.Range(0x80, 0xff))
			case 2:
				c = rune(rnd.Range(0x100, 0xffff))
			case 3:
				c = rune(rnd.Range(0x10000, 0x10ffff))
			default:
				c = 0
			}
		}
		if c >= 0xd800 && c <= 0xdfff {
			c = 0xfffd
		}
		cps[i] = c
	}
	if cps[n-1] == 0 {
		cps[n-1] = 'z' // documented decoder normalisation: values do not end in NUL
	}
	return cps
}

// dtBuildWork builds the list of work items for a tier/seed.
func dtBuildWork(c *Ctx, visit dtVisit) []dtWork {
	quick := c.Quick()
	seed := c.Seed
	var work []dtWork
	chunked := func(n int, size int, f func(acc *dtAcc, lo, hi int)) {
		for lo := 0; lo < n; lo += size {
			lo, hi := lo, lo+size
			if hi > n {
				hi = n
			}
			work = append(work, func(acc *dtAcc) { f(acc, lo, hi) })
		}
	}

	// ---- integers
	for _, k := range []dtKind{dkU8, dkI16, dkU16} {
		k := k
		n := 256
		if k != dkU8 {
			n = 65536
		}
		for _, vr := range dtVariantsOf(k, "") {
			vr := vr
			chunked(n, 16384, func(acc *dtAcc, lo, hi int) {
				for x := lo; x < hi; x++ {
					visit(acc, vr, &dtVal{K: k, N: uint64(x)}, true)
				}
			})
		}
	}
	dom32 := dtIntDomain(seed, 4, quick, "32")
	dom64 := dtIntDomain(seed, 8, quick, "64")
	for _, kd := range []struct {
		k   dtKind
		dom []uint64
	}{{dkI32, dom32}, {dkU32, dom32}, {dkI64, dom64}, {dkU64, dom64}} {
		kd := kd
		for _, vr := range dtVariantsOf(kd.k, "") {
			vr := vr
			chunked(len(kd.dom), 32768, func(acc *dtAcc, lo, hi int) {
				for i := lo; i < hi; i++ {
					visit(acc, vr, &dtVal{K: kd.k, N: kd.dom[i]}, i%8 == 0 || i < 512)
				}
			})
		}
	}
	// ---- floats
	for _, kd := range []struct {
		k   dtKind
		dom []uint64
	}{{dkF32, dtFloatDomain(seed, 4, quick)}, {dkF64, dtFloatDomain(seed, 8, quick)}} {
		kd := kd
		for _, vr := range dtVariantsOf(kd.k, "") {
			vr := vr
			chunked(len(kd.dom), 32768, func(acc *dtAcc, lo, hi int) {
				for i := lo; i < hi; i++ {
					visit(acc, vr, &dtVal{K: kd.k, N: kd.dom[i]}, i%8 == 0 || i < 512)
				}
			})
		}
	}
	// ---- bit
	for _, vr := range dtVariantsOf(dkBool, "") {
		vr := vr
		work = append(work, func(acc *dtAcc) {
			visit(acc, vr, &dtVal{K: dkBool, N: 0}, true)
			visit(acc, vr, &dtVal{K: dkBool, N: 1}, true)
		})
	}
	// ---- money
	for _, vr := range dtVariantsOf(dkMoney, "") {
		vr := vr
		dom := dom64
		if vr.Len == 4 {
			dom = dom32
		}
		chunked(len(dom), 32768, func(acc *dtAcc, lo, hi int) {
			for i := lo; i < hi; i++ {
				x := dom[i]
				if vr.Len == 4 {
					x = uint64(refdata.SignExtend(4, x))
				}
				visit(acc, vr, &dtVal{K: dkMoney, N: x}, i%8 == 0 || i < 512)
			}
		})
	}
	// ---- decimal / numeric
	for p := 1; p <= 38; p++ {
		p := p
		for _, vr := range dtVariantsOf(dkDec, "") {
			vr := vr
			work = append(work, func(acc *dtAcc) {
				dom := dtDecDomain(seed, p, quick)
				for s := 0; s <= p; s++ {
					for _, m := range dom {
						for _, neg := range []bool{false, true} {
							if neg && m.Sign() == 0 {
								continue
							}
							visit(acc, vr, &dtVal{K: dkDec, Neg: neg, Mag: m.String(), mag: m, Prec: p, Scale: s}, true)
						}
					}
				}
			})
		}
	}
	// ---- calendar days: DATE, DATEN, BIGDATETIMEN (midnight, last µs, a seeded µs), DATETIME at
	// midnight (1753..9999), SHORTDATE at midnight (1900-01-01..2079-06-06)
	days := dtDayDomain(refdata.DayMin, refdata.DayMax, false) // every day in both tiers: it is cheap
	dateVars := dtVariantsOf(dkTime, "date")
	bdtVars := dtVariantsOf(dkTime, "bigdatetime")
	dtVars := dtVariantsOf(dkTime, "datetime")
	sdVars := dtVariantsOf(dkTime, "shortdate")
	timeVars := dtVariantsOf(dkTime, "time")
	btVars := dtVariantsOf(dkTime, "bigtime")
	chunked(len(days), 16384, func(acc *dtAcc, lo, hi int) {
		rnd := rt.NewRand(seed, fmt.Sprintf("c04c05/days/%d", lo))
		for i := lo; i < hi; i++ {
			d := days[i]
			pk := i%64 == 0
			for _, vr := range dateVars {
				visit(acc, vr, &dtVal{K: dkTime, Day: d}, pk)
			}
			us := int64(rnd.Uint64() % refdata.MicrosPerDay)
			for _, vr := range bdtVars {
				visit(acc, vr, &dtVal{K: dkTime, Day: d}, pk)
				visit(acc, vr, &dtVal{K: dkTime, Day: d, Ns: refdata.NanosPerDay - 1000}, false)
				visit(acc, vr, &dtVal{K: dkTime, Day: d, Ns: us * 1000}, pk)
			}
			if d >= refdata.Day1753 {
				for _, vr := range dtVars {
					visit(acc, vr, &dtVal{K: dkTime, Day: d}, pk)
				}
			}
			if d >= refdata.Day1900 && d <= refdata.DaySmallDT {
				for _, vr := range sdVars {
					visit(acc, vr, &dtVal{K: dkTime, Day: d}, pk)
				}
			}
		}
	})
	// ---- every tick of a day x days {min, -1, 0, +1, max}; TIME on the library's base date
	tickDays := []int64{refdata.Day1753, refdata.Day1900 - 1, refdata.Day1900, refdata.Day1900 + 1, refdata.DayMax}
	tickStride := int64(1)
	if quick {
		tickStride = 97
	}
	const tickChunk = 1 << 19
	for lo := int64(0); lo < refdata.TicksPerDay; lo += tickChunk {
		lo := lo
		hi := lo + tickChunk
		if hi > refdata.TicksPerDay {
			hi = refdata.TicksPerDay
		}
		work = append(work, func(acc *dtAcc) {
			first := (lo + tickStride - 1) / tickStride * tickStride
			for k := first; k < hi; k += tickStride {
				ns := refdata.TickNs(k)
				pk := k%(4096*tickStride) == 0
				for _, d := range tickDays {
					for _, vr := range dtVars {
						visit(acc, vr, &dtVal{K: dkTime, Day: d, Ns: ns}, pk)
					}
				}
				for _, vr := range timeVars {
					visit(acc, vr, &dtVal{K: dkTime, Day: refdata.DayMin, Ns: ns}, pk)
				}
			}
		})
	}
	// first / last ticks and the ticks around 23:59:59.996 / .999 in every tier
	work = append(work, func(acc *dtAcc) {
		var ks []int64
		for k := int64(0); k < 8; k++ {
			ks = append(ks, k, refdata.TicksPerDay-1-k, refdata.TicksPerDay/2+k, 300*3600*12-1-k)
		}
		for _, k := range ks {
			for _, d := range tickDays {
				for _, vr := range dtVars {
					visit(acc, vr, &dtVal{K: dkTime, Day: d, Ns: refdata.TickNs(k)}, true)
				}
			}
			for _, vr := range timeVars {
				visit(acc, vr, &dtVal{K: dkTime, Day: refdata.DayMin, Ns: refdata.TickNs(k)}, true)
			}
		}
	})
	// ---- sub-tick instants (encode direction): sampled ticks + offsets, and the ends of a day
	nSub := 4000
	if !quick {
		nSub = 400000
	}
	chunked(nSub, 20000, func(acc *dtAcc, lo, hi int) {
		for i := lo; i < hi; i++ {
			rnd := rt.NewRand(seed, fmt.Sprintf("c04c05/subtick/%d", i))
			k := int64(rnd.Uint64() % refdata.TicksPerDay)
			ns := refdata.TickNs(k) + dtSubTickOffsets[rnd.Intn(len(dtSubTickOffsets))]
			if rnd.Chance(1, 3) {
				ns = int64(rnd.Uint64() % refdata.NanosPerDay)
			}
			if ns >= refdata.NanosPerDay {
				ns = refdata.NanosPerDay - 1
			}
			d := tickDays[rnd.Intn(len(tickDays))]
			for _, vr := range dtVars {
				visit(acc, vr, &dtVal{K: dkTime, Day: d, Ns: ns}, i%16 == 0)
			}
			for _, vr := range timeVars {
				visit(acc, vr, &dtVal{K: dkTime, Day: refdata.DayMin, Ns: ns}, i%16 == 0)
			}
		}
	})
	work = append(work, func(acc *dtAcc) {
		for _, ns := range dtDayEndNs {
			for _, d := range tickDays {
				for _, vr := range dtVars {
					visit(acc, vr, &dtVal{K: dkTime, Day: d, Ns: ns}, true)
				}
			}
			// TIME: the date part of the Go value is not carried; a few dates
			for _, d := range []int64{refdata.DayMin, refdata.Day1900, refdata.Day1900 - 1, refdata.DayMax} {
				for _, vr := range timeVars {
					visit(acc, vr, &dtVal{K: dkTime, Day: d, Ns: ns}, true)
				}
			}
		}
	})
	// ---- SHORTDATE: all 1440 minutes x sampled days; values with seconds
	var sdDays []int64
	{
		rnd := rt.NewRand(seed, "c04c05/shortdate-days")
		sdDays = append(sdDays, refdata.Day1900, refdata.Day1900+1, refdata.Day1900+59, refdata.Day1900+60, refdata.DaySmallDT-1, refdata.DaySmallDT,
			refdata.Day1900+32767, refdata.Day1900+32768, refdata.Day1900+255, refdata.Day1900+256, 0)
		n := 40
		if !quick {
			n = 2000
		}
		for i := 0; i < n; i++ {
			sdDays = append(sdDays, refdata.Day1900+int64(rnd.Intn(65536)))
		}
	}
	chunked(len(sdDays), 8, func(acc *dtAcc, lo, hi int) {
		for i := lo; i < hi; i++ {
			// the ends of the day (where the 1/300 s types round up into
			// the next day; the minute types have nothing to round)
			for _, ns := range dtDayEndNs {
				for _, vr := range sdVars {
					visit(acc, vr, &dtVal{K: dkTime, Day: sdDays[i], Ns: ns}, true)
				}
			}
			for m := int64(0); m < 1440; m++ {
				for _, vr := range sdVars {
					visit(acc, vr, &dtVal{K: dkTime, Day: sdDays[i], Ns: m * 60000000000}, m%97 == 0)
					if m%7 == 0 {
						visit(acc, vr, &dtVal{K: dkTime, Day: sdDays[i], Ns: m*60000000000 + 1000000000 + (m%5)*11000000000}, false)
						visit(acc, vr, &dtVal{K: dkTime, Day: sdDays[i], Ns: m*60000000000 + 59999999999}, false)
					}
				}
			}
		}
	})
	// ---- microsecond times: BIGTIMEN sampled + day ends; BIGDATETIMEN on sampled days
	nUs := 100000
	if !quick {
		nUs = 4000000
	}
	chunked(nUs, 50000, func(acc *dtAcc, lo, hi int) {
		rnd := rt.NewRand(seed, fmt.Sprintf("c04c05/micros/%d", lo))
		for i := lo; i < hi; i++ {
			us := int64(rnd.Uint64() % refdata.MicrosPerDay)
			switch i {
			case 0:
				us = 0
			case 1:
				us = refdata.MicrosPerDay - 1
			case 2:
				us = 1
			case 3:
				us = refdata.MicrosPerDay - 1000
			case 4:
				us = 1000000
			case 5:
				us = 999999
			}
			for _, vr := range btVars {
				visit(acc, vr, &dtVal{K: dkTime, Day: refdata.DayMin, Ns: us * 1000}, i%32 == 0 || i < 8)
			}
			d := refdata.DayMin + int64(rnd.Uint64()%uint64(refdata.DayMax-refdata.DayMin+1))
			for _, vr := range bdtVars {
				visit(acc, vr, &dtVal{K: dkTime, Day: d, Ns: us * 1000}, i%32 == 0)
			}
		}
	})
	// ---- byte strings and character strings
	type strSpec struct {
		class string
		n     int
	}
	lensOf := func(vr *dtVariant) []int {
		var l []int
		if vr.Class == refdata.ClassLen1 {
			for n := 1; n <= 255; n++ {
				l = append(l, n)
			}
			return l
		}
		for n := 1; n <= 64; n++ {
			l = append(l, n)
		}
		l = append(l, 100, 127, 128, 200, 254, 255, 256, 257, 300, 503, 504, 505, 1000, 1023, 1024, 1025, 4096, 32767, 32768, 65535, 65536, 65537, 100000)
		if !quick {
			l = append(l, 1<<20, 1<<22+3)
		}
		return l
	}
	for _, vr := range dtVariants {
		vr := vr
		if vr.K != dkBytes && vr.K != dkStr {
			continue
		}
		lens := lensOf(vr)
		chunked(len(lens), 32, func(acc *dtAcc, lo, hi int) {
			for i := lo; i < hi; i++ {
				n := lens[i]
				rnd := rt.NewRand(seed, fmt.Sprintf("c04c05/str/%s/%d", vr.Name, n))
				switch {
				case vr.K == dkBytes:
					visit(acc, vr, &dtVal{K: dkBytes, B: rnd.Bytes(n)}, true)
					b := rnd.Bytes(n)
					for j := range b {
						if j%3 == 0 {
							b[j] = 0
						}
					}
					b[n-1] = 0 // trailing and leading zero bytes are data
					visit(acc, vr, &dtVal{K: dkBytes, B: b}, true)
				case vr.Role == "utf16":
					// n counts code points here
					for _, cl := range []string{"ascii", "ascii-nul", "latin1", "bmp", "supp", "mixed", "special"} {
						if n > 70000 {
							continue
						}
						visit(acc, vr, &dtVal{K: dkStr, B: []byte(string(dtStrCodepoints(rnd, cl, n)))}, true)
					}
				default:
					// raw bytes of the server's character set: printable ASCII, arbitrary bytes
					// (incl. NUL and bytes that are not UTF-8), UTF-8 text of all planes
					a := rnd.Bytes(n)
					for j := range a {
						a[j] = 0x20 + a[j]%0x5f
					}
					visit(acc, vr, &dtVal{K: dkStr, B: a}, true)
					visit(acc, vr, &dtVal{K: dkStr, B: rnd.Bytes(n)}, true)
					u := []byte(string(dtStrCodepoints(rnd, "mixed", n)))
					if len(u) > n {
						u = u[:n] // may cut a sequence: still a byte string
					}
					visit(acc, vr, &dtVal{K: dkStr, B: u}, true)
				}
			}
		})
	}
	// ---- NULL for every nullable variant
	work = append(work, func(acc *dtAcc) {
		for _, vr := range dtVariants {
			if vr.nullable() {
				visit(acc, vr, &dtVal{K: dkNil, Prec: 10, Scale: 2}, true)
			}
		}
	})
	return work
}

// dtRun executes the work items in parallel.
func dtRun(c *Ctx, work []dtWork) {
	if f := os.Getenv("VERIF_DT_CPUPROFILE"); f != "" {
		if fh, err := os.Create(f); err == nil {
			pprof.StartCPUProfile(fh)
			defer pprof.StopCPUProfile()
		}
	}
	tStart := time.Now()
	defer func() {
		if os.Getenv("VERIF_DT_TIMING") != "" {
			fmt.Fprintf(os.Stderr, "dtRun: %d work items in %s\n", len(work), time.Since(tStart))
		}
	}()
	c.parallel(len(work), func(i int) {
		t0 := time.Now()
		acc := newDtAcc(c.R)
		work[i](acc)
		acc.flush()
		if d := time.Since(t0); d > 2*time.Second && os.Getenv("VERIF_DT_TIMING") != "" {
			fmt.Fprintf(os.Stderr, "work item %d/%d took %s\n", i, len(work), d)
		}
	})
}
