package main

import (
	"encoding/json"
	"fmt"
	"runtime"
	"time"

	"github.com/SAP/go-dblib/namepool"

	"verif/harness/rt"
)

// C18, holders that do not keep the *Name. A name is held from Acquire until
// it is released, however the holder stores it: only its id and text (a
// prepared statement's handle), or a copy of the Name value (the accessors
// have value receivers). Garbage collections in between — which run
// finalizers and empty sync.Pool — must not hand such an id to anybody else.

type c18LeakCase struct {
	Leak   string `json:"leak"` // "leak"
	Format string `json:"format"`
	Names  int    `json:"names_held_without_pointer"`
	More   int    `json:"acquired_afterwards"`
	Rounds int    `json:"gc_rounds"`
}

func c18LeakRun(c *Ctx, cs c18LeakCase) {
	r := c.R
	r.Eval(1)
	b, _ := json.Marshal(cs)
	rt.CaseLog("C18 leak %s", b)
	pool := namepool.Pool(cs.Format)
	heldIDs := map[uint64]string{}
	heldText := map[string]uint64{}
	var byValue []namepool.Name
	pi := rt.Catch(func() {
		for i := 0; i < cs.Names; i++ {
			nm := pool.Acquire()
			heldIDs[nm.ID()] = nm.Name()
			heldText[nm.Name()] = nm.ID()
			if i%2 == 0 {
				byValue = append(byValue, *nm) // keeps a copy of the value
			}
			// the pointer itself is dropped here
		}
	})
	if pi != nil {
		r.Violate("panic/"+pi.Frame+"/leak", "Acquire panicked: "+pi.Value, cs)
		return
	}
	var later []*namepool.Name
	for round := 0; round < cs.Rounds; round++ {
		runtime.GC()
		runtime.GC()
		time.Sleep(2 * time.Millisecond) // lets finalizers run, if there are any; the verdict does not depend on it
		for i := 0; i < cs.More; i++ {
			nm := pool.Acquire()
			later = append(later, nm)
			if txt, dup := heldIDs[nm.ID()]; dup {
				r.Violate("uniqueness/id-of-unreleased-name-handed-out", fmt.Sprintf("format %q: after %d garbage collection round(s) Acquire returned id %d (%q); a name with this id (%q) was acquired earlier and never released (its holder kept the id and text, not the pointer)", cs.Format, round+1, nm.ID(), nm.Name(), txt), cs)
				return
			}
			if id, dup := heldText[nm.Name()]; dup && c18FormatJudged(cs.Format) {
				r.Violate("uniqueness/text-of-unreleased-name-handed-out", fmt.Sprintf("format %q: Acquire returned the text %q, which the unreleased name with id %d carries", cs.Format, nm.Name(), id), cs)
				return
			}
		}
	}
	// the copies are still intact and can be released through the copy
	for i := range byValue {
		v := &byValue[i]
		if heldIDs[v.ID()] != v.Name() {
			r.Violate("name/changed-while-held", fmt.Sprintf("a held copy of a name changed: id %d text %q", v.ID(), v.Name()), cs)
			return
		}
		v.Release()
	}
	for _, nm := range later {
		nm.Release()
	}
	runtime.KeepAlive(later)
	r.Count("leak_names_never_reissued", int64(len(heldIDs)))
	r.Distinct(string(b))
}

func c18FormatJudged(format string) bool {
	_, ok := c18Parse(format)
	return ok
}

func runC18Leak(c *Ctx) {
	for _, f := range []string{"stmt%d", "%d", "cursor%05d", "100%%_%d"} {
		for _, n := range []int{1, 50, 400} {
			c18LeakRun(c, c18LeakCase{Leak: "leak", Format: f, Names: n, More: 2 * n, Rounds: 3})
		}
	}
}
