package main

import (
	"encoding/hex"
	"encoding/json"
	"fmt"
	"hash/fnv"
	"strings"
	"sync"
	"sync/atomic"
	"time"

	"github.com/SAP/go-dblib/asetypes"

	"verif/harness/refdata"
	"verif/harness/rt"
)

// C04 — field values survive encoding and decoding unchanged.
//
// Events: v, Bytes(v), GoValue(Bytes(v)); v -> PARAMS bytes (library writer,
// format parsed by the library from a reference PARAMFMT) -> library reader;
// reference ROWFMT2+ROW -> library readers (text-pointer family: the only
// direction a client sees).
// Oracle: v' == v exactly; to the tick for DATETIME/TIME (1/300 s) and
// SHORTDATE (1 min), with v' a fixed point of the codec (on the tick grid);
// nil -> zero length -> nil.

func init() { register("C04", runC04) }

type c04Judge struct {
	replayPrev *dtVal // replay of a two-rows case: the first row's value
	replayPrevVr *dtVariant // replay of a two-columns case: the first column's variant
	c   *Ctx
	agg *dtAgg
}

func (j *c04Judge) viol(clause string, vr *dtVariant, v *dtVal, reg, detail string, dir string, wire []byte) {
	j.agg.add(clause, vr, reg, detail, dtCase{Type: vr.label(), Dir: dir, V: *v, Wire: hex.EncodeToString(wire)})
}

// dtNoGoValueCase: GoValue has no arm for the type at all.
func dtNoGoValueCase(err error) bool {
	return err != nil && strings.Contains(err.Error(), "unhandled data type")
}

func (j *c04Judge) visit(acc *dtAcc, vr *dtVariant, v *dtVal, pk bool) {
	if v.K == dkNil {
		j.null(acc, vr, v)
		return
	}
	reg := dtRegion(vr, v)
	acc.counts["values/"+vr.Name]++
	if v.nonZero() {
		acc.distinct++
	}
	tol := dtTol3Of(vr)
	mode := dtCmpExact
	switch {
	case vr.K == dkDec:
		mode = dtCmpNoPS
	case vr.Role == "time" || vr.Role == "bigtime":
		mode = dtCmpTickTOD
	}
	lv := dtToLib(vr, v)

	// now and then the round trip is preceded by a call the library refuses
	// (a Go value of the wrong type or width for the data type, the kind of
	// slip a driver's caller makes): the refusal must leave nothing behind
	// for the next, valid call
	if acc.evals%64 == 3 && v.K != dkTime && v.K != dkDec && v.K != dkMoney {
		var wrong interface{} = int64(0x1122334455667788)
		if _, is64 := lv.(int64); is64 {
			wrong = int16(0x1122)
		}
		o := dtLibBytes(vr, wrong, dtLengthArg(vr, v))
		switch {
		case o.panic != nil:
			acc.counts["refused_call_first/panicked_unjudged"]++
		case o.err != nil:
			acc.counts["refused_call_first/refused"]++
		default:
			acc.counts["refused_call_first/accepted"]++
		}
	}
	// ---- leg 1: GoValue(Bytes(v)) == v
	acc.evals++
	enc := dtLibBytes(vr, lv, dtLengthArg(vr, v))
	switch {
	case enc.panic != nil:
		j.viol("panic|"+enc.panic.Frame, vr, v, "", fmt.Sprintf("Bytes(%s) panicked: %s", dtDescribe(v), enc.panic.Value), "value", nil)
		return
	case enc.err != nil:
		// every variant here has a Go mapping and the value lies in the
		// type's domain: a refusal is a failed round trip
		acc.counts["encode_refused/"+vr.Name]++
		j.viol("encode-refused", vr, v, reg, fmt.Sprintf("Bytes(%s) returns an error for a value of the type's domain: %s", dtDescribe(v), dtTrimErr(enc.err)), "value", nil)
		return
	}
	dec := dtLibGoValue(vr, enc.bs)
	switch {
	case dec.panic != nil:
		j.viol("panic|"+dec.panic.Frame, vr, v, "", fmt.Sprintf("GoValue(Bytes(%s)=%s) panicked: %s", dtDescribe(v), dtHex(enc.bs), dec.panic.Value), "value", enc.bs)
	case dtNoGoValueCase(dec.err):
		j.viol("decode", vr, v, "no-govalue-case", fmt.Sprintf("GoValue(%s) of the library's own %d bytes: %v", vr.Name, len(enc.bs), dec.err), "value", enc.bs)
	case dec.err != nil:
		j.viol("roundtrip", vr, v, reg, fmt.Sprintf("%s: Bytes = %s, GoValue of these bytes failed: %v", dtDescribe(v), dtHex(enc.bs), dec.err), "value", enc.bs)
	default:
		if ok, why := dtSameValue(vr, v, dec.val, mode, tol); !ok {
			j.viol("roundtrip", vr, v, reg, fmt.Sprintf("%s: Bytes = %s, GoValue of these bytes: %s", dtDescribe(v), dtHex(enc.bs), why), "value", enc.bs)
		} else if tol > 0 {
			// v' on the tick grid: v' is a fixed point of encode/decode
			acc.evals++
			enc2 := dtLibBytes(vr, dec.val, dtLengthArg(vr, v))
			if enc2.panic != nil || enc2.err != nil {
				j.viol("roundtrip-grid", vr, v, reg, fmt.Sprintf("%s decodes to %v, which Bytes does not take: %v %v", dtDescribe(v), dec.val, enc2.err, enc2.panic), "value", enc.bs)
			} else if dec2 := dtLibGoValue(vr, enc2.bs); dec2.panic != nil || dec2.err != nil {
				j.viol("roundtrip-grid", vr, v, reg, fmt.Sprintf("%s decodes to %v; its bytes %s do not decode: %v %v", dtDescribe(v), dec.val, dtHex(enc2.bs), dec2.err, dec2.panic), "value", enc.bs)
			} else {
				t1, ok1 := dec.val.(time.Time)
				t2, ok2 := dec2.val.(time.Time)
				if !ok1 || !ok2 || !t1.Equal(t2) {
					j.viol("roundtrip-grid", vr, v, reg, fmt.Sprintf("%s: Bytes = %s decodes to %v, which encodes to %s and decodes to the different value %v (decoded value is not on the tick grid)", dtDescribe(v), dtHex(enc.bs), dec.val, dtHex(enc2.bs), dec2.val), "value", enc.bs)
				}
			}
		}
	}

	if !pk {
		return
	}
	if vr.Class == refdata.ClassTextPtr {
		j.rowTextPtr(acc, vr, v, reg)
		return
	}
	// ---- leg 2: PARAMS written and read by the library
	maxLen := vr.Len
	if vr.K == dkBytes || vr.K == dkStr {
		maxLen = len(v.B)
		if vr.Class == refdata.ClassLen1 {
			maxLen = 255
		}
	}
	f := dtRefField(vr, v, maxLen)
	useQueue := vr.K == dkBytes || vr.K == dkStr || vr.K == dkDec || (acc.evals%5 == 0)
	acc.evals++
	acc.counts["params/"+vr.Name]++
	// the format's status bits (return parameter 0x01, per-field status
	// byte 0x08, updatable 0x10, nullable 0x20) in combinations; chosen as
	// a function of the value so that a replay uses the same one
	pf := f
	hs := fnv.New32a()
	hs.Write([]byte(vr.label() + dtDescribe(v)))
	pf.Status = []uint32{0, 0, 0x20, 0x08, 0x28, 0x09, 0x29, 0x01, 0x10, 0x38}[hs.Sum32()%10]
	acc.counts[fmt.Sprintf("params_format_status/%#x", pf.Status)]++
	wire, got, stage, err, pi := dtPkgParamsRoundTrip(vr, v, pf, useQueue)
	pmode := mode
	if pmode == dtCmpNoPS {
		pmode = dtCmpExact // precision and scale travel in the format
	}
	switch {
	case stage == "harness":
		j.c.R.Inconclusive("C04 params leg %s: %v", vr.label(), err)
	case pi != nil:
		j.viol("panic|"+pi.Frame, vr, v, "", fmt.Sprintf("PARAMS leg (%s) for %s panicked: %s", stage, dtDescribe(v), pi.Value), "params", wire)
	case dtNoGoValueCase(err):
		j.viol("decode", vr, v, "no-govalue-case", fmt.Sprintf("PARAMS reader: %v", err), "params", wire)
	case err != nil:
		j.viol("params", vr, v, reg, fmt.Sprintf("%s: stage %s failed: %v (PARAMS bytes %s)", dtDescribe(v), stage, err, dtHex(wire)), "params", wire)
	default:
		if ok, why := dtSameValue(vr, v, got, pmode, tol); !ok {
			j.viol("params", vr, v, reg, fmt.Sprintf("%s: PARAMS bytes %s read back as: %s", dtDescribe(v), dtHex(wire), why), "params", wire)
		}
	}
	// ---- leg 3: reference ROWFMT2 + ROW decoded by the library
	re, rerr := dtRefEncode(vr, v)
	if rerr != nil {
		j.c.R.Inconclusive("C04 row leg %s: %v", vr.label(), rerr)
		return
	}
	acc.evals++
	acc.counts["rows/"+vr.Name]++
	rgot, rstage, err, pi := dtPkgRowDecode(f, re.bs, nil)
	rtol := tol
	switch {
	case rstage == "harness":
		j.c.R.Inconclusive("C04 row leg %s: %v", vr.label(), err)
	case pi != nil:
		j.viol("panic|"+pi.Frame, vr, v, "", fmt.Sprintf("ROW leg (%s) for %s panicked: %s", rstage, dtDescribe(v), pi.Value), "row", re.bs)
	case dtNoGoValueCase(err):
		j.viol("decode", vr, v, "no-govalue-case", fmt.Sprintf("ROW reader: %v", err), "row", re.bs)
	case err != nil:
		j.viol("row", vr, v, reg, fmt.Sprintf("%s: reference row with data %s: stage %s failed: %v", dtDescribe(v), dtHex(re.bs), rstage, err), "row", re.bs)
	default:
		want := dtGridBelow(vr, v, re.canonical) // the value the reference bytes denote
		if ok, why := dtSameValue(vr, &want, rgot, pmode, rtol); !ok {
			j.viol("row", vr, v, reg, fmt.Sprintf("%s: reference row with data %s decoded as: %s", dtDescribe(&want), dtHex(re.bs), why), "row", re.bs)
			return
		}
	}
	// ---- leg 4: two rows under one format; the first row's value is read
	// after the second row was decoded
	if acc.prev == nil {
		acc.prev = map[string]*dtVal{}
	}
	acc.nth++
	prev := acc.prev[vr.label()]
	if j.replayPrev != nil {
		prev = j.replayPrev
	} else if acc.nth%8 != 0 {
		prev = nil
	}
	cp := *v
	acc.prev[vr.label()] = &cp
	if j.replayPrevVr != nil {
		j.twoCols(acc, j.replayPrevVr, j.replayPrev, vr, v, reg)
		return
	}
	if prev != nil {
		j.twoRows(acc, vr, prev, v, maxLen, pmode, rtol, reg)
	}
	// ---- leg 6: one RowPackage object decodes this row and then a NULL row
	if acc.nth%8 == 2 && vr.Class != refdata.ClassFixed {
		j.rowThenNull(acc, vr, v, maxLen, nil)
	}
	// ---- leg 5: one row with two columns (the previous value of whatever
	// variant, then this one); both are read after the row was decoded
	if acc.lastAny != nil && acc.nth%8 == 4 {
		j.twoCols(acc, acc.lastAnyVr, acc.lastAny, vr, v, reg)
	}
	cp2 := *v
	acc.lastAny, acc.lastAnyVr = &cp2, vr
}

func (j *c04Judge) rowThenNull(acc *dtAcc, vr *dtVariant, v *dtVal, maxLen int, tp *refdata.TextPtr) {
	re, err := dtRefEncode(vr, v)
	if err != nil {
		return
	}
	if (vr.K == dkBytes || vr.K == dkStr) && tp == nil && len(v.B) > maxLen {
		return
	}
	f := dtRefField(vr, v, maxLen)
	acc.evals++
	acc.counts["row_then_null/"+vr.Name]++
	got, stage, err, pi := dtPkgRowThenNull(f, re.bs, tp)
	cs := dtCase{Type: vr.label(), Dir: "row-then-null", V: *v, Wire: hex.EncodeToString(re.bs)}
	null := dtVal{K: dkNil}
	switch {
	case stage == "harness":
		return
	case pi != nil:
		j.agg.add("panic|"+pi.Frame, vr, "", fmt.Sprintf("one ROW package decoding %s and then a NULL row panicked in %s: %s", dtDescribe(v), stage, pi.Value), cs)
	case err != nil:
		j.agg.add("row-then-null", vr, "error", fmt.Sprintf("one ROW package decoding %s and then a NULL row: stage %s failed: %v", dtDescribe(v), stage, err), cs)
	default:
		if ok, why := dtSameValue(vr, &null, got, dtCmpExact, 0); !ok {
			j.agg.add("row-then-null", vr, "not-null", fmt.Sprintf("a ROW package object that had decoded %s decoded a NULL row next; its value then: %s", dtDescribe(v), why), cs)
		}
	}
}

func (j *c04Judge) colMax(vr *dtVariant) int {
	if vr.Len > 0 {
		return vr.Len
	}
	if vr.Class == refdata.ClassLen1 {
		return 255
	}
	return 2147483647
}

func (j *c04Judge) twoCols(acc *dtAcc, vr1 *dtVariant, v1 *dtVal, vr2 *dtVariant, v2 *dtVal, reg string) {
	if vr1.Class == refdata.ClassTextPtr || vr2.Class == refdata.ClassTextPtr {
		return
	}
	m1, m2 := j.colMax(vr1), j.colMax(vr2)
	if (vr1.K == dkBytes || vr1.K == dkStr) && len(v1.B) > m1 || (vr2.K == dkBytes || vr2.K == dkStr) && len(v2.B) > m2 {
		return
	}
	re1, e1 := dtRefEncode(vr1, v1)
	re2, e2 := dtRefEncode(vr2, v2)
	if e1 != nil || e2 != nil {
		return
	}
	f1, f2 := dtRefField(vr1, v1, m1), dtRefField(vr2, v2, m2)
	acc.evals++
	acc.counts["two_columns/"+vr1.Name+"+"+vr2.Name]++
	g1, g2, stage, err, pi := dtPkgTwoCols(f1, f2, re1.bs, re2.bs)
	cs := dtCase{Type: vr2.label(), Dir: "two-columns", V: *v2, Prev: v1, PrevType: vr1.label(), Wire: hex.EncodeToString(re1.bs) + "|" + hex.EncodeToString(re2.bs)}
	mode := func(vr *dtVariant) dtCmpMode {
		if vr.Role == "time" || vr.Role == "bigtime" {
			return dtCmpTickTOD
		}
		return dtCmpExact // decimals: precision and scale travel in the format
	}
	switch {
	case stage == "harness":
		return
	case pi != nil:
		j.agg.add("panic|"+pi.Frame, vr2, "", fmt.Sprintf("ROW with two columns (%s %s, %s %s) panicked in %s: %s", vr1.label(), dtDescribe(v1), vr2.label(), dtDescribe(v2), stage, pi.Value), cs)
	case err != nil:
		j.agg.add("two-columns", vr2, reg, fmt.Sprintf("ROW with the columns %s (%s) and %s (%s): stage %s failed: %v", vr1.label(), dtDescribe(v1), vr2.label(), dtDescribe(v2), stage, err), cs)
	default:
		w1, w2 := dtGridBelow(vr1, v1, re1.canonical), dtGridBelow(vr2, v2, re2.canonical)
		if ok, why := dtSameValue(vr2, &w2, g2, mode(vr2), dtTol3Of(vr2)); !ok {
			j.agg.add("two-columns|second", vr2, reg, fmt.Sprintf("second column %s of a row (%s, after a %s column holding %s) decoded as: %s", vr2.label(), dtDescribe(&w2), vr1.label(), dtDescribe(&w1), why), cs)
		} else if ok, why := dtSameValue(vr1, &w1, g1, mode(vr1), dtTol3Of(vr1)); !ok {
			j.agg.add("two-columns|first", vr2, reg, fmt.Sprintf("first column %s of a row (%s, followed by a %s column holding %s) reads after the row was decoded: %s", vr1.label(), dtDescribe(&w1), vr2.label(), dtDescribe(&w2), why), cs)
		}
	}
}

func (j *c04Judge) twoRows(acc *dtAcc, vr *dtVariant, v1, v2 *dtVal, maxLen int, mode dtCmpMode, tol int64, reg string) {
	f1, f2 := dtRefField(vr, v1, maxLen), dtRefField(vr, v2, maxLen)
	if f1 != f2 {
		return // the two values need different formats (precision / scale)
	}
	re1, e1 := dtRefEncode(vr, v1)
	re2, e2 := dtRefEncode(vr, v2)
	if e1 != nil || e2 != nil {
		return
	}
	if (vr.K == dkBytes || vr.K == dkStr) && (len(v1.B) > maxLen || len(v2.B) > maxLen) {
		return
	}
	acc.evals++
	acc.counts["two_rows/"+vr.Name]++
	g1, g2, stage, err, pi := dtPkgTwoRows(f1, re1.bs, re2.bs)
	cs := dtCase{Type: vr.label(), Dir: "two-rows", V: *v2, Prev: v1, Wire: hex.EncodeToString(re1.bs) + "|" + hex.EncodeToString(re2.bs)}
	switch {
	case stage == "harness":
		return
	case pi != nil:
		j.agg.add("panic|"+pi.Frame, vr, "", fmt.Sprintf("two ROWs under one format (%s, then %s) panicked in %s: %s", dtDescribe(v1), dtDescribe(v2), stage, pi.Value), cs)
	case err != nil:
		j.agg.add("two-rows", vr, reg, fmt.Sprintf("ROW(%s) followed by ROW(%s) under one ROWFMT2: stage %s failed: %v", dtDescribe(v1), dtDescribe(v2), stage, err), cs)
	default:
		w1, w2 := dtGridBelow(vr, v1, re1.canonical), dtGridBelow(vr, v2, re2.canonical)
		if ok, why := dtSameValue(vr, &w2, g2, mode, tol); !ok {
			j.agg.add("two-rows", vr, reg, fmt.Sprintf("second of two rows (%s after %s) decoded as: %s", dtDescribe(&w2), dtDescribe(&w1), why), cs)
		} else if ok, why := dtSameValue(vr, &w1, g1, mode, tol); !ok {
			j.agg.add("two-rows|first-row-changed-by-the-second", vr, reg, fmt.Sprintf("first of two rows under one format holds %s before, but after the second row (%s) was decoded its value reads: %s", dtDescribe(&w1), dtDescribe(&w2), why), cs)
		}
	}
}

// rowTextPtr: reference ROWFMT2 + ROW with text pointer, timestamp, data
// length, data -> library -> data bytes equal; GoValue(data) == v.
func (j *c04Judge) rowTextPtr(acc *dtAcc, vr *dtVariant, v *dtVal, reg string) {
	re, err := dtRefEncode(vr, v)
	if err != nil {
		j.c.R.Inconclusive("C04 text-pointer row %s: %v", vr.label(), err)
		return
	}
	tp := &refdata.TextPtr{Ptr: []byte("\x01\x02\x03\x04\x05\x06\x07\x08\x09\x0a\x0b\x0c\x0d\x0e\x0f\x10"), Timestamp: [8]byte{0, 0, 0, 0, 0xde, 0xad, 0xbe, 0xef}}
	f := dtRefField(vr, v, 2147483647)
	acc.evals++
	acc.counts["rows/"+vr.Name]++
	j.rowThenNull(acc, vr, v, 2147483647, tp)
	got, stage, err, pi := dtPkgRowDecode(f, re.bs, tp)
	switch {
	case stage == "harness":
		j.c.R.Inconclusive("C04 text-pointer row %s: %v", vr.label(), err)
		return
	case pi != nil:
		j.viol("panic|"+pi.Frame, vr, v, "", fmt.Sprintf("text-pointer ROW (%s) panicked: %s", stage, pi.Value), "row", re.bs)
		return
	case err != nil:
		j.viol("row-data", vr, v, reg, fmt.Sprintf("reference row with %d data bytes: stage %s failed: %v", len(re.bs), stage, err), "row", re.bs)
		return
	}
	data, ok := got.([]byte)
	if !ok || string(data) != string(re.bs) {
		j.viol("row-data", vr, v, reg, fmt.Sprintf("reference row with data %s: library delivered %T %s", dtHex(re.bs), got, dtShort(got)), "row", re.bs)
		return
	}
	acc.evals++
	dec := dtLibGoValue(vr, data)
	switch {
	case dec.panic != nil:
		j.viol("panic|"+dec.panic.Frame, vr, v, "", fmt.Sprintf("GoValue(%s) panicked: %s", dtHex(data), dec.panic.Value), "row", re.bs)
	case dtNoGoValueCase(dec.err):
		j.viol("decode", vr, v, "no-govalue-case", fmt.Sprintf("GoValue(%s) of row data: %v", vr.Name, dec.err), "row", re.bs)
	case dec.err != nil:
		j.viol("row-govalue", vr, v, reg, fmt.Sprintf("%s: GoValue of row data %s failed: %v", dtDescribe(v), dtHex(data), dec.err), "row", re.bs)
	default:
		if ok, why := dtSameValue(vr, v, dec.val, dtCmpExact, 0); !ok {
			j.viol("row-govalue", vr, v, reg, fmt.Sprintf("%s: a server's row data %s: GoValue: %s", dtDescribe(v), dtHex(data), why), "row", re.bs)
		}
	}
}

// null: nil -> zero length -> nil, bare and inside PARAMS.
func (j *c04Judge) null(acc *dtAcc, vr *dtVariant, v *dtVal) {
	acc.counts["nulls/"+vr.Name]++
	acc.evals++
	enc := dtLibBytes(vr, nil, dtLengthArg(vr, v))
	switch {
	case enc.panic != nil:
		j.viol("panic|"+enc.panic.Frame, vr, v, "", "Bytes(nil) panicked: "+enc.panic.Value, "null", nil)
		return
	case enc.err != nil || len(enc.bs) != 0:
		j.viol("null", vr, v, "encode", fmt.Sprintf("Bytes(nil) = %s, %v; want zero length", dtHex(enc.bs), enc.err), "null", enc.bs)
		return
	}
	if vr.Class == refdata.ClassTextPtr {
		// NULL of the text-pointer family is a zero-length text pointer, not zero-length
		// data; what GoValue makes of zero bytes is observed only
		dec := dtLibGoValue(vr, []byte{})
		j.c.R.SetAdd("textptr_govalue_of_zero_bytes", fmt.Sprintf("%s: %T %v err=%v", vr.Name, dec.val, dec.val, dec.err != nil))
		return
	}
	acc.evals++
	dec := dtLibGoValue(vr, []byte{})
	switch {
	case dec.panic != nil:
		j.viol("panic|"+dec.panic.Frame, vr, v, "", "GoValue(zero bytes) panicked: "+dec.panic.Value, "null", nil)
	case dec.err != nil:
		j.viol("null", vr, v, "decode", fmt.Sprintf("GoValue(zero bytes) failed: %v", dec.err), "null", nil)
	default:
		if ok, why := dtSameValue(vr, v, dec.val, dtCmpExact, 0); !ok {
			j.viol("null", vr, v, "decode", "GoValue(zero bytes): "+why, "null", nil)
		} else if dec.val != nil {
			// the library's own NULL value (a typed one for decimals) must
			// encode to zero length again
			acc.evals++
			re := dtLibBytes(vr, dec.val, dtLengthArg(vr, v))
			switch {
			case re.panic != nil:
				j.viol("panic|"+re.panic.Frame, vr, v, "", "Bytes(the NULL value GoValue returned) panicked: "+re.panic.Value, "null", nil)
			case re.err != nil || len(re.bs) != 0:
				j.viol("null", vr, v, "re-encode", fmt.Sprintf("Bytes(the NULL value GoValue returned, %T) = %s, %v; want zero length", dec.val, dtHex(re.bs), re.err), "null", re.bs)
			}
			// the value belongs to the consumer: it gives the decimal it
			// received a number; NULLs decoded afterwards are NULL all the same
			if d, ok := dec.val.(*asetypes.Decimal); ok && d != nil {
				if rt.Catch(func() { d.Precision, d.Scale = 9, 3; d.SetString("12.345") }) == nil {
					acc.evals++
					acc.counts["null_decoded_after_the_consumer_wrote_on_an_earlier_null"]++
					again := dtLibGoValue(vr, []byte{})
					if again.panic == nil && again.err == nil {
						if ok, why := dtSameValue(vr, v, again.val, dtCmpExact, 0); !ok {
							j.viol("null", vr, v, "decode-after-consumer-wrote-on-earlier-null", "the consumer set the NULL decimal it had received to 12.345; GoValue(zero bytes) afterwards: "+why, "null", nil)
						}
					}
				}
			}
		}
	}
	f := dtRefField(vr, v, vr.Len)
	if vr.Len == 0 {
		f = dtRefField(vr, v, 255)
	}
	for _, q := range []bool{false, true} {
		acc.evals++
		wire, got, stage, err, pi := dtPkgParamsRoundTrip(vr, v, f, q)
		switch {
		case stage == "harness":
			j.c.R.Inconclusive("C04 null params %s: %v", vr.label(), err)
		case pi != nil:
			j.viol("panic|"+pi.Frame, vr, v, "", fmt.Sprintf("PARAMS leg (%s) for NULL panicked: %s", stage, pi.Value), "params", wire)
		case err != nil:
			j.viol("params-null", vr, v, "", fmt.Sprintf("NULL in PARAMS: stage %s failed: %v (bytes %s)", stage, err, dtHex(wire)), "params", wire)
		default:
			if ok, why := dtSameValue(vr, v, got, dtCmpExact, 0); !ok {
				j.viol("params-null", vr, v, "", fmt.Sprintf("NULL in PARAMS (bytes %s) read back as: %s", dtHex(wire), why), "params", wire)
			}
		}
	}
}

func dtDescribe(v *dtVal) string {
	c := *v
	c.describe()
	if c.Text != "" {
		return c.K.String() + " " + c.Text
	}
	switch c.K {
	case dkBytes:
		return "bytes " + dtHex(c.B)
	case dkBool:
		return fmt.Sprintf("bool %v", c.N != 0)
	}
	return fmt.Sprintf("%s %d", c.K, c.N)
}

func dtTrimErr(err error) string {
	s := err.Error()
	if len(s) > 100 {
		s = s[:100]
	}
	return s
}

func dtCommonSetup(c *Ctx) bool {
	r := c.R
	r.TrustedBase = []string{"independent reference codec verif/harness/refdata (own civil-date arithmetic after Hinnant cross-checked against package time on every day of years 0..9999, math/big numerics, own UTF-16)", "flat little-endian BytesChannel of the harness (dt_pkg.go)"}
	if err := refdata.SelfCheck(); err != nil {
		r.Inconclusive("reference self-check failed (harness fault): %v", err)
		return false
	}
	if err := dtCheckTypeTable(); err != nil {
		r.Inconclusive("type table of the harness does not match the library (harness fault): %v", err)
		return false
	}
	for _, vr := range dtVariants {
		r.SetAdd("types", vr.Name)
		r.SetAdd("variants", vr.label())
	}
	return true
}

func runC04(c *Ctx) {
	r := c.R
	r.Rule = "every data type with a Go mapping except BLOB (37 types, 46 type/length variants) x the value domains of DESIGN.md C04 (all 8/16-bit integers; boundary/power-of-two/strided/seeded 32/64-bit, money; float specials + seeded bit patterns; every precision 1..38 x scale 0..p decimals; every calendar day 0001-01-01..9999-12-31; every 1/300 s tick of a day (thorough; every 97th in quick) x days {1753-01-01, 1899-12-31, 1900-01-01, 1900-01-02, 9999-12-31}; sub-tick instants; 1440 minutes x sampled days; sampled microsecond times; byte/character/Unicode strings of lengths 1..max); each value: GoValue(Bytes(v)), PARAMS written+read by the library, reference ROWFMT2+ROW read by the library; non-trivial = value is not the Go type's zero value; distinct = distinct (variant, value), enumerated or de-duplicated"
	r.Assumptions = []string{
		"time values are in UTC in the main leg (a zone leg adds fixed offsets and named daylight-saving locations: the round trip of such a value must equal the round trip of its wall-clock reading or of its UTC instant); TIME/TIMEN/BIGTIMEN carry the time of day only, the date part of the decoded value is the library's choice and is not judged",
		"DATE values are midnights (the type's domain is days)",
		"UNITEXT values do not end in NUL (the decoder strips trailing NULs on purpose)",
		"a *Decimal without a number (asetypes.NullDecimal treats it as not valid) counts as NULL for MONEYN/DECN/NUMN",
		"'on the tick grid' is judged as: the decoded value re-encodes to the same bytes",
		"bare numeric bytes carry no precision/scale: GoValue(Bytes(v)) is compared by sign and unscaled integer, the PARAMS/ROW legs also by precision and scale",
		"NULL of the text-pointer family (zero-length text pointer) is not generated: the layout of what follows is C06/C10 ground",
		"UNICHAR/UNIVARCHAR have no data type token of their own in asetypes and are not covered",
		"values of the 4-byte-length types (LONGCHAR, LONGBINARY, TEXT, IMAGE, UNITEXT, XML) are sampled up to 100 000 bytes (quick) / 4 MiB (thorough), not up to 2^32-1; zero-length strings are not generated (they are NULL on the wire)",
		"the reference-row leg for the non-text-pointer types judges the library's decoding of a server's row (format + length prefix + reference data bytes)",
	}
	if !dtCommonSetup(c) {
		return
	}
	j := &c04Judge{c: c, agg: newDtAgg()}
	if c.Replay != nil {
		var zc c05ZoneCase
		if json.Unmarshal(c.Replay, &zc) == nil && zc.Zone == "zone" {
			if vr := dtFind(zc.Type); vr != nil {
				if w, err := time.Parse(time.RFC3339Nano, zc.Wall); err == nil {
					acc := newDtAcc(r)
					c04ZoneRoundTrip(r, acc, vr, w.UTC(), zc.Offset, zc.Loc)
					acc.flush()
				}
			}
			return
		}
		var cs dtCase
		if err := json.Unmarshal(c.Replay, &cs); err != nil {
			r.Inconclusive("bad replay: %v", err)
			return
		}
		vr := dtFind(cs.Type)
		if vr == nil {
			r.Inconclusive("bad replay: unknown type %q", cs.Type)
			return
		}
		acc := newDtAcc(r)
		if cs.Dir == "row-then-null" && vr.Class != refdata.ClassTextPtr {
			ml := vr.Len
			if vr.K == dkBytes || vr.K == dkStr {
				ml = len(cs.V.B)
				if vr.Class == refdata.ClassLen1 {
					ml = 255
				}
			}
			j.rowThenNull(acc, vr, &cs.V, ml, nil)
			acc.flush()
			j.agg.flush(r, true)
			return
		}
		j.replayPrev = cs.Prev
		if cs.PrevType != "" {
			j.replayPrevVr = dtFind(cs.PrevType)
		}
		j.visit(acc, vr, &cs.V, true)
		acc.flush()
		j.agg.flush(r, true)
		return
	}
	visit := dtSampling(c, j.visit)
	work := dtBuildWork(c, visit)
	work = append(work, func(acc *dtAcc) {
		dtZoneIter((&c05Judge{c: c}).zoneWalls(), func(vr *dtVariant, w time.Time, off int, ln string) { c04ZoneRoundTrip(r, acc, vr, w, off, ln) })
	})
	dtRun(c, work)
	j.agg.flush(r, false)
}

// dtSampling wraps a visit function so that one non-trivial case per type
// family is recorded as evidence sample.
func dtSampling(c *Ctx, inner dtVisit) dtVisit {
	var mu sync.Mutex
	var done int32
	sampled := map[string]bool{}
	return func(acc *dtAcc, vr *dtVariant, v *dtVal, pk bool) {
		inner(acc, vr, v, pk)
		if !pk || atomic.LoadInt32(&done) != 0 || !v.nonZero() || len(v.B) > 64 {
			return
		}
		mu.Lock()
		defer mu.Unlock()
		if sampled[vr.Fam] {
			return
		}
		sampled[vr.Fam] = true
		if len(sampled) >= 12 {
			atomic.StoreInt32(&done, 1)
		}
		enc := dtLibBytes(vr, dtToLib(vr, v), dtLengthArg(vr, v))
		cs := dtCase{Type: vr.label(), Dir: "value", V: *v, Wire: hex.EncodeToString(enc.bs)}
		cs.V.describe()
		c.R.Sample(vr.Fam, cs)
	}
}
