package main

import (
	"encoding/binary"
	"fmt"

	"github.com/SAP/go-dblib/asetypes"
	"github.com/SAP/go-dblib/tds"

	"verif/harness/rt"
)

// Valid encodings ("seeds") for the C10 workload: server-side encodings
// written by hand with the little builder below, plus — for every seed the
// library parses — what the library's own WriteTo produces for the parsed
// package (recorded in a PacketQueue), when that differs.

type c10Seed struct {
	Name  string
	Bytes []byte
	// TypeName is set for format(+data) seeds over one data type.
	TypeName string
	// FmtLen is the length of the leading format package (0 = none).
	FmtLen int
}

type c10bb struct{ b []byte }

func (x *c10bb) u8(v ...byte) *c10bb { x.b = append(x.b, v...); return x }
func (x *c10bb) u16(v uint16) *c10bb {
	x.b = binary.LittleEndian.AppendUint16(x.b, v)
	return x
}
func (x *c10bb) u32(v uint32) *c10bb {
	x.b = binary.LittleEndian.AppendUint32(x.b, v)
	return x
}
func (x *c10bb) s8(s string) *c10bb  { return x.u8(byte(len(s))).raw([]byte(s)) }
func (x *c10bb) s16(s string) *c10bb { return x.u16(uint16(len(s))).raw([]byte(s)) }
func (x *c10bb) s32(s string) *c10bb { return x.u32(uint32(len(s))).raw([]byte(s)) }
func (x *c10bb) raw(b []byte) *c10bb { x.b = append(x.b, b...); return x }

// len16 / len32 prefix a body with its length.
func c10Len16(tok byte, body []byte) []byte {
	return (&c10bb{}).u8(tok).u16(uint16(len(body))).raw(body).b
}
func c10Len32(tok byte, body []byte) []byte {
	return (&c10bb{}).u8(tok).u32(uint32(len(body))).raw(body).b
}

// ------------------------------------------------------------ data types

type c10Type struct {
	DT      asetypes.DataType
	Name    string
	FmtTail []byte // type-specific part of a format field
	Data    []byte // one valid data field (without status byte)
	LenSize int    // size of the data length prefix: 0 fixed, 1, 4; -1 = structured (text pointer / blob)
}

// c10Types lists every data type LookupFieldFmt knows.
func c10Types() []c10Type {
	var out []c10Type
	for i := 0; i < 256; i++ {
		dt := asetypes.DataType(i)
		f, err := tds.LookupFieldFmt(dt)
		if err != nil {
			continue
		}
		t := c10Type{DT: dt, Name: dt.String()}
		abc := []byte("abc")
		switch f.(type) {
		case *tds.BigDateTimeNFieldFmt, *tds.BigTimeNFieldFmt:
			t.FmtTail = []byte{8, 6}
			t.LenSize = 1
			t.Data = append([]byte{8}, 1, 2, 3, 4, 5, 0, 0, 0)
		case *tds.DecNFieldFmt, *tds.NumNFieldFmt:
			t.FmtTail = []byte{5, 10, 2}
			t.LenSize = 1
			t.Data = []byte{5, 0, 0, 0, 1, 2}
		case *tds.BlobFieldFmt:
			// length byte, blob type CHAR (no class id)
			t.FmtTail = []byte{0xff, byte(tds.TDS_BLOB_CHAR)}
			t.LenSize = -1
			// serialization 0, one chunk of 3 bytes, terminator with high bit
			t.Data = (&c10bb{}).u8(0).u32(3).raw(abc).u32(0x80000000).b
		case *tds.ImageFieldFmt, *tds.TextFieldFmt, *tds.UniTextFieldFmt, *tds.XMLFieldFmt:
			t.FmtTail = (&c10bb{}).u32(0x7fff).s16("tab").b
			t.LenSize = -1
			t.Data = (&c10bb{}).u8(2, 0xaa, 0xbb).raw([]byte{1, 2, 3, 4, 5, 6, 7, 8}).s32("abc").b
		default:
			switch {
			case dt.ByteSize() != -1:
				t.LenSize = 0
				t.Data = make([]byte, dt.ByteSize())
				t.Data[0] = 1
			case dt.LengthBytes() == 4:
				t.LenSize = 4
				t.FmtTail = (&c10bb{}).u32(0x7fff).b
				t.Data = (&c10bb{}).s32("abc").b
			default:
				t.LenSize = 1
				t.FmtTail = []byte{0xff}
				n := 3
				switch dt {
				case asetypes.INTN, asetypes.UINTN, asetypes.DATEN, asetypes.TIMEN:
					n = 4
				case asetypes.FLTN, asetypes.DATETIMEN, asetypes.MONEYN:
					n = 8
				}
				t.Data = append([]byte{byte(n)}, []byte{1, 2, 3, 0, 0, 0, 0, 0}[:n]...)
			}
		}
		out = append(out, t)
	}
	return out
}

const (
	c10ParamFmt  = byte(tds.TDS_PARAMFMT)
	c10ParamFmt2 = byte(tds.TDS_PARAMFMT2)
	c10RowFmt    = byte(tds.TDS_ROWFMT)
	c10RowFmt2   = byte(tds.TDS_ROWFMT2)
)

var c10FmtKinds = []byte{c10ParamFmt, c10ParamFmt2, c10RowFmt, c10RowFmt2}

func c10FmtName(kind byte) string {
	switch kind {
	case c10ParamFmt:
		return "PARAMFMT"
	case c10ParamFmt2:
		return "PARAMFMT2"
	case c10RowFmt:
		return "ROWFMT"
	}
	return "ROWFMT2"
}

type c10Col struct {
	T      c10Type
	Status uint32
}

// c10FmtField encodes one column of a format package.
func c10FmtField(kind byte, typeByte byte, tail []byte, status uint32) []byte {
	x := &c10bb{}
	if kind == c10RowFmt2 {
		x.s8("l").s8("c").s8("s").s8("t")
	}
	x.s8("a")
	if kind == c10ParamFmt2 || kind == c10RowFmt2 {
		x.u32(status)
	} else {
		x.u8(byte(status))
	}
	x.u32(7) // user type
	x.u8(typeByte)
	x.raw(tail)
	x.u8(0) // no locale info
	return x.b
}

// c10FmtPkg encodes a format package over the given columns.
func c10FmtPkg(kind byte, cols []c10Col) []byte {
	body := (&c10bb{}).u16(uint16(len(cols)))
	for _, c := range cols {
		body.raw(c10FmtField(kind, byte(c.T.DT), c.T.FmtTail, c.Status))
	}
	// fieldFmtBlob.ReadFrom under-reports the bytes it read by two (its
	// base reader returns LengthBytes() = -1 for BLOB), so ROWFMT/ROWFMT2
	// only accept a BLOB column when the declared total is two short. To
	// reach the blob data parser the encoder follows what the tree accepts.
	adj := 0
	if kind == c10RowFmt || kind == c10RowFmt2 {
		for _, c := range cols {
			if _, ok := c.T.fmtIsBlob(); ok {
				adj += c10BlobAdj()
			}
		}
	}
	return c10FmtWrapAdj(kind, body.b, adj)
}

func (t c10Type) fmtIsBlob() (struct{}, bool) {
	return struct{}{}, t.Name == "BLOB"
}

var c10BlobAdjVal = -1

func c10BlobAdj() int {
	if c10BlobAdjVal >= 0 {
		return c10BlobAdjVal
	}
	c10BlobAdjVal = 0
	body := (&c10bb{}).u16(1).raw(c10FmtField(c10RowFmt2, 0x24, []byte{0xff, byte(tds.TDS_BLOB_CHAR)}, 0)).b
	for _, adj := range []int{0, 2} {
		okAll := true
		c10ParseStream(c10FmtWrapAdj(c10RowFmt2, body, adj), false, nil, false, func(at *c10Attempt) {
			if at.Class != "ok" {
				okAll = false
			}
		})
		if okAll {
			c10BlobAdjVal = adj
			break
		}
	}
	return c10BlobAdjVal
}

// c10FmtWrap prefixes a format body with token and length. PARAMFMT has a
// 16-bit, PARAMFMT2/ROWFMT2 a 32-bit length; for ROWFMT the tree under test
// decides (it read 32 bits before "fix: TDS_ROWFMT carries a two byte
// length"): the width is probed once so that the format families start from
// an encoding the library accepts.
func c10FmtWrap(kind byte, body []byte) []byte { return c10FmtWrapAdj(kind, body, 0) }

// c10FmtWrapAdj declares a length that is adj bytes short of the body.
func c10FmtWrapAdj(kind byte, body []byte, adj int) []byte {
	x := (&c10bb{}).u8(kind)
	if kind == c10ParamFmt || (kind == c10RowFmt && c10RowFmt16()) {
		x.u16(uint16(len(body) - adj))
	} else {
		x.u32(uint32(len(body) - adj))
	}
	return x.raw(body).b
}

var c10RowFmtWidth = 0

func c10RowFmt16() bool {
	if c10RowFmtWidth == 0 {
		c10RowFmtWidth = 32
		body := (&c10bb{}).u16(1).raw(c10FmtField(c10RowFmt, 0x38, nil, 0)).b
		okAll := true
		c10ParseStream((&c10bb{}).u8(c10RowFmt).u16(uint16(len(body))).raw(body).b, false, nil, false, func(at *c10Attempt) {
			if at.Class != "ok" {
				okAll = false
			}
		})
		if okAll {
			c10RowFmtWidth = 16
		}
	}
	return c10RowFmtWidth == 16
}

func c10DataTok(kind byte) byte {
	if kind == c10ParamFmt || kind == c10ParamFmt2 {
		return byte(tds.TDS_PARAMS)
	}
	return byte(tds.TDS_ROW)
}

func c10HasStatus(status uint32) bool { return status&0x8 != 0 }

// c10RowPkg encodes the data package for cols from per-column data.
func c10RowPkg(kind byte, cols []c10Col, data [][]byte) []byte {
	x := (&c10bb{}).u8(c10DataTok(kind))
	for i, c := range cols {
		if c10HasStatus(c.Status) {
			x.u8(0)
		}
		x.raw(data[i])
	}
	return x.b
}

// c10KindStatus: narrow formats without, wide formats with column status.
func c10KindStatus(kind byte) uint32 {
	if kind == c10ParamFmt2 || kind == c10RowFmt2 {
		return 0x28
	}
	return 0
}

// ------------------------------------------------------------ packages

func c10BaseSeeds() []c10Seed {
	var s []c10Seed
	add := func(name string, b []byte) { s = append(s, c10Seed{Name: name, Bytes: b}) }

	done := func(tok byte) []byte { return (&c10bb{}).u8(tok).u16(0x10).u16(0).u32(3).b }
	add("DONE", done(0xFD))
	add("DONEPROC", done(0xFE))
	add("DONEINPROC", done(0xFF))
	add("DONE-final", (&c10bb{}).u8(0xFD).u16(0).u16(0).u32(0).b)

	eed := func(status byte) []byte {
		body := (&c10bb{}).u32(2601).u8(1, 14).s8("23000").u8(status).u16(1).s16("dup key\n").s8("srv").s8("proc").u16(12)
		return c10Len16(byte(tds.TDS_EED), body.b)
	}
	add("EED", eed(0))
	add("EED-info", eed(byte(tds.TDS_EED_INFO)))
	add("ERROR", c10Len16(byte(tds.TDS_ERROR), (&c10bb{}).u32(102).s16("syntax").s8("srv").s8("").u16(1).b))
	add("LOGINACK", c10Len16(byte(tds.TDS_LOGINACK), (&c10bb{}).u8(5).u8(5, 0, 0, 0).s8("ASE").u8(16, 0, 2, 0).b))
	add("MSG", (&c10bb{}).u8(byte(tds.TDS_MSG)).u8(3).u8(1).u16(uint16(tds.TDS_MSG_SEC_ENCRYPT4)).b)
	add("CAPABILITY", c10Len16(byte(tds.TDS_CAPABILITY), (&c10bb{}).u8(1, 3, 0x07, 0xff, 0x01).u8(2, 2, 0x00, 0x06).u8(3, 0).b))
	env := (&c10bb{}).u8(byte(tds.TDS_ENV_DB)).s8("master").s8("tempdb").u8(byte(tds.TDS_ENV_PACKSIZE)).s8("2048").s8("512")
	add("ENVCHANGE", c10Len16(byte(tds.TDS_ENVCHANGE), env.b))
	add("ENVCHANGE-badsize", c10Len16(byte(tds.TDS_ENVCHANGE), (&c10bb{}).u8(byte(tds.TDS_ENV_PACKSIZE)).s8("big").s8("").b))
	add("LANGUAGE", (&c10bb{}).u8(byte(tds.TDS_LANGUAGE)).u32(9).u8(0).raw([]byte("select 1")).b)
	add("RETURNSTATUS", (&c10bb{}).u8(byte(tds.TDS_RETURNSTATUS)).u32(0xfffffffe).b)
	add("LOGOUT", []byte{byte(tds.TDS_LOGOUT), 0})
	dyn := func(typ byte) *c10bb { return (&c10bb{}).u8(typ, 1).s8("stmt1") }
	add("DYNAMIC-ack", c10Len16(byte(tds.TDS_DYNAMIC), dyn(0x20).b))
	add("DYNAMIC-prepare", c10Len16(byte(tds.TDS_DYNAMIC), dyn(0x01).s16("select ?").b))
	add("DYNAMIC2-ack", c10Len32(byte(tds.TDS_DYNAMIC2), dyn(0x20).b))
	add("DYNAMIC2-prepare", c10Len32(byte(tds.TDS_DYNAMIC2), dyn(0x01).s32("select ?").b))
	add("CURDECLARE", c10Len16(byte(tds.TDS_CURDECLARE), (&c10bb{}).s8("cur").u8(1).u8(0).s16("select 1").u16(2).s8("a").s8("bc").b))
	add("CURDECLARE3", c10Len32(byte(tds.TDS_CURDECLARE3), (&c10bb{}).s8("cur").u32(1).u8(0).s32("select 1").u16(1).s8("a").b))
	add("CURINFO", c10Len16(byte(tds.TDS_CURINFO), (&c10bb{}).u32(5).u8(3).u16(0x22).u32(10).b))
	add("CURINFO-name", c10Len16(byte(tds.TDS_CURINFO), (&c10bb{}).u32(0).s8("cur").u8(3).u16(0x02).b))
	add("CURINFO3", c10Len16(byte(tds.TDS_CURINFO3), (&c10bb{}).u32(5).u8(3).u32(0x22).u32(1).u32(9).u32(10).b))
	add("CUROPEN", c10Len16(byte(tds.TDS_CUROPEN), (&c10bb{}).u32(0).s8("cur").u8(0).b))
	add("CURFETCH", c10Len16(byte(tds.TDS_CURFETCH), (&c10bb{}).u32(5).u8(byte(tds.TDS_CUR_ABS)).u32(3).b))
	add("CURUPDATE", c10Len16(byte(tds.TDS_CURUPDATE), (&c10bb{}).u32(5).u8(0).s8("tab").s16("set a=1").b))
	add("CURDELETE", c10Len16(byte(tds.TDS_CURDELETE), (&c10bb{}).u32(0).s8("cur").u8(0).s8("tab").b))
	add("TOKENLESS", []byte{0x01, 2, 3, 4, 5, 6, 7, 8})

	// packages that need a preceding format
	types := c10Types()
	byName := map[string]c10Type{}
	for _, t := range types {
		byName[t.Name] = t
	}
	two := []c10Col{{T: byName["INT4"]}, {T: byName["VARCHAR"]}}
	rowfmt := c10FmtPkg(c10RowFmt, two)
	rowdata := [][]byte{byName["INT4"].Data, byName["VARCHAR"].Data}
	ob := (&c10bb{}).u8(byte(tds.TDS_ORDERBY)).u16(2).u8(1, 2).b
	s = append(s, c10Seed{Name: "ROWFMT+ORDERBY+ROW", FmtLen: len(rowfmt),
		Bytes: (&c10bb{}).raw(rowfmt).raw(ob).raw(c10RowPkg(c10RowFmt, two, rowdata)).b})
	ob2 := c10Len32(byte(tds.TDS_ORDERBY2), (&c10bb{}).u16(2).u16(1).u16(2).b)
	s = append(s, c10Seed{Name: "ROWFMT+ORDERBY2+ROW+ROW", FmtLen: len(rowfmt),
		Bytes: (&c10bb{}).raw(rowfmt).raw(ob2).raw(c10RowPkg(c10RowFmt, two, rowdata)).raw(c10RowPkg(c10RowFmt, two, rowdata)).b})
	s = append(s, c10Seed{Name: "ORDERBY-without-fmt", Bytes: ob})
	s = append(s, c10Seed{Name: "ROW-without-fmt", Bytes: []byte{byte(tds.TDS_ROW), 1, 2, 3, 4}})
	s = append(s, c10Seed{Name: "PARAMS-without-fmt", Bytes: []byte{byte(tds.TDS_PARAMS), 1, 2, 3, 4}})

	// login negotiation answer: LOGINACK(negotiate) MSG PARAMFMT PARAMS DONE
	neg := []c10Col{{T: byName["INT4"]}, {T: byName["LONGBINARY"]}, {T: byName["LONGBINARY"]}}
	negfmt := c10FmtPkg(c10ParamFmt, neg)
	negdata := [][]byte{{1, 0, 0, 0}, (&c10bb{}).s32("-----BEGIN RSA PUBLIC KEY-----\nAA==\n-----END RSA PUBLIC KEY-----\n").b, (&c10bb{}).s32("nonce").b}
	s = append(s, c10Seed{Name: "LOGINACK+MSG+PARAMFMT+PARAMS+DONE", Bytes: (&c10bb{}).
		raw(c10Len16(byte(tds.TDS_LOGINACK), (&c10bb{}).u8(7).u8(5, 0, 0, 0).s8("ASE").u8(16, 0, 2, 0).b)).
		raw((&c10bb{}).u8(byte(tds.TDS_MSG)).u8(3).u8(1).u16(uint16(tds.TDS_MSG_SEC_ENCRYPT4)).b).
		raw(negfmt).raw(c10RowPkg(c10ParamFmt, neg, negdata)).raw(done(0xFD)).b})

	// blob with class id, locator blob
	blob := byName["BLOB"]
	blobClass := blob
	blobClass.FmtTail = (&c10bb{}).u8(0xff, byte(tds.TDS_BLOB_FULLCLASSNAME)).s16("cls").b
	blobClass.Data = (&c10bb{}).u8(0).s16("sub").u32(2).raw([]byte("xy")).u32(0).u32(0x80000000).b
	bc := []c10Col{{T: blobClass}}
	f := c10FmtPkg(c10RowFmt, bc)
	s = append(s, c10Seed{Name: "ROWFMT:BLOB-class+ROW", TypeName: "BLOB", FmtLen: len(f),
		Bytes: append(append([]byte{}, f...), c10RowPkg(c10RowFmt, bc, [][]byte{blobClass.Data})...)})
	blobLoc := blob
	blobLoc.FmtTail = []byte{0xff, byte(tds.TDS_LOBLOC_CHAR)}
	blobLoc.Data = (&c10bb{}).u8(0).s16("loc").u32(0x80000000).b
	bl := []c10Col{{T: blobLoc}}
	f = c10FmtPkg(c10RowFmt2, bl)
	s = append(s, c10Seed{Name: "ROWFMT2:BLOB-locator+ROW", TypeName: "BLOB", FmtLen: len(f),
		Bytes: append(append([]byte{}, f...), c10RowPkg(c10RowFmt2, bl, [][]byte{blobLoc.Data})...)})
	return s
}

// c10TypeSeeds: format package over one column of every data type, followed
// by one valid data package; narrow formats without, wide with column status.
func c10TypeSeeds() []c10Seed {
	var s []c10Seed
	for _, t := range c10Types() {
		for _, kind := range c10FmtKinds {
			cols := []c10Col{{T: t, Status: c10KindStatus(kind)}}
			f := c10FmtPkg(kind, cols)
			b := append(append([]byte{}, f...), c10RowPkg(kind, cols, [][]byte{t.Data})...)
			s = append(s, c10Seed{Name: c10FmtName(kind) + ":" + t.Name, TypeName: t.Name, Bytes: b, FmtLen: len(f)})
		}
	}
	return s
}

// c10LibWritten: for every seed the library parses completely, let the
// library write the parsed packages back (WriteTo into a recording
// PacketQueue); where the bytes differ from the seed they are one more
// valid encoding.
func c10LibWritten(seeds []c10Seed) []c10Seed {
	var out []c10Seed
	for _, sd := range seeds {
		var pkgs []tds.Package
		ok := true
		c10ParseStream(sd.Bytes, false, nil, false, func(at *c10Attempt) {
			if at.Class != "ok" {
				ok = false
				return
			}
			pkgs = append(pkgs, at.Pkg)
		})
		if !ok || len(pkgs) == 0 {
			continue
		}
		q := tds.NewPacketQueue(func() int { return 60000 })
		wrote := true
		fmtLen := 0
		for i, p := range pkgs {
			var err error
			pi := rt.Catch(func() { err = p.WriteTo(q) })
			if pi != nil || err != nil {
				wrote = false
				break
			}
			if i == 0 && sd.FmtLen > 0 {
				_, fmtLen = q.Position()
			}
		}
		pk, n := q.Position()
		if !wrote || pk != 0 || n == 0 {
			continue
		}
		q.SetPosition(0, 0)
		b, err := q.Bytes(n)
		if err != nil || string(b) == string(sd.Bytes) {
			continue
		}
		out = append(out, c10Seed{Name: "lib:" + sd.Name, TypeName: sd.TypeName, Bytes: append([]byte{}, b...), FmtLen: fmtLen})
	}
	// packages the library can write from scratch (client-side packages)
	direct := map[string]tds.Package{}
	if p, err := tds.LookupPackage(tds.TDS_CURINFO3); err == nil {
		ci := p.(*tds.CurInfoPackage)
		ci.CursorID, ci.Command, ci.Status, ci.RowCount = 0, tds.TDS_CUR_CMD_INFORM, tds.TDS_CUR_ISTAT_ROWCNT|tds.TDS_CUR_ISTAT_OPEN, 4
		ci.Name = "c"
		direct["lib:CURINFO3-new"] = ci
	}
	if p, err := tds.NewCurDeclarePackage("cur", "select 2", tds.TDS_CUR_DSTAT_UNUSED, tds.TDS_CUR_DOPT_RDONLY); err == nil {
		direct["lib:CURDECLARE3-new"] = p
	}
	dp := tds.NewDynamicPackage(true)
	dp.Type, dp.ID, dp.Stmt = tds.TDS_DYN_PREPARE, "id", "select 3"
	direct["lib:DYNAMIC2-new"] = dp
	direct["lib:MSG-new"] = tds.NewMsgPackage(tds.TDS_MSG_HASARGS, tds.TDS_MSG_SEC_LOGPWD3)
	direct["lib:LANGUAGE-new"] = &tds.LanguagePackage{Cmd: "select 4"}
	direct["lib:LOGOUT-new"] = &tds.LogoutPackage{}
	direct["lib:ERROR-new"] = &tds.ErrorPackage{ErrorNumber: 1, State: 2, Class: 3, ErrorMsg: "m", ServerName: "s", ProcName: "p", LineNr: 4}
	direct["lib:CURFETCH-new"] = &tds.CurFetchPackage{Name: "c", Type: tds.TDS_CUR_NEXT}
	direct["lib:CUROPEN-new"] = &tds.CurOpenPackage{CursorID: 9}
	direct["lib:CURUPDATE-new"] = &tds.CurUpdatePackage{CursorID: 9, TableName: "t"}
	direct["lib:CURDELETE-new"] = &tds.CurDeletePackage{CursorID: 9, TableName: "t"}
	if caps, err := tds.NewCapabilityPackage([]tds.RequestCapability{tds.TDS_REQ_LANG, tds.TDS_DATA_INT8}, []tds.ResponseCapability{tds.TDS_RES_NO_TDSCONTROL}, nil); err == nil {
		direct["lib:CAPABILITY-new"] = caps
	}
	names := make([]string, 0, len(direct))
	for n := range direct {
		names = append(names, n)
	}
	sortStrings(names)
	for _, name := range names {
		p := direct[name]
		q := tds.NewPacketQueue(func() int { return 60000 })
		var err error
		if pi := rt.Catch(func() { err = p.WriteTo(q) }); pi != nil || err != nil {
			continue
		}
		pk, n := q.Position()
		if pk != 0 || n == 0 {
			continue
		}
		q.SetPosition(0, 0)
		b, err := q.Bytes(n)
		if err != nil {
			continue
		}
		out = append(out, c10Seed{Name: name, Bytes: append([]byte{}, b...)})
	}
	return out
}

func sortStrings(s []string) {
	for i := 1; i < len(s); i++ {
		for j := i; j > 0 && s[j] < s[j-1]; j-- {
			s[j], s[j-1] = s[j-1], s[j]
		}
	}
}

// c10Seeds is the complete, deterministic list of valid encodings.
func c10Seeds() []c10Seed {
	s := c10BaseSeeds()
	s = append(s, c10TypeSeeds()...)
	s = append(s, c10LibWritten(s)...)
	return s
}

// c10Unrouted seeds (packages LookupPackage never returns).
func c10UnroutedSeeds() []c10Seed {
	var s []c10Seed
	s = append(s, c10Seed{Name: "CURCLOSE", Bytes: c10Len16(byte(tds.TDS_CURCLOSE), (&c10bb{}).u32(0).s8("cur").u8(1).b)})
	s = append(s, c10Seed{Name: "OPTIONCMD", Bytes: c10Len16(byte(tds.TDS_OPTIONCMD), (&c10bb{}).u8(1, 5).s8("\x04\x00\x00\x00").b)})
	s = append(s, c10Seed{Name: "CONTROL", Bytes: []byte{byte(tds.TDS_CONTROL)}})
	for _, t := range c10Types() {
		if t.LenSize == -1 {
			continue
		}
		data := t.Data
		if t.LenSize == 4 {
			data = append([]byte{3}, []byte("abc")...)
		}
		s = append(s, c10Seed{Name: "KEY:" + t.Name, TypeName: t.Name, Bytes: append([]byte{byte(tds.TDS_KEY), byte(t.DT)}, data...)})
	}
	return s
}

func c10SeedByName(seeds []c10Seed, name string) *c10Seed {
	for i := range seeds {
		if seeds[i].Name == name {
			return &seeds[i]
		}
	}
	panic(fmt.Sprintf("c10: no seed %q", name))
}
