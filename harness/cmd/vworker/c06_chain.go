package main

import (
	"encoding/hex"
	"fmt"

	"github.com/SAP/go-dblib/tds"
)

// C06, chain leg: server packages are not decoded in isolation — a data
// package takes its format from what came before it (format, previous row,
// ORDERBY / ORDERBY2 in between, messages in between). The responses of the
// catalogue (hand-encoded, independent of the library's writers) are decoded
// package by package the way Channel.tryParsePackage does it; every package
// must decode and the bytes must be used up exactly.

type c06ChainCase struct {
	Chain string `json:"chain"` // response name
	Hex   string `json:"hex"`
}

func c06ChainRun(c *Ctx, resp response) {
	r := c.R
	r.Eval(1)
	body := resp.Bytes()
	cs := c06ChainCase{Chain: resp.Name, Hex: hex.EncodeToString(body)}
	q := newQueue(body)
	var prev tds.Package
	off := 0
	for i := 0; i < len(resp.Pkgs); i++ {
		res := parseFrom(q, prev)
		pos := flatPos(q, len(body))
		kind := fmt.Sprintf("%T", res.Pkg)
		switch {
		case res.Panic != nil:
			r.Violate("panic/"+res.Panic.Frame+"/chain", fmt.Sprintf("response %s: package %d (%s, after %T) panicked: %s", resp.Name, i, kind, prev, res.Panic.Value), cs)
			return
		case res.Err != nil:
			r.Violate("chain/"+res.Stage+"-error", fmt.Sprintf("response %s (package kinds %v): package %d at offset %d (%s, coming after %T) fails in stage %s: %v", resp.Name, resp.Kinds, i, off, kind, prev, res.Stage, res.Err), cs)
			return
		case pos != off+len(resp.Pkgs[i]):
			r.Violate("chain/wrong-length", fmt.Sprintf("response %s: package %d (%s) starts at offset %d and is %d bytes long, the reader stopped at offset %d", resp.Name, i, kind, off, len(resp.Pkgs[i]), pos), cs)
			return
		}
		off = pos
		// a message between a format and its data does not replace the format
		if _, isEED := res.Pkg.(*tds.EEDPackage); !isEED {
			prev = res.Pkg
		}
	}
	r.Count("chain_packages_decoded", int64(len(resp.Pkgs)))
	r.Distinct("chain|" + resp.Name)
}

func runC06Chains(c *Ctx) {
	for _, resp := range catalogue() {
		c06ChainRun(c, resp)
	}
}
