package main

import (
	"encoding/json"
	"fmt"
	"strings"
	"sync/atomic"

	"github.com/SAP/go-dblib/capability"

	"verif/harness/rt"
)

// C19 — a version has a capability exactly inside the capability's ranges.
//
// Events: error result of Target.Version / Target.SetCapabilities and
// Version.Has for every capability of the target.
// Oracle: an interval model over versions parsed and ordered by the check's
// own semantic-version parser (resp. the custom comparer's own order):
// capabilities in order, ranges in order; a range with a bound the comparer
// cannot parse, with lower >= upper, or evaluated for a version the comparer
// cannot parse => error; membership = (lower unset or lower <= v) and (upper
// unset or v < upper); first containing range => reported, and the remaining
// ranges of that capability are not evaluated; none => not reported.
// For input without any ill-formed element the library is additionally run on
// every permutation of the ranges of each capability and every permutation of
// the capabilities; the outcomes must be identical (model-independent).

func init() { register("C19", runC19) }

type c19Range struct {
	Lo string `json:"lo"`
	Hi string `json:"hi"`
}

type c19Cap struct {
	Ranges []c19Range `json:"ranges"`
	// ViaNew: built with NewCapability(desc, lo1, hi1, lo2, hi2, ...);
	// OddTail additionally drops a trailing "" (odd argument count).
	ViaNew  bool `json:"via_new_capability,omitempty"`
	OddTail bool `json:"odd_tail,omitempty"`
}

type c19Case struct {
	Comparer string   `json:"comparer"` // default-nil | default-explicit | reversed | int
	Caps     []c19Cap `json:"capabilities"`
	Version  string   `json:"version"`
	API      string   `json:"api"` // Version | SetCapabilities
	Perms    bool     `json:"permutations,omitempty"`
	// Reuse: the same Target and Capability objects are evaluated for
	// these (comparer, version) pairs one after the other
	Reuse []c19Step `json:"evaluated_one_after_the_other_on_the_same_objects,omitempty"`
}

type c19Step struct {
	Comparer string `json:"comparer"`
	Version  string `json:"version"`
}

// ------------------------------------------------------------------ own version orders

type c19Ver struct {
	core  [3]uint64
	segs  int
	pre   []string
	build bool
}

func c19Num(s string, leadingZeros bool) (uint64, bool) {
	if s == "" || len(s) > 18 {
		return 0, false
	}
	if !leadingZeros && len(s) > 1 && s[0] == '0' {
		return 0, false
	}
	var n uint64
	for i := 0; i < len(s); i++ {
		if s[i] < '0' || s[i] > '9' {
			return 0, false
		}
		n = n*10 + uint64(s[i]-'0')
	}
	return n, true
}

func c19Idents(s string) ([]string, bool) {
	parts := strings.Split(s, ".")
	for _, p := range parts {
		if p == "" {
			return nil, false
		}
		for i := 0; i < len(p); i++ {
			b := p[i]
			if !(b >= '0' && b <= '9' || b >= 'a' && b <= 'z' || b >= 'A' && b <= 'Z' || b == '-') {
				return nil, false
			}
		}
	}
	return parts, true
}

// c19ParseSemver: MAJOR[.MINOR[.PATCH]][-pre][+build] (semver.org 2.0.0,
// missing minor/patch read as 0).
func c19ParseSemver(s string) (c19Ver, bool) {
	var v c19Ver
	if i := strings.IndexByte(s, '+'); i >= 0 {
		if _, ok := c19Idents(s[i+1:]); !ok {
			return v, false
		}
		v.build = true
		s = s[:i]
	}
	if i := strings.IndexByte(s, '-'); i >= 0 {
		ids, ok := c19Idents(s[i+1:])
		if !ok {
			return v, false
		}
		for _, id := range ids {
			if _, isnum := c19Num(id, true); isnum {
				if _, strict := c19Num(id, false); !strict {
					return v, false
				}
			}
		}
		v.pre = ids
		s = s[:i]
	}
	segs := strings.Split(s, ".")
	if len(segs) < 1 || len(segs) > 3 {
		return v, false
	}
	for i, g := range segs {
		n, ok := c19Num(g, false)
		if !ok {
			return v, false
		}
		v.core[i] = n
	}
	v.segs = len(segs)
	return v, true
}

func c19CmpSemver(a, b c19Ver) int {
	for i := 0; i < 3; i++ {
		if a.core[i] != b.core[i] {
			if a.core[i] < b.core[i] {
				return -1
			}
			return 1
		}
	}
	switch {
	case len(a.pre) == 0 && len(b.pre) == 0:
		return 0
	case len(a.pre) == 0:
		return 1
	case len(b.pre) == 0:
		return -1
	}
	for i := 0; i < len(a.pre) && i < len(b.pre); i++ {
		x, y := a.pre[i], b.pre[i]
		nx, xn := c19Num(x, false)
		ny, yn := c19Num(y, false)
		switch {
		case xn && yn:
			if nx != ny {
				if nx < ny {
					return -1
				}
				return 1
			}
		case xn:
			return -1
		case yn:
			return 1
		default:
			if x != y {
				if x < y {
					return -1
				}
				return 1
			}
		}
	}
	switch {
	case len(a.pre) < len(b.pre):
		return -1
	case len(a.pre) > len(b.pre):
		return 1
	}
	return 0
}

// c19Order is a version order as the oracle sees it, plus the comparer the
// library gets for it (nil = the library's default).
type c19Order struct {
	name  string
	parse func(s string) bool
	cmp   func(a, b string) int // only for parsable a, b
	lib   capability.VersionComparer
}

func c19SemverOK(s string) bool { _, ok := c19ParseSemver(s); return ok }
func c19SemverCmp(a, b string) int {
	x, _ := c19ParseSemver(a)
	y, _ := c19ParseSemver(b)
	return c19CmpSemver(x, y)
}
func c19IntOK(s string) bool { _, ok := c19Num(s, true); return ok }
func c19IntCmp(a, b string) int {
	x, _ := c19Num(a, true)
	y, _ := c19Num(b, true)
	switch {
	case x < y:
		return -1
	case x > y:
		return 1
	}
	return 0
}

func c19Custom(parse func(string) bool, cmp func(a, b string) int) capability.VersionComparer {
	return func(a, b string) (int, error) {
		if !parse(a) {
			return 0, fmt.Errorf("custom comparer: cannot parse %q", a)
		}
		if !parse(b) {
			return 0, fmt.Errorf("custom comparer: cannot parse %q", b)
		}
		return cmp(a, b), nil
	}
}

func c19GetOrder(name string) *c19Order {
	switch name {
	case "default-nil":
		return &c19Order{name, c19SemverOK, c19SemverCmp, nil}
	case "default-explicit":
		return &c19Order{name, c19SemverOK, c19SemverCmp, capability.VersionCompareSemantic}
	case "reversed":
		rev := func(a, b string) int { return -c19SemverCmp(a, b) }
		return &c19Order{name, c19SemverOK, rev, c19Custom(c19SemverOK, rev)}
	case "int":
		return &c19Order{name, c19IntOK, c19IntCmp, c19Custom(c19IntOK, c19IntCmp)}
	}
	return nil
}

// ------------------------------------------------------------------ interval model

type c19Outcome struct {
	mustErr bool
	why     string // which clause demands the error
	mayErr  bool   // an ill-formed element exists that is never evaluated: error or answer are both fine
	has     []bool
}

// c19Model walks capabilities and ranges in order. doubleOpen selects the
// reading of a range without any bound: false = "no range" (skipped),
// true = unbounded on both sides (contains everything).
func c19Model(o *c19Order, caps []c19Cap, v string, doubleOpen bool) c19Outcome {
	out := c19Outcome{has: make([]bool, len(caps))}
	vOK := o.parse(v)
	illFormed := func(r c19Range) string {
		if r.Lo == "" && r.Hi == "" {
			return ""
		}
		if (r.Lo != "" && !o.parse(r.Lo)) || (r.Hi != "" && !o.parse(r.Hi)) {
			return "unparsable-bound"
		}
		if r.Lo != "" && r.Hi != "" {
			switch c := o.cmp(r.Lo, r.Hi); {
			case c == 0:
				return "zero-width-range"
			case c > 0:
				return "inverted-range"
			}
		}
		return ""
	}
	vEvaluated := false
	for i, c := range caps {
		for j, r := range c.Ranges {
			if r.Lo == "" && r.Hi == "" {
				if doubleOpen {
					out.has[i] = true
				}
			} else {
				if why := illFormed(r); why != "" {
					return c19Outcome{mustErr: true, why: why}
				}
				vEvaluated = true
				if !vOK {
					return c19Outcome{mustErr: true, why: "unparsable-version"}
				}
				if (r.Lo == "" || o.cmp(r.Lo, v) <= 0) && (r.Hi == "" || o.cmp(v, r.Hi) < 0) {
					out.has[i] = true
				}
			}
			if out.has[i] {
				for _, rest := range c.Ranges[j+1:] {
					if illFormed(rest) != "" {
						out.mayErr = true
					}
				}
				break
			}
		}
	}
	if !vOK && !vEvaluated {
		out.mayErr = true
	}
	return out
}

func c19WellFormed(o *c19Order, caps []c19Cap, v string) bool {
	if !o.parse(v) {
		return false
	}
	for _, c := range caps {
		for _, r := range c.Ranges {
			if (r.Lo != "" && !o.parse(r.Lo)) || (r.Hi != "" && !o.parse(r.Hi)) {
				return false
			}
			if r.Lo != "" && r.Hi != "" && o.cmp(r.Lo, r.Hi) >= 0 {
				return false
			}
		}
	}
	return true
}

// ------------------------------------------------------------------ the library side

type c19Obs struct {
	err error
	has []bool
	pi  *rt.PanicInfo
	bad string // structural oddity (nil version without error)
}

// c19Alias holds the description of a write into the caller's slice seen by
// c19Build (reported by the case that ran it).
var c19Alias atomic.Value

func c19Build(c c19Cap, i int, literal bool) *capability.Capability {
	desc := fmt.Sprintf("cap%d", i)
	if c.ViaNew && !literal {
		var args []string
		for _, r := range c.Ranges {
			args = append(args, r.Lo, r.Hi)
		}
		if c.OddTail && len(args) > 0 && args[len(args)-1] == "" {
			args = args[:len(args)-1]
		}
		// the bounds come from a table of the application: a sub-slice with
		// spare capacity behind it, which NewCapability has no business
		// writing to (a later capability built from the table would change)
		table := make([]string, len(args)+2)
		copy(table, args)
		table[len(args)], table[len(args)+1] = "9.9.9-next-entry", "9.9.9-last-entry"
		before := append([]string(nil), table...)
		cp := capability.NewCapability(desc, table[:len(args)]...)
		for k := range table {
			if table[k] != before[k] {
				c19Alias.Store(fmt.Sprintf("NewCapability(%q, table[:%d]...) changed table[%d] of the caller's slice from %q to %q (table %q)", desc, len(args), k, before[k], table[k], before))
			}
		}
		return cp
	}
	cp := &capability.Capability{Description: desc}
	for _, r := range c.Ranges {
		cp.VersionRanges = append(cp.VersionRanges, capability.VersionRange{Introduced: r.Lo, Removed: r.Hi})
	}
	return cp
}

func c19Lib(o *c19Order, caps []c19Cap, version, api string, literal bool) c19Obs {
	var ob c19Obs
	ob.pi = rt.Catch(func() {
		t := capability.Target{VersionComparer: o.lib}
		ptrs := make([]*capability.Capability, len(caps))
		for i, c := range caps {
			ptrs[i] = c19Build(c, i, literal)
			t.Capabilities = append(t.Capabilities, ptrs[i])
		}
		var v capability.Version
		if api == "SetCapabilities" {
			v = capability.NewDefaultVersion(version)
			ob.err = t.SetCapabilities(v)
		} else {
			v, ob.err = t.Version(version)
			if ob.err == nil && v == nil {
				ob.bad = "Target.Version returned (nil, nil)"
				return
			}
		}
		if ob.err != nil {
			return
		}
		if v.VersionString() != version {
			ob.bad = fmt.Sprintf("VersionString() = %q, want %q", v.VersionString(), version)
			return
		}
		ob.has = make([]bool, len(caps))
		for i, p := range ptrs {
			ob.has[i] = v.Has(p)
		}
	})
	return ob
}

// c19OwnVersion is an application's own Version type (the interface is
// meant to be satisfied by callers): one object whose spec changes, e.g. on
// reconnect to an upgraded server, and that is evaluated again.
type c19OwnVersion struct {
	spec string
	caps map[*capability.Capability]bool
}

func (v *c19OwnVersion) VersionString() string                          { return v.spec }
func (v *c19OwnVersion) SetCapability(c *capability.Capability, b bool) { v.caps[c] = b }
func (v *c19OwnVersion) Has(c *capability.Capability) bool              { return v.caps[c] }

// c19Reuse evaluates the steps one after the other on ONE Target with ONE
// set of Capability objects and compares every outcome with the outcome on
// freshly built objects: an evaluation must not depend on earlier ones.
func c19Reuse(r *rt.Result, l *c19Local, cs c19Case) {
	var t capability.Target
	ptrs := make([]*capability.Capability, len(cs.Caps))
	for i, c := range cs.Caps {
		ptrs[i] = c19Build(c, i, false)
		t.Capabilities = append(t.Capabilities, ptrs[i])
	}
	own := &c19OwnVersion{caps: map[*capability.Capability]bool{}}
	for si, st := range cs.Reuse {
		o := c19GetOrder(st.Comparer)
		if o == nil {
			return
		}
		// the same Version object evaluated again with another spec
		var oerr error
		var ohas []bool
		opi := rt.Catch(func() {
			t.VersionComparer = o.lib
			own.spec = st.Version
			oerr = t.SetCapabilities(own)
			if oerr == nil {
				ohas = make([]bool, len(ptrs))
				for i, p := range ptrs {
					ohas[i] = own.Has(p)
				}
			}
		})
		var ob c19Obs
		ob.pi = rt.Catch(func() {
			t.VersionComparer = o.lib
			var v capability.Version
			if cs.API == "SetCapabilities" {
				v = capability.NewDefaultVersion(st.Version)
				ob.err = t.SetCapabilities(v)
			} else {
				v, ob.err = t.Version(st.Version)
			}
			if ob.err != nil || v == nil {
				return
			}
			ob.has = make([]bool, len(ptrs))
			for i, p := range ptrs {
				ob.has[i] = v.Has(p)
			}
		})
		fresh := c19Lib(o, cs.Caps, st.Version, cs.API, false)
		r.Eval(1)
		l.ctr["reuse_evaluations"]++
		if fresh.pi != nil || fresh.bad != "" {
			return // reported by the plain case
		}
		if ob.pi != nil {
			r.Violate("panic/"+ob.pi.Frame+"/reuse", fmt.Sprintf("evaluation %d on reused objects panicked: %s", si+1, ob.pi.Value), cs)
			return
		}
		if (ob.err != nil) != (fresh.err != nil) || (ob.err == nil && !c19HasEq(ob.has, fresh.has)) {
			r.Violate("reuse/outcome-depends-on-earlier-evaluation", fmt.Sprintf("capabilities %s: evaluation %d (comparer %s, version %q) on objects that had been evaluated before (%v) gives %s, the same evaluation on freshly built objects gives %s", c19Describe(cs.Caps), si+1, st.Comparer, st.Version, cs.Reuse[:si], c19OutcomeStr(ob), c19OutcomeStr(fresh)), cs)
			return
		}
		if opi != nil {
			r.Violate("panic/"+opi.Frame+"/reuse", fmt.Sprintf("evaluation %d of a reused Version object panicked: %s", si+1, opi.Value), cs)
			return
		}
		if freshSC := c19Lib(o, cs.Caps, st.Version, "SetCapabilities", false); freshSC.pi == nil && freshSC.bad == "" {
			if (oerr != nil) != (freshSC.err != nil) || (oerr == nil && !c19HasEq(ohas, freshSC.has)) {
				r.Violate("reuse/version-object-keeps-earlier-answers", fmt.Sprintf("capabilities %s: one Version object evaluated with SetCapabilities for the specs %v in turn reports %v (err=%v) after the last one; a fresh version with spec %q reports %s", c19Describe(cs.Caps), cs.Reuse[:si+1], ohas, oerr, st.Version, c19OutcomeStr(freshSC)), cs)
				return
			}
			l.ctr["reuse_version_object_evaluations"]++
		}
		if si > 0 {
			l.ctr["reuse_same_as_fresh"]++
		}
	}
}

func c19HasEq(a, b []bool) bool {
	if len(a) != len(b) {
		return false
	}
	for i := range a {
		if a[i] != b[i] {
			return false
		}
	}
	return true
}

func c19Acceptable(ob c19Obs, m c19Outcome) bool {
	switch {
	case m.mustErr:
		return ob.err != nil
	case ob.err != nil:
		return m.mayErr
	}
	return c19HasEq(ob.has, m.has)
}

// ------------------------------------------------------------------ judging

type c19Local struct {
	ctr  map[string]int64
	sets map[string]struct{}
	dn   int64
}

func newC19Local() *c19Local {
	return &c19Local{ctr: map[string]int64{}, sets: map[string]struct{}{}}
}

func (l *c19Local) flush(r *rt.Result) {
	for k, n := range l.ctr {
		r.Count(k, n)
	}
	for k := range l.sets {
		r.SetAdd("shape_versionclass_outcome", k)
	}
	r.DistinctN(l.dn)
}

func c19Shape(caps []c19Cap) string {
	var sb strings.Builder
	for i, c := range caps {
		if i > 0 {
			sb.WriteByte('|')
		}
		if len(c.Ranges) == 0 {
			sb.WriteString("none")
		}
		for j, r := range c.Ranges {
			if j > 0 {
				sb.WriteByte(',')
			}
			switch {
			case r.Lo == "" && r.Hi == "":
				sb.WriteString("--")
			case r.Hi == "":
				sb.WriteString("L-")
			case r.Lo == "":
				sb.WriteString("-U")
			default:
				sb.WriteString("LU")
			}
		}
	}
	return sb.String()
}

func c19VClass(o *c19Order, v string) string {
	if !o.parse(v) {
		return "unparsable"
	}
	if o.name == "int" {
		return "integer"
	}
	pv, _ := c19ParseSemver(v)
	switch {
	case len(pv.pre) > 0:
		return "prerelease"
	case pv.build:
		return "build-metadata"
	case pv.segs < 3:
		return "short-form"
	}
	return "release"
}

func c19OutcomeStr(ob c19Obs) string {
	if ob.err != nil {
		return "error"
	}
	b := make([]byte, len(ob.has))
	for i, h := range ob.has {
		b[i] = '0'
		if h {
			b[i] = '1'
		}
	}
	return "has=" + string(b)
}

// c19Position: where v lies relative to a single well-formed range.
func c19Position(o *c19Order, r c19Range, v string) string {
	shape := "both-bounds"
	switch {
	case r.Lo == "" && r.Hi == "":
		return "no-bounds"
	case r.Hi == "":
		shape = "lower-only"
	case r.Lo == "":
		shape = "upper-only"
	}
	switch {
	case r.Lo != "" && o.cmp(r.Lo, v) == 0:
		return shape + "/at-lower"
	case r.Hi != "" && o.cmp(v, r.Hi) == 0:
		return shape + "/at-upper"
	case r.Lo != "" && o.cmp(v, r.Lo) < 0:
		return shape + "/below-lower"
	case r.Hi != "" && o.cmp(v, r.Hi) > 0:
		return shape + "/above-upper"
	}
	return shape + "/inside"
}

func c19Nontrivial(o *c19Order, cs c19Case) bool {
	vOK := o.parse(cs.Version)
	for _, c := range cs.Caps {
		if len(c.Ranges) >= 2 {
			return true
		}
		for _, r := range c.Ranges {
			for _, b := range []string{r.Lo, r.Hi} {
				if vOK && b != "" && o.parse(b) && o.cmp(b, cs.Version) == 0 {
					return true
				}
			}
		}
	}
	return false
}

func c19Perms(n int) [][]int {
	var out [][]int
	var rec func(cur []int, used uint)
	rec = func(cur []int, used uint) {
		if len(cur) == n {
			out = append(out, append([]int(nil), cur...))
			return
		}
		for i := 0; i < n; i++ {
			if used&(1<<uint(i)) == 0 {
				rec(append(cur, i), used|1<<uint(i))
			}
		}
	}
	rec(nil, 0)
	return out
}

var c19PermTab = func() [][][]int {
	t := make([][][]int, 6)
	for n := range t {
		t[n] = c19Perms(n)
	}
	return t
}()

// c19Exec runs one case. enumerated = distinct by construction.
func c19Exec(r *rt.Result, l *c19Local, cs c19Case, enumerated bool) {
	o := c19GetOrder(cs.Comparer)
	if o == nil || len(cs.Caps) > 5 {
		r.Inconclusive("C19: bad case (comparer %q, %d capabilities)", cs.Comparer, len(cs.Caps))
		return
	}
	for _, c := range cs.Caps {
		if len(c.Ranges) > 5 {
			r.Inconclusive("C19: bad case (more than 5 ranges)")
			return
		}
	}
	r.Eval(1)
	l.ctr["cases"]++
	mA := c19Model(o, cs.Caps, cs.Version, false)
	mB := mA
	doubleOpen := false
	for _, c := range cs.Caps {
		for _, rg := range c.Ranges {
			if rg.Lo == "" && rg.Hi == "" {
				doubleOpen = true
			}
		}
	}
	if doubleOpen {
		mB = c19Model(o, cs.Caps, cs.Version, true)
	}
	ob := c19Lib(o, cs.Caps, cs.Version, cs.API, false)
	if c19Nontrivial(o, cs) {
		if enumerated {
			l.dn++
		} else {
			b, _ := json.Marshal(cs.Caps)
			r.Distinct(cs.Comparer + "\x00" + cs.Version + "\x00" + string(b))
		}
	}
	if v := c19Alias.Load(); v != nil && v.(string) != "" {
		c19Alias.Store("")
		r.Violate("newcapability/writes-to-the-callers-slice", v.(string), cs)
		return
	}
	if ob.pi != nil {
		r.Violate("panic/"+ob.pi.Frame, fmt.Sprintf("%s on version %q panicked: %s", cs.API, cs.Version, ob.pi.Value), cs)
		return
	}
	if ob.bad != "" {
		r.Violate("version-object/"+cs.API, ob.bad, cs)
		return
	}
	l.sets[o.name+":"+c19Shape(cs.Caps)+":"+c19VClass(o, cs.Version)+":"+c19OutcomeStr(ob)] = struct{}{}
	okA, okB := c19Acceptable(ob, mA), c19Acceptable(ob, mB)
	if doubleOpen && (mA.mustErr != mB.mustErr || !c19HasEq(mA.has, mB.has)) {
		// a range without any bound decides the outcome: not judged which reading is used
		switch {
		case okA:
			l.ctr["unjudged_range_without_bounds_read_as_no_range"]++
		case okB:
			l.ctr["unjudged_range_without_bounds_read_as_unbounded"]++
		}
	}
	if !okA && !okB {
		sig, detail := c19Explain(o, cs, ob, mA)
		// is the pairing of NewCapability at fault?
		viaNew := false
		for _, c := range cs.Caps {
			viaNew = viaNew || c.ViaNew
		}
		if viaNew {
			lit := c19Lib(o, cs.Caps, cs.Version, cs.API, true)
			if lit.pi == nil && lit.bad == "" && (c19Acceptable(lit, mA) || c19Acceptable(lit, mB)) {
				sig = "newcapability-pairing/" + sig
				detail += " — with the same ranges given as VersionRange literals the outcome is as expected, so NewCapability paired the bounds differently from 'lower, upper, lower, upper, ... (a last single one has no upper bound)'"
			}
		}
		r.Violate(sig, detail, cs)
		return
	}
	switch {
	case mA.mustErr:
		l.ctr["errors_as_required/"+mA.why]++
	case mA.mayErr:
		if ob.err != nil {
			l.ctr["unjudged_unevaluated_ill_formed_element_error"]++
		} else {
			l.ctr["unjudged_unevaluated_ill_formed_element_no_error"]++
		}
	default:
		l.ctr["answers_as_model"]++
	}
	if !cs.Perms || ob.err != nil || !c19WellFormed(o, cs.Caps, cs.Version) {
		return
	}
	// ---- permutation invariance on well-formed input (library against itself)
	for ci, c := range cs.Caps {
		k := len(c.Ranges)
		if k < 2 {
			continue
		}
		for _, perm := range c19PermTab[k][1:] {
			pc := append([]c19Cap(nil), cs.Caps...)
			nr := make([]c19Range, k)
			for a, b := range perm {
				nr[a] = c.Ranges[b]
			}
			pc[ci] = c19Cap{Ranges: nr, ViaNew: c.ViaNew, OddTail: c.OddTail}
			r.Eval(1)
			l.ctr["permuted_runs"]++
			po := c19Lib(o, pc, cs.Version, cs.API, false)
			if po.pi != nil || po.bad != "" || po.err != nil || !c19HasEq(po.has, ob.has) {
				r.Violate("permutation/range-order", fmt.Sprintf("version %q: capability %d with ranges %v gives %s, with the ranges reordered to %v gives %s (err=%v)", cs.Version, ci, c.Ranges, c19OutcomeStr(ob), nr, c19OutcomeStr(po), po.err), cs)
				return
			}
		}
	}
	if m := len(cs.Caps); m >= 2 {
		for _, perm := range c19PermTab[m][1:] {
			pc := make([]c19Cap, m)
			for a, b := range perm {
				pc[a] = cs.Caps[b]
			}
			r.Eval(1)
			l.ctr["permuted_runs"]++
			po := c19Lib(o, pc, cs.Version, cs.API, false)
			back := make([]bool, m)
			if po.has != nil {
				for a, b := range perm {
					back[b] = po.has[a]
				}
			}
			if po.pi != nil || po.bad != "" || po.err != nil || !c19HasEq(back, ob.has) {
				r.Violate("permutation/capability-order", fmt.Sprintf("version %q: capabilities in the given order give %s, in order %v they give (mapped back) %v (err=%v)", cs.Version, c19OutcomeStr(ob), perm, back, po.err), cs)
				return
			}
		}
	}
}

// c19Explain names the clause that fails, relative to the model outcome m.
func c19Explain(o *c19Order, cs c19Case, ob c19Obs, m c19Outcome) (sig, detail string) {
	what := fmt.Sprintf("comparer %s, %s(%q), capabilities %s", cs.Comparer, cs.API, cs.Version, c19Describe(cs.Caps))
	switch {
	case m.mustErr && ob.err == nil:
		return "error-missing/" + m.why, fmt.Sprintf("%s: no error, answer %s; the model reaches a %s before any answer, want an error", what, c19OutcomeStr(ob), m.why)
	case ob.err != nil:
		return "error-spurious/well-formed-input", fmt.Sprintf("%s: error %v; every evaluated element is well-formed, want %v", what, ob.err, m.has)
	}
	for i := range m.has {
		if i >= len(ob.has) || ob.has[i] == m.has[i] {
			continue
		}
		c := cs.Caps[i]
		dir := "missing-report"
		if ob.has[i] {
			dir = "spurious-report"
		}
		pos := "multi-range"
		switch len(c.Ranges) {
		case 0:
			return "no-range/reported", fmt.Sprintf("%s: capability %d has no range but Has() = true", what, i)
		case 1:
			pos = c19Position(o, c.Ranges[0], cs.Version)
		}
		return "membership/" + dir + "/" + pos, fmt.Sprintf("%s: Has(capability %d) = %v, interval model says %v (library answers %v, model %v)", what, i, ob.has[i], m.has[i], ob.has, m.has)
	}
	return "membership/other", what
}

func c19Describe(caps []c19Cap) string {
	var parts []string
	for _, c := range caps {
		var rs []string
		for _, r := range c.Ranges {
			rs = append(rs, fmt.Sprintf("[%q,%q)", r.Lo, r.Hi))
		}
		s := "{" + strings.Join(rs, " ") + "}"
		if c.ViaNew {
			s += "(NewCapability)"
		}
		parts = append(parts, s)
	}
	return strings.Join(parts, " ")
}

// ------------------------------------------------------------------ workload

var c19Grid = []string{
	"0.0.1", "0.9", "0.9.0", "0.9.9", "1", "1.0", "1.0.0",
	"1.0.0-0.3.7", "1.0.0-1", "1.0.0-alpha", "1.0.0-alpha.1", "1.0.0-alpha.2", "1.0.0-alpha.11",
	"1.0.0-beta", "1.0.0-beta.2", "1.0.0-beta.11", "1.0.0-rc.1", "1.0.0-rc.1+build.5", "1.0.0+b7",
	"1.0.1", "1.2.3", "1.9.0", "1.10.0", "1.10.1", "2.0.0-rc.1", "2.0.0", "2.1.0", "10.0.0", "16.0.2", "16.0.3-sp1",
}
var c19Bad = []string{"abc", "1.x", "1..2", ".1", "1.0.0+"}

// sub-grids for the two-range enumerations
var c19GridQ = []string{"0.9", "1", "1.0.0", "1.0.0-alpha", "1.0.0-beta.2", "1.0.0+b7", "1.9.0", "1.10.0", "2.0.0"}
var c19GridT = []string{"0.9", "0.9.0", "1", "1.0.0", "1.0.0-1", "1.0.0-alpha", "1.0.0-alpha.2", "1.0.0-alpha.11", "1.0.0-beta.2", "1.0.0-rc.1", "1.0.0-rc.1+build.5", "1.0.0+b7", "1.0.1", "1.9.0", "1.10.0", "2.0.0-rc.1", "2.0.0", "16.0.3-sp1"}

var c19IntGrid = []string{"0", "1", "2", "5", "7", "007", "10", "16", "100"}
var c19IntBad = []string{"abc", "1.0"}

// semver corner cases on which parsers legitimately differ (prefix "v", four
// segments, leading zeros, pre-release without hyphen, shorter pre-release
// before a non-numeric field): observed, never judged
var c19Corner = []string{"v1.0.0", "1.2.3.4", "01.0.0", "1.0.0beta", "1.0.0-", "1.0.0-alpha.beta", "1.0.0-01", "1.0.0-alpha..1", " 1.0.0", "1.0.0 "}

func c19CrossCheck(r *rt.Result) {
	l := newC19Local()
	defer l.flush(r)
	all := append(append(append([]string{}, c19Grid...), c19Bad...), "")
	class := func(s string) string { return c19VClass(c19GetOrder("default-nil"), s) }
	for _, a := range all {
		for _, b := range all {
			r.Eval(1)
			var got int
			var err error
			cs := map[string]string{"compare_a": a, "compare_b": b}
			if pi := rt.Catch(func() { got, err = capability.VersionCompareSemantic(a, b) }); pi != nil {
				r.Violate("panic/"+pi.Frame, fmt.Sprintf("VersionCompareSemantic(%q,%q) panicked: %s", a, b, pi.Value), cs)
				continue
			}
			okA, okB := c19SemverOK(a), c19SemverOK(b)
			switch {
			case (!okA || !okB) && err == nil:
				r.Violate("comparer/default/unparsable-accepted", fmt.Sprintf("VersionCompareSemantic(%q,%q) = (%d, nil); one side is not a semantic version, want an error", a, b, got), cs)
			case okA && okB && err != nil:
				r.Violate("comparer/default/grid-version-rejected", fmt.Sprintf("VersionCompareSemantic(%q,%q) = error %v; both are semantic versions", a, b, err), cs)
			case okA && okB:
				want := c19SemverCmp(a, b)
				sgn := 0
				switch {
				case got < 0:
					sgn = -1
				case got > 0:
					sgn = 1
				}
				if sgn != want {
					r.Violate("comparer/default/order/"+class(a)+"-vs-"+class(b), fmt.Sprintf("VersionCompareSemantic(%q,%q) = %d, semver precedence says %d", a, b, got, want), cs)
				} else {
					l.ctr["comparer_crosscheck_agree"]++
				}
			default:
				l.ctr["comparer_crosscheck_both_reject"]++
			}
		}
	}
	for _, a := range c19Corner {
		for _, b := range append([]string{"1.0.0", "1.0.0-alpha"}, c19Corner...) {
			var got int
			var err error
			if pi := rt.Catch(func() { got, err = capability.VersionCompareSemantic(a, b) }); pi != nil {
				r.Violate("panic/"+pi.Frame, fmt.Sprintf("VersionCompareSemantic(%q,%q) panicked: %s", a, b, pi.Value), map[string]string{"compare_a": a, "compare_b": b})
				continue
			}
			okA, okB := c19SemverOK(a), c19SemverOK(b)
			switch {
			case (okA && okB) != (err == nil):
				l.ctr["unjudged_corner_spelling_parse_differs"]++
			case err == nil && (got < 0) != (c19SemverCmp(a, b) < 0) || err == nil && (got > 0) != (c19SemverCmp(a, b) > 0):
				l.ctr["unjudged_corner_spelling_order_differs"]++
			default:
				l.ctr["unjudged_corner_spelling_same"]++
			}
		}
	}
}

func c19API(i int) string {
	if i%2 == 0 {
		return "Version"
	}
	return "SetCapabilities"
}

func c19RandCase(rnd *rt.Rand, comparer string, grid, bad []string) c19Case {
	cs := c19Case{Comparer: comparer, Perms: true, API: c19API(rnd.Intn(2))}
	bound := func() string {
		switch k := rnd.Intn(40); {
		case k < 6:
			return ""
		case k == 6:
			return bad[rnd.Intn(len(bad))]
		}
		return grid[rnd.Intn(len(grid))]
	}
	ncap := rnd.Range(1, 3)
	var used []string
	for i := 0; i < ncap; i++ {
		var c c19Cap
		nr := rnd.Range(0, 4)
		if rnd.Chance(1, 2) {
			nr = rnd.Range(3, 4)
		}
		if ncap == 3 && nr > 3 {
			nr = 3
		}
		for j := 0; j < nr; j++ {
			rg := c19Range{Lo: bound(), Hi: bound()}
			// mostly put the bounds in order, so that well-formed lists are frequent
			o := c19GetOrder(comparer)
			if rg.Lo != "" && rg.Hi != "" && o.parse(rg.Lo) && o.parse(rg.Hi) && o.cmp(rg.Lo, rg.Hi) > 0 && rnd.Chance(9, 10) {
				rg.Lo, rg.Hi = rg.Hi, rg.Lo
			}
			used = append(used, rg.Lo, rg.Hi)
			c.Ranges = append(c.Ranges, rg)
		}
		if rnd.Chance(1, 3) {
			c.ViaNew = true
			c.OddTail = rnd.Bool()
		}
		cs.Caps = append(cs.Caps, c)
	}
	switch k := rnd.Intn(20); {
	case k == 0:
		cs.Version = bad[rnd.Intn(len(bad))]
	case k < 10 && len(used) > 0:
		cs.Version = used[rnd.Intn(len(used))] // on a bound (may be "")
	default:
		cs.Version = grid[rnd.Intn(len(grid))]
	}
	return cs
}

func runC19(c *Ctx) {
	r := c.R
	r.Rule = "exhaustive: one capability with one range over (grid of 30 semantic versions + 5 unparsable strings + empty bound)^2 x every version of the grid, unparsable strings and the empty string, for the default comparer (nil and explicit) and a reversed custom comparer, each also built with NewCapability (even and odd argument count); one capability with two ranges and two capabilities with one range each over a sub-grid (quick 11 bounds, thorough 20 bounds); an integer-build-number custom comparer over 12 bounds with one and two ranges; seeded: 1..3 capabilities with 0..4 ranges, version on a bound half of the time, with every permutation of the ranges of each capability and of the capabilities; once: default comparer against the check's own semver precedence on grid x grid. non-trivial = version equal to a bound, or a capability with >= 2 ranges; distinct = distinct (comparer, capabilities, version)"
	r.TrustedBase = []string{"semantic-version parser/comparator and interval model in harness/cmd/vworker/c19.go"}
	r.Assumptions = []string{
		"the grid only holds spellings on which semver.org 2.0.0 precedence is unambiguous (missing minor/patch read as 0); spellings on which parsers legitimately differ ('v' prefix, four segments, leading zeros, 'alpha' vs 'alpha.beta') are observed and counted, not judged — the default comparer is documented as delegating to hashicorp/go-version",
		"not judged (counted): a range with neither bound (the library reads it as 'no range'; 'unbounded on both sides' is accepted as well); ill-formed ranges after the first containing range of a capability (never evaluated); an unparsable version string when no range with a bound exists (the comparer never sees it)",
		"custom comparers follow the documented contract (-1, 0, 1, error for strings they cannot parse)",
	}
	if c.Replay != nil {
		var raw map[string]json.RawMessage
		if json.Unmarshal(c.Replay, &raw) == nil && raw["compare_a"] != nil {
			c19CrossCheck(r)
			return
		}
		var cs c19Case
		if err := json.Unmarshal(c.Replay, &cs); err != nil {
			r.Inconclusive("bad replay: %v", err)
			return
		}
		l := newC19Local()
		if len(cs.Reuse) > 0 {
			c19Reuse(r, l, cs)
		} else {
			c19Exec(r, l, cs, false)
		}
		l.flush(r)
		return
	}
	quick := c.Quick()
	c19CrossCheck(r)

	withEmpty := func(g ...[]string) []string {
		out := []string{""}
		for _, x := range g {
			out = append(out, x...)
		}
		return out
	}
	r.Sample("one-range", c19Case{Comparer: "default-nil", API: "Version", Version: "1.0.0", Caps: []c19Cap{{Ranges: []c19Range{{"1.0.0-rc.1", "1.0.0"}}}}})
	r.Sample("two-ranges", c19Case{Comparer: "default-explicit", API: "SetCapabilities", Version: "1.10.0", Caps: []c19Cap{{Ranges: []c19Range{{"", "1.9.0"}, {"1.10.0", ""}}}}})
	r.Sample("two-capabilities", c19Case{Comparer: "reversed", API: "Version", Version: "1.0.0+b7", Caps: []c19Cap{{Ranges: []c19Range{{"2.0.0", "1.0.0"}}}, {Ranges: []c19Range{{"1.0.0", ""}}, ViaNew: true, OddTail: true}}})

	// ---- A: one capability, one range, full grid, three comparers, literal + NewCapability
	bounds := withEmpty(c19Grid, c19Bad)
	versions := withEmpty(c19Grid, c19Bad)
	compsA := []string{"default-nil", "default-explicit", "reversed"}
	c.parallel(len(bounds)*len(compsA), func(i int) {
		l := newC19Local()
		defer l.flush(r)
		comp, lo := compsA[i%len(compsA)], bounds[i/len(compsA)]
		n := 0
		for _, hi := range bounds {
			for _, v := range versions {
				for variant := 0; variant < 3; variant++ {
					cp := c19Cap{Ranges: []c19Range{{lo, hi}}}
					switch variant {
					case 1:
						cp.ViaNew = true
					case 2:
						if hi != "" {
							continue
						}
						cp.ViaNew, cp.OddTail = true, true
					}
					n++
					c19Exec(r, l, c19Case{Comparer: comp, API: c19API(n), Version: v, Caps: []c19Cap{cp}}, true)
				}
			}
		}
	})
	// capabilities without ranges
	{
		l := newC19Local()
		for _, comp := range []string{"default-nil", "reversed", "int"} {
			for n, v := range versions {
				c19Exec(r, l, c19Case{Comparer: comp, API: c19API(n), Version: v, Caps: []c19Cap{{}}}, true)
				c19Exec(r, l, c19Case{Comparer: comp, API: c19API(n), Version: v, Caps: []c19Cap{{ViaNew: true}, {Ranges: []c19Range{{"1", ""}}}}}, true)
				c19Exec(r, l, c19Case{Comparer: comp, API: c19API(n), Version: v, Caps: nil}, true)
			}
		}
		l.flush(r)
	}

	// ---- B/C: two ranges in one capability; two capabilities with one range each
	sub := c19GridQ
	subV := withEmpty(c19GridQ, []string{"1.0.0-rc.1", "abc"})
	subBad := []string{"1.x"}
	if !quick {
		sub = c19GridT
		subV = versions
		subBad = []string{"1.x"}
	}
	b2 := withEmpty(sub, subBad)
	var ranges []c19Range
	for _, lo := range b2 {
		for _, hi := range b2 {
			ranges = append(ranges, c19Range{lo, hi})
		}
	}
	r.Count("two_range_enumeration_bounds", int64(len(b2)))
	c.parallel(len(ranges), func(i int) {
		l := newC19Local()
		defer l.flush(r)
		r1 := ranges[i]
		n := i
		for _, r2 := range ranges {
			for _, v := range subV {
				n++
				comp := "default-nil"
				if n%5 == 0 {
					comp = "default-explicit"
				}
				c19Exec(r, l, c19Case{Comparer: comp, API: c19API(n), Version: v, Perms: true, Caps: []c19Cap{{Ranges: []c19Range{r1, r2}, ViaNew: n%3 == 0, OddTail: n%2 == 0}}}, true)
				c19Exec(r, l, c19Case{Comparer: comp, API: c19API(n + 1), Version: v, Perms: true, Caps: []c19Cap{{Ranges: []c19Range{r1}}, {Ranges: []c19Range{r2}, ViaNew: n%3 == 1}}}, true)
			}
		}
	})

	// ---- integer build numbers (custom comparer), one and two ranges
	ib := withEmpty(c19IntGrid, c19IntBad)
	var iranges []c19Range
	for _, lo := range ib {
		for _, hi := range ib {
			iranges = append(iranges, c19Range{lo, hi})
		}
	}
	c.parallel(len(iranges), func(i int) {
		l := newC19Local()
		defer l.flush(r)
		r1 := iranges[i]
		n := i
		for _, v := range ib {
			c19Exec(r, l, c19Case{Comparer: "int", API: c19API(n), Version: v, Caps: []c19Cap{{Ranges: []c19Range{r1}, ViaNew: n%2 == 0, OddTail: true}}}, true)
			for _, r2 := range iranges {
				n++
				c19Exec(r, l, c19Case{Comparer: "int", API: c19API(n), Version: v, Perms: true, Caps: []c19Cap{{Ranges: []c19Range{r1, r2}}}}, true)
				if !quick {
					c19Exec(r, l, c19Case{Comparer: "int", API: c19API(n), Version: v, Perms: true, Caps: []c19Cap{{Ranges: []c19Range{r1}}, {Ranges: []c19Range{r2}}}}, true)
				}
			}
		}
	})

	// ---- seeded: 1..3 capabilities, 0..4 ranges, all permutations
	nRand := 40000
	if !quick {
		nRand = 1200000
	}
	const chunk = 500
	c.parallel((nRand+chunk-1)/chunk, func(ci int) {
		l := newC19Local()
		defer l.flush(r)
		for i := ci * chunk; i < (ci+1)*chunk && i < nRand; i++ {
			rnd := rt.NewRand(c.Seed, fmt.Sprintf("c19/%d", i))
			var cs c19Case
			switch i % 8 {
			case 0:
				cs = c19RandCase(rnd, "int", c19IntGrid, c19IntBad)
			case 1, 2:
				cs = c19RandCase(rnd, "reversed", c19Grid, c19Bad)
			case 3:
				cs = c19RandCase(rnd, "default-explicit", c19Grid, c19Bad)
			default:
				cs = c19RandCase(rnd, "default-nil", c19Grid, c19Bad)
			}
			if i < 8 {
				r.Sample("seeded-"+cs.Comparer, cs)
			}
			c19Exec(r, l, cs, false)
			if i%2 == 0 {
				// the same objects, evaluated for several versions (and
				// comparers of the same version syntax) in a row
				rc := cs
				rc.Perms = false
				grid := c19Grid
				comps := []string{"default-nil", "default-explicit", "reversed"}
				if cs.Comparer == "int" {
					grid, comps = c19IntGrid, []string{"int"}
				}
				var pool []string
				for _, cp := range cs.Caps {
					for _, rg := range cp.Ranges {
						pool = append(pool, rg.Lo, rg.Hi)
					}
				}
				for n := rnd.Range(2, 5); n > 0; n-- {
					st := c19Step{Comparer: cs.Comparer, Version: grid[rnd.Intn(len(grid))]}
					if len(pool) > 0 && rnd.Chance(1, 2) {
						st.Version = pool[rnd.Intn(len(pool))]
					}
					if rnd.Chance(1, 4) {
						st.Comparer = comps[rnd.Intn(len(comps))]
					}
					rc.Reuse = append(rc.Reuse, st)
				}
				c19Reuse(r, l, rc)
			}
		}
	})
}
