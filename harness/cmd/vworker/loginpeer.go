package main

import (
	"context"
	"crypto/rand"
	"crypto/rsa"
	"crypto/x509"
	"encoding/pem"
	"sync"
	"time"

	"github.com/SAP/go-dblib/tds"

	"verif/harness/rt"
	"verif/harness/srv"
	"verif/harness/xport"
)

// A scripted login peer shared by C08 and C09.

// lpItem is one package of a reply script, with the facts the independent
// acceptor needs.
type lpItem struct {
	Kind   string `json:"kind"` // loginack | msg | paramfmt | params | done | capability | env | info | eed | other
	Hex    string `json:"hex,omitempty"`
	B      []byte `json:"-"`
	Status int    `json:"status,omitempty"` // loginack status / done status
	MsgID  int    `json:"msg_id,omitempty"` // msg
	Cols   []int  `json:"cols,omitempty"`   // paramfmt/params: data type per column
	Cipher int    `json:"cipher,omitempty"` // params
	Key    string `json:"key,omitempty"`    // params: valid | garbage | pkix | trailing | empty | no-pem-end
	Caps   string `json:"caps,omitempty"`   // capability: ok | all-zero | request-zero
	Note   string `json:"note,omitempty"`
}

type lpScript struct {
	Flow   string     `json:"flow"` // plain | encrypted
	Rounds [][]lpItem `json:"rounds"`
}

func (s lpScript) clone() lpScript {
	c := lpScript{Flow: s.Flow}
	for _, r := range s.Rounds {
		c.Rounds = append(c.Rounds, append([]lpItem(nil), r...))
	}
	return c
}

type lpKey struct {
	priv *rsa.PrivateKey
	pem  []byte
	bits int
}

var (
	lpKeysMu sync.Mutex
	lpKeys   = map[int]*lpKey{}
)

// lpGetKey returns a cached RSA key of the size (crypto/rand: cannot be
// seeded; the oracles do not depend on the key).
func lpGetKey(bits int) *lpKey {
	lpKeysMu.Lock()
	defer lpKeysMu.Unlock()
	if k, ok := lpKeys[bits]; ok {
		return k
	}
	priv, err := rsa.GenerateKey(rand.Reader, bits)
	if err != nil {
		panic(err)
	}
	k := &lpKey{priv: priv, bits: bits}
	k.pem = pem.EncodeToMemory(&pem.Block{Type: "RSA PUBLIC KEY", Bytes: x509.MarshalPKCS1PublicKey(&priv.PublicKey)})
	lpKeys[bits] = k
	return k
}

var lpTDSVersion = [4]byte{5, 0, 0, 0}
var lpProgVersion = [4]byte{16, 0, 0, 4}

func lpLoginAck(status int) lpItem {
	return lpItem{Kind: "loginack", Status: status, B: srv.LoginAck(byte(status), lpTDSVersion, "ASE", lpProgVersion)}
}
func lpDone(status int) lpItem {
	return lpItem{Kind: "done", Status: status, B: srv.Done(srv.TokDone, uint16(status), 0, 0)}
}
func lpMsg(status, id int) lpItem {
	return lpItem{Kind: "msg", MsgID: id, Status: status, B: srv.Msg(byte(status), uint16(id))}
}

const (
	lpMsgEncrypt4 = 35
	lpMsgEncrypt3 = 30
)

func lpParamFmt(types ...int) lpItem {
	var cols []srv.Col
	for _, t := range types {
		c := srv.Col{Type: byte(t)}
		switch byte(t) {
		case srv.TLongBinary:
			c.MaxLen = 0x7fffffff
		case srv.TVarBinary, srv.TVarChar:
			c.MaxLen = 255
		case srv.TIntN:
			c.MaxLen = 4
		}
		cols = append(cols, c)
	}
	return lpItem{Kind: "paramfmt", Cols: types, B: srv.ParamFmt(false, cols...)}
}

func lpParams(types []int, cipher int, keyKind string, key []byte, nonce []byte) lpItem {
	var cols []srv.Col
	var vs []srv.Val
	for i, t := range types {
		c := srv.Col{Type: byte(t)}
		cols = append(cols, c)
		var raw []byte
		switch i {
		case 0:
			raw = srv.I32(int32(cipher))
			if byte(t) == srv.TInt2 {
				raw = srv.I16(int16(cipher))
			}
		case 1:
			raw = key
		default:
			raw = nonce
		}
		vs = append(vs, srv.Val{Raw: raw})
	}
	return lpItem{Kind: "params", Cols: types, Cipher: cipher, Key: keyKind, B: srv.Data(srv.TokParams, cols, vs)}
}

func lpCaps(kind string) lpItem {
	var b []byte
	switch kind {
	case "all-zero":
		b = srv.Capability(srv.CapEntry{Type: 1, Mask: make([]byte, 14)}, srv.CapEntry{Type: 2, Mask: make([]byte, 14)})
	case "request-zero":
		b = srv.Capability(srv.CapEntry{Type: 1, Mask: make([]byte, 14)}, srv.CapEntry{Type: 2, Mask: srv.MaskWith(14, lpRespBits...)})
	case "response-zero":
		b = srv.Capability(srv.CapEntry{Type: 1, Mask: srv.MaskWith(14, lpReqBits...)}, srv.CapEntry{Type: 2, Mask: make([]byte, 14)})
	case "response-omitted":
		b = srv.Capability(srv.CapEntry{Type: 1, Mask: srv.MaskWith(14, lpReqBits...)})
	case "ok+security-empty":
		// a further capability type answered with a zero-length mask
		// ("not requested"), as servers do for the security capabilities
		b = srv.Capability(srv.CapEntry{Type: 1, Mask: srv.MaskWith(14, lpReqBits...)}, srv.CapEntry{Type: 2, Mask: srv.MaskWith(14, lpRespBits...)}, srv.CapEntry{Type: 3, Mask: []byte{}})
	case "security-empty+ok":
		b = srv.Capability(srv.CapEntry{Type: 3, Mask: []byte{}}, srv.CapEntry{Type: 1, Mask: srv.MaskWith(14, lpReqBits...)}, srv.CapEntry{Type: 2, Mask: srv.MaskWith(14, lpRespBits...)})
	case "ok+type7":
		// usable masks plus a capability type the client does not know
		b = srv.Capability(srv.CapEntry{Type: 1, Mask: srv.MaskWith(14, lpReqBits...)}, srv.CapEntry{Type: 2, Mask: srv.MaskWith(14, lpRespBits...)}, srv.CapEntry{Type: 7, Mask: []byte{0, 0, 5}})
	case "response-empty":
		b = srv.Capability(srv.CapEntry{Type: 1, Mask: srv.MaskWith(14, lpReqBits...)}, srv.CapEntry{Type: 2, Mask: []byte{}})
	default:
		b = srv.Capability(srv.CapEntry{Type: 1, Mask: srv.MaskWith(14, lpReqBits...)}, srv.CapEntry{Type: 2, Mask: srv.MaskWith(14, lpRespBits...)})
	}
	return lpItem{Kind: "capability", Caps: kind, B: b}
}

// capability bits the scripted server grants
var lpReqBits = []int{1, 2, 5, 9, 10, 20, 33, 48, 64, 79, 100, 107}
var lpRespBits = []int{3, 7, 21, 50}

func lpEnv(packsize int) lpItem {
	ms := []srv.EnvMember{{Type: 1, New: "master", Old: ""}}
	if packsize > 0 {
		// the old value is the server's view: 512, or (sizes 1024 and 4096)
		// the new value itself - a server "confirming" a size the client
		// does not have yet
		old := "512"
		if packsize == 1024 || packsize == 4096 {
			old = itoa(packsize)
		}
		ms = append(ms, srv.EnvMember{Type: 4, New: itoa(packsize), Old: old})
	}
	return lpItem{Kind: "env", B: srv.EnvChange(ms...)}
}
func lpInfo() lpItem {
	return lpItem{Kind: "info", B: srv.EED{MsgNr: 5701, Class: 10, Status: 2, Msg: "Changed database context to 'master'.\n", Server: "ASE"}.Bytes()}
}

func itoa(i int) string {
	if i == 0 {
		return "0"
	}
	neg := i < 0
	if neg {
		i = -i
	}
	var b []byte
	for i > 0 {
		b = append([]byte{byte('0' + i%10)}, b...)
		i /= 10
	}
	if neg {
		b = append([]byte{'-'}, b...)
	}
	return string(b)
}

// lpValid builds the valid reply script of a flow.
func lpValid(flow string, key *lpKey, nonce []byte, packsize int, extras bool) lpScript {
	s := lpScript{Flow: flow}
	if flow == "plain" {
		var r []lpItem
		if extras {
			r = append(r, lpEnv(packsize), lpInfo())
		}
		r = append(r, lpLoginAck(srv.LogSucceed))
		if extras {
			r = append(r, lpInfo())
		}
		r = append(r, lpDone(0))
		s.Rounds = [][]lpItem{r}
		return s
	}
	types := []int{srv.TInt4, srv.TLongBinary, srv.TLongBinary}
	r1 := []lpItem{lpLoginAck(srv.LogNegotiate), lpMsg(1, lpMsgEncrypt4), lpParamFmt(types...), lpParams(types, 1, "valid", key.pem, nonce), lpDone(0)}
	var r2 []lpItem
	if extras {
		r1 = append([]lpItem{lpInfo()}, r1...)
		r2 = append(r2, lpEnv(packsize))
	}
	r2 = append(r2, lpLoginAck(srv.LogSucceed))
	if extras {
		r2 = append(r2, lpInfo())
	}
	r2 = append(r2, lpCaps("ok"), lpDone(0))
	s.Rounds = [][]lpItem{r1, r2}
	return s
}

// ---------------------------------------------------------------- acceptor

// lpClassify is the independent acceptor: "accept" (must succeed),
// "reject" (must fail), "unspecified" (counted, never judged) with the
// reason.
func lpClassify(s lpScript) (string, string) {
	deliver := func(items []lpItem) []lpItem {
		var d []lpItem
		for _, it := range items {
			if it.Kind == "env" || it.Kind == "info" {
				continue
			}
			d = append(d, it)
		}
		if len(d) == 0 || !(d[len(d)-1].Kind == "done" && d[len(d)-1].Status == 0) {
			d = append(d, lpItem{Kind: "done", Status: 0, Note: "library-supplied"})
		}
		return d
	}
	if len(s.Rounds) == 0 {
		return "reject", "no reply at all"
	}
	d0 := deliver(s.Rounds[0])
	if len(s.Rounds[0]) == 0 {
		d0 = nil // nothing is ever sent, not even an end of message
	}
	if s.Flow == "plain" {
		if len(d0) < 1 || d0[0].Kind != "loginack" {
			return "reject", "first package is not a login acknowledgement"
		}
		if d0[0].Status != srv.LogSucceed {
			return "reject", "login acknowledgement without success status"
		}
		if len(d0) < 2 || d0[1].Kind != "done" {
			return "reject", "second package is not a DONE"
		}
		if d0[1].Status != 0 {
			return "reject", "DONE is not final"
		}
		if d0[1].Note == "library-supplied" {
			return "unspecified", "the server sent no DONE; the library supplied the final one"
		}
		if len(d0) > 2 {
			return "unspecified", "packages after the final DONE"
		}
		return "accept", ""
	}
	// encrypted, round 1
	want := []string{"loginack", "msg", "paramfmt", "params", "done"}
	for i, w := range want {
		if len(d0) <= i {
			return "reject", "round 1: " + w + " missing"
		}
		if d0[i].Kind != w {
			return "reject", "round 1: package " + itoa(i+1) + " is " + d0[i].Kind + ", not " + w
		}
	}
	if d0[0].Status != srv.LogNegotiate {
		return "reject", "round 1: login acknowledgement without negotiate status"
	}
	if d0[1].MsgID != lpMsgEncrypt4 {
		return "reject", "round 1: wrong message id"
	}
	if len(d0[2].Cols) != 3 {
		return "reject", "round 1: parameter count is not 3"
	}
	if len(d0[3].Cols) != 3 {
		return "reject", "round 1: parameter data count is not 3"
	}
	if d0[3].Cols[0] != srv.TInt4 || d0[3].Cols[1] != srv.TLongBinary || d0[3].Cols[2] != srv.TLongBinary {
		return "reject", "round 1: wrong parameter types"
	}
	if d0[3].Cipher != 1 {
		return "reject", "round 1: unsupported cipher suite"
	}
	if d0[3].Key != "valid" {
		return "reject", "round 1: unusable key (" + d0[3].Key + ")"
	}
	unspec := ""
	if d0[4].Status != 0 {
		unspec = "round 1 DONE is not final"
	}
	if d0[4].Note == "library-supplied" {
		unspec = "round 1 DONE was supplied by the library"
	}
	rest := append([]lpItem(nil), d0[5:]...)
	if len(rest) > 0 {
		unspec = "extra packages between the rounds"
	}
	if len(s.Rounds) < 2 || len(s.Rounds[1]) == 0 {
		// nothing (more) arrives in round 2
		for _, it := range rest {
			if it.Kind == "loginack" {
				goto scan
			}
		}
		return "reject", "round 2: nothing arrives"
	}
	rest = append(rest, deliver(s.Rounds[1])...)
scan:
	i := 0
	for i < len(rest) && rest[i].Kind != "loginack" {
		if unspec == "" {
			unspec = "extra package before the round 2 login acknowledgement"
		}
		i++
	}
	if i == len(rest) {
		return "reject", "round 2: login acknowledgement missing"
	}
	if rest[i].Status != srv.LogSucceed {
		return "reject", "round 2: login acknowledgement without success status"
	}
	i++
	if i >= len(rest) || rest[i].Kind != "capability" {
		return "reject", "round 2: capability package missing after the acknowledgement"
	}
	switch rest[i].Caps {
	case "all-zero":
		return "reject", "round 2: all-zero capabilities"
	case "request-zero", "response-zero", "response-omitted", "response-empty":
		if unspec == "" {
			unspec = "one capability type is all zero or missing"
		}
	}
	i++
	if i >= len(rest) || rest[i].Kind != "done" {
		return "reject", "round 2: DONE missing after the capabilities"
	}
	if rest[i].Status != 0 {
		return "reject", "round 2: DONE is not final"
	}
	if rest[i].Note == "library-supplied" && unspec == "" {
		unspec = "the server sent no final DONE; the library supplied it"
	}
	if i+1 < len(rest) && unspec == "" {
		unspec = "packages after the final DONE"
	}
	if unspec != "" {
		return "unspecified", unspec
	}
	return "accept", ""
}

// ---------------------------------------------------------------- running

type lpResult struct {
	err       error
	panicked  *rt.PanicInfo
	elapsed   time.Duration
	watchdog  bool
	writes    []xport.WriteRec
	messages  [][]byte // bodies of complete client messages
	kit       *kit
	leftovers delivered
	// heldEOM: with cut class "late-eom" the trailing header-only
	// end-of-message packet of the last reply is held back; the caller
	// releases it after looking at the state Login left behind
	heldEOM []byte
	// second login (lpOptions.Second)
	ran2      bool
	err2      error
	panicked2 *rt.PanicInfo
	watchdog2 bool
	// Trickle: no pause between two pieces reached 800 ms, and how many
	// reads were answered with the transient EOF
	paceOK    bool
	softReads int64
}

type lpOptions struct {
	CutSeed  string
	CutClass string // one-packet | random | one-byte | per-package | late-eom
	Timeout  time.Duration
	// Overtake: the first packet of every reply is processed by the reader
	// before the client's write call of its last request packet returns (a
	// fast server); the rest of the reply follows.
	Overtake bool
	// QueueSize is the channel's package queue capacity (default 256).
	QueueSize int
	// NoEOM: the last packet of the last scripted reply does not carry the
	// end-of-message status (the reply never completes).
	NoEOM bool
	// Second: after the first Login has returned, Login is called again on
	// the same connection; the peer answers its requests with this script.
	Second    *lpScript
	SecondCfg *tds.LoginConfig
	// Trickle: PacketReadTimeout is 1 s and the last packet of the last
	// reply arrives slowly - header and first quarter of the body at once,
	// the other quarters 400 ms apart; a read that finds nothing inside the
	// body is answered with (0, io.EOF) ("nothing there at the moment").
	// No pause reaches the timeout, the packet takes longer than it.
	Trickle bool
}

func lpPacketize(rnd *rt.Rand, items []lpItem, class string) [][]byte {
	var body []byte
	var bounds []int
	for _, it := range items {
		body = append(body, it.B...)
		bounds = append(bounds, len(body))
	}
	if len(body) == 0 {
		return nil
	}
	var cuts []int
	switch class {
	case "random":
		cuts = randomCuts(rnd, len(body), rnd.Range(1, 5))
	case "one-byte":
		for i := 1; i < len(body); i++ {
			cuts = append(cuts, i)
		}
	case "per-package":
		cuts = bounds[:len(bounds)-1]
	}
	return c02Packets(body, cuts, nil, false)
}

// lpRun performs one Login against the scripted peer.
func lpRun(seed int64, s lpScript, cfg *tds.LoginConfig, opt lpOptions) lpResult {
	var res lpResult
	qs := 256
	if opt.QueueSize > 0 {
		qs = opt.QueueSize
	}
	rto := 0
	if opt.Trickle {
		rto = 1
	}
	k, err := newKit(qs, rto)
	if err != nil {
		res.err = err
		return res
	}
	res.kit = k
	res.paceOK = true
	var fed int64 // bytes handed to the transport so far
	trickled := make(chan struct{})
	var trickleOnce sync.Once
	rounds := s.Rounds
	if opt.Second != nil {
		rounds = append(append([][]lpItem(nil), s.Rounds...), opt.Second.Rounds...)
	}
	rnd := rt.NewRand(seed, "lp/"+opt.CutSeed)
	var mu sync.Mutex
	var cur []byte
	round := 0
	k.tr.OnWrite = func(rec xport.WriteRec) {
		h, err := xport.ParseHeader(rec.Data)
		if err != nil {
			return
		}
		mu.Lock()
		cur = append(cur, rec.Data[8:]...)
		if h.Status&xport.EOM == 0 {
			mu.Unlock()
			return
		}
		res.messages = append(res.messages, cur)
		cur = nil
		r := round
		round++
		mu.Unlock()
		if r < len(rounds) {
			var pkts [][]byte
			if opt.CutClass == "late-eom" {
				var body []byte
				for _, it := range rounds[r] {
					body = append(body, it.B...)
				}
				if len(body) > 0 {
					pkts = c02Packets(body, nil, nil, true) // body packet without EOM + header-only EOM packet
					if r == len(rounds)-1 {
						mu.Lock()
						res.heldEOM = pkts[len(pkts)-1]
						mu.Unlock()
						pkts = pkts[:len(pkts)-1]
					}
				}
			} else {
				pkts = lpPacketize(rnd, rounds[r], opt.CutClass)
			}
			if opt.NoEOM && r == len(s.Rounds)-1 && len(pkts) > 0 {
				last := append([]byte(nil), pkts[len(pkts)-1]...)
				last[1] &^= xport.EOM
				pkts[len(pkts)-1] = last
			}
			if opt.Trickle && r == len(rounds)-1 && len(pkts) > 0 {
				lastPkt := pkts[len(pkts)-1]
				k.tr.Feed(pkts[:len(pkts)-1]...)
				for _, p := range pkts[:len(pkts)-1] {
					fed += int64(len(p))
				}
				start := fed
				fed += int64(len(lastPkt))
				k.tr.SoftEOF(start+8, start+int64(len(lastPkt)))
				k.tr.SoftEOFWithData = s.Flow == "encrypted" // one flow with data and "nothing more" in one read
				go func() {
					defer trickleOnce.Do(func() { close(trickled) })
					q := (len(lastPkt) - 8) / 4
					t0 := time.Now()
					for i := 0; i < 4; i++ {
						lo, hi := 8+i*q, 8+(i+1)*q
						if i == 0 {
							lo = 0
						}
						if i == 3 {
							hi = len(lastPkt)
						}
						if i > 0 {
							time.Sleep(400 * time.Millisecond)
							if time.Since(t0) > 800*time.Millisecond {
								mu.Lock()
								res.paceOK = false
								mu.Unlock()
							}
							t0 = time.Now()
						}
						k.tr.Feed(lastPkt[lo:hi])
					}
				}()
				return
			}
			for _, p := range pkts {
				fed += int64(len(p))
			}
			if opt.Overtake && len(pkts) >= 2 {
				k.tr.Feed(pkts[0])
				awaitIdle(k.tr, 20*time.Second)
				k.tr.Feed(pkts[1:]...)
			} else if opt.Overtake && len(pkts) == 1 {
				k.tr.Feed(pkts[0])
				awaitIdle(k.tr, 20*time.Second)
			} else {
				k.tr.Feed(pkts...)
			}
		}
	}
	ctx, cancel := context.WithTimeout(k.ctx, opt.Timeout)
	defer cancel()
	done := make(chan struct{})
	t0 := time.Now()
	go func() {
		defer close(done)
		res.panicked = rt.Catch(func() { res.err = k.ch.Login(ctx, cfg) })
	}()
	select {
	case <-done:
	case <-time.After(opt.Timeout + 15*time.Second):
		res.watchdog = true
	}
	res.elapsed = time.Since(t0)
	if opt.Trickle {
		res.softReads = k.tr.SoftReads()
	}
	if opt.Second != nil && !res.watchdog {
		res.ran2 = true
		ctx2, cancel2 := context.WithTimeout(k.ctx, opt.Timeout)
		defer cancel2()
		done2 := make(chan struct{})
		go func() {
			defer close(done2)
			res.panicked2 = rt.Catch(func() { res.err2 = k.ch.Login(ctx2, opt.SecondCfg) })
		}()
		select {
		case <-done2:
		case <-time.After(opt.Timeout + 15*time.Second):
			res.watchdog2 = true
		}
	}
	mu.Lock()
	res.writes = k.tr.Writes()
	mu.Unlock()
	return res
}

func lpConfig(user, pass string, encrypt bool) *tds.LoginConfig {
	info := &tds.Info{}
	info.Host = "dbhost"
	info.Port = "5000"
	info.Username = user
	info.Password = pass
	cfg := &tds.LoginConfig{DSN: info, Hostname: "clienthost", HostProc: "4711", AppName: "vworker", ServName: "dbhost", Language: "us_english", CharSet: "utf8"}
	if encrypt {
		cfg.Encrypt = tds.TDS_MSG_SEC_ENCRYPT4
	}
	return cfg
}
