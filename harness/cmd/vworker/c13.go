package main

import (
	"context"
	"encoding/json"
	"errors"
	"fmt"
	"strings"
	"sync"
	"time"

	"github.com/SAP/go-dblib/tds"

	"verif/harness/rt"
	"verif/harness/srv"
	"verif/harness/xport"
)

// C13 — cancelled or closed channels never block and never deliver.
//
// States x actions are enumerated; interleavings of Close / cancel with a
// call in flight on another goroutine are constructed with transport gates
// and the goroutine monitor. A watchdog firing is judged structurally from
// a goroutine dump.

func init() { register("C13", runC13) }

type c13Case struct {
	Action   string `json:"action"`
	Fill     int    `json:"queue_fill"`       // packages parsed but not consumed (queue capacity is 3; > 3 parks the reader)
	Logical  bool   `json:"logical_channel"`  // channel under test has id > 0
	Peer     string `json:"peer"`             // prompt | late | never (answer to a logout)
	TFail    bool   `json:"transport_failed"` // the transport fails before the action
	Channels int    `json:"extra_channels"`   // further logical channels on the connection
	K        int    `json:"k,omitempty"`      // which write/read of the in-flight call is held
	Rep      int    `json:"rep,omitempty"`
	// ErrState: "conn-errors-full" = ten unconsumed reports (packets for a
	// channel that does not exist) fill the connection's error queue;
	// "+channel-error" = after that a response on the channel under test
	// carries an unusable packet size announcement (a channel-level error);
	// "channel-errors-overfull[/row-without-format|/mixed]" = twelve unconsumed
	// channel-level errors on the channel under test (its error queue holds
	// ten), from unusable packet size announcements, rows without a format
	// (re-reported with every further packet) or both
	ErrState string `json:"error_queues,omitempty"`
	// Cause: the contexts the case cancels (the caller's, the connection's
	// parent) are cancelled WITH a cause (context.WithCancelCause); their
	// Err() is context.Canceled all the same
	Cause bool `json:"cancelled_with_cause,omitempty"`
	// ClosedEarlier (conn-close, >= 2 further channels): the further channel
	// with the lowest id was closed before Conn.Close is called
	ClosedEarlier bool `json:"a_lower_channel_closed_earlier,omitempty"`
	// CloseFails (conn-close): the transport's Close closes it and reports
	// an error
	CloseFails bool `json:"transport_close_reports_an_error,omitempty"`
}

var errC13Cause = errors.New("application is shutting down")

// c13Cancelable is context.WithCancel, or its with-a-cause variant.
func c13Cancelable(cause bool) (context.Context, context.CancelFunc) {
	if !cause {
		return context.WithCancel(context.Background())
	}
	ctx, cancel := context.WithCancelCause(context.Background())
	return ctx, func() { cancel(errC13Cause) }
}

const c13Cap = 3

type c13Env struct {
	k      *kit
	parent context.CancelFunc
	ch     *tds.Channel
	others []*tds.Channel
	mu     sync.Mutex
	logout int
}

func c13Setup(cs c13Case) (*c13Env, error) {
	e := &c13Env{}
	k := &kit{tr: xport.New(), info: newInfo(c13Cap, 0)}
	var pctx context.Context
	pctx, e.parent = c13Cancelable(cs.Cause)
	k.ctx, k.cancel = pctx, e.parent
	conn, err := tds.NewConnTransport(pctx, k.info, k.tr)
	if err != nil {
		return nil, err
	}
	k.conn = conn
	e.k = k
	var cur []byte
	k.tr.OnWrite = func(rec xport.WriteRec) {
		h, err := xport.ParseHeader(rec.Data)
		if err != nil {
			return
		}
		if h.Type == byte(tds.TDS_BUF_SETUP) {
			k.tr.Feed(xport.Header{Type: byte(tds.TDS_BUF_PROTACK), Status: xport.EOM, Length: 8, Channel: h.Channel}.Bytes())
			return
		}
		if h.Channel != 0 {
			return
		}
		e.mu.Lock()
		cur = append(cur, rec.Data[8:]...)
		if h.Status&xport.EOM == 0 {
			e.mu.Unlock()
			return
		}
		body := cur
		cur = nil
		e.mu.Unlock()
		if len(body) > 0 && body[0] == 0x71 { // LOGOUT
			e.mu.Lock()
			e.logout++
			e.mu.Unlock()
			ans := xport.Packet(byte(tds.TDS_BUF_RESPONSE), xport.EOM, 0, srv.Done(srv.TokDone, 0, 0, 0))
			switch cs.Peer {
			case "prompt":
				k.tr.Feed(ans)
			case "late":
				time.AfterFunc(300*time.Millisecond, func() { k.tr.Feed(ans) })
			}
		}
	}
	ch0, err := conn.NewChannel()
	if err != nil {
		return nil, err
	}
	k.ch = ch0
	e.ch = ch0
	if cs.Logical {
		lc, err := conn.NewChannel()
		if err != nil {
			return nil, fmt.Errorf("logical channel: %w", err)
		}
		e.ch = lc
	}
	for i := 0; i < cs.Channels; i++ {
		oc, err := conn.NewChannel()
		if err != nil {
			return nil, fmt.Errorf("logical channel: %w", err)
		}
		e.others = append(e.others, oc)
	}
	return e, nil
}

// chanID: channel 0 -> 0; the logical channel under test is the first one
// created after channel 0 -> 1.
func (cs c13Case) chanID() uint16 {
	if cs.Logical {
		return 1
	}
	return 0
}

// c13Fill queues n packages on the channel under test. For n > capacity the
// reader ends parked in its channel send; the function waits for that.
func c13Fill(e *c13Env, cs c13Case) error {
	if cs.Fill == 0 {
		return nil
	}
	var body []byte
	for i := 0; i < cs.Fill; i++ {
		body = append(body, srv.Msg(0, uint16(100+i))...)
	}
	// no EOM: the response is still open (abandoned by the consumer)
	e.k.tr.Feed(xport.Packet(byte(tds.TDS_BUF_RESPONSE), 0, cs.chanID(), body))
	if cs.Fill <= c13Cap {
		if !awaitIdle(e.k.tr, 20*time.Second) {
			return errors.New("reader not idle after filling the queue")
		}
		return nil
	}
	gid := waitReaderGID(e.k.tr)
	st, ok := readerQuiescent(gid, 20*time.Second)
	if !ok || st != "chan send" {
		return fmt.Errorf("reader expected to park on the full queue, is %q", st)
	}
	return nil
}

// call runs f on a goroutine; returns whether it finished within d and the
// goroutine id running it.
type c13Call struct {
	done chan struct{}
	gid  int64
	pi   *rt.PanicInfo
	mu   sync.Mutex
}

func c13Go(f func()) *c13Call {
	c := &c13Call{done: make(chan struct{})}
	ready := make(chan struct{})
	go func() {
		c.mu.Lock()
		c.gid = xport.GID()
		c.mu.Unlock()
		close(ready)
		defer close(c.done)
		c.pi = rt.Catch(f)
	}()
	<-ready
	return c
}

func (c *c13Call) wait(d time.Duration) bool {
	select {
	case <-c.done:
		return true
	case <-time.After(d):
		return false
	}
}

// parkedState waits until the goroutine is parked (not running) and returns
// its wait state, or "" if it finished / never parked within d.
func (c *c13Call) parkedState(d time.Duration) string {
	deadline := time.Now().Add(d)
	for time.Now().Before(deadline) {
		select {
		case <-c.done:
			return ""
		default:
		}
		if g := rt.FindG(rt.Goroutines(), c.gid); g != nil && g.Parked() && g.State != "sleep" {
			// a goroutine briefly parks on internal mutexes on its way
			// (semacquire, sync.Mutex.Lock): only a state seen again
			// after a pause counts as where it came to rest
			st := g.State
			time.Sleep(2 * time.Millisecond)
			if g2 := rt.FindG(rt.Goroutines(), c.gid); g2 != nil && g2.State == st {
				if st == "semacquire" || st == "sync.Mutex.Lock" {
					// still contended: keep waiting unless it stays so
					time.Sleep(50 * time.Millisecond)
					if g3 := rt.FindG(rt.Goroutines(), c.gid); g3 == nil || g3.State != st {
						continue
					}
				}
				return st
			}
			continue
		}
		time.Sleep(200 * time.Microsecond)
	}
	return ""
}

// hangReport describes why a call cannot make progress, from a dump.
func c13HangReport(c *c13Call) (structural bool, desc string) {
	gs := rt.Goroutines()
	g := rt.FindG(gs, c.gid)
	if g == nil {
		return false, "goroutine gone"
	}
	if !g.Parked() {
		return false, "goroutine is " + g.State
	}
	var sb strings.Builder
	fmt.Fprintf(&sb, "caller parked in [%s] at %s", g.State, firstDblib(*g))
	for _, o := range rt.DblibGoroutines(gs) {
		if o.ID == g.ID {
			continue
		}
		fmt.Fprintf(&sb, "; goroutine %d [%s] at %s", o.ID, o.State, firstDblib(o))
	}
	return true, sb.String()
}

func firstDblib(g rt.G) string {
	var fr []string
	for _, f := range g.Frames {
		if strings.Contains(f, "github.com/SAP/go-dblib/") {
			fr = append(fr, strings.TrimPrefix(f, "github.com/SAP/go-dblib/"))
			if len(fr) == 3 {
				break
			}
		}
	}
	return strings.Join(fr, " <- ")
}

// c13WaitClass classifies a hang by where the caller itself is parked.
func c13WaitClass(desc string) string {
	caller := desc
	if i := strings.Index(desc, ";"); i >= 0 {
		caller = desc[:i]
	}
	switch {
	case strings.Contains(caller, "RWMutex.RLock") && strings.Contains(caller, "Reset"):
		return "read-lock-reacquired-behind-pending-close"
	case strings.Contains(caller, "RWMutex.RLock"):
		return "waits-for-read-lock-behind-pending-close"
	case strings.Contains(caller, "RWMutex.Lock") && strings.Contains(caller, "Close"):
		return "close-waits-for-channel-lock"
	case strings.Contains(caller, "Logout"):
		return "close-waits-in-logout"
	case strings.Contains(caller, "[select]") && strings.Contains(caller, "NextPackage"):
		return "receive-parked-in-select"
	case strings.Contains(caller, "chan send"):
		return "parked-in-channel-send"
	}
	return "other"
}

func c13Run(c *Ctx, cs c13Case) {
	r := c.R
	r.Eval(1)
	e, err := c13Setup(cs)
	if err != nil {
		if strings.Contains(err.Error(), "logical channel") {
			r.Count("logical_channel_setup_failed", 1)
			return
		}
		r.Inconclusive("setup: %v", err)
		return
	}
	k := e.k
	defer func() { e.parent(); k.tr.Close() }()
	if err := c13Fill(e, cs); err != nil {
		r.Inconclusive("state %+v not reached: %v", cs, err)
		return
	}
	if cs.TFail {
		k.tr.Terminate(xport.ErrReset, false)
		gid := waitReaderGID(k.tr)
		if cs.Fill <= c13Cap {
			if st, ok := readerQuiescent(gid, 20*time.Second); !ok {
				r.Inconclusive("reader not quiescent after the transport failure (%s)", st)
				return
			}
		}
	}
	if strings.HasPrefix(cs.ErrState, "channel-errors-overfull") {
		// twelve channel-level errors nobody consumes (the channel's error
		// queue holds ten; 24 when two kinds take turns): the reader ends
		// parked with the eleventh, further packets still unread
		n := 12
		if strings.HasSuffix(cs.ErrState, "/mixed") {
			n = 24
		}
		for i := 0; i < n; i++ {
			var body []byte
			switch {
			case strings.HasSuffix(cs.ErrState, "/row-without-format") || (strings.HasSuffix(cs.ErrState, "/mixed") && i%2 == 1):
				body = []byte{srv.TokRow, 1, 2, 3, 4, 5, 6, 7, 8}
			default:
				body = srv.EnvChange(srv.EnvMember{Type: 4, New: "4", Old: "512"})
			}
			k.tr.Feed(xport.Packet(byte(tds.TDS_BUF_RESPONSE), 0, cs.chanID(), body))
		}
	} else if cs.ErrState != "" {
		for i := 0; i < 10; i++ {
			k.tr.Feed(xport.Packet(byte(tds.TDS_BUF_RESPONSE), xport.EOM, 999, srv.Done(srv.TokDone, 0, 0, 0)))
		}
	}
	if cs.ErrState != "" {
		if strings.HasSuffix(cs.ErrState, "+channel-error") {
			k.tr.Feed(xport.Packet(byte(tds.TDS_BUF_RESPONSE), 0, cs.chanID(), srv.EnvChange(srv.EnvMember{Type: 4, New: "4", Old: "512"})))
		}
		// the reader comes to rest in Read, or parked with an error it
		// cannot queue yet
		deadline := time.Now().Add(20 * time.Second)
		for !k.tr.IsIdle() {
			if st, ok := readerQuiescent(waitReaderGID(k.tr), 0); ok && st == "chan send" && (!k.tr.Pending() || strings.HasPrefix(cs.ErrState, "channel-errors-overfull")) {
				break
			}
			if time.Now().After(deadline) {
				r.Inconclusive("state %+v not reached: reader neither idle nor parked", cs)
				return
			}
			time.Sleep(200 * time.Microsecond)
		}
	}
	if cs.ErrState != "" && !k.tr.IsIdle() {
		r.Count("states_with_reader_parked_on_a_full_error_queue/"+cs.ErrState, 1)
	}
	stateClass := fmt.Sprintf("fill-%s", map[bool]string{true: "reader-parked-on-full-queue", false: "within-capacity"}[cs.Fill > c13Cap])
	if cs.Fill == 0 {
		stateClass = "fill-empty"
	}
	if cs.TFail {
		stateClass += "+transport-failed"
	}
	if cs.ErrState != "" {
		stateClass += "+" + cs.ErrState
	}
	if cs.Cause {
		stateClass += "+cancelled-with-cause"
	}
	if cs.ClosedEarlier {
		stateClass += "+lower-channel-closed-earlier"
	}
	if cs.CloseFails {
		stateClass += "+transport-close-fails"
	}
	if cs.Fill > 0 || cs.TFail || cs.ErrState != "" {
		r.Distinct(fmt.Sprintf("%+v", cs))
	}
	r.SetAdd("state_action", stateClass+"|"+cs.Action+"|"+cs.Peer+fmt.Sprintf("|logical=%v", cs.Logical))
	sig := func(clause string) string { return clause + "/" + cs.Action + "/" + stateClass }
	fail := func(clause, detail string) {
		r.Violate(sig(clause), fmt.Sprintf("state: %d package(s) queued (capacity %d), channel id %d, peer %s, transport failed %v; action %s: %s", cs.Fill, c13Cap, cs.chanID(), cs.Peer, cs.TFail, cs.Action, detail), cs)
	}
	// A logical channel is closed with one teardown packet. Closing channel
	// 0 (also through Conn.Close) performs the logout exchange, which may
	// legally wait for its one-minute timeout whenever the answer cannot
	// reach it: the peer never answers, the reader is parked on another
	// channel's full queue, or a concurrent receive takes the answer.
	closeBudget := 10 * time.Second
	if !cs.Logical || cs.Action == "conn-close" {
		closeBudget = 75 * time.Second
	}
	// bounded waits a call under test: returns false after recording the verdict
	bounded := func(call *c13Call, what string, budget time.Duration) bool {
		if call.wait(budget) {
			if call.pi != nil {
				fail("panic/"+call.pi.Frame, fmt.Sprintf("%s panicked: %s", what, call.pi.Value))
				return false
			}
			return true
		}
		structural, desc := c13HangReport(call)
		r.SetAdd("wait_states_in_dumps", desc)
		if structural {
			fail("does-not-return/"+c13WaitClass(desc), fmt.Sprintf("%s did not return within %v: %s", what, budget, desc))
		} else {
			r.Inconclusive("%s did not return within %v but is not parked (%s)", what, budget, desc)
		}
		return false
	}
	postClose := func(ch *tds.Channel, which string) bool {
		ctx := context.Background()
		type op struct {
			name string
			f    func() error
		}
		ops := []op{
			{"NextPackage", func() error { _, err := ch.NextPackage(ctx, false); return err }},
			{"NextPackage(wait)", func() error {
				cctx, cancel := context.WithTimeout(ctx, 200*time.Millisecond)
				defer cancel()
				_, err := ch.NextPackage(cctx, true)
				return err
			}},
			{"NextPackageUntil", func() error {
				_, err := ch.NextPackageUntil(ctx, false, func(tds.Package) (bool, error) { return true, nil })
				return err
			}},
			{"QueuePackage", func() error { return ch.QueuePackage(ctx, &tds.LanguagePackage{Cmd: "x"}) }},
			{"SendRemainingPackets", func() error { return ch.SendRemainingPackets(ctx) }},
			{"SendPackage", func() error { return ch.SendPackage(ctx, &tds.LanguagePackage{Cmd: "x"}) }},
			{"Close", func() error { return ch.Close() }},
		}
		for _, o := range ops {
			var err error
			before := k.tr.WriteCalls()
			call := c13Go(func() { err = o.f() })
			if !call.wait(10 * time.Second) {
				_, desc := c13HangReport(call)
				fail("after-close/does-not-return/"+o.name, fmt.Sprintf("%s on the closed %s: %s", o.name, which, desc))
				return false
			}
			if call.pi != nil {
				fail("after-close/panic/"+o.name, fmt.Sprintf("%s on the closed %s panicked: %s (%s)", o.name, which, call.pi.Value, call.pi.Frame))
				return false
			}
			if !errors.Is(err, tds.ErrChannelClosed) {
				fail("after-close/not-reported-as-closed/"+o.name, fmt.Sprintf("%s on the closed %s returned %v, want an error matching ErrChannelClosed", o.name, which, err))
				return false
			}
			if k.tr.WriteCalls() != before {
				fail("after-close/wrote-to-transport/"+o.name, fmt.Sprintf("%s on the closed %s wrote %d packet(s)", o.name, which, k.tr.WriteCalls()-before))
				return false
			}
		}
		r.Count("post_close_calls_checked", int64(len(ops)))
		return true
	}

	switch cs.Action {
	case "next-cancelled-before", "until-cancelled-before":
		ctx, cancel := c13Cancelable(cs.Cause)
		cancel()
		var pkg tds.Package
		var err error
		call := c13Go(func() {
			if cs.Action == "next-cancelled-before" {
				pkg, err = e.ch.NextPackage(ctx, true)
			} else {
				pkg, err = e.ch.NextPackageUntil(ctx, true, func(tds.Package) (bool, error) { return true, nil })
			}
		})
		if !bounded(call, "receive with a cancelled context", 10*time.Second) {
			return
		}
		switch {
		case err == nil && pkg != nil && cs.Fill > 0:
			r.Count("cancelled_receive_returned_queued_package", 1)
		case err == nil:
			fail("receive-succeeded-with-nothing-queued", fmt.Sprintf("returned package %v and no error", pkg))
		case cs.TFail && !errors.Is(err, context.Canceled):
			r.Count("cancelled_receive_returned_transport_error", 1) // a queued connection error is as good as a package
		case !errors.Is(err, context.Canceled):
			fail("error-does-not-wrap-context-error", fmt.Sprintf("returned %v", err))
		}
	case "until-drain-cancelled-before", "until-drain-cancel-during":
		// the callback rejects a package that is not the final DONE; the
		// library then consumes the rest of the response - which never
		// arrives (response abandoned / server stalls). The caller's
		// cancelled context must still end the call.
		if cs.Fill == 0 || cs.Fill > c13Cap {
			return
		}
		ctx, cancel := c13Cancelable(cs.Cause)
		defer cancel()
		if cs.Action == "until-drain-cancelled-before" {
			cancel()
		}
		var err error
		cbErr := errors.New("rejected by the consumer")
		call := c13Go(func() {
			_, err = e.ch.NextPackageUntil(ctx, true, func(tds.Package) (bool, error) { return false, cbErr })
		})
		if cs.Action == "until-drain-cancel-during" {
			if st := call.parkedState(10 * time.Second); st != "select" {
				if st == "" {
					r.Count("drain_returned_before_cancel", 1)
				} else {
					r.Inconclusive("draining receive expected to park in select, state %q", st)
				}
				return
			}
			cancel()
		}
		if !bounded(call, "NextPackageUntil draining an unfinished response with a cancelled context", 10*time.Second) {
			return
		}
		if err == nil {
			fail("receive-succeeded-with-nothing-queued", "NextPackageUntil returned nil although its callback failed")
		} else if !errors.Is(err, cbErr) && !errors.Is(err, context.Canceled) {
			fail("error-does-not-wrap-context-error", fmt.Sprintf("returned %v, which matches neither the callback's nor the context's error", err))
		}
	case "next-cancel-during", "next-conn-cancel-during":
		if cs.Fill != 0 {
			return
		}
		ctx, cancel := c13Cancelable(cs.Cause)
		defer cancel()
		var err error
		call := c13Go(func() { _, err = e.ch.NextPackage(ctx, true) })
		if st := call.parkedState(10 * time.Second); st != "select" {
			if cs.TFail && st == "" {
				r.Count("receive_returned_before_cancel(transport_error)", 1)
				return
			}
			r.Inconclusive("receiver expected to park in select, state %q", st)
			return
		}
		// packets arrive meanwhile on another channel
		for _, oc := range e.others {
			_ = oc
		}
		if len(e.others) > 0 {
			k.tr.Feed(xport.Packet(byte(tds.TDS_BUF_RESPONSE), xport.EOM, cs.chanID()+1, srv.Done(srv.TokDone, 0, 0, 0)))
		}
		if cs.Action == "next-cancel-during" {
			cancel()
		} else {
			e.parent()
		}
		if !bounded(call, "receive whose context is cancelled while it waits", 10*time.Second) {
			return
		}
		if !errors.Is(err, context.Canceled) {
			fail("error-does-not-wrap-context-error", fmt.Sprintf("returned %v", err))
		}
	case "next-conn-cancelled-before":
		e.parent()
		var pkg tds.Package
		var err error
		call := c13Go(func() { pkg, err = e.ch.NextPackage(context.Background(), true) })
		if !bounded(call, "receive on a connection whose context is cancelled", 10*time.Second) {
			return
		}
		switch {
		case err == nil && pkg != nil && cs.Fill > 0:
		case err == nil:
			fail("receive-succeeded-with-nothing-queued", fmt.Sprintf("returned %v", pkg))
		case cs.TFail && !errors.Is(err, context.Canceled):
		case !errors.Is(err, context.Canceled):
			fail("error-does-not-wrap-context-error", fmt.Sprintf("returned %v", err))
		}
	case "send-cancelled", "send-conn-cancelled":
		ctx, cancel := c13Cancelable(cs.Cause)
		if cs.Action == "send-cancelled" {
			cancel()
		} else {
			e.parent()
		}
		defer cancel()
		before := k.tr.WriteCalls()
		var err error
		call := c13Go(func() { err = e.ch.SendPackage(ctx, &tds.LanguagePackage{Cmd: strings.Repeat("s", 1300)}) })
		if !bounded(call, "send with a cancelled context", 10*time.Second) {
			return
		}
		if n := k.tr.WriteCalls() - before; n != 0 {
			fail("cancelled-send-wrote-bytes", fmt.Sprintf("%d packet(s) reached the transport", n))
			return
		}
		if !errors.Is(err, context.Canceled) {
			fail("error-does-not-wrap-context-error", fmt.Sprintf("SendPackage returned %v", err))
		}
	case "flush-cancelled-exact-multiple", "flush-conn-cancelled-exact-multiple":
		// a message that fills its packets exactly is queued with a live
		// context (all packets go out as full packets without EOM); the
		// flush then runs with a cancelled context and must write nothing
		body := k.conn.PacketBodySize()
		if err := e.ch.QueuePackage(context.Background(), &tds.LanguagePackage{Cmd: strings.Repeat("s", 2*body-6)}); err != nil {
			r.Inconclusive("QueuePackage with a live context failed: %v", err)
			return
		}
		ctx, cancel := c13Cancelable(cs.Cause)
		defer cancel()
		if cs.Action == "flush-cancelled-exact-multiple" {
			cancel()
		} else {
			e.parent()
		}
		before := k.tr.WriteCalls()
		var err error
		call := c13Go(func() { err = e.ch.SendRemainingPackets(ctx) })
		if !bounded(call, "SendRemainingPackets with a cancelled context", 10*time.Second) {
			return
		}
		if n := k.tr.WriteCalls() - before; n != 0 {
			fail("cancelled-send-wrote-bytes", fmt.Sprintf("SendRemainingPackets with a cancelled context wrote %d packet(s) (the end-of-message terminator of a message that filled its packets exactly)", n))
			return
		}
		if !errors.Is(err, context.Canceled) {
			fail("error-does-not-wrap-context-error", fmt.Sprintf("SendRemainingPackets returned %v", err))
		}
	case "close", "close-twice", "reset-then-close":
		if cs.Action == "reset-then-close" {
			// the application resets the channel (as after a completed
			// communication) whatever the receive side holds, then a
			// receive with a cancelled context, then Close
			rc := c13Go(func() { e.ch.Reset() })
			if !bounded(rc, "Channel.Reset", 10*time.Second) {
				return
			}
			cctx, ccancel := context.WithCancel(context.Background())
			ccancel()
			nc := c13Go(func() { _, _ = e.ch.NextPackage(cctx, true) })
			if !bounded(nc, "NextPackage with a cancelled context after Reset", 10*time.Second) {
				return
			}
			r.Count("reset_then_close_cases", 1)
		}
		var err error
		call := c13Go(func() { err = e.ch.Close() })
		if !bounded(call, "Channel.Close", closeBudget) {
			return
		}
		_ = err // Close may report leftovers / a failed logout; the teardown is what counts
		if !postClose(e.ch, "channel") {
			return
		}
		// nothing further is delivered: packets for the closed channel
		k.tr.Feed(xport.Packet(byte(tds.TDS_BUF_RESPONSE), xport.EOM, cs.chanID(), srv.Msg(0, 99)))
		if pkg, err := e.ch.NextPackage(context.Background(), false); !errors.Is(err, tds.ErrChannelClosed) {
			fail("after-close/delivered", fmt.Sprintf("NextPackage returned (%v, %v) after packets arrived for the closed channel", pkg, err))
		}
	case "conn-close":
		gid := waitReaderGID(k.tr)
		if cs.CloseFails {
			k.tr.CloseErr = errors.New("close: broken pipe")
			r.Count("conn_close_with_a_failing_transport_close", 1)
		}
		if cs.ClosedEarlier {
			if len(e.others) < 2 {
				return
			}
			first := c13Go(func() { _ = e.others[0].Close() })
			if !bounded(first, "Channel.Close of a further channel", 10*time.Second) {
				return
			}
			r.Count("conn_close_after_an_earlier_channel_close", 1)
		}
		var err error
		call := c13Go(func() { err = k.conn.Close() })
		if !bounded(call, "Conn.Close", closeBudget) {
			return
		}
		_ = err
		if k.tr.CloseCalls() == 0 {
			fail("conn-close/transport-not-closed", "Conn.Close returned without closing the transport")
			return
		}
		chans := append([]*tds.Channel{k.ch}, e.others...)
		if cs.Logical {
			chans = append(chans, e.ch)
		}
		for i, ch := range chans {
			if _, err := ch.NextPackage(context.Background(), false); !errors.Is(err, tds.ErrChannelClosed) {
				fail("conn-close/channel-not-closed", fmt.Sprintf("channel #%d: NextPackage returned %v after Conn.Close", i, err))
				return
			}
		}
		// the reader ends
		deadline := time.Now().Add(10 * time.Second)
		for {
			g := rt.FindG(rt.Goroutines(), gid)
			if g == nil {
				break
			}
			if time.Now().After(deadline) {
				if g.Parked() {
					fail("conn-close/reader-still-there", fmt.Sprintf("10 s after Conn.Close the reader goroutine is parked in [%s] at %s", g.State, firstDblib(*g)))
				} else {
					r.Inconclusive("reader still running 10 s after Conn.Close")
				}
				return
			}
			time.Sleep(time.Millisecond)
		}
		r.Count("reader_ended_after_conn_close", 1)
	case "close-vs-blocked-receive":
		// a receive is blocked on another goroutine (live context), then Close
		if cs.Fill != 0 {
			return
		}
		if !cs.Logical {
			// the blocked receive may take the logout answer away from
			// Close, which then legally waits for its one-minute timeout
			closeBudget = 75 * time.Second
		}
		rctx, rcancel := c13Cancelable(cs.Cause)
		defer rcancel()
		var rerr error
		recv := c13Go(func() { _, rerr = e.ch.NextPackage(rctx, true) })
		if st := recv.parkedState(10 * time.Second); st != "select" {
			if cs.TFail {
				return
			}
			r.Inconclusive("receiver expected to park in select, state %q", st)
			return
		}
		cl := c13Go(func() { _ = e.ch.Close() })
		if !bounded(cl, "Channel.Close while a receive waits on another goroutine", closeBudget) {
			return
		}
		if !bounded(recv, "the receive that waited while the channel was closed", 10*time.Second) {
			return
		}
		_ = rerr
		postClose(e.ch, "channel")
	case "close-vs-send-in-flight":
		// the sender is held inside its K-th packet write; the connection
		// context is cancelled; Close runs until it returns or parks; the
		// write completes
		gate := k.tr.GateWrite(int64(cs.K))
		var serr error
		send := c13Go(func() {
			serr = e.ch.SendPackage(context.Background(), &tds.LanguagePackage{Cmd: strings.Repeat("s", 1300)})
		})
		select {
		case <-gate.Entered():
		case <-time.After(10 * time.Second):
			gate.Open()
			r.Inconclusive("sender never reached write %d", cs.K)
			return
		}
		e.parent() // cancel the connection context
		cl := c13Go(func() { _ = e.ch.Close() })
		// Close returns (cancelled logout) or parks waiting for the lock
		st := cl.parkedState(5 * time.Second)
		r.SetAdd("close_state_while_send_in_flight", st)
		gate.Open()
		if !bounded(send, fmt.Sprintf("the send held in packet write %d while Close ran", cs.K), 10*time.Second) {
			return
		}
		if !bounded(cl, "Channel.Close concurrent with a send in flight", closeBudget) {
			return
		}
		_ = serr
		postClose(e.ch, "channel")
	case "close-vs-reader-in-read":
		// the reader is held inside a transport read while Close runs
		gate := k.tr.GateRead(1)
		k.tr.Feed(xport.Packet(byte(tds.TDS_BUF_RESPONSE), 0, cs.chanID(), srv.Msg(0, 7)))
		cl := c13Go(func() { _ = e.ch.Close() })
		cl.parkedState(time.Second)
		gate.Open()
		if !bounded(cl, "Channel.Close while the reader is inside a transport read", closeBudget) {
			return
		}
		postClose(e.ch, "channel")
	case "stress-close":
		// seeded stress: receiver, sender and feeder run while Close is called
		rnd := rt.NewRand(c.Seed, fmt.Sprintf("c13/stress/%d/%d", cs.Fill, cs.Rep))
		srnd := rt.NewRand(c.Seed, fmt.Sprintf("c13/stress/%d/%d/sender", cs.Fill, cs.Rep))
		ctx, cancel := c13Cancelable(cs.Cause)
		defer cancel()
		var wg sync.WaitGroup
		wg.Add(3)
		var pmu sync.Mutex
		var stressPanic *rt.PanicInfo
		guard := func(f func()) {
			if pi := rt.Catch(f); pi != nil {
				pmu.Lock()
				stressPanic = pi
				pmu.Unlock()
			}
		}
		go func() {
			defer wg.Done()
			guard(func() {
				for ctx.Err() == nil {
					if _, err := e.ch.NextPackage(ctx, true); errors.Is(err, tds.ErrChannelClosed) {
						return
					}
				}
			})
		}()
		go func() {
			defer wg.Done()
			guard(func() {
				for i := 0; ctx.Err() == nil && i < 200; i++ {
					if err := e.ch.SendPackage(ctx, &tds.LanguagePackage{Cmd: strings.Repeat("s", srnd.Range(1, 1200))}); errors.Is(err, tds.ErrChannelClosed) {
						return
					}
				}
			})
		}()
		go func() {
			defer wg.Done()
			for i := 0; ctx.Err() == nil && i < 200; i++ {
				k.tr.Feed(xport.Packet(byte(tds.TDS_BUF_RESPONSE), byte(i%2), cs.chanID(), srv.Msg(0, uint16(i))))
			}
		}()
		for i := rnd.Intn(2000); i > 0; i-- {
			_ = i
		}
		time.Sleep(time.Duration(rnd.Intn(300)) * time.Microsecond)
		cl := c13Go(func() { _ = e.ch.Close() })
		ok := bounded(cl, "Channel.Close under concurrent receive/send/arrival", closeBudget)
		cancel()
		done := make(chan struct{})
		go func() { wg.Wait(); close(done) }()
		select {
		case <-done:
		case <-time.After(10 * time.Second):
			if ok {
				fail("does-not-return/other", "a receive or send running concurrently with Close did not return within 10 s after its context was cancelled")
			}
			return
		}
		pmu.Lock()
		sp := stressPanic
		pmu.Unlock()
		if sp != nil {
			fail("panic/"+sp.Frame, "a receive or send running concurrently with Close panicked: "+sp.Value)
			return
		}
		if ok {
			postClose(e.ch, "channel")
		}
	default:
		panic("c13: unknown action " + cs.Action)
	}
}

func runC13(c *Ctx) {
	r := c.R
	r.Rule = "states {receive-queue fill 0..capacity+3 with capacity 3 (reader parked on the full queue beyond), channel 0 or logical channel, transport failed before or not, 0-3 further channels, peer answering the logout promptly / late / never} x actions {receive with a context cancelled before / during (own and connection context, packets arriving meanwhile), NextPackageUntil, send with cancelled contexts, Close, second Close, Conn.Close, Close against a receive blocked on another goroutine, Close against a send held inside its k-th packet write with the connection context cancelled (constructed with transport gates), Close while the reader is inside a read, seeded stress}; non-trivial = state with queued packages or a failed transport; distinct = (state, action)"
	r.TrustedBase = []string{"harness/xport gates and the goroutine-dump monitor (wait states)"}
	r.Assumptions = []string{"'bounded' is judged as: returns within 10 s, or 75 s where the one-minute logout wait is legal (peer never answers); a firing watchdog is a violation only if the dump shows the caller parked (structural), otherwise inconclusive", "a receive with a cancelled context may return a queued package or an error wrapping the context's error (both allowed by the property); a queued transport error is accepted like a package"}
	if c.Replay != nil {
		var cs c13Case
		if err := json.Unmarshal(c.Replay, &cs); err != nil {
			r.Inconclusive("bad replay: %v", err)
			return
		}
		c13Run(c, cs)
		return
	}
	quick := c.Quick()
	var cases []c13Case
	fills := []int{0, 1, 3, 4, 6}
	if !quick {
		fills = []int{0, 1, 2, 3, 4, 5, 6}
	}
	simple := []string{"next-cancelled-before", "until-cancelled-before", "until-drain-cancelled-before", "until-drain-cancel-during", "next-cancel-during", "next-conn-cancel-during", "next-conn-cancelled-before", "send-cancelled", "send-conn-cancelled", "flush-cancelled-exact-multiple", "flush-conn-cancelled-exact-multiple", "close", "close-twice", "reset-then-close", "conn-close", "close-vs-blocked-receive", "close-vs-reader-in-read"}
	for _, f := range fills {
		for _, logical := range []bool{false, true} {
			for _, tf := range []bool{false, true} {
				for _, a := range simple {
					peers := []string{"prompt"}
					if (a == "close" || a == "conn-close") && !quick {
						peers = []string{"prompt", "late"}
					}
					for _, p := range peers {
						cases = append(cases, c13Case{Action: a, Fill: f, Logical: logical, Peer: p, TFail: tf, Channels: f % 3})
					}
				}
				for k := 1; k <= 3; k++ {
					cases = append(cases, c13Case{Action: "close-vs-send-in-flight", Fill: f, Logical: logical, Peer: "prompt", TFail: tf, K: k})
				}
			}
		}
	}
	// full connection error queue (and a channel-level error behind it)
	for _, es := range []string{"conn-errors-full", "conn-errors-full+channel-error"} {
		for _, f := range []int{0, 2} {
			for _, logical := range []bool{false, true} {
				for _, a := range []string{"close", "close-twice", "conn-close"} {
					cases = append(cases, c13Case{Action: a, Fill: f, Logical: logical, Peer: "prompt", ErrState: es, Channels: f / 2})
				}
			}
		}
	}
	// overfull channel error queue: twelve unconsumed channel-level errors
	// (unusable packet size announcements, rows without a format, both in turn)
	for _, es := range []string{"channel-errors-overfull", "channel-errors-overfull/row-without-format", "channel-errors-overfull/mixed"} {
		for _, f := range []int{0, 2} {
			for _, logical := range []bool{false, true} {
				if !logical && es != "channel-errors-overfull" && quick {
					// a row without its format stays at the head of channel
					// 0's receive queue, the logout answer behind it is never
					// parsed and Close legally waits its minute: thorough only
					continue
				}
				for _, a := range []string{"close", "close-twice", "conn-close"} {
					cases = append(cases, c13Case{Action: a, Fill: f, Logical: logical, Peer: "prompt", ErrState: es, Channels: f / 2})
				}
			}
		}
	}
	// contexts cancelled with a cause
	for _, f := range []int{0, 1, 4} {
		for _, logical := range []bool{false, true} {
			for _, a := range []string{"next-cancelled-before", "until-cancelled-before", "until-drain-cancelled-before", "until-drain-cancel-during", "next-cancel-during", "next-conn-cancel-during", "next-conn-cancelled-before", "send-cancelled", "send-conn-cancelled", "flush-cancelled-exact-multiple", "flush-conn-cancelled-exact-multiple"} {
				cases = append(cases, c13Case{Action: a, Fill: f, Logical: logical, Peer: "prompt", Cause: true})
			}
		}
	}
	// Conn.Close after a channel with a lower id than others was closed
	for _, f := range []int{0, 2, 4} {
		for _, logical := range []bool{false, true} {
			for _, n := range []int{2, 3} {
				cases = append(cases, c13Case{Action: "conn-close", Fill: f, Logical: logical, Peer: "prompt", Channels: n, ClosedEarlier: true})
			}
		}
	}
	// the transport's Close reports an error
	for _, f := range []int{0, 2, 4} {
		for _, logical := range []bool{false, true} {
			cases = append(cases, c13Case{Action: "conn-close", Fill: f, Logical: logical, Peer: "prompt", Channels: f / 2, CloseFails: true})
		}
	}
	// peers that answer late / never (the never case legally waits a minute)
	cases = append(cases, c13Case{Action: "close", Fill: 0, Peer: "late"}, c13Case{Action: "conn-close", Fill: 2, Peer: "late", Channels: 2})
	cases = append(cases, c13Case{Action: "close", Fill: 0, Peer: "never"})
	if !quick {
		cases = append(cases, c13Case{Action: "conn-close", Fill: 4, Peer: "never", Channels: 3, Logical: true})
	}
	reps := 6
	if !quick {
		reps = 50
	}
	for _, f := range []int{0, 2, 4} {
		for _, logical := range []bool{false, true} {
			for i := 0; i < reps; i++ {
				cases = append(cases, c13Case{Action: "stress-close", Fill: f, Logical: logical, Peer: "prompt", Rep: i})
			}
		}
	}
	r.Count("cases", int64(len(cases)))
	for i := 0; i < 3; i++ {
		r.Sample("case", cases[(i*101)%len(cases)])
	}
	// long cases first so that the one-minute logout wait overlaps the rest
	ordered := make([]c13Case, 0, len(cases))
	for _, cs := range cases {
		if cs.Peer == "never" {
			ordered = append(ordered, cs)
		}
	}
	for _, cs := range cases {
		if cs.Peer != "never" {
			ordered = append(ordered, cs)
		}
	}
	c.parallel(len(ordered), func(i int) { c13Run(c, ordered[i]) })
	runSockLegC13(c)
}
