package main

import (
	"encoding/binary"
	"fmt"

	"github.com/SAP/go-dblib/tds"
)

// flatCh is a write-only recording tds.BytesChannel of the harness: it
// collects exactly the bytes a package writes (no packets, no padding).
type flatCh struct{ b []byte }

var _ tds.BytesChannel = (*flatCh)(nil)

var errFlatRead = fmt.Errorf("flatCh: read not supported")

func (f *flatCh) Position() (int, int)         { return 0, len(f.b) }
func (f *flatCh) SetPosition(int, int)         {}
func (f *flatCh) DiscardUntilCurrentPosition() {}
func (f *flatCh) Read([]byte) (int, error)     { return 0, errFlatRead }
func (f *flatCh) Write(p []byte) (int, error)  { f.b = append(f.b, p...); return len(p), nil }
func (f *flatCh) Bytes(int) ([]byte, error)    { return nil, errFlatRead }
func (f *flatCh) WriteBytes(p []byte) error    { f.b = append(f.b, p...); return nil }
func (f *flatCh) Byte() (byte, error)          { return 0, errFlatRead }
func (f *flatCh) WriteByte(b byte) error       { f.b = append(f.b, b); return nil }
func (f *flatCh) Uint8() (uint8, error)        { return 0, errFlatRead }
func (f *flatCh) WriteUint8(v uint8) error     { f.b = append(f.b, v); return nil }
func (f *flatCh) Int8() (int8, error)          { return 0, errFlatRead }
func (f *flatCh) WriteInt8(v int8) error       { f.b = append(f.b, byte(v)); return nil }
func (f *flatCh) Uint16() (uint16, error)      { return 0, errFlatRead }
func (f *flatCh) WriteUint16(v uint16) error {
	f.b = binary.LittleEndian.AppendUint16(f.b, v)
	return nil
}
func (f *flatCh) Int16() (int16, error)    { return 0, errFlatRead }
func (f *flatCh) WriteInt16(v int16) error { return f.WriteUint16(uint16(v)) }
func (f *flatCh) Uint32() (uint32, error)  { return 0, errFlatRead }
func (f *flatCh) WriteUint32(v uint32) error {
	f.b = binary.LittleEndian.AppendUint32(f.b, v)
	return nil
}
func (f *flatCh) Int32() (int32, error)    { return 0, errFlatRead }
func (f *flatCh) WriteInt32(v int32) error { return f.WriteUint32(uint32(v)) }
func (f *flatCh) Uint64() (uint64, error)  { return 0, errFlatRead }
func (f *flatCh) WriteUint64(v uint64) error {
	f.b = binary.LittleEndian.AppendUint64(f.b, v)
	return nil
}
func (f *flatCh) Int64() (int64, error)      { return 0, errFlatRead }
func (f *flatCh) WriteInt64(v int64) error   { return f.WriteUint64(uint64(v)) }
func (f *flatCh) String(int) (string, error) { return "", errFlatRead }
func (f *flatCh) WriteString(s string) error { f.b = append(f.b, s...); return nil }
