package main

import (
	"context"
	"encoding/hex"
	"encoding/json"
	"errors"
	"fmt"
	"io"
	"net"
	"strings"
	"time"

	"github.com/SAP/go-dblib/tds"

	"verif/harness/canon"
	"verif/harness/rt"
	"verif/harness/srv"
	"verif/harness/xport"
)

// C14 — transport failure yields a clean prefix and then an error.
//
// Events: for response stream S and fault (offset k, style): the sequence of
// NextPackage results once the reader goroutine is quiescent.
// Oracle: results are a prefix of the fault-free delivery, at least the
// packages lying in completely received packets, no library-supplied final
// DONE unless the EOM packet arrived completely, then an error.

func init() { register("C14", runC14) }

type c14Case struct {
	Resp        string   `json:"response"`
	BodyHex     string   `json:"body_hex"`
	Bounds      []int    `json:"package_bounds"` // body offsets where packages end
	Kinds       []string `json:"kinds"`
	Cuts        []int    `json:"packet_cuts"`
	CutClass    string   `json:"cut_class"`
	Offset      int      `json:"fault_offset"` // bytes of the stream delivered before the fault
	Style       string   `json:"style"`        // eof | eof-with-data | reset | timeout | unexpected-eof | wrapped-eof | closed
	ReadTimeout int      `json:"packet_read_timeout"`
	Chunk       string   `json:"chunking"` // "one" | "per-packet" : how the delivered prefix is handed to Read
	// Prelude: a complete earlier response was delivered and consumed on the
	// channel before the response that is cut off by the fault
	Prelude bool `json:"second_response_on_channel,omitempty"`
	// SecondChannel: the connection carries a logical channel besides
	// channel 0; its consumer has to learn about the failure as well
	SecondChannel bool `json:"second_channel,omitempty"`
	// CloseAck (with SecondChannel, fault at a packet boundary): the last
	// packet before the fault is a header-only TDS_BUF_CLOSE packet for the
	// second channel (the server confirming that channel's teardown)
	CloseAck bool `json:"close_packet_for_second_channel_before_fault,omitempty"`
	// HeaderType: header type of the response's packets if not
	// TDS_BUF_RESPONSE (the library parses the body of a packet whatever
	// its type; TDS_BUF_CLOSE packets get special treatment at end of stream)
	HeaderType int `json:"packet_header_type,omitempty"`
	// LateEOM: the end-of-message status travels on a trailing header-only
	// packet. PauseMs (with per-packet chunking): that long nothing arrives
	// before the LAST delivered packet. EmptyReadEOF: the transport answers
	// a read with an empty buffer with the terminal error once nothing is
	// left (pipe-like transports do).
	LateEOM      bool `json:"header_only_eom_packet,omitempty"`
	PauseMs      int  `json:"pause_before_the_last_packet_ms,omitempty"`
	EmptyReadEOF bool `json:"empty_read_reports_the_failure,omitempty"`
}

func c14Err(style string) error {
	switch style {
	case "eof", "eof-with-data":
		return io.EOF
	case "reset":
		return xport.ErrReset
	case "unexpected-eof":
		// what crypto/tls reports for a connection cut without close_notify
		return io.ErrUnexpectedEOF
	case "wrapped-eof":
		return fmt.Errorf("transport: %w", io.EOF)
	case "closed":
		// the socket was closed underneath the connection (an idle
		// connection reaper, the owner of the net.Conn) while the
		// connection's context is live
		return &net.OpError{Op: "read", Net: "unix", Err: net.ErrClosed}
	}
	return xport.ErrTimeout
}

// readerQuiescent polls until the reader goroutine cannot make progress by
// itself: it has exited, or it is parked in a channel send. Returns the
// state seen ("gone", "chan send", ...) and ok=false if the watchdog fired.
func readerQuiescent(gid int64, d time.Duration) (string, bool) {
	deadline := time.Now().Add(d)
	for {
		gs := rt.Goroutines()
		g := rt.FindG(gs, gid)
		if g == nil {
			return "gone", true
		}
		if g.State == "chan send" {
			return "chan send", true
		}
		// a send that can also be aborted by a close / cancel is a select
		if g.State == "select" && (g.Has(".queueError") || g.Has(".queuePackage")) {
			return "chan send", true
		}
		if time.Now().After(deadline) {
			return g.State, false
		}
		time.Sleep(100 * time.Microsecond)
	}
}

// c14Quiesce is readerQuiescent for a transport that has failed: besides
// "gone" and "parked on a queue" the reader can come to rest in a third way,
// reading the failed transport again and again without ever reporting it.
// That is decided by counting, not by time: the transport has answered 5000
// Read calls with its terminal error (the tree stops after about a dozen,
// when the error queue is full).
func c14Quiesce(tr *xport.Transport, gid int64, d time.Duration) (string, bool) {
	deadline := time.Now().Add(d)
	for {
		if st, ok := readerQuiescent(gid, 0); ok {
			return st, true
		}
		if tr.TermReads() > 5000 {
			return "reading the failed transport again and again (more than 5000 reads answered with the error)", true
		}
		if time.Now().After(deadline) {
			st, _ := readerQuiescent(gid, 0)
			return st, false
		}
		time.Sleep(100 * time.Microsecond)
	}
}

func c14Run(c *Ctx, cs c14Case, ref []string) {
	r := c.R
	r.Eval(1)
	body, _ := hex.DecodeString(cs.BodyHex)
	pkts := c02Packets(body, cs.Cuts, nil, cs.LateEOM)
	if cs.HeaderType != 0 {
		for i := range pkts {
			p := append([]byte(nil), pkts[i]...)
			p[0] = byte(cs.HeaderType)
			pkts[i] = p
		}
	}
	stream := xport.Concat(pkts)
	if cs.Offset > len(stream) {
		return
	}
	k, err := newKit(4096, cs.ReadTimeout)
	if err != nil {
		r.Inconclusive("cannot set up connection: %v", err)
		return
	}
	defer k.teardown()
	k.tr.EOFOnEmptyRead = cs.EmptyReadEOF
	var ch1 *tds.Channel
	var ch1ID uint16
	if cs.SecondChannel {
		k.tr.OnWrite = func(rec xport.WriteRec) {
			if len(rec.Data) == 8 && rec.Data[0] == byte(tds.TDS_BUF_SETUP) {
				ch1ID = uint16(rec.Data[4])<<8 | uint16(rec.Data[5])
				k.tr.Feed(xport.Header{Type: byte(tds.TDS_BUF_PROTACK), Status: xport.EOM, Length: 8, Channel: uint16(rec.Data[4])<<8 | uint16(rec.Data[5])}.Bytes())
			}
		}
		call := c13Go(func() { ch1, err = k.conn.NewChannel() })
		if !call.wait(30*time.Second) || call.pi != nil || err != nil || ch1 == nil {
			r.Inconclusive("cannot set up the second channel: %v", err)
			return
		}
		k.tr.OnWrite = nil
		if !awaitIdle(k.tr, 30*time.Second) {
			r.Inconclusive("channel setup not processed")
			return
		}
	}
	if cs.Prelude {
		first := append(srv.ReturnStatus(77), srv.Done(srv.TokDone, srv.DoneCount, 0, 1)...)
		k.tr.Feed(xport.Packet(byte(tds.TDS_BUF_RESPONSE), xport.EOM, 0, first))
		if !awaitIdle(k.tr, 30*time.Second) {
			r.Inconclusive("prelude response not processed")
			return
		}
		if d := drainChannel(k.ch, k.ctx); len(d.Dumps) != 3 || len(d.Errs) != 0 {
			r.Violate("prelude-response-wrong"+"/"+cs.Style, fmt.Sprintf("the complete earlier response delivered %v / %v", d.Types, d.Errs), cs)
			return
		}
	}
	// deliver stream[:Offset], then the fault
	prefix := stream[:cs.Offset]
	if cs.Chunk == "per-packet" {
		off := 0
		for _, p := range pkts {
			if off >= len(prefix) {
				break
			}
			end := off + len(p)
			if end > len(prefix) {
				end = len(prefix)
			}
			if cs.PauseMs > 0 && off+len(p) >= len(prefix) {
				// the reader has processed what came so far and waits
				awaitIdle(k.tr, 20*time.Second)
				time.Sleep(time.Duration(cs.PauseMs) * time.Millisecond)
			}
			k.tr.Feed(prefix[off:end])
			off += len(p)
		}
	} else {
		k.tr.Feed(prefix)
	}
	closeAck := false
	if cs.CloseAck && ch1 != nil {
		at := 0
		for _, p := range pkts {
			if at == cs.Offset {
				break
			}
			at += len(p)
		}
		if at == cs.Offset { // the prefix ends at a packet boundary
			closeAck = true
			k.tr.Feed(xport.Header{Type: byte(tds.TDS_BUF_CLOSE), Status: xport.EOM, Length: 8, Channel: ch1ID}.Bytes())
		}
	}
	k.tr.Terminate(c14Err(cs.Style), cs.Style == "eof-with-data")
	// where is the fault relative to packets and packages?
	completeBody, receivedBody, eomComplete := 0, 0, false
	off := 0
	state := "between-packets"
	for i, p := range pkts {
		end := off + len(p)
		switch {
		case cs.Offset >= end:
			completeBody += len(p) - 8
			receivedBody += len(p) - 8
			if i == len(pkts)-1 {
				eomComplete = true
			}
		case cs.Offset > off:
			if cs.Offset-off < 8 {
				state = "in-header"
			} else {
				state = "in-body"
				receivedBody += cs.Offset - off - 8
			}
		}
		off = end
	}
	if cs.Offset == len(stream) {
		state = "after-eom"
	}
	atBoundary := false
	for _, b := range cs.Bounds {
		if b == completeBody {
			atBoundary = true
		}
	}
	if completeBody == 0 {
		atBoundary = true
	}
	stClass := state
	if atBoundary {
		stClass += "/package-boundary"
	} else {
		stClass += "/inside-package"
	}
	r.SetAdd("reader_states_at_fault", stClass+"/"+cs.Style)
	if cs.Offset > 0 && cs.Offset < len(stream) {
		r.Distinct(fmt.Sprintf("%s|%v|%d|%s|%d|%v|%v|%v|%d", cs.Resp, cs.Cuts, cs.Offset, cs.Style, cs.ReadTimeout, cs.Prelude, cs.SecondChannel, cs.CloseAck, cs.HeaderType))
		if closeAck {
			r.Count("faults_directly_after_a_close_packet", 1)
		}
	}
	// minimum and maximum number of deliverable packages
	minPk, maxPk := 0, 0
	for i, b := range cs.Bounds {
		kd := cs.Kinds[i]
		if kd == "env" || kd == "info" {
			continue
		}
		if b <= completeBody {
			minPk++
		}
		if b <= receivedBody {
			maxPk++
		}
	}
	synthetic := len(ref) > 0 && (len(cs.Kinds) == 0 || lastDelivered(cs.Kinds) != "done0")
	if eomComplete && synthetic {
		minPk++
		maxPk++
	}
	sigTail := "/" + cs.Style + "/" + stClass
	fail := func(clause, detail string, got delivered) {
		r.Violate(clause+sigTail, fmt.Sprintf("response %s (%d stream bytes in %d packets, cuts %v), transport fails with %s after %d bytes (%s, PacketReadTimeout=%d): %s; consumer got packages %v then errors %.300v; fault-free delivery has %d packages, %d lie in completely received packets",
			cs.Resp, len(stream), len(pkts), cs.Cuts, cs.Style, cs.Offset, stClass, cs.ReadTimeout, detail, got.Types, got.Errs, len(ref), minPk), cs)
	}

	var got delivered
	var gid int64
	if cs.ReadTimeout == 0 {
		// structural: wait until the reader cannot progress, then drain
		gid = waitReaderGID(k.tr)
		st, ok := c14Quiesce(k.tr, gid, 20*time.Second)
		if !ok {
			r.Inconclusive("reader goroutine still %q 20 s after the fault (case %s offset %d style %s)", st, cs.Resp, cs.Offset, cs.Style)
			return
		}
		r.SetAdd("reader_end_states", st)
		got = drainChannel(k.ch, k.ctx)
		if len(got.Errs) == 0 {
			fail("no-error-after-failure", fmt.Sprintf("the reader goroutine is %s and no error is queued: a consumer waits until its own context ends", st), got)
			return
		}
	} else {
		// timed leg: a live consumer must get the error within the
		// configured read timeout (+ generous slack); on expiry the
		// verdict is structural
		ctx, cancel := context.WithTimeout(context.Background(), time.Duration(cs.ReadTimeout)*time.Second+10*time.Second)
		for {
			pkg, err := k.ch.NextPackage(ctx, true)
			if err != nil {
				if ctx.Err() != nil {
					gid := waitReaderGID(k.tr)
					st, ok := c14Quiesce(k.tr, gid, 5*time.Second)
					cancel()
					if ok {
						fail("no-error-after-failure", fmt.Sprintf("no error within read timeout + 10 s; the reader goroutine is %s", st), got)
					} else {
						r.Inconclusive("no error within read timeout + 10 s but the reader is still %q", st)
					}
					return
				}
				got.Errs = append(got.Errs, err.Error())
				break
			}
			got.Dumps = append(got.Dumps, canon.Dump(pkg))
			got.Types = append(got.Types, fmt.Sprintf("%T", pkg))
		}
		cancel()
		// This consumer runs concurrently with the reader: when packages
		// and the error become ready between NextPackage's first look at
		// the package queue and its select, the select may hand out the
		// error first. This leg judges the time to the error; what was
		// ready with it is taken now and counted (the order of packages and
		// error is judged in the structural leg, where it is a function of
		// the input).
		if st, ok := c14Quiesce(k.tr, waitReaderGID(k.tr), 20*time.Second); !ok {
			r.Inconclusive("reader goroutine still %q 20 s after the error was delivered", st)
			return
		}
		for {
			pkg, err := k.ch.NextPackage(k.ctx, false)
			if err != nil {
				if !errors.Is(err, tds.ErrNoPackageReady) {
					continue // further copies of the error
				}
				break
			}
			r.Count("timed_leg_packages_ready_together_with_the_error", 1)
			got.Dumps = append(got.Dumps, canon.Dump(pkg))
			got.Types = append(got.Types, fmt.Sprintf("%T", pkg))
		}
	}
	r.Count("packages_observed", int64(len(got.Dumps)))
	r.Count("errors_observed", int64(len(got.Errs)))
	// prefix of the fault-free delivery
	if len(got.Dumps) > len(ref) || !sameStrings(got.Dumps, ref[:len(got.Dumps)]) {
		fail("not-a-prefix-of-fault-free-delivery", firstDiff(got.Dumps, ref), got)
		return
	}
	if len(got.Dumps) < minPk {
		fail("package-in-complete-packets-not-delivered", fmt.Sprintf("only %d packages delivered", len(got.Dumps)), got)
		return
	}
	if len(got.Dumps) > maxPk {
		what := "package-from-incomplete-data"
		if len(got.Dumps) == len(ref) && synthetic && !eomComplete {
			what = "spurious-final-done"
		}
		fail(what, fmt.Sprintf("%d packages delivered but only %d can be complete", len(got.Dumps), maxPk), got)
		return
	}
	// The failure is not consumed by the first consumer that sees it: the
	// consumer of another channel, or the same consumer asking again, must
	// be answered as well instead of waiting for ever.
	who, ch := "a second NextPackage call on the channel", k.ch
	if ch1 != nil {
		who, ch = "the consumer of the second channel", ch1
	}
	if cs.ReadTimeout == 0 {
		st, ok := c14Quiesce(k.tr, gid, 20*time.Second)
		if !ok {
			r.Inconclusive("reader goroutine still %q 20 s after the first consumer was served", st)
			return
		}
		again := drainChannel(ch, k.ctx)
		if closeAck && len(again.Types) > 0 && again.Types[0] == "*tds.HeaderOnlyPackage" {
			// the teardown confirmation itself is what that channel was sent
			again.Dumps, again.Types = again.Dumps[1:], again.Types[1:]
			r.Count("close_confirmations_delivered", 1)
		}
		if len(again.Dumps) > 0 {
			fail("package-after-the-error", fmt.Sprintf("%s received packages %v after the failure had been reported", who, again.Types), got)
			return
		}
		if len(again.Errs) == 0 {
			fail("no-error-for-later-consumer", fmt.Sprintf("after the first consumer took the queued error(s) the reader goroutine is %s and nothing is queued: %s waits until its own context ends", st, who), got)
			return
		}
		r.Count("later_consumers_answered", 1)
	} else {
		ctx, cancel := context.WithTimeout(context.Background(), time.Duration(cs.ReadTimeout)*time.Second+10*time.Second)
		pkg, err := ch.NextPackage(ctx, true)
		if _, isHdr := pkg.(*tds.HeaderOnlyPackage); closeAck && err == nil && isHdr {
			r.Count("close_confirmations_delivered", 1)
			pkg, err = ch.NextPackage(ctx, true)
		}
		expired := ctx.Err() != nil
		cancel()
		switch {
		case err == nil:
			fail("package-after-the-error", fmt.Sprintf("%s received %T after the failure had been reported", who, pkg), got)
		case expired:
			st, ok := c14Quiesce(k.tr, waitReaderGID(k.tr), 5*time.Second)
			if ok {
				fail("no-error-for-later-consumer", fmt.Sprintf("%s got no error within read timeout + 10 s; the reader goroutine is %s", who, st), got)
			} else {
				r.Inconclusive("later consumer got no error within read timeout + 10 s but the reader is still %q", st)
			}
		default:
			r.Count("later_consumers_answered", 1)
		}
	}
}

func lastDelivered(kinds []string) string {
	for i := len(kinds) - 1; i >= 0; i-- {
		if kinds[i] != "env" && kinds[i] != "info" {
			return kinds[i]
		}
	}
	return ""
}

func waitReaderGID(tr *xport.Transport) int64 {
	for i := 0; i < 100000; i++ {
		if g := tr.ReaderGID(); g != 0 {
			return g
		}
		time.Sleep(50 * time.Microsecond)
	}
	return -1
}

// c14WriteLeg: failures during a request write.
func c14WriteLeg(c *Ctx) {
	r := c.R
	for failAt := int64(1); failAt <= 5; failAt++ {
		for _, short := range []int{0, 1, 7, 8, 100, 512} {
			for _, errv := range []error{io.ErrClosedPipe, xport.ErrReset, xport.ErrTimeout} {
				r.Eval(1)
				k, err := newKit(64, 0)
				if err != nil {
					r.Inconclusive("setup: %v", err)
					return
				}
				k.tr.FailWrite(failAt, short, errv, false)
				// a message of 5 packets
				msg := &tds.LanguagePackage{Cmd: strings.Repeat("x", 4*504+100)}
				var sendErr error
				pi := rt.Catch(func() { sendErr = k.ch.SendPackage(context.Background(), msg) })
				calls := k.tr.WriteCalls()
				cs := map[string]interface{}{"leg": "write", "fail_write_call": failAt, "short_bytes": short, "error": errv.Error()}
				switch {
				case pi != nil:
					r.Violate("write-failure/panic/"+pi.Frame, pi.Value, cs)
				case sendErr == nil:
					r.Violate("write-failure/send-reported-success", fmt.Sprintf("transport write %d failed (%v after %d bytes) but SendPackage returned nil", failAt, errv, short), cs)
				case calls != failAt:
					r.Violate("write-failure/wrote-on-after-failure", fmt.Sprintf("transport write %d failed but %d write calls were made in total", failAt, calls), cs)
				case !errors.Is(sendErr, errv):
					r.Count("write_error_not_wrapping_transport_error", 1)
				}
				r.Distinct(fmt.Sprintf("write|%d|%d|%v", failAt, short, errv))
				k.teardown()
			}
		}
	}
	r.Sample("write-failure", map[string]interface{}{"message_packets": 5, "fail_at_call": "1..5", "short_bytes": []int{0, 1, 7, 8, 100, 512}})
}

func runC14(c *Ctx) {
	r := c.R
	r.Rule = "response catalogue × 3 packetisations × EVERY byte offset 0..len(stream) × fault styles {EOF alone, EOF returned together with the last data, reset-style error, timeout-style net.Error, io.ErrUnexpectedEOF, an error wrapping io.EOF} with PacketReadTimeout=0 (structural verdict once the reader goroutine is quiescent), plus sampled offsets with PacketReadTimeout=1 and a live consumer; plus transport write failures at call 1..5 after 0..512 bytes; non-trivial = fault offset strictly inside the stream; distinct = (response, cuts, offset, style)"
	r.TrustedBase = []string{"harness/srv encoder, harness/xport transport, goroutine-dump monitor (reader state)", "fault-free delivery of the same stream as reference"}
	r.Assumptions = []string{"consumption starts when the reader goroutine is quiescent (exited or parked in a channel send), so the observed sequence is a function of (stream, offset, style) and not of the consumer/reader race in NextPackage's select", "(n>0, io.EOF) is a legal io.Reader result (crypto/tls returns it when close_notify follows the data)"}
	if c.Replay != nil {
		var cs c14Case
		if err := json.Unmarshal(c.Replay, &cs); err != nil {
			r.Inconclusive("bad replay: %v", err)
			return
		}
		if _, ok := c.replayIsWriteLeg(); ok {
			c14WriteLeg(c)
			return
		}
		body, _ := hex.DecodeString(cs.BodyHex)
		refOut, err := c02Deliver(c02Packets(body, cs.Cuts, nil, false), "reader", nil)
		if err != nil || refOut.watchdog || len(refOut.d.Errs) > 0 {
			r.Inconclusive("reference delivery failed")
			return
		}
		c14Run(c, cs, refOut.d.Dumps)
		return
	}
	c14WriteLeg(c)
	resps := catalogue()
	quick := c.Quick()
	type job struct {
		cs  c14Case
		ref []string
	}
	var jobs []job
	for ri, resp := range resps {
		body := resp.Bytes()
		if quick && (ri%3 != 0 || len(body) > 400) {
			continue
		}
		rnd := rt.NewRand(c.Seed, "c14/"+resp.Name)
		bounds := resp.Bounds()
		cutsets := []struct {
			name string
			cuts []int
		}{{"one-packet", nil}, {"random-cuts", randomCuts(rnd, len(body), 2)}}
		if len(bounds) >= 2 {
			cutsets = append(cutsets, struct {
				name string
				cuts []int
			}{"eom-packet-is-last-package", []int{bounds[len(bounds)-2]}})
		}
		for _, cu := range cutsets {
			pk := c02Packets(body, cu.cuts, nil, false)
			refOut, err := c02Deliver(pk, "reader", nil)
			if err != nil || refOut.watchdog || len(refOut.d.Errs) > 0 || len(refOut.d.Dumps) == 0 {
				r.Count("responses_discarded_reference_not_clean", 1)
				continue
			}
			n := len(xport.Concat(pk))
			base := c14Case{Resp: resp.Name, BodyHex: hex.EncodeToString(body), Bounds: bounds, Kinds: resp.Kinds, Cuts: cu.cuts, CutClass: cu.name}
			for off := 0; off <= n; off++ {
				styles := []string{"eof", "eof-with-data", "reset", "timeout", "unexpected-eof", "wrapped-eof"}
				if off%3 == 0 {
					styles = append(styles, "closed")
				}
				for _, st := range styles {
					cs := base
					cs.Offset, cs.Style = off, st
					cs.Chunk = []string{"one", "per-packet"}[off%2]
					cs.Prelude = off%4 == 3
					cs.SecondChannel = off%4 == 1
					cs.CloseAck = cs.SecondChannel // effective where the fault is at a packet boundary
					jobs = append(jobs, job{cs, refOut.d.Dumps})
					if off%3 == 0 {
						ht := cs
						ht.HeaderType = []int{int(tds.TDS_BUF_CLOSE), int(tds.TDS_BUF_NORMAL)}[(off/3)%2]
						ht.SecondChannel, ht.CloseAck, ht.Prelude = false, false, false
						jobs = append(jobs, job{ht, refOut.d.Dumps})
					}
				}
			}
			// every packet boundary once more with a second channel whose
			// teardown confirmation is the last packet before the fault
			bo := 0
			for pi := 0; pi <= len(pk); pi++ {
				for _, st := range []string{"eof", "eof-with-data", "reset", "timeout"} {
					cs := base
					cs.Offset, cs.Style, cs.Chunk = bo, st, "per-packet"
					cs.SecondChannel, cs.CloseAck = true, true
					jobs = append(jobs, job{cs, refOut.d.Dumps})
					ht := base
					ht.Offset, ht.Style, ht.Chunk = bo, st, "per-packet"
					ht.HeaderType = int(tds.TDS_BUF_CLOSE)
					jobs = append(jobs, job{ht, refOut.d.Dumps})
				}
				if pi < len(pk) {
					bo += len(pk[pi])
				}
			}
			// timed leg: the whole response arrives, its end-of-message
			// status on a trailing header-only packet that comes after a
			// pause longer than the read timeout; then the transport ends.
			// Everything lies in completely received packets.
			if cu.name != "random-cuts" {
				for _, emptyEOF := range []bool{true, false} {
					cs := base
					cs.LateEOM, cs.Chunk, cs.ReadTimeout, cs.PauseMs, cs.EmptyReadEOF = true, "per-packet", 1, 1300, emptyEOF
					cs.Offset, cs.Style = n+8, "eof"
					jobs = append(jobs, job{cs, refOut.d.Dumps})
				}
			}
			// timed leg: sampled offsets with a 1 s read timeout
			samples := 4
			if !quick {
				samples = 16
			}
			for i := 0; i < samples; i++ {
				cs := base
				cs.Offset = rnd.Range(0, n)
				cs.Style = []string{"eof", "eof-with-data", "reset", "timeout", "unexpected-eof", "wrapped-eof"}[i%6]
				cs.ReadTimeout = 1
				cs.Chunk = "one"
				cs.SecondChannel = i%2 == 1
				cs.CloseAck = i%4 == 1
				jobs = append(jobs, job{cs, refOut.d.Dumps})
			}
			r.SetAdd("responses", resp.Name+"/"+cu.name)
		}
	}
	// a package spanning 20 packets, with more packages behind it: the
	// fault falls around and after the packet that completes the long
	// package (an implementation may postpone parse attempts while a long
	// package is incomplete, but not once it is complete)
	{
		lc := []srv.Col{{Name: "@blob", Type: srv.TLongBinary, MaxLen: 0x7fffffff, Status: 0x1}}
		big := make([]byte, 9544)
		for i := range big {
			big[i] = byte(i*7 + 1)
		}
		var lr response
		lr.Name = "long-params-20-packets"
		lr.add("pkg", srv.ParamFmt(true, lc...))
		lr.add("pkg", srv.Data(srv.TokParams, lc, vals(big)))
		lr.add("pkg", srv.ReturnStatus(3))
		lr.add("doneX", srv.Done(srv.TokDoneProc, srv.DoneProc, 0, 0))
		lr.add(done(0, 1))
		body := lr.Bytes()
		var cuts []int
		for o := 504; o < len(body); o += 504 {
			cuts = append(cuts, o)
		}
		pk := c02Packets(body, cuts, nil, false)
		if refOut, err := c02Deliver(pk, "reader", nil); err == nil && !refOut.watchdog && len(refOut.d.Errs) == 0 && len(refOut.d.Dumps) > 0 {
			base := c14Case{Resp: lr.Name, BodyHex: hex.EncodeToString(body), Bounds: lr.Bounds(), Kinds: lr.Kinds, Cuts: cuts, CutClass: "every-504-bytes"}
			bo := 0
			for pi := 0; pi < len(pk); pi++ {
				bo += len(pk[pi])
				if pi < 14 {
					continue
				}
				for _, d := range []int{0, 1, 8, 9, 200} {
					if bo+d > len(xport.Concat(pk)) {
						continue
					}
					for _, st := range []string{"eof", "reset", "eof-with-data"} {
						cs := base
						cs.Offset, cs.Style, cs.Chunk = bo+d, st, "per-packet"
						jobs = append(jobs, job{cs, refOut.d.Dumps})
					}
				}
			}
			r.SetAdd("responses", lr.Name)
		} else {
			r.Count("responses_discarded_reference_not_clean", 1)
		}
	}
	r.Count("cases_generated", int64(len(jobs)))
	for i := 0; i < 4 && i < len(jobs); i++ {
		r.Sample("fault", jobs[(i*7919)%len(jobs)].cs)
	}
	c.parallel(len(jobs), func(i int) { c14Run(c, jobs[i].cs, jobs[i].ref) })
	runSockLegC14(c)
}

func (c *Ctx) replayIsWriteLeg() (string, bool) {
	var m map[string]interface{}
	if json.Unmarshal(c.Replay, &m) == nil {
		if l, ok := m["leg"].(string); ok && l == "write" {
			return l, true
		}
	}
	return "", false
}
