package main

import (
	"context"
	"encoding/hex"
	"encoding/json"
	"errors"
	"fmt"
	"os"
	"strings"
	"time"

	"github.com/SAP/go-dblib/tds"

	"verif/harness/rt"
	"verif/harness/srv"
	"verif/harness/xport"
)

// C10, leg "state": server bytes that are harmless to parse but leave the
// client in a state in which its NEXT call crashes, and server replies that
// are parsed inside client calls (Login).
//
//   midmsg: a valid packet size announcement arrives while the client has a
//           partly filled packet queued (between two QueuePackage calls of
//           one message); the client then continues the message.
//   login:  negotiation replies with hostile key / nonce / cipher bytes.

type c10StateCase struct {
	Leg     string `json:"leg"`  // "state"
	Kind    string `json:"kind"` // midmsg | login
	Fill    int    `json:"queued_bytes,omitempty"`
	NewSize int    `json:"announced_packet_size,omitempty"`
	More    int    `json:"further_bytes,omitempty"`
	KeyHex  string `json:"key_hex,omitempty"`
	Nonce   int    `json:"nonce_len,omitempty"`
	Cipher  int    `json:"cipher,omitempty"`
	KeyKind string `json:"key_kind,omitempty"`
	// login-caps: which capability types the final reply carries (bit 0:
	// request, 1: response, 2: security), mask length and content
	CapTypes int    `json:"capability_types_present,omitempty"`
	MaskLen  int    `json:"mask_length,omitempty"`
	MaskKind string `json:"mask_kind,omitempty"` // zero | bits | ones
	// ExtraType / ExtraMask: a further entry of the capability reply with a
	// capability type the client does not know (or knows already) and a
	// mask of this many 0x00 / 0xff bytes
	ExtraType int    `json:"further_capability_type,omitempty"`
	ExtraLen  int    `json:"further_mask_length,omitempty"`
	ExtraKind string `json:"further_mask_kind,omitempty"`
	ExtraSet  bool   `json:"further_entry_present,omitempty"`
	Flow     string `json:"flow,omitempty"`
	// after-parse-error: good packages + a malformed one in packet 1, then
	// short packets
	Good     int    `json:"good_packages_before,omitempty"`
	Bad      string `json:"malformed,omitempty"`
	P1EOM    bool   `json:"first_packet_eom,omitempty"`
	ShortLen []int  `json:"following_packet_body_lengths,omitempty"`
}

// c10Guarded runs f under the panic monitor with a watchdog on time and
// allocation: a call that neither returns nor stops allocating cannot be
// stopped from outside the library, so the worker reports and exits.
func c10Guarded(what string, f func()) (pi *rt.PanicInfo, finished bool) {
	done := make(chan *rt.PanicInfo, 1)
	a0 := c10Allocs()
	go func() { done <- rt.Catch(f) }()
	tick := time.NewTicker(2 * time.Millisecond)
	defer tick.Stop()
	deadline := time.After(20 * time.Second)
	for {
		select {
		case pi := <-done:
			return pi, true
		case <-tick.C:
			if d := c10Allocs() - a0; d > 1<<30 {
				fmt.Fprintf(os.Stderr, "fatal error: runaway allocation (%d bytes and still running) in %s\n\n", d, what)
				for _, g := range rt.DblibGoroutines(rt.Goroutines()) {
					fmt.Fprintln(os.Stderr, g.Raw)
					fmt.Fprintln(os.Stderr)
				}
				os.Exit(3)
			}
		case <-deadline:
			return nil, false
		}
	}
}

func c10StateRun(c *Ctx, cs c10StateCase) {
	r := c.R
	r.Eval(1)
	b, _ := json.Marshal(cs)
	rt.CaseLog("C10 state %s", b)
	switch cs.Kind {
	case "midmsg":
		k, err := newKit(64, 0)
		if err != nil {
			r.Inconclusive("setup: %v", err)
			return
		}
		defer k.teardown()
		ctx := context.Background()
		if err := k.ch.QueuePackage(ctx, &tds.LanguagePackage{Cmd: strings.Repeat("a", cs.Fill)}); err != nil {
			return
		}
		resp := append(srv.EnvChange(srv.EnvMember{Type: 4, New: itoa(cs.NewSize), Old: "512"}), srv.Done(srv.TokDone, 0, 0, 0)...)
		k.tr.Feed(xport.Packet(byte(tds.TDS_BUF_RESPONSE), xport.EOM, 0, resp))
		if !awaitIdle(k.tr, 20*time.Second) {
			r.Inconclusive("reader not idle after the packet size announcement")
			return
		}
		var e1, e2 error
		pi, fin := c10Guarded("continuing a message after a packet size announcement", func() {
			e1 = k.ch.QueuePackage(ctx, &tds.LanguagePackage{Cmd: strings.Repeat("b", cs.More)})
			e2 = k.ch.SendRemainingPackets(ctx)
		})
		r.Distinct(fmt.Sprintf("midmsg|%d|%d|%d", cs.Fill, cs.NewSize, cs.More))
		r.SetAdd("state_outcomes", fmt.Sprintf("midmsg:%v/%v", e1 != nil, e2 != nil))
		switch {
		case pi != nil:
			r.Violate("panic/"+pi.Frame+"/mid-message-packet-size-change", fmt.Sprintf("the client had %d bytes of a message queued when the server announced packet size %d; continuing the message (QueuePackage of %d more bytes, SendRemainingPackets) panicked: %s", cs.Fill+6, cs.NewSize, cs.More+6, pi.Value), cs)
		case !fin:
			r.Violate("hang/mid-message-packet-size-change", fmt.Sprintf("the client had %d bytes queued when the server announced packet size %d; continuing the message did not return within 20 s", cs.Fill+6, cs.NewSize), cs)
		}
	case "after-parse-error":
		// what a parse error leaves behind for the packets that follow
		k, err := newKit(256, 0)
		if err != nil {
			r.Inconclusive("setup: %v", err)
			return
		}
		defer k.teardown()
		var body []byte
		for i := 0; i < cs.Good; i++ {
			body = append(body, srv.Done(srv.TokDone, srv.DoneMore|srv.DoneCount, 0, int32(i))...)
		}
		switch cs.Bad {
		case "language-length-0":
			body = append(body, 0x21, 0, 0, 0, 0)
		case "unknown-token":
			body = append(body, 0x01, 0x02, 0x03, 0x04)
		case "row-without-format":
			body = append(body, srv.TokRow, 1, 2, 3, 4, 5, 6, 7, 8)
		case "eed-length-beyond":
			body = append(body, 0xE5, 0xff, 0x00, 1, 2, 3)
		case "envchange-bad-packsize":
			body = append(body, srv.EnvChange(srv.EnvMember{Type: 4, New: "4", Old: "512"})...)
		}
		st := byte(0)
		if cs.P1EOM {
			st = xport.EOM
		}
		k.tr.Feed(xport.Packet(byte(tds.TDS_BUF_RESPONSE), st, 0, body))
		// the following packets carry DONE packages cut into the given lengths
		var rest []byte
		for i := 0; i < 40; i++ {
			rest = append(rest, srv.Done(srv.TokDone, srv.DoneMore|srv.DoneCount, 0, int32(100+i))...)
		}
		rest = append(rest, srv.Done(srv.TokDone, 0, 0, 0)...)
		for _, n := range cs.ShortLen {
			if n > len(rest) {
				n = len(rest)
			}
			k.tr.Feed(xport.Packet(byte(tds.TDS_BUF_RESPONSE), 0, 0, rest[:n]))
			rest = rest[n:]
		}
		k.tr.Feed(xport.Packet(byte(tds.TDS_BUF_RESPONSE), xport.EOM, 0, rest))
		// a consumer keeps taking packages and errors so that the reader
		// is never held up by a full queue
		stop := make(chan struct{})
		done := make(chan struct{})
		go func() {
			defer close(done)
			for {
				select {
				case <-stop:
					return
				default:
				}
				if _, err := k.ch.NextPackage(k.ctx, false); err != nil && !errors.Is(err, tds.ErrNoPackageReady) {
					r.Count("state_errors_surfaced", 1)
				}
			}
		}()
		idle := awaitIdle(k.tr, 20*time.Second)
		close(stop)
		<-done
		r.Distinct(string(b))
		if !idle {
			if g := rt.FindG(rt.Goroutines(), k.tr.ReaderGID()); g == nil {
				r.Violate("reader-gone/after-parse-error", "the reader goroutine ended while packets were still arriving (no panic was reported, the connection is dead)", cs)
			} else {
				r.Inconclusive("reader not idle 20 s after the packets following a parse error (state %s)", g.State)
			}
			return
		}
		r.SetAdd("state_outcomes", "after-parse-error:"+cs.Bad)
	case "login-caps":
		// the capability reply is stored by Login and queried by the
		// driver afterwards (and written back by the next login)
		var es []srv.CapEntry
		for t := 1; t <= 3; t++ {
			if cs.CapTypes&(1<<uint(t-1)) == 0 {
				continue
			}
			m := make([]byte, cs.MaskLen)
			switch cs.MaskKind {
			case "bits":
				if t == 1 {
					m = srv.MaskWith(cs.MaskLen, lpReqBits...)
				} else {
					m = srv.MaskWith(cs.MaskLen, lpRespBits...)
				}
			case "ones":
				for i := range m {
					m[i] = 0xff
				}
			}
			es = append(es, srv.CapEntry{Type: byte(t), Mask: m})
		}
		if cs.ExtraSet {
			m := make([]byte, cs.ExtraLen)
			if cs.ExtraKind == "ones" {
				for i := range m {
					m[i] = 0xff
				}
			}
			es = append(es, srv.CapEntry{Type: byte(cs.ExtraType), Mask: m})
		}
		capItem := lpItem{Kind: "capability", Caps: "c10", B: srv.Capability(es...)}
		var script lpScript
		if cs.Flow == "encrypted" {
			key := lpGetKey(1024)
			types := []int{srv.TInt4, srv.TLongBinary, srv.TLongBinary}
			script = lpScript{Flow: "encrypted", Rounds: [][]lpItem{
				{lpLoginAck(srv.LogNegotiate), lpMsg(1, lpMsgEncrypt4), lpParamFmt(types...), lpParams(types, 1, "valid", key.pem, []byte("0123456789abcdef0123456789abcdef")), lpDone(0)},
				{lpLoginAck(srv.LogSucceed), capItem, lpDone(0)},
			}}
		} else {
			script = lpScript{Flow: "plain", Rounds: [][]lpItem{{lpLoginAck(srv.LogSucceed), capItem, lpDone(0)}}}
		}
		res := lpRun(c.Seed, script, lpConfig("sa", "secret-Pw1", cs.Flow == "encrypted"), lpOptions{CutSeed: string(b), CutClass: "one-packet", Timeout: 500 * time.Millisecond})
		r.Distinct("login-caps|" + string(b))
		if res.panicked != nil {
			if res.kit != nil {
				res.kit.teardown()
			}
			r.Violate("panic/"+res.panicked.Frame+"/login-reply", fmt.Sprintf("Login panicked on a final reply whose capability package carries the types %03b with %d-byte %s masks: %s", cs.CapTypes, cs.MaskLen, cs.MaskKind, res.panicked.Value), cs)
			return
		}
		if res.kit == nil {
			return
		}
		defer res.kit.teardown()
		r.SetAdd("state_outcomes", fmt.Sprintf("login-caps:%03b:%v", cs.CapTypes, res.err != nil))
		caps := res.kit.conn.Caps
		if caps == nil {
			return
		}
		pi := rt.Catch(func() {
			for i := 0; i <= 107; i++ {
				caps.HasRequestCapability(tds.RequestCapability(i))
			}
			for i := 0; i <= 50; i++ {
				caps.HasResponseCapability(tds.ResponseCapability(i))
			}
			for i := 0; i <= 8; i++ {
				caps.HasSecurityCapability(tds.SecurityCapability(i))
			}
			for t := 1; t <= 3; t++ { // the three capability types there are
				caps.HasCapability(tds.CapabilityType(t), 1)
			}
			_ = caps.String()
			_ = caps.SetRequestCapability(tds.TDS_REQ_LANG, true)
			_ = caps.SetResponseCapability(tds.TDS_RES_NOEED, false)
			_ = caps.WriteTo(&flatCh{})
		})
		if pi != nil {
			r.Violate("panic/"+pi.Frame+"/capabilities-after-login", fmt.Sprintf("after a login (err=%v) whose final reply carried a capability package with the types %03b (%d-byte %s masks), querying / changing / writing the connection's capabilities panicked: %s", res.err, cs.CapTypes, cs.MaskLen, cs.MaskKind, pi.Value), cs)
		}
	case "login":
		key, _ := hex.DecodeString(cs.KeyHex)
		types := []int{srv.TInt4, srv.TLongBinary, srv.TLongBinary}
		rnd := rt.NewRand(c.Seed, "c10/state/login/"+cs.KeyHex)
		script := lpScript{Flow: "encrypted", Rounds: [][]lpItem{
			{lpLoginAck(srv.LogNegotiate), lpMsg(1, lpMsgEncrypt4), lpParamFmt(types...), lpParams(types, cs.Cipher, cs.KeyKind, key, rnd.Bytes(cs.Nonce)), lpDone(0)},
			{lpLoginAck(srv.LogSucceed), lpCaps("ok"), lpDone(0)},
		}}
		res := lpRun(c.Seed, script, lpConfig("sa", "secret-Pw1", true), lpOptions{CutSeed: cs.KeyHex, CutClass: "one-packet", Timeout: 500 * time.Millisecond})
		if res.kit != nil {
			res.kit.teardown()
		}
		r.Distinct("login|" + cs.KeyKind + "|" + cs.KeyHex)
		r.SetAdd("state_outcomes", fmt.Sprintf("login:%s:%v", cs.KeyKind, res.err != nil))
		if res.panicked != nil {
			r.Violate("panic/"+res.panicked.Frame+"/login-reply", fmt.Sprintf("Login panicked on a negotiation reply whose public key is %d bytes of kind %s (%q): %s", len(key), cs.KeyKind, key, res.panicked.Value), cs)
		}
	}
}

func runC10State(c *Ctx) {
	r := c.R
	if c.Replay != nil {
		var cs c10StateCase
		if json.Unmarshal(c.Replay, &cs) == nil && cs.Leg == "state" {
			c10StateRun(c, cs)
		}
		return
	}
	var cases []c10StateCase
	for _, fill := range []int{1, 100, 243, 300, 497, 498} {
		for _, ns := range []int{9, 16, 256, 300, 511, 513, 1024, 65535} {
			for _, more := range []int{1, 200, 700, 2000} {
				cases = append(cases, c10StateCase{Leg: "state", Kind: "midmsg", Fill: fill, NewSize: ns, More: more})
			}
		}
	}
	for _, good := range []int{1, 3, 20} {
		for _, bad := range []string{"language-length-0", "unknown-token", "row-without-format", "eed-length-beyond", "envchange-bad-packsize"} {
			for _, eom := range []bool{false, true} {
				for _, sl := range [][]int{{1}, {2}, {5}, {9}, {1, 1}, {3, 40}, {8, 1, 1}, {}} {
					cases = append(cases, c10StateCase{Leg: "state", Kind: "after-parse-error", Good: good, Bad: bad, P1EOM: eom, ShortLen: sl})
				}
			}
		}
	}
	for _, flow := range []string{"plain", "encrypted"} {
		for types := 0; types < 8; types++ {
			for _, ml := range []int{0, 1, 14, 20} {
				for _, mk := range []string{"zero", "bits", "ones"} {
					cases = append(cases, c10StateCase{Leg: "state", Kind: "login-caps", Flow: flow, CapTypes: types, MaskLen: ml, MaskKind: mk})
				}
			}
		}
	}
	for _, flow := range []string{"plain", "encrypted"} {
		for _, et := range []int{4, 0, 5, 255, 1, 3} {
			for _, el := range []int{1, 2, 14} {
				for _, ek := range []string{"zero", "ones"} {
					cases = append(cases, c10StateCase{Leg: "state", Kind: "login-caps", Flow: flow, CapTypes: 7, MaskLen: 14, MaskKind: "bits", ExtraSet: true, ExtraType: et, ExtraLen: el, ExtraKind: ek})
				}
			}
		}
	}
	valid := lpGetKey(1024).pem
	keys := map[string][][]byte{
		"whitespace-only": {[]byte("\n"), []byte("\r\n"), []byte("\x00"), []byte("\n\n\n\n"), []byte("\r\n\x00\x00"), []byte(" "), []byte("\t\n")},
		"pem-markers":     {[]byte("-----BEGIN RSA PUBLIC KEY-----\n-----END RSA PUBLIC KEY-----\n"), []byte("-----BEGIN RSA PUBLIC KEY-----\n"), []byte("-----END RSA PUBLIC KEY-----\n"), []byte("-----BEGIN X-----\nAAAA\n-----END X-----\n")},
		"valid-plus-tail": {append(append([]byte(nil), valid...), '\n'), append(append([]byte(nil), valid...), 0), append(append([]byte(nil), valid...), valid...)},
	}
	rnd := rt.NewRand(c.Seed, "c10/state/keys")
	n := 60
	if !c.Quick() {
		n = 2000
	}
	for i := 0; i < n; i++ {
		keys["random"] = append(keys["random"], rnd.Bytes(rnd.Intn(80)))
		m := append([]byte(nil), valid...)
		for j := rnd.Range(1, 3); j > 0; j-- {
			m[rnd.Intn(len(m))] = byte(rnd.Intn(256))
		}
		keys["valid-mutated"] = append(keys["valid-mutated"], m)
		keys["valid-truncated"] = append(keys["valid-truncated"], valid[:rnd.Intn(len(valid))])
	}
	for kind, ks := range keys {
		for _, k := range ks {
			cases = append(cases, c10StateCase{Leg: "state", Kind: "login", KeyHex: hex.EncodeToString(k), KeyKind: kind, Nonce: rnd.Intn(40), Cipher: 1})
		}
	}
	r.Count("state_cases", int64(len(cases)))
	r.Sample("state", cases[0])
	r.Sample("state", cases[len(cases)-1])
	for _, cs := range cases {
		c10StateRun(c, cs)
	}
}
