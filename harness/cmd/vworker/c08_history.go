package main

import (
	"encoding/json"
	"fmt"
	"time"

	"verif/harness/rt"
	"verif/harness/srv"
)

// C08, family "history": whether Login succeeds is a function of the server's
// replies - not of what an earlier login on the same connection left behind.
//
// For capability replies of every kind (usable, all types zeroed, one type
// zeroed, the response type left out, the response type with a zero-length
// mask) the encrypted login is run (a) on a fresh connection and (b) as the
// second login on a connection whose first login was answered with a
// capability reply of another kind (which, accepted or not, may have become
// the connection's capability set). Where the first login was accepted (so
// that its whole reply was consumed) the second login must succeed exactly
// when the same replies succeed on a fresh connection; must-reject replies
// (all types zeroed) must be rejected in both.

type c08HistCase struct {
	Family string `json:"family"` // "history"
	First  string `json:"first_login_capability_reply"`
	Second string `json:"second_login_capability_reply"`
}

func c08HistScript(caps string) lpScript {
	key := lpGetKey(1024)
	nonce := []byte("0123456789abcdef0123456789abcdef")
	types := []int{srv.TInt4, srv.TLongBinary, srv.TLongBinary}
	neg := []lpItem{lpLoginAck(srv.LogNegotiate), lpMsg(1, lpMsgEncrypt4), lpParamFmt(types...), lpParams(types, 1, "valid", key.pem, nonce), lpDone(0)}
	return lpScript{Flow: "encrypted", Rounds: [][]lpItem{neg, {lpLoginAck(srv.LogSucceed), lpCaps(caps), lpDone(0)}}}
}

var c08HistKinds = []string{"ok", "all-zero", "request-zero", "response-zero", "response-omitted", "response-empty", "ok+type7"}

// c08HistTypes: the capability types a reply of the kind carries.
func c08HistTypes(kind string) map[int]bool {
	switch kind {
	case "response-omitted":
		return map[int]bool{1: true}
	case "ok+type7":
		return map[int]bool{1: true, 2: true, 7: true}
	}
	return map[int]bool{1: true, 2: true}
}

func c08HistRun(c *Ctx, cs c08HistCase, fresh map[string]*bool) {
	r := c.R
	r.Eval(1)
	b, _ := json.Marshal(cs)
	rt.CaseLog("C08 history %s", b)
	opt := lpOptions{CutSeed: string(b), CutClass: "one-packet", Timeout: 400 * time.Millisecond}
	if fresh[cs.Second] == nil {
		res := lpRun(c.Seed, c08HistScript(cs.Second), lpConfig("sa", "secret-Pw1", true), opt)
		if res.kit == nil {
			r.Inconclusive("setup: %v", res.err)
			return
		}
		res.kit.teardown()
		if res.watchdog || res.panicked != nil {
			return // judged by the main family
		}
		ok := res.err == nil
		fresh[cs.Second] = &ok
		r.SetAdd("history_fresh_outcomes", fmt.Sprintf("%s:accepted=%v", cs.Second, ok))
	}
	second := c08HistScript(cs.Second)
	opt.Second, opt.SecondCfg = &second, lpConfig("sa", "secret-Pw1", true)
	res := lpRun(c.Seed, c08HistScript(cs.First), lpConfig("sa", "secret-Pw1", true), opt)
	if res.kit == nil {
		r.Inconclusive("setup: %v", res.err)
		return
	}
	defer res.kit.teardown()
	if !res.ran2 || res.watchdog2 {
		r.Count("history_second_login_not_run_or_stuck", 1)
		return
	}
	if res.err != nil {
		// a rejected first login stops reading where it rejects: what is left
		// of its reply is read by the second one, whose outcome then says
		// nothing about the second reply
		r.Count("history_first_login_rejected_second_not_judged", 1)
		return
	}
	r.Distinct(string(b))
	r.Count("history_second_logins_judged", 1)
	switch {
	case res.panicked2 != nil:
		r.Violate("panic/"+res.panicked2.Frame+"/history", fmt.Sprintf("second login on a connection (first login answered with capability reply %q, second with %q) panicked: %s", cs.First, cs.Second, res.panicked2.Value), cs)
	case (res.err2 == nil) != *fresh[cs.Second]:
		r.Violate("login-outcome-depends-on-earlier-login/"+cs.Second, fmt.Sprintf("the encrypted login answered with capability reply %q %s on a fresh connection, but as the second login on a connection whose first login (outcome: %v) was answered with capability reply %q it returned %v", cs.Second, map[bool]string{true: "succeeds", false: "fails"}[*fresh[cs.Second]], res.err, cs.First, res.err2), cs)
	case res.err2 == nil && res.kit.conn.Caps != nil && func() bool {
		// after success the connection's capability set is the one the
		// server returned: no capability type of an earlier reply survives
		for t, m := range res.kit.conn.Caps.Capabilities {
			if !c08HistTypes(cs.Second)[int(t)] && m != nil && int(t) > 3 {
				return true
			}
		}
		return false
	}():
		r.Violate("capability-set-not-the-returned/history/"+cs.First+"-then-"+cs.Second, fmt.Sprintf("after the second, accepted login (capability reply %q) the connection's capability set still has a capability type that only the FIRST reply (%q) carried: %v", cs.Second, cs.First, res.kit.conn.Caps), cs)
	case cs.Second == "all-zero" && res.err2 == nil:
		r.Violate("accepted-invalid-reply/history/all-zero", fmt.Sprintf("second login answered with all-zero capabilities (first login answered with %q) returned nil", cs.First), cs)
	}
}

func runC08History(c *Ctx) {
	fresh := map[string]*bool{}
	for _, first := range c08HistKinds {
		for _, second := range c08HistKinds {
			c08HistRun(c, c08HistCase{Family: "history", First: first, Second: second}, fresh)
		}
	}
}
