package main

// Package legs of C04: a flat little-endian tds.BytesChannel of the harness
// (so that C04 does not depend on PacketQueue, which C15 judges), the
// library's PARAMFMT/ROWFMT2 readers fed with reference-encoded formats, the
// library's PARAMS writer and PARAMS/ROW readers.

import (
	"encoding/binary"
	"fmt"

	"github.com/SAP/go-dblib/tds"

	"verif/harness/refdata"
	"verif/harness/rt"
)

// dtFlatCh implements tds.BytesChannel over one byte slice.
type dtFlatCh struct {
	buf []byte
	pos int
}

var _ tds.BytesChannel = (*dtFlatCh)(nil)

func (c *dtFlatCh) Position() (int, int)         { return 0, c.pos }
func (c *dtFlatCh) SetPosition(_, i int)         { c.pos = i }
func (c *dtFlatCh) DiscardUntilCurrentPosition() {}
func (c *dtFlatCh) Read(p []byte) (int, error) {
	bs, err := c.Bytes(len(p))
	copy(p, bs)
	return len(bs), err
}
func (c *dtFlatCh) Write(p []byte) (int, error) { return len(p), c.WriteBytes(p) }
func (c *dtFlatCh) Bytes(n int) ([]byte, error) {
	out := make([]byte, n)
	if n < 0 || c.pos+n > len(c.buf) {
		copy(out, c.buf[c.pos:])
		c.pos = len(c.buf)
		return out, tds.ErrNotEnoughBytes
	}
	copy(out, c.buf[c.pos:c.pos+n])
	c.pos += n
	return out, nil
}
func (c *dtFlatCh) WriteBytes(b []byte) error {
	c.buf = append(c.buf[:c.pos], b...)
	c.pos = len(c.buf)
	return nil
}
func (c *dtFlatCh) Byte() (byte, error) {
	b, err := c.Bytes(1)
	return b[0], err
}
func (c *dtFlatCh) WriteByte(b byte) error   { return c.WriteBytes([]byte{b}) }
func (c *dtFlatCh) Uint8() (uint8, error)    { return c.Byte() }
func (c *dtFlatCh) WriteUint8(v uint8) error { return c.WriteByte(v) }
func (c *dtFlatCh) Int8() (int8, error)      { b, err := c.Byte(); return int8(b), err }
func (c *dtFlatCh) WriteInt8(v int8) error   { return c.WriteByte(byte(v)) }
func (c *dtFlatCh) Uint16() (uint16, error) {
	b, err := c.Bytes(2)
	return binary.LittleEndian.Uint16(b), err
}
func (c *dtFlatCh) WriteUint16(v uint16) error {
	return c.WriteBytes(binary.LittleEndian.AppendUint16(nil, v))
}
func (c *dtFlatCh) Int16() (int16, error)    { v, err := c.Uint16(); return int16(v), err }
func (c *dtFlatCh) WriteInt16(v int16) error { return c.WriteUint16(uint16(v)) }
func (c *dtFlatCh) Uint32() (uint32, error) {
	b, err := c.Bytes(4)
	return binary.LittleEndian.Uint32(b), err
}
func (c *dtFlatCh) WriteUint32(v uint32) error {
	return c.WriteBytes(binary.LittleEndian.AppendUint32(nil, v))
}
func (c *dtFlatCh) Int32() (int32, error)    { v, err := c.Uint32(); return int32(v), err }
func (c *dtFlatCh) WriteInt32(v int32) error { return c.WriteUint32(uint32(v)) }
func (c *dtFlatCh) Uint64() (uint64, error) {
	b, err := c.Bytes(8)
	return binary.LittleEndian.Uint64(b), err
}
func (c *dtFlatCh) WriteUint64(v uint64) error {
	return c.WriteBytes(binary.LittleEndian.AppendUint64(nil, v))
}
func (c *dtFlatCh) Int64() (int64, error)    { v, err := c.Uint64(); return int64(v), err }
func (c *dtFlatCh) WriteInt64(v int64) error { return c.WriteUint64(uint64(v)) }
func (c *dtFlatCh) String(n int) (string, error) {
	b, err := c.Bytes(n)
	return string(b), err
}
func (c *dtFlatCh) WriteString(s string) error { return c.WriteBytes([]byte(s)) }

// dtRefField builds the reference format of a variant for a value.
func dtRefField(vr *dtVariant, v *dtVal, maxLen int) refdata.Field {
	f := refdata.Field{Name: "p1", Type: vr.Tok}
	switch vr.Class {
	case refdata.ClassLen1, refdata.ClassLen4:
		f.MaxLen = uint32(maxLen)
	case refdata.ClassDecimal:
		f.MaxLen = uint32(refdata.NumericLen(v.Prec))
		f.Prec, f.Scale = byte(v.Prec), byte(v.Scale)
	case refdata.ClassBigTime:
		f.MaxLen = 8
		f.Prec = 6
	case refdata.ClassTextPtr:
		f.MaxLen = uint32(maxLen)
		f.Object = "dbo.t1"
	}
	return f
}

// dtLibParseFmt lets the library parse a reference-encoded format token.
func dtLibParseFmt(enc []byte) (pkg tds.Package, err error, pi *rt.PanicInfo) {
	pi = rt.Catch(func() {
		pkg, err = tds.LookupPackage(tds.Token(enc[0]))
		if err != nil {
			return
		}
		ch := &dtFlatCh{buf: enc, pos: 1}
		if err = pkg.ReadFrom(ch); err != nil {
			return
		}
		if ch.pos != len(enc) {
			err = fmt.Errorf("format reader consumed %d of %d bytes", ch.pos, len(enc))
		}
	})
	return
}

// dtPkgParamsRoundTrip: value -> PARAMS bytes (library writer, format parsed
// by the library from a reference PARAMFMT) -> library reader -> value.
// useQueue selects the library's own PacketQueue as channel.
func dtPkgParamsRoundTrip(vr *dtVariant, v *dtVal, f refdata.Field, useQueue bool) (wire []byte, got interface{}, stage string, err error, pi *rt.PanicInfo) {
	enc, e := refdata.ParamFmt([]refdata.Field{f})
	if e != nil {
		return nil, nil, "harness", e, nil
	}
	fp, e, p := dtLibParseFmt(enc)
	if e != nil || p != nil {
		return nil, nil, "parse-paramfmt", e, p
	}
	pf := fp.(*tds.ParamFmtPackage)
	if len(pf.Fmts) != 1 {
		return nil, nil, "parse-paramfmt", fmt.Errorf("%d formats parsed", len(pf.Fmts)), nil
	}
	lv := dtToLib(vr, v)
	pi = rt.Catch(func() {
		var data tds.FieldData
		data, err = tds.LookupFieldData(pf.Fmts[0])
		if err != nil {
			stage = "lookup-field-data"
			return
		}
		data.SetValue(lv)
		out := tds.NewParamsPackage(data)
		if err = out.LastPkg(pf); err != nil {
			stage = "write-params"
			return
		}
		var ch tds.BytesChannel
		fc := &dtFlatCh{}
		var q *tds.PacketQueue
		if useQueue {
			q = tds.NewPacketQueue(func() int { return 512 })
			ch = q
		} else {
			ch = fc
		}
		if err = out.WriteTo(ch); err != nil {
			stage = "write-params"
			return
		}
		if useQueue {
			// copy what was written (flat offset from the position)
			qp, qd := q.Position()
			n := qp*(512-8) + qd
			q.SetPosition(0, 0)
			wire, err = q.Bytes(n)
			if err != nil {
				stage = "harness"
				return
			}
			q.SetPosition(0, 0)
		} else {
			wire = append([]byte(nil), fc.buf...)
			fc.pos = 0
		}
		stage = "read-params"
		tok, e := ch.Byte()
		if e != nil || tok != refdata.TokParams {
			err = fmt.Errorf("PARAMS token: got %#x, %v", tok, e)
			return
		}
		in := &tds.ParamsPackage{}
		if err = in.LastPkg(pf); err != nil {
			return
		}
		if err = in.ReadFrom(ch); err != nil {
			return
		}
		if len(in.DataFields) != 1 {
			err = fmt.Errorf("%d data fields read", len(in.DataFields))
			return
		}
		if !useQueue && fc.pos != len(fc.buf) {
			err = fmt.Errorf("PARAMS reader consumed %d of %d bytes written", fc.pos, len(fc.buf))
			return
		}
		got = in.DataFields[0].Value()
		stage = ""
	})
	if pi != nil && stage == "" {
		stage = "panic"
	}
	return
}

// dtPkgRowDecode: reference ROWFMT2 + ROW -> library readers -> Value().
func dtPkgRowDecode(f refdata.Field, data []byte, tp *refdata.TextPtr) (got interface{}, stage string, err error, pi *rt.PanicInfo) {
	enc, e := refdata.RowFmt2([]refdata.Field{f})
	if e != nil {
		return nil, "harness", e, nil
	}
	fp, e, p := dtLibParseFmt(enc)
	if e != nil || p != nil {
		return nil, "parse-rowfmt", e, p
	}
	df, e := refdata.DataField(f, data, tp)
	if e != nil {
		return nil, "harness", e, nil
	}
	row := refdata.Row(df)
	stage = "read-row"
	pi = rt.Catch(func() {
		var pkg tds.Package
		pkg, err = tds.LookupPackage(tds.Token(row[0]))
		if err != nil {
			return
		}
		rp, ok := pkg.(*tds.RowPackage)
		if !ok {
			err = fmt.Errorf("LookupPackage(TDS_ROW) gave %T", pkg)
			return
		}
		if err = rp.LastPkg(fp); err != nil {
			return
		}
		ch := &dtFlatCh{buf: row, pos: 1}
		if err = rp.ReadFrom(ch); err != nil {
			return
		}
		if ch.pos != len(row) {
			err = fmt.Errorf("ROW reader consumed %d of %d bytes", ch.pos, len(row))
			return
		}
		if len(rp.DataFields) != 1 {
			err = fmt.Errorf("%d data fields read", len(rp.DataFields))
			return
		}
		got = rp.DataFields[0].Value()
		stage = ""
	})
	return
}

// dtPkgTwoRows: reference ROWFMT2 + ROW(data1) + ROW(data2) -> library
// readers (the second row takes its format from the first) -> the values of
// BOTH rows, read after the second row was decoded.
func dtPkgTwoRows(f refdata.Field, data1, data2 []byte) (got1, got2 interface{}, stage string, err error, pi *rt.PanicInfo) {
	enc, e := refdata.RowFmt2([]refdata.Field{f})
	if e != nil {
		return nil, nil, "harness", e, nil
	}
	fp, e, p := dtLibParseFmt(enc)
	if e != nil || p != nil {
		return nil, nil, "parse-rowfmt", e, p
	}
	df1, e1 := refdata.DataField(f, data1, nil)
	df2, e2 := refdata.DataField(f, data2, nil)
	if e1 != nil || e2 != nil {
		return nil, nil, "harness", fmt.Errorf("%v / %v", e1, e2), nil
	}
	stage = "read-rows"
	pi = rt.Catch(func() {
		var last tds.Package = fp
		var rows []*tds.RowPackage
		for _, row := range [][]byte{refdata.Row(df1), refdata.Row(df2)} {
			var pkg tds.Package
			pkg, err = tds.LookupPackage(tds.Token(row[0]))
			if err != nil {
				return
			}
			rp, ok := pkg.(*tds.RowPackage)
			if !ok {
				err = fmt.Errorf("LookupPackage(TDS_ROW) gave %T", pkg)
				return
			}
			if err = rp.LastPkg(last); err != nil {
				return
			}
			ch := &dtFlatCh{buf: row, pos: 1}
			if err = rp.ReadFrom(ch); err != nil {
				return
			}
			if ch.pos != len(row) || len(rp.DataFields) != 1 {
				err = fmt.Errorf("ROW reader consumed %d of %d bytes, %d data fields", ch.pos, len(row), len(rp.DataFields))
				return
			}
			rows = append(rows, rp)
			last = rp
		}
		got1, got2 = rows[0].DataFields[0].Value(), rows[1].DataFields[0].Value()
		stage = ""
	})
	return
}

// dtPkgTwoCols: reference ROWFMT2 with two columns + one ROW -> library
// readers; both values are taken after the whole row was decoded.
func dtPkgTwoCols(f1, f2 refdata.Field, data1, data2 []byte) (got1, got2 interface{}, stage string, err error, pi *rt.PanicInfo) {
	f1.Name, f2.Name = "c1", "c2"
	enc, e := refdata.RowFmt2([]refdata.Field{f1, f2})
	if e != nil {
		return nil, nil, "harness", e, nil
	}
	fp, e, p := dtLibParseFmt(enc)
	if e != nil || p != nil {
		return nil, nil, "parse-rowfmt", e, p
	}
	df1, e1 := refdata.DataField(f1, data1, nil)
	df2, e2 := refdata.DataField(f2, data2, nil)
	if e1 != nil || e2 != nil {
		return nil, nil, "harness", fmt.Errorf("%v / %v", e1, e2), nil
	}
	stage = "read-row"
	pi = rt.Catch(func() {
		row := refdata.Row(df1, df2)
		var pkg tds.Package
		pkg, err = tds.LookupPackage(tds.Token(row[0]))
		if err != nil {
			return
		}
		rp, ok := pkg.(*tds.RowPackage)
		if !ok {
			err = fmt.Errorf("LookupPackage(TDS_ROW) gave %T", pkg)
			return
		}
		if err = rp.LastPkg(fp); err != nil {
			return
		}
		ch := &dtFlatCh{buf: row, pos: 1}
		if err = rp.ReadFrom(ch); err != nil {
			return
		}
		if ch.pos != len(row) || len(rp.DataFields) != 2 {
			err = fmt.Errorf("ROW reader consumed %d of %d bytes, %d data fields", ch.pos, len(row), len(rp.DataFields))
			return
		}
		got1, got2 = rp.DataFields[0].Value(), rp.DataFields[1].Value()
		stage = ""
	})
	return
}

// dtPkgRowThenNull: one RowPackage object decodes a row with a value and
// then, again, a row whose column is NULL (zero length; for the text-pointer
// family a zero-length text pointer). What the object holds afterwards is
// returned: state of the first decode must not survive into the second.
func dtPkgRowThenNull(f refdata.Field, data []byte, tp *refdata.TextPtr) (got interface{}, stage string, err error, pi *rt.PanicInfo) {
	enc, e := refdata.RowFmt2([]refdata.Field{f})
	if e != nil {
		return nil, "harness", e, nil
	}
	fp, e, p := dtLibParseFmt(enc)
	if e != nil || p != nil {
		return nil, "parse-rowfmt", e, p
	}
	df, e := refdata.DataField(f, data, tp)
	if e != nil {
		return nil, "harness", e, nil
	}
	var null []byte
	switch refdata.ClassOf(f.Type) {
	case refdata.ClassLen1, refdata.ClassDecimal, refdata.ClassBigTime, refdata.ClassTextPtr:
		null = []byte{0}
	case refdata.ClassLen4:
		null = []byte{0, 0, 0, 0}
	default:
		return nil, "harness", fmt.Errorf("no NULL for this class"), nil
	}
	stage = "read-rows"
	pi = rt.Catch(func() {
		var pkg tds.Package
		pkg, err = tds.LookupPackage(tds.Token(refdata.TokRow))
		if err != nil {
			return
		}
		rp, ok := pkg.(*tds.RowPackage)
		if !ok {
			err = fmt.Errorf("LookupPackage(TDS_ROW) gave %T", pkg)
			return
		}
		if err = rp.LastPkg(fp); err != nil {
			return
		}
		for _, row := range [][]byte{refdata.Row(df), refdata.Row(null)} {
			ch := &dtFlatCh{buf: row, pos: 1}
			if err = rp.ReadFrom(ch); err != nil {
				return
			}
			if ch.pos != len(row) || len(rp.DataFields) != 1 {
				err = fmt.Errorf("ROW reader consumed %d of %d bytes, %d data fields", ch.pos, len(row), len(rp.DataFields))
				return
			}
		}
		got = rp.DataFields[0].Value()
		stage = ""
	})
	return
}
