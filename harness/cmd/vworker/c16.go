package main

import (
	"encoding/json"
	"fmt"
	"math"
	"math/big"
	"strings"
	"sync"
	"sync/atomic"
	"unicode"

	"github.com/SAP/go-dblib/asetypes"

	"verif/harness/rt"
)

// C16 — decimal text conversion preserves the numeric value.
//
// Events: NewDecimal(p,s) result; String(); SetString(text) /
// NewDecimalString(p,s,text) result and the resulting unscaled integer (Int()).
// Oracle (own arithmetic on math/big, no library code):
//   string     for |u| < 10^p: String() == exact expansion of u/10^s in the
//              stated shape, and SetString(String()) gives an equal decimal
//   setstring  the text is parsed by the oracle's own numeral grammar and put
//              into one of three verdict classes
//                must-accept   strict numeral, <= s fraction digits, <= p-s
//                              integer digits: accepted, Int() == numeral*10^s
//                must-reject   value not representable (numeral*10^s is not an
//                              integer, or |numeral*10^s| >= 10^p), or not a
//                              numeral at all: an error
//                unspecified   representable value in an over-long or lenient
//                              spelling (extra trailing/leading zeros, '+',
//                              surrounding spaces, ".5", "5."): accepted
//                              exactly or rejected — never a changed value
//   newdecimal p > 38, p < 0, s > p, s < 0 must be rejected; 1<=p<=38, 0<=s<=p
//              must be accepted; (0,0) is not judged (the property starts at 1)

func init() { register("C16", runC16) }

type c16Case struct {
	Kind string `json:"kind"` // "string" | "setstring" | "newdecimal"
	P    int    `json:"precision"`
	S    int    `json:"scale"`
	U    string `json:"unscaled,omitempty"` // kind string: the unscaled integer
	Text string `json:"text,omitempty"`     // kind setstring
	Via  string `json:"via,omitempty"`      // SetString | NewDecimalString
	Why  string `json:"generated_as,omitempty"`
	// kind reuse: ONE decimal object given these values one after the
	// other, formatted after each
	Steps []c16Step `json:"steps,omitempty"`
}

type c16Step struct {
	Op string `json:"op"`          // setbytes | setbytes-negate | negate | setint64 | setstring | scale | string-twice
	U  string `json:"u,omitempty"` // the unscaled integer given (setbytes, setint64), or the text's value (setstring)
	S  int    `json:"scale,omitempty"`
}

var c16Pow [128]*big.Int

func init() {
	c16Pow[0] = big.NewInt(1)
	for i := 1; i < len(c16Pow); i++ {
		c16Pow[i] = new(big.Int).Mul(c16Pow[i-1], big.NewInt(10))
	}
}

// ------------------------------------------------------------------ oracle

// c16Expand is the stated text shape of u/10^s.
func c16Expand(u *big.Int, s int) string {
	digits := new(big.Int).Abs(u).String()
	for len(digits) < s+1 {
		digits = "0" + digits
	}
	ip, fp := digits[:len(digits)-s], digits[len(digits)-s:]
	fp = strings.TrimRight(fp, "0")
	if fp == "" {
		fp = "0"
	}
	if u.Sign() < 0 {
		return "-" + ip + "." + fp
	}
	return ip + "." + fp
}

func c16P10(n int) *big.Int {
	if n < len(c16Pow) {
		return c16Pow[n]
	}
	return new(big.Int).Exp(big.NewInt(10), big.NewInt(int64(n)), nil)
}

func c16Digits(s string) *big.Int {
	n := new(big.Int)
	ten := big.NewInt(10)
	for i := 0; i < len(s); i++ {
		n.Mul(n, ten)
		n.Add(n, big.NewInt(int64(s[i]-'0')))
	}
	return n
}

type c16Num struct {
	ok      bool   // fits the (lenient) numeral grammar
	lenient string // "" = strict spelling; else the first leniency used
	shape   string // !ok: shape of the non-numeral
	neg     bool
	ip, fp  string
	point   bool
}

func c16IsDigit(b byte) bool { return b >= '0' && b <= '9' }

func c16ParseText(text string) c16Num {
	var n c16Num
	t := strings.TrimFunc(text, unicode.IsSpace)
	if t != text {
		n.lenient = "surrounding-spaces"
	}
	body := t
	if body != "" && (body[0] == '-' || body[0] == '+') {
		n.neg = body[0] == '-'
		if body[0] == '+' && n.lenient == "" {
			n.lenient = "plus-sign"
		}
		body = body[1:]
	}
	i := 0
	for i < len(body) && c16IsDigit(body[i]) {
		i++
	}
	n.ip = body[:i]
	if i < len(body) && body[i] == '.' {
		n.point = true
		i++
		j := i
		for j < len(body) && c16IsDigit(body[j]) {
			j++
		}
		n.fp = body[i:j]
		i = j
	}
	if i != len(body) || (n.ip == "" && n.fp == "") {
		n.ok = false
		n.shape = c16BadShape(t, text)
		return n
	}
	n.ok = true
	if n.lenient == "" {
		switch {
		case n.ip == "":
			n.lenient = "no-integer-part"
		case n.point && n.fp == "":
			n.lenient = "no-fraction-part"
		}
	}
	return n
}

func c16BadShape(t, orig string) string {
	body := t
	signed := false
	if body != "" && (body[0] == '-' || body[0] == '+') {
		body = body[1:]
		signed = true
	}
	switch {
	case t == "" && orig != "":
		return "spaces-only"
	case t == "":
		return "empty"
	case body == "" && signed:
		return "sign-only"
	case body == ".":
		return "point-only"
	}
	only := func(set string) bool {
		for _, r := range body {
			if !(r >= '0' && r <= '9') && !strings.ContainsRune(set, r) {
				return false
			}
		}
		return true
	}
	for _, r := range body {
		if unicode.IsSpace(r) {
			return "inner-space"
		}
	}
	switch {
	case only(".") && strings.Count(body, ".") >= 2:
		return "two-points"
	case only(".eE+-") && strings.ContainsAny(body, "eE"):
		return "exponent"
	case only(".+-"):
		return "misplaced-sign"
	case only(".,"):
		return "comma"
	case only("._"):
		return "underscore"
	case len(body) >= 2 && body[0] == '0' && strings.ContainsRune("xXbBoO", rune(body[1])):
		return "radix-prefix"
	}
	for _, r := range body {
		if r > 127 && unicode.IsDigit(r) {
			return "non-ascii-digit"
		}
	}
	for _, r := range body {
		if unicode.IsLetter(r) {
			return "letters"
		}
	}
	return "other"
}

const (
	c16MustAccept = iota
	c16MustReject
	c16Unspecified
)

type c16Class struct {
	verdict int
	name    string   // class name used in signatures and counters
	shape   string   // sub-shape (must-accept spelling / non-numeral shape / leniency)
	u       *big.Int // the unscaled integer the text denotes, nil if numeral*10^s is not an integer / not a numeral
	nontriv bool     // numeral with |digits| >= 10
}

// c16Classify: the verdict class of text at (p,s), by the oracle's own parse
// and big.Rat arithmetic.
func c16Classify(p, s int, text string) c16Class {
	n := c16ParseText(text)
	if !n.ok {
		return c16Class{verdict: c16MustReject, name: "not-a-numeral", shape: n.shape}
	}
	num := c16Digits(n.ip + n.fp)
	nontriv := num.Cmp(big.NewInt(10)) >= 0
	if n.neg {
		num.Neg(num)
	}
	v := new(big.Rat).SetFrac(num, c16P10(len(n.fp)))
	us := new(big.Rat).Mul(v, new(big.Rat).SetInt(c16Pow[s]))
	if !us.IsInt() {
		return c16Class{verdict: c16MustReject, name: "too-many-fraction-digits", shape: "value-needs-more-than-scale", nontriv: nontriv}
	}
	u := new(big.Int).Set(us.Num())
	if new(big.Int).Abs(u).Cmp(c16Pow[p]) >= 0 {
		return c16Class{verdict: c16MustReject, name: "too-many-integer-digits", shape: "value-needs-more-than-precision", u: u, nontriv: nontriv}
	}
	if n.lenient != "" {
		return c16Class{verdict: c16Unspecified, name: "lenient-spelling", shape: n.lenient, u: u, nontriv: nontriv}
	}
	fracOK := len(n.fp) <= s || n.fp == "0"
	intOK := len(n.ip) <= p-s || n.ip == "0"
	switch {
	case !fracOK:
		return c16Class{verdict: c16Unspecified, name: "overlong-trailing-zeros", shape: "fraction-longer-than-scale", u: u, nontriv: nontriv}
	case !intOK:
		return c16Class{verdict: c16Unspecified, name: "overlong-leading-zeros", shape: "integer-part-longer-than-precision-minus-scale", u: u, nontriv: nontriv}
	}
	shape := "integer-only"
	switch {
	case n.point && len(n.fp) < s:
		shape = "fraction-shorter-than-scale"
	case n.point && len(n.fp) == s:
		shape = "fraction-full-scale"
	case n.point:
		shape = "point-zero-at-scale-0"
	}
	return c16Class{verdict: c16MustAccept, name: "must-accept", shape: shape, u: u, nontriv: nontriv}
}

// ------------------------------------------------------------------ local accumulation

type c16Local struct {
	ctr  map[string]int64
	sets map[string]struct{}
	seen map[string]struct{}
}

func newC16Local() *c16Local {
	return &c16Local{ctr: map[string]int64{}, sets: map[string]struct{}{}, seen: map[string]struct{}{}}
}

func (l *c16Local) flush(r *rt.Result) {
	for k, n := range l.ctr {
		r.Count(k, n)
	}
	for k := range l.sets {
		r.SetAdd("precision_scale_class", k)
	}
	r.DistinctN(int64(len(l.seen)))
}

// ------------------------------------------------------------------ judging

func c16ScalePos(p, s int) string {
	switch {
	case s == 0:
		return "scale-0"
	case s == p:
		return "scale-eq-precision"
	}
	return "scale-inside"
}

func c16UClass(u *big.Int) string {
	d := new(big.Int).Abs(u).String()
	switch {
	case d == "0":
		return "zero"
	case d == "1":
		return "unit"
	case d[0] == '1' && strings.Trim(d[1:], "0") == "":
		return "power-of-ten"
	case strings.Trim(d, "9") == "":
		return "all-nines"
	}
	return "other"
}

func c16NewValid(r *rt.Result, cs c16Case) *asetypes.Decimal {
	var d *asetypes.Decimal
	var err error
	if pi := rt.Catch(func() { d, err = asetypes.NewDecimal(cs.P, cs.S) }); pi != nil {
		r.Violate("panic/"+pi.Frame, fmt.Sprintf("NewDecimal(%d,%d) panicked: %s", cs.P, cs.S, pi.Value), cs)
		return nil
	}
	if err != nil || d == nil {
		r.Violate("newdecimal/valid-rejected", fmt.Sprintf("NewDecimal(%d,%d) = (%v, %v), want a decimal", cs.P, cs.S, d, err), cs)
		return nil
	}
	return d
}

func c16CheckString(r *rt.Result, l *c16Local, cs c16Case) {
	r.Eval(1)
	p, s := cs.P, cs.S
	u, ok := new(big.Int).SetString(cs.U, 10)
	if !ok || p < 1 || p > 38 || s < 0 || s > p || new(big.Int).Abs(u).Cmp(c16Pow[p]) >= 0 {
		r.Inconclusive("C16: bad string case %+v", cs)
		return
	}
	uc, sp := c16UClass(u), c16ScalePos(p, s)
	l.ctr["string_cases"]++
	l.sets[fmt.Sprintf("%d/%d/string/%s", p, s, uc)] = struct{}{}
	if new(big.Int).Abs(u).Cmp(big.NewInt(10)) >= 0 {
		l.seen["S"+cs.U] = struct{}{}
	}
	d := c16NewValid(r, cs)
	if d == nil {
		return
	}
	var got string
	var back *big.Int
	if pi := rt.Catch(func() {
		d.SetBytes(new(big.Int).Abs(u).Bytes())
		if u.Sign() < 0 {
			d.Negate()
		}
		back = d.Int()
		got = d.String()
	}); pi != nil {
		r.Violate("panic/"+pi.Frame, fmt.Sprintf("(%d,%d) unscaled %s: SetBytes/Negate/Int/String panicked: %s", p, s, u, pi.Value), cs)
		return
	}
	if back == nil || back.Cmp(u) != 0 {
		r.Violate("int/not-the-value-set", fmt.Sprintf("(%d,%d): after SetBytes(|u|)+Negate for u=%s Int() = %v", p, s, u, back), cs)
		return
	}
	want := c16Expand(u, s)
	if got != want {
		r.Violate("string/wrong-expansion/"+uc+"/"+sp, fmt.Sprintf("(%d,%d) unscaled %s: String() = %q, exact expansion of u/10^s is %q", p, s, u, got, want), cs)
		return
	}
	// formatting and parsing back yields an equal decimal
	d2 := c16NewValid(r, cs)
	if d2 == nil {
		return
	}
	var err error
	var eq bool
	var back2 *big.Int
	if pi := rt.Catch(func() {
		err = d2.SetString(got)
		if err == nil {
			eq = d2.Cmp(*d)
			back2 = d2.Int()
		}
	}); pi != nil {
		r.Violate("panic/"+pi.Frame, fmt.Sprintf("(%d,%d): SetString(%q)/Cmp/Int panicked: %s", p, s, got, pi.Value), cs)
		return
	}
	switch {
	case err != nil:
		r.Violate("roundtrip/rejected/"+sp, fmt.Sprintf("(%d,%d) unscaled %s: String() = %q, SetString of that text fails: %v", p, s, u, got, err), cs)
	case back2.Cmp(u) != 0 || !eq:
		r.Violate("roundtrip/changed-value/"+sp, fmt.Sprintf("(%d,%d) unscaled %s: String() = %q, SetString of that text gives unscaled %s (Cmp with the original = %v)", p, s, u, got, back2, eq), cs)
	default:
		l.ctr["roundtrips_equal"]++
	}
}

func c16CheckSetString(r *rt.Result, l *c16Local, cs c16Case) {
	r.Eval(1)
	p, s := cs.P, cs.S
	if p < 1 || p > 38 || s < 0 || s > p {
		r.Inconclusive("C16: bad setstring case %+v", cs)
		return
	}
	cl := c16Classify(p, s, cs.Text)
	vname := [...]string{"must_accept", "must_reject", "unspecified"}[cl.verdict]
	l.ctr["texts_"+vname]++
	l.ctr["class_"+cl.name]++
	l.sets[fmt.Sprintf("%d/%d/%s", p, s, cl.name)] = struct{}{}
	if cl.nontriv {
		l.seen["T"+cs.Text] = struct{}{}
	}
	const sentinel = 7
	var d *asetypes.Decimal
	var err error
	var got *big.Int
	var str string
	pi := rt.Catch(func() {
		if cs.Via == "NewDecimalString" {
			d, err = asetypes.NewDecimalString(p, s, cs.Text)
			if err == nil && d == nil {
				err = fmt.Errorf("NewDecimalString returned (nil, nil)")
			}
		} else {
			d, err = asetypes.NewDecimal(p, s)
			if err != nil || d == nil {
				err = fmt.Errorf("NewDecimal(%d,%d) failed: %v", p, s, err)
				return
			}
			d.SetInt64(sentinel)
			err = d.SetString(cs.Text)
		}
		if d != nil {
			got = d.Int()
			if err == nil {
				str = d.String()
			}
		}
	})
	if pi != nil {
		r.Violate("panic/"+pi.Frame, fmt.Sprintf("(%d,%d) %s(%q) panicked: %s", p, s, cs.Via, cs.Text, pi.Value), cs)
		return
	}
	if err != nil && cs.Via != "NewDecimalString" && got != nil && got.Cmp(big.NewInt(sentinel)) != 0 {
		// "rejected with an error instead of ... changing the value": the
		// decimal held the sentinel before the call, the input was rejected,
		// and now it holds something else (SetString documents "if an error
		// is returned dec is untouched")
		l.ctr["observed_value_touched_on_error"]++
		r.Violate("setstring/rejected-but-value-changed", fmt.Sprintf("(%d,%d) SetString(%q) returned %v, but the decimal, which held the unscaled value %d before, now holds %s", p, s, cs.Text, err, sentinel, got), cs)
		return
	}
	where := fmt.Sprintf("(%d,%d) %s(%q)", p, s, cs.Via, cs.Text)
	switch cl.verdict {
	case c16MustAccept:
		switch {
		case err != nil:
			r.Violate("setstring/must-accept/rejected/"+cl.shape, fmt.Sprintf("%s: error %v; the numeral has <= scale fraction digits and <= precision-scale integer digits, want unscaled %s", where, err, cl.u), cs)
		case got.Cmp(cl.u) != 0:
			r.Violate("setstring/must-accept/wrong-value/"+cl.shape, fmt.Sprintf("%s: unscaled %s, want %s (numeral * 10^scale)", where, got, cl.u), cs)
		case str != c16Expand(cl.u, s):
			r.Violate("string/wrong-expansion/after-setstring/"+c16ScalePos(p, s), fmt.Sprintf("%s: accepted with unscaled %s but String() = %q, want %q", where, got, str, c16Expand(cl.u, s)), cs)
		default:
			l.ctr["accepted_exact"]++
		}
	case c16MustReject:
		if err != nil {
			l.ctr["rejected_as_required"]++
			return
		}
		switch {
		case cl.name == "not-a-numeral":
			r.Violate("setstring/not-a-numeral/"+cl.shape, fmt.Sprintf("%s: accepted (unscaled %s, prints %q); the text is not a numeral, want an error", where, got, str), cs)
		case cl.u != nil && got.Cmp(cl.u) == 0:
			r.Violate("setstring/"+cl.name+"/accepted-beyond-precision", fmt.Sprintf("%s: accepted with unscaled %s which has more than %d digits (prints %q); want an error", where, got, p, str), cs)
		default:
			r.Violate("setstring/"+cl.name+"/accepted-with-changed-value", fmt.Sprintf("%s: accepted with unscaled %s, i.e. %q — not the number written; the value is not representable, want an error", where, got, str), cs)
		}
	case c16Unspecified:
		switch {
		case err != nil && (cl.shape == "plus-sign" || cl.shape == "surrounding-spaces") && c16DecorationAccepted(cl.shape) && c16Classify(p, s, c16Undecorated(cs.Text)).verdict == c16MustAccept:
			// a library may refuse plus signs / surrounding spaces, but not
			// depending on the number: this one accepts them (probed with
			// "+1.5" / " 1.5 " at (38,19)), and the same numeral without the
			// decoration is within the limits
			r.Violate("setstring/"+cl.shape+"/rejected-although-the-decoration-is-accepted-elsewhere", fmt.Sprintf("%s: error %v; the library accepts this decoration for other numbers, and %q is within the limits (unscaled %s)", where, err, c16Undecorated(cs.Text), cl.u), cs)
		case err != nil && cl.name == "overlong-leading-zeros" && c16DecorationAccepted("leading-zeros"):
			// redundant leading zeros may be refused, but not depending on
			// how many there are: this library accepts them (probed with 50
			// zeros in front of 1.5 at (38,19)), and the number is within
			// the limits
			r.Violate("setstring/overlong-leading-zeros/rejected-although-accepted-elsewhere", fmt.Sprintf("%s: error %v; the library accepts redundant leading zeros for other numerals, and the number (unscaled %s) is within the limits", clip(where, 200), err, cl.u), cs)
		case err != nil:
			l.ctr["unspecified_rejected/"+cl.name]++
		case got.Cmp(cl.u) == 0:
			l.ctr["unspecified_accepted_exact/"+cl.name]++
		default:
			r.Violate("setstring/"+cl.name+"/accepted-with-changed-value", fmt.Sprintf("%s: accepted with unscaled %s (prints %q); the text denotes unscaled %s — accepting exactly or rejecting are both fine, changing the value is not", where, got, str, cl.u), cs)
		}
	}
}

func c16CheckNewDecimal(r *rt.Result, l *c16Local, cs c16Case) {
	r.Eval(1)
	p, s := cs.P, cs.S
	var d *asetypes.Decimal
	var err error
	if pi := rt.Catch(func() { d, err = asetypes.NewDecimal(p, s) }); pi != nil {
		r.Violate("panic/"+pi.Frame, fmt.Sprintf("NewDecimal(%d,%d) panicked: %s", p, s, pi.Value), cs)
		return
	}
	accepted := err == nil && d != nil
	if err == nil && d == nil {
		r.Violate("newdecimal/nil-without-error", fmt.Sprintf("NewDecimal(%d,%d) = (nil, nil)", p, s), cs)
		return
	}
	reason := ""
	switch {
	case s < 0:
		reason = "negative-scale"
	case p < 0:
		reason = "negative-precision"
	case p > 38:
		reason = "precision-too-high"
	case s > p:
		reason = "scale-above-precision"
	}
	switch {
	case reason == "" && p == 0:
		l.ctr["newdecimal_unspecified_precision_0"]++
		return
	case reason == "":
		l.ctr["newdecimal_valid"]++
		if !accepted {
			r.Violate("newdecimal/valid-rejected", fmt.Sprintf("NewDecimal(%d,%d) = error %v, want a decimal", p, s, err), cs)
			return
		}
		var str string
		if pi := rt.Catch(func() { str = d.String() }); pi != nil {
			r.Violate("panic/"+pi.Frame, fmt.Sprintf("NewDecimal(%d,%d).String() panicked: %s", p, s, pi.Value), cs)
			return
		}
		if d.Precision != p || d.Scale != s || str != "0.0" {
			r.Violate("newdecimal/valid-wrong-result", fmt.Sprintf("NewDecimal(%d,%d) has Precision=%d Scale=%d String()=%q, want (%d,%d,\"0.0\")", p, s, d.Precision, d.Scale, str, p, s), cs)
		}
		return
	}
	l.ctr["newdecimal_invalid/"+reason]++
	if !accepted {
		l.ctr["newdecimal_invalid_rejected"]++
		// the string constructor must reject it as well
		var d2 *asetypes.Decimal
		var err2 error
		if pi := rt.Catch(func() { d2, err2 = asetypes.NewDecimalString(p, s, "0") }); pi != nil {
			r.Violate("panic/"+pi.Frame, fmt.Sprintf("NewDecimalString(%d,%d,\"0\") panicked: %s", p, s, pi.Value), cs)
		} else if err2 == nil {
			r.Violate("newdecimalstring/"+reason+"-accepted", fmt.Sprintf("NewDecimalString(%d,%d,\"0\") = (%v, nil), want an error", p, s, d2), cs)
		}
		return
	}
	r.Violate("newdecimal/"+reason+"-accepted", fmt.Sprintf("NewDecimal(%d,%d) = (decimal, nil), want an error: invalid precision/scale combination", p, s), cs)
	// what the accepted object then does (only where it cannot allocate absurdly)
	if p > 4096 || p < -4096 || s > 4096 || s < -4096 {
		return
	}
	if pi := rt.Catch(func() {
		_ = d.String()
		_ = d.SetString("1")
		_ = d.String()
	}); pi != nil {
		r.Violate("panic/"+pi.Frame, fmt.Sprintf("NewDecimal(%d,%d) was accepted; String()/SetString(\"1\")/String() on it panicked: %s", p, s, pi.Value), cs)
	}
}

// c16CheckReuse: a Decimal is a mutable object (the driver's result cells
// are refilled row by row); whatever it held and printed before, its text
// is the expansion of what it holds now.
func c16CheckReuse(r *rt.Result, l *c16Local, cs c16Case) {
	r.Eval(1)
	d := c16NewValid(r, cs)
	if d == nil {
		return
	}
	u := new(big.Int)
	sc := cs.S
	rejectOK := true
	for si, st := range cs.Steps {
		var got string
		var back *big.Int
		var err error
		arg, _ := new(big.Int).SetString(st.U, 10)
		pi := rt.Catch(func() {
			switch st.Op {
			case "setbytes":
				d.SetBytes(new(big.Int).Abs(arg).Bytes())
				u.Abs(arg)
			case "setbytes-negate":
				d.SetBytes(new(big.Int).Abs(arg).Bytes())
				d.Negate()
				u.Neg(new(big.Int).Abs(arg))
			case "negate":
				d.Negate()
				u.Neg(u)
			case "setint64":
				d.SetInt64(arg.Int64())
				u.Set(arg)
			case "setstring":
				err = d.SetString(c16Expand(arg, sc))
				u.Set(arg)
			case "scale":
				d.Scale = st.S
				sc = st.S
			case "precision":
				d.Precision = st.S // an exported field, set by users and by the field readers
			case "setstring-rejected":
				// more digits than the precision in force: must be refused,
				// and the value stays what it was
				err = d.SetString(c16Expand(arg, sc))
				if err == nil {
					err = fmt.Errorf("accepted")
					rejectOK = false
				} else {
					err = nil
				}
			case "string-twice":
				_ = d.String()
			}
			back = d.Int()
			got = d.String()
		})
		l.ctr["reuse_steps"]++
		if pi != nil {
			r.Violate("panic/"+pi.Frame+"/reuse", fmt.Sprintf("(%d,%d) step %d (%s %s): panicked: %s", cs.P, cs.S, si+1, st.Op, st.U, pi.Value), cs)
			return
		}
		if !rejectOK {
			r.Violate("reuse/setstring-accepted-beyond-precision", fmt.Sprintf("(%d,%d) after steps %v: SetString(%q) was accepted although the precision in force is %d", cs.P, sc, cs.Steps[:si+1], c16Expand(arg, sc), d.Precision), cs)
			return
		}
		if err != nil {
			r.Violate("reuse/setstring-rejected", fmt.Sprintf("(%d,%d) after steps %v: SetString(%q) fails although the precision in force is %d: %v", cs.P, sc, cs.Steps[:si+1], c16Expand(arg, sc), d.Precision, err), cs)
			return
		}
		if back == nil || back.Cmp(u) != 0 {
			r.Violate("reuse/int-not-the-value-set", fmt.Sprintf("(%d,%d) after steps %v: Int() = %v, the value set is %s", cs.P, sc, cs.Steps[:si+1], back, u), cs)
			return
		}
		if want := c16Expand(u, sc); got != want {
			r.Violate("reuse/string-not-the-current-value", fmt.Sprintf("(%d,%d) after steps %v the decimal holds the unscaled integer %s (Int() confirms), String() = %q, the expansion of u/10^%d is %q", cs.P, sc, cs.Steps[:si+1], u, got, sc, want), cs)
			return
		}
		// Int() hands out a copy: the caller computes with it in place
		// (splitting it into integer and fraction part, say); the decimal
		// keeps its value
		var again string
		var back3 *big.Int
		if pi := rt.Catch(func() {
			tmp := d.Int()
			tmp.Rem(tmp, big.NewInt(1000))
			tmp.Add(tmp, tmp)
			tmp.Quo(tmp, big.NewInt(7))
			tmp.SetInt64(424242)
			again = d.String()
			back3 = d.Int()
		}); pi != nil {
			r.Violate("panic/"+pi.Frame+"/reuse", fmt.Sprintf("(%d,%d) arithmetic on the result of Int(), then String(): panicked: %s", cs.P, sc, pi.Value), cs)
			return
		}
		// a value copy of the decimal parses another numeral (a template
		// decimal copied per row, say): what SetString stores is the copy's
		// own number - the original keeps its value
		if si%2 == 1 {
			var cpText, orig string
			var cpErr error
			other := new(big.Int).Add(new(big.Int).Abs(u), big.NewInt(7))
			if other.Cmp(c16Pow[minP(d.Precision, 38)]) >= 0 {
				other.SetInt64(7)
			}
			if pi := rt.Catch(func() {
				cp := *d
				cpErr = cp.SetString(c16Expand(other, sc))
				cpText = cp.String()
				orig = d.String()
			}); pi != nil {
				r.Violate("panic/"+pi.Frame+"/reuse", fmt.Sprintf("(%d,%d) SetString on a value copy: panicked: %s", cs.P, sc, pi.Value), cs)
				return
			}
			l.ctr["reuse_value_copy_parses"]++
			if cpErr == nil && (cpText != c16Expand(other, sc) || orig != c16Expand(u, sc)) {
				r.Violate("reuse/setstring-on-a-value-copy-changes-the-original", fmt.Sprintf("(%d,%d) the decimal holds %s; a value copy of it parsed %q and prints %q; the original now prints %q (expansion %q)", cs.P, sc, u, c16Expand(other, sc), cpText, orig, c16Expand(u, sc)), cs)
				return
			}
		}
		if want := c16Expand(u, sc); again != want || back3.Cmp(u) != 0 {
			r.Violate("reuse/int-result-shares-the-decimals-number", fmt.Sprintf("(%d,%d) the decimal holds %s; after in-place arithmetic on the big.Int that Int() returned it prints %q and Int() = %s (expansion %q)", cs.P, sc, u, again, back3, want), cs)
			return
		}
	}
	// formatting is a read: several goroutines printing one negative decimal
	// get the same text (result cells are formatted wherever they are shown)
	if u.Sign() != 0 && len(cs.Steps)%2 == 0 {
		want := c16Expand(u, sc)
		var wg sync.WaitGroup
		bad := make([]string, 4)
		for w := 0; w < 4; w++ {
			wg.Add(1)
			go func(w int) {
				defer wg.Done()
				for i := 0; i < 200; i++ {
					if t := d.String(); t != want {
						bad[w] = t
						return
					}
				}
			}(w)
		}
		wg.Wait()
		l.ctr["reuse_concurrent_formatting"]++
		for _, t := range bad {
			if t != "" {
				r.Violate("reuse/concurrent-formatting-differs", fmt.Sprintf("(%d,%d) four goroutines printing one decimal holding %s: one of them got %q, the expansion is %q", cs.P, sc, u, t, want), cs)
				return
			}
		}
		if again := d.String(); again != want {
			r.Violate("reuse/concurrent-formatting-differs", fmt.Sprintf("(%d,%d) after four goroutines printed the decimal holding %s it prints %q", cs.P, sc, u, again), cs)
			return
		}
	}
	l.ctr["reuse_sequences_consistent"]++
}

func c16Exec(r *rt.Result, l *c16Local, cs c16Case) {
	switch cs.Kind {
	case "reuse":
		c16CheckReuse(r, l, cs)
	case "string":
		c16CheckString(r, l, cs)
	case "setstring":
		if cs.Via == "" {
			cs.Via = "SetString"
		}
		c16CheckSetString(r, l, cs)
	case "newdecimal":
		c16CheckNewDecimal(r, l, cs)
	default:
		r.Inconclusive("C16: unknown case kind %q", cs.Kind)
	}
}

// ------------------------------------------------------------------ workload

// fixed list of texts that are not numerals (or lenient/odd spellings; the
// oracle classifies each, the list only makes sure they occur)
var c16Odd = []string{
	"", " ", "\t\n", "-", "+", ".", "-.", "+.", " . ",
	"1.2.3", "1..2", "..1", "1.2.", ".1.", "0.0.0", "12.34.56",
	"1e3", "1E3", "1e-3", "1.5e2", "e", "1e",
	".-5", ".+5", "1.-2", "1.+2", "-.-5", "--1", "+-1", "-+1", "1-", "1+", "1-2", "0.-0",
	"1,5", "1,000", "1,000.5",
	"1_0", "_1", "1_", "1._5",
	"0x10", "0X1F", "0b11", "0o17", "0x", "x10",
	"1 2", "1. 5", "1 .5", "- 1", "-\t1", "1 . 5",
	"abc", "1a", "a1", "1.a", "NaN", "Inf", "-Inf", "+Inf", "infinity", "nil", "<nil>", "1f", "1d", "1L",
	"١٢", "１２", "1.٥", "１",
	"$1", "1%", "1/2", "(1)", "#", "1;", "'1'", "\"1\"", "1\x00", "½",
	" 1 ", " 1.5", "1 ",
}

type c16Gen struct {
	text, why string
}

func c16Zeros(n int) string {
	if n <= 0 {
		return ""
	}
	return strings.Repeat("0", n)
}

func c16Boundary(p int) []*big.Int {
	seen := map[string]bool{}
	var out []*big.Int
	add := func(v *big.Int) {
		if new(big.Int).Abs(v).Cmp(c16Pow[p]) >= 0 {
			return
		}
		for _, w := range []*big.Int{v, new(big.Int).Neg(v)} {
			if k := w.String(); !seen[k] {
				seen[k] = true
				out = append(out, w)
			}
		}
	}
	add(big.NewInt(0))
	add(big.NewInt(1))
	for k := 1; k <= p; k++ {
		add(c16Pow[k])
		add(new(big.Int).Sub(c16Pow[k], big.NewInt(1)))
		add(new(big.Int).Add(c16Pow[k], big.NewInt(1)))
	}
	// machine-word boundaries (an implementation may take a fast path
	// through int32 / int64 / uint64)
	for _, e := range []uint{7, 8, 15, 16, 31, 32, 53, 63, 64, 127} {
		w := new(big.Int).Lsh(big.NewInt(1), e)
		add(w)
		add(new(big.Int).Sub(w, big.NewInt(1)))
		add(new(big.Int).Add(w, big.NewInt(1)))
	}
	add(big.NewInt(12))
	add(big.NewInt(123))
	add(big.NewInt(1234))
	add(big.NewInt(12345))
	return out
}

// c16Spellings: texts derived from the value u/10^s.
func c16Spellings(p, s int, u *big.Int) []c16Gen {
	canon := c16Expand(u, s)
	sign, abs := "", canon
	if canon[0] == '-' {
		sign, abs = "-", canon[1:]
	}
	dot := strings.IndexByte(abs, '.')
	ip, fp := abs[:dot], abs[dot+1:]
	fz := fp
	if fz == "0" {
		fz = ""
	}
	full := fz + c16Zeros(s-len(fz)) // fraction padded to exactly s digits
	g := []c16Gen{{canon, "canonical"}}
	if fz == "" {
		g = append(g, c16Gen{sign + ip, "integer-only"}, c16Gen{sign + ip + ".", "no-fraction-part"})
	}
	if s > 0 {
		g = append(g, c16Gen{sign + ip + "." + full, "fraction-padded-to-scale"})
		if len(fz) > 0 && len(fz) < s {
			g = append(g, c16Gen{sign + ip + "." + fz + "0", "fraction-one-trailing-zero"})
		}
	}
	g = append(g,
		c16Gen{sign + ip + "." + full + "0", "trailing-zeros-beyond-scale+1"},
		c16Gen{sign + ip + "." + full + "000", "trailing-zeros-beyond-scale+3"},
	)
	// leading zeros: within and beyond precision-scale integer digits
	if ip != "0" {
		if room := p - s - len(ip); room > 0 {
			g = append(g, c16Gen{sign + c16Zeros(room) + abs, "leading-zeros-up-to-precision"})
		}
		g = append(g, c16Gen{sign + c16Zeros(p-s-len(ip)+1) + abs, "leading-zeros-beyond-precision+1"})
	} else {
		g = append(g, c16Gen{sign + "0" + abs, "leading-zero-doubled"})
		if fz != "" {
			g = append(g, c16Gen{sign + "." + fz, "no-integer-part"}, c16Gen{sign + "." + full, "no-integer-part-padded"})
		}
	}
	// many redundant leading zeros (fixed-size scratch buffers)
	nzs := []int{40, 74, 79, 130}
	if s == 0 || s == p {
		nzs = append(nzs, 5000) // beyond any small fixed buffer or length cap
		if p == 38 && s == 0 {
			nzs = append(nzs, 70000)
		}
	}
	for _, nz := range nzs {
		g = append(g, c16Gen{sign + c16Zeros(nz) + abs, fmt.Sprintf("leading-zeros-%d", nz)})
	}
	if sign == "" {
		g = append(g, c16Gen{"+" + canon, "plus-sign"})
	}
	g = append(g, c16Gen{" " + canon + " ", "surrounding-spaces"}, c16Gen{"\t" + canon + "\n", "surrounding-tab-newline"})
	// not representable: one significant fraction digit too many
	g = append(g,
		c16Gen{sign + ip + "." + full + "5", "one-fraction-digit-too-many"},
		c16Gen{sign + ip + "." + full + "05", "two-fraction-digits-too-many"},
		c16Gen{sign + ip + "." + full + "10", "fraction-digit-too-many-then-zero"},
	)
	if ip == "0" && s > 0 {
		g = append(g, c16Gen{sign + "." + full + "1", "no-integer-part-fraction-too-long"})
	}
	// not representable: one integer digit too many
	ipz := ip
	if ipz == "0" {
		ipz = ""
	}
	over := "1" + c16Zeros(p-s-len(ipz)) + ipz
	g = append(g, c16Gen{sign + over + "." + fp, "one-integer-digit-too-many"})
	if fz == "" {
		g = append(g, c16Gen{sign + over, "one-integer-digit-too-many-no-point"})
	}
	return g
}

func c16PairExtras(p, s int) []c16Gen {
	var g []c16Gen
	lim := "1" + c16Zeros(p-s) // 10^(p-s): the first integer that does not fit
	nines := strings.Repeat("9", p-s+1)
	for _, sg := range []string{"", "-"} {
		g = append(g,
			c16Gen{sg + lim, "first-integer-beyond-precision"},
			c16Gen{sg + lim + ".0", "first-integer-beyond-precision"},
			c16Gen{sg + nines, "nines-beyond-precision"},
			c16Gen{sg + lim + "." + c16Zeros(s), "first-integer-beyond-precision-padded"},
			c16Gen{sg + "1" + c16Zeros(p), "ten-to-precision"},
			c16Gen{sg + "1" + c16Zeros(p+3), "ten-to-precision+3"},
			c16Gen{sg + "0." + c16Zeros(s) + "1", "smallest-digit-below-scale"},
			c16Gen{sg + "0." + c16Zeros(s+5) + "1", "far-below-scale"},
		)
		if p-s >= 1 {
			g = append(g, c16Gen{sg + strings.Repeat("9", p-s) + "." + strings.Repeat("9", s+1), "all-nines-one-fraction-digit-too-many"})
		}
	}
	for _, t := range c16Odd {
		g = append(g, c16Gen{t, "odd-list"})
	}
	// the spellings of DESIGN.md, whatever class they have at this (p,s)
	for _, t := range []string{"1.234", "123", "12.3", "1.5", "0.5", ".5", "5.", "5", "-0", "-0.0", "0", "0.0", "00", "0.00", "007", "1.500", "+1.5", " 1.5 ", "99.99", "100"} {
		g = append(g, c16Gen{t, "fixed-list"})
	}
	return g
}

func c16RandDigits(rnd *rt.Rand, n int) string {
	b := make([]byte, n)
	for i := range b {
		switch rnd.Intn(8) {
		case 0:
			b[i] = '0'
		case 1:
			b[i] = '9'
		default:
			b[i] = byte('0' + rnd.Intn(10))
		}
	}
	return string(b)
}

func c16RandText(rnd *rt.Rand, p, s int) c16Gen {
	li := rnd.Intn(p - s + 3)
	lf := rnd.Intn(s + 3)
	if rnd.Chance(1, 2) { // bias towards the limits
		li = p - s + rnd.Range(-1, 1)
		if li < 0 {
			li = 0
		}
		if rnd.Chance(1, 2) {
			lf = s + rnd.Range(-1, 1)
			if lf < 0 {
				lf = 0
			}
		}
	}
	ip, fp := c16RandDigits(rnd, li), c16RandDigits(rnd, lf)
	if len(ip) > 0 && rnd.Chance(3, 4) && ip[0] == '0' {
		ip = string(byte('1'+rnd.Intn(9))) + ip[1:]
	}
	t := ip
	if lf > 0 || rnd.Chance(1, 8) {
		t += "." + fp
	}
	switch rnd.Intn(12) {
	case 0, 1, 2, 3:
		t = "-" + t
	case 4:
		t = "+" + t
	}
	why := "random-digits"
	if rnd.Chance(1, 16) {
		t = " " + t
		why = "random-digits-spaced"
	}
	if rnd.Chance(1, 16) {
		t += " "
		why = "random-digits-spaced"
	}
	if rnd.Chance(1, 10) { // damage it
		ins := []string{".", "e", "E", ",", "_", "-", "+", " ", "x", "a", "0x", "..", "e5"}[rnd.Intn(13)]
		pos := rnd.Intn(len(t) + 1)
		t = t[:pos] + ins + t[pos:]
		why = "random-digits-damaged"
	}
	return c16Gen{t, why}
}

func runC16(c *Ctx) {
	r := c.R
	r.Rule = "every (precision, scale) with 1 <= p <= 38, 0 <= s <= p (exhaustive); per pair: String()+parse-back for the boundary values 0, ±1, ±10^k, ±(10^k±1) and seeded random unscaled integers of every length; SetString/NewDecimalString of ~22 spellings of each boundary value (canonical, integer-only, padded, trailing/leading zeros within and beyond the limits, '+', spaces, '.5', '5.', one fraction/integer digit too many), the values just beyond the precision, a fixed list of 110 non-numerals and odd spellings, and seeded random digit strings (1 in 10 damaged); NewDecimal over precision, scale in -3..45 and extreme ints; non-trivial = the unscaled integer / the numeral's digits are >= 10 in magnitude; distinct = distinct (p, s, text) resp. (p, s, unscaled)"
	r.TrustedBase = []string{"math/big (Int arithmetic, Rat.IsInt, Int.String)", "numeral grammar, classification and expansion in harness/cmd/vworker/c16.go"}
	r.Assumptions = []string{
		"a value is set without the text path via SetBytes(|u|) and Negate(); Int() returns the unscaled integer",
		"not judged (counted): acceptance of representable values in over-long or lenient spellings (trailing zeros beyond the scale, leading zeros beyond precision-scale digits, '+', surrounding white space, missing integer or fraction part) — accepted exactly or rejected are both fine, a changed value is not; NewDecimal(0,0); whether the receiver is untouched after an error",
		"a plus sign, surrounding white space or redundant leading zeros may be refused, but not depending on the number or on how many zeros there are: the library is probed once with '+1.5', ' 1.5 ' and 50 zeros + '1.5' at (38,19); if it accepts the decoration there, refusing it on a numeral that is within the limits without the decoration is a violation",
		"'N.0' is within the limits at scale 0 and '0.F' at scale == precision, because String() itself must print them and parse-back must accept them",
	}
	if c.Replay != nil {
		var cs c16Case
		if err := json.Unmarshal(c.Replay, &cs); err != nil {
			r.Inconclusive("bad replay: %v", err)
			return
		}
		if cs.Kind == "" { // a race report of the parse-race leg: run that leg again
			runC16ParseRace(c)
			return
		}
		l := newC16Local()
		c16Exec(r, l, cs)
		l.flush(r)
		return
	}
	r.Exhaustive = false
	if c.Leg == "parse-race" {
		runC16ParseRace(c)
		return
	}

	type pair struct{ p, s int }
	var pairs []pair
	for p := 1; p <= 38; p++ {
		for s := 0; s <= p; s++ {
			pairs = append(pairs, pair{p, s})
		}
	}
	nRand := 50
	if !c.Quick() {
		nRand = 5000
	}
	r.Count("precision_scale_pairs", int64(len(pairs)))
	r.Sample("string", c16Case{Kind: "string", P: 18, S: 0, U: "-42", Why: "boundary"})
	r.Sample("string", c16Case{Kind: "string", P: 38, S: 19, U: "-" + strings.Repeat("9", 38), Why: "boundary"})
	r.Sample("newdecimal", c16Case{Kind: "newdecimal", P: 5, S: -1})
	r.Sample("newdecimal", c16Case{Kind: "newdecimal", P: 39, S: 0})
	c.parallel(len(pairs), func(i int) {
		p, s := pairs[i].p, pairs[i].s
		l := newC16Local()
		defer l.flush(r)
		rnd := rt.NewRand(c.Seed, fmt.Sprintf("c16/%d/%d", p, s))
		sampled := p == 4 && s == 2
		sampledClass := map[string]bool{}
		k := 0
		via := func() string {
			k++
			if k%4 == 0 {
				return "NewDecimalString"
			}
			return "SetString"
		}
		text := func(g c16Gen) {
			cs := c16Case{Kind: "setstring", P: p, S: s, Text: g.text, Via: via(), Why: g.why}
			if sampled {
				if cl := c16Classify(p, s, g.text); cl.nontriv && !sampledClass[cl.name] {
					sampledClass[cl.name] = true
					r.Sample("setstring/"+cl.name+"/"+g.why, cs)
				}
			}
			c16Exec(r, l, cs)
		}
		for _, u := range c16Boundary(p) {
			cs := c16Case{Kind: "string", P: p, S: s, U: u.String(), Why: "boundary"}
			c16Exec(r, l, cs)
			for _, g := range c16Spellings(p, s, u) {
				text(g)
			}
		}
		for _, g := range c16PairExtras(p, s) {
			text(g)
		}
		for j := 0; j < nRand; j++ {
			// random unscaled integer of a random length 1..p
			n := rnd.Range(1, p)
			ds := c16RandDigits(rnd, n)
			u := c16Digits(ds)
			if rnd.Chance(1, 3) {
				u.Neg(u)
			}
			c16Exec(r, l, c16Case{Kind: "string", P: p, S: s, U: u.String(), Why: "random"})
			if j%8 == 0 {
				for _, g := range c16Spellings(p, s, u) {
					text(g)
				}
			}
			text(c16RandText(rnd, p, s))
		}
		// one object, several values in a row
		nSeq := 6
		if !c.Quick() {
			nSeq = 200
		}
		for j := 0; j < nSeq; j++ {
			cs := c16Case{Kind: "reuse", P: p, S: s}
			randU := func(maxDigits int) *big.Int {
				u := c16Digits(c16RandDigits(rnd, rnd.Range(1, maxDigits)))
				return u
			}
			sc := s
			pr := p
			for n := rnd.Range(2, 8); n > 0; n-- {
				var st c16Step
				switch rnd.Intn(11) {
				case 8:
					// another precision (not below the scale, and not below
					// the digits the decimal may hold: set a fitting value first)
					pr = rnd.Range(sc, 38)
					if pr < 1 {
						pr = 1
					}
					cs.Steps = append(cs.Steps, c16Step{Op: "setint64", U: "0"})
					st = c16Step{Op: "precision", S: pr}
				case 9:
					// exactly as many digits as the precision in force allows
					u := c16Digits("9" + c16RandDigits(rnd, pr)[1:])
					if pr == 1 {
						u = big.NewInt(9)
					}
					st = c16Step{Op: "setstring", U: u.String()}
				case 10:
					if pr >= 38 {
						st = c16Step{Op: "string-twice"}
						break
					}
					u := c16Digits("1" + c16RandDigits(rnd, pr))
					st = c16Step{Op: "setstring-rejected", U: u.String()}
				case 0, 1:
					st = c16Step{Op: "setbytes", U: randU(pr).String()}
				case 2:
					st = c16Step{Op: "setbytes-negate", U: randU(pr).String()}
				case 3:
					st = c16Step{Op: "negate"}
				case 4:
					md := pr
					if md > 18 {
						md = 18
					}
					u := randU(md)
					if rnd.Bool() {
						u.Neg(u)
					}
					st = c16Step{Op: "setint64", U: u.String()}
				case 5:
					u := randU(pr)
					if rnd.Bool() {
						u.Neg(u)
					}
					st = c16Step{Op: "setstring", U: u.String()}
				case 6:
					sc = rnd.Range(0, pr)
					st = c16Step{Op: "scale", S: sc}
				default:
					st = c16Step{Op: "string-twice"}
				}
				cs.Steps = append(cs.Steps, st)
			}
			if j == 0 && sampled {
				r.Sample("reuse", cs)
			}
			c16Exec(r, l, cs)
		}
	})

	// NewDecimal argument validation
	l := newC16Local()
	vals := []int{}
	for v := -3; v <= 45; v++ {
		vals = append(vals, v)
	}
	ext := []int{math.MinInt64, math.MinInt32, -256, -39, -38, 127, 128, 255, 256, 65536, math.MaxInt32, math.MaxInt64}
	for _, p := range append(append([]int{}, vals...), ext...) {
		for _, s := range append(append([]int{}, vals...), ext...) {
			c16Exec(r, l, c16Case{Kind: "newdecimal", P: p, S: s})
		}
	}
	l.flush(r)
}

// runC16ParseRace (leg "parse-race", race build): the FIRST conversions of a
// process are made by 8 goroutines at once, each on decimals of its own -
// parsing and formatting share nothing a caller can see, so the race
// detector must stay silent (any report with a go-dblib frame is a
// violation) and every conversion is judged like in the main leg.
func runC16ParseRace(c *Ctx) {
	r := c.R
	type pair struct{ p, s int }
	const workers = 8
	lists := make([][]pair, workers)
	n := 0
	for _, p := range []int{38, 1, 19, 9, 20, 37, 18, 2, 10, 28} {
		for _, s := range []int{0, p / 2, p} {
			lists[n%workers] = append(lists[n%workers], pair{p, s})
			n++
		}
	}
	var ready, done sync.WaitGroup
	var start int32
	ready.Add(workers)
	done.Add(workers)
	for w := 0; w < workers; w++ {
		go func(w int) {
			defer done.Done()
			l := newC16Local()
			defer l.flush(r)
			ready.Done()
			for atomic.LoadInt32(&start) == 0 {
			}
			for _, pr := range lists[w] {
				for _, u := range c16Boundary(pr.p) {
					c16Exec(r, l, c16Case{Kind: "string", P: pr.p, S: pr.s, U: u.String(), Why: "boundary"})
					for i, g := range c16Spellings(pr.p, pr.s, u) {
						via := "SetString"
						if i%4 == 0 {
							via = "NewDecimalString"
						}
						c16Exec(r, l, c16Case{Kind: "setstring", P: pr.p, S: pr.s, Text: g.text, Via: via, Why: g.why})
					}
				}
			}
		}(w)
	}
	ready.Wait()
	atomic.StoreInt32(&start, 1)
	done.Wait()
	r.Count("parse_race_goroutines", workers)
	r.Count("parse_race_precision_scale_pairs", int64(n))
}

// c16Undecorated removes surrounding white space and a leading plus sign.
func c16Undecorated(text string) string {
	return strings.TrimPrefix(strings.TrimFunc(text, unicode.IsSpace), "+")
}

var (
	c16DecoOnce sync.Once
	c16DecoOK   = map[string]bool{}
)

// c16DecorationAccepted: does the library accept the decoration at all?
func c16DecorationAccepted(shape string) bool {
	c16DecoOnce.Do(func() {
		for sh, text := range map[string]string{"plus-sign": "+1.5", "surrounding-spaces": " 1.5 ", "leading-zeros": strings.Repeat("0", 50) + "1.5"} {
			var err error
			if rt.Catch(func() { _, err = asetypes.NewDecimalString(38, 19, text) }) == nil && err == nil {
				c16DecoOK[sh] = true
			}
		}
	})
	return c16DecoOK[shape]
}

func minP(a, b int) int {
	if a < b {
		return a
	}
	if a < 0 {
		return 0
	}
	return b
}
