package main

import (
	"bytes"
	"crypto/rsa"
	"crypto/sha1"
	"encoding/hex"
	"encoding/json"
	"fmt"
	"strings"
	"time"

	"github.com/SAP/go-dblib/tds"

	"verif/harness/refpkg"
	"verif/harness/rt"
	"verif/harness/srv"
)

// C09 — passwords never cross the wire in clear when encryption is
// negotiated.
//
// Events: every byte the client writes during Login; every error string
// Login returns in failing variants; the peer's private key.
// Oracle: positional (login record slots by absolute offset), structural
// (phase 2 decodes, ciphertexts decrypt to nonce||secret), textual (no
// unexplained occurrence of a secret), freshness, and a control leg.

func init() { register("C09", runC09) }

type c09Case struct {
	PwHex    string   `json:"password_hex"`
	PwClass  string   `json:"password_class"`
	User     string   `json:"user"`
	Remotes  []string `json:"remote_servers"` // names
	RemPwHex []string `json:"remote_passwords_hex"`
	NonceLen int      `json:"nonce_len"`
	KeyBits  int      `json:"key_bits"`
	PackSize int      `json:"pack_size"`
	Variant  string   `json:"variant"` // ok | too-long | server-fails-round2 | control-plain
	CutClass string   `json:"cut_class"`
}

const c09MsgLogPwd3, c09MsgRemPwd3, c09MsgSymKey = 31, 32, 34

func c09Run(c *Ctx, cs c09Case, keepCT map[string][]byte) {
	r := c.R
	r.Eval(1)
	pw, _ := hex.DecodeString(cs.PwHex)
	key := lpGetKey(cs.KeyBits)
	rnd := rt.NewRand(c.Seed, "c09/nonce/"+cs.PwHex+fmt.Sprint(cs.NonceLen))
	nonce := rnd.Bytes(cs.NonceLen)
	encrypt := cs.Variant != "control-plain"
	cfg := lpConfig(cs.User, string(pw), encrypt)
	var secrets [][]byte
	secrets = append(secrets, pw)
	for i, n := range cs.Remotes {
		rp, _ := hex.DecodeString(cs.RemPwHex[i])
		cfg.RemoteServers = append(cfg.RemoteServers, tds.LoginConfigRemoteServer{Name: n, Password: string(rp)})
		secrets = append(secrets, rp)
	}
	flow := "encrypted"
	if !encrypt {
		flow = "plain"
	}
	script := lpValid(flow, key, nonce, 0, false)
	if cs.PackSize > 0 && encrypt {
		// announce a packet size in round 1 so that phase 2 is packetised with it
		script.Rounds[0] = append([]lpItem{{Kind: "env", B: srv.EnvChange(srv.EnvMember{Type: 4, New: itoa(cs.PackSize), Old: "512"})}}, script.Rounds[0]...)
	}
	if cs.Variant == "server-fails-round2" {
		script.Rounds[1][0] = lpLoginAck(srv.LogFail)
	}
	res := lpRun(c.Seed, script, cfg, lpOptions{CutSeed: cs.PwHex, CutClass: cs.CutClass, Timeout: 5 * time.Second})
	if res.kit == nil {
		r.Inconclusive("setup: %v", res.err)
		return
	}
	defer res.kit.teardown()
	sigTail := "/" + cs.PwClass
	fail := func(sig, detail string) {
		r.Violate(sig, fmt.Sprintf("password class %s (%d bytes), %d remote servers, nonce %d bytes, key %d bits, variant %s: %s", cs.PwClass, len(pw), len(cs.Remotes), cs.NonceLen, cs.KeyBits, cs.Variant, detail), cs)
	}
	if res.watchdog {
		r.Inconclusive("login did not return (variant %s)", cs.Variant)
		return
	}
	if res.panicked != nil {
		fail("panic/"+res.panicked.Frame, res.panicked.Value)
		return
	}
	var transcript []byte
	for _, w := range res.writes {
		transcript = append(transcript, w.Data...)
	}
	r.Count("bytes_scanned", int64(len(transcript)))
	r.Count("logins", 1)
	if len(pw) >= 4 {
		r.Distinct(fmt.Sprintf("%s|%d|%d|%s", cs.PwClass, len(cs.Remotes), cs.KeyBits, cs.Variant))
	}
	r.SetAdd("class_remotes_keysize", fmt.Sprintf("%s|%d|%d", cs.PwClass, len(cs.Remotes), cs.KeyBits))

	if len(res.messages) == 0 || len(res.messages[0]) < refpkg.LoginRecordSize {
		if !encrypt {
			// control leg with a password that does not fit the slot: nothing to compare
			r.Count("control_password_beyond_slot", 1)
			return
		}
		if cs.Variant == "too-long" || res.err != nil {
			// nothing sent at all is fine for a failing variant
			c09ErrText(r, cs, res.err, secrets, cfg, fail)
			return
		}
		fail("login-record-missing", fmt.Sprintf("first client message has %d bytes", len(res.messages)))
		return
	}
	rec, err := refpkg.DecodeLogin(res.messages[0])
	if err != nil {
		fail("login-record-undecodable", err.Error())
		return
	}
	// ---- control leg: without encryption the password IS in its slot
	if !encrypt {
		f := rec.Fields["password"]
		if len(pw) <= 30 {
			if f.Value != string(pw) || f.Len != len(pw) {
				fail("control/password-not-in-slot", fmt.Sprintf("plain login: password slot holds %q (len %d), want the password", f.Value, f.Len))
				return
			}
			if len(pw) >= 4 && !bytes.Contains(transcript, pw) {
				fail("control/search-does-not-find-password", "the transcript search does not find the password although it is in the slot")
				return
			}
			r.Count("control_password_found_in_slot", 1)
		}
		return
	}
	// ---- (1) positional: slots empty, every other field explained
	for _, slot := range []string{"password", "rempw"} {
		f := rec.Fields[slot]
		if f.Len != 0 || !f.PadOK || strings.Trim(string(f.Raw), "\x00") != "" {
			fail("login-record/"+slot+"-slot-not-empty"+sigTail, fmt.Sprintf("slot %s: length byte %d, bytes %x", slot, f.Len, f.Raw))
			return
		}
	}
	expect := map[string]string{"hostname": cfg.Hostname, "username": cs.User, "hostproc": cfg.HostProc, "appname": cfg.AppName, "servname": cfg.ServName, "language": cfg.Language, "charset": cfg.CharSet, "packetsize": "512"}
	for name, want := range expect {
		f := rec.Fields[name]
		if f.Value != want || !f.PadOK || !f.LenOK {
			fail("login-record/unexplained-bytes/"+name, fmt.Sprintf("field %s holds %q (len %d, padding ok %v), expected %q from the non-secret inputs", name, f.Value, f.Len, f.PadOK, want))
			return
		}
	}
	if sl := rec.Bytes["seclogin"]; len(sl) != 1 || sl[0] != 0x01|0x20|0x80 {
		fail("login-record/seclogin-flags", fmt.Sprintf("lseclogin = %x, want a1 (encrypted, extended, extended-plus)", sl))
		return
	}
	for _, z := range []string{"oldsecure", "hasessionid", "secspare", "dummy", "spare", "bufsize"} {
		for _, b := range rec.Bytes[z] {
			if b != 0 {
				fail("login-record/unexplained-bytes/"+z, fmt.Sprintf("%s = %x", z, rec.Bytes[z]))
				return
			}
		}
	}
	// the rest of message 1 must be the capability package
	rest := res.messages[0][refpkg.LoginRecordSize:]
	if d, err := refpkg.DecodeCapability(rest); err != nil || d.Consumed != len(rest) {
		fail("login-message/unexplained-bytes-after-record", fmt.Sprintf("%d bytes after the login record do not decode as one CAPABILITY package: %v", len(rest), err))
		return
	}
	// ---- (3) textual: no unexplained occurrence of a secret anywhere
	explainedIn := func(secret []byte) []string {
		var where []string
		for name, want := range expect {
			if strings.Contains(want, string(secret)) {
				where = append(where, name)
			}
		}
		for _, n := range cs.Remotes {
			if strings.Contains(n, string(secret)) {
				where = append(where, "remote-server-name")
			}
		}
		return where
	}
	scan := func(hay []byte, what string) bool {
		for si, s := range secrets {
			if len(s) < 4 || len(bytes.Trim(s, "\x00")) == 0 {
				// too short, or indistinguishable from zero padding
				continue
			}
			n := bytes.Count(hay, s)
			if n == 0 {
				continue
			}
			ex := explainedIn(s)
			if len(ex) == 0 {
				who := "account password"
				if si > 0 {
					who = fmt.Sprintf("remote password %d", si)
				}
				fail("secret-in-clear/"+what+sigTail, fmt.Sprintf("the %s (%q) occurs %d time(s) in %s and no non-secret input contains it", who, s, n, what))
				return false
			}
			// explained occurrences: count how many the non-secret inputs account for
			max := 0
			for _, name := range ex {
				if name == "remote-server-name" {
					for _, rn := range cs.Remotes {
						max += strings.Count(rn, string(s))
					}
				} else {
					max += strings.Count(expect[name], string(s))
				}
			}
			if what == "transcript" && n > max {
				fail("secret-in-clear/"+what+sigTail, fmt.Sprintf("secret %q occurs %d times in the transcript but the non-secret inputs containing it (%v) explain only %d", s, n, ex, max))
				return false
			}
			r.Count("explained_collisions", 1)
		}
		return true
	}
	if !scan(transcript, "transcript") {
		return
	}
	// ---- (5) error text
	if res.err != nil {
		c09ErrText(r, cs, res.err, secrets, cfg, fail)
	}
	if cs.Variant == "remote-name-beyond-255" {
		// a remote server name that does not fit its one-byte length: what
		// the client then sends or answers is not the property's business,
		// that no secret shows up in bytes or error text (checked above) is
		r.Count("remote_name_beyond_255_logins", 1)
		return
	}
	if cs.Variant == "remote-too-long" {
		if res.err == nil {
			fail("too-long-password-accepted", "a remote server password beyond the key capacity cannot be encrypted, Login returned nil")
		}
		r.Count("remote_password_beyond_capacity_logins", 1)
		return
	}
	if cs.Variant == "too-long" {
		if res.err == nil {
			fail("too-long-password-accepted", "a password beyond the key capacity cannot be encrypted, Login returned nil")
		}
		if len(res.messages) > 1 {
			// nothing of phase 2 may have been sent with a clear password; the scan above covers it
			r.Count("too_long_phase2_messages", int64(len(res.messages)-1))
		}
		return
	}
	if cs.Variant == "ok" && res.err != nil {
		fail("login-failed", res.err.Error())
		return
	}
	if len(res.messages) < 2 {
		fail("phase2-missing", "the client sent no second message")
		return
	}
	sk, pwCT, ok := c09Phase2(r, fail, key, nonce, pw, cs.Remotes, secrets, res.messages[1])
	if !ok {
		return
	}
	if keepCT != nil {
		for name, v := range map[string][]byte{"pwct": pwCT, "sk": sk} {
			if prev, ok := keepCT[name]; ok && bytes.Equal(prev, v) {
				fail("freshness/repeated-across-logins/"+name, fmt.Sprintf("two logins with the same inputs produced the same %s: %x", name, v))
				return
			}
			keepCT[name] = append([]byte(nil), v...)
		}
	}
}

// c09Phase2 verifies the client's second login message: structure,
// decryption of every ciphertext to nonce||secret, freshness within the
// login. It returns the session key and the password ciphertext.
func c09Phase2(r *rt.Result, fail func(string, string), key *lpKey, nonce, pw []byte, remotes []string, secrets [][]byte, body []byte) ([]byte, []byte, bool) {
	// ---- (2) structural: phase 2 decodes and decrypts
	b := body
	type triple struct {
		id  uint16
		f   refpkg.Format
		row refpkg.Row
	}
	var triples []triple
	for len(b) > 0 {
		dm, err := refpkg.DecodeMsg(b)
		if err != nil {
			fail("phase2/undecodable", fmt.Sprintf("expected MSG at offset %d: %v", len(body)-len(b), err))
			return nil, nil, false
		}
		b = b[dm.Consumed:]
		df, err := refpkg.DecodeFormat(b)
		if err != nil {
			fail("phase2/undecodable", fmt.Sprintf("expected PARAMFMT: %v", err))
			return nil, nil, false
		}
		b = b[df.Consumed:]
		f := df.Pkg.(refpkg.Format)
		dr, err := refpkg.DecodeRow(b, f)
		if err != nil {
			fail("phase2/undecodable", fmt.Sprintf("expected PARAMS: %v", err))
			return nil, nil, false
		}
		b = b[dr.Consumed:]
		triples = append(triples, triple{dm.Pkg.(refpkg.Msg).ID, f, dr.Pkg.(refpkg.Row)})
	}
	wantIDs := []uint16{c09MsgLogPwd3, c09MsgRemPwd3, c09MsgSymKey}
	if len(triples) != 3 {
		fail("phase2/wrong-structure", fmt.Sprintf("%d MSG/PARAMFMT/PARAMS groups, want 3 (password, remote passwords, session key)", len(triples)))
		return nil, nil, false
	}
	for i, t := range triples {
		if t.id != wantIDs[i] {
			fail("phase2/wrong-structure", fmt.Sprintf("group %d has message id %d, want %d", i, t.id, wantIDs[i]))
			return nil, nil, false
		}
	}
	decrypt := func(ct []byte) ([]byte, error) {
		return rsa.DecryptOAEP(sha1.New(), nil, key.priv, ct, []byte{})
	}
	checkCT := func(what string, ct, secret []byte) bool {
		pt, err := decrypt(ct)
		if err != nil {
			fail("phase2/ciphertext-does-not-decrypt/"+what, fmt.Sprintf("%d byte ciphertext: %v", len(ct), err))
			return false
		}
		if !bytes.Equal(pt, append(append([]byte(nil), nonce...), secret...)) {
			fail("phase2/plaintext-not-nonce-plus-secret/"+what, fmt.Sprintf("decrypts to %x, want nonce %x followed by the secret (%d bytes)", pt, nonce, len(secret)))
			return false
		}
		r.Count("ciphertexts_decrypted", 1)
		return true
	}
	// password
	if len(triples[0].row.Cells) != 1 {
		fail("phase2/wrong-structure", "password group does not carry exactly one parameter")
		return nil, nil, false
	}
	pwCT := triples[0].row.Cells[0].Data
	if !checkCT("password", pwCT, pw) {
		return nil, nil, false
	}
	// remote passwords: first the current server ("" + account password)
	cells := triples[1].row.Cells
	wantPairs := 1 + len(remotes)
	if len(cells) != 2*wantPairs {
		fail("phase2/wrong-structure", fmt.Sprintf("remote password group has %d parameters, want %d (name, password) pairs", len(cells), wantPairs))
		return nil, nil, false
	}
	var cts [][]byte
	cts = append(cts, pwCT)
	for i := 0; i < wantPairs; i++ {
		name := ""
		secret := pw
		if i > 0 {
			name = remotes[i-1]
			secret = secrets[i]
		}
		if string(cells[2*i].Data) != name {
			fail("phase2/wrong-remote-server-name", fmt.Sprintf("pair %d carries name %q, want %q", i, cells[2*i].Data, name))
			return nil, nil, false
		}
		if !checkCT("remote-password", cells[2*i+1].Data, secret) {
			return nil, nil, false
		}
		cts = append(cts, cells[2*i+1].Data)
	}
	// session key
	skCT := triples[2].row.Cells[0].Data
	skPT, err := decrypt(skCT)
	if err != nil {
		fail("phase2/ciphertext-does-not-decrypt/session-key", err.Error())
		return nil, nil, false
	}
	if len(skPT) != len(nonce)+32 || !bytes.Equal(skPT[:len(nonce)], nonce) {
		fail("phase2/plaintext-not-nonce-plus-secret/session-key", fmt.Sprintf("decrypts to %d bytes, want nonce (%d) + 32 key bytes", len(skPT), len(nonce)))
		return nil, nil, false
	}
	sk := skPT[len(nonce):]
	r.Count("ciphertexts_decrypted", 1)
	// ---- (4) freshness
	for i := range cts {
		for j := i + 1; j < len(cts); j++ {
			if bytes.Equal(cts[i], cts[j]) {
				fail("freshness/equal-ciphertexts-within-login", fmt.Sprintf("ciphertexts %d and %d of one login are identical", i, j))
				return nil, nil, false
			}
		}
	}
	if bytes.Equal(sk, make([]byte, 32)) || bytes.Count(sk, sk[:1]) == 32 {
		fail("freshness/constant-session-key", fmt.Sprintf("session key %x", sk))
		return nil, nil, false
	}
	return sk, pwCT, true
}

func c09ErrText(r *rt.Result, cs c09Case, err error, secrets [][]byte, cfg *tds.LoginConfig, fail func(string, string)) {
	if err == nil {
		return
	}
	txt := err.Error()
	r.Count("error_texts_scanned", 1)
	nonSecret := []string{cfg.Hostname, cs.User, cfg.HostProc, cfg.AppName, cfg.ServName, cfg.Language, cfg.CharSet}
	nonSecret = append(nonSecret, cs.Remotes...)
	for _, s := range secrets {
		if len(s) < 4 || !strings.Contains(txt, string(s)) {
			continue
		}
		explained := false
		for _, ns := range nonSecret {
			if strings.Contains(ns, string(s)) {
				explained = true
			}
		}
		// text of the library's own messages may contain short common words
		if !explained && !c09CommonWord(string(s)) {
			fail("secret-in-error-text/"+cs.PwClass, fmt.Sprintf("the error returned by Login contains a secret: %q", txt))
			return
		}
	}
}

// secrets are generated from an alphabet that cannot collide with the
// library's message texts; this guards the few fixed ones.
func c09CommonWord(s string) bool { return false }

func runC09(c *Ctx) {
	r := c.R
	r.Rule = "encrypted logins against the scripted peer over password classes (empty, 1 byte, all-NUL, high bytes, 30/31 bytes, key capacity and capacity+1, equal to user / host / application / server name, seeded random), 0-4 remote servers with their own passwords, nonce lengths 1..48, key sizes 1024/2048, packet sizes 256..8192 announced before phase 2, 3 packetisations; failing variants (password beyond key capacity, server refusing in round 2) for the error-text clause; each configuration twice for the freshness clause; plain-flow control leg; non-trivial = password of at least 4 bytes; distinct = (password class, remote count, key size, variant)"
	r.TrustedBase = []string{"harness/refpkg: login record by absolute offsets, MSG/PARAMFMT/PARAMS/CAPABILITY decoders", "Go crypto/rsa OAEP decryption with the peer's private key"}
	r.Assumptions = []string{"freshness can be refuted (a repeat) but not established by sampling", "secrets shorter than 4 bytes are not searched for textually (they are still checked positionally and by decryption)", "a secret that equals a non-secret input (user name, host, application, server, remote server name) is explained by exactly the occurrences of that input"}
	if c.Replay != nil {
		var rl c09ReloginCase
		if json.Unmarshal(c.Replay, &rl) == nil && rl.Leg == "relogin" {
			c09Relogin(c, rl)
			return
		}
		var cs c09Case
		if err := json.Unmarshal(c.Replay, &cs); err != nil {
			r.Inconclusive("bad replay: %v", err)
			return
		}
		c09Run(c, cs, nil)
		return
	}
	quick := c.Quick()
	type pwc struct {
		class string
		pw    []byte
		user  string
	}
	rnd := rt.NewRand(c.Seed, "c09")
	alpha := func(n int) []byte {
		b := make([]byte, n)
		for i := range b {
			b[i] = "QZXJKVWqzxjkvw0123456789#!$%"[rnd.Intn(28)]
		}
		return b
	}
	var pws []pwc
	add := func(class string, pw []byte, user string) { pws = append(pws, pwc{class, pw, user}) }
	add("empty", nil, "sa")
	add("one-byte", []byte("Z"), "sa")
	add("all-nul", make([]byte, 8), "sa")
	add("high-bytes", []byte{0xff, 0xfe, 0x80, 0x81, 0xc3, 0xa4, 0xf0, 0x9f, 0x98, 0x80}, "sa")
	add("30-bytes", alpha(30), "sa")
	add("31-bytes", alpha(31), "sa")
	add("equal-to-user", []byte("QXuserZ9"), "QXuserZ9")
	add("equal-to-hostname", []byte("clienthost"), "sa")
	add("equal-to-appname", []byte("vworker"), "sa")
	add("equal-to-servname", []byte("dbhost"), "sa")
	add("contains-spaces", []byte("pw with spaces "), "sa")
	nr := 8
	if !quick {
		nr = 300
	}
	for i := 0; i < nr; i++ {
		add("random", alpha(rnd.Range(4, 40)), "sa")
	}
	var cases []c09Case
	keySizes := []int{1024}
	if !quick {
		keySizes = []int{1024, 2048}
	}
	for _, bits := range keySizes {
		lpGetKey(bits)
	}
	for i, p := range pws {
		for _, bits := range keySizes {
			capacity := bits/8 - 42
			nl := []int{1, 8, 16, 32, 48}[i%5]
			if nl+32 > capacity {
				nl = capacity - 32
			}
			nrem := i % 5
			cs := c09Case{PwHex: hex.EncodeToString(p.pw), PwClass: p.class, User: p.user, NonceLen: nl, KeyBits: bits, Variant: "ok",
				CutClass: []string{"one-packet", "random", "one-byte"}[i%3], PackSize: []int{0, 256, 512, 1024, 8192}[i%5]}
			for j := 0; j < nrem; j++ {
				cs.Remotes = append(cs.Remotes, fmt.Sprintf("REM%d", j))
				cs.RemPwHex = append(cs.RemPwHex, hex.EncodeToString(alpha(rnd.Range(4, 20))))
			}
			if i%7 == 3 && nrem > 0 {
				// a remote password equal to a remote server name
				cs.RemPwHex[0] = hex.EncodeToString([]byte(cs.Remotes[0]))
			}
			switch {
			case i%7 == 5 && nrem > 0 && len(p.pw) > 0:
				// a remote server that shares the account password
				cs.RemPwHex[nrem-1] = cs.PwHex
			case i%7 == 6 && nrem > 1:
				// two remote servers sharing one password
				cs.RemPwHex[nrem-1] = cs.RemPwHex[0]
			}
			if len(p.pw)+nl > capacity {
				cs.Variant = "too-long"
			}
			cases = append(cases, cs)
			// failing variant for the error-text clause (only where the
			// password fits the key; otherwise the case is "too-long" already)
			if cs.Variant == "ok" {
				cs2 := cs
				cs2.Variant = "server-fails-round2"
				cases = append(cases, cs2)
			}
			// control
			cs3 := cs
			cs3.Variant = "control-plain"
			cs3.Remotes, cs3.RemPwHex = nil, nil
			cases = append(cases, cs3)
		}
	}
	// remote server names at and beyond what their one-byte length can carry
	for _, l := range []int{255, 256, 300} {
		v := "ok"
		if l > 255 {
			v = "remote-name-beyond-255"
		}
		cases = append(cases, c09Case{PwHex: hex.EncodeToString([]byte("acc0unt-Secret")), PwClass: "long-remote-server-name", User: "sa", NonceLen: 16, KeyBits: 1024, Variant: v, CutClass: "one-packet",
			Remotes: []string{strings.Repeat("N", l), "REM1"}, RemPwHex: []string{hex.EncodeToString([]byte("remote-secret-A")), hex.EncodeToString([]byte("remote-secret-B"))}})
	}
	// a REMOTE password beyond the key capacity while the account password
	// fits: the login fails client-side, and its error text is searched
	for _, bits := range keySizes {
		capacity := bits/8 - 42
		nl := 16
		cases = append(cases, c09Case{PwHex: hex.EncodeToString([]byte("acc0unt-Secret")), PwClass: "remote-password-beyond-key-capacity", User: "sa", NonceLen: nl, KeyBits: bits, Variant: "remote-too-long", CutClass: "one-packet",
			Remotes: []string{"REM0", "REM1"}, RemPwHex: []string{hex.EncodeToString([]byte("remote-secret-A")), hex.EncodeToString(alpha(capacity - nl + 6))}})
	}
	// key capacity and capacity+1
	for _, bits := range keySizes {
		capacity := bits/8 - 42
		for _, extra := range []int{0, 1, 20} {
			nl := 16
			pw := alpha(capacity - nl + extra)
			v := "ok"
			class := "key-capacity"
			if extra > 0 {
				v = "too-long"
				class = "beyond-key-capacity"
			}
			cases = append(cases, c09Case{PwHex: hex.EncodeToString(pw), PwClass: class, User: "sa", NonceLen: nl, KeyBits: bits, Variant: v, CutClass: "one-packet"})
		}
	}
	r.Count("cases", int64(len(cases)))
	for i := 0; i < 3; i++ {
		r.Sample(cases[(i*37)%len(cases)].Variant, cases[(i*37)%len(cases)])
	}
	runC09Relogin(c)
	c.parallel(len(cases), func(i int) {
		keep := map[string][]byte{}
		c09Run(c, cases[i], keep)
		if cases[i].Variant == "ok" {
			// the same inputs again: ciphertext and session key must differ
			c09Run(c, cases[i], keep)
		}
	})
}
