package main

import (
	"context"
	"encoding/hex"
	"encoding/json"
	"fmt"
	"sort"
	"strconv"
	"strings"
	"sync"
	"time"

	"github.com/SAP/go-dblib/tds"

	"verif/harness/canon"
	"verif/harness/rt"
	"verif/harness/srv"
	"verif/harness/xport"
)

// C02 — the received package stream does not depend on fragmentation.
//
// Metamorphic oracle: deliver(R, packetisation, read partition) must equal
// deliver(R, one packet, one read) as lists of canonical package dumps, and
// no error may surface for a merely fragmented response.

func init() { register("C02", runC02) }

type c02Case struct {
	Resp      string `json:"response"`
	BodyHex   string `json:"body_hex"`
	Family    string `json:"family"`
	Cuts      []int  `json:"packet_cuts"`                                         // body offsets where a new packet starts
	EmptyAt   []int  `json:"empty_packets_at"`                                    // body offsets at which a header-only packet (no EOM) is inserted
	EmptyEOM  bool   `json:"header_only_eom"`                                     // the EOM flag travels on a trailing header-only packet
	EmptyTail int    `json:"header_only_packets_before_the_eom_packet,omitempty"` // with EmptyEOM: further header-only packets (no EOM) directly before it
	// StatusExtra: further header status bits on every packet of the response
	// (0x02 attention acknowledgement, 0x08 event, ...), also next to the
	// end-of-message bit of the last packet
	StatusExtra int    `json:"other_header_status_bits,omitempty"`
	Reads       []int  `json:"read_cuts,omitempty"` // stream offsets where a new read() result starts; nil+ViaReader = one read
	Via         string `json:"via"`                 // "writepacket" (Channel.WritePacket directly) | "reader" (transport + reader goroutine)
	Bounds      []int  `json:"package_bounds"`
	// Prelude: a complete earlier response (one packet) is delivered and
	// consumed on the same channel first; the response under test is then
	// the second one on that channel.
	Prelude bool `json:"second_response_on_channel,omitempty"`
	// PreludeShape: how that earlier response arrived - 0 one packet; 1 data
	// packet + header-only EOM packet; 2 data packet + two header-only
	// packets, the second with EOM; 3 cut inside a package + header-only EOM
	PreludeShape int `json:"earlier_response_packets,omitempty"`
	// AckBeforeEOM (with EmptyEOM): a header-only TDS_BUF_PROTACK packet (the
	// window acknowledgement a server may send on a channel at any time)
	// arrives directly before the header-only packet that carries EOM. The
	// consumer is handed a HeaderOnlyPackage for it - a package the server
	// did send; it is taken out before the comparison (exactly one).
	AckBeforeEOM bool `json:"header_only_protack_before_the_eom_packet,omitempty"`
	// Consumer "until-poll": see c02_poll.go
	Consumer string `json:"consumer,omitempty"`
}

// c02Packets builds the packets (header+body) for a case.
func c02Packets(body []byte, cuts, emptyAt []int, emptyEOM bool) [][]byte {
	type seg struct {
		b     []byte
		empty bool
	}
	var segs []seg
	marks := map[int]int{}
	for _, e := range emptyAt {
		marks[e]++
	}
	cs := append([]int(nil), cuts...)
	sort.Ints(cs)
	prev := 0
	flushEmpty := func(at int) {
		for i := 0; i < marks[at]; i++ {
			segs = append(segs, seg{empty: true})
		}
		delete(marks, at)
	}
	for _, c := range cs {
		if c <= prev || c >= len(body) {
			continue
		}
		flushEmpty(prev)
		// empties strictly inside (prev,c) force extra cuts
		var inner []int
		for e := range marks {
			if e > prev && e < c {
				inner = append(inner, e)
			}
		}
		sort.Ints(inner)
		p := prev
		for _, e := range inner {
			segs = append(segs, seg{b: body[p:e]})
			flushEmpty(e)
			p = e
		}
		segs = append(segs, seg{b: body[p:c]})
		prev = c
	}
	flushEmpty(prev)
	var inner []int
	for e := range marks {
		if e > prev && e < len(body) {
			inner = append(inner, e)
		}
	}
	sort.Ints(inner)
	p := prev
	for _, e := range inner {
		segs = append(segs, seg{b: body[p:e]})
		flushEmpty(e)
		p = e
	}
	segs = append(segs, seg{b: body[p:]})
	var pkts [][]byte
	for i, s := range segs {
		st := byte(0)
		if i == len(segs)-1 && !emptyEOM {
			st = xport.EOM
		}
		pkts = append(pkts, xport.Packet(byte(tds.TDS_BUF_RESPONSE), st, 0, s.b))
	}
	if emptyEOM {
		pkts = append(pkts, xport.Packet(byte(tds.TDS_BUF_RESPONSE), xport.EOM, 0, nil))
	}
	return pkts
}

type c02Out struct {
	d        delivered
	watchdog bool
}

// c02Deliver delivers the packets to a fresh connection and returns what a
// consumer obtained. A consumer goroutine receives concurrently (so that
// the library never blocks on its bounded queues); once the input is
// processed it is stopped and the rest is drained without blocking.
func c02Deliver(pkts [][]byte, via string, reads []int) (out c02Out, err error) {
	return c02DeliverOpt(pkts, via, reads, false)
}

// c02PreludePackets: an earlier, complete response (RETURNSTATUS + DONE(COUNT);
// the library supplies the final DONE) in one of four packetisations.
func c02PreludePackets(shape int) [][]byte {
	first := append(srv.ReturnStatus(77), srv.Done(srv.TokDone, srv.DoneCount, 0, 1)...)
	data := func(b []byte, st byte) []byte { return xport.Packet(byte(tds.TDS_BUF_RESPONSE), st, 0, b) }
	switch shape {
	case 1:
		return [][]byte{data(first, 0), data(nil, xport.EOM)}
	case 2:
		return [][]byte{data(first, 0), data(nil, 0), data(nil, xport.EOM)}
	case 3:
		return [][]byte{data(first[:3], 0), data(first[3:], 0), data(nil, xport.EOM)}
	}
	return [][]byte{data(first, xport.EOM)}
}

func c02DeliverOpt(pkts [][]byte, via string, reads []int, prelude bool, shape ...int) (out c02Out, err error) {
	k, err := newKit(4096, 0)
	if err != nil {
		return out, err
	}
	defer k.teardown()
	if prelude {
		sh := 0
		if len(shape) > 0 {
			sh = shape[0]
		}
		k.tr.Feed(c02PreludePackets(sh)...)
		if !awaitIdle(k.tr, 30*time.Second) {
			out.watchdog = true
			return out, nil
		}
		if d := drainChannel(k.ch, k.ctx); len(d.Dumps) != 3 || len(d.Errs) != 0 {
			return out, fmt.Errorf("prelude response delivered %v / %v", d.Types, d.Errs)
		}
	}
	cctx, ccancel := context.WithCancel(context.Background())
	var mu sync.Mutex
	var got delivered
	done := make(chan struct{})
	go func() {
		defer close(done)
		for {
			pkg, err := k.ch.NextPackage(cctx, true)
			if err != nil {
				if cctx.Err() != nil {
					return
				}
				mu.Lock()
				got.Errs = append(got.Errs, err.Error())
				n := len(got.Errs)
				mu.Unlock()
				if n > 200 {
					return
				}
				continue
			}
			mu.Lock()
			got.Dumps = append(got.Dumps, canon.Dump(pkg))
			got.Types = append(got.Types, fmt.Sprintf("%T", pkg))
			got.Pkgs = append(got.Pkgs, pkg)
			mu.Unlock()
		}
	}()
	fed := make(chan struct{})
	go func() {
		defer close(fed)
		if via == "writepacket" {
			for _, p := range pkts {
				h, _ := xport.ParseHeader(p)
				pkt := &tds.Packet{Data: append([]byte(nil), p[8:]...)}
				pkt.Header.MsgType = tds.PacketHeaderType(h.Type)
				pkt.Header.Status = tds.PacketHeaderStatus(h.Status)
				pkt.Header.Length = h.Length
				pkt.Header.Channel = h.Channel
				k.ch.WritePacket(pkt)
			}
			return
		}
		if strings.HasPrefix(via, "reader-send-after:") {
			// a pipelining client: after the first j packets have been
			// processed it sends its next request on the channel, then
			// the rest of the response arrives
			j, _ := strconv.Atoi(strings.TrimPrefix(via, "reader-send-after:"))
			for i, p := range pkts {
				k.tr.Feed(p)
				if i+1 == j {
					k.tr.AwaitIdle()
					if err := k.ch.SendPackage(k.ctx, &tds.LanguagePackage{Cmd: "select 2"}); err != nil {
						mu.Lock()
						got.Errs = append(got.Errs, "send: "+err.Error())
						mu.Unlock()
					}
				}
			}
			k.tr.AwaitIdle()
			return
		}
		stream := xport.Concat(pkts)
		k.tr.FeedPartition(stream, reads)
		k.tr.AwaitIdle()
	}()
	select {
	case <-fed:
	case <-time.After(30 * time.Second):
		out.watchdog = true
	}
	ccancel()
	select {
	case <-done:
	case <-time.After(10 * time.Second):
		out.watchdog = true
	}
	if !out.watchdog {
		rest := drainChannel(k.ch, k.ctx)
		mu.Lock()
		got.Dumps = append(got.Dumps, rest.Dumps...)
		got.Types = append(got.Types, rest.Types...)
		got.Errs = append(got.Errs, rest.Errs...)
		got.Pkgs = append(got.Pkgs, rest.Pkgs...)
		mu.Unlock()
	}
	mu.Lock()
	// a delivered package belongs to the consumer: what the reader parses
	// later must not change it (dumped again now, after everything arrived)
	for i, p := range got.Pkgs {
		if i < len(got.Dumps) && canon.Dump(p) != got.Dumps[i] {
			got.Errs = append(got.Errs, fmt.Sprintf("package %d (%T) changed after it was delivered: it read %.200s when it arrived and reads %.200s now", i, p, got.Dumps[i], canon.Dump(p)))
		}
	}
	out.d = got
	mu.Unlock()
	return out, nil
}

type c02Ref struct {
	d  delivered
	ok bool
}

func c02Exec(c *Ctx, cs c02Case, ref c02Ref) {
	r := c.R
	r.Eval(1)
	body, _ := hex.DecodeString(cs.BodyHex)
	pkts := c02Packets(body, cs.Cuts, cs.EmptyAt, cs.EmptyEOM)
	if cs.EmptyEOM && cs.EmptyTail > 0 {
		last := pkts[len(pkts)-1]
		pkts = pkts[:len(pkts)-1]
		for i := 0; i < cs.EmptyTail; i++ {
			pkts = append(pkts, xport.Packet(byte(tds.TDS_BUF_RESPONSE), 0, 0, nil))
		}
		pkts = append(pkts, last)
	}
	if cs.EmptyEOM && cs.AckBeforeEOM {
		last := pkts[len(pkts)-1]
		pkts = append(pkts[:len(pkts)-1:len(pkts)-1], xport.Header{Type: byte(tds.TDS_BUF_PROTACK), Length: 8}.Bytes(), last)
	}
	if cs.StatusExtra != 0 {
		for i := range pkts {
			p := append([]byte(nil), pkts[i]...)
			p[1] |= byte(cs.StatusExtra)
			pkts[i] = p
		}
	}
	var out c02Out
	var err error
	if cs.Consumer == "until-poll" {
		finals := c02Finals(ref.d)
		if finals == 0 {
			r.Inconclusive("until-poll: the reference delivery of %s has no final DONE", cs.Resp)
			return
		}
		out, err = c02DeliverPoll(pkts, cs.Prelude, finals, cs.PreludeShape)
		r.Count("until_poll_deliveries", 1)
	} else {
		out, err = c02DeliverOpt(pkts, cs.Via, cs.Reads, cs.Prelude, cs.PreludeShape)
	}
	if err != nil {
		r.Inconclusive("cannot set up connection: %v", err)
		return
	}
	if out.watchdog {
		r.Inconclusive("watchdog fired delivering %s/%s (library blocked); case %+v", cs.Resp, cs.Family, cs)
		return
	}
	r.Count("packets_delivered", int64(len(pkts)))
	r.Count("packages_observed", int64(len(out.d.Dumps)))
	// non-trivial: a packet cut or read cut falls strictly inside a package
	inside := false
	bset := map[int]bool{0: true}
	for _, b := range cs.Bounds {
		bset[b] = true
	}
	for _, ct := range cs.Cuts {
		if !bset[ct] {
			inside = true
		}
	}
	if cs.Via == "reader" && len(cs.Reads) > 0 {
		inside = true
	}
	if inside {
		key, _ := json.Marshal([]interface{}{cs.Resp, cs.Family, cs.Cuts, cs.EmptyAt, cs.EmptyEOM, cs.Reads, cs.Prelude, cs.EmptyTail, cs.StatusExtra, cs.Consumer, cs.PreludeShape, cs.AckBeforeEOM})
		r.Distinct(string(key))
	}
	if cs.AckBeforeEOM {
		var d delivered
		acks := 0
		for i, t := range out.d.Types {
			if strings.Contains(t, "HeaderOnlyPackage") {
				acks++
				continue
			}
			d.Types = append(d.Types, t)
			if i < len(out.d.Dumps) {
				d.Dumps = append(d.Dumps, out.d.Dumps[i])
			}
		}
		d.Errs = out.d.Errs
		if acks != 1 && len(out.d.Errs) == 0 {
			r.Violate("header-only-protack/not-delivered-once", fmt.Sprintf("response %s with a header-only TDS_BUF_PROTACK packet before the header-only EOM packet: %d HeaderOnlyPackage(s) delivered, packages %v", cs.Resp, acks, out.d.Types), cs)
			return
		}
		out.d = d
		r.Count("deliveries_with_a_protack_before_the_eom_packet", 1)
	}
	fam := cs.Family
	if cs.Prelude {
		fam = "second-response/" + fam
		r.Count(fmt.Sprintf("second_response_after_earlier_response_shape_%d", cs.PreludeShape), 1)
	}
	if cs.Consumer == "until-poll" {
		fam = "until-poll/" + fam
	}
	if len(out.d.Errs) > 0 {
		r.Violate("error-surfaced/"+fam, fmt.Sprintf("response %s, %d packets: %d error(s) surfaced for a merely fragmented response, first: %s", cs.Resp, len(pkts), len(out.d.Errs), out.d.Errs[0]), cs)
		return
	}
	if cs.Consumer == "until-poll" {
		// multisets (messages come back at the end of a call)
		g, w := c02Sorted(out.d.Dumps), c02Sorted(ref.d.Dumps)
		if !sameStrings(g, w) {
			kind := "different-packages"
			if len(g) < len(w) {
				kind = "packages-missing"
			} else if len(g) > len(w) {
				kind = "extra-packages"
			}
			r.Violate(kind+"/"+fam, fmt.Sprintf("response %s (%d bytes) in %d packets (cuts %v, empty at %v, header-only EOM %v) arriving one after the other while the consumer polls with NextPackageUntil(wait=false): callback packages + messages of the returned errors + drain = %v, reference delivery %v; %s",
				cs.Resp, len(body), len(pkts), cs.Cuts, cs.EmptyAt, cs.EmptyEOM, out.d.Types, ref.d.Types, firstDiff(g, w)), cs)
		}
		return
	}
	if !sameStrings(out.d.Dumps, ref.d.Dumps) {
		kind := "different-packages"
		switch {
		case len(out.d.Dumps) < len(ref.d.Dumps) && sameStrings(out.d.Dumps, ref.d.Dumps[:len(out.d.Dumps)]):
			kind = "packages-missing"
		case len(out.d.Dumps) > len(ref.d.Dumps) && sameStrings(out.d.Dumps[:len(ref.d.Dumps)], ref.d.Dumps):
			kind = "extra-packages"
		default:
			for _, t := range out.d.Types {
				if strings.Contains(t, "HeaderOnlyPackage") {
					kind = "header-only-package-delivered"
				}
			}
		}
		r.Violate(kind+"/"+fam, fmt.Sprintf("response %s (%d bytes) in %d packets (cuts %v, empty at %v, header-only EOM %v, read cuts %v): delivered %v, reference delivery %v; %s",
			cs.Resp, len(body), len(pkts), cs.Cuts, cs.EmptyAt, cs.EmptyEOM, cs.Reads, out.d.Types, ref.d.Types, firstDiff(out.d.Dumps, ref.d.Dumps)), cs)
	}
}

func runC02(c *Ctx) {
	r := c.R
	r.Rule = "response catalogue (every server package kind, every data type of the mini encoder, narrow and wide formats) × packetisations {every single cut, pairs of cuts (all in thorough, strided in quick), all 2^(n-1) cut sets of streams ≤ 14 bytes, one-byte bodies, seeded k-cut sets, header-only packets inserted / as EOM carrier} delivered through Channel.WritePacket, and × read partitions {one read, one byte per read, every split inside every packet header, seeded chunkings} through the transport and the real reader goroutine; compared with the one-packet-one-read delivery; non-trivial = a cut falls strictly inside a package; distinct = (response, family, cut set)"
	r.TrustedBase = []string{"harness/srv (independent server-side encoder)", "harness/canon (reflection dump)", "harness/xport (in-memory transport)"}
	r.Assumptions = []string{"the one-packet-one-read delivery is the reference the property names; it must be error-free and non-empty, otherwise the response is discarded and counted"}

	if c.Replay != nil {
		var cs c02Case
		if err := json.Unmarshal(c.Replay, &cs); err != nil {
			r.Inconclusive("bad replay: %v", err)
			return
		}
		body, _ := hex.DecodeString(cs.BodyHex)
		refOut, err := c02Deliver(c02Packets(body, nil, nil, false), "reader", nil)
		if err != nil || refOut.watchdog || len(refOut.d.Errs) > 0 {
			r.Inconclusive("reference delivery failed: %v %v", err, refOut.d.Errs)
			return
		}
		c02Exec(c, cs, c02Ref{d: refOut.d, ok: true})
		return
	}

	resps := append(catalogue(), shortStreams()...)
	quick := c.Quick()
	type job struct {
		cs  c02Case
		ref *c02Ref
	}
	var jobs []job
	for ri, resp := range resps {
		body := resp.Bytes()
		n := len(body)
		// reference delivery: one packet, one read, through the real reader
		refOut, err := c02Deliver(c02Packets(body, nil, nil, false), "reader", nil)
		if err != nil || refOut.watchdog {
			r.Inconclusive("reference delivery of %s failed: %v", resp.Name, err)
			continue
		}
		// sanity: direct WritePacket of the single packet gives the same
		ref2, _ := c02Deliver(c02Packets(body, nil, nil, false), "writepacket", nil)
		if len(refOut.d.Errs) > 0 || len(refOut.d.Dumps) == 0 {
			r.Count("responses_discarded_reference_not_clean", 1)
			{
				// a catalogue response is a valid server response (harness
				// encoder, trusted base): if even its plain delivery - one
				// packet, one read - errors or delivers nothing there is no
				// "same packages as in a single packet" to speak of
				r.Violate("reference-delivery-not-clean", fmt.Sprintf("response %s (%d bytes, package kinds %v) arriving in one packet and one read: delivered %v, errors %.300v", resp.Name, n, resp.Kinds, refOut.d.Types, refOut.d.Errs), c02Case{Resp: resp.Name, BodyHex: hex.EncodeToString(body), Family: "reference", Via: "reader", Bounds: resp.Bounds()})
			}
			continue
		}
		if !sameStrings(ref2.d.Dumps, refOut.d.Dumps) {
			r.Violate("reference-paths-disagree", fmt.Sprintf("response %s: one packet through the reader and through WritePacket deliver different lists: %v vs %v", resp.Name, refOut.d.Types, ref2.d.Types), c02Case{Resp: resp.Name, BodyHex: hex.EncodeToString(body), Family: "reference", Via: "writepacket", Bounds: resp.Bounds()})
			continue
		}
		r.SetAdd("responses", resp.Name)
		for _, t := range refOut.d.Types {
			r.SetAdd("package_types_delivered", t)
		}
		ref := &c02Ref{d: refOut.d, ok: true}
		base := c02Case{Resp: resp.Name, BodyHex: hex.EncodeToString(body), Bounds: resp.Bounds(), Via: "writepacket"}
		nadd := 0
		add := func(fam string, mod func(cs *c02Case)) {
			cs := base
			cs.Family = fam
			mod(&cs)
			jobs = append(jobs, job{cs, ref})
			// every 5th packetisation is also delivered as the second
			// response on its channel (state left by an earlier response)
			nadd++
			if nadd%5 == 0 {
				cs.Prelude = true
				cs.PreludeShape = (nadd / 5) % 4
				jobs = append(jobs, job{cs, ref})
				cs.PreludeShape = 0
			}
			// every 7th (of at most 12 packets) also with the polling
			// consumer, every other of those as the second response
			if nadd%7 == 0 && len(cs.Cuts)+len(cs.EmptyAt)+cs.EmptyTail < 12 && cs.Family != "one-byte-bodies" {
				cs.Prelude = nadd%14 == 0
				cs.Consumer = "until-poll"
				cs.Via = "reader"
				cs.Reads = nil
				jobs = append(jobs, job{cs, ref})
			}
		}
		rnd := rt.NewRand(c.Seed, "c02/"+resp.Name)
		// (a) every single cut
		for ct := 1; ct < n; ct++ {
			ct := ct
			add("single-cut", func(cs *c02Case) { cs.Cuts = []int{ct} })
		}
		// (b) pairs of cuts
		if n <= 14 || !quick {
			stride := 1
			if n > 400 {
				stride = 2 // bound the thorough tier on the longest responses
			}
			for a := 1; a < n; a += stride {
				for b := a + 1; b < n; b += stride {
					a, b := a, b
					add("pair-of-cuts", func(cs *c02Case) { cs.Cuts = []int{a, b} })
				}
			}
		} else {
			for i := 0; i < 300; i++ {
				cu := randomCuts(rnd, n, 2)
				add("pair-of-cuts", func(cs *c02Case) { cs.Cuts = cu })
			}
		}
		// (c) all cut sets of short streams
		if n <= 14 {
			for mask := 0; mask < 1<<uint(n-1); mask++ {
				var cu []int
				for b := 0; b < n-1; b++ {
					if mask&(1<<uint(b)) != 0 {
						cu = append(cu, b+1)
					}
				}
				add("all-cut-sets", func(cs *c02Case) { cs.Cuts = cu })
				if mask%7 == 0 || !quick {
					add("all-cut-sets-reader", func(cs *c02Case) { cs.Cuts = cu; cs.Via = "reader" })
				}
			}
		}
		// (d) one-byte bodies
		all := make([]int, 0, n)
		for ct := 1; ct < n; ct++ {
			all = append(all, ct)
		}
		add("one-byte-bodies", func(cs *c02Case) { cs.Cuts = all })
		add("one-byte-bodies-reader", func(cs *c02Case) { cs.Cuts = all; cs.Via = "reader" })
		// (e) seeded k-cut sets
		nk := 30
		if !quick {
			nk = 3000
		}
		for i := 0; i < nk; i++ {
			cu := randomCuts(rnd, n, rnd.Range(3, 12))
			add("random-cut-set", func(cs *c02Case) { cs.Cuts = cu })
		}
		// (f) header-only packets: inserted between data packets, and as
		// the carrier of the EOM flag (separately counted families)
		for i := 0; i < 6; i++ {
			cu := randomCuts(rnd, n, rnd.Range(0, 3))
			at := []int{rnd.Range(0, n)}
			if at[0] == n {
				at[0] = n - 1
			}
			if i%3 == 2 {
				at = append(at, at[0]) // two in a row
			}
			add("header-only-packet-inserted", func(cs *c02Case) { cs.Cuts = cu; cs.EmptyAt = at })
		}
		for i := 0; i < 4; i++ {
			cu := randomCuts(rnd, n, rnd.Range(0, 3))
			tail := i % 3 // 0, 1 or 2 further header-only packets before the one carrying EOM
			add("header-only-eom-packet", func(cs *c02Case) { cs.Cuts = cu; cs.EmptyEOM = true; cs.EmptyTail = tail })
		}
		for i := 0; i < 3; i++ {
			cu := randomCuts(rnd, n, i)
			add("header-only-protack-before-eom-packet", func(cs *c02Case) { cs.Cuts = cu; cs.EmptyEOM = true; cs.AckBeforeEOM = true; cs.Via = "reader" })
		}
		// (f3) other header status bits next to (and instead of) end-of-message
		for i, extra := range []int{0x02, 0x08, 0x0a, 0x04, 0x30} {
			cu := randomCuts(rnd, n, i%3)
			ex := extra
			eom := i%2 == 1
			add("other-header-status-bits", func(cs *c02Case) { cs.Cuts = cu; cs.StatusExtra = ex; cs.EmptyEOM = eom })
		}
		// (f2) a request sent by the client between two packets of the response
		for i := 0; i < 6; i++ {
			cu := randomCuts(rnd, n, rnd.Range(1, 4))
			np := len(c02Packets(body, cu, nil, false))
			if np < 2 {
				continue
			}
			via := fmt.Sprintf("reader-send-after:%d", rnd.Range(1, np-1))
			add("request-sent-between-packets", func(cs *c02Case) { cs.Cuts = cu; cs.Via = via })
		}
		// (g) read partitions through the transport
		for i := 0; i < 3; i++ {
			cu := randomCuts(rnd, n, i)
			pk := c02Packets(body, cu, nil, false)
			stream := xport.Concat(pk)
			// one byte per read
			ob := make([]int, 0, len(stream))
			for o := 1; o < len(stream); o++ {
				ob = append(ob, o)
			}
			add("reads/one-byte-per-read", func(cs *c02Case) { cs.Cuts = cu; cs.Via = "reader"; cs.Reads = ob })
			// every split inside every packet header
			off := 0
			for _, p := range pk {
				for s := 1; s <= 7; s++ {
					at := off + s
					add("reads/header-split", func(cs *c02Case) { cs.Cuts = cu; cs.Via = "reader"; cs.Reads = []int{at} })
				}
				// header complete, body split
				if len(p) > 9 {
					at := off + 8 + rnd.Range(1, len(p)-9)
					add("reads/body-split", func(cs *c02Case) { cs.Cuts = cu; cs.Via = "reader"; cs.Reads = []int{at} })
				}
				// read boundary exactly between header and body
				if len(p) > 8 {
					at := off + 8
					add("reads/header-then-body", func(cs *c02Case) { cs.Cuts = cu; cs.Via = "reader"; cs.Reads = []int{at} })
				}
				off += len(p)
			}
			// packets coalesced into one read (no read cut at all)
			add("reads/all-packets-one-read", func(cs *c02Case) { cs.Cuts = cu; cs.Via = "reader"; cs.Reads = nil })
			nr := 10
			if !quick {
				nr = 1000
			}
			for j := 0; j < nr; j++ {
				rc := randomCuts(rnd, len(stream), rnd.Range(1, 10))
				add("reads/random-chunks", func(cs *c02Case) { cs.Cuts = cu; cs.Via = "reader"; cs.Reads = rc })
			}
		}
		_ = ri
	}
	r.Count("cases_generated", int64(len(jobs)))
	for i, j := range jobs {
		if i%(len(jobs)/8+1) == 0 {
			r.Sample(j.cs.Family, j.cs)
		}
	}
	c.parallel(len(jobs), func(i int) {
		c02Exec(c, jobs[i].cs, *jobs[i].ref)
		r.SetAdd("families", jobs[i].cs.Family)
	})
	runSockLegC02(c)
}
