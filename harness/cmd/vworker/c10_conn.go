package main

import (
	"bufio"
	"bytes"
	"context"
	"encoding/hex"
	"encoding/json"
	"errors"
	"fmt"
	"os"
	"os/exec"
	"regexp"
	"strings"
	"time"

	"github.com/SAP/go-dblib/tds"

	"verif/harness/rt"
	"verif/harness/xport"
)

// Connection leg of C10. The leg process supervises: it pipes one case at a
// time (JSON line) to a `conn-child` process and reads one result line back.
// The child logs "CASE ..." to stderr before it touches the library, feeds
// the chunks through xport.Transport to a live Conn (tds.NewConnTransport +
// NewChannel for channel 0) and waits for the reader goroutine to park in
// Read again (AwaitIdle — no sleeps). A panic in the reader goroutine kills
// the child; the supervisor records the violation itself (signature
// process-panic/<innermost go-dblib frame>/<token or data type>) and starts a
// new child with the next case, so one crashing input costs one case.

const (
	c10ConnWatchdog  = 20 * time.Second // in the child, per case: inconclusive, never a violation
	c10ChildWatchdog = 90 * time.Second // in the supervisor, per case
	c10RunawayBytes  = 2 << 30          // post-send probe: the child gives up (exit 97) beyond this
	c10RunawayExit   = 97
)

type c10ConnRes struct {
	Idx       int            `json:"i"`
	Classes   []string       `json:"cls,omitempty"`
	Delivered int            `json:"pk"`
	Errors    int            `json:"er"`
	Packets   int            `json:"np"`
	Bytes     int            `json:"nb"`
	Alloc     uint64         `json:"al"`
	Incon     string         `json:"incon,omitempty"`
	Vio       []rt.Violation `json:"vio,omitempty"`
}

// ------------------------------------------------------------ child

func c10ConnChild(c *Ctx) {
	in := bufio.NewReaderSize(os.Stdin, 1<<20)
	out := bufio.NewWriter(os.Stdout)
	for {
		line, err := in.ReadBytes('\n')
		if len(line) > 1 {
			var msg struct {
				Idx  int     `json:"i"`
				Case c10Case `json:"case"`
			}
			if jerr := json.Unmarshal(line, &msg); jerr != nil {
				fmt.Fprintln(os.Stderr, "conn-child: bad case line:", jerr)
				os.Exit(2)
			}
			var res c10ConnRes
			if msg.Case.Leg == "conn" {
				rt.CaseLog("conn %d %s/%s/%d", msg.Idx, msg.Case.Kind, msg.Case.Seed, msg.Case.Pos)
				res = c10ConnRunOne(&msg.Case)
			} else {
				// direct-style case in a process of its own (bigalloc leg);
				// 2 x (2^32-1) bytes are the most one of these asks for
				c10LimitAS(24)
				rt.CaseLog("conn %d %s %s", msg.Idx, msg.Case.Kind, msg.Case.Hex)
				obs := c10RunDirect(c.R, &msg.Case, true)
				res = c10ConnRes{Classes: obs.Classes, Vio: obs.Vio, Alloc: obs.MaxAlloc, Delivered: obs.Attempts}
				for i := range res.Vio {
					res.Vio[i].Case = nil
				}
			}
			res.Idx = msg.Idx
			b, _ := json.Marshal(res)
			out.Write(b)
			out.WriteByte('\n')
			out.Flush()
		}
		if err != nil {
			return
		}
	}
}

func c10PkgName(p tds.Package) string {
	s := fmt.Sprintf("%T", p)
	s = strings.TrimPrefix(s, "*")
	return strings.TrimPrefix(s, "tds.")
}

func c10ConnRunOne(cs *c10Case) (res c10ConnRes) {
	var chunks [][]byte
	var stream []byte
	for _, h := range cs.Chunks {
		b, err := hex.DecodeString(h)
		if err != nil {
			res.Incon = "bad chunk hex"
			return
		}
		chunks = append(chunks, b)
		stream = append(stream, b...)
	}
	res.Bytes = len(stream)
	if hs, _, _ := xport.SplitPackets(stream); len(hs) > 0 {
		res.Packets = len(hs)
	} else {
		res.Packets = 1
	}
	tr := xport.New()
	ctx, cancel := context.WithCancel(context.Background())
	defer func() {
		// NOT conn.Close(): that performs a logout with a one minute wait
		cancel()
		tr.Close()
	}()
	info := &tds.Info{}
	info.ChannelPackageQueueSize = 1000
	info.PacketReadTimeout = 0
	conn, err := tds.NewConnTransport(ctx, info, tr)
	if err != nil {
		res.Incon = "NewConnTransport: " + err.Error()
		return
	}
	ch, err := conn.NewChannel()
	if err != nil {
		res.Incon = "NewChannel: " + err.Error()
		return
	}
	classes := map[string]bool{}
	// drain: non-blocking; true if something was taken
	drain := func() bool {
		pkg, err := ch.NextPackage(ctx, false)
		switch {
		case err == nil:
			res.Delivered++
			classes["conn:"+c10PkgName(pkg)+":ok"] = true
			return true
		case errors.Is(err, tds.ErrNoPackageReady):
			return false
		case strings.Contains(err.Error(), "error in TDS channel"):
			res.Errors++
			if strings.Contains(err.Error(), "error parsing package") {
				classes["conn:channel:other-error"] = true
			} else {
				classes["conn:channel:handling-error"] = true
			}
			return true
		case strings.Contains(err.Error(), "error in TDS connection"):
			res.Errors++
			classes["conn:connection:other-error"] = true
			return true
		default:
			classes["conn:nextpackage:"+err.Error()] = true
			return false
		}
	}
	a0 := c10Allocs()
	tr.Feed(chunks...)
	idle := make(chan bool, 1)
	go func() { idle <- tr.AwaitIdle() }()
	watchdog := time.NewTimer(c10ConnWatchdog)
	defer watchdog.Stop()
	tick := time.NewTicker(200 * time.Microsecond)
	defer tick.Stop()
wait:
	for {
		select {
		case ok := <-idle:
			if !ok {
				res.Incon = "transport closed while waiting for the reader to go idle"
				return
			}
			break wait
		case <-tick.C:
			// keep the package and error channels from filling up: a reader
			// blocked on a full channel never parks in Read
			for drain() {
			}
		case <-watchdog.C:
			res.Incon = fmt.Sprintf("reader did not return to Read within %s after %d bytes were fed (blocked or spinning); goroutines:\n%s", c10ConnWatchdog, len(stream), c10DblibStacks())
			return
		}
	}
	res.Alloc = c10Allocs() - a0
	// the reader survived and waits for more; take what it produced
	for misses := 0; misses < 8; {
		if drain() {
			misses = 0
		} else {
			misses++
		}
	}
	if res.Delivered == 0 && res.Errors == 0 {
		classes["conn:nothing-delivered"] = true
	}
	attempts := uint64(res.Packets + res.Delivered + 1)
	if bound := attempts*c10AllocBase + c10AllocFactor*uint64(len(stream)); res.Alloc > bound {
		res.Vio = append(res.Vio, rt.Violation{Sig: "alloc/conn", Detail: fmt.Sprintf(
			"feeding %d bytes (%d packets, %d packages delivered) made the process allocate %d bytes until the reader was idle again; bound %d x 4 MiB + 64 x %d = %d; stream %x",
			len(stream), res.Packets, res.Delivered, res.Alloc, attempts, len(stream), bound, c10Head(stream, 96))})
	}
	if cs.PostSend {
		c10PostSend(ctx, conn, ch, &res, classes)
	}
	for k := range classes {
		res.Classes = append(res.Classes, k)
	}
	sortStrings(res.Classes)
	return
}

// c10PostSend: the client's next request after the server bytes were taken
// in (worker-side goroutine, recover). A runaway allocation cannot be
// stopped from outside the library: the child reports and exits.
func c10PostSend(ctx context.Context, conn *tds.Conn, ch *tds.Channel, res *c10ConnRes, classes map[string]bool) {
	type outT struct {
		pi  *rt.PanicInfo
		err error
	}
	done := make(chan outT, 1)
	ps := conn.PacketSize()
	a0 := c10Allocs()
	go func() {
		var o outT
		o.pi = rt.Catch(func() { o.err = ch.SendPackage(ctx, &tds.LanguagePackage{Cmd: "select 1"}) })
		done <- o
	}()
	tick := time.NewTicker(time.Millisecond)
	defer tick.Stop()
	watchdog := time.NewTimer(c10ConnWatchdog)
	defer watchdog.Stop()
	for {
		select {
		case o := <-done:
			if d := c10Allocs() - a0; o.pi == nil && d > c10Bound(res.Bytes) {
				res.Vio = append(res.Vio, rt.Violation{Sig: "alloc/post-send/packet-size", Detail: fmt.Sprintf(
					"after the server bytes (%d) were processed the negotiated packet size is %d; Channel.SendPackage of one 14-byte LANGUAGE package allocated %d bytes (bound 4 MiB + 64 x %d)", res.Bytes, ps, d, res.Bytes)})
			}
			switch {
			case o.pi != nil:
				classes["conn:post-send:panic"] = true
				res.Vio = append(res.Vio, rt.Violation{Sig: "panic/" + o.pi.Frame + "/post-send", Detail: fmt.Sprintf(
					"after the server bytes were processed (negotiated packet size now %d), Channel.SendPackage(LANGUAGE) panicked: %s\ninnermost go-dblib frame: %s\n%s",
					ps, o.pi.Value, o.pi.Frame, c10TrimStack(o.pi.Stack))})
			case o.err != nil:
				classes["conn:post-send:other-error"] = true
			default:
				classes["conn:post-send:ok"] = true
			}
			return
		case <-tick.C:
			if d := c10Allocs() - a0; d > c10RunawayBytes {
				fmt.Fprintf(os.Stderr, "C10-RUNAWAY packet_size=%d allocated=%d while sending one LANGUAGE package of 14 bytes\n%s\n", ps, d, c10DblibStacks())
				os.Exit(c10RunawayExit)
			}
		case <-watchdog.C:
			res.Incon = fmt.Sprintf("post-send probe did not finish within %s (packet size %d)", c10ConnWatchdog, ps)
			return
		}
	}
}

func c10DblibStacks() string {
	var sb strings.Builder
	for _, g := range rt.DblibGoroutines(rt.Goroutines()) {
		raw := g.Raw
		if len(raw) > 1500 {
			raw = raw[:1500]
		}
		sb.WriteString(raw)
		sb.WriteString("\n\n")
	}
	return sb.String()
}

// ------------------------------------------------------------ supervisor

type c10Child struct {
	cmd    *exec.Cmd
	stdin  *bufio.Writer
	closer func()
	lines  chan string
	stderr *bytes.Buffer
}

func c10StartChild(c *Ctx) (*c10Child, error) {
	exe, err := os.Executable()
	if err != nil {
		return nil, err
	}
	cmd := exec.Command(exe, "C10", "--leg", "conn-child", "--tier", c.Tier, "--seed", fmt.Sprint(c.Seed), "--workers", "1")
	in, err := cmd.StdinPipe()
	if err != nil {
		return nil, err
	}
	outp, err := cmd.StdoutPipe()
	if err != nil {
		return nil, err
	}
	ch := &c10Child{cmd: cmd, stdin: bufio.NewWriter(in), stderr: &bytes.Buffer{}, lines: make(chan string, 4)}
	ch.closer = func() { in.Close() }
	cmd.Stderr = ch.stderr
	if err := cmd.Start(); err != nil {
		return nil, err
	}
	go func() {
		rd := bufio.NewReaderSize(outp, 1<<20)
		for {
			l, err := rd.ReadString('\n')
			if len(l) > 1 {
				ch.lines <- l
			}
			if err != nil {
				close(ch.lines)
				return
			}
		}
	}()
	return ch, nil
}

var c10FatalRe = regexp.MustCompile(`(?m)^(panic: .*|fatal error: .*)$`)

// c10ConnStream is the concatenation of the bodies of a case's packets, if
// the chunks are a well-formed packet sequence.
func c10ConnBodies(cs *c10Case) []byte {
	var stream []byte
	for _, h := range cs.Chunks {
		b, _ := hex.DecodeString(h)
		stream = append(stream, b...)
	}
	// lenient: the packets up to the first header that does not fit
	hs, bodies, _ := xport.SplitPackets(stream)
	if len(hs) == 0 {
		return nil
	}
	var out []byte
	for i, h := range hs {
		if h.Channel == 0 {
			out = append(out, bodies[i]...)
		}
	}
	return out
}

// c10ConnLabel re-parses the packet bodies in process (recover) to name the
// token / data type a process-fatal event or over-allocation belongs to.
func c10ConnLabel(cs *c10Case, wantPanic bool) (label string, isField bool, found bool) {
	if cs.Leg != "conn" {
		return cs.Kind, false, false
	}
	body := c10ConnBodies(cs)
	if body == nil {
		return cs.Kind, false, false
	}
	label = cs.Kind
	c10ParseStream(body, !wantPanic, nil, false, func(at *c10Attempt) {
		if found {
			return
		}
		if wantPanic && at.Panic != nil {
			label, isField = c10Label(body, at, true)
			found = true
		}
		if !wantPanic && at.Alloc > c10Bound(at.Avail) {
			label, isField = c10Label(body, at, false)
			found = true
		}
	})
	return
}

func c10ConnAccount(r *rt.Result, cs *c10Case, res *c10ConnRes) {
	r.Eval(1)
	r.Count("inputs_conn", 1)
	r.Count("conn_packages_delivered", int64(res.Delivered))
	r.Count("conn_errors_surfaced", int64(res.Errors))
	r.Max("max_alloc_conn_case", int64(res.Alloc))
	for _, cl := range res.Classes {
		r.SetAdd("outcome_classes", cl)
	}
	r.SetAdd("families", "conn:"+cs.Kind)
	if cs.Kind != "pkt-valid" {
		r.DistinctN(1)
	}
	for _, v := range res.Vio {
		sig := v.Sig
		if sig == "alloc/conn" {
			if label, isField, found := c10ConnLabel(cs, false); found && isField {
				sig = "alloc/field/" + label + "-length"
			} else if found {
				sig = "alloc/" + label + "/declared-length"
			} else {
				sig = "alloc/conn/" + cs.Kind
			}
		}
		r.Violate(sig, "connection leg (bytes fed through the transport to a live Conn): "+v.Detail, cs)
	}
	if cs.Pos == 1 {
		r.Sample("conn-"+cs.Kind, map[string]interface{}{"case": cs, "outcome": res.Classes, "delivered": res.Delivered, "errors": res.Errors})
	}
}

// c10ConnSupervise runs connection cases in restartable child processes.
func c10ConnSupervise(c *Ctx, cases []*c10Case) {
	c10Supervise(c, cases, false, func(cs *c10Case, res *c10ConnRes) { c10ConnAccount(c.R, cs, res) })
}

// c10Supervise pipes cases to child processes and books their results with
// account; a dead child becomes a violation with the process-fatal signature
// and the next case starts in a new child. freshEach: one process per case.
func c10Supervise(c *Ctx, cases []*c10Case, freshEach bool, account func(*c10Case, *c10ConnRes)) {
	r := c.R
	i := 0
	retried := map[int]bool{}
	deaths := 0
	for i < len(cases) {
		child, err := c10StartChild(c)
		if err != nil {
			r.Inconclusive("conn leg: cannot start child: %v", err)
			return
		}
		r.Count("conn_child_processes", 1)
		alive := true
		for alive && i < len(cases) {
			cs := cases[i]
			msg, _ := json.Marshal(map[string]interface{}{"i": i, "case": cs})
			child.stdin.Write(msg)
			child.stdin.WriteByte('\n')
			werr := child.stdin.Flush()
			var line string
			ok := false
			timedOut := false
			if werr == nil {
				select {
				case line, ok = <-child.lines:
				case <-time.After(c10ChildWatchdog):
					timedOut = true
				}
			}
			if ok {
				var res c10ConnRes
				if err := json.Unmarshal([]byte(line), &res); err != nil || res.Idx != i {
					r.Inconclusive("conn leg: bad result line for case %d: %v", i, err)
					child.cmd.Process.Kill()
					alive = false
					i++
					break
				}
				if res.Incon != "" {
					if !retried[i] {
						// once more in a fresh process before giving up
						retried[i] = true
						child.closer()
						child.cmd.Process.Kill()
						alive = false
						break
					}
					r.Inconclusive("conn case %s/%s/%d: %s", cs.Kind, cs.Seed, cs.Pos, res.Incon)
					// the child abandoned that Conn; a goroutine may spin: use a fresh child
					child.closer()
					child.cmd.Process.Kill()
					alive = false
					i++
					break
				}
				account(cs, &res)
				i++
				if freshEach {
					alive = false
					break
				}
				continue
			}
			// no result: the child died or hangs
			alive = false
			if timedOut {
				child.cmd.Process.Kill()
				child.cmd.Wait()
				if !retried[i] {
					retried[i] = true
					break
				}
				r.Inconclusive("conn case %s/%s/%d: child process gave no result within %s", cs.Kind, cs.Seed, cs.Pos, c10ChildWatchdog)
				i++
				break
			}
			werr2 := child.cmd.Wait()
			deaths++
			r.Count("conn_child_deaths", 1)
			errtxt := child.stderr.String()
			// attribute to the last CASE line
			last := ""
			for _, l := range strings.Split(errtxt, "\n") {
				if strings.HasPrefix(l, "CASE ") {
					last = l[5:]
				}
			}
			want := fmt.Sprintf("conn %d ", i)
			if !strings.HasPrefix(last, want) {
				r.Inconclusive("conn leg: child died (%v) but its last CASE line %q is not case %d; stderr: %s", werr2, last, i, c10Tail(errtxt, 600))
				i++
				break
			}
			r.Eval(1)
			r.Count("inputs_"+cs.Leg, 1)
			r.DistinctN(1)
			r.SetAdd("families", cs.Leg+":"+cs.Kind)
			exit := -1
			if ee, ok := werr2.(*exec.ExitError); ok {
				exit = ee.ExitCode()
			}
			switch m := c10FatalRe.FindStringIndex(errtxt); {
			case exit == c10RunawayExit && strings.Contains(errtxt, "C10-RUNAWAY"):
				r.SetAdd("outcome_classes", "conn:post-send:runaway-allocation")
				idx := strings.Index(errtxt, "C10-RUNAWAY")
				r.Violate("alloc/post-send/runaway", "connection leg: after the server bytes were processed, sending one small package allocated without bound; the child process gave up:\n"+c10Tail(errtxt[idx:], 3000), cs)
			case m != nil:
				tail := errtxt[m[0]:]
				head := errtxt[m[0]:m[1]]
				kind := "panic"
				if strings.HasPrefix(head, "fatal error") {
					kind = "fatal"
				}
				frame := rt.InnermostFrame(tail)
				label, _, _ := c10ConnLabel(cs, true)
				r.SetAdd("outcome_classes", cs.Leg+":"+label+":process-"+kind)
				r.Violate("process-"+kind+"/"+frame+"/"+label,
					fmt.Sprintf("%s leg: the child process died while it processed case [%s] (conn: in the Conn reader goroutine): %s\ninnermost go-dblib frame: %s\nbytes fed: %s%s\n%s",
						cs.Leg, last, head, frame, strings.Join(cs.Chunks, " "), cs.Hex, c10Tail2(tail, 2500)), cs)
			default:
				r.Inconclusive("conn case %s/%s/%d: child exited (%v) without a panic/fatal error text; stderr: %s", cs.Kind, cs.Seed, cs.Pos, werr2, c10Tail(errtxt, 600))
			}
			i++
		}
		child.closer()
		done := make(chan struct{})
		go func() { child.cmd.Wait(); close(done) }()
		select {
		case <-done:
		case <-time.After(5 * time.Second):
			child.cmd.Process.Kill()
			<-done
		}
		if deaths > 5000 {
			r.Inconclusive("conn leg: more than 5000 child deaths in one batch, giving up at case %d of %d", i, len(cases))
			return
		}
	}
}

func c10Tail(s string, n int) string {
	if len(s) > n {
		return "…" + s[len(s)-n:]
	}
	return s
}

func c10Tail2(s string, n int) string {
	if len(s) > n {
		return s[:n] + "…"
	}
	return s
}

// ------------------------------------------------------------ conn cases

const (
	c10BufResponse = 4 // TDS_BUF_RESPONSE
)

func c10Hexes(chunks ...[]byte) []string {
	out := make([]string, 0, len(chunks))
	for _, c := range chunks {
		if len(c) > 0 {
			out = append(out, hex.EncodeToString(c))
		}
	}
	return out
}

func c10ConnCases(c *Ctx) []*c10Case {
	var out []*c10Case
	quick := c.Quick()
	add := func(kind, seed string, pos int, chunks ...[]byte) *c10Case {
		cs := &c10Case{Leg: "conn", Kind: kind, Seed: seed, Pos: pos, Chunks: c10Hexes(chunks...)}
		out = append(out, cs)
		return cs
	}
	pkt := func(body []byte) []byte { return xport.Packet(c10BufResponse, xport.EOM, 0, body) }
	seeds := c10Seeds()
	base := c10BaseSeeds()
	doneBody := c10SeedByName(base, "DONE").Bytes

	// 1. every valid encoding in one EOM packet
	for _, sd := range seeds {
		add("pkt-valid", sd.Name, 0, pkt(sd.Bytes))
	}
	// 2. the direct leg's byte strings, wrapped: every k-th case of the
	// position-enumerating families over the package seeds, the type
	// families (length sweeps!) and the random families
	stride := 1
	var groups []c10Group
	for _, sd := range base {
		gs := c10MutGroups(c, sd, false)
		for _, g := range gs {
			if strings.Contains(g.Name, "/havoc/") {
				continue
			}
			groups = append(groups, g)
		}
	}
	pats := []string{"ramp"}
	nRand := 4
	tailStride := 16
	if !quick {
		pats = []string{"zeros", "ff", "ramp", "random"}
		nRand = 64
		tailStride = 40
	}
	typeGroups := c10TypeGroups(c, "conn", pats, nRand)
	if quick {
		stride = 6
	}
	n := 0
	emitWrapped := func(stride int) func(cs *c10Case, orig []byte) {
		return func(cs *c10Case, orig []byte) {
			n++
			if n%stride != 0 || cs.Kind == "valid" {
				return
			}
			b := cs.bytes()
			c10Cap(b, false, nil, "")
			add("pkt-"+cs.Kind, cs.Seed, cs.Pos, pkt(b))
		}
	}
	for _, g := range groups {
		if strings.HasSuffix(g.Name, "/byte") {
			g.Gen(emitWrapped(1)) // every position x {0,1,0x7f,0x80,0xff}, also in quick
		} else {
			g.Gen(emitWrapped(stride))
		}
	}
	for _, g := range typeGroups {
		switch {
		case strings.HasSuffix(g.Name, "/lensweep"):
			// quick: two of the four format kinds
			if quick && !(strings.HasPrefix(g.Name, "PARAMFMT:") || strings.HasPrefix(g.Name, "ROWFMT2:")) {
				continue
			}
			g.Gen(emitWrapped(1))
		case strings.HasSuffix(g.Name, "/datastatus"):
			if quick {
				g.Gen(emitWrapped(16))
			} else {
				g.Gen(emitWrapped(2))
			}
		default:
			g.Gen(emitWrapped(1))
		}
	}
	for _, g := range c10OtherGroups(c) {
		if strings.HasPrefix(g.Name, "token-") {
			g.Gen(emitWrapped(tailStride))
		} else if !quick || strings.HasPrefix(g.Name, "multicol/0") {
			g.Gen(emitWrapped(tailStride / 2))
		}
	}
	// 3. a package split over two packets at every offset; header and body
	// arriving in separate reads
	for _, sd := range base {
		b := sd.Bytes
		for cut := 1; cut < len(b); cut++ {
			if quick && cut%3 != 1 {
				continue
			}
			p1 := xport.Packet(c10BufResponse, 0, 0, b[:cut])
			p2 := pkt(b[cut:])
			add("split", sd.Name, cut, p1, p2)
		}
		whole := pkt(b)
		for _, cut := range []int{1, 4, 7, 8, 9} {
			if cut < len(whole) {
				add("chunked", sd.Name, cut, whole[:cut], whole[cut:])
			}
		}
		// header-only packet in the middle of a package
		if len(b) > 3 {
			add("split-empty", sd.Name, 0, xport.Packet(c10BufResponse, 0, 0, b[:2]), xport.Packet(c10BufResponse, 0, 0, nil), pkt(b[2:]))
		}
	}
	// 4. raw header values
	donePkt := pkt(doneBody)
	hdr := func(typ, status byte, length, channel uint16, nr, win byte) []byte {
		return xport.Header{Type: typ, Status: status, Length: length, Channel: channel, PacketNr: nr, Win: win}.Bytes()
	}
	for l := 0; l < 8; l++ {
		for _, st := range []byte{0, 1} {
			h := hdr(c10BufResponse, st, uint16(l), 0, 0, 0)
			add("hdr-short-length", "", l*10+int(st)*100+0, h)
			add("hdr-short-length", "", l*10+int(st)*100+1, h, []byte{0xFD, 0, 0, 0})
			add("hdr-short-length", "", l*10+int(st)*100+2, h, donePkt)
			add("hdr-short-length", "", l*10+int(st)*100+3, donePkt, h, donePkt, donePkt)
		}
	}
	for v := 0; v < 256; v++ {
		add("hdr-only-type", "", v, hdr(byte(v), 1, 8, 0, 0, 0))
		add("hdr-only-status", "", v, hdr(c10BufResponse, byte(v), 8, 0, 0, 0))
		add("hdr-type", "", v, append(hdr(byte(v), 1, uint16(8+len(doneBody)), 0, 0, 0), doneBody...))
		add("hdr-status", "", v, append(hdr(c10BufResponse, byte(v), uint16(8+len(doneBody)), 0, 0, 0), doneBody...), donePkt)
		add("hdr-nr-window", "", v, append(hdr(c10BufResponse, 1, uint16(8+len(doneBody)), 0, byte(v), byte(255-v)), doneBody...))
	}
	for i, chn := range []uint16{1, 2, 255, 256, 0x7fff, 0x8000, 0xffff} {
		add("hdr-unknown-channel", "", i*3+0, xport.Packet(c10BufResponse, 1, chn, doneBody))
		add("hdr-unknown-channel", "", i*3+1, xport.Packet(c10BufResponse, 1, chn, nil), donePkt)
		// more errors than the connection's error channel holds
		many := [][]byte{}
		for k := 0; k < 25; k++ {
			many = append(many, xport.Packet(c10BufResponse, 1, chn, doneBody))
		}
		add("hdr-unknown-channel", "", i*3+2, append(many, donePkt)...)
	}
	// declared packet length beyond what arrives / beyond the negotiated size
	for i, l := range []uint16{9, 17, 18, 512, 513, 4096, 0xffff} {
		add("hdr-long-length", "", i*2, append(hdr(c10BufResponse, 1, l, 0, 0, 0), doneBody...))
		big := make([]byte, int(l)-8)
		for k := 0; k+len(doneBody) <= len(big); k += len(doneBody) {
			copy(big[k:], doneBody)
		}
		add("hdr-long-length", "", i*2+1, append(hdr(c10BufResponse, 1, l, 0, 0, 0), big...))
	}
	// 5. pressure on the package and error queues inside one packet
	var manyDone, manyBadEnv []byte
	for k := 0; k < 3000; k++ {
		manyDone = append(manyDone, doneBody...)
	}
	badEnv := c10SeedByName(base, "ENVCHANGE-badsize").Bytes
	for k := 0; k < 40; k++ {
		manyBadEnv = append(manyBadEnv, badEnv...)
	}
	add("pressure-packages", "DONE", 0, pkt(manyDone))
	add("pressure-errors", "ENVCHANGE-badsize", 0, pkt(manyBadEnv))
	// 6. random streams (headers included)
	nRaw := 300
	if !quick {
		nRaw = 20000
	}
	rnd := rt.NewRand(c.Seed, "c10/conn/raw")
	for k := 0; k < nRaw; k++ {
		b := rnd.Bytes(rnd.Range(1, 64))
		if k%2 == 0 && len(b) >= 8 {
			// plausible length field, random rest
			b[2], b[3] = 0, byte(8+rnd.Intn(len(b)-7))
			b[4], b[5] = 0, 0
		}
		if len(b) > 8 {
			// whatever the header says, a body that parses as a package
			// with a 32-bit length stays below the cap
			c10Cap(b[8:], false, nil, "")
		}
		add("raw-random", "", k, b)
	}
	// 7. the client's next request after an environment change
	for k, v := range []string{"512", "2048", "9", "8", "7", "1", "0", "-1", "-2147483648", "65535", "65536", "1073742336", "99999999999999999999", "", "0x10", " 512"} {
		env := c10Len16(byte(tds.TDS_ENVCHANGE), (&c10bb{}).u8(byte(tds.TDS_ENV_PACKSIZE)).s8(v).s8("512").b)
		cs := add("post-send", "ENVCHANGE-packsize", k, pkt(append(env, doneBody...)))
		cs.PostSend = true
	}
	return out
}

func runC10Conn(c *Ctx) {
	all := c10ConnCases(c)
	var mine []*c10Case
	for i, cs := range all {
		if i%c.Batches == c.Batch {
			mine = append(mine, cs)
		}
	}
	c.R.Count("conn_cases_total", int64(len(mine)))
	c10ConnSupervise(c, mine)
}
