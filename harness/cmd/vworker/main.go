// vworker runs the checks of one property against the go-dblib sources the
// harness module points at (replace => /repo). It writes what it observed
// to --out as JSON; the orchestrator (run.py) classifies violations against
// known_findings.json, writes replays and the evidence file.
package main

import (
	"encoding/json"
	"flag"
	"fmt"
	"os"
	"runtime"
	"sort"
	"sync"
	"time"

	"verif/harness/rt"
)

// Ctx is what a check gets.
type Ctx struct {
	R       *rt.Result
	Tier    string
	Seed    int64
	Batch   int // this process handles cases with index%Batches == Batch where a check is split
	Batches int
	Leg     string // optional sub-selection of a check ("" = all legs)
	Workers int
	// Replay is the raw case of a replay file, nil in normal runs.
	Replay json.RawMessage
}

// Quick reports whether the quick-size workload is wanted. A leg can ask
// for the quick-size workload inside the thorough tier (e.g. the -race leg)
// with VERIF_SMALL=1.
func (c *Ctx) Quick() bool { return c.Tier != "thorough" || os.Getenv("VERIF_SMALL") != "" }

type check struct {
	run func(*Ctx)
}

var checks = map[string]check{}

func register(id string, f func(*Ctx)) { checks[id] = check{run: f} }

// parallel runs f(i) for i in [0,n) on c.Workers goroutines.
func (c *Ctx) parallel(n int, f func(i int)) {
	w := c.Workers
	if w > n {
		w = n
	}
	if w <= 1 {
		for i := 0; i < n; i++ {
			f(i)
		}
		return
	}
	var wg sync.WaitGroup
	ch := make(chan int, 256)
	for k := 0; k < w; k++ {
		wg.Add(1)
		go func() {
			defer wg.Done()
			for i := range ch {
				f(i)
			}
		}()
	}
	for i := 0; i < n; i++ {
		ch <- i
	}
	close(ch)
	wg.Wait()
}

func main() {
	if len(os.Args) < 2 {
		ids := []string{}
		for id := range checks {
			ids = append(ids, id)
		}
		sort.Strings(ids)
		fmt.Fprintf(os.Stderr, "usage: vworker <id> [--tier quick|thorough] [--seed n] [--out file] [--batch i/n] [--leg name] [--replay file]\nchecks: %v\n", ids)
		os.Exit(2)
	}
	id := os.Args[1]
	fs := flag.NewFlagSet("vworker", flag.ExitOnError)
	tier := fs.String("tier", "quick", "")
	seed := fs.Int64("seed", 1, "")
	out := fs.String("out", "", "")
	batch := fs.String("batch", "0/1", "")
	leg := fs.String("leg", "", "")
	replay := fs.String("replay", "", "")
	workers := fs.Int("workers", runtime.NumCPU(), "")
	fs.Parse(os.Args[2:])

	ck, ok := checks[id]
	if !ok {
		fmt.Fprintf(os.Stderr, "unknown check %q\n", id)
		os.Exit(2)
	}
	c := &Ctx{Tier: *tier, Seed: *seed, Leg: *leg, Workers: *workers, Batches: 1}
	fmt.Sscanf(*batch, "%d/%d", &c.Batch, &c.Batches)
	if c.Batches < 1 {
		c.Batches = 1
	}
	c.R = rt.NewResult(id, *tier, *seed)
	if *replay != "" {
		b, err := os.ReadFile(*replay)
		if err != nil {
			fmt.Fprintln(os.Stderr, err)
			os.Exit(2)
		}
		var rf struct {
			Leg  string          `json:"leg"`
			Case json.RawMessage `json:"case"`
		}
		if err := json.Unmarshal(b, &rf); err != nil {
			fmt.Fprintln(os.Stderr, err)
			os.Exit(2)
		}
		c.Replay = rf.Case
		if rf.Leg != "" {
			c.Leg = rf.Leg
		}
	}
	t0 := time.Now()
	// replay of a real-socket leg case: re-run that leg
	if c.Replay != nil {
		var probe struct {
			Leg  string `json:"leg"`
			What string `json:"what"`
		}
		if json.Unmarshal(c.Replay, &probe) == nil && probe.What != "" && probe.Leg == id {
			if f, ok := map[string]func(*Ctx){"C01": runSockLegC01, "C02": runSockLegC02, "C13": runSockLegC13, "C14": runSockLegC14}[id]; ok {
				c.Replay = nil
				ck = check{run: f}
			}
		}
	}
	c.R.CheckpointPath = *out
	ck.run(c)
	c.R.Count("worker_wall_ms", time.Since(t0).Milliseconds())
	if *out != "" {
		if err := c.R.Write(*out); err != nil {
			fmt.Fprintln(os.Stderr, "write result:", err)
			os.Exit(2)
		}
	}
	n := c.R.NumViolations()
	fmt.Fprintf(os.Stderr, "vworker %s: violations=%d wall=%s\n", id, n, time.Since(t0).Round(time.Millisecond))
	if *replay != "" && n > 0 {
		os.Exit(1)
	}
}
