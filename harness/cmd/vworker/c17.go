package main

import (
	"encoding/json"
	"fmt"
	"net/url"
	"os"
	"os/exec"
	"reflect"
	"sort"
	"strconv"
	"strings"
	"unicode/utf8"

	"github.com/SAP/go-dblib/dsn"
	"github.com/SAP/go-dblib/tds"

	"verif/harness/rt"
)

// C17 — connection descriptions round-trip and never crash the parser.
//
// Events: results (value / error / panic) of dsn.FormatURI+ParseURI,
// dsn.FormatSimple+ParseSimple, dsn.Parse and dsn.FromEnv.
// Oracle:
//   roundtrip  ParseURI(FormatURI(x)) == x for any Unicode text in user,
//              password, database and additional properties (host/port kept
//              to host-name / digit text; anything else there is counted, not
//              judged); ParseSimple(FormatSimple(x)) == x for text over
//              strconv.IsPrint characters minus quotes and backslash, spaces
//              anywhere (other text is run and counted, not judged)
//   override   simple form: a later key or alias overrides an earlier one;
//              URI form: the last value of a repeated query key wins
//   unknown    a key that matches no field (json tag or multiref alias of
//              the target) => error, in both forms
//   totality   no input string makes Parse / ParseSimple / ParseURI / FromEnv
//              panic: exhaustive over a 13 symbol alphabet for short strings,
//              seeded random beyond
// The expected values come from a reflection walker over the struct tags that
// is written here and shares no code with dsn.TagToField.

func init() { register("C17", runC17) }

// ---------------------------------------------------------------- targets

// C17Inner is embedded into the harness target (embedded struct with
// string/int/bool members and aliases).
type C17Inner struct {
	Note  string `json:"note" multiref:"n,remark"`
	Depth int    `json:"depth" multiref:"d"`
	Deep  bool   `json:"deep" multiref:"dp"`
}

// C17Sub is a named (non-embedded) struct member; the dsn package flattens
// every struct-kind member.
type C17Sub struct {
	Tag   string `json:"tag,omitempty" multiref:"t"`
	Level int    `json:"level" multiref:"lvl"`
}

// c17lower is an embedded struct whose TYPE is unexported: the embedded
// field itself is unexported, its exported members are promoted and
// settable like any other.
type c17lower struct {
	Extra string `json:"extra" multiref:"ex"`
	Cnt   int    `json:"cnt"`
}

// C17Harness is the harness-defined target: dsn.Info (supplies the
// hostname/port/username/password keys ParseURI is documented to require)
// plus string, bool and int members with 1-letter keys "a" and "b".
type C17Harness struct {
	dsn.Info
	C17Inner
	A     string `json:"a" multiref:"x,alpha"`
	B     int    `json:"b" multiref:"y"`
	Flag  bool   `json:"flag" multiref:"f,on"`
	App   string `json:"app-name" multiref:"app"`
	Plain string `json:"plain"` // no aliases
	Sub   C17Sub
	NoTag string
	c17lower
	// tag names with upper-case letters (names are matched as written)
	Prop1 string `json:"connectProp1" multiref:"CP1"`
	Fetch int    `json:"fetchSize"`
}

type c17Field struct {
	Key   string
	Names []string // Key first, then the multiref aliases
	Kind  reflect.Kind
	Index []int
	Role  string // URI role: host, port, user, password, database, property
}

type c17Target struct {
	name   string
	typ    reflect.Type
	schema []c17Field // sorted by Key
	byName map[string]int
}

func c17Walk(t reflect.Type, base []int, out *[]c17Field) {
	for i := 0; i < t.NumField(); i++ {
		f := t.Field(i)
		idx := append(append([]int(nil), base...), i)
		if f.Type.Kind() == reflect.Struct {
			c17Walk(f.Type, idx, out)
			continue
		}
		tag := strings.Split(f.Tag.Get("json"), ",")[0]
		if tag == "" {
			continue
		}
		names := []string{tag}
		for _, m := range strings.Split(f.Tag.Get("multiref"), ",") {
			if m != "" {
				names = append(names, m)
			}
		}
		role := "property"
		switch tag {
		case "host", "hostname":
			role = "host"
		case "port":
			role = "port"
		case "user", "username":
			role = "user"
		case "password", "pass", "passwd":
			role = "password"
		case "database", "db":
			role = "database"
		}
		*out = append(*out, c17Field{Key: tag, Names: names, Kind: f.Type.Kind(), Index: idx, Role: role})
	}
}

func c17MkTarget(name string, v interface{}) *c17Target {
	t := &c17Target{name: name, typ: reflect.TypeOf(v), byName: map[string]int{}}
	c17Walk(t.typ, nil, &t.schema)
	sort.Slice(t.schema, func(i, j int) bool { return t.schema[i].Key < t.schema[j].Key })
	for i, f := range t.schema {
		for _, n := range f.Names {
			t.byName[n] = i
		}
	}
	return t
}

var c17Targets = map[string]*c17Target{
	"dsn.Info": c17MkTarget("dsn.Info", dsn.Info{}),
	"tds.Info": c17MkTarget("tds.Info", tds.Info{}),
	"harness":  c17MkTarget("harness", C17Harness{}),
}
var c17TargetNames = []string{"dsn.Info", "tds.Info", "harness"}

func (t *c17Target) fresh() reflect.Value { return reflect.New(t.typ) }

func c17Zero(k reflect.Kind) string {
	switch k {
	case reflect.Int:
		return "0"
	case reflect.Bool:
		return "false"
	}
	return ""
}

// build makes *T from key -> text (ints decimal, bools true/false).
func (t *c17Target) build(fields map[string]string) reflect.Value {
	p := t.fresh()
	for _, f := range t.schema {
		v, ok := fields[f.Key]
		if !ok {
			continue
		}
		fv := p.Elem().FieldByIndex(f.Index)
		switch f.Kind {
		case reflect.String:
			fv.SetString(v)
		case reflect.Int:
			n, _ := strconv.ParseInt(v, 10, 64)
			fv.SetInt(n)
		case reflect.Bool:
			fv.SetBool(v == "true")
		}
	}
	return p
}

// read returns key -> text of every tagged member.
func (t *c17Target) read(p reflect.Value) map[string]string {
	m := map[string]string{}
	for _, f := range t.schema {
		fv := p.Elem().FieldByIndex(f.Index)
		switch f.Kind {
		case reflect.String:
			m[f.Key] = fv.String()
		case reflect.Int:
			m[f.Key] = strconv.FormatInt(fv.Int(), 10)
		case reflect.Bool:
			m[f.Key] = strconv.FormatBool(fv.Bool())
		}
	}
	return m
}

// full completes fields with zero values.
func (t *c17Target) full(fields map[string]string) map[string]string {
	m := map[string]string{}
	for _, f := range t.schema {
		if v, ok := fields[f.Key]; ok {
			m[f.Key] = v
		} else {
			m[f.Key] = c17Zero(f.Kind)
		}
	}
	return m
}

func c17Diff(t *c17Target, got, want map[string]string) []string {
	var bad []string
	for _, f := range t.schema {
		if got[f.Key] != want[f.Key] {
			bad = append(bad, f.Key)
		}
	}
	return bad
}

func c17DiffText(bad []string, got, want map[string]string) string {
	var b strings.Builder
	for i, k := range bad {
		if i == 4 {
			fmt.Fprintf(&b, " … (%d fields differ)", len(bad))
			break
		}
		fmt.Fprintf(&b, " [%s: got %q want %q]", k, got[k], want[k])
	}
	return b.String()
}

// ---------------------------------------------------------------- case

type c17Tok struct {
	Key string `json:"k"`
	Val string `json:"v"`
	Q   string `json:"q,omitempty"` // "d" = value in double quotes, "" = bare
}

type c17Case struct {
	Kind   string            `json:"kind"` // rt-uri rt-simple ov-simple ov-uri unk-simple unk-uri total env env-malformed
	Target string            `json:"target"`
	Fields map[string]string `json:"fields,omitempty"`
	Tokens []c17Tok          `json:"tokens,omitempty"`
	Pos    int               `json:"pos,omitempty"`  // unk-simple: index of the unknown token
	QPos   int               `json:"qpos,omitempty"` // unk-uri: where the unknown pair is inserted into the query
	Fn     string            `json:"fn,omitempty"`
	// InputQ / NameQ are strconv.QuoteToASCII forms (inputs may hold bytes
	// that JSON cannot carry).
	InputQ string `json:"input_q,omitempty"`
	NameQ  string `json:"name_q,omitempty"`
	Judged bool   `json:"judged"`
	Note   string `json:"note,omitempty"`
}

// c17Local aggregates counters of one work item to keep the shared Result
// out of the hot path.
type c17Local struct {
	eval int64
	cnt  map[string]int64
	// known: value classes already minimised in this work item, per
	// form/failure kind (see c17ExecRT)
	known map[string][]c17Known
}

type c17Known struct {
	class, role, vclass string
	cs                  c17Case // the minimised case
	culprit, detail     string
}

func newC17Local() *c17Local {
	return &c17Local{cnt: map[string]int64{}, known: map[string][]c17Known{}}
}

func (l *c17Local) flush(r *rt.Result) {
	r.Eval(l.eval)
	for k, n := range l.cnt {
		r.Count(k, n)
		r.SetAdd("outcome_classes", k)
	}
}

// ---------------------------------------------------------------- text

func c17SimpleJudged(s string) bool {
	if !utf8.ValidString(s) {
		return false
	}
	for _, r := range s {
		if r == '"' || r == '\'' || r == '\\' || !strconv.IsPrint(r) {
			return false
		}
	}
	return true
}

func c17NonTrivial(s string) bool {
	for i := 0; i < len(s); i++ {
		if s[i] == ' ' || s[i] == '=' || s[i] >= 0x80 {
			return true
		}
	}
	return false
}

func c17AllSpaces(s string) bool { return strings.Trim(s, " ") == "" }

const c17Letters = "abcdefghijklmnopqrstuvwxyzABCDEFGHIJKLMNOPQRSTUVWXYZ0123456789"

func c17Word(rnd *rt.Rand, lo, hi int) string {
	n := rnd.Range(lo, hi)
	b := make([]byte, n)
	for i := range b {
		b[i] = c17Letters[rnd.Intn(len(c17Letters))]
	}
	return string(b)
}

// pieces allowed in both forms
var c17PiecesSafe = []string{
	" ", " ", " ", "  ", "   ", "=", "=", "==", "://", "KEY", "KEY", "key", "%", "%20", "%zz", "%41", "%", "&", "&", "#", "@", "/", "?", ":", "+", ";",
	",", ".", "-", "_", "~", "!", "$", "(", ")", "*", "[", "]", "{", "}", "|", "<", ">", "^", "`",
	"a=b", "k=v&x=y", "?q=1", "user:pw@h", "http://h/p?q#f",
	"\u00e9", "\u00df", "\u0416", "\u4e2d", "\u65e5\u672c\u8a9e", "\u0639", "\u05d0", "\u0e01", "\ud55c", "\u20ac", "\u2192", "\u2211", "e\u0301", "\ufffd",
	"\U0001f600", "\U0001d518", "\U00020000", "\U0001f1e9\U0001f1ea",
}

// pieces outside the simple form's judged alphabet
var c17PiecesWild = []string{
	`"`, `'`, `\`, `="`, `='`, `\"`, "\t", "\n", "\r", "\x00", "\x1f", "\x7f", "\u0085", "\u00a0", "\u00ad", "\u200b", "\u2028", "\ufeff", "\ue000",
	"\U0001f469\u200d\U0001f4bb", "\U000e0001", "\U0010ffff", "\U0003ffff",
}

func c17Rune(rnd *rt.Rand, safe bool) rune {
	for {
		var r rune
		switch rnd.Intn(9) {
		case 0, 1:
			r = rune(rnd.Range(0x20, 0x7e))
		case 2:
			r = rune(rnd.Range(0xa0, 0x24f))
		case 3, 4:
			r = rune(rnd.Range(0x250, 0xffff))
		case 5:
			r = rune(rnd.Range(0x10000, 0x1ffff))
		case 6:
			r = rune(rnd.Range(0x20000, 0x2ffff))
		case 7:
			if safe {
				r = rune(rnd.Range(0x1f300, 0x1f64f))
			} else {
				r = rune(rnd.Range(0x30000, 0x10ffff))
			}
		default:
			if safe {
				r = rune(rnd.Range(0x4e00, 0x9fff))
			} else {
				r = rune(rnd.Intn(0x20))
			}
		}
		if r >= 0xd800 && r <= 0xdfff {
			continue
		}
		if safe && (r == '"' || r == '\'' || r == '\\' || !strconv.IsPrint(r)) {
			continue
		}
		return r
	}
}

// c17Text draws a text value. safe = only characters of the simple form's
// judged alphabet. Always valid UTF-8.
func c17Text(rnd *rt.Rand, safe bool) string {
	piece := func() string {
		for {
			var p string
			switch k := rnd.Intn(10); {
			case k < 3:
				p = c17Word(rnd, 1, 5)
			case k < 8:
				if !safe && rnd.Chance(1, 3) {
					p = c17PiecesWild[rnd.Intn(len(c17PiecesWild))]
				} else {
					p = c17PiecesSafe[rnd.Intn(len(c17PiecesSafe))]
				}
			default:
				p = string(c17Rune(rnd, safe))
			}
			if safe && !c17SimpleJudged(p) {
				continue
			}
			return p
		}
	}
	sp := func() string { return strings.Repeat(" ", rnd.Range(1, 3)) }
	switch k := rnd.Intn(16); {
	case k == 0:
		return sp() // only spaces
	case k == 1:
		return sp() + c17Word(rnd, 1, 4)
	case k == 2:
		return c17Word(rnd, 1, 4) + sp()
	case k == 3:
		return sp() + c17Word(rnd, 1, 3) + sp() + c17Word(rnd, 1, 3) + sp()
	case k == 4:
		return c17Word(rnd, 1, 4) + sp() + c17Word(rnd, 1, 4)
	case k == 5:
		return piece()
	case k < 8:
		n := rnd.Range(1, 8)
		rs := make([]rune, n)
		for i := range rs {
			rs[i] = c17Rune(rnd, safe)
		}
		return string(rs)
	default:
		var b strings.Builder
		if rnd.Chance(1, 6) {
			b.WriteString(sp())
		}
		for n := rnd.Range(1, 5); n > 0; n-- {
			b.WriteString(piece())
		}
		if rnd.Chance(1, 6) {
			b.WriteString(sp())
		}
		return b.String()
	}
}

var c17Ints = []string{"0", "1", "-1", "7", "-42", "5000", "65536", "-2147483649", "4294967296", "9223372036854775807", "-9223372036854775808"}

func c17Int(rnd *rt.Rand) string {
	if rnd.Chance(1, 3) {
		return strconv.FormatInt(int64(rnd.Uint64()), 10)
	}
	return c17Ints[rnd.Intn(len(c17Ints))]
}

func c17Host(rnd *rt.Rand) string {
	if rnd.Chance(1, 8) {
		return ""
	}
	const hc = "abcdefghijklmnopqrstuvwxyzABCDEFGHIJKLMNOPQRSTUVWXYZ0123456789"
	var b strings.Builder
	for l := rnd.Range(1, 3); l > 0; l-- {
		for n := rnd.Range(1, 5); n > 0; n-- {
			b.WriteByte(hc[rnd.Intn(len(hc))])
		}
		if l > 1 {
			b.WriteByte(".-"[rnd.Intn(2)])
		}
	}
	return b.String()
}

func c17Port(rnd *rt.Rand) string {
	if rnd.Chance(1, 6) {
		return ""
	}
	return strconv.Itoa(rnd.Intn(100000))
}

// c17GenFields draws a struct value. form "uri": host/port from the host
// alphabet unless wild; everything else any Unicode text. form "simple":
// safe selects the judged alphabet for every string.
func c17GenFields(rnd *rt.Rand, t *c17Target, form string, safe, wildHost bool) map[string]string {
	m := map[string]string{}
	for _, f := range t.schema {
		switch f.Kind {
		case reflect.Int:
			if rnd.Chance(2, 3) {
				m[f.Key] = c17Int(rnd)
			}
		case reflect.Bool:
			if rnd.Bool() {
				m[f.Key] = "true"
			}
		case reflect.String:
			if form == "uri" && (f.Role == "host" || f.Role == "port") {
				var v string
				switch {
				case wildHost && rnd.Chance(1, 4):
					v = []string{"tls", "::1", "[::1]", "ssl"}[rnd.Intn(4)]
				case wildHost:
					v = c17Text(rnd, false)
				case f.Role == "host":
					v = c17Host(rnd)
				default:
					v = c17Port(rnd)
				}
				if v != "" {
					m[f.Key] = v
				}
				continue
			}
			switch k := rnd.Intn(8); {
			case k < 2:
				// empty
			case k < 4:
				m[f.Key] = c17Word(rnd, 1, 8)
			default:
				m[f.Key] = c17Text(rnd, safe)
			}
		}
	}
	return m
}

// ---------------------------------------------------------------- classes

var c17Meta = []struct{ s, name string }{
	{"%", "contains-percent"}, {"+", "contains-plus"},
	{"&", "contains-uri-delimiter"}, {"#", "contains-uri-delimiter"}, {"@", "contains-uri-delimiter"}, {"/", "contains-uri-delimiter"},
	{"?", "contains-uri-delimiter"}, {":", "contains-uri-delimiter"}, {";", "contains-uri-delimiter"},
}

// c17ValueClass names the coarse class of a (minimised) text value.
func c17ValueClass(v string) string {
	switch {
	case v == "":
		return "empty"
	case c17AllSpaces(v):
		return "only-spaces"
	case strings.HasPrefix(v, " "):
		return "leading-space"
	case strings.HasSuffix(v, " "):
		return "trailing-space"
	case strings.Contains(v, "KEY"):
		return "contains-KEY"
	case strings.Contains(v, "://"):
		return "contains-scheme-separator"
	case strings.Contains(v, "  "):
		return "multiple-spaces"
	case strings.Contains(v, " "):
		return "inner-space"
	case strings.Contains(v, "="):
		return "contains-equals"
	}
	for _, m := range c17Meta {
		if strings.Contains(v, m.s) {
			return m.name
		}
	}
	if strings.ContainsAny(v, `"'`) {
		return "contains-quote"
	}
	if strings.Contains(v, `\`) {
		return "contains-backslash"
	}
	if !utf8.ValidString(v) {
		return "invalid-utf8"
	}
	nonASCII := false
	for _, r := range v {
		if r < 0x20 || r == 0x7f {
			return "control-char"
		}
		if !strconv.IsPrint(r) {
			return "non-printable"
		}
		if r >= 0x80 {
			nonASCII = true
		}
	}
	if nonASCII {
		return "non-ascii"
	}
	for i := 0; i < len(v); i++ {
		if strings.IndexByte(c17Letters, v[i]) < 0 {
			return "ascii-punctuation"
		}
	}
	return "plain"
}

// c17HasFeature tells whether a text value shows the trait a value class is
// named after (a value can show several).
func c17HasFeature(v, vclass string) bool {
	switch vclass {
	case "only-spaces":
		return v != "" && c17AllSpaces(v)
	case "leading-space":
		return strings.HasPrefix(v, " ")
	case "trailing-space":
		return strings.HasSuffix(v, " ")
	case "contains-KEY":
		return strings.Contains(v, "KEY")
	case "contains-scheme-separator":
		return strings.Contains(v, "://")
	case "multiple-spaces":
		return strings.Contains(v, "  ")
	case "inner-space":
		return strings.Contains(v, " ")
	case "contains-equals":
		return strings.Contains(v, "=")
	case "contains-percent":
		return strings.Contains(v, "%")
	case "contains-plus":
		return strings.Contains(v, "+")
	case "contains-uri-delimiter":
		return strings.ContainsAny(v, "&#@/?:;")
	case "contains-quote":
		return strings.ContainsAny(v, `"'`)
	case "contains-backslash":
		return strings.Contains(v, `\`)
	case "non-ascii", "non-printable":
		for i := 0; i < len(v); i++ {
			if v[i] >= 0x80 {
				return true
			}
		}
		return false
	case "empty", "plain", "zero-value":
		return false
	}
	return c17ValueClass(v) == vclass
}

func c17IntClass(v string) string {
	switch {
	case v == "0":
		return "zero"
	case strings.HasPrefix(v, "-"):
		return "negative"
	}
	return "positive"
}

// c17Shape is the coarse input shape of a string handed to a parse function
// (used only to name panics).
func c17Shape(fn, s string) string {
	if fn == "ParseURI" || (fn == "Parse" && strings.Contains(s, "://")) {
		switch {
		case !utf8.ValidString(s):
			return "uri-invalid-utf8"
		case strings.Contains(s, "%"):
			return "uri-with-percent"
		case strings.Contains(s, "://"):
			return "uri-with-scheme"
		case strings.Contains(s, "?"):
			return "uri-with-query"
		}
		return "uri-other"
	}
	// Walk the input as space separated key=value pairs, a value that opens
	// with a quote reaching to the next quote of the same kind, and name the
	// first pair that is not of that form.
	pos := 0
	for pos < len(s) {
		if s[pos] == ' ' {
			pos++
			continue
		}
		end := strings.IndexByte(s[pos:], ' ')
		if end < 0 {
			end = len(s)
		} else {
			end += pos
		}
		eq := strings.IndexByte(s[pos:end], '=')
		if eq < 0 { // a word without '='
			pos = end
			continue
		}
		vs := pos + eq + 1 // value start
		if vs >= len(s) || (s[vs] != '"' && s[vs] != '\'') {
			if v := s[vs:end]; strings.Contains(v, `="`) || strings.Contains(v, `='`) {
				return "quote-opening-inside-unquoted-value"
			}
			pos = end
			continue
		}
		q := s[vs]
		rest := s[vs+1:]
		j := strings.IndexByte(rest, q)
		switch {
		case j < 0 && rest == "":
			return "lone-quote"
		case j < 0:
			return "unterminated-quote"
		}
		content, after := rest[:j], rest[j+1:]
		switch {
		case q == '\'' && content == `"`:
			return "single-quoted-double-quote"
		case content == "" && q == '\'' && (after == "" || after[0] == ' '):
			return "empty-single-quoted-value"
		case content != "" && c17AllSpaces(content):
			return "value-only-spaces"
		case strings.HasPrefix(content, " "):
			return "value-starts-with-space"
		case strings.Contains(content, `="`) || strings.Contains(content, `='`):
			return "quote-opening-inside-quoted-value"
		case after != "" && after[0] != ' ':
			return "text-after-closing-quote"
		}
		pos = vs + 1 + j + 1
	}
	switch {
	case s == "":
		return "empty-input"
	case strings.ContainsAny(s, `"'`):
		return "other-with-quote"
	case !strings.Contains(s, "="):
		return "no-equals"
	}
	return "other"
}

func c17ErrClass(err error) string {
	if err == nil {
		return "ok"
	}
	m := err.Error()
	switch {
	case strings.HasPrefix(m, "dsn: error parsing DSN using url.Parse"):
		return "err-url-parse"
	case strings.HasPrefix(m, "dsn: query value"):
		return "err-unknown-query-key"
	case strings.HasPrefix(m, "dsn: error setting field"):
		return "err-set-field"
	case strings.HasPrefix(m, "dsn: recognized DSN part"):
		return "err-no-key-value"
	case strings.HasPrefix(m, "no field for key"):
		return "err-unknown-key"
	}
	return "err-other"
}

// ---------------------------------------------------------------- calls

func c17Call(fn, s string, p reflect.Value) (err error, pi *rt.PanicInfo) {
	pi = rt.Catch(func() {
		switch fn {
		case "Parse":
			err = dsn.Parse(s, p.Interface())
		case "ParseSimple":
			err = dsn.ParseSimple(s, p.Interface())
		case "ParseURI":
			err = dsn.ParseURI(s, p.Interface())
		default:
			panic("c17: unknown fn " + fn)
		}
	})
	return
}

func c17ReportPanic(r *rt.Result, fn, target, s string, pi *rt.PanicInfo, note string) {
	sig := "panic/" + fn + "/" + c17Shape(fn, s)
	r.Violate(sig, fmt.Sprintf("dsn.%s(%s, *%s) panicked: %s (in %s)%s", fn, strconv.QuoteToASCII(s), target, pi.Value, pi.Frame, note),
		c17Case{Kind: "total", Target: target, Fn: fn, InputQ: strconv.QuoteToASCII(s), Judged: true})
}

// c17Total runs one totality case.
func c17Total(r *rt.Result, l *c17Local, target, fn, s string) {
	t := c17Targets[target]
	err, pi := c17Call(fn, s, t.fresh())
	l.eval++
	if pi != nil {
		l.cnt["total/"+fn+"/panic"]++
		c17ReportPanic(r, fn, target, s, pi, "")
		return
	}
	l.cnt["total/"+fn+"/"+c17ErrClass(err)]++
}

// ---------------------------------------------------------------- round trip

type c17RT struct {
	kind   string // "" ok | panic | error | mismatch | format-error | format-panic
	text   string
	detail string
	pi     *rt.PanicInfo
}

func c17RoundTrip(form string, t *c17Target, fields map[string]string) c17RT {
	x := t.build(fields)
	var text string
	var ferr error
	if pi := rt.Catch(func() {
		if form == "uri" {
			text, ferr = dsn.FormatURI(x.Interface())
		} else {
			text = dsn.FormatSimple(x.Interface())
		}
	}); pi != nil {
		return c17RT{kind: "format-panic", detail: fmt.Sprintf("format panicked: %s (in %s)", pi.Value, pi.Frame), pi: pi}
	}
	if ferr != nil {
		return c17RT{kind: "format-error", detail: "FormatURI returned " + ferr.Error()}
	}
	fn := "ParseSimple"
	if form == "uri" {
		fn = "ParseURI"
	}
	y := t.fresh()
	err, pi := c17Call(fn, text, y)
	if pi != nil {
		return c17RT{kind: "panic", text: text, pi: pi, detail: fmt.Sprintf("%s panicked on the formatter's own output %s: %s (in %s)", fn, strconv.QuoteToASCII(text), pi.Value, pi.Frame)}
	}
	if err != nil {
		return c17RT{kind: "error", text: text, detail: fmt.Sprintf("%s rejected the formatter's own output %s: %v", fn, strconv.QuoteToASCII(text), err)}
	}
	got, want := t.read(y), t.full(fields)
	if bad := c17Diff(t, got, want); len(bad) > 0 {
		return c17RT{kind: "mismatch", text: text, detail: fmt.Sprintf("formatted as %s, parsed back differently:%s", strconv.QuoteToASCII(text), c17DiffText(bad, got, want))}
	}
	return c17RT{text: text}
}

// c17Minimize shrinks a failing struct value: members to zero or to "x",
// then characters out of the remaining strings, as long as the same kind of
// failure persists. A value with non-space content never becomes
// spaces-only or empty.
func c17Minimize(t *c17Target, fields map[string]string, kind string, fails func(map[string]string) string) map[string]string {
	cur := map[string]string{}
	for k, v := range fields {
		cur[k] = v
	}
	for _, f := range t.schema {
		v, ok := cur[f.Key]
		if !ok {
			continue
		}
		delete(cur, f.Key)
		if fails(cur) == kind {
			continue
		}
		if f.Kind == reflect.String && v != "x" {
			cur[f.Key] = "x"
			if fails(cur) == kind {
				continue
			}
		}
		cur[f.Key] = v
	}
	for _, f := range t.schema {
		v, ok := cur[f.Key]
		if !ok || f.Kind != reflect.String || v == "x" {
			continue
		}
		rs := []rune(v)
		onlySp := c17AllSpaces(v)
		for changed := true; changed; {
			changed = false
			for i := 0; i < len(rs) && len(rs) > 1; i++ {
				cand := string(rs[:i]) + string(rs[i+1:])
				if !onlySp && c17AllSpaces(cand) {
					continue
				}
				cur[f.Key] = cand
				if fails(cur) == kind {
					rs = []rune(cand)
					changed = true
					i--
				}
			}
			cur[f.Key] = string(rs)
		}
	}
	return cur
}

// c17Culprit names the class of the first member that is neither zero nor
// the plain filler after minimisation.
func c17Culprit(t *c17Target, form string, fields map[string]string) (class, text string, field *c17Field) {
	for i := range t.schema {
		f := t.schema[i]
		v, ok := fields[f.Key]
		if !ok || v == c17Zero(f.Kind) || (f.Kind == reflect.String && v == "x") {
			continue
		}
		desc := fmt.Sprintf("%s=%s", f.Key, strconv.QuoteToASCII(v))
		switch f.Kind {
		case reflect.Int:
			return "int/" + c17IntClass(v), desc, &t.schema[i]
		case reflect.Bool:
			return "bool/" + v, desc, &t.schema[i]
		}
		if form == "uri" {
			return f.Role + "/" + c17ValueClass(v), desc, &t.schema[i]
		}
		return c17ValueClass(v), desc, &t.schema[i]
	}
	// fails with fillers only
	for _, f := range t.schema {
		if v, ok := fields[f.Key]; ok && v == "x" {
			if form == "uri" {
				return f.Role + "/plain", f.Key + `="x"`, nil
			}
			return "plain", f.Key + `="x"`, nil
		}
	}
	return "zero-value", "the zero value", nil
}

func c17FieldsKey(fields map[string]string) string {
	b, _ := json.Marshal(fields) // map keys are sorted by encoding/json
	return string(b)
}

// c17ExecRT runs one round-trip case and judges it.
func c17ExecRT(r *rt.Result, l *c17Local, cs c17Case) {
	t := c17Targets[cs.Target]
	form := "uri"
	if cs.Kind == "rt-simple" {
		form = "simple"
	}
	l.eval++
	res := c17RoundTrip(form, t, cs.Fields)
	tag := "rt-" + form + "/"
	if !cs.Judged {
		tag = "unjudged-rt-" + form + "/"
	}
	if res.kind == "" {
		l.cnt[tag+"ok"]++
	} else {
		l.cnt[tag+res.kind]++
	}
	if res.kind == "panic" {
		fn := "ParseSimple"
		if form == "uri" {
			fn = "ParseURI"
		}
		c17ReportPanic(r, fn, cs.Target, res.text, res.pi, " — the input is what the formatter printed")
	}
	if !cs.Judged || res.kind == "" {
		return
	}
	// Shortcut (keeps a tree with a frequent defect affordable): when the
	// values showing a trait that was already minimised in this work item are
	// replaced by the plain filler and the case then passes, it is one more
	// instance of that class and is recorded with the minimised case.
	kk := form + "/" + res.kind
	if ks := l.known[kk]; len(ks) > 0 {
		cur := map[string]string{}
		hit := -1
		for _, f := range t.schema {
			v, ok := cs.Fields[f.Key]
			if !ok {
				continue
			}
			cur[f.Key] = v
			if f.Kind != reflect.String {
				continue
			}
			for ki, k := range ks {
				if (k.role == "" || k.role == f.Role) && c17HasFeature(v, k.vclass) {
					cur[f.Key] = "x"
					if hit < 0 || ki < hit {
						hit = ki
					}
					break
				}
			}
		}
		if hit >= 0 && c17RoundTrip(form, t, cur).kind == "" {
			k := ks[hit]
			l.cnt["rt-"+form+"/failure-attributed-to-a-class-minimised-before"]++
			r.Violate("roundtrip/"+form+"/"+k.class, fmt.Sprintf("%s value of %s does not survive Format/Parse (%s): %s → %s. It passes once its values of the class below are replaced by \"x\". Minimised case of that class: %s: %s",
				form, cs.Target, res.kind, c17FieldsKey(cs.Fields), res.detail, k.culprit, k.detail), k.cs)
			return
		}
	}
	min := c17Minimize(t, cs.Fields, res.kind, func(m map[string]string) string { return c17RoundTrip(form, t, m).kind })
	class, culprit, cf := c17Culprit(t, form, min)
	mres := c17RoundTrip(form, t, min)
	sig := "roundtrip/" + form + "/" + class
	mcs := c17Case{Kind: cs.Kind, Target: cs.Target, Fields: min, Judged: true}
	r.Violate(sig, fmt.Sprintf("%s value of %s does not survive Format/Parse (%s). Minimised: %s: %s. Original case: %s → %s",
		form, cs.Target, res.kind, culprit, mres.detail, c17FieldsKey(cs.Fields), res.detail), mcs)
	if cf != nil && cf.Kind == reflect.String {
		k := c17Known{class: class, vclass: c17ValueClass(min[cf.Key]), cs: mcs, culprit: culprit, detail: mres.detail}
		if form == "uri" {
			k.role = cf.Role
		}
		l.known[kk] = append(l.known[kk], k)
	}
}

// ---------------------------------------------------------------- override / unknown keys

func c17RenderSimple(toks []c17Tok) string {
	parts := make([]string, len(toks))
	for i, tk := range toks {
		if tk.Q == "d" {
			parts[i] = tk.Key + `="` + tk.Val + `"`
		} else {
			parts[i] = tk.Key + "=" + tk.Val
		}
	}
	return strings.Join(parts, " ")
}

// c17Model applies tokens in order onto base: the last token naming a member
// (by key or alias) decides.
func c17Model(t *c17Target, base map[string]string, toks []c17Tok) map[string]string {
	m := t.full(base)
	for _, tk := range toks {
		if i, ok := t.byName[tk.Key]; ok {
			v := tk.Val
			if t.schema[i].Kind == reflect.Bool {
				b, _ := strconv.ParseBool(v) // generated bool texts are valid
				v = strconv.FormatBool(b)
			}
			m[t.schema[i].Key] = v
		}
	}
	return m
}

// c17LastOnly keeps, per member, only the last token.
func c17LastOnly(t *c17Target, toks []c17Tok) []c17Tok {
	last := map[int]int{}
	for i, tk := range toks {
		if fi, ok := t.byName[tk.Key]; ok {
			last[fi] = i
		}
	}
	var out []c17Tok
	for i, tk := range toks {
		if fi, ok := t.byName[tk.Key]; ok && last[fi] == i {
			out = append(out, tk)
		}
	}
	return out
}

func c17OverrideClass(t *c17Target, toks []c17Tok, bad []string) string {
	for _, k := range bad {
		fi := t.byName[k]
		keys := map[string]bool{}
		n := 0
		for _, tk := range toks {
			if i, ok := t.byName[tk.Key]; ok && i == fi {
				keys[tk.Key] = true
				n++
			}
		}
		switch {
		case n >= 2 && len(keys) == 1:
			return "same-key-not-overriding"
		case n >= 2:
			return "alias-not-overriding"
		}
	}
	return "unrelated-member-changed"
}

func c17ExecOvSimple(r *rt.Result, l *c17Local, cs c17Case) {
	t := c17Targets[cs.Target]
	l.eval++
	run := func(toks []c17Tok) (kind, detail, text string, pi *rt.PanicInfo) {
		text = c17RenderSimple(toks)
		y := t.fresh()
		err, p := c17Call("ParseSimple", text, y)
		switch {
		case p != nil:
			return "panic", fmt.Sprintf("ParseSimple(%s) panicked: %s (in %s)", strconv.QuoteToASCII(text), p.Value, p.Frame), text, p
		case err != nil:
			return "error", fmt.Sprintf("ParseSimple(%s) returned %v", strconv.QuoteToASCII(text), err), text, nil
		}
		got, want := t.read(y), c17Model(t, nil, toks)
		if bad := c17Diff(t, got, want); len(bad) > 0 {
			return "mismatch:" + c17OverrideClass(t, toks, bad), fmt.Sprintf("ParseSimple(%s):%s", strconv.QuoteToASCII(text), c17DiffText(bad, got, want)), text, nil
		}
		return "", "", text, nil
	}
	kind, detail, text, pi := run(cs.Tokens)
	if kind == "" {
		l.cnt["override-simple/ok"]++
		return
	}
	if pi != nil {
		c17ReportPanic(r, "ParseSimple", cs.Target, text, pi, "")
	}
	// controls: every pair on its own, and the description with every member
	// named once, must parse as expected; otherwise the failure is not about
	// overriding (the round-trip and totality parts report it)
	for _, tk := range cs.Tokens {
		ck, cdetail, _, _ := run([]c17Tok{tk})
		if ck == "" {
			continue
		}
		// an alias must do what the key does
		if f := t.schema[t.byName[tk.Key]]; f.Key != tk.Key {
			if ck2, _, _, _ := run([]c17Tok{{Key: f.Key, Val: tk.Val, Q: tk.Q}}); ck2 == "" {
				l.cnt["override-simple/alias-not-accepted"]++
				r.Violate("override/simple/alias-not-accepted", cdetail+fmt.Sprintf(" — with the key %q in place of its alias %q the same pair parses as expected", f.Key, tk.Key),
					c17Case{Kind: "ov-simple", Target: cs.Target, Tokens: []c17Tok{tk}, Judged: true})
				return
			}
		}
		l.cnt["override-simple/not-judged-a-pair-fails-on-its-own"]++
		return
	}
	if ck, _, _, _ := run(c17LastOnly(t, cs.Tokens)); ck != "" {
		l.cnt["override-simple/not-judged-single-occurrence-form-fails-too"]++
		return
	}
	l.cnt["override-simple/"+strings.SplitN(kind, ":", 2)[0]]++
	class := strings.TrimPrefix(kind, "mismatch:")
	switch kind {
	case "panic":
		class = "panic-on-repeated-key"
	case "error":
		class = "error-on-repeated-key"
	}
	r.Violate("override/simple/"+class, detail+" — the same description with each member named only once (its last occurrence) parses as expected", cs)
}

// c17URIWith appends/inserts query tokens into a formatted URI.
func c17URIWith(base string, toks []c17Tok, pos int) string {
	q := make([]string, len(toks))
	for i, tk := range toks {
		q[i] = url.QueryEscape(tk.Key) + "=" + url.QueryEscape(tk.Val)
	}
	i := strings.IndexByte(base, '?')
	if i < 0 {
		return base + "?" + strings.Join(q, "&")
	}
	head, query := base[:i+1], base[i+1:]
	var parts []string
	if query != "" {
		parts = strings.Split(query, "&")
	}
	if pos < 0 || pos > len(parts) {
		pos = len(parts)
	}
	all := append(append(append([]string(nil), parts[:pos]...), q...), parts[pos:]...)
	return head + strings.Join(all, "&")
}

// c17BaseURI formats fields and verifies that the plain round trip works
// (otherwise override/unknown-key cases on top of it say nothing).
func c17BaseURI(t *c17Target, fields map[string]string) (string, bool) {
	res := c17RoundTrip("uri", t, fields)
	return res.text, res.kind == ""
}

func c17ExecOvURI(r *rt.Result, l *c17Local, cs c17Case) {
	t := c17Targets[cs.Target]
	l.eval++
	base, ok := c17BaseURI(t, cs.Fields)
	if !ok {
		l.cnt["override-uri/not-judged-base-round-trip-fails"]++
		return
	}
	text := c17URIWith(base, cs.Tokens, -1)
	y := t.fresh()
	err, pi := c17Call("ParseURI", text, y)
	switch {
	case pi != nil:
		l.cnt["override-uri/panic"]++
		c17ReportPanic(r, "ParseURI", cs.Target, text, pi, "")
		r.Violate("override/uri/panic-on-repeated-key", fmt.Sprintf("ParseURI(%s) panicked: %s", strconv.QuoteToASCII(text), pi.Value), cs)
		return
	case err != nil:
		l.cnt["override-uri/error"]++
		r.Violate("override/uri/error-on-repeated-key", fmt.Sprintf("ParseURI(%s) returned %v; without the repeated keys it parses", strconv.QuoteToASCII(text), err), cs)
		return
	}
	got, want := t.read(y), c17Model(t, cs.Fields, cs.Tokens)
	if bad := c17Diff(t, got, want); len(bad) > 0 {
		l.cnt["override-uri/mismatch"]++
		class := "unrelated-member-changed"
		for _, k := range bad {
			for _, tk := range cs.Tokens {
				if tk.Key == k {
					class = "last-value-not-winning"
				}
			}
		}
		r.Violate("override/uri/"+class, fmt.Sprintf("ParseURI(%s):%s", strconv.QuoteToASCII(text), c17DiffText(bad, got, want)), cs)
		return
	}
	l.cnt["override-uri/ok"]++
}

func c17ExecUnknown(r *rt.Result, l *c17Local, cs c17Case) {
	t := c17Targets[cs.Target]
	l.eval++
	if cs.Pos < 0 || cs.Pos >= len(cs.Tokens) {
		r.Inconclusive("bad unknown-key case")
		return
	}
	unk := cs.Tokens[cs.Pos]
	if _, known := t.byName[unk.Key]; known {
		r.Inconclusive("unknown-key case with a known key %q", unk.Key)
		return
	}
	others := append(append([]c17Tok(nil), cs.Tokens[:cs.Pos]...), cs.Tokens[cs.Pos+1:]...)
	if len(others) > 0 {
		// control: without the unknown pair the description must parse
		control := c17RenderSimple(others)
		if err, pi := c17Call("ParseSimple", control, t.fresh()); err != nil || pi != nil {
			l.cnt["unknown-key-simple/not-judged-control-fails"]++
			if pi != nil {
				c17ReportPanic(r, "ParseSimple", cs.Target, control, pi, "")
			}
			return
		}
	}
	text := c17RenderSimple(cs.Tokens)
	err, pi := c17Call("ParseSimple", text, t.fresh())
	switch {
	case pi != nil:
		l.cnt["unknown-key-simple/panic"]++
		c17ReportPanic(r, "ParseSimple", cs.Target, text, pi, "")
	case err == nil:
		l.cnt["unknown-key-simple/accepted"]++
		class := "accepted"
		if unk.Key == "" {
			class = "empty-key-accepted"
		}
		r.Violate("unknown-key/simple/"+class, fmt.Sprintf("ParseSimple(%s, *%s) returned nil although key %s is neither a json tag nor a multiref alias of the target", strconv.QuoteToASCII(text), cs.Target, strconv.QuoteToASCII(unk.Key)), cs)
	default:
		l.cnt["unknown-key-simple/rejected"]++
	}
}

func c17UnknownKey(rnd *rt.Rand, t *c17Target) string {
	lower := map[string]bool{}
	for n := range t.byName {
		lower[strings.ToLower(n)] = true
	}
	for {
		var k string
		switch rnd.Intn(6) {
		case 0: // near miss: known name plus/minus a character
			f := t.schema[rnd.Intn(len(t.schema))]
			n := f.Names[rnd.Intn(len(f.Names))]
			if rnd.Bool() || len(n) < 2 {
				k = n + string("sx_-1"[rnd.Intn(5)])
			} else {
				k = n[:len(n)-1]
			}
		case 1:
			k = []string{"hostnam", "pwd", "server", "dbname", "timeout", "tls", "user-name", "schema", "ssl-mode", "options"}[rnd.Intn(10)]
		case 2:
			k = "gr\u00f6\u00dfe" + c17Word(rnd, 0, 2)
		default:
			k = strings.ToLower(c17Word(rnd, 1, 8))
			if rnd.Chance(1, 3) {
				k += "-" + strings.ToLower(c17Word(rnd, 1, 4))
			}
		}
		if k == "" || lower[strings.ToLower(k)] {
			continue
		}
		return k
	}
}

// c17TokValue draws a value for a token naming member f. noEdgeSpace keeps
// leading spaces out (unknown-key cases are about keys).
func c17TokValue(rnd *rt.Rand, kind reflect.Kind, noEdgeSpace bool) (val, q string) {
	switch kind {
	case reflect.Int:
		return c17Int(rnd), ""
	case reflect.Bool:
		return []string{"true", "false", "1", "0", "t", "F", "TRUE"}[rnd.Intn(7)], ""
	}
	if rnd.Chance(1, 3) {
		w := c17Word(rnd, 0, 6)
		if rnd.Bool() {
			return w, ""
		}
		return w, "d"
	}
	for {
		v := c17Text(rnd, true)
		if noEdgeSpace && (strings.HasPrefix(v, " ") || strings.Contains(v, "KEY")) {
			continue
		}
		return v, "d"
	}
}

func c17GenOvSimple(rnd *rt.Rand, t *c17Target) c17Case {
	// a few members, named repeatedly by key and aliases
	nf := rnd.Range(1, 3)
	pick := make([]int, nf)
	for i := range pick {
		pick[i] = rnd.Intn(len(t.schema))
	}
	n := rnd.Range(2, 7)
	cs := c17Case{Kind: "ov-simple", Target: t.name, Judged: true}
	for i := 0; i < n; i++ {
		f := t.schema[pick[rnd.Intn(nf)]]
		v, q := c17TokValue(rnd, f.Kind, false)
		cs.Tokens = append(cs.Tokens, c17Tok{Key: f.Names[rnd.Intn(len(f.Names))], Val: v, Q: q})
	}
	return cs
}

func c17GenOvURI(rnd *rt.Rand, t *c17Target) c17Case {
	cs := c17Case{Kind: "ov-uri", Target: t.name, Judged: true, Fields: c17GenFields(rnd, t, "uri", false, false)}
	var cand []c17Field
	for _, f := range t.schema {
		if f.Role == "database" || f.Role == "property" {
			cand = append(cand, f)
		}
	}
	for nk := rnd.Range(1, 3); nk > 0; nk-- {
		f := cand[rnd.Intn(len(cand))]
		for rep := rnd.Range(2, 3); rep > 0; rep-- {
			var v string
			switch f.Kind {
			case reflect.Int:
				v = c17Int(rnd)
			case reflect.Bool:
				v = strconv.FormatBool(rnd.Bool())
			default:
				v = c17Text(rnd, false)
			}
			tk := c17Tok{Key: f.Key, Val: v}
			at := rnd.Intn(len(cs.Tokens) + 1)
			cs.Tokens = append(cs.Tokens[:at], append([]c17Tok{tk}, cs.Tokens[at:]...)...)
		}
	}
	// the last value wins whatever the earlier ones are: now and then an
	// overridden (non-last) value of a number or truth-value member is
	// text that the member's type does not accept
	if rnd.Chance(1, 3) {
		last := map[string]int{}
		for i, tk := range cs.Tokens {
			last[tk.Key] = i
		}
		for i, tk := range cs.Tokens {
			if last[tk.Key] == i {
				continue
			}
			for _, f := range cand {
				if f.Key == tk.Key && (f.Kind == reflect.Int || f.Kind == reflect.Bool) && rnd.Chance(1, 2) {
					cs.Tokens[i].Val = []string{"default", "x1", "", "1.5", "yes!"}[rnd.Intn(5)]
					cs.Note = "an overridden value is not acceptable text for the member's type"
				}
			}
		}
	}
	return cs
}

func c17GenUnknown(rnd *rt.Rand, t *c17Target, form string) c17Case {
	cs := c17Case{Kind: "unk-" + form, Target: t.name, Judged: true}
	unk := c17Tok{Key: c17UnknownKey(rnd, t)}
	unk.Val, unk.Q = c17TokValue(rnd, reflect.String, true)
	if rnd.Chance(1, 10) {
		// the empty key names no member; "1" is acceptable text for every member kind
		unk = c17Tok{Key: "", Val: "1"}
	}
	if form == "uri" {
		cs.Fields = c17GenFields(rnd, t, "uri", false, false)
		for k, v := range cs.Fields { // keep clear of the base failing for other reasons
			if strings.Contains(v, "KEY") {
				cs.Fields[k] = strings.ReplaceAll(v, "KEY", "key")
			}
		}
		cs.Tokens = []c17Tok{unk}
		cs.QPos = rnd.Intn(6)
		return cs
	}
	perm := rnd.Perm(len(t.schema))
	n := rnd.Intn(4)
	if n > len(perm) {
		n = len(perm)
	}
	for _, fi := range perm[:n] {
		f := t.schema[fi]
		v, q := c17TokValue(rnd, f.Kind, true)
		cs.Tokens = append(cs.Tokens, c17Tok{Key: f.Names[rnd.Intn(len(f.Names))], Val: v, Q: q})
	}
	cs.Pos = rnd.Intn(len(cs.Tokens) + 1)
	cs.Tokens = append(cs.Tokens[:cs.Pos], append([]c17Tok{unk}, cs.Tokens[cs.Pos:]...)...)
	return cs
}

// ---------------------------------------------------------------- totality inputs

var c17Alphabet = []string{`"`, `'`, " ", "=", "a", "b", ":", "/", "?", "&", "%", "@", "#"}

func c17RandInput(rnd *rt.Rand, t *c17Target) string {
	key := func() string {
		switch rnd.Intn(8) {
		case 0:
			return ""
		case 1:
			return strings.ToLower(c17Word(rnd, 1, 3))
		}
		f := t.schema[rnd.Intn(len(t.schema))]
		return f.Names[rnd.Intn(len(f.Names))]
	}
	switch rnd.Intn(5) {
	case 0: // the 13 symbols, letters mapped to real keys
		sub := append([]string(nil), c17Alphabet...)
		if rnd.Bool() {
			sub[4], sub[5] = key(), key()
		}
		var b strings.Builder
		for n := rnd.Range(5, 14); n > 0; n-- {
			b.WriteString(sub[rnd.Intn(len(sub))])
		}
		return b.String()
	case 1, 2: // key=value shaped, with broken quoting
		contents := []string{"", " ", "  ", "x", " x", "x ", "x y", " x y ", "=", "x=y", `"`, `'`, `\`, "\u00e9", "x  y"}
		quotes := []string{"", "", `"`, `'`}
		var b strings.Builder
		for n := rnd.Range(1, 4); n > 0; n-- {
			if rnd.Chance(5, 6) {
				b.WriteString(key())
			}
			if rnd.Chance(7, 8) {
				b.WriteString("=")
			}
			b.WriteString(quotes[rnd.Intn(4)])
			b.WriteString(contents[rnd.Intn(len(contents))])
			b.WriteString(quotes[rnd.Intn(4)])
			if n > 1 {
				b.WriteString(strings.Repeat(" ", rnd.Range(0, 2)))
			}
		}
		return b.String()
	case 3: // URI shaped, with broken escapes and separators
		part := func() string {
			switch rnd.Intn(7) {
			case 0:
				return ""
			case 1:
				return c17Word(rnd, 1, 4)
			case 2:
				return "%" + c17Word(rnd, 0, 2)
			case 3:
				return c17Text(rnd, false)
			case 4:
				return []string{"[", "]", "[::1]", ":", "::", "@", "%zz", "%", "+", ";", "\x00", "\x7f", " "}[rnd.Intn(13)]
			}
			return strings.ToLower(c17Word(rnd, 1, 3))
		}
		var b strings.Builder
		if rnd.Chance(3, 4) {
			b.WriteString(part())
		}
		b.WriteString([]string{"://", "://", "//", ":/", ":"}[rnd.Intn(5)])
		if rnd.Chance(2, 3) {
			b.WriteString(part())
			if rnd.Bool() {
				b.WriteString(":" + part())
			}
			b.WriteString("@")
		}
		b.WriteString(part())
		if rnd.Chance(2, 3) {
			b.WriteString(":" + part())
		}
		if rnd.Chance(2, 3) {
			b.WriteString("/" + part())
		}
		if rnd.Chance(3, 4) {
			b.WriteString("?")
			for n := rnd.Range(0, 3); n > 0; n-- {
				b.WriteString(key())
				if rnd.Chance(5, 6) {
					b.WriteString("=")
				}
				b.WriteString(part())
				if n > 1 {
					b.WriteString([]string{"&", "&", ";", "&&"}[rnd.Intn(4)])
				}
			}
		}
		if rnd.Chance(1, 6) {
			b.WriteString("#" + part())
		}
		return b.String()
	default: // bytes
		return string(rnd.Bytes(rnd.Range(1, 16)))
	}
}

// ---------------------------------------------------------------- FromEnv

const c17EnvPrefix = "VC17X"

// c17ExecEnv sets one environment variable and runs FromEnv. Only
// "no panic" is judged; what FromEnv assigns is counted.
func c17ExecEnv(r *rt.Result, l *c17Local, cs c17Case) {
	t := c17Targets[cs.Target]
	name, err1 := strconv.Unquote(cs.NameQ)
	val, err2 := strconv.Unquote(cs.InputQ)
	if err1 != nil || err2 != nil {
		r.Inconclusive("bad env case: %v %v", err1, err2)
		return
	}
	if err := os.Setenv(name, val); err != nil {
		l.cnt["env/not-settable"]++
		return
	}
	defer os.Unsetenv(name)
	l.eval++
	y := t.fresh()
	var err error
	pi := rt.Catch(func() { err = dsn.FromEnv(cs.Fn, y.Interface()) })
	switch {
	case pi != nil:
		l.cnt["env/panic"]++
		r.Violate("panic/FromEnv/"+cs.Note, fmt.Sprintf("FromEnv(%q, *%s) with %s=%s in the environment panicked: %s (in %s)", cs.Fn, cs.Target, cs.NameQ, cs.InputQ, pi.Value, pi.Frame), cs)
	case err != nil:
		l.cnt["env/error"]++
	default:
		l.cnt["env/ok"]++
		// observation only: did a named string member receive the value?
		key := strings.ReplaceAll(strings.ToLower(strings.TrimPrefix(name, strings.ToUpper(cs.Fn)+"_")), "_", "-")
		if i, ok := t.byName[key]; ok && t.schema[i].Kind == reflect.String && strings.HasPrefix(name, strings.ToUpper(cs.Fn)+"_") {
			if t.read(y)[t.schema[i].Key] == val {
				l.cnt["env/observed-string-member-set"]++
			} else {
				l.cnt["env/observed-string-member-differs"]++
			}
		}
	}
}

func c17GenEnv(rnd *rt.Rand, t *c17Target) c17Case {
	cs := c17Case{Kind: "env", Target: t.name, Fn: c17EnvPrefix, Judged: true}
	envName := func(k string) string { return strings.ToUpper(strings.ReplaceAll(k, "-", "_")) }
	var name, val string
	switch rnd.Intn(6) {
	case 0: // unknown or odd variable name
		name = c17EnvPrefix + "_" + envName(c17RandInput(rnd, t))
		val = c17RandInput(rnd, t)
		cs.Note = "odd-variable-name"
	case 1:
		name = c17EnvPrefix + "_"
		val = c17RandInput(rnd, t)
		cs.Note = "empty-variable-suffix"
	default:
		f := t.schema[rnd.Intn(len(t.schema))]
		name = c17EnvPrefix + "_" + envName(f.Names[rnd.Intn(len(f.Names))])
		switch rnd.Intn(3) {
		case 0:
			val = c17RandInput(rnd, t)
		case 1:
			val = c17Text(rnd, false)
		default:
			val, _ = c17TokValue(rnd, f.Kind, false)
		}
		cs.Note = map[reflect.Kind]string{reflect.String: "string-member", reflect.Int: "int-member", reflect.Bool: "bool-member"}[f.Kind]
	}
	if rnd.Chance(1, 12) {
		cs.Fn = []string{"vc17x", "Vc17X"}[rnd.Intn(2)] // FromEnv upper-cases the prefix
	}
	cs.NameQ, cs.InputQ = strconv.QuoteToASCII(name), strconv.QuoteToASCII(val)
	return cs
}

type c17ChildOut struct {
	Panic string `json:"panic"`
	Frame string `json:"frame"`
	Err   string `json:"err"`
}

// c17EnvChild is the body of the child process of an env-malformed case: the
// parent put an entry without '=' into this process's environment block.
func c17EnvChild() {
	var o c17ChildOut
	var err error
	y := c17Targets["dsn.Info"].fresh()
	if pi := rt.Catch(func() { err = dsn.FromEnv(c17EnvPrefix, y.Interface()) }); pi != nil {
		o.Panic, o.Frame = pi.Value, pi.Frame
	}
	if err != nil {
		o.Err = err.Error()
	}
	b, _ := json.Marshal(o)
	os.Stdout.Write(b)
}

// c17ExecEnvMalformed starts this binary with an environment block entry
// that has no '=' (execve allows it, os.Environ returns it) and lets the
// child run FromEnv.
func c17ExecEnvMalformed(r *rt.Result, l *c17Local, cs c17Case) {
	entry, err := strconv.Unquote(cs.InputQ)
	if err != nil {
		r.Inconclusive("bad env-malformed case: %v", err)
		return
	}
	exe, err := os.Executable()
	if err != nil {
		r.Inconclusive("os.Executable: %v", err)
		return
	}
	cmd := exec.Command(exe, "C17", "--leg", "envchild")
	cmd.Env = append(os.Environ(), entry)
	out, err := cmd.Output()
	if err != nil {
		r.Inconclusive("FromEnv child process failed: %v", err)
		return
	}
	var o c17ChildOut
	if err := json.Unmarshal(out, &o); err != nil {
		r.Inconclusive("FromEnv child process: bad output %q: %v", out, err)
		return
	}
	l.eval++
	if o.Panic != "" {
		l.cnt["env/panic"]++
		r.Violate("panic/FromEnv/"+cs.Note, fmt.Sprintf("FromEnv(%q, *dsn.Info) in a process whose environment block holds the entry %s panicked: %s (in %s)", c17EnvPrefix, cs.InputQ, o.Panic, o.Frame), cs)
		return
	}
	l.cnt["env/child-ok"]++
}

// ---------------------------------------------------------------- driver

func c17Exec(r *rt.Result, l *c17Local, cs c17Case) {
	if _, ok := c17Targets[cs.Target]; !ok {
		r.Inconclusive("unknown target %q", cs.Target)
		return
	}
	switch cs.Kind {
	case "rt-uri", "rt-simple":
		c17ExecRT(r, l, cs)
	case "ov-simple":
		c17ExecOvSimple(r, l, cs)
	case "ov-uri":
		c17ExecOvURI(r, l, cs)
	case "unk-simple":
		c17ExecUnknown(r, l, cs)
	case "unk-uri":
		c17ExecUnknownURI(r, l, cs)
	case "total":
		s, err := strconv.Unquote(cs.InputQ)
		if err != nil {
			r.Inconclusive("bad input_q: %v", err)
			return
		}
		c17Total(r, l, cs.Target, cs.Fn, s)
	case "env":
		c17ExecEnv(r, l, cs)
	case "env-malformed":
		c17ExecEnvMalformed(r, l, cs)
	default:
		r.Inconclusive("unknown case kind %q", cs.Kind)
	}
}

// c17ExecUnknownURI: unknown key inserted at query position cs.QPos of a
// URI whose plain round trip works.
func c17ExecUnknownURI(r *rt.Result, l *c17Local, cs c17Case) {
	t := c17Targets[cs.Target]
	l.eval++
	if len(cs.Tokens) != 1 {
		r.Inconclusive("bad unknown-key case")
		return
	}
	unk := cs.Tokens[0]
	if _, known := t.byName[unk.Key]; known {
		r.Inconclusive("unknown-key case with a known key %q", unk.Key)
		return
	}
	base, ok := c17BaseURI(t, cs.Fields)
	if !ok {
		l.cnt["unknown-key-uri/not-judged-base-round-trip-fails"]++
		return
	}
	text := c17URIWith(base, []c17Tok{unk}, cs.QPos)
	err, pi := c17Call("ParseURI", text, t.fresh())
	switch {
	case pi != nil:
		l.cnt["unknown-key-uri/panic"]++
		c17ReportPanic(r, "ParseURI", cs.Target, text, pi, "")
	case err == nil:
		l.cnt["unknown-key-uri/accepted"]++
		class := "accepted"
		if unk.Key == "" {
			class = "empty-key-accepted"
		}
		r.Violate("unknown-key/uri/"+class, fmt.Sprintf("ParseURI(%s, *%s) returned nil although query key %s is neither a json tag nor a multiref alias of the target", strconv.QuoteToASCII(text), cs.Target, strconv.QuoteToASCII(unk.Key)), cs)
	default:
		l.cnt["unknown-key-uri/rejected"]++
	}
}

func runC17(c *Ctx) {
	r := c.R
	if c.Leg == "envchild" {
		c17EnvChild()
		return
	}
	r.Rule = "round trips of seeded dsn.Info / tds.Info / harness-struct values through FormatURI+ParseURI and FormatSimple+ParseSimple; hand-built descriptions with repeated keys, aliases and unknown keys; totality: every string up to symbol length L over { \" ' space = a b : / ? & % @ # } (a,b valid keys; also mapped to host / tls-enable for tds.Info) through Parse, ParseSimple, ParseURI plus seeded random strings and environment variables through FromEnv. non-trivial = a value (or input string) containing a space, '=' or a non-ASCII character, for override / unknown-key descriptions also one with more than one pair; distinct = distinct (form, target, value) resp. distinct description resp. distinct input string; round-trip values outside the judged alphabets are executed and counted (unjudged-*) but are neither judged nor counted as distinct"
	r.TrustedBase = []string{"tag walker, override model and value classes in harness/cmd/vworker/c17.go (independent of dsn.TagToField)", "net/url.QueryEscape for hand-built query strings"}
	r.Assumptions = []string{
		"targets carry the keys hostname, port, username and password as strings: ParseURI documents them as hard-wired (a target without them is outside the property)",
		"URI form: host and port hold host-name / digit text in judged cases; other host/port text, scheme and userstorekey members are not named by the property (counted only)",
		"simple form: text with quotes, backslashes or characters outside strconv.IsPrint is run and counted, not judged",
		"URI form: a member named by two different aliases in one query string is not covered by 'last value of a repeated key' (counted only)",
		"key matching is taken as exact: case variants of known keys are not used as unknown keys",
	}
	if c.Replay != nil {
		var cs c17Case
		if err := json.Unmarshal(c.Replay, &cs); err != nil {
			r.Inconclusive("bad replay: %v", err)
			return
		}
		l := newC17Local()
		c17Exec(r, l, cs)
		l.flush(r)
		return
	}
	quick := c.Quick()
	pick := func(q, t int) int {
		if quick {
			return q
		}
		return t
	}

	// ---- round trips
	nRT := pick(20000, 2000000)
	const chunk = 500
	c.parallel((nRT+chunk-1)/chunk, func(ci int) {
		l := newC17Local()
		defer l.flush(r)
		for i := ci * chunk; i < (ci+1)*chunk && i < nRT; i++ {
			rnd := rt.NewRand(c.Seed, fmt.Sprintf("c17/rt/%d", i))
			t := c17Targets[c17TargetNames[(i/2)%3]]
			cs := c17Case{Target: t.name, Judged: true}
			if i%2 == 0 {
				cs.Kind = "rt-uri"
				wild := rnd.Chance(1, 16)
				cs.Fields = c17GenFields(rnd, t, "uri", false, wild)
				cs.Judged = !wild
			} else {
				cs.Kind = "rt-simple"
				safe := rnd.Chance(3, 4)
				cs.Fields = c17GenFields(rnd, t, "simple", safe, false)
				for _, f := range t.schema {
					if f.Kind == reflect.String && !c17SimpleJudged(cs.Fields[f.Key]) {
						cs.Judged = false
					}
				}
			}
			if i < 2 {
				r.Sample(cs.Kind, cs)
			}
			if cs.Judged {
				for _, v := range cs.Fields {
					if c17NonTrivial(v) {
						r.Distinct(cs.Kind + cs.Target + c17FieldsKey(cs.Fields))
						break
					}
				}
			}
			c17Exec(r, l, cs)
		}
	})

	// ---- override and unknown keys
	nOv := pick(12000, 600000)
	c.parallel((nOv+chunk-1)/chunk, func(ci int) {
		l := newC17Local()
		defer l.flush(r)
		for i := ci * chunk; i < (ci+1)*chunk && i < nOv; i++ {
			rnd := rt.NewRand(c.Seed, fmt.Sprintf("c17/ov/%d", i))
			t := c17Targets[c17TargetNames[(i/4)%3]]
			var cs c17Case
			switch i % 4 {
			case 0:
				cs = c17GenOvSimple(rnd, t)
			case 1:
				cs = c17GenOvURI(rnd, t)
			case 2:
				cs = c17GenUnknown(rnd, t, "simple")
			default:
				cs = c17GenUnknown(rnd, t, "uri")
			}
			if i < 4 {
				r.Sample(cs.Kind, cs)
			}
			nt := len(cs.Tokens) > 1 // repeated keys / a key among others
			for _, tk := range cs.Tokens {
				nt = nt || c17NonTrivial(tk.Val)
			}
			if nt {
				b, _ := json.Marshal(cs)
				r.Distinct(string(b))
			}
			c17Exec(r, l, cs)
		}
	})

	// ---- URI: one member named by two aliases (observation only)
	{
		l := newC17Local()
		t := c17Targets["dsn.Info"]
		for i := 0; i < 200; i++ {
			seen := map[string]bool{}
			text := fmt.Sprintf("ase://h:1/?db=first%d&database=second%d", i, i)
			for k := 0; k < 16; k++ {
				y := t.fresh()
				if err, pi := c17Call("ParseURI", text, y); err == nil && pi == nil {
					seen[t.read(y)["database"]] = true
				} else if pi != nil {
					c17ReportPanic(r, "ParseURI", t.name, text, pi, "")
				}
			}
			if len(seen) > 1 {
				l.cnt["unjudged-uri-two-aliases/answer-varies-between-calls"]++
			} else {
				l.cnt["unjudged-uri-two-aliases/stable"]++
			}
		}
		l.flush(r)
	}

	// ---- totality, exhaustive
	L := pick(4, 6)
	mapped := append([]string(nil), c17Alphabet...)
	mapped[4], mapped[5] = "host", "tls-enable"
	fns := []string{"ParseSimple", "ParseURI", "Parse"}
	runBoth := func(l *c17Local, syms []int) {
		var raw, mp strings.Builder
		for _, s := range syms {
			raw.WriteString(c17Alphabet[s])
			mp.WriteString(mapped[s])
		}
		for _, fn := range fns {
			c17Total(r, l, "harness", fn, raw.String())
			c17Total(r, l, "tds.Info", fn, mp.String())
		}
		if c17NonTrivial(raw.String()) {
			l.cnt["exhaustive_nontrivial_strings"]++
		}
		l.cnt["exhaustive_strings"]++
	}
	{
		l := newC17Local()
		runBoth(l, nil)
		for a := range c17Alphabet {
			runBoth(l, []int{a})
		}
		r.DistinctN(l.cnt["exhaustive_nontrivial_strings"])
		l.flush(r)
	}
	A := len(c17Alphabet)
	c.parallel(A*A, func(pi int) {
		l := newC17Local()
		var rec func(syms []int)
		rec = func(syms []int) {
			runBoth(l, syms)
			if len(syms) == L {
				return
			}
			for a := 0; a < A; a++ {
				rec(append(syms, a))
			}
		}
		rec([]int{pi / A, pi % A})
		r.DistinctN(l.cnt["exhaustive_nontrivial_strings"])
		l.flush(r)
	})
	r.Sample("totality-exhaustive", map[string]interface{}{"alphabet": c17Alphabet, "max_symbols": L, "functions": fns,
		"targets": "harness struct (keys a, b) and tds.Info (a -> host, b -> tls-enable)"})

	// ---- totality, seeded random strings
	nRand := pick(60000, 3000000)
	c.parallel((nRand+chunk-1)/chunk, func(ci int) {
		l := newC17Local()
		defer l.flush(r)
		maxLen := 0
		defer func() { r.Max("max_random_input_bytes", int64(maxLen)) }()
		for i := ci * chunk; i < (ci+1)*chunk && i < nRand; i++ {
			rnd := rt.NewRand(c.Seed, fmt.Sprintf("c17/rand/%d", i))
			t := c17Targets[c17TargetNames[i%3]]
			s := c17RandInput(rnd, t)
			if i < 2 {
				r.Sample("totality-random", c17Case{Kind: "total", Target: t.name, Fn: "Parse", InputQ: strconv.QuoteToASCII(s), Judged: true})
			}
			if c17NonTrivial(s) {
				r.Distinct("total:" + t.name + ":" + s)
			}
			if len(s) > maxLen {
				maxLen = len(s)
			}
			for _, fn := range fns {
				c17Total(r, l, t.name, fn, s)
			}
		}
	})

	// ---- FromEnv (sequential: the environment is process-global)
	{
		l := newC17Local()
		for _, e := range os.Environ() {
			if strings.HasPrefix(strings.ToUpper(e), c17EnvPrefix) {
				r.Inconclusive("environment already holds %s… variables", c17EnvPrefix)
			}
		}
		nEnv := pick(3000, 60000)
		for i := 0; i < nEnv; i++ {
			rnd := rt.NewRand(c.Seed, fmt.Sprintf("c17/env/%d", i))
			cs := c17GenEnv(rnd, c17Targets[c17TargetNames[i%3]])
			if i < 2 {
				r.Sample("fromenv", cs)
			}
			c17Exec(r, l, cs)
		}
		for _, entry := range []string{c17EnvPrefix + "_HOST", "NOEQUALSSIGN", "="} {
			note := "env-entry-without-equals"
			if strings.Contains(entry, "=") {
				note = "env-entry-with-empty-name"
			}
			c17Exec(r, l, c17Case{Kind: "env-malformed", Target: "dsn.Info", InputQ: strconv.QuoteToASCII(entry), Note: note, Judged: true})
		}
		l.flush(r)
	}
}
