package main

import (
	"encoding/hex"
	"encoding/json"
	"fmt"
	"io"
	"log"
	"reflect"
	"regexp"
	"sort"
	"strings"
	"sync"
	"time"
	"verif/harness/xport"

	"github.com/SAP/go-dblib/tds"

	"verif/harness/refpkg"
	"verif/harness/rt"
	"verif/harness/srv"
)

// C07 — incomplete package data is always reported as "not enough bytes".
//
// Events: for a valid encoding X of a package (library-written W(p) and
// reference-written R(q) from C06's generators, rows/params over every data
// type the library decodes) and every proper prefix X[:k], 1 <= k < len(X):
//   (a) the error of token byte + LookupPackage + LastPkg + ReadFrom on a
//       PacketQueue holding exactly the prefix;
//   (b) after rolling the queue back to the start (what the channel does) and
//       adding the rest of X as a further packet: the result of parsing again
//       with a fresh package.
// Oracle: (a) errors.Is(err, tds.ErrNotEnoughBytes) — not nil, not another
// error, no panic; (b) no error, everything consumed, same dump as parsing X
// untouched.

func init() { register("C07", runC07) }

type c07Enc struct {
	cs     pkgCase
	Source string // "lib" | "ref"
	X      []byte
}

type c07CaseRec struct {
	Type    string      `json:"type"`
	Variant string      `json:"variant"`
	Opt     string      `json:"opt"`
	Source  string      `json:"source"`
	K       int         `json:"k"` // failing prefix length (0 in samples: all prefixes)
	Hex     string      `json:"hex"`
	Ref     interface{} `json:"ref"` // the reference value (gives the preceding format for ROW/PARAMS/ORDERBY)
}

// segQueue is a PacketQueue together with the sizes of the packets put into
// it, to turn its position into a byte offset.
type segQueue struct {
	q     *tds.PacketQueue
	sizes []int
}

func newSegQueue() *segQueue {
	return &segQueue{q: tds.NewPacketQueue(func() int { return pqChunk + 8 })}
}

// add appends x as packets of at most pqChunk bytes. The packet data alias
// x (the library does not write into received packets).
func (s *segQueue) add(x []byte) {
	for off := 0; off < len(x); off += pqChunk {
		end := off + pqChunk
		if end > len(x) {
			end = len(x)
		}
		p := &tds.Packet{Data: x[off:end:end]}
		p.Header.Length = uint16(8 + end - off)
		s.q.AddPacket(p)
		s.sizes = append(s.sizes, end-off)
	}
}

// addEOM is add with the end-of-message status on the last packet.
func (s *segQueue) addEOM(x []byte) {
	for off := 0; off < len(x); off += pqChunk {
		end := off + pqChunk
		if end > len(x) {
			end = len(x)
		}
		p := &tds.Packet{Data: x[off:end:end]}
		p.Header.Length = uint16(8 + end - off)
		if end == len(x) {
			p.Header.Status = tds.TDS_BUFSTAT_EOM
		}
		s.q.AddPacket(p)
		s.sizes = append(s.sizes, end-off)
	}
}

func (s *segQueue) flat() int {
	pi, di := s.q.Position()
	off := di
	for i := 0; i < pi && i < len(s.sizes); i++ {
		off += s.sizes[i]
	}
	return off
}

var digitsRe = regexp.MustCompile(`[0-9]+`)

type c07Runner struct {
	c *Ctx
	r *rt.Result
}

func (x *c07Runner) rec(e c07Enc, k int) c07CaseRec {
	return c07CaseRec{Type: e.cs.Type, Variant: e.cs.Variant, Opt: e.cs.Opt, Source: e.Source, K: k, Hex: hex.EncodeToString(e.X), Ref: e.cs.Ref}
}

// prefixes lists the prefix lengths tried for an encoding of n bytes: all of
// them up to exhaustiveMax, otherwise the first and last 600 and a stride.
func prefixes(n, exhaustiveMax int) (ks []int, exhaustive bool) {
	if n-1 <= exhaustiveMax {
		for k := 1; k < n; k++ {
			ks = append(ks, k)
		}
		return ks, true
	}
	seen := map[int]bool{}
	add := func(k int) {
		if k >= 1 && k < n && !seen[k] {
			seen[k] = true
			ks = append(ks, k)
		}
	}
	for k := 1; k <= 600; k++ {
		add(k)
	}
	for k := n - 600; k < n; k++ {
		add(k)
	}
	for k := 601; k < n-600; k += 997 {
		add(k)
	}
	for _, b := range []int{pqChunk - 1, pqChunk, pqChunk + 1, 65535, 65536, 65537} {
		add(b)
	}
	sort.Ints(ks)
	return ks, false
}

// run checks one encoding; only (if > 0) restricts to one prefix length.
func (x *c07Runner) run(e c07Enc, exhaustiveMax int, only int) {
	r := x.r
	X := e.X
	typ := e.cs.Type
	prevOf := func() tds.Package {
		p, err := freshPrev(e.cs.Ref)
		if err != nil {
			return nil
		}
		return p
	}
	// the encoding must be valid for the library: parsed untouched it is
	// accepted and used up
	base := libRead(X, prevOf())
	if base.Panic != nil || base.Err != nil || base.Consumed != len(X) {
		r.Count("skipped_not_a_valid_encoding_for_the_library:"+e.Source, 1)
		r.SetAdd("skipped_types", typ+"/"+e.Source)
		return
	}
	if _, tokenless := base.Pkg.(*tds.TokenlessPackage); tokenless {
		r.Count("skipped_tokenless", 1)
		return
	}
	d0 := pkgDump(base.Pkg)
	r.SetAdd("package_types", typ)
	r.SetAdd("type_variant", typ+"/"+e.cs.Variant)
	r.SetAdd("type_variant_source", typ+"/"+e.cs.Variant+"/"+e.Source)
	r.SetAdd("type_variant_option", typ+"/"+e.cs.Variant+"/"+e.cs.Opt)
	r.Count("encodings", 1)
	r.Max("max_encoding_bytes", int64(len(X)))

	ks, exhaustive := prefixes(len(X), exhaustiveMax)
	if only > 0 {
		ks = []int{only}
	}
	if exhaustive {
		r.Count("encodings_with_every_prefix", 1)
	} else {
		r.Count("encodings_with_sampled_prefixes", 1)
	}
	for _, k := range ks {
		r.Eval(1)
		if k > 1 {
			r.DistinctN(1)
		}
		sq := newSegQueue()
		sq.add(X[:k])
		res := parseFrom(sq.q, prevOf())
		switch {
		case res.Panic != nil:
			r.Violate("prefix/"+typ+"/panic", fmt.Sprintf("prefix of %d of %d bytes (%s): panic %s at %s", k, len(X), hexHead(X[:k]), res.Panic.Value, res.Panic.Frame), x.rec(e, k))
			continue
		case res.Err == nil:
			r.Violate("prefix/"+typ+"/nil", fmt.Sprintf("prefix of %d of %d bytes (%s) was parsed without error into %s", k, len(X), hexHead(X[:k]), clip(pkgDump(res.Pkg), 300)), x.rec(e, k))
			continue
		case !isNotEnough(res.Err):
			r.Violate("prefix/"+typ+"/other-error", fmt.Sprintf("prefix of %d of %d bytes (%s): %q at stage %s, which is not ErrNotEnoughBytes", k, len(X), hexHead(X[:k]), res.Err.Error(), res.Stage), x.rec(e, k))
			continue
		}
		r.SetAdd("not_enough_bytes_error_shapes", typ+": "+digitsRe.ReplaceAllString(res.Err.Error(), "N"))
		// the same prefix as the end of a message (its last packet carries
		// the end-of-message status): still "not enough bytes"
		if exhaustive || k%4 == 0 {
			r.Eval(1)
			eq := newSegQueue()
			eq.addEOM(X[:k])
			resE := parseFrom(eq.q, prevOf())
			switch {
			case resE.Panic != nil:
				r.Violate("prefix/"+typ+"/panic/end-of-message", fmt.Sprintf("prefix of %d of %d bytes (%s) in a packet with the end-of-message status: panic %s at %s", k, len(X), hexHead(X[:k]), resE.Panic.Value, resE.Panic.Frame), x.rec(e, k))
			case resE.Err == nil:
				r.Violate("prefix/"+typ+"/nil/end-of-message", fmt.Sprintf("prefix of %d of %d bytes (%s) in a packet with the end-of-message status was parsed without error into %s", k, len(X), hexHead(X[:k]), clip(pkgDump(resE.Pkg), 300)), x.rec(e, k))
			case !isNotEnough(resE.Err):
				r.Violate("prefix/"+typ+"/other-error/end-of-message", fmt.Sprintf("prefix of %d of %d bytes (%s) in a packet with the end-of-message status: %q at stage %s, which is not ErrNotEnoughBytes", k, len(X), hexHead(X[:k]), resE.Err.Error(), resE.Stage), x.rec(e, k))
			default:
				r.Count("prefixes_ending_a_message", 1)
			}
		}
		// resume: roll back, let the rest arrive, parse with a fresh package
		sq.q.SetPosition(0, 0)
		sq.add(X[k:])
		res2 := parseFrom(sq.q, prevOf())
		switch {
		case res2.Panic != nil:
			r.Violate("resume/"+typ+"/panic", fmt.Sprintf("after a failed attempt on %d of %d bytes, parsing the complete bytes panicked: %s at %s", k, len(X), res2.Panic.Value, res2.Panic.Frame), x.rec(e, k))
		case res2.Err != nil:
			r.Violate("resume/"+typ+"/error", fmt.Sprintf("after a failed attempt on %d of %d bytes, parsing the complete bytes (second packet from offset %d) gives %v", k, len(X), k, res2.Err), x.rec(e, k))
		case sq.flat() != len(X):
			r.Violate("resume/"+typ+"/bytes-left", fmt.Sprintf("after a failed attempt on %d of %d bytes, parsing the complete bytes consumed %d", k, len(X), sq.flat()), x.rec(e, k))
		default:
			if reflect.DeepEqual(res2.Pkg, base.Pkg) {
				break // identical without needing the dump
			}
			if d := pkgDump(res2.Pkg); d != d0 {
				r.Violate("resume/"+typ+"/dump-differs", fmt.Sprintf("after a failed attempt on %d of %d bytes the complete parse differs from the untouched one: %s", k, len(X), diffContext(d, d0)), x.rec(e, k))
			}
		}
	}
}

// c07Encodings turns cases into encodings: the reference encoding where a
// server sends the type, the library's own bytes where it can write it.
func c07Encodings(cases []pkgCase, r *rt.Result) []c07Enc {
	var out []c07Enc
	for _, cs := range cases {
		d := dirsOf(cs.Type)
		if usesKind(cs.Ref, refpkg.KBlob) {
			continue // no reference layout; the library's writer and reader disagree (C06)
		}
		if d.serverSends {
			out = append(out, c07Enc{cs: cs, Source: "ref", X: cs.Ref.Encode()})
		}
		if d.libWrites && !hasTextNull(cs.Ref) && libCanExpress(cs.Ref) {
			p, _, err := libPackage(cs.Ref)
			if err != nil {
				continue
			}
			W, werr, pi := libWrite(p)
			if pi != nil || werr != nil || len(W) == 0 {
				r.Count("library_write_failed_no_encoding", 1)
				continue
			}
			out = append(out, c07Enc{cs: cs, Source: "lib", X: W})
		}
	}
	return out
}

func runC07(c *Ctx) {
	r := c.R
	r.Rule = "valid encodings X from C06's generators (library-written and reference-written; rows/params over every data type the library decodes) x every proper prefix X[:k], 1 <= k < len(X) (encodings longer than the exhaustive bound: first/last 600 prefixes, a stride of 997 and the packet/16-bit boundaries); quick: one encoding per (type, variant, option class, source); thorough: the whole C06 corpus; non-trivial = prefix longer than the token byte; distinct by construction = (encoding, k)"
	r.TrustedBase = []string{"harness/refpkg: reference encoder (produces the reference-written encodings)", "harness/canon: reflection dump"}
	r.Assumptions = []string{
		"an encoding counts as valid if the library, given all of it, parses it without error and uses it up; encodings the library itself rejects or misreads are C06's subject and are skipped here (counted per source)",
		"BLOB columns are left out (no reference layout; the library's writer and reader disagree, see C06)",
		"the truncated attempt is followed by what the channel does: position rolled back to the token, rest of the bytes added as a further packet, fresh package object",
		"no proper prefix of a generated encoding is itself a complete encoding of the same token: length-prefixed tokens need the bytes their prefix announces; fixed-layout tokens (DONE, MSG, RETURNSTATUS, LOGOUT) have one size; a ROW/PARAMS token's size is fixed by its format and the per-column length prefixes",
	}
	x := &c07Runner{c: c, r: r}
	exhaustiveMax := 4096
	if c.Replay != nil {
		var rec struct {
			Type    string          `json:"type"`
			Variant string          `json:"variant"`
			Opt     string          `json:"opt"`
			Source  string          `json:"source"`
			K       int             `json:"k"`
			Hex     string          `json:"hex"`
			Ref     json.RawMessage `json:"ref"`
		}
		if err := json.Unmarshal(c.Replay, &rec); err != nil {
			r.Inconclusive("bad replay: %v", err)
			return
		}
		q, err := refFromJSON(rec.Type, rec.Ref)
		if err != nil {
			r.Inconclusive("bad replay: %v", err)
			return
		}
		X, err := hex.DecodeString(rec.Hex)
		if err != nil {
			r.Inconclusive("bad replay: %v", err)
			return
		}
		if rec.Source == "channel" || rec.Source == "channel-continuation" {
			// channel-level case: re-run every cut of this encoding
			c07ChannelLeg(c, []c07Enc{{cs: pkgCase{Type: rec.Type, Variant: rec.Variant, Opt: rec.Opt, Ref: q}, Source: "ref", X: X}})
			return
		}
		x.run(c07Enc{cs: pkgCase{Type: rec.Type, Variant: rec.Variant, Opt: rec.Opt, Ref: q}, Source: rec.Source, X: X}, 1<<30, rec.K)
		return
	}

	g := genCtx{quick: c.Quick(), seed: c.Seed}
	corpus := genCorpus(g)
	if c.Quick() {
		corpus = append(corpus, genRandom(g, 3)...)
	} else {
		corpus = append(corpus, genRandom(g, 300)...)
	}
	if c.Quick() {
		// one case per (type, variant, option class)
		seen := map[string]bool{}
		var sel []pkgCase
		for _, cs := range corpus {
			key := cs.Type + "/" + cs.Variant + "/" + cs.Opt
			if seen[key] && cs.Opt != "random" {
				continue
			}
			seen[key] = true
			sel = append(sel, cs)
		}
		corpus = sel
	}
	encs := c07Encodings(corpus, r)
	// long encodings: every prefix for a few (thorough), sampled for the rest
	longAll := map[int]bool{}
	if !c.Quick() {
		perType := map[string]int{}
		for i, e := range encs {
			if len(e.X) > exhaustiveMax && perType[e.cs.Type+e.Source] < 1 && len(e.X) < 80000 {
				perType[e.cs.Type+e.Source]++
				longAll[i] = true
			}
		}
	}
	// largest first, so that the long ones do not end up at the tail
	order := make([]int, len(encs))
	for i := range order {
		order[i] = i
	}
	sort.SliceStable(order, func(a, b int) bool { return len(encs[order[a]].X) > len(encs[order[b]].X) })
	c.parallel(len(order), func(j int) {
		i := order[j]
		e := encs[i]
		max := exhaustiveMax
		if longAll[i] {
			max = 1 << 30
		}
		if i%499 == 0 {
			rec := x.rec(e, 0)
			if len(rec.Hex) > 400 {
				rec.Hex = rec.Hex[:400] + "…"
			}
			r.Sample(e.cs.Type+"/"+e.Source, rec)
		}
		x.run(e, max, 0)
	})
	c07ChannelLeg(c, encs)
}

// c07ChannelLeg: the same clause at channel level, with the truncation made
// final by an end of message. Message 1 ends (EOM) inside the package X at
// every prefix length; message 2 then carries the complete X followed by a
// final DONE. Whatever message 1 yields is drained and discarded; message 2
// must be delivered exactly as on a channel that never saw message 1.
func c07ChannelLeg(c *Ctx, encs []c07Enc) {
	r := c.R
	self := map[string]bool{"DONE": true, "DONEPROC": true, "DONEINPROC": true, "EED": true, "MSG": true, "RETURNSTATUS": true, "LOGINACK": true,
		"CAPABILITY": true, "ERROR": true, "PARAMFMT": true, "PARAMFMT2": true, "ROWFMT": true, "ROWFMT2": true, "CURINFO": true, "CURINFO3": true, "DYNAMIC": true, "DYNAMIC2": true, "ENVCHANGE": true}
	type job struct {
		e c07Enc
		k int
	}
	var jobs []job
	perType := map[string]int{}
	limit := 3
	if !c.Quick() {
		limit = 40
	}
	for _, e := range encs {
		if e.Source != "ref" || !self[e.cs.Type] || len(e.X) > 300 || len(e.X) < 2 {
			continue
		}
		if e.cs.Type == "DONE" || e.cs.Type == "DONEPROC" || e.cs.Type == "DONEINPROC" {
			// a DONE with status 0 would end message 2 early in the comparison; any DONE is fine as X
		}
		// packages with a list of members (the reader appends to a list
		// while it parses): the many-member variants are wanted, the quota
		// is per (type, member count class)
		cl := e.cs.Type
		if strings.Contains(e.cs.Opt, "items=") && !strings.Contains(e.cs.Opt, "items=0") && !strings.Contains(e.cs.Opt, "items=1,") {
			cl += "/several-members"
		}
		if perType[cl] >= limit {
			continue
		}
		perType[cl]++
		for k := 1; k < len(e.X); k++ {
			if len(e.X) > 64 && k > 16 && k < len(e.X)-16 && k%7 != 0 {
				continue
			}
			jobs = append(jobs, job{e, k})
		}
	}
	done0 := []byte{0xfd, 0, 0, 0, 0, 0, 0, 0, 0}
	// deliverSt: each part is one packet with the given status. What the
	// consumer's hooks were told during the last message counts as
	// delivered (ENVCHANGE and informational EED are not handed out as
	// packages).
	// mode bits of a delivery: on a logical channel (set up and acknowledged
	// with a header-only PROTACK packet first) instead of channel 0; with the
	// library's package debug log switched on (Info.DebugLogPackages; the log
	// output is discarded)
	const (
		modeLogical = 1
		modeDebug   = 2
		modePrelude = 4 // a complete earlier response was received and consumed on the channel first
	)
	log.SetOutput(io.Discard)
	var deliverMode func(parts [][]byte, status []byte, sendAfter, mode int) (delivered, bool)
	deliverSend := func(parts [][]byte, status []byte, sendAfter int) (delivered, bool) {
		return deliverMode(parts, status, sendAfter, 0)
	}
	deliverSt := func(parts [][]byte, status []byte) (delivered, bool) { return deliverMode(parts, status, -1, 0) }
	deliverMode = func(parts [][]byte, status []byte, sendAfter, mode int) (delivered, bool) {
		k, err := newKitWith(4096, 0, func(i *tds.Info) { i.DebugLogPackages = mode&modeDebug != 0 })
		if err != nil {
			return delivered{}, false
		}
		defer k.teardown()
		chanID := uint16(0)
		if mode&modeLogical != 0 {
			k.tr.OnWrite = func(rec xport.WriteRec) {
				if len(rec.Data) == 8 && rec.Data[0] == byte(tds.TDS_BUF_SETUP) {
					chanID = uint16(rec.Data[4])<<8 | uint16(rec.Data[5])
					k.tr.Feed(xport.Header{Type: byte(tds.TDS_BUF_PROTACK), Status: xport.EOM, Length: 8, Channel: chanID}.Bytes())
				}
			}
			var lc *tds.Channel
			call := c13Go(func() { lc, err = k.conn.NewChannel() })
			if !call.wait(30*time.Second) || call.pi != nil || err != nil || lc == nil {
				return delivered{}, false
			}
			k.tr.OnWrite = nil
			k.ch = lc
		}
		var hmu sync.Mutex
		var hooks []string
		_ = k.ch.RegisterEnvChangeHooks(func(typ tds.EnvChangeType, o, n string) {
			hmu.Lock()
			hooks = append(hooks, fmt.Sprintf("hook:env(%d,%q,%q)", typ, o, n))
			hmu.Unlock()
		})
		_ = k.ch.RegisterEEDHooks(func(e tds.EEDPackage) {
			hmu.Lock()
			hooks = append(hooks, fmt.Sprintf("hook:eed(%d)", e.MsgNumber))
			hmu.Unlock()
		})
		if mode&modePrelude != 0 {
			first := append(srv.ReturnStatus(77), srv.Done(srv.TokDone, srv.DoneCount, 0, 1)...)
			k.tr.Feed(xport.Packet(byte(tds.TDS_BUF_RESPONSE), xport.EOM, chanID, first))
			if !awaitIdle(k.tr, 30*time.Second) {
				return delivered{}, false
			}
			if d := drainChannel(k.ch, k.ctx); len(d.Dumps) != 3 || len(d.Errs) != 0 {
				return delivered{}, false
			}
			hmu.Lock()
			hooks = nil
			hmu.Unlock()
		}
		var last delivered
		for i, m := range parts {
			if i > 0 && status[i-1]&xport.EOM != 0 {
				hmu.Lock()
				hooks = nil // a new message starts
				hmu.Unlock()
			}
			k.tr.Feed(xport.Packet(byte(tds.TDS_BUF_RESPONSE), status[i], chanID, m))
			if !awaitIdle(k.tr, 30*time.Second) {
				return delivered{}, false
			}
			if status[i]&xport.EOM != 0 {
				last = drainChannel(k.ch, k.ctx)
			}
			if i == sendAfter {
				// the client's own send call ends here (its request went
				// out while the answer was already arriving)
				if err := k.ch.SendPackage(k.ctx, &tds.LanguagePackage{Cmd: "select 1"}); err != nil {
					return delivered{}, false
				}
			}
		}
		hmu.Lock()
		last.Dumps = append(last.Dumps, hooks...)
		last.Types = append(last.Types, hooks...)
		hmu.Unlock()
		return last, true
	}
	deliver := func(msgs ...[]byte) (delivered, bool) {
		st := make([]byte, len(msgs))
		for i := range st {
			st[i] = xport.EOM
		}
		return deliverSt(msgs, st)
	}
	refs := map[string]delivered{}
	var mu sync.Mutex
	c.parallel(len(jobs), func(i int) {
		j := jobs[i]
		full := append(append([]byte(nil), j.e.X...), done0...)
		key := string(j.e.X)
		mu.Lock()
		ref, ok := refs[key]
		mu.Unlock()
		if !ok {
			var good bool
			ref, good = deliver(full)
			if !good || len(ref.Errs) > 0 {
				r.Count("channel_leg_reference_not_clean", 1)
				return
			}
			mu.Lock()
			refs[key] = ref
			mu.Unlock()
		}
		r.Eval(1)
		got, good := deliver(j.e.X[:j.k], full)
		if !good {
			r.Inconclusive("channel leg: reader did not become idle (%s k=%d)", j.e.cs.Type, j.k)
			return
		}
		r.DistinctN(1)
		r.Count("channel_leg_cases", 1)
		if len(got.Errs) > 0 || !sameStrings(got.Dumps, ref.Dumps) {
			rec := c07CaseRec{Type: j.e.cs.Type, Variant: j.e.cs.Variant, Opt: j.e.cs.Opt, Source: "channel", K: j.k, Hex: hex.EncodeToString(j.e.X), Ref: j.e.cs.Ref}
			r.Violate("channel/"+j.e.cs.Type+"/complete-message-after-cut-off-message-differs", fmt.Sprintf("message 1 = first %d of %d bytes of a %s with EOM, message 2 = the complete package + final DONE: delivered %v errors %v; without message 1: %v", j.k, len(j.e.X), j.e.cs.Type, got.Types, got.Errs, ref.Types), rec)
			return
		}
		// the same cut as a packet boundary inside one message: the parse
		// attempt on packet 1 ends with not-enough-bytes and is repeated
		// when packet 2 has arrived
		r.Eval(1)
		got2, good2 := deliverSt([][]byte{full[:j.k], full[j.k:]}, []byte{0, xport.EOM})
		if !good2 {
			r.Inconclusive("channel leg: reader did not become idle (%s k=%d, continuation)", j.e.cs.Type, j.k)
			return
		}
		r.Count("channel_leg_continuation_cases", 1)
		if len(got2.Errs) == 0 && sameStrings(got2.Dumps, ref.Dumps) && j.k%2 == 1 {
			// ... and on a logical channel / with the package debug log on
			mode := []int{modeLogical, modeDebug, modeLogical | modeDebug, modePrelude, modePrelude | modeLogical}[(j.k/2)%5]
			rt.CaseLog("C07 channel %s k=%d mode=%d hex=%s", j.e.cs.Type, j.k, mode, hex.EncodeToString(j.e.X))
			r.Eval(1)
			got4, good4 := deliverMode([][]byte{full[:j.k], full[j.k:]}, []byte{0, xport.EOM}, -1, mode)
			if !good4 {
				r.Inconclusive("channel leg: reader did not become idle (%s k=%d, mode %d)", j.e.cs.Type, j.k, mode)
				return
			}
			r.Count(fmt.Sprintf("channel_leg_mode_%d_cases", mode), 1)
			if len(got4.Errs) > 0 || !sameStrings(got4.Dumps, ref.Dumps) {
				what := map[int]string{modeLogical: "on a logical channel", modeDebug: "with Info.DebugLogPackages on", modeLogical | modeDebug: "on a logical channel with Info.DebugLogPackages on", modePrelude: "as the second response on the channel", modePrelude | modeLogical: "as the second response on a logical channel"}[mode]
				rec := c07CaseRec{Type: j.e.cs.Type, Variant: j.e.cs.Variant, Opt: j.e.cs.Opt, Source: "channel-continuation", K: j.k, Hex: hex.EncodeToString(j.e.X), Ref: j.e.cs.Ref}
				r.Violate("channel/"+j.e.cs.Type+"/retried-after-truncated-attempt-differs/"+map[int]string{modeLogical: "logical-channel", modeDebug: "debug-log", modeLogical | modeDebug: "logical-channel+debug-log", modePrelude: "second-response", modePrelude | modeLogical: "second-response+logical-channel"}[mode], fmt.Sprintf("a %s of %d bytes + final DONE sent %s as packet 1 = first %d bytes (no EOM), packet 2 = the rest: delivered %v errors %v; on channel 0 in one packet: %v", j.e.cs.Type, len(j.e.X), what, j.k, got4.Types, got4.Errs, ref.Types), rec)
				return
			}
		}
		if len(got2.Errs) == 0 && sameStrings(got2.Dumps, ref.Dumps) && j.k%3 == 0 {
			// ... and with a send call of the client ending between the two packets
			r.Eval(1)
			got3, good3 := deliverSend([][]byte{full[:j.k], full[j.k:]}, []byte{0, xport.EOM}, 0)
			if !good3 {
				r.Inconclusive("channel leg: reader did not become idle or send failed (%s k=%d, send between)", j.e.cs.Type, j.k)
				return
			}
			r.Count("channel_leg_send_between_cases", 1)
			if len(got3.Errs) > 0 || !sameStrings(got3.Dumps, ref.Dumps) {
				rec := c07CaseRec{Type: j.e.cs.Type, Variant: j.e.cs.Variant, Opt: j.e.cs.Opt, Source: "channel-continuation", K: j.k, Hex: hex.EncodeToString(j.e.X), Ref: j.e.cs.Ref}
				r.Violate("channel/"+j.e.cs.Type+"/retried-after-truncated-attempt-differs/send-between", fmt.Sprintf("a %s of %d bytes + final DONE sent as packet 1 = first %d bytes (no EOM), then a SendPackage call of the client returns, then packet 2 = the rest: delivered %v errors %v; sent as one packet: %v", j.e.cs.Type, len(j.e.X), j.k, got3.Types, got3.Errs, ref.Types), rec)
				return
			}
		}
		if len(got2.Errs) > 0 || !sameStrings(got2.Dumps, ref.Dumps) {
			rec := c07CaseRec{Type: j.e.cs.Type, Variant: j.e.cs.Variant, Opt: j.e.cs.Opt, Source: "channel-continuation", K: j.k, Hex: hex.EncodeToString(j.e.X), Ref: j.e.cs.Ref}
			r.Violate("channel/"+j.e.cs.Type+"/retried-after-truncated-attempt-differs", fmt.Sprintf("a %s of %d bytes + final DONE sent as packet 1 = first %d bytes (no EOM), packet 2 = the rest: delivered (packages, then hook calls) %v errors %v; sent as one packet: %v", j.e.cs.Type, len(j.e.X), j.k, got2.Types, got2.Errs, ref.Types), rec)
		}
	})
}
