package main

// Shared machinery of C04 (round trip) and C05 (layout): value model,
// variants of the data types under test, adapters to the library calls (all
// under the panic monitor), value regions for signatures, and the violation
// aggregator that groups fixed and nullable variants of a type.

import (
	"bytes"
	"encoding/binary"
	"encoding/hex"
	"encoding/json"
	"fmt"
	"math"
	"math/big"
	"sort"
	"strings"
	"sync"
	"sync/atomic"
	"time"
	"unicode/utf8"

	"github.com/SAP/go-dblib/asetypes"
	"github.com/SAP/go-dblib/tds"

	"verif/harness/refdata"
	"verif/harness/rt"
)

// ---------------------------------------------------------------- values

type dtKind uint8

const (
	dkNil dtKind = iota
	dkU8
	dkI16
	dkI32
	dkI64
	dkU16
	dkU32
	dkU64
	dkF32
	dkF64
	dkBool
	dkMoney // N = int64 count of 1/10000
	dkDec   // Neg, Mag, Prec, Scale
	dkTime  // Day, Ns
	dkBytes // B
	dkStr   // B = bytes of the Go string
)

var dtKindNames = []string{"nil", "u8", "i16", "i32", "i64", "u16", "u32", "u64", "f32", "f64", "bool", "money", "dec", "time", "bytes", "str"}

func (k dtKind) String() string { return dtKindNames[k] }
func (k dtKind) MarshalText() ([]byte, error) {
	return []byte(dtKindNames[k]), nil
}
func (k *dtKind) UnmarshalText(b []byte) error {
	for i, n := range dtKindNames {
		if n == string(b) {
			*k = dtKind(i)
			return nil
		}
	}
	return fmt.Errorf("unknown value kind %q", b)
}

type dtHexBytes []byte

func (h dtHexBytes) MarshalText() ([]byte, error) { return []byte(hex.EncodeToString(h)), nil }
func (h *dtHexBytes) UnmarshalText(b []byte) error {
	d, err := hex.DecodeString(string(b))
	*h = d
	return err
}

// dtVal is the harness' own representation of a Go value of a data type.
type dtVal struct {
	K     dtKind     `json:"kind"`
	N     uint64     `json:"n,omitempty"`   // integers (two's complement), float bits, bool, money units
	Day   int64      `json:"day,omitempty"` // time: day number since 1970-01-01
	Ns    int64      `json:"ns,omitempty"`  // time: nanoseconds within the day
	Neg   bool       `json:"neg,omitempty"`
	Mag   string     `json:"mag,omitempty"` // decimal: unscaled magnitude, decimal digits
	Prec  int        `json:"prec,omitempty"`
	Scale int        `json:"scale,omitempty"`
	B     dtHexBytes `json:"hex,omitempty"`
	Text  string     `json:"text,omitempty"` // human-readable rendering, informational
	mag   *big.Int
}

func (v *dtVal) inst() refdata.Instant { return refdata.Instant{Day: v.Day, Ns: v.Ns} }

func (v *dtVal) magnitude() *big.Int {
	if v.mag == nil {
		v.mag, _ = new(big.Int).SetString(v.Mag, 10)
		if v.mag == nil {
			v.mag = new(big.Int)
		}
	}
	return v.mag
}

// describe fills the informational text.
func (v *dtVal) describe() {
	switch v.K {
	case dkTime:
		v.Text = v.inst().String()
	case dkF32:
		v.Text = fmt.Sprintf("float32 bits %#08x = %v", uint32(v.N), math.Float32frombits(uint32(v.N)))
	case dkF64:
		v.Text = fmt.Sprintf("float64 bits %#016x = %v", v.N, math.Float64frombits(v.N))
	case dkI16:
		v.Text = fmt.Sprint(int16(v.N))
	case dkI32:
		v.Text = fmt.Sprint(int32(v.N))
	case dkI64:
		v.Text = fmt.Sprint(int64(v.N))
	case dkMoney:
		v.Text = fmt.Sprintf("%d/10000", int64(v.N))
	case dkStr:
		v.Text = fmt.Sprintf("%+q", string(v.B))
		if len(v.Text) > 200 {
			v.Text = v.Text[:200] + "…"
		}
	case dkDec:
		s := ""
		if v.Neg {
			s = "-"
		}
		v.Text = fmt.Sprintf("%s%s e-%d (precision %d)", s, v.Mag, v.Scale, v.Prec)
	}
}

// nonZero: the value is not the zero value of its Go type.
func (v *dtVal) nonZero() bool {
	switch v.K {
	case dkNil:
		return false
	case dkDec:
		return v.magnitude().Sign() != 0
	case dkTime:
		return true
	case dkBytes, dkStr:
		return len(v.B) > 0
	}
	return v.N != 0
}

// ---------------------------------------------------------------- variants

// dtVariant is a (data type, wire length) combination under test.
type dtVariant struct {
	T     asetypes.DataType
	Name  string
	Fam   string // family: the fixed type a nullable variant stands for
	Len   int    // data length on the wire (fixed or chosen for the nullable type); 0 = variable
	K     dtKind
	Tok   byte // reference data type token
	Class refdata.FmtClass
	Role  string // temporal role: date, time, datetime, shortdate, bigdatetime, bigtime; "utf16" for UNITEXT
}

func (vr *dtVariant) nullable() bool { return vr.Class != refdata.ClassFixed }

func (vr *dtVariant) label() string {
	n := 0
	for _, o := range dtVariants {
		if o.Name == vr.Name {
			n++
		}
	}
	if n > 1 {
		return fmt.Sprintf("%s(%d)", vr.Name, vr.Len)
	}
	return vr.Name
}

var dtVariants []*dtVariant

func dtAdd(t asetypes.DataType, tok byte, fam string, n int, k dtKind, role string) {
	dtVariants = append(dtVariants, &dtVariant{T: t, Name: t.String(), Fam: fam, Len: n, K: k, Tok: tok, Class: refdata.ClassOf(tok), Role: role})
}

func init() {
	dtAdd(asetypes.INT1, refdata.TInt1, "INT1", 1, dkU8, "")
	dtAdd(asetypes.INTN, refdata.TIntN, "INT1", 1, dkU8, "")
	dtAdd(asetypes.UINTN, refdata.TUintN, "INT1", 1, dkU8, "")
	dtAdd(asetypes.INT2, refdata.TInt2, "INT2", 2, dkI16, "")
	dtAdd(asetypes.INTN, refdata.TIntN, "INT2", 2, dkI16, "")
	dtAdd(asetypes.INT4, refdata.TInt4, "INT4", 4, dkI32, "")
	dtAdd(asetypes.INTN, refdata.TIntN, "INT4", 4, dkI32, "")
	dtAdd(asetypes.INT8, refdata.TInt8, "INT8", 8, dkI64, "")
	dtAdd(asetypes.INTN, refdata.TIntN, "INT8", 8, dkI64, "")
	dtAdd(asetypes.UINT2, refdata.TUint2, "UINT2", 2, dkU16, "")
	dtAdd(asetypes.UINTN, refdata.TUintN, "UINT2", 2, dkU16, "")
	dtAdd(asetypes.UINT4, refdata.TUint4, "UINT4", 4, dkU32, "")
	dtAdd(asetypes.UINTN, refdata.TUintN, "UINT4", 4, dkU32, "")
	dtAdd(asetypes.UINT8, refdata.TUint8, "UINT8", 8, dkU64, "")
	dtAdd(asetypes.UINTN, refdata.TUintN, "UINT8", 8, dkU64, "")
	dtAdd(asetypes.FLT4, refdata.TFlt4, "FLT4", 4, dkF32, "")
	dtAdd(asetypes.FLTN, refdata.TFltN, "FLT4", 4, dkF32, "")
	dtAdd(asetypes.FLT8, refdata.TFlt8, "FLT8", 8, dkF64, "")
	dtAdd(asetypes.FLTN, refdata.TFltN, "FLT8", 8, dkF64, "")
	dtAdd(asetypes.BIT, refdata.TBit, "BIT", 1, dkBool, "")
	dtAdd(asetypes.MONEY, refdata.TMoney, "MONEY", 8, dkMoney, "")
	dtAdd(asetypes.MONEYN, refdata.TMoneyN, "MONEY", 8, dkMoney, "")
	dtAdd(asetypes.SHORTMONEY, refdata.TShortMoney, "SHORTMONEY", 4, dkMoney, "")
	dtAdd(asetypes.MONEYN, refdata.TMoneyN, "SHORTMONEY", 4, dkMoney, "")
	dtAdd(asetypes.DECN, refdata.TDecN, "NUMERIC", 0, dkDec, "")
	dtAdd(asetypes.NUMN, refdata.TNumN, "NUMERIC", 0, dkDec, "")
	dtAdd(asetypes.DATE, refdata.TDate, "DATE", 4, dkTime, "date")
	dtAdd(asetypes.DATEN, refdata.TDateN, "DATE", 4, dkTime, "date")
	dtAdd(asetypes.TIME, refdata.TTime, "TIME", 4, dkTime, "time")
	dtAdd(asetypes.TIMEN, refdata.TTimeN, "TIME", 4, dkTime, "time")
	dtAdd(asetypes.DATETIME, refdata.TDateTime, "DATETIME", 8, dkTime, "datetime")
	dtAdd(asetypes.DATETIMEN, refdata.TDateTimeN, "DATETIME", 8, dkTime, "datetime")
	dtAdd(asetypes.SHORTDATE, refdata.TShortDate, "SHORTDATE", 4, dkTime, "shortdate")
	dtAdd(asetypes.DATETIMEN, refdata.TDateTimeN, "SHORTDATE", 4, dkTime, "shortdate")
	dtAdd(asetypes.BIGDATETIMEN, refdata.TBigDateTimeN, "BIGDATETIMEN", 8, dkTime, "bigdatetime")
	dtAdd(asetypes.BIGTIMEN, refdata.TBigTimeN, "BIGTIMEN", 8, dkTime, "bigtime")
	dtAdd(asetypes.CHAR, refdata.TChar, "CHAR", 0, dkStr, "")
	dtAdd(asetypes.VARCHAR, refdata.TVarChar, "CHAR", 0, dkStr, "")
	dtAdd(asetypes.LONGCHAR, refdata.TLongChar, "CHAR", 0, dkStr, "")
	dtAdd(asetypes.TEXT, refdata.TText, "CHAR", 0, dkStr, "")
	dtAdd(asetypes.BINARY, refdata.TBinary, "BINARY", 0, dkBytes, "")
	dtAdd(asetypes.VARBINARY, refdata.TVarBinary, "BINARY", 0, dkBytes, "")
	dtAdd(asetypes.LONGBINARY, refdata.TLongBinary, "BINARY", 0, dkBytes, "")
	dtAdd(asetypes.IMAGE, refdata.TImage, "BINARY", 0, dkBytes, "")
	dtAdd(asetypes.XML, refdata.TXML, "BINARY", 0, dkBytes, "")
	dtAdd(asetypes.UNITEXT, refdata.TUnitext, "UNITEXT", 0, dkStr, "utf16")
}

// dtFamilySize: number of variants per family (for the aggregator).
func dtFamilyMembers(fam string) []string {
	var l []string
	for _, vr := range dtVariants {
		if vr.Fam == fam {
			l = append(l, vr.label())
		}
	}
	return l
}

func dtFind(label string) *dtVariant {
	for _, vr := range dtVariants {
		if vr.label() == label {
			return vr
		}
	}
	return nil
}

// dtVariantsOf returns the variants taking values of kind k (and role).
func dtVariantsOf(k dtKind, role string, lens ...int) []*dtVariant {
	var l []*dtVariant
	for _, vr := range dtVariants {
		if vr.K != k || vr.Role != role {
			continue
		}
		if len(lens) > 0 && vr.Len != lens[0] {
			continue
		}
		l = append(l, vr)
	}
	return l
}

// dtCheckTypeTable verifies that the harness' independent type tokens are
// the library's and that exactly the types with a Go mapping (minus BLOB) are
// covered. A mismatch is a harness fault.
func dtCheckTypeTable() error {
	covered := map[asetypes.DataType]bool{}
	for _, vr := range dtVariants {
		if byte(vr.T) != vr.Tok {
			return fmt.Errorf("data type token of %s: library %#x, reference %#x", vr.Name, byte(vr.T), vr.Tok)
		}
		covered[vr.T] = true
	}
	for t, rt := range asetypes.ReflectTypes {
		if rt == nil || t == asetypes.BLOB {
			if covered[t] {
				return fmt.Errorf("type %s without Go mapping is in the variant table", t)
			}
			continue
		}
		if !covered[t] {
			return fmt.Errorf("type %s has a Go mapping but is not in the variant table", t)
		}
		if t.GoReflectType() == nil {
			return fmt.Errorf("GoReflectType(%s) is nil but ReflectTypes has an entry", t)
		}
	}
	return nil
}

// ---------------------------------------------------------------- library adapters

var dtLE = binary.LittleEndian

// dtToLib converts a harness value into the Go value the library takes for the
// variant.
func dtToLib(vr *dtVariant, v *dtVal) interface{} {
	switch v.K {
	case dkNil:
		return nil
	case dkU8:
		return uint8(v.N)
	case dkI16:
		return int16(v.N)
	case dkI32:
		return int32(v.N)
	case dkI64:
		return int64(v.N)
	case dkU16:
		return uint16(v.N)
	case dkU32:
		return uint32(v.N)
	case dkU64:
		return v.N
	case dkF32:
		return math.Float32frombits(uint32(v.N))
	case dkF64:
		return math.Float64frombits(v.N)
	case dkBool:
		return v.N != 0
	case dkMoney:
		p, s := asetypes.ASEMoneyPrecision, asetypes.ASEMoneyScale
		if vr.Len == 4 {
			p, s = asetypes.ASEShortMoneyPrecision, asetypes.ASEShortMoneyScale
		}
		d, err := asetypes.NewDecimal(p, s)
		if err != nil {
			panic("harness: NewDecimal for money: " + err.Error())
		}
		d.SetInt64(int64(v.N))
		return d
	case dkDec:
		d, err := asetypes.NewDecimal(v.Prec, v.Scale)
		if err != nil {
			panic("harness: NewDecimal: " + err.Error())
		}
		d.SetBytes(v.magnitude().Bytes())
		if v.Neg {
			d.Negate()
		}
		return d
	case dkTime:
		return v.inst().Time()
	case dkBytes:
		return append([]byte(nil), v.B...)
	case dkStr:
		return string(v.B)
	}
	panic("harness: toLib: unknown kind")
}

// dtLengthArg is the 'length' argument DataType.Bytes gets from a format: the
// maximum length of the field.
func dtLengthArg(vr *dtVariant, v *dtVal) int64 {
	if vr.Len > 0 {
		return int64(vr.Len)
	}
	switch v.K {
	case dkDec:
		return int64(refdata.NumericLen(v.Prec))
	case dkBytes, dkStr:
		if vr.Class == refdata.ClassLen1 {
			return 255
		}
		return 2147483647
	}
	return 0
}

type dtLibOut struct {
	bs    []byte
	val   interface{}
	err   error
	panic *rt.PanicInfo
}

func dtLibBytes(vr *dtVariant, lv interface{}, length int64) (o dtLibOut) {
	o.panic = rt.Catch(func() { o.bs, o.err = vr.T.Bytes(dtLE, lv, length) })
	if o.panic != nil {
		return
	}
	// encoding must not change the caller's value: the same value is encoded
	// a second time, and where the two encodings differ the second one is
	// what the oracles judge (it then differs from the reference as well)
	var o2 dtLibOut
	o2.panic = rt.Catch(func() { o2.bs, o2.err = vr.T.Bytes(dtLE, lv, length) })
	if o2.panic != nil || (o2.err == nil) != (o.err == nil) || !bytes.Equal(o2.bs, o.bs) {
		atomic.AddInt64(&dtSecondEncodingDiffers, 1)
		return o2
	}
	return
}

// dtSecondEncodingDiffers counts values whose second encoding differed from
// the first (0 on a tree that holds the property; the differing encoding is
// judged by the callers).
var dtSecondEncodingDiffers int64

func dtLibGoValue(vr *dtVariant, bs []byte) (o dtLibOut) {
	o.panic = rt.Catch(func() { o.val, o.err = vr.T.GoValue(dtLE, bs) })
	return
}

// dtIsNullDecimal: the library's typed NULL for decimals (a *Decimal without a
// number; asetypes.NullDecimal.Scan treats it as not valid).
func dtIsNullDecimal(x interface{}) bool {
	d, ok := x.(*asetypes.Decimal)
	return ok && d != nil && d.String() == "<nil>"
}

// dtCmpMode selects how much of a value is compared.
type dtCmpMode int

const (
	dtCmpExact   dtCmpMode = iota
	dtCmpNoPS              // decimals: sign and magnitude only (no precision/scale on the wire of a bare value)
	dtCmpTickTOD           // TIME family: time of day, to the tick
)

// dtSameValue compares a library value with the harness value. tol3 is the
// tolerance for temporal kinds in units of 1/3 ns (0 = exact): the
// difference must be strictly smaller.
func dtSameValue(vr *dtVariant, v *dtVal, got interface{}, mode dtCmpMode, tol3 int64) (bool, string) {
	bad := func(f string, a ...interface{}) (bool, string) { return false, fmt.Sprintf(f, a...) }
	switch v.K {
	case dkNil:
		if got == nil || ((vr.K == dkDec || vr.K == dkMoney) && dtIsNullDecimal(got)) {
			return true, ""
		}
		return bad("got %T %v, want NULL (nil)", got, got)
	case dkU8:
		x, ok := got.(uint8)
		if !ok || x != uint8(v.N) {
			return bad("got %T %v, want uint8 %d", got, got, uint8(v.N))
		}
	case dkI16:
		x, ok := got.(int16)
		if !ok || x != int16(v.N) {
			return bad("got %T %v, want int16 %d", got, got, int16(v.N))
		}
	case dkI32:
		x, ok := got.(int32)
		if !ok || x != int32(v.N) {
			return bad("got %T %v, want int32 %d", got, got, int32(v.N))
		}
	case dkI64:
		x, ok := got.(int64)
		if !ok || x != int64(v.N) {
			return bad("got %T %v, want int64 %d", got, got, int64(v.N))
		}
	case dkU16:
		x, ok := got.(uint16)
		if !ok || x != uint16(v.N) {
			return bad("got %T %v, want uint16 %d", got, got, uint16(v.N))
		}
	case dkU32:
		x, ok := got.(uint32)
		if !ok || x != uint32(v.N) {
			return bad("got %T %v, want uint32 %d", got, got, uint32(v.N))
		}
	case dkU64:
		x, ok := got.(uint64)
		if !ok || x != v.N {
			return bad("got %T %v, want uint64 %d", got, got, v.N)
		}
	case dkF32:
		x, ok := got.(float32)
		if !ok || math.Float32bits(x) != uint32(v.N) {
			if ok {
				return bad("got float32 bits %#08x, want %#08x", math.Float32bits(x), uint32(v.N))
			}
			return bad("got %T %v, want float32 bits %#08x", got, got, uint32(v.N))
		}
	case dkF64:
		x, ok := got.(float64)
		if !ok || math.Float64bits(x) != v.N {
			if ok {
				return bad("got float64 bits %#016x, want %#016x", math.Float64bits(x), v.N)
			}
			return bad("got %T %v, want float64 bits %#016x", got, got, v.N)
		}
	case dkBool:
		x, ok := got.(bool)
		if !ok || x != (v.N != 0) {
			return bad("got %T %v, want bool %v", got, got, v.N != 0)
		}
	case dkMoney:
		d, ok := got.(*asetypes.Decimal)
		if !ok || d == nil || dtIsNullDecimal(d) {
			return bad("got %T %v, want *Decimal %d/10000", got, got, int64(v.N))
		}
		wp, ws := asetypes.ASEMoneyPrecision, asetypes.ASEMoneyScale
		if vr.Len == 4 {
			wp, ws = asetypes.ASEShortMoneyPrecision, asetypes.ASEShortMoneyScale
		}
		if d.Int().Cmp(big.NewInt(int64(v.N))) != 0 || d.Scale != ws || d.Precision != wp {
			return bad("got unscaled %s precision %d scale %d, want unscaled %d precision %d scale %d", d.Int(), d.Precision, d.Scale, int64(v.N), wp, ws)
		}
	case dkDec:
		d, ok := got.(*asetypes.Decimal)
		if !ok || d == nil || dtIsNullDecimal(d) {
			return bad("got %T %v, want *Decimal", got, got)
		}
		want := new(big.Int).Set(v.magnitude())
		if v.Neg {
			want.Neg(want)
		}
		if d.Int().Cmp(want) != 0 {
			return bad("got unscaled integer %s, want %s", d.Int(), want)
		}
		if mode != dtCmpNoPS && (d.Precision != v.Prec || d.Scale != v.Scale) {
			return bad("got precision %d scale %d, want precision %d scale %d (unscaled %s)", d.Precision, d.Scale, v.Prec, v.Scale, want)
		}
	case dkTime:
		t, ok := got.(time.Time)
		if !ok {
			return bad("got %T %v, want time.Time", got, got)
		}
		g := refdata.FromTime(t)
		w := v.inst()
		if mode == dtCmpTickTOD {
			// only the time of day is carried by the type
			wns := w.Ns
			if tol3 > 0 && 6*wns >= (2*refdata.TicksPerDay-1)*dtOneTick3 {
				// The instant lies in the last half tick of the day: the
				// nearest tick would be 24:00:00, which TIME cannot hold.
				// Such instants are outside the type's domain; the codec
				// must deliver the last tick of the day for them (an
				// out-of-range tick on the wire is C05's subject).
				wns = (refdata.TicksPerDay - 1) * dtOneTick3 / 3
			}
			d3 := 3 * (g.Ns - wns)
			if (tol3 == 0 && d3 != 0) || (tol3 > 0 && (d3 >= tol3 || d3 <= -tol3)) {
				return bad("got time of day %s (date part %s), want %s", refdata.Instant{Ns: g.Ns}.String()[11:], g.String()[:10], w.String()[11:])
			}
			return true, ""
		}
		d := refdata.DiffNs(g, w)
		if (tol3 == 0 && d != 0) || (tol3 > 0 && (3*d >= tol3 || 3*d <= -tol3)) {
			return bad("got %s, want %s", g, w)
		}
	case dkBytes:
		x, ok := got.([]byte)
		if !ok || string(x) != string(v.B) {
			return bad("got %T %s, want []byte %s", got, dtShort(got), dtShort([]byte(v.B)))
		}
	case dkStr:
		x, ok := got.(string)
		if !ok || x != string(v.B) {
			return bad("got %T %s, want string %s", got, dtShort(got), dtShort(string(v.B)))
		}
	}
	return true, ""
}

func dtShort(x interface{}) string {
	var s string
	switch t := x.(type) {
	case []byte:
		s = hex.EncodeToString(t)
	case string:
		s = fmt.Sprintf("%+q", t)
	default:
		s = fmt.Sprint(x)
	}
	if len(s) > 160 {
		return s[:160] + fmt.Sprintf("…(%d chars)", len(s))
	}
	return s
}

// ---------------------------------------------------------------- regions

const dtOneTick3 = 10000000 // one 1/300 s tick in units of 1/3 ns
const dtOneMin3 = 3 * 60 * 1000000000

// dtRegion classifies a value coarsely for signatures.
func dtRegion(vr *dtVariant, v *dtVal) string {
	switch v.K {
	case dkNil:
		return "null"
	case dkU8, dkU16, dkU32, dkU64:
		if v.N == 0 {
			return "zero"
		}
		return "positive"
	case dkI16, dkI32, dkI64:
		w := map[dtKind]int{dkI16: 2, dkI32: 4, dkI64: 8}[v.K]
		switch x := refdata.SignExtend(w, v.N); {
		case x == 0:
			return "zero"
		case x < 0:
			return "negative"
		}
		return "positive"
	case dkBool:
		if v.N != 0 {
			return "true"
		}
		return "false"
	case dkF32:
		f := float64(math.Float32frombits(uint32(v.N)))
		return dtRegionFloat(f, uint32(v.N)>>31 != 0, v.N<<33 == 0)
	case dkF64:
		return dtRegionFloat(math.Float64frombits(v.N), v.N>>63 != 0, v.N<<1 == 0)
	case dkMoney:
		x := int64(v.N)
		switch {
		case x == 0:
			return "zero"
		case x < 0:
			return "negative"
		case vr.Len == 4:
			return "positive"
		case x < 1<<31:
			return "positive-low-word-only"
		case x < 1<<32:
			return "positive-low-word-high-bit"
		}
		return "positive-high-word"
	case dkDec:
		switch {
		case v.magnitude().Sign() == 0:
			return "zero"
		case v.Neg:
			return "negative"
		}
		return "positive"
	case dkBytes:
		return "bytes"
	case dkStr:
		return dtRegionString(string(v.B))
	case dkTime:
		return dtRegionTime(vr, v)
	}
	return "?"
}

func dtRegionFloat(f float64, neg, zeroBits bool) string {
	switch {
	case math.IsNaN(f):
		return "nan"
	case math.IsInf(f, 0):
		return "infinity"
	case zeroBits && neg:
		return "negative-zero"
	case zeroBits:
		return "zero"
	}
	return "finite"
}

func dtRegionString(s string) string {
	if !utf8.ValidString(s) {
		return "non-utf8-bytes"
	}
	max := rune(0)
	for _, r := range s {
		if r > max {
			max = r
		}
	}
	switch {
	case max < 0x80:
		return "ascii"
	case max <= 0xFF:
		return "latin1"
	case max <= 0xFFFF:
		return "codepoint-above-U+00FF"
	}
	return "supplementary-plane"
}

func dtRegionTime(vr *dtVariant, v *dtVal) string {
	switch vr.Role {
	case "date":
		if v.Day < refdata.Day1900 {
			return "before-1900"
		}
		return "1900-or-later"
	case "bigdatetime":
		if v.Ns == 0 {
			return "midnight"
		}
		return "with-time-part"
	case "bigtime":
		return "time-of-day"
	case "shortdate":
		if v.Ns%60000000000 != 0 {
			return "with-seconds"
		}
		if v.Ns == 0 {
			return "midnight"
		}
		return "whole-minute"
	}
	// 1/300 s types
	last := 3*v.Ns > (refdata.TicksPerDay-1)*dtOneTick3
	neg := vr.Role == "datetime" && v.Day < refdata.Day1900
	switch {
	case neg && v.Ns != 0:
		return "negative-day-with-time-part"
	case neg:
		return "negative-day-midnight"
	case last:
		return "last-sub-tick-of-day"
	case v.Ns == 0:
		return "midnight"
	}
	if _, exact := refdata.TickExact(v.Ns); exact {
		return "on-tick"
	}
	if v.Ns%1000000 == 0 {
		return "whole-millisecond"
	}
	return "sub-millisecond"
}

// ---------------------------------------------------------------- cases

// dtCase is one recorded case (replayable).
type dtCase struct {
	Type  string `json:"type"`           // variant label, e.g. "DATETIMEN(8)"
	Dir   string `json:"direction"`      // value | null | params | row | bytes
	V     dtVal  `json:"value"`          // the Go value
	Wire  string `json:"wire,omitempty"` // hex of the bytes observed / fed
	Extra string `json:"extra,omitempty"`
	// Prev: the value of the ROW that precedes this value's ROW under one
	// format (two-rows leg)
	Prev *dtVal `json:"previous_row_value,omitempty"`
	// PrevType (two-columns leg): Prev is the value of the FIRST column of
	// the row, of this variant; V is the second column's
	PrevType string `json:"first_column_type,omitempty"`
}

// ---------------------------------------------------------------- aggregator

type dtViolKey struct{ clause, fam, label, region string }

type dtViolRec struct {
	detail string
	cs     dtCase
}

// dtAgg collects violations per (clause, variant, dtRegion) and emits them at
// the end, grouped under the family name when every member of the family
// failed in that (clause, dtRegion), under the variant's own name otherwise.
type dtAgg struct {
	mu    sync.Mutex
	count map[dtViolKey]int64
	recs  map[dtViolKey][]dtViolRec
}

func newDtAgg() *dtAgg {
	return &dtAgg{count: map[dtViolKey]int64{}, recs: map[dtViolKey][]dtViolRec{}}
}

func (a *dtAgg) add(clause string, vr *dtVariant, reg, detail string, cs dtCase) {
	k := dtViolKey{clause, vr.Fam, vr.label(), reg}
	a.mu.Lock()
	a.count[k]++
	if len(a.recs[k]) < 3 {
		cs.V.describe()
		a.recs[k] = append(a.recs[k], dtViolRec{detail, cs})
	}
	a.mu.Unlock()
}

// flush reports to r. single = replay mode (no family grouping).
func (a *dtAgg) flush(r *rt.Result, single bool) {
	type grp struct{ clause, fam, region string }
	groups := map[grp][]dtViolKey{}
	for k := range a.count {
		g := grp{k.clause, k.fam, k.region}
		groups[g] = append(groups[g], k)
	}
	var gs []grp
	for g := range groups {
		gs = append(gs, g)
	}
	sort.Slice(gs, func(i, j int) bool {
		return gs[i].clause+gs[i].fam+gs[i].region < gs[j].clause+gs[j].fam+gs[j].region
	})
	for _, g := range gs {
		ks := groups[g]
		sort.Slice(ks, func(i, j int) bool { return ks[i].label < ks[j].label })
		// members applicable to this dtRegion (text-pointer types have no params leg etc.: the
		// caller only adds violations for legs a variant takes part in, so compare against
		// the members that take part in the clause)
		members := dtClauseMembers(g.clause, g.fam)
		all := !single && len(ks) == len(members) && len(members) > 1
		for _, k := range ks {
			name := k.label
			if i := strings.Index(name, "("); i > 0 {
				name = name[:i]
			}
			if all {
				name = g.fam
			}
			sig := g.clause + "/" + name
			if i := strings.Index(g.clause, "|"); i > 0 { // clause|suffix -> clause/NAME/suffix/dtRegion
				sig = g.clause[:i] + "/" + name + "/" + g.clause[i+1:]
				if g.clause[:i] == "panic" { // panic/<frame>/<data type>
					sig = "panic/" + g.clause[i+1:] + "/" + name
				}
			}
			if g.region != "" {
				sig += "/" + g.region
			}
			n := a.count[k]
			for i, rec := range a.recs[k] {
				_ = i
				r.Violate(sig, fmt.Sprintf("[%s] %s", k.label, rec.detail), rec.cs)
				n--
			}
			for ; n > 0; n-- {
				r.Violate(sig, "", nil)
			}
		}
	}
}

// dtClauseMembers: variants of a family that take part in a clause.
func dtClauseMembers(clause, fam string) []string {
	var l []string
	for _, vr := range dtVariants {
		if vr.Fam != fam {
			continue
		}
		tp := vr.Class == refdata.ClassTextPtr
		base := clause
		if i := strings.Index(base, "|"); i > 0 {
			base = base[:i]
		}
		switch base {
		case "params", "null", "params-null":
			if tp {
				continue
			}
		case "row-data", "row-govalue":
			if !tp {
				continue
			}
		}
		l = append(l, vr.label())
	}
	return l
}

// ---------------------------------------------------------------- per-chunk accumulator

// dtAcc batches evidence counters of one worker chunk.
type dtAcc struct {
	r        *rt.Result
	evals    int64
	distinct int64
	counts   map[string]int64
	// prev: per variant the last value that went through the row leg
	prev map[string]*dtVal
	nth  int
	// lastAny: the last value (of any variant) that went through the row leg
	lastAny   *dtVal
	lastAnyVr *dtVariant
}

func newDtAcc(r *rt.Result) *dtAcc { return &dtAcc{r: r, counts: map[string]int64{}} }

func (a *dtAcc) flush() {
	a.r.Eval(a.evals)
	a.r.DistinctN(a.distinct)
	for k, n := range a.counts {
		a.r.Count(k, n)
	}
	a.evals, a.distinct = 0, 0
	a.counts = map[string]int64{}
}

// ---------------------------------------------------------------- misc

func dtHex(b []byte) string {
	if len(b) > 96 {
		return hex.EncodeToString(b[:96]) + fmt.Sprintf("…(%d bytes)", len(b))
	}
	return hex.EncodeToString(b)
}

func dtJSON(v interface{}) string {
	b, _ := json.Marshal(v)
	return string(b)
}

var _ = tds.TDS_PARAMS
