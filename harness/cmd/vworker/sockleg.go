package main

import (
	"bytes"
	"context"
	"encoding/hex"
	"errors"
	"fmt"
	"strings"
	"time"

	"github.com/SAP/go-dblib/tds"

	"verif/harness/canon"
	"verif/harness/rt"
	"verif/harness/srv"
	"verif/harness/xport"
)

// Real-socket legs: the same oracles on a connection made by the real
// tds.NewConn over a unix-domain socket (see sockkit.go). They are small and
// run serially (the reader goroutine is identified by its frames).

type sockCase struct {
	Leg    string `json:"leg"`
	What   string `json:"what"`
	Hex    string `json:"hex,omitempty"`
	Cuts   []int  `json:"cuts,omitempty"`
	Offset int    `json:"offset,omitempty"`
	Len    int    `json:"len,omitempty"`
	PS     int    `json:"packet_size,omitempty"`
}

func sockViolate(r *rt.Result, clause, detail string, cs sockCase) {
	r.Violate("real-socket/"+clause, "connection made by tds.NewConn over a unix socket: "+detail, cs)
}

// sockDeliver writes the chunks one by one (each at most one read on the
// client side) and returns what the channel delivers.
func sockDeliver(chunks [][]byte) (delivered, error) {
	k, err := newSockKit(4096, 0)
	if err != nil {
		return delivered{}, err
	}
	defer k.close()
	for _, c := range chunks {
		if err := k.feed(c); err != nil {
			return delivered{}, err
		}
	}
	return drainChannel(k.ch, k.ctx), nil
}

// runSockLegC02: initial-state equivalence of the two constructors and
// fragmentation independence over the real socket.
func runSockLegC02(c *Ctx) {
	r := c.R
	// (a) the hook constructor and the real one yield the same observable state
	sk, err := newSockKit(64, 0)
	if err != nil {
		r.Inconclusive("real-socket leg: %v", err)
		return
	}
	xk, err := newKit(64, 0)
	if err != nil {
		sk.close()
		r.Inconclusive("real-socket leg: %v", err)
		return
	}
	r.Eval(1)
	if sk.conn.PacketSize() != xk.conn.PacketSize() || sk.conn.PacketBodySize() != xk.conn.PacketBodySize() {
		sockViolate(r, "constructor-state/packet-size", fmt.Sprintf("NewConn: packet size %d, hook constructor: %d", sk.conn.PacketSize(), xk.conn.PacketSize()), sockCase{Leg: "C02", What: "constructor-state"})
	}
	if a, b := canon.Dump(sk.conn.Caps), canon.Dump(xk.conn.Caps); a != b {
		sockViolate(r, "constructor-state/capabilities", "requested capabilities differ between NewConn and the hook constructor", sockCase{Leg: "C02", What: "constructor-state"})
	}
	sk.close()
	xk.teardown()
	r.Count("real_socket_constructor_state_compared", 1)

	// (b) fragmentation independence
	resps := catalogue()
	rnd := rt.NewRand(c.Seed, "sock/c02")
	n := 0
	for ri, resp := range resps {
		if ri%4 != 0 {
			continue
		}
		body := resp.Bytes()
		refOut, err := c02Deliver(c02Packets(body, nil, nil, false), "reader", nil)
		if err != nil || refOut.watchdog || len(refOut.d.Errs) > 0 || len(refOut.d.Dumps) == 0 {
			continue
		}
		type variant struct {
			name   string
			chunks [][]byte
			cuts   []int
		}
		var vs []variant
		one := c02Packets(body, nil, nil, false)
		vs = append(vs, variant{"one-packet-one-write", one, nil})
		cu := randomCuts(rnd, len(body), 2)
		vs = append(vs, variant{"packet-per-write", c02Packets(body, cu, nil, false), cu})
		vs = append(vs, variant{"all-packets-one-write", [][]byte{xport.Concat(c02Packets(body, cu, nil, false))}, cu})
		st := xport.Concat(c02Packets(body, cu, nil, false))
		for s := 1; s <= 7; s += 2 {
			vs = append(vs, variant{fmt.Sprintf("header-split-%d", s), [][]byte{st[:s], st[s:]}, cu})
		}
		if len(st) < 200 {
			var ob [][]byte
			for i := range st {
				ob = append(ob, st[i:i+1])
			}
			vs = append(vs, variant{"one-byte-per-write", ob, cu})
		}
		for _, v := range vs {
			r.Eval(1)
			n++
			got, err := sockDeliver(v.chunks)
			cs := sockCase{Leg: "C02", What: resp.Name + "/" + v.name, Hex: hex.EncodeToString(body), Cuts: v.cuts}
			if err != nil {
				r.Inconclusive("real-socket delivery of %s/%s: %v", resp.Name, v.name, err)
				continue
			}
			r.Distinct("sock|" + cs.What)
			if len(got.Errs) > 0 || !sameStrings(got.Dumps, refOut.d.Dumps) {
				sockViolate(r, "fragmentation/"+strings.SplitN(v.name, "-", 2)[0], fmt.Sprintf("response %s delivered as %s: packages %v errors %v, reference %v", resp.Name, v.name, got.Types, got.Errs, refOut.d.Types), cs)
			}
		}
	}
	r.Count("real_socket_deliveries", int64(n))

	// (c) a slow server with PacketReadTimeout = 1 s: one packet arrives in
	// four pieces 400 ms apart. No single pause reaches the timeout, the
	// packet as a whole takes longer than it: the configured timeout bounds
	// the silence between two reads, not the duration of a packet. (The
	// sleeps shape the workload; the verdict is the delivered list.)
	slow := 0
	for ri, resp := range resps {
		if slow >= 2 || ri%5 != 1 {
			continue
		}
		body := resp.Bytes()
		refOut, err := c02Deliver(c02Packets(body, nil, nil, false), "reader", nil)
		if err != nil || refOut.watchdog || len(refOut.d.Errs) > 0 || len(refOut.d.Dumps) == 0 || len(body) < 8 {
			continue
		}
		slow++
		r.Eval(1)
		st := xport.Concat(c02Packets(body, nil, nil, false))
		cs := sockCase{Leg: "C02", What: resp.Name + "/slow-four-pieces-read-timeout-1s", Hex: hex.EncodeToString(body)}
		k, err := newSockKit(4096, 1)
		if err != nil {
			r.Inconclusive("real-socket leg: %v", err)
			continue
		}
		q := len(st) / 4
		var ferr error
		for i := 0; i < 4 && ferr == nil; i++ {
			end := (i + 1) * q
			if i == 3 {
				end = len(st)
			}
			if i > 0 {
				time.Sleep(400 * time.Millisecond)
			}
			ferr = k.feed(st[i*q : end])
		}
		got := drainChannel(k.ch, k.ctx)
		k.close()
		if ferr != nil && len(got.Errs) == 0 {
			r.Inconclusive("real-socket slow delivery of %s: %v", resp.Name, ferr)
			continue
		}
		r.Distinct("sock|" + cs.What)
		if len(got.Errs) > 0 || !sameStrings(got.Dumps, refOut.d.Dumps) {
			sockViolate(r, "fragmentation/slow-reads-within-the-read-timeout", fmt.Sprintf("response %s in one packet delivered in four writes 400 ms apart with PacketReadTimeout = 1 s: packages %v errors %.300v, reference %v", resp.Name, got.Types, got.Errs, refOut.d.Types), cs)
		}
	}
	r.Count("real_socket_slow_deliveries", int64(slow))

	// (d) the same pace on the in-memory transport, which answers a read
	// that finds nothing inside the packet body with (0, io.EOF) - "nothing
	// there at the moment", the situation Packet.ReadFrom handles by going
	// on as long as the read timeout, restarted by every piece, has not
	// run out. Header + four body pieces 400 ms apart, PacketReadTimeout 1 s.
	// The pauses between the feeds are measured: a run in which one
	// reached 800 ms says nothing and is repeated; a delivery that differs
	// is repeated once and reported only if it differs again.
	trickle := 0
	for ri, resp := range resps {
		if trickle >= 2 || ri%5 != 2 {
			continue
		}
		body := resp.Bytes()
		refOut, err := c02Deliver(c02Packets(body, nil, nil, false), "reader", nil)
		if err != nil || refOut.watchdog || len(refOut.d.Errs) > 0 || len(refOut.d.Dumps) == 0 || len(body) < 8 {
			continue
		}
		trickle++
		r.Eval(1)
		st := xport.Concat(c02Packets(body, nil, nil, false))
		cs := sockCase{Leg: "C02", What: resp.Name + "/trickle-four-pieces-transient-eof-read-timeout-1s", Hex: hex.EncodeToString(body)}
		bad, judged := 0, 0
		var last delivered
		for attempt := 0; attempt < 6 && judged < 2 && bad == judged; attempt++ {
			k, err := newKit(4096, 1)
			if err != nil {
				r.Inconclusive("trickle delivery: %v", err)
				break
			}
			k.tr.SoftEOF(8, int64(len(st)))
			k.tr.SoftEOFWithData = trickle%2 == 0 // the second response: data and "nothing more" in one read
			q := (len(st) - 8) / 4
			paceOK := true
			t0 := time.Now()
			for i := 0; i < 4; i++ {
				lo, hi := 8+i*q, 8+(i+1)*q
				if i == 0 {
					lo = 0
				}
				if i == 3 {
					hi = len(st)
				}
				if i > 0 {
					time.Sleep(400 * time.Millisecond)
					if time.Since(t0) > 800*time.Millisecond {
						paceOK = false
					}
					t0 = time.Now()
				}
				k.tr.Feed(st[lo:hi])
			}
			// the consumer takes packages until it has as many as the
			// reference delivery or is given an error (bounded)
			var got delivered
			wctx, wcancel := context.WithTimeout(context.Background(), 15*time.Second)
			for len(got.Dumps) < len(refOut.d.Dumps) && len(got.Errs) == 0 {
				pkg, err := k.ch.NextPackage(wctx, true)
				if err != nil {
					got.Errs = append(got.Errs, err.Error())
					break
				}
				got.Dumps = append(got.Dumps, canon.Dump(pkg))
				got.Types = append(got.Types, fmt.Sprintf("%T", pkg))
			}
			wcancel()
			if len(got.Errs) == 0 {
				rest := drainChannel(k.ch, k.ctx)
				got.Dumps = append(got.Dumps, rest.Dumps...)
				got.Types = append(got.Types, rest.Types...)
				got.Errs = append(got.Errs, rest.Errs...)
			}
			soft := k.tr.SoftReads()
			k.teardown()
			if !paceOK {
				r.Count("trickle_runs_without_verdict", 1)
				continue
			}
			judged++
			r.Count("trickle_transient_eof_reads", soft)
			last = got
			if len(got.Errs) > 0 || !sameStrings(got.Dumps, refOut.d.Dumps) {
				bad++
			}
		}
		if judged > 0 {
			r.Distinct("trickle|" + cs.What)
			r.Count("trickle_deliveries_judged", int64(judged))
		}
		if judged >= 2 && bad == judged {
			r.Violate("fragmentation/slow-pieces-with-transient-eof-within-the-read-timeout", fmt.Sprintf("response %s in one packet whose body arrives in four pieces 400 ms apart (no pause reaches PacketReadTimeout = 1 s, reads in between return (0, io.EOF)): packages %v errors %.300v, reference %v (twice in a row)", resp.Name, last.Types, last.Errs, refOut.d.Types), cs)
		}
	}
}

// runSockLegC01: framing of outgoing messages as seen by a server behind a socket.
func runSockLegC01(c *Ctx) {
	r := c.R
	k, err := newSockKit(64, 0)
	if err != nil {
		r.Inconclusive("real-socket leg: %v", err)
		return
	}
	defer k.close()
	ps := 512
	seen := 0
	n := 0
	for _, size := range []int{512, 2048, 256} {
		if size != ps {
			resp := append(srv.EnvChange(srv.EnvMember{Type: 4, New: itoa(size), Old: itoa(ps)}), srv.Done(srv.TokDone, 0, 0, 0)...)
			if err := k.feed(xport.Packet(byte(tds.TDS_BUF_RESPONSE), xport.EOM, 0, resp)); err != nil {
				r.Inconclusive("real-socket leg: %v", err)
				return
			}
			drainChannel(k.ch, k.ctx)
			ps = size
		}
		body := ps - 8
		for _, L := range []int{1 + 6, body - 1, body, body + 1, 2 * body, 2*body + 1, 3 * body} {
			r.Eval(1)
			n++
			cmd := strings.Repeat("x", L-6)
			pkg := &tds.LanguagePackage{Cmd: cmd}
			want, _ := c01Encode([]tds.Package{&tds.LanguagePackage{Cmd: cmd}})
			k.ch.CurrentHeaderType = tds.TDS_BUF_LANG
			cs := sockCase{Leg: "C01", What: "message", Len: L, PS: ps}
			if err := k.ch.SendPackage(context.Background(), pkg); err != nil {
				sockViolate(r, "send-error", err.Error(), cs)
				return
			}
			// wait until the server has the whole message: the last packet carries EOM
			var stream []byte
			deadline := time.Now().Add(10 * time.Second)
			var hs []xport.Header
			var bodies [][]byte
			for {
				stream = k.written()[seen:]
				var perr error
				hs, bodies, perr = sockSplitPackets(stream)
				if perr == nil && len(hs) > 0 && hs[len(hs)-1].Status&xport.EOM != 0 {
					total := 0
					for _, b := range bodies {
						total += len(b)
					}
					if total >= len(want) {
						break
					}
				}
				if time.Now().After(deadline) {
					sockViolate(r, "message-not-terminated", fmt.Sprintf("%d bytes of packages at packet size %d: 10 s after SendPackage returned the server has %d bytes in %d packets and no end of message (%v)", L, ps, len(stream), len(hs), perr), cs)
					return
				}
				time.Sleep(200 * time.Microsecond)
			}
			time.Sleep(2 * time.Millisecond) // anything written beyond the message would arrive now
			stream = k.written()[seen:]
			hs, bodies, perr := sockSplitPackets(stream)
			seen += len(stream)
			r.Distinct(fmt.Sprintf("sock|c01|%d|%d", ps, L))
			if perr != nil {
				sockViolate(r, "stream-does-not-parse", perr.Error(), cs)
				return
			}
			var got []byte
			for i, h := range hs {
				last := i == len(hs)-1
				switch {
				case int(h.Length) > ps:
					sockViolate(r, "packet-exceeds-packet-size", fmt.Sprintf("packet %d has %d bytes at packet size %d", i, h.Length, ps), cs)
					return
				case !last && int(h.Length) != ps:
					sockViolate(r, "non-last-packet-not-full", fmt.Sprintf("packet %d of %d has %d bytes", i, len(hs), h.Length), cs)
					return
				case !last && h.Status&xport.EOM != 0, last && h.Status&xport.EOM == 0:
					sockViolate(r, "eom-placement", fmt.Sprintf("packet %d of %d has status %#x", i, len(hs), h.Status), cs)
					return
				case h.Type != byte(tds.TDS_BUF_LANG) || h.Channel != 0:
					sockViolate(r, "header-type-or-channel", fmt.Sprintf("packet %d: type %d channel %d", i, h.Type, h.Channel), cs)
					return
				}
				got = append(got, bodies[i]...)
			}
			if !bytes.Equal(got, want) {
				sockViolate(r, "body-bytes-differ", fmt.Sprintf("bodies concatenate to %d bytes, the package encodes to %d", len(got), len(want)), cs)
				return
			}
		}
	}
	r.Count("real_socket_messages", int64(n))
}

// runSockLegC14: the server closes the socket after k bytes.
func runSockLegC14(c *Ctx) {
	r := c.R
	resps := catalogue()
	resp := resps[3] // rows-int-varchar
	body := resp.Bytes()
	cuts := []int{len(body) / 2}
	pkts := c02Packets(body, cuts, nil, false)
	stream := xport.Concat(pkts)
	refOut, err := c02Deliver(pkts, "reader", nil)
	if err != nil || refOut.watchdog || len(refOut.d.Errs) > 0 {
		r.Inconclusive("real-socket leg: reference delivery failed")
		return
	}
	step := 5
	if !c.Quick() {
		step = 1
	}
	n := 0
	for off := 0; off <= len(stream); off += step {
		r.Eval(1)
		n++
		cs := sockCase{Leg: "C14", What: resp.Name, Offset: off, Hex: hex.EncodeToString(body), Cuts: cuts}
		k, err := newSockKit(4096, 0)
		if err != nil {
			r.Inconclusive("real-socket leg: %v", err)
			return
		}
		if err := k.feed(stream[:off]); err != nil {
			k.close()
			r.Inconclusive("real-socket leg: %v", err)
			continue
		}
		g := sockReaderG()
		if g == nil {
			k.close()
			r.Inconclusive("real-socket leg: reader goroutine not found")
			continue
		}
		k.srv.Close() // the peer closes the connection
		st, ok := readerQuiescent(g.ID, 20*time.Second)
		if !ok {
			k.close()
			r.Inconclusive("real-socket leg: reader still %q 20 s after the peer closed at offset %d", st, off)
			continue
		}
		got := drainChannel(k.ch, k.ctx)
		k.close()
		r.Distinct(fmt.Sprintf("sock|c14|%d", off))
		// complete packets
		complete, o := 0, 0
		for _, p := range pkts {
			if off >= o+len(p) {
				complete += len(p) - 8
			}
			o += len(p)
		}
		minPk := 0
		for i, b := range resp.Bounds() {
			if resp.Kinds[i] != "env" && resp.Kinds[i] != "info" && b <= complete {
				minPk++
			}
		}
		if off == len(stream) {
			minPk = len(refOut.d.Dumps)
		}
		switch {
		case len(got.Dumps) > len(refOut.d.Dumps) || !sameStrings(got.Dumps, refOut.d.Dumps[:len(got.Dumps)]):
			sockViolate(r, "peer-close/not-a-prefix", fmt.Sprintf("peer closed after %d of %d bytes: delivered %v, fault-free %v", off, len(stream), got.Types, refOut.d.Types), cs)
		case len(got.Dumps) < minPk:
			sockViolate(r, "peer-close/complete-package-not-delivered", fmt.Sprintf("peer closed after %d of %d bytes: %d packages delivered, %d lie in completely received packets", off, len(stream), len(got.Dumps), minPk), cs)
		case off < len(stream) && len(got.Dumps) == len(refOut.d.Dumps) && complete < len(body):
			sockViolate(r, "peer-close/package-from-incomplete-data", fmt.Sprintf("peer closed after %d of %d bytes but all %d packages were delivered", off, len(stream), len(got.Dumps)), cs)
		case len(got.Errs) == 0:
			sockViolate(r, "peer-close/no-error", fmt.Sprintf("peer closed after %d of %d bytes: reader is %s and no error is queued", off, len(stream), st), cs)
		}
	}
	r.Count("real_socket_peer_close_offsets", int64(n))
}

// runSockLegC13: Conn.Close on a real socket: logout exchange, channels
// closed, socket closed (the server sees EOF), reader gone.
func runSockLegC13(c *Ctx) {
	r := c.R
	for _, answer := range []bool{true} {
		r.Eval(1)
		cs := sockCase{Leg: "C13", What: fmt.Sprintf("conn-close/logout-answered=%v", answer)}
		k, err := newSockKit(16, 0)
		if err != nil {
			r.Inconclusive("real-socket leg: %v", err)
			return
		}
		lc, lerr := func() (*tds.Channel, error) {
			// a logical channel as well: acknowledge its setup
			done := make(chan struct{})
			go func() {
				defer close(done)
				deadline := time.Now().Add(10 * time.Second)
				for time.Now().Before(deadline) {
					w := k.written()
					if len(w) >= 8 && w[len(w)-8] == byte(tds.TDS_BUF_SETUP) {
						k.srv.Write(xport.Header{Type: byte(tds.TDS_BUF_PROTACK), Status: xport.EOM, Length: 8, Channel: uint16(w[len(w)-4])<<8 | uint16(w[len(w)-3])}.Bytes())
						return
					}
					time.Sleep(200 * time.Microsecond)
				}
			}()
			ch, err := k.conn.NewChannel()
			<-done
			return ch, err
		}()
		if lerr != nil {
			sockViolate(r, "newchannel-failed-although-acknowledged", lerr.Error(), cs)
			k.close()
			return
		}
		g := sockReaderG()
		stop := make(chan struct{})
		go func() { // answer the logout
			for {
				select {
				case <-stop:
					return
				default:
				}
				w := k.written()
				hs, bodies, _ := sockSplitPackets(w)
				for i, h := range hs {
					if h.Channel == 0 && len(bodies[i]) > 0 && bodies[i][0] == 0x71 {
						k.srv.Write(xport.Packet(byte(tds.TDS_BUF_RESPONSE), xport.EOM, 0, srv.Done(srv.TokDone, 0, 0, 0)))
						return
					}
				}
				time.Sleep(200 * time.Microsecond)
			}
		}()
		call := c13Go(func() { _ = k.conn.Close() })
		okc := call.wait(15 * time.Second)
		close(stop)
		if !okc {
			_, desc := c13HangReport(call)
			sockViolate(r, "conn-close/does-not-return", desc, cs)
			k.close()
			return
		}
		select {
		case <-k.rxDone:
		case <-time.After(5 * time.Second):
			sockViolate(r, "conn-close/socket-not-closed", "5 s after Conn.Close the server has not seen the end of the connection", cs)
			k.close()
			return
		}
		for i, ch := range []*tds.Channel{k.ch, lc} {
			if _, err := ch.NextPackage(context.Background(), false); !errors.Is(err, tds.ErrChannelClosed) {
				sockViolate(r, "conn-close/channel-not-closed", fmt.Sprintf("channel #%d: %v", i, err), cs)
			}
		}
		if g != nil {
			if st, ok := func() (string, bool) {
				deadline := time.Now().Add(10 * time.Second)
				for time.Now().Before(deadline) {
					gg := rt.FindG(rt.Goroutines(), g.ID)
					if gg == nil {
						return "gone", true
					}
					time.Sleep(time.Millisecond)
				}
				return "still there", false
			}(); !ok {
				sockViolate(r, "conn-close/reader-still-there", st, cs)
			}
		}
		r.Distinct("sock|c13|" + cs.What)
		r.Count("real_socket_conn_close", 1)
		k.close()
	}
}
