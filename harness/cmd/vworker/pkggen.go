package main

// Generators of reference token values shared by C06 and C07. Everything is
// a function of (tier, seed).

import (
	"encoding/binary"
	"fmt"
	"math"
	"sort"
	"strings"

	"github.com/SAP/go-dblib/tds"

	"verif/harness/refpkg"
	"verif/harness/rt"
)

// pkgCase is one generated token value.
type pkgCase struct {
	Type    string     // bounded name: "EED", "ROWFMT2", ...
	Variant string     // "narrow" | "wide" | "-"
	Opt     string     // option / length-class label (bounded vocabulary)
	Ref     refpkg.Pkg // the value
}

// focus names the data type a single-column format / row case is about
// ("" for everything else); it becomes part of failure signatures.
func (c pkgCase) focus() string {
	var cols []refpkg.Column
	switch v := c.Ref.(type) {
	case refpkg.Format:
		cols = v.Cols
	case refpkg.Row:
		cols = v.Fmt.Cols
	default:
		return ""
	}
	switch {
	case len(cols) == 0:
		return "no-columns"
	case len(cols) == 1:
		if ti, ok := refpkg.LookupType(cols[0].DataType); ok {
			return ti.Name
		}
		return "unknown-type"
	}
	for _, c := range cols {
		if c.DataType == 0x24 {
			return "many-columns-with-BLOB"
		}
	}
	return "many-columns"
}

func variantOf(wide bool) string {
	if wide {
		return "wide"
	}
	return "narrow"
}

// sfill returns n bytes of printable ASCII derived from tag, so that two
// different fields never hold the same text (a swap is visible).
func sfill(tag string, n int) string {
	if n <= 0 {
		return ""
	}
	var sb strings.Builder
	sb.Grow(n + len(tag))
	for sb.Len() < n {
		sb.WriteString(tag)
	}
	return sb.String()[:n]
}

func bfill(seed byte, n int) []byte {
	b := make([]byte, n)
	for i := range b {
		b[i] = seed + byte(i*7)
	}
	return b
}

type lenField struct {
	name    string
	lens    []int // classes, ascending: 0, 1, max-1, max
	nominal int
}

type lenAssign struct {
	n     map[string]int
	label string
}

func lenLabel(f lenField, n int) string {
	max := f.lens[len(f.lens)-1]
	switch {
	case n == 0:
		return "0"
	case n == 1:
		return "1"
	case n == max:
		return "max"
	case n == max-1:
		return "max-1"
	case n == f.nominal:
		return "nom"
	}
	return "mid"
}

// sweep enumerates length assignments: everything nominal, each field at
// each of its classes with the others nominal, everything at 0, everything
// at max; with full additionally the whole cartesian product of classes.
func sweep(fields []lenField, full bool) []lenAssign {
	var out []lenAssign
	seen := map[string]bool{}
	add := func(n map[string]int) {
		parts := make([]string, len(fields))
		for i, f := range fields {
			parts[i] = f.name + "=" + lenLabel(f, n[f.name])
		}
		key := fmt.Sprint(n)
		if seen[key] {
			return
		}
		seen[key] = true
		out = append(out, lenAssign{n: n, label: strings.Join(parts, ",")})
	}
	nominal := func() map[string]int {
		m := map[string]int{}
		for _, f := range fields {
			m[f.name] = f.nominal
		}
		return m
	}
	add(nominal())
	for _, f := range fields {
		for _, l := range f.lens {
			m := nominal()
			m[f.name] = l
			add(m)
		}
	}
	for k := 0; k < 4; k++ {
		m := map[string]int{}
		for _, f := range fields {
			if k < len(f.lens) {
				m[f.name] = f.lens[k]
			} else {
				m[f.name] = f.lens[len(f.lens)-1]
			}
		}
		add(m)
	}
	if full {
		idx := make([]int, len(fields))
		for {
			m := map[string]int{}
			for i, f := range fields {
				m[f.name] = f.lens[idx[i]]
			}
			add(m)
			i := 0
			for ; i < len(fields); i++ {
				idx[i]++
				if idx[i] < len(fields[i].lens) {
					break
				}
				idx[i] = 0
			}
			if i == len(fields) {
				break
			}
		}
	}
	return out
}

// allLens adds, for every field with a one-byte prefix, every length 0..max
// (one field at a time, others nominal).
func allLens(fields []lenField) []lenAssign {
	var out []lenAssign
	for _, f := range fields {
		max := f.lens[len(f.lens)-1]
		if max > 255 {
			continue
		}
		for l := 2; l < max-1; l++ {
			m := map[string]int{}
			for _, g := range fields {
				m[g.name] = g.nominal
			}
			m[f.name] = l
			out = append(out, lenAssign{n: m, label: f.name + "=every"})
		}
	}
	return out
}

var len8 = []int{0, 1, 254, 255}

var (
	capReqMax = int(tds.TDS_REQ_COMMAND_ENCRYPTION)
	capResMax = int(tds.TDS_RES_DR_NOKILL)
)

type genCtx struct {
	quick bool
	seed  int64
}

func (g genCtx) rnd(stream string) *rt.Rand { return rt.NewRand(g.seed, "pkggen/"+stream) }

// cursors returns the cursor identifications every cursor token is tried
// with: by id (several), by name at each length class.
func cursors(g genCtx) []struct {
	c     refpkg.Cursor
	label string
} {
	type cl = struct {
		c     refpkg.Cursor
		label string
	}
	out := []cl{
		{refpkg.Cursor{ID: 1}, "cursor=id"},
		{refpkg.Cursor{ID: -1}, "cursor=id"},
		{refpkg.Cursor{ID: math.MaxInt32}, "cursor=id"},
		{refpkg.Cursor{ID: math.MinInt32}, "cursor=id"},
		{refpkg.Cursor{ID: 0, Name: sfill("cursor_", 7)}, "cursor=name:nom"},
	}
	for _, l := range len8 {
		out = append(out, cl{refpkg.Cursor{ID: 0, Name: sfill("cur", l)}, "cursor=name:" + lenLabel(lenField{lens: len8}, l)})
	}
	if !g.quick {
		for l := 2; l < 254; l++ {
			out = append(out, cl{refpkg.Cursor{ID: 0, Name: sfill("cur", l)}, "cursor=name:every"})
		}
	}
	return out
}

// ---------------------------------------------------------------- corpus

// genCorpus returns every case of the tier.
func genCorpus(g genCtx) []pkgCase {
	var out []pkgCase
	for _, f := range []func(genCtx) []pkgCase{
		genEED, genError, genEnvChange, genLoginAck, genDone, genMsg, genCapability,
		genFormats, genRows, genOrderBy, genReturnStatus, genCurInfo, genDynamic,
		genLanguage, genLogout, genCurDeclare, genCurOpen, genCurFetch, genCurUpdate,
		genCurDelete, genCurClose, genOptionCmd,
	} {
		out = append(out, f(g)...)
	}
	return out
}

func genEED(g genCtx) []pkgCase {
	rnd := g.rnd("eed")
	// the outer length is a uint16 too: the message can use what the other
	// parts leave (16 fixed bytes + 3*255)
	const msgMax = 65535 - 16 - 3*255
	fields := []lenField{
		{"sqlstate", len8, 5}, {"msg", []int{0, 1, msgMax - 1, msgMax}, 24}, {"server", len8, 6}, {"proc", len8, 4},
	}
	as := sweep(fields, !g.quick)
	if !g.quick {
		as = append(as, allLens(fields)...)
	}
	var out []pkgCase
	mk := func(a lenAssign) refpkg.EED {
		return refpkg.EED{MsgNumber: uint32(rnd.Uint64()), State: uint8(rnd.Intn(256)), Class: uint8(rnd.Intn(256)),
			SQLState: []byte(sfill("S1", a.n["sqlstate"])), Status: uint8(rnd.Intn(4)), TranState: uint16(rnd.Intn(5)),
			Msg: sfill("message ", a.n["msg"]), Server: sfill("SRV", a.n["server"]), Proc: sfill("proc_", a.n["proc"]), Line: uint16(rnd.Intn(65536))}
	}
	for _, a := range as {
		out = append(out, pkgCase{"EED", "-", a.label, mk(a)})
	}
	nom := lenAssign{n: map[string]int{"sqlstate": 5, "msg": 24, "server": 6, "proc": 4}}
	for _, m := range []struct{ msg, label string }{
		{"trailing newline\n", "msg=trailing-newline"}, {"\n", "msg=only-newline"},
		{"two newlines\n\n", "msg=two-trailing-newlines"}, {"inner\nnewline", "msg=inner-newline"},
	} {
		e := mk(nom)
		e.Msg = m.msg
		out = append(out, pkgCase{"EED", "-", m.label, e})
	}
	for st := 0; st < 4; st++ {
		e := mk(nom)
		e.Status = uint8(st)
		e.MsgNumber = []uint32{0, 1, math.MaxInt32, math.MaxUint32}[st]
		out = append(out, pkgCase{"EED", "-", "status=each", e})
	}
	return out
}

func genError(g genCtx) []pkgCase {
	rnd := g.rnd("error")
	const msgMax = 65535 - 12 - 2*255
	fields := []lenField{{"msg", []int{0, 1, msgMax - 1, msgMax}, 24}, {"server", len8, 6}, {"proc", len8, 4}}
	as := sweep(fields, !g.quick)
	if !g.quick {
		as = append(as, allLens(fields)...)
	}
	var out []pkgCase
	for i, a := range as {
		e := refpkg.ErrorMsg{Number: int32(rnd.Uint64()), State: uint8(1 + rnd.Intn(255)), Class: uint8(1 + rnd.Intn(255)),
			Msg: sfill("error text ", a.n["msg"]), Server: sfill("SRV", a.n["server"]), Proc: sfill("proc_", a.n["proc"]), Line: uint16(rnd.Intn(65536))}
		if i == 0 {
			e.State, e.Class = 0, 0
		}
		out = append(out, pkgCase{"ERROR", "-", a.label, e})
	}
	return out
}

func genEnvChange(g genCtx) []pkgCase {
	var out []pkgCase
	fields := []lenField{{"new", len8, 6}, {"old", len8, 4}}
	as := sweep(fields, true)
	if !g.quick {
		as = append(as, allLens(fields)...)
	}
	out = append(out, pkgCase{"ENVCHANGE", "-", "items=0", refpkg.EnvChange{}})
	for _, a := range as {
		for _, n := range []int{1, 2, 4} {
			var e refpkg.EnvChange
			for i := 0; i < n; i++ {
				e.Items = append(e.Items, refpkg.EnvItem{Type: uint8(1 + (i+a.n["new"])%4), New: sfill(fmt.Sprintf("new%d.", i), a.n["new"]), Old: sfill(fmt.Sprintf("old%d.", i), a.n["old"])})
			}
			out = append(out, pkgCase{"ENVCHANGE", "-", fmt.Sprintf("items=%d,%s", n, a.label), e})
		}
	}
	for _, t := range []uint8{0, 1, 2, 3, 4, 5, 255} {
		out = append(out, pkgCase{"ENVCHANGE", "-", "type=each", refpkg.EnvChange{Items: []refpkg.EnvItem{{Type: t, New: "newvalue", Old: "old"}}}})
	}
	return out
}

func genLoginAck(g genCtx) []pkgCase {
	rnd := g.rnd("loginack")
	var out []pkgCase
	lens := append([]int{}, len8...)
	lens = append(lens, 10)
	if !g.quick {
		for l := 2; l < 254; l++ {
			lens = append(lens, l)
		}
	}
	f := lenField{lens: len8, nominal: 10}
	for _, l := range lens {
		for _, st := range []uint8{5, 6, 7} {
			a := refpkg.LoginAck{Status: st, ProgName: sfill("ASE server ", l)}
			copy(a.TDSVersion[:], rnd.Bytes(4))
			copy(a.ProgVersion[:], rnd.Bytes(4))
			if l == 10 {
				a.TDSVersion = [4]byte{5, 0, 0, 0}
			}
			out = append(out, pkgCase{"LOGINACK", "-", fmt.Sprintf("status=%d,name=%s", st, lenLabel(f, l)), a})
		}
	}
	for _, st := range []uint8{0, 4, 8, 255} {
		out = append(out, pkgCase{"LOGINACK", "-", "status=other", refpkg.LoginAck{Status: st, ProgName: "srv"}})
	}
	return out
}

func genDone(g genCtx) []pkgCase {
	rnd := g.rnd("done")
	var out []pkgCase
	statuses := []uint16{0, 0xFF, 0x100, 0xFFFF}
	for b := 0; b < 16; b++ {
		statuses = append(statuses, 1<<uint(b))
	}
	if !g.quick {
		for s := 0; s < 256; s++ {
			statuses = append(statuses, uint16(s))
		}
	}
	counts := []int32{0, 1, -1, math.MaxInt32, math.MinInt32, 65535, 65536}
	for _, tok := range []byte{refpkg.TokDone, refpkg.TokDoneProc, refpkg.TokDoneInProc} {
		for _, s := range statuses {
			for _, ts := range []uint16{0, 1, 2, 3, 4} {
				if g.quick && ts != uint16(int(s)%5) {
					continue
				}
				d := refpkg.Done{Tok: tok, Status: s, TranState: ts, Count: int32(rnd.Uint64())}
				out = append(out, pkgCase{d.TypeName(), "-", "status=sweep", d})
			}
		}
		for _, cnt := range counts {
			d := refpkg.Done{Tok: tok, Status: 0x10, TranState: 0, Count: cnt}
			out = append(out, pkgCase{d.TypeName(), "-", "count=boundary", d})
		}
		out = append(out, pkgCase{refpkg.Done{Tok: tok}.TypeName(), "-", "transtate=max", refpkg.Done{Tok: tok, TranState: 0xFFFF}})
	}
	return out
}

func genMsg(g genCtx) []pkgCase {
	var out []pkgCase
	ids := []uint16{0, 65535, 256, 0x0100, 0x1234}
	for i := 1; i <= 35; i++ {
		ids = append(ids, uint16(i))
	}
	for _, st := range []uint8{0, 1, 255} {
		for _, id := range ids {
			out = append(out, pkgCase{"MSG", "-", fmt.Sprintf("status=%d", st), refpkg.Msg{Status: st, ID: id}})
		}
	}
	return out
}

func maskBytes(max int) int { return (max + 1 + 7) / 8 }

func genCapability(g genCtx) []pkgCase {
	rnd := g.rnd("capability")
	var out []pkgCase
	nreq, nres := maskBytes(capReqMax), maskBytes(capResMax)
	mk := func(req, res []int) refpkg.Capability {
		return refpkg.Capability{Masks: []refpkg.CapMask{{Type: 1, Mask: refpkg.MaskOf(nreq, req...)}, {Type: 2, Mask: refpkg.MaskOf(nres, res...)}}}
	}
	out = append(out, pkgCase{"CAPABILITY", "-", "none", mk(nil, nil)})
	for b := 0; b <= capReqMax; b++ {
		out = append(out, pkgCase{"CAPABILITY", "-", "single-request-bit", mk([]int{b}, nil)})
	}
	for b := 0; b <= capResMax; b++ {
		out = append(out, pkgCase{"CAPABILITY", "-", "single-response-bit", mk(nil, []int{b})})
	}
	var allReq, allRes []int
	for b := 0; b <= capReqMax; b++ {
		allReq = append(allReq, b)
	}
	for b := 0; b <= capResMax; b++ {
		allRes = append(allRes, b)
	}
	out = append(out, pkgCase{"CAPABILITY", "-", "all", mk(allReq, allRes)})
	n := 60
	if !g.quick {
		n = 3000
	}
	for i := 0; i < n; i++ {
		var req, res []int
		den := 2 + rnd.Intn(6)
		for b := 0; b <= capReqMax; b++ {
			if rnd.Chance(1, den) {
				req = append(req, b)
			}
		}
		for b := 0; b <= capResMax; b++ {
			if rnd.Chance(1, den) {
				res = append(res, b)
			}
		}
		out = append(out, pkgCase{"CAPABILITY", "-", "random-subset", mk(req, res)})
	}
	// what only a peer can send: other mask widths, a security mask, any order
	for _, w := range []int{0, 1, 2, 8, 16, 32, 255} {
		var bits []int
		for b := 0; b < w*8; b += 1 + rnd.Intn(5) {
			bits = append(bits, b)
		}
		c := refpkg.Capability{Masks: []refpkg.CapMask{{Type: 2, Mask: refpkg.MaskOf(w, bits...)}, {Type: 3, Mask: refpkg.MaskOf(w, bits...)}, {Type: 1, Mask: refpkg.MaskOf(w, bits...)}}}
		out = append(out, pkgCase{"CAPABILITY", "-", "peer-mask-width", c})
	}
	return out
}

// ---------------------------------------------------------------- formats

var fmtTokens = []byte{refpkg.TokParamFmt, refpkg.TokParamFmt2, refpkg.TokRowFmt, refpkg.TokRowFmt2}

func fmtVariant(tok byte) string {
	return variantOf(tok == refpkg.TokParamFmt2 || tok == refpkg.TokRowFmt2)
}

// typeColumns returns the format variations of one data type.
func typeColumns(ti refpkg.TypeInfo, wide bool, quick bool) []struct {
	c     refpkg.Column
	label string
} {
	type cl = struct {
		c     refpkg.Column
		label string
	}
	base := refpkg.Column{Name: "c_" + strings.ToLower(ti.Name), DataType: ti.Code, UserType: int32(ti.Code) + 1000, Locale: ""}
	var out []cl
	add := func(c refpkg.Column, l string) { out = append(out, cl{c, l}) }
	objLens := []int{0, 1, 17, 300}
	if wide {
		objLens = []int{0, 1, 17, 65534, 65535}
	}
	switch ti.Kind {
	case refpkg.KFixed:
		add(base, "fixed")
	case refpkg.KLen1:
		for _, m := range []uint32{0, 1, 254, 255} {
			c := base
			c.MaxLen = m
			add(c, "maxlen=class")
		}
	case refpkg.KLen4:
		for _, m := range []uint32{0, 1, 65535, 65536, 0x7fffffff, 0xffffffff} {
			c := base
			c.MaxLen = m
			add(c, "maxlen=class")
		}
	case refpkg.KDecimal:
		for _, ps := range [][3]uint8{{1, 1, 0}, {6, 10, 2}, {17, 38, 0}, {17, 38, 38}, {33, 77, 10}, {255, 255, 255}, {0, 0, 0}} {
			c := base
			c.MaxLen, c.Precision, c.Scale = uint32(ps[0]), ps[1], ps[2]
			add(c, "precision-scale=class")
		}
	case refpkg.KBigTime:
		for _, ps := range [][2]uint8{{8, 6}, {8, 0}, {0, 0}, {255, 255}} {
			c := base
			c.MaxLen, c.Scale = uint32(ps[0]), ps[1]
			add(c, "scale=class")
		}
	case refpkg.KText:
		for _, m := range []uint32{0, 1, 0x7fffffff, 0xffffffff} {
			c := base
			c.MaxLen = m
			c.ObjName = "db.dbo.tab"
			add(c, "maxlen=class")
		}
		for _, l := range objLens {
			c := base
			c.MaxLen = 32768
			c.ObjName = sfill("objname.", l)
			add(c, "objname=class")
		}
	case refpkg.KBlob:
		for bt := 0; bt <= 9; bt++ {
			c := base
			c.BlobType = uint8(bt)
			c.MaxLen = 0
			if bt == 1 || bt == 2 {
				for _, l := range objLens {
					c2 := c
					c2.ClassID = sfill("com.example.Class", l)
					add(c2, fmt.Sprintf("blobtype=%d,classid=class", bt))
				}
				continue
			}
			add(c, fmt.Sprintf("blobtype=%d", bt))
		}
		c := base
		c.BlobType = 3
		c.MaxLen = 255
		add(c, "blobtype=3,maxlen=255")
	}
	return out
}

func fmtStatuses(wide, quick bool) []uint32 {
	s := []uint32{0, 0x08, 0x30, 0xFF}
	if !quick {
		s = []uint32{0, 0xFF}
		for b := 0; b < 8; b++ {
			s = append(s, 1<<uint(b))
		}
	}
	if wide {
		s = append(s, 0x100, 0x80000000, 0xFFFFFFFF)
	}
	return s
}

func genFormats(g genCtx) []pkgCase {
	rnd := g.rnd("formats")
	var out []pkgCase
	for _, tok := range fmtTokens {
		f0 := refpkg.Format{Tok: tok}
		name := f0.TypeName()
		wide := f0.Wide()
		v := fmtVariant(tok)
		add := func(opt string, cols ...refpkg.Column) {
			out = append(out, pkgCase{name, v, opt, refpkg.Format{Tok: tok, Cols: cols}})
		}
		add("count=0")
		// every data type x its format variations x status bits
		for _, ti := range refpkg.Types {
			for _, tc := range typeColumns(ti, wide, g.quick) {
				for _, st := range fmtStatuses(wide, g.quick) {
					c := tc.c
					c.Status = st
					c.UserType = int32(rnd.Uint64())
					add("type="+ti.Name+","+tc.label, c)
				}
			}
		}
		// names at every length class
		fields := []lenField{{"name", len8, 6}, {"locale", len8, 0}}
		if tok == refpkg.TokRowFmt2 {
			fields = append(fields, lenField{"label", len8, 5}, lenField{"catalog", len8, 3}, lenField{"schema", len8, 3}, lenField{"table", len8, 7})
		}
		as := sweep(fields, false)
		if !g.quick {
			as = append(as, allLens(fields)...)
		}
		for _, a := range as {
			for _, code := range []byte{0x38, 0x27, 0x6C} {
				c := refpkg.Column{Name: sfill("colname", a.n["name"]), Locale: sfill("loc", a.n["locale"]), DataType: code, UserType: 7}
				switch code {
				case 0x27:
					c.MaxLen = 30
				case 0x6C:
					c.MaxLen, c.Precision, c.Scale = 6, 10, 2
				}
				if tok == refpkg.TokRowFmt2 {
					c.Label, c.Catalog, c.Schema, c.Table = sfill("label", a.n["label"]), sfill("cat", a.n["catalog"]), sfill("sch", a.n["schema"]), sfill("tab", a.n["table"])
				}
				add(a.label, c)
			}
		}
		// all types in one package, with and without column status
		for _, st := range []uint32{0, refpkg.ColumnStatus} {
			var cols []refpkg.Column
			for _, ti := range refpkg.Types {
				if ti.Kind == refpkg.KBlob {
					continue // BLOB is exercised in single-column packages only
				}
				c := typeColumns(ti, wide, true)[0].c
				if len(typeColumns(ti, wide, true)) > 1 {
					c = typeColumns(ti, wide, true)[1].c
				}
				c.Status = st
				cols = append(cols, c)
			}
			add(fmt.Sprintf("all-types,status=%d", st), cols...)
		}
		// more than 255 columns
		var many []refpkg.Column
		for i := 0; i < 300; i++ {
			many = append(many, refpkg.Column{Name: fmt.Sprintf("c%d", i), DataType: 0x38})
		}
		add("count=300", many...)
		// usertype boundaries
		for _, ut := range []int32{0, -1, math.MaxInt32, math.MinInt32} {
			add("usertype=boundary", refpkg.Column{Name: "u", DataType: 0x38, UserType: ut})
		}
	}
	return out
}

// ---------------------------------------------------------------- rows

// unreadableTypes are the data types whose values the library cannot decode
// at all (its value decoder answers "unhandled data type"): no read
// direction exists for a row holding them. Determined once by probing.
var unreadableTypes = func() map[byte]bool {
	m := map[byte]bool{}
	for _, ti := range refpkg.Types {
		if ti.Kind == refpkg.KText || ti.Kind == refpkg.KBlob {
			continue
		}
		raw, _ := benignValue(ti, -1)
		if _, err := goValueOf(ti.Code, raw); err != nil && strings.Contains(err.Error(), "unhandled data type") {
			m[ti.Code] = true
		}
	}
	return m
}()

func le32(v uint32) []byte { b := make([]byte, 4); binary.LittleEndian.PutUint32(b, v); return b }
func le64(v uint64) []byte { b := make([]byte, 8); binary.LittleEndian.PutUint64(b, v); return b }

// benignValue returns unproblematic value bytes of the type. n is the
// wanted data length for variable types (-1 = the type's usual one).
// The second result is the format's maxlen that goes with it.
func benignValue(ti refpkg.TypeInfo, n int) ([]byte, uint32) {
	const day2000 = 36524                                // 2000-01-01 in days since 1900-01-01
	const noon300 = 12 * 3600 * 300                      // 12:00:00 in 1/300 s
	const usNoon = uint64(12) * 3600 * 1000000           // 12:00:00 in microseconds
	const us2000 = uint64(730485)*86400*1000000 + usNoon // 2000-01-01 12:00 in microseconds since 0000-01-01
	switch ti.Name {
	case "INT1", "SINT1":
		return []byte{0x7b}, 0
	case "INT2":
		return []byte{0x2e, 0xfb}, 0 // -1234
	case "UINT2":
		return []byte{0x39, 0xf0}, 0
	case "INT4":
		return le32(123456789), 0
	case "UINT4":
		return le32(4000000000), 0
	case "INT8":
		return le64(uint64(0xfffffffdb34fe916)), 0 // negative
	case "UINT8", "INTERVAL":
		return le64(0xf23456789abcdef0), 0
	case "FLT4":
		return le32(math.Float32bits(1.5)), 0
	case "FLT8":
		return le64(math.Float64bits(-2.25)), 0
	case "BIT":
		return []byte{1}, 0
	case "DATETIME":
		return append(le32(day2000), le32(noon300)...), 0
	case "SHORTDATE":
		return []byte{byte(day2000 & 0xff), byte(day2000 >> 8), 0xd0, 0x02}, 0 // 720 minutes
	case "MONEY":
		return append(le32(0), le32(1234567)...), 0
	case "SHORTMONEY":
		return le32(1234567), 0
	case "DATE":
		return le32(day2000), 0
	case "TIME":
		return le32(noon300), 0
	case "CHAR", "VARCHAR", "BOUNDARY", "SENSITIVITY":
		if n < 0 {
			n = 11
		}
		m := uint32(255)
		return []byte(sfill("text value ", n)), m
	case "BINARY", "VARBINARY":
		if n < 0 {
			n = 9
		}
		return bfill(0x80, n), 255
	case "LONGCHAR":
		if n < 0 {
			n = 300
		}
		return []byte(sfill("long text value ", n)), 0x7fffffff
	case "LONGBINARY":
		if n < 0 {
			n = 300
		}
		return bfill(0x90, n), 0x7fffffff
	case "INTN":
		switch n {
		case 0:
			return nil, 4
		case 1:
			return []byte{0x7b}, 1
		case 2:
			return []byte{0x2e, 0xfb}, 2
		case 8:
			return le64(uint64(0xfffffffdb34fe916)), 8
		}
		return le32(123456789), 4
	case "UINTN":
		switch n {
		case 0:
			return nil, 4
		case 1:
			return []byte{0x7b}, 1
		case 2:
			return []byte{0x39, 0xf0}, 2
		case 8:
			return le64(0xf23456789abcdef0), 8
		}
		return le32(4000000000), 4
	case "FLTN":
		switch n {
		case 0:
			return nil, 8
		case 4:
			return le32(math.Float32bits(1.5)), 4
		}
		return le64(math.Float64bits(-2.25)), 8
	case "MONEYN":
		switch n {
		case 0:
			return nil, 8
		case 4:
			return le32(1234567), 4
		}
		return append(le32(0), le32(1234567)...), 8
	case "DATETIMEN":
		switch n {
		case 0:
			return nil, 8
		case 4:
			return []byte{byte(day2000 & 0xff), byte(day2000 >> 8), 0xd0, 0x02}, 4
		}
		return append(le32(day2000), le32(noon300)...), 8
	case "DATEN":
		if n == 0 {
			return nil, 4
		}
		return le32(day2000), 4
	case "TIMEN":
		if n == 0 {
			return nil, 4
		}
		return le32(noon300), 4
	case "DECN", "NUMN":
		if n == 0 {
			return nil, 6
		}
		return []byte{0x00, 0x30, 0x39}, 6 // +12345, minimal magnitude
	case "BIGDATETIMEN":
		if n == 0 {
			return nil, 8
		}
		return le64(us2000), 8
	case "BIGTIMEN":
		if n == 0 {
			return nil, 8
		}
		return le64(usNoon), 8
	}
	return nil, 0
}

// valueLens are the data lengths a variable type is tried with.
func valueLens(ti refpkg.TypeInfo) []int {
	switch ti.Name {
	case "CHAR", "VARCHAR", "BINARY", "VARBINARY":
		return []int{0, 1, 254, 255, -1}
	case "LONGCHAR", "LONGBINARY":
		return []int{0, 1, 255, 256, 65535, 65536, 70000}
	case "INTN", "UINTN":
		return []int{0, 1, 2, 4, 8}
	case "FLTN", "MONEYN", "DATETIMEN":
		return []int{0, 4, 8}
	case "DATEN", "TIMEN":
		return []int{0, 4}
	case "DECN", "NUMN":
		return []int{0, 3}
	case "BIGDATETIMEN", "BIGTIMEN":
		return []int{0, 8}
	}
	return []int{-1}
}

func dataColumn(ti refpkg.TypeInfo, maxlen uint32, status uint32) refpkg.Column {
	c := refpkg.Column{Name: "c_" + strings.ToLower(ti.Name), DataType: ti.Code, Status: status, MaxLen: maxlen}
	switch ti.Kind {
	case refpkg.KDecimal:
		c.Precision, c.Scale = 10, 2
	case refpkg.KBigTime:
		c.Scale = 6
	case refpkg.KText:
		c.ObjName = "db.dbo.tab"
	}
	return c
}

// rowFormats are the (data token, format token) pairs.
var rowFormats = []struct {
	data, fmt byte
}{
	{refpkg.TokRow, refpkg.TokRowFmt}, {refpkg.TokRow, refpkg.TokRowFmt2},
	{refpkg.TokParams, refpkg.TokParamFmt}, {refpkg.TokParams, refpkg.TokParamFmt2},
}

// canonCell is the one (format, value) pair of a type used in many-column rows.
func canonCell(ti refpkg.TypeInfo, st uint32) (refpkg.Column, refpkg.Cell) {
	switch ti.Kind {
	case refpkg.KText:
		return dataColumn(ti, 0x7fffffff, st), refpkg.Cell{TxtPtr: bfill(0x10, 16), TimeStamp: bfill(0x20, 8), Data: bfill(0x41, 300)}
	case refpkg.KBlob:
		col := dataColumn(ti, 0, st)
		col.BlobType = 3
		return col, refpkg.Cell{Data: bfill(0x61, 10)}
	}
	raw, maxlen := benignValue(ti, -1)
	return dataColumn(ti, maxlen, st), refpkg.Cell{Data: raw}
}

func genRows(g genCtx) []pkgCase {
	var out []pkgCase
	for _, rf := range rowFormats {
		name := refpkg.Row{Tok: rf.data}.TypeName()
		v := fmtVariant(rf.fmt)
		add := func(opt string, cols []refpkg.Column, cells []refpkg.Cell) {
			out = append(out, pkgCase{name, v, opt, refpkg.Row{Tok: rf.data, Fmt: refpkg.Format{Tok: rf.fmt, Cols: cols}, Cells: cells}})
		}
		add("columns=0", nil, nil)
		for _, st := range []uint32{0, refpkg.ColumnStatus} {
			stl := fmt.Sprintf("colstatus=%d", st>>3)
			for _, ti := range refpkg.Types {
				if unreadableTypes[ti.Code] {
					continue
				}
				switch ti.Kind {
				case refpkg.KText:
					for _, n := range []int{0, 1, 300, 70000} {
						cell := refpkg.Cell{TxtPtr: bfill(0x10, 16), TimeStamp: bfill(0x20, 8), Data: bfill(0x41, n)}
						add("type="+ti.Name+",len=class,"+stl, []refpkg.Column{dataColumn(ti, 0x7fffffff, st)}, []refpkg.Cell{cell})
					}
					for _, tp := range []int{1, 255} {
						cell := refpkg.Cell{TxtPtr: bfill(0x10, tp), TimeStamp: bfill(0x20, 8), Data: bfill(0x41, 5)}
						add("type="+ti.Name+",txtptr=class,"+stl, []refpkg.Column{dataColumn(ti, 0x7fffffff, st)}, []refpkg.Cell{cell})
					}
					add("type="+ti.Name+",text-null,"+stl, []refpkg.Column{dataColumn(ti, 0x7fffffff, st)}, []refpkg.Cell{{TextNull: true}})
				case refpkg.KBlob:
					for _, bt := range []uint8{1, 2, 3, 4, 5, 6, 7, 8} {
						for _, n := range []int{0, 1, 1024, 1025, 3000} {
							col := dataColumn(ti, 0, st)
							col.BlobType = bt
							cell := refpkg.Cell{Data: bfill(0x61, n)}
							if bt == 1 || bt == 2 {
								col.ClassID = "com.example.Class"
								cell.SubID = "com.example.Sub"
							}
							if bt >= 6 {
								cell.SubID = "locator-bytes"
							}
							add(fmt.Sprintf("type=BLOB,blobtype=%d,len=class,%s", bt, stl), []refpkg.Column{col}, []refpkg.Cell{cell})
						}
					}
				default:
					for _, n := range valueLens(ti) {
						raw, maxlen := benignValue(ti, n)
						lab := "value"
						if ti.Kind != refpkg.KFixed {
							lab = "len=class"
						}
						add("type="+ti.Name+","+lab+","+stl, []refpkg.Column{dataColumn(ti, maxlen, st)}, []refpkg.Cell{{Data: raw}})
					}
				}
			}
			// every readable type in one row (BLOB apart: its layout is the library's own)
			for _, withBlob := range []bool{false} {
				var cols []refpkg.Column
				var cells, nulls []refpkg.Cell
				for _, ti := range refpkg.Types {
					if unreadableTypes[ti.Code] || (ti.Kind == refpkg.KBlob && !withBlob) {
						continue
					}
					col, cell := canonCell(ti, st)
					cols, cells = append(cols, col), append(cells, cell)
					if ti.Kind == refpkg.KLen1 || ti.Kind == refpkg.KLen4 || ti.Kind == refpkg.KDecimal || ti.Kind == refpkg.KBigTime {
						cell = refpkg.Cell{}
					}
					nulls = append(nulls, cell)
				}
				lab := "all-types"
				if withBlob {
					lab = "all-types+blob"
				}
				add(lab+","+stl, cols, cells)
				add(lab+"-null,"+stl, cols, nulls)
			}
		}
	}
	return out
}

// ---------------------------------------------------------------- the rest

func genOrderBy(g genCtx) []pkgCase {
	rnd := g.rnd("orderby")
	var out []pkgCase
	for _, n := range []int{0, 1, 3, 255, 256, 1000} {
		o := refpkg.OrderBy{}
		o2 := refpkg.OrderBy2{}
		for i := 0; i < n; i++ {
			o.Cols = append(o.Cols, uint8(rnd.Intn(256)))
			o2.Cols = append(o2.Cols, uint16(rnd.Intn(65536)))
		}
		out = append(out, pkgCase{"ORDERBY", "narrow", fmt.Sprintf("columns=%d", n), o})
		out = append(out, pkgCase{"ORDERBY2", "wide", fmt.Sprintf("columns=%d", n), o2})
	}
	return out
}

func genReturnStatus(g genCtx) []pkgCase {
	rnd := g.rnd("returnstatus")
	var out []pkgCase
	vals := []int32{0, 1, -1, math.MaxInt32, math.MinInt32, 0x79, 256}
	n := 20
	if !g.quick {
		n = 2000
	}
	for i := 0; i < n; i++ {
		vals = append(vals, int32(rnd.Uint64()))
	}
	for _, v := range vals {
		out = append(out, pkgCase{"RETURNSTATUS", "-", "value", refpkg.ReturnStatus{Value: v}})
	}
	return out
}

func genCurInfo(g genCtx) []pkgCase {
	rnd := g.rnd("curinfo")
	var out []pkgCase
	for _, wide := range []bool{false, true} {
		bits := 16
		if wide {
			bits = 32
		}
		statuses := []uint32{0, refpkg.CurStatRowCnt, 0x3FFF, 0x3FFF &^ refpkg.CurStatRowCnt}
		for b := 0; b < bits; b++ {
			statuses = append(statuses, 1<<uint(b), 1<<uint(b)|refpkg.CurStatRowCnt)
		}
		for _, cur := range cursors(g) {
			for _, st := range statuses {
				if cur.label == "cursor=name:every" && st != 0 && st != refpkg.CurStatRowCnt {
					continue
				}
				p := refpkg.CurInfo{Wide: wide, Cursor: cur.c, Command: uint8(1 + rnd.Intn(4)), Status: st}
				if st&refpkg.CurStatRowCnt != 0 {
					p.RowCount = int32(rnd.Uint64())
				}
				if wide {
					p.RowNum, p.TotalRows = int32(rnd.Uint64()), int32(rnd.Uint64())
				}
				opt := cur.label + ",rowcnt=0"
				if st&refpkg.CurStatRowCnt != 0 {
					opt = cur.label + ",rowcnt=1"
				}
				out = append(out, pkgCase{p.TypeName(), variantOf(wide), opt, p})
			}
		}
		for _, cmd := range []uint8{0, 1, 2, 3, 4, 5, 255} {
			p := refpkg.CurInfo{Wide: wide, Cursor: refpkg.Cursor{ID: 7}, Command: cmd, Status: 2}
			out = append(out, pkgCase{p.TypeName(), variantOf(wide), "command=each", p})
		}
	}
	return out
}

func dynTypeName(t uint8) string {
	names := map[uint8]string{0: "INVALID", 1: "PREPARE", 2: "EXEC", 4: "DEALLOC", 8: "EXEC_IMMED", 0x10: "PROCNAME", 0x20: "ACK", 0x40: "DESCIN", 0x80: "DESCOUT"}
	if n, ok := names[t]; ok {
		return n
	}
	return "combined"
}

func genDynamic(g genCtx) []pkgCase {
	var out []pkgCase
	types := []uint8{0, 1, 2, 4, 8, 0x10, 0x20, 0x40, 0x80, 0x09, 0x21, 0x28, 0xFF}
	for _, wide := range []bool{false, true} {
		// library's own limit: total length < 32767 (narrow)
		stmtLens := []int{0, 1, 32766 - 5 - 10 - 1, 32766 - 5 - 10, 40000, 65535 - 5 - 10}
		if wide {
			stmtLens = []int{0, 1, 65535, 65536, 70000}
		}
		for _, t := range types {
			has := t&0x09 != 0
			idLens := append([]int{10}, len8...)
			if !g.quick && (t == 1 || t == 0x20) {
				for l := 2; l < 254; l++ {
					idLens = append(idLens, l)
				}
			}
			for _, il := range idLens {
				sl := []int{0}
				if has {
					sl = []int{20}
					if il == 10 {
						sl = append(sl, stmtLens...)
					}
				}
				for _, s := range sl {
					for _, st := range []uint8{0, 1, 2, 4, 8, 0xFF} {
						if (il != 10 || (s != 0 && s != 20)) && st != 0 && st != 1 {
							continue
						}
						p := refpkg.Dynamic{Wide: wide, Type: t, Status: st, ID: sfill("stmt_id_", il), HasStmt: has}
						if has {
							p.Stmt = sfill("select * from t where a = ? ", s)
						}
						lf := lenField{lens: len8, nominal: 10}
						opt := fmt.Sprintf("type=%s,id=%s", dynTypeName(t), lenLabel(lf, il))
						if has {
							switch {
							case s == 0, s == 1:
								opt += fmt.Sprintf(",stmt=%d", s)
							case s == 20:
								opt += ",stmt=nom"
							case !wide && s == 40000:
								opt += ",stmt=beyond-library-limit"
							case !wide && s > 40000:
								opt += ",stmt=max-of-prefix"
							case !wide:
								opt += ",stmt=library-max"
							default:
								opt += ",stmt=over-16-bit"
							}
						}
						out = append(out, pkgCase{p.TypeName(), variantOf(wide), opt, p})
					}
				}
			}
		}
	}
	return out
}

func genLanguage(g genCtx) []pkgCase {
	var out []pkgCase
	lens := []int{0, 1, 24, 255, 256, 65535, 65536, 70000}
	if !g.quick {
		for l := 2; l < 300; l++ {
			lens = append(lens, l)
		}
		lens = append(lens, 1<<20)
	}
	for _, l := range lens {
		for _, st := range []uint8{0, 1, 4, 5, 255} {
			if l > 300 && st > 1 {
				continue
			}
			lab := "cmd=mid"
			switch {
			case l == 0, l == 1:
				lab = fmt.Sprintf("cmd=%d", l)
			case l > 65535:
				lab = "cmd=over-16-bit"
			}
			out = append(out, pkgCase{"LANGUAGE", "-", fmt.Sprintf("status=%d,%s", st, lab), refpkg.Language{Status: st, Cmd: sfill("select 1 ", l)}})
		}
	}
	return out
}

func genLogout(g genCtx) []pkgCase {
	var out []pkgCase
	for o := 0; o < 256; o++ {
		lab := "options=0"
		if o != 0 {
			lab = "options=nonzero"
		}
		out = append(out, pkgCase{"LOGOUT", "-", lab, refpkg.Logout{Options: uint8(o)}})
	}
	return out
}

func genCurDeclare(g genCtx) []pkgCase {
	var out []pkgCase
	for _, wide := range []bool{false, true} {
		stmtMax := 65535 - 7 - 255 - 3*256
		stmtLens := []int{0, 1, stmtMax - 1, stmtMax}
		if wide {
			stmtLens = []int{0, 1, 65535, 65536, 70000}
		}
		fields := []lenField{{"name", len8, 8}, {"stmt", stmtLens, 30}}
		as := sweep(fields, true)
		if !g.quick {
			as = append(as, allLens(fields)...)
		}
		opts := []uint32{0, 0xFF}
		nb := 8
		if wide {
			nb = 32
			opts = append(opts, 0x3FF, 0xFFFFFFFF)
		}
		for b := 0; b < nb; b++ {
			opts = append(opts, 1<<uint(b))
		}
		colSets := [][]string{nil, {""}, {"a"}, {sfill("col", 254), sfill("kol", 255), "x"}}
		for ai, a := range as {
			for ci, cols := range colSets {
				if ai != 0 && ci != ai%len(colSets) {
					continue
				}
				p := refpkg.CurDeclare{Wide: wide, Name: sfill("cursor_", a.n["name"]), Options: opts[ai%len(opts)], Status: uint8(ai % 2),
					Stmt: sfill("select a, b from t for update ", a.n["stmt"]), Columns: cols, ColCountWidth: 2}
				out = append(out, pkgCase{p.TypeName(), variantOf(wide), fmt.Sprintf("%s,columns=%d", a.label, len(cols)), p})
			}
		}
		for _, o := range opts {
			p := refpkg.CurDeclare{Wide: wide, Name: "cur", Options: o, Status: 1, Stmt: "select 1", ColCountWidth: 2}
			out = append(out, pkgCase{p.TypeName(), variantOf(wide), "options=each-bit", p})
		}
	}
	return out
}

func genCurOpen(g genCtx) []pkgCase {
	var out []pkgCase
	for _, cur := range cursors(g) {
		for _, st := range []uint8{0, 1, 2, 255} {
			out = append(out, pkgCase{"CUROPEN", "-", cur.label, refpkg.CurOpen{Cursor: cur.c, Status: st}})
		}
	}
	return out
}

func genCurClose(g genCtx) []pkgCase {
	var out []pkgCase
	for _, cur := range cursors(g) {
		for _, o := range []uint8{0, 1, 255} {
			out = append(out, pkgCase{"CURCLOSE", "-", cur.label, refpkg.CurClose{Cursor: cur.c, Options: o}})
		}
	}
	return out
}

func genCurFetch(g genCtx) []pkgCase {
	rnd := g.rnd("curfetch")
	var out []pkgCase
	for _, cur := range cursors(g) {
		for t := 0; t <= 7; t++ {
			p := refpkg.CurFetch{Cursor: cur.c, Type: uint8(t)}
			lab := "rownum=0"
			if t == 5 || t == 6 {
				p.RowNum = int32(rnd.Uint64())
				lab = "rownum=1"
			}
			out = append(out, pkgCase{"CURFETCH", "-", cur.label + "," + lab, p})
		}
	}
	for _, rn := range []int32{0, 1, -1, math.MaxInt32, math.MinInt32} {
		out = append(out, pkgCase{"CURFETCH", "-", "rownum=boundary", refpkg.CurFetch{Cursor: refpkg.Cursor{ID: 3}, Type: 5, RowNum: rn}})
	}
	return out
}

func genCurDelete(g genCtx) []pkgCase {
	var out []pkgCase
	lf := lenField{lens: len8, nominal: 9}
	for _, cur := range cursors(g) {
		tl := append([]int{9}, len8...)
		if !g.quick && cur.label == "cursor=id" {
			for l := 2; l < 254; l++ {
				tl = append(tl, l)
			}
		}
		for _, l := range tl {
			out = append(out, pkgCase{"CURDELETE", "-", cur.label + ",table=" + lenLabel(lf, l), refpkg.CurDelete{Cursor: cur.c, Status: uint8(l % 2), Table: sfill("db..table", l)}})
		}
	}
	return out
}

func genCurUpdate(g genCtx) []pkgCase {
	var out []pkgCase
	const stmtMax = 65535 - 4 - 1 - 255 - 1 - 1 - 255 - 2
	lf := lenField{lens: len8, nominal: 9}
	for _, cur := range cursors(g) {
		for _, tl := range append([]int{9}, len8...) {
			for _, sl := range []int{0, 1, 40, stmtMax - 1, stmtMax} {
				if cur.label == "cursor=name:every" && sl > 40 {
					continue
				}
				if sl > 40 && tl != 9 && tl != 255 {
					continue
				}
				p := refpkg.CurUpdate{Cursor: cur.c, Status: uint8(tl % 3), Table: sfill("db..table", tl), HasStmt: sl > 0, Stmt: sfill("update t set a = 1 ", sl)}
				sLab := "stmt=empty"
				switch {
				case sl == 1:
					sLab = "stmt=1"
				case sl == 40:
					sLab = "stmt=nom"
				case sl > 40:
					sLab = "stmt=max-class"
				}
				out = append(out, pkgCase{"CURUPDATE", "-", cur.label + ",table=" + lenLabel(lf, tl) + "," + sLab, p})
			}
		}
	}
	return out
}

func genOptionCmd(g genCtx) []pkgCase {
	var out []pkgCase
	for cmd := 1; cmd <= 4; cmd++ {
		for _, opt := range []uint8{0, 1, 8, 49, 100, 255} {
			for _, l := range []int{0, 1, 4, 254, 255} {
				out = append(out, pkgCase{"OPTIONCMD", "-", fmt.Sprintf("arg=%s", lenLabel(lenField{lens: len8, nominal: 4}, l)), refpkg.OptionCmd{Cmd: uint8(cmd), Option: opt, Arg: bfill(1, l)}})
			}
		}
	}
	return out
}

// corpusStats summarises a corpus for the evidence.
func corpusStats(cs []pkgCase) map[string]int {
	m := map[string]int{}
	for _, c := range cs {
		m[c.Type+"/"+c.Variant]++
	}
	return m
}

func sortedKeys(m map[string]int) []string {
	ks := make([]string, 0, len(m))
	for k := range m {
		ks = append(ks, k)
	}
	sort.Strings(ks)
	return ks
}

// ---------------------------------------------------------------- seeded random values

// genRandom returns n seeded random values per package type: every string
// at a uniformly random length in 0..max of its prefix (16/32-bit prefixed
// ones mostly short, sometimes long), random numeric fields, random optional
// parts.
func genRandom(g genCtx, n int) []pkgCase {
	var out []pkgCase
	for i := 0; i < n; i++ {
		out = append(out, genRandomOne(g, i)...)
	}
	return out
}

// genRandomOne is the i-th batch of random values: one of every type.
func genRandomOne(g genCtx, i int) []pkgCase {
	var out []pkgCase
	rnd := g.rnd(fmt.Sprintf("random/%d", i))
	l8 := func() int { return rnd.Intn(256) }
	l16 := func(max int) int {
		switch rnd.Intn(20) {
		case 0:
			return rnd.Intn(max + 1)
		case 1:
			return max - rnd.Intn(3)
		}
		return rnd.Intn(300)
	}
	l32 := func() int {
		if rnd.Chance(1, 40) {
			return 65000 + rnd.Intn(8000)
		}
		return rnd.Intn(400)
	}
	u8 := func() uint8 { return uint8(rnd.Intn(256)) }
	u16 := func() uint16 { return uint16(rnd.Intn(65536)) }
	i32 := func() int32 { return int32(rnd.Uint64()) }
	cursor := func() refpkg.Cursor {
		if rnd.Bool() {
			id := i32()
			if id == 0 {
				id = 1
			}
			return refpkg.Cursor{ID: id}
		}
		return refpkg.Cursor{Name: sfill("cur", l8())}
	}
	add := func(v string, q refpkg.Pkg) { out = append(out, pkgCase{q.TypeName(), v, "random", q}) }
	{
		sq, sv, pr := l8(), l8(), l8()
		add("-", refpkg.EED{MsgNumber: uint32(rnd.Uint64()), State: u8(), Class: u8(), SQLState: []byte(sfill("S1", sq)), Status: uint8(rnd.Intn(4)), TranState: uint16(rnd.Intn(5)),
			Msg: sfill("message ", l16(65535-16-sq-sv-pr)), Server: sfill("SRV", sv), Proc: sfill("proc_", pr), Line: u16()})
		sv, pr = l8(), l8()
		add("-", refpkg.ErrorMsg{Number: i32(), State: u8(), Class: u8(), Msg: sfill("error text ", l16(65535-12-sv-pr)), Server: sfill("SRV", sv), Proc: sfill("proc_", pr), Line: u16()})
		var env refpkg.EnvChange
		for k := rnd.Intn(6); k > 0; k-- {
			env.Items = append(env.Items, refpkg.EnvItem{Type: uint8(1 + rnd.Intn(4)), New: sfill(fmt.Sprintf("new%d.", k), l8()), Old: sfill(fmt.Sprintf("old%d.", k), l8())})
		}
		add("-", env)
		la := refpkg.LoginAck{Status: uint8(5 + rnd.Intn(3)), ProgName: sfill("ASE server ", l8())}
		copy(la.TDSVersion[:], rnd.Bytes(4))
		copy(la.ProgVersion[:], rnd.Bytes(4))
		add("-", la)
		add("-", refpkg.Done{Tok: []byte{refpkg.TokDone, refpkg.TokDoneProc, refpkg.TokDoneInProc}[rnd.Intn(3)], Status: u16(), TranState: u16(), Count: i32()})
		add("-", refpkg.Msg{Status: u8(), ID: u16()})
		wide := rnd.Bool()
		ci := refpkg.CurInfo{Wide: wide, Cursor: cursor(), Command: u8(), Status: uint32(u16())}
		if wide {
			ci.Status = uint32(rnd.Uint64())
			ci.RowNum, ci.TotalRows = i32(), i32()
		}
		if ci.Status&refpkg.CurStatRowCnt != 0 {
			ci.RowCount = i32()
		}
		add(variantOf(wide), ci)
		wide = rnd.Bool()
		dy := refpkg.Dynamic{Wide: wide, Type: u8(), Status: u8(), ID: sfill("stmt_id_", l8())}
		if rnd.Chance(1, 3) {
			dy.Type = []uint8{1, 2, 4, 8, 0x20}[rnd.Intn(5)]
		}
		if dy.Type&0x09 != 0 {
			dy.HasStmt = true
			if wide {
				dy.Stmt = sfill("select ? ", l32())
			} else {
				dy.Stmt = sfill("select ? ", l16(32766-5-len(dy.ID)))
			}
		}
		add(variantOf(wide), dy)
		add("-", refpkg.Language{Status: u8(), Cmd: sfill("select 1 ", l32())})
		wide = rnd.Bool()
		cd := refpkg.CurDeclare{Wide: wide, Name: sfill("cursor_", l8()), Options: uint32(u8()), Status: u8(), ColCountWidth: 2}
		for k := rnd.Intn(4); k > 0; k-- {
			cd.Columns = append(cd.Columns, sfill(fmt.Sprintf("col%d", k), l8()))
		}
		if wide {
			cd.Options = uint32(rnd.Uint64())
			cd.Stmt = sfill("select a from t ", l32())
		} else {
			cd.Stmt = sfill("select a from t ", l16(65535-7-255-3*256))
		}
		add(variantOf(wide), cd)
		add("-", refpkg.CurOpen{Cursor: cursor(), Status: u8()})
		add("-", refpkg.CurClose{Cursor: cursor(), Options: u8()})
		cf := refpkg.CurFetch{Cursor: cursor(), Type: uint8(rnd.Intn(8))}
		if cf.Type == 5 || cf.Type == 6 {
			cf.RowNum = i32()
		}
		add("-", cf)
		add("-", refpkg.CurDelete{Cursor: cursor(), Status: u8(), Table: sfill("db..table", l8())})
		cu := refpkg.CurUpdate{Cursor: cursor(), Status: u8(), Table: sfill("db..table", l8())}
		if rnd.Chance(3, 4) {
			cu.Stmt = sfill("update t set a = 1 ", 1+l16(65535-4-1-255-1-1-255-2-1))
			cu.HasStmt = true
		}
		add("-", cu)
		add("-", refpkg.OptionCmd{Cmd: uint8(1 + rnd.Intn(4)), Option: u8(), Arg: bfill(u8(), l8())})
		var ob refpkg.OrderBy
		var ob2 refpkg.OrderBy2
		for k := rnd.Intn(300); k > 0; k-- {
			ob.Cols = append(ob.Cols, u8())
			ob2.Cols = append(ob2.Cols, u16())
		}
		add("narrow", ob)
		add("wide", ob2)
		// a format with random columns, and a row for it
		tok := fmtTokens[rnd.Intn(4)]
		f := refpkg.Format{Tok: tok}
		var cells []refpkg.Cell
		for k := rnd.Intn(9); k > 0; k-- {
			ti := refpkg.Types[rnd.Intn(len(refpkg.Types))]
			if ti.Kind == refpkg.KBlob || unreadableTypes[ti.Code] {
				continue
			}
			st := uint32(0)
			if rnd.Bool() {
				st = refpkg.ColumnStatus
			}
			vl := valueLens(ti)
			nlen := vl[rnd.Intn(len(vl))]
			switch ti.Name {
			case "CHAR", "VARCHAR", "BINARY", "VARBINARY":
				nlen = l8()
			case "LONGCHAR", "LONGBINARY":
				nlen = l32()
			}
			var col refpkg.Column
			var cell refpkg.Cell
			if ti.Kind == refpkg.KText {
				col = dataColumn(ti, 0x7fffffff, st)
				cell = refpkg.Cell{TxtPtr: bfill(u8(), 1+rnd.Intn(255)), TimeStamp: bfill(u8(), 8), Data: bfill(u8(), l32())}
			} else {
				raw, maxlen := benignValue(ti, nlen)
				col = dataColumn(ti, maxlen, st)
				cell = refpkg.Cell{Data: raw}
			}
			col.Name = sfill(col.Name, rnd.Intn(40))
			col.Status |= uint32(u8()) &^ refpkg.ColumnStatus
			col.UserType = i32()
			col.Locale = sfill("loc", rnd.Intn(8))
			if tok == refpkg.TokRowFmt2 {
				col.Label, col.Catalog, col.Schema, col.Table = sfill("label", l8()), sfill("cat", rnd.Intn(30)), sfill("sch", rnd.Intn(30)), sfill("tab", l8())
			}
			f.Cols = append(f.Cols, col)
			cells = append(cells, cell)
		}
		add(fmtVariant(tok), f)
		dataTok := byte(refpkg.TokRow)
		if tok == refpkg.TokParamFmt || tok == refpkg.TokParamFmt2 {
			dataTok = refpkg.TokParams
		}
		add(fmtVariant(tok), refpkg.Row{Tok: dataTok, Fmt: f, Cells: cells})
	}
	return out
}
