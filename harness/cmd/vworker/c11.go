package main

import (
	"context"
	"encoding/hex"
	"encoding/json"
	"errors"
	"fmt"
	"io"
	"runtime"
	"strconv"
	"sync"
	"sync/atomic"
	"time"

	"github.com/SAP/go-dblib/tds"

	"verif/harness/rt"
	"verif/harness/srv"
)

// C11 — server messages and environment changes are surfaced exactly once.
//
// Events (one global sequence counter): hook invocations, consumer
// receptions, the error returned by NextPackageUntil, PacketSize() at
// quiescent points. Oracle: exactly-once / ordering checker over the log.

func init() { register("C11", runC11) }

type c11Pkg struct {
	Kind string `json:"kind"` // eed | info | env | pkg | doneX | done0
	Hex  string `json:"hex"`
	// for eed/info: message number; for env: members
	MsgNr   uint32      `json:"msgnr,omitempty"`
	Members [][3]string `json:"members,omitempty"` // type, old, new
}

type c11Resp struct {
	Pkgs     []c11Pkg `json:"packages"`
	Cuts     []int    `json:"packet_cuts"`
	CutClass string   `json:"cut_class"`
	EmptyEOM bool     `json:"header_only_eom"`
	// hooks registered immediately before this response is fed
	AddEEDHooks int `json:"add_eed_hooks"`
	AddEnvHooks int `json:"add_env_hooks"`
	// consumer
	Style  string `json:"style"`   // "nextpackage" | "until"
	FailAt int    `json:"fail_at"` // callback invocation index that fails (-1 never)
	// FailWrapsEOF: the failing callback returns an error that wraps io.EOF
	// (still "another error": only the unwrapped io.EOF means "resume later")
	FailWrapsEOF bool `json:"fail_wraps_eof,omitempty"`
	// FailWrapsEED: the failing callback reports an EARLIER statement's error
	// as its cause: its error wraps a *tds.EEDError holding message 99999,
	// which is no message of this response
	FailWrapsEED bool `json:"fail_wraps_an_earlier_eed_error,omitempty"`
	// Poll: the consumer polls with NextPackageUntil(wait=false) until
	// something is there (the packets of the response arrive meanwhile)
	Poll bool `json:"polling_consumer,omitempty"`
	Yield        int  `json:"yield"` // Gosched calls between packets while feeding
}

type c11Case struct {
	Resps []c11Resp `json:"responses"`
}

type c11Event struct {
	seq  int64
	what string // "hook:<h>:<msgnr>" | "env:<h>:<type>:<old>:<new>" | "recv:<kind>[:<msgnr>]"
}

var errC11Callback = errors.New("c11 callback failure")
var errC11WrapsEOF = fmt.Errorf("c11 callback failure while scanning: %w", io.EOF)
var errC11WrapsEED = fmt.Errorf("c11 callback failure, caused by the earlier statement: %w", &tds.EEDError{EEDPackages: []*tds.EEDPackage{{MsgNumber: 99999, Msg: "message of an earlier statement"}}, WrappedError: errors.New("earlier statement failed")})

func c11Run(c *Ctx, cs c11Case) {
	r := c.R
	r.Eval(1)
	k, err := newKit(4096, 0)
	if err != nil {
		r.Inconclusive("cannot set up connection: %v", err)
		return
	}
	defer k.teardown()
	var seq int64
	var mu sync.Mutex
	var log []c11Event
	emit := func(what string) {
		s := atomic.AddInt64(&seq, 1)
		mu.Lock()
		log = append(log, c11Event{s, what})
		mu.Unlock()
	}
	nEED, nEnv := 0, 0
	packSize := 512
	nontrivial := false
	for ri, rp := range cs.Resps {
		// Hooks are registered one by one or, every other time there are
		// several, in one call that is preceded by a REFUSED call: the same
		// hooks with a nil among them (a slip the API answers with an
		// error). The refused call must not have registered anything.
		var eedFns []tds.EEDHook
		for i := 0; i < rp.AddEEDHooks; i++ {
			h := nEED
			nEED++
			eedFns = append(eedFns, func(e tds.EEDPackage) { emit(fmt.Sprintf("hook:%d:%d", h, e.MsgNumber)) })
		}
		var envFns []tds.EnvChangeHook
		for i := 0; i < rp.AddEnvHooks; i++ {
			h := nEnv
			nEnv++
			envFns = append(envFns, func(t tds.EnvChangeType, o, n string) { emit(fmt.Sprintf("env:%d:%d:%s:%s", h, int(t), o, n)) })
		}
		if len(eedFns) >= 2 && (ri+len(eedFns))%2 == 1 {
			bad := append(append(append([]tds.EEDHook(nil), eedFns[:len(eedFns)-1]...), nil), eedFns[len(eedFns)-1])
			if err := k.ch.RegisterEEDHooks(bad...); err == nil {
				r.Violate("register-hook/nil-accepted", "RegisterEEDHooks with a nil hook among the arguments returned nil", cs)
				return
			}
			r.Count("refused_registrations_then_retry", 1)
			// the argument slice belongs to the caller: afterwards it is
			// overwritten with a hook that must never be called, and
			// appended to (it has spare capacity)
			arg := make([]tds.EEDHook, len(eedFns), len(eedFns)+4)
			copy(arg, eedFns)
			if err := k.ch.RegisterEEDHooks(arg...); err != nil {
				r.Violate("register-hook-failed", err.Error(), cs)
				return
			}
			for i := range arg {
				arg[i] = func(tds.EEDPackage) { emit("poison-eed") }
			}
			_ = append(arg, func(tds.EEDPackage) { emit("poison-eed") })
		} else {
			for _, f := range eedFns {
				arg := make([]tds.EEDHook, 1, 3)
				arg[0] = f
				if err := k.ch.RegisterEEDHooks(arg...); err != nil {
					r.Violate("register-hook-failed", err.Error(), cs)
					return
				}
				arg[0] = func(tds.EEDPackage) { emit("poison-eed") }
				_ = append(arg, func(tds.EEDPackage) { emit("poison-eed") })
			}
		}
		if len(envFns) >= 2 && (ri+len(envFns))%2 == 1 {
			bad := append(append(append([]tds.EnvChangeHook(nil), envFns[:len(envFns)-1]...), nil), envFns[len(envFns)-1])
			if err := k.ch.RegisterEnvChangeHooks(bad...); err == nil {
				r.Violate("register-hook/nil-accepted", "RegisterEnvChangeHooks with a nil hook among the arguments returned nil", cs)
				return
			}
			r.Count("refused_registrations_then_retry", 1)
			arg := make([]tds.EnvChangeHook, len(envFns), len(envFns)+4)
			copy(arg, envFns)
			if err := k.ch.RegisterEnvChangeHooks(arg...); err != nil {
				r.Violate("register-hook-failed", err.Error(), cs)
				return
			}
			for i := range arg {
				arg[i] = func(tds.EnvChangeType, string, string) { emit("poison-env") }
			}
			_ = append(arg, func(tds.EnvChangeType, string, string) { emit("poison-env") })
		} else {
			for _, f := range envFns {
				arg := make([]tds.EnvChangeHook, 1, 3)
				arg[0] = f
				if err := k.ch.RegisterEnvChangeHooks(arg...); err != nil {
					r.Violate("register-hook-failed", err.Error(), cs)
					return
				}
				arg[0] = func(tds.EnvChangeType, string, string) { emit("poison-env") }
				_ = append(arg, func(tds.EnvChangeType, string, string) { emit("poison-env") })
			}
		}
		mu.Lock()
		log = log[:0]
		mu.Unlock()
		// expected
		var wantHooks []string
		var wantRecvNP []string // NextPackage style
		var body []byte
		var eedsInOrder []uint32
		for _, p := range rp.Pkgs {
			b, _ := hex.DecodeString(p.Hex)
			body = append(body, b...)
			switch p.Kind {
			case "eed":
				for h := 0; h < nEED; h++ {
					wantHooks = append(wantHooks, fmt.Sprintf("hook:%d:%d", h, p.MsgNr))
				}
				wantRecvNP = append(wantRecvNP, fmt.Sprintf("recv:eed:%d", p.MsgNr))
				eedsInOrder = append(eedsInOrder, p.MsgNr)
			case "info":
			case "env":
				for _, m := range p.Members {
					for h := 0; h < nEnv; h++ {
						wantHooks = append(wantHooks, fmt.Sprintf("env:%d:%s:%s:%s", h, m[0], m[1], m[2]))
					}
					if m[0] == "4" {
						if v, err := strconv.Atoi(m[2]); err == nil {
							packSize = v
						}
					}
				}
			default:
				wantRecvNP = append(wantRecvNP, "recv:"+p.Kind)
			}
		}
		if len(wantRecvNP) == 0 || wantRecvNP[len(wantRecvNP)-1] != "recv:done0" {
			wantRecvNP = append(wantRecvNP, "recv:done0")
		}
		pkts := c02Packets(body, rp.Cuts, nil, rp.EmptyEOM)
		// consumer runs concurrently with the reader
		ctx, cancel := context.WithCancel(context.Background())
		var retErr error
		failed := false
		cbCalls := 0
		consumerDone := make(chan struct{})
		kindOf := func(pkg tds.Package) string {
			if e, ok := pkg.(*tds.EEDPackage); ok {
				if e.Status&tds.TDS_EED_INFO == tds.TDS_EED_INFO {
					return fmt.Sprintf("info:%d", e.MsgNumber)
				}
				return fmt.Sprintf("eed:%d", e.MsgNumber)
			}
			return c03Kind(pkg)
		}
		go func() {
			defer close(consumerDone)
			if rp.Style == "nextpackage" {
				for {
					pkg, err := k.ch.NextPackage(ctx, true)
					if err != nil {
						retErr = err
						return
					}
					kd := kindOf(pkg)
					emit("recv:" + kd)
					if kd == "done0" {
						return
					}
				}
			}
			cb := func(pkg tds.Package) (bool, error) {
				idx := cbCalls
				cbCalls++
				kd := kindOf(pkg)
				emit("recv:" + kd)
				if idx == rp.FailAt {
					failed = true
					if rp.FailWrapsEOF {
						return false, errC11WrapsEOF
					}
					if rp.FailWrapsEED {
						return false, errC11WrapsEED
					}
					// every other failing callback says "stop" and fails at once
					return idx%2 == 1, errC11Callback
				}
				return kd == "done0", nil
			}
			if rp.Poll {
				for {
					_, retErr = k.ch.NextPackageUntil(ctx, false, cb)
					if !errors.Is(retErr, tds.ErrNoPackageReady) || ctx.Err() != nil {
						return
					}
					runtime.Gosched()
				}
			}
			_, retErr = k.ch.NextPackageUntil(ctx, true, cb)
		}()
		for _, p := range pkts {
			k.tr.Feed(p)
			for y := 0; y < rp.Yield; y++ {
				runtime.Gosched()
			}
		}
		idle := awaitIdle(k.tr, 30*time.Second)
		select {
		case <-consumerDone:
		case <-time.After(3 * time.Second):
			cancel()
			<-consumerDone
			cancel()
			r.Violate("consumer-blocked/"+rp.Style, fmt.Sprintf("response %d: consumer did not finish although the reader processed the whole response (idle=%v); err=%v", ri, idle, retErr), cs)
			return
		}
		cancel()
		if !idle {
			r.Inconclusive("response %d: reader did not become idle", ri)
			return
		}
		mu.Lock()
		ev := append([]c11Event(nil), log...)
		mu.Unlock()
		// sort by seq (appends happen under the mutex after the atomic
		// increment, so re-sort)
		for i := 1; i < len(ev); i++ {
			for j := i; j > 0 && ev[j-1].seq > ev[j].seq; j-- {
				ev[j-1], ev[j] = ev[j], ev[j-1]
			}
		}
		var gotHooks, gotRecv []string
		for _, e := range ev {
			if e.what[0] == 'r' {
				gotRecv = append(gotRecv, e.what)
			} else {
				gotHooks = append(gotHooks, e.what)
			}
		}
		r.Count("hook_calls_observed", int64(len(gotHooks)))
		r.Count("packages_received", int64(len(gotRecv)))
		placement := c11Placement(rp)
		sigTail := "/" + rp.CutClass
		fail := func(clause, detail string) {
			r.Violate(clause+sigTail, fmt.Sprintf("response %d (placement %s, %d packets, %d EED hooks, %d env hooks, style %s, fail_at %d): %s\n hooks got  %v\n hooks want %v\n recv got %v", ri, placement, len(pkts), nEED, nEnv, rp.Style, rp.FailAt, detail, gotHooks, wantHooks, gotRecv), cs)
		}
		// (1) exactly once, hooks in registration order, messages in arrival order
		if !sameStrings(gotHooks, wantHooks) {
			clause := "hooks/wrong-calls"
			cnt := map[string]int{}
			for _, h := range gotHooks {
				cnt[h]++
			}
			wcnt := map[string]int{}
			for _, h := range wantHooks {
				wcnt[h]++
			}
			dup, miss, extra := false, false, false
			for h, n := range cnt {
				if n > wcnt[h] && wcnt[h] > 0 {
					dup = true
				}
				if wcnt[h] == 0 {
					extra = true
				}
			}
			for h, n := range wcnt {
				if cnt[h] < n {
					miss = true
				}
			}
			switch {
			case dup:
				clause = "hooks/called-more-than-once"
			case miss:
				clause = "hooks/call-missing"
			case extra:
				clause = "hooks/unexpected-call"
			default:
				clause = "hooks/wrong-order"
			}
			fail(clause, firstDiff(gotHooks, wantHooks))
			return
		}
		// (2) never delivered
		for _, g := range gotRecv {
			if len(g) >= 9 && (g[:9] == "recv:info" || g == "recv:env") {
				fail("delivered-as-package", g+" reached the consumer")
				return
			}
		}
		// (3) what the consumer saw
		want := wantRecvNP
		if rp.Style == "until" {
			want = nil
			for _, w := range wantRecvNP {
				if len(w) < 8 || w[:8] != "recv:eed" {
					want = append(want, w)
				}
			}
			if failed {
				want = want[:rp.FailAt+1]
			}
		}
		if !sameStrings(gotRecv, want) {
			fail("consumer/wrong-packages", firstDiff(gotRecv, want))
			return
		}
		// (4) ordering: hook(e) before any later package of the response
		// reached the consumer. Positions in arrival order:
		pos := map[string]int{}
		idx := 0
		for _, p := range rp.Pkgs {
			switch p.Kind {
			case "eed":
				pos[fmt.Sprintf("eed:%d", p.MsgNr)] = idx
			}
			idx++
		}
		arrivalOfRecv := func(i int) int {
			// i-th deliverable (per style) package -> arrival index
			n := -1
			for ai, p := range rp.Pkgs {
				if p.Kind == "info" || p.Kind == "env" {
					continue
				}
				if rp.Style == "until" && p.Kind == "eed" {
					continue
				}
				n++
				if n == i {
					return ai
				}
			}
			return len(rp.Pkgs) // the library-supplied DONE arrives after everything
		}
		pairs := 0
		ri2 := 0
		for _, e := range ev {
			if e.what[0] != 'r' {
				continue
			}
			arr := arrivalOfRecv(ri2)
			ri2++
			for _, h := range ev {
				if len(h.what) < 5 || h.what[:5] != "hook:" {
					continue
				}
				var hh int
				var nr uint32
				fmt.Sscanf(h.what, "hook:%d:%d", &hh, &nr)
				ea := pos[fmt.Sprintf("eed:%d", nr)]
				if ea < arr {
					pairs++
					if h.seq > e.seq {
						fail("ordering/package-received-before-earlier-message-was-hooked", fmt.Sprintf("%s (seq %d) was received before %s (seq %d) although the message arrived earlier", e.what, e.seq, h.what, h.seq))
						return
					}
				}
			}
		}
		r.Count("ordering_pairs_checked", int64(pairs))
		// (5) callback failure
		if rp.Style == "until" {
			if failed {
				cb := errC11Callback
				if rp.FailWrapsEOF {
					cb = errC11WrapsEOF
				}
				if rp.FailWrapsEED {
					cb = errC11WrapsEED
				}
				if retErr == nil || !errors.Is(retErr, cb) || retErr == io.EOF {
					fail("callback-error/not-matching", fmt.Sprintf("NextPackageUntil returned %v, want an error matching the callback's", retErr))
					return
				}
				// messages delivered before the failing package, in order
				var before, after []uint32
				nonEED := -1
				for _, p := range rp.Pkgs {
					switch p.Kind {
					case "info", "env":
						continue
					case "eed":
						if nonEED < rp.FailAt {
							before = append(before, p.MsgNr)
						} else {
							after = append(after, p.MsgNr)
						}
					default:
						nonEED++
					}
				}
				var carried []uint32
				var ee *tds.EEDError
				if rp.FailWrapsEED {
					// the callback's own error contains an EEDError as well:
					// only the outermost error speaks for this response
					if outer, isEED := retErr.(*tds.EEDError); isEED {
						for _, p := range outer.EEDPackages {
							carried = append(carried, p.MsgNumber)
						}
					}
				} else if errors.As(retErr, &ee) {
					for _, p := range ee.EEDPackages {
						carried = append(carried, p.MsgNumber)
					}
				}
				ok := len(carried) >= len(before) && len(carried) <= len(before)+len(after)
				if ok {
					for i, v := range carried {
						if i < len(before) {
							ok = ok && v == before[i]
						} else {
							ok = ok && v == after[i-len(before)]
						}
					}
				}
				if !ok {
					fail("callback-error/wrong-message-list", fmt.Sprintf("error carries messages %v; received before the failing package: %v, later in the response: %v", carried, before, after))
					return
				}
				r.Count("callback_failures_checked", 1)
			} else if retErr != nil {
				fail("error-surfaced", retErr.Error())
				return
			}
		} else if retErr != nil {
			fail("error-surfaced", retErr.Error())
			return
		}
		// (6) packet size at the quiescent point
		if got := k.conn.PacketSize(); got != packSize {
			fail("packet-size-not-applied", fmt.Sprintf("PacketSize()=%d, last announced %d", got, packSize))
			return
		}
		// nothing left
		left := drainChannel(k.ch, k.ctx)
		if len(left.Dumps) > 0 || len(left.Errs) > 0 {
			fail("leftover", fmt.Sprintf("%v %v", left.Types, left.Errs))
			return
		}
		if len(rp.Cuts) > 0 && (len(wantHooks) > 0) {
			nontrivial = true
		}
		r.SetAdd("placement_cut_hooks", fmt.Sprintf("%s|%s|%d|%d|%s", placement, rp.CutClass, nEED, nEnv, rp.Style))
	}
	if nontrivial {
		b, _ := json.Marshal(cs)
		r.Distinct(string(b))
	}
}

// c11Placement classifies where the special packages sit.
func c11Placement(rp c11Resp) string {
	s := ""
	for _, p := range rp.Pkgs {
		switch p.Kind {
		case "eed":
			s += "E"
		case "info":
			s += "i"
		case "env":
			s += "V"
		case "done0", "doneX":
			s += "d"
		default:
			s += "p"
		}
	}
	// compress runs
	out := ""
	for i := 0; i < len(s); i++ {
		if i > 0 && s[i] == s[i-1] {
			continue
		}
		out += string(s[i])
	}
	if len(out) > 8 {
		out = out[:8] + "+"
	}
	return out
}

func c11GenResp(rnd *rt.Rand, nextMsg *uint32, curPS *int, first bool) c11Resp {
	var rp c11Resp
	cols := []srv.Col{colI4, colVC}
	add := func(kind string, b []byte, p c11Pkg) {
		p.Kind = kind
		p.Hex = hex.EncodeToString(b)
		rp.Pkgs = append(rp.Pkgs, p)
	}
	special := func() {
		switch rnd.Intn(3) {
		case 0:
			*nextMsg++
			nr := *nextMsg
			add("eed", srv.EED{MsgNr: nr, State: 1, Class: 16, SQLState: []byte("ZZZZZ"), Status: byte(rnd.Intn(2)), Msg: fmt.Sprintf("message %d\n", nr), Server: "S", Proc: "p", Line: uint16(nr)}.Bytes(), c11Pkg{MsgNr: nr})
		case 1:
			*nextMsg++
			nr := *nextMsg
			add("info", srv.EED{MsgNr: nr, Class: 10, Status: 2 | byte(rnd.Intn(2)), Msg: "informational", Server: "S"}.Bytes(), c11Pkg{MsgNr: nr})
		default:
			var ms []srv.EnvMember
			var mm [][3]string
			for j := rnd.Intn(5); j > 0; j-- {
				*nextMsg++
				t := byte(rnd.Range(1, 4))
				nv, ov := fmt.Sprintf("new%d", *nextMsg), fmt.Sprintf("old%d", *nextMsg)
				// empty old / new values are common (e.g. no previous language)
				switch rnd.Intn(5) {
				case 0:
					ov = ""
				case 1:
					nv = ""
				}
				if t == 4 {
					nv = strconv.Itoa(rnd.Range(256, 65535))
					ov = strconv.Itoa(*curPS)
					if rnd.Chance(1, 3) {
						// the server confirms the size already in use
						nv = strconv.Itoa(*curPS)
					} else if rnd.Chance(1, 4) {
						// the old value is the server's view, not the
						// client's: a new size "confirmed" as old and new
						ov = nv
					}
					*curPS, _ = strconv.Atoi(nv)
				}
				ms = append(ms, srv.EnvMember{Type: t, New: nv, Old: ov})
				mm = append(mm, [3]string{strconv.Itoa(int(t)), ov, nv})
			}
			add("env", srv.EnvChange(ms...), c11Pkg{Members: mm})
		}
	}
	maybe := func() {
		for rnd.Chance(2, 5) {
			special()
		}
	}
	maybe()
	if rnd.Bool() {
		add("pkg", srv.RowFmt(true, cols...), c11Pkg{})
		maybe()
		for j := rnd.Intn(4); j > 0; j-- {
			add("pkg", srv.Data(srv.TokRow, cols, vals(srv.I32(int32(j)), []byte("v"))), c11Pkg{})
			maybe()
		}
	} else {
		add("pkg", srv.Msg(0, 13), c11Pkg{})
		maybe()
	}
	switch rnd.Intn(3) {
	case 0:
		add("done0", srv.Done(srv.TokDone, 0, 0, 0), c11Pkg{})
	case 1:
		add("doneX", srv.Done(srv.TokDone, srv.DoneCount, 0, 1), c11Pkg{})
	default:
		add("doneX", srv.Done(srv.TokDone, srv.DoneError, 0, 0), c11Pkg{})
	}
	n := 0
	for _, p := range rp.Pkgs {
		n += len(p.Hex) / 2
	}
	switch rnd.Intn(5) {
	case 0:
		rp.CutClass = "one-packet"
	case 1:
		rp.CutClass = "random-cuts"
		rp.Cuts = randomCuts(rnd, n, rnd.Range(1, 6))
	case 2:
		rp.CutClass = "one-byte-bodies"
		for i := 1; i < n; i++ {
			rp.Cuts = append(rp.Cuts, i)
		}
	case 3:
		rp.CutClass = "every-7th-offset"
		for i := 7; i < n; i += 7 {
			rp.Cuts = append(rp.Cuts, i)
		}
	default:
		rp.CutClass = "header-only-eom"
		rp.EmptyEOM = true
		rp.Cuts = randomCuts(rnd, n, rnd.Range(0, 3))
	}
	if first || rnd.Chance(1, 3) {
		rp.AddEEDHooks = rnd.Intn(4)
		rp.AddEnvHooks = rnd.Intn(4)
	}
	if rnd.Chance(1, 3) {
		rp.Style = "nextpackage"
		rp.FailAt = -1
	} else {
		rp.Style = "until"
		nonEED := 0
		for _, p := range rp.Pkgs {
			if p.Kind == "pkg" || p.Kind == "done0" || p.Kind == "doneX" {
				nonEED++
			}
		}
		rp.FailAt = rnd.Range(-1, nonEED-1)
		if rnd.Bool() {
			rp.FailAt = -1
		}
		rp.FailWrapsEOF = rnd.Chance(1, 3)
		rp.Poll = rnd.Chance(1, 3)
		rp.FailWrapsEED = !rp.FailWrapsEOF && rnd.Chance(1, 4)
	}
	rp.Yield = rnd.Intn(4)
	return rp
}

func runC11(c *Ctx) {
	r := c.R
	r.Rule = "1-3 successive responses on one channel with 0-6 EED packages (informational / not) and ENVCHANGE packages with 0-4 members (all types, numeric packet sizes) at every package boundary, 5 packetisation classes (a fragmented EED is parsed again after a retry), 0-3 message hooks and 0-3 environment hooks registered before or between responses, consumer concurrent with the reader (NextPackage loop or NextPackageUntil with a failing callback at any index); non-trivial = response with at least one hook call expected and at least one packet cut; distinct = full case"
	r.TrustedBase = []string{"harness/srv encoder", "event log with one atomic sequence counter: hooks log inside the reader before a later package is queued, the consumer logs after receiving"}
	r.Assumptions = []string{"on callback failure the error may carry the messages received before the failing package, optionally followed by later ones of the same response (both readings of 'received so far' accepted)", "one NextPackageUntil call per response"}
	if c.Replay != nil {
		var dc c11DrainCase
		if json.Unmarshal(c.Replay, &dc) == nil && dc.Drain != "" {
			c11DrainRun(c, dc)
			return
		}
		var sc c11SizeCase
		if json.Unmarshal(c.Replay, &sc) == nil && sc.Scenario == "size" {
			c11SizeRun(c, sc)
			return
		}
		var cs c11Case
		if err := json.Unmarshal(c.Replay, &cs); err != nil {
			r.Inconclusive("bad replay: %v", err)
			return
		}
		c11Run(c, cs)
		return
	}
	runC11Drain(c)
	runC11Size(c)
	n := 5000
	if !c.Quick() {
		n = 400000
	}
	c.parallel(n, func(i int) {
		rnd := rt.NewRand(c.Seed, fmt.Sprintf("c11/%d", i))
		var cs c11Case
		var nextMsg uint32 = 1000
		curPS := 512
		for j := rnd.Range(1, 3); j > 0; j-- {
			cs.Resps = append(cs.Resps, c11GenResp(rnd, &nextMsg, &curPS, len(cs.Resps) == 0))
		}
		if i < 3 {
			r.Sample("case", cs)
		}
		c11Run(c, cs)
	})
}
