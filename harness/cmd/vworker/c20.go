package main

import (
	"database/sql"
	"encoding/json"
	"fmt"
	"math"
	"os"
	"os/exec"
	"runtime"
	"sort"
	"sync"
	"sync/atomic"

	dblib "github.com/SAP/go-dblib"

	"verif/harness/rt"
)

// C20 — isolation level mapping is a deterministic, consistent function.
//
// Events: results of ASEIsolationLevelFromGo for every sql level -8..64, and
// of ToGo/String for every ASE level -2..8, each evaluated N times in this
// process and in K fresh child processes.
// Oracle: forward table by name; backward: the answer set per input has
// size 1; there-and-back is the identity on the supported non-default levels.

func init() { register("C20", runC20) }

type c20Answers struct {
	ToGo   map[string][]int    `json:"togo"`
	String map[string][]string `json:"string"`
}

func c20Collect(n int) c20Answers {
	a := c20Answers{ToGo: map[string][]int{}, String: map[string][]string{}}
	for l := -2; l <= 8; l++ {
		lvl := dblib.ASEIsolationLevel(l)
		gs := map[int]bool{}
		ss := map[string]bool{}
		for i := 0; i < n; i++ {
			gs[int(lvl.ToGo())] = true
			ss[lvl.String()] = true
		}
		k := fmt.Sprint(l)
		for g := range gs {
			a.ToGo[k] = append(a.ToGo[k], g)
		}
		for s := range ss {
			a.String[k] = append(a.String[k], s)
		}
		sort.Ints(a.ToGo[k])
		sort.Strings(a.String[k])
	}
	return a
}

// c20CollectConcurrent: the first backward calls of a process are made by G
// goroutines at the same moment (released from a spin barrier), each asking
// for the levels in its own order.
func c20CollectConcurrent(G int) c20Answers {
	type one struct {
		g map[int]int
		s map[int]string
	}
	res := make([]one, G)
	var ready, goFlag int32
	var wg sync.WaitGroup
	for w := 0; w < G; w++ {
		wg.Add(1)
		go func(w int) {
			defer wg.Done()
			o := one{g: map[int]int{}, s: map[int]string{}}
			atomic.AddInt32(&ready, 1)
			for atomic.LoadInt32(&goFlag) == 0 {
			}
			for i := 0; i < 11; i++ {
				l := -2 + (i+w*5)%11
				lvl := dblib.ASEIsolationLevel(l)
				if w%2 == 0 {
					o.g[l] = int(lvl.ToGo())
					o.s[l] = lvl.String()
				} else {
					o.s[l] = lvl.String()
					o.g[l] = int(lvl.ToGo())
				}
			}
			res[w] = o
		}(w)
	}
	for atomic.LoadInt32(&ready) < int32(G) {
		runtime.Gosched()
	}
	atomic.StoreInt32(&goFlag, 1)
	wg.Wait()
	a := c20Answers{ToGo: map[string][]int{}, String: map[string][]string{}}
	for l := -2; l <= 8; l++ {
		k := fmt.Sprint(l)
		gs := map[int]bool{}
		ss := map[string]bool{}
		for _, o := range res {
			gs[o.g[l]] = true
			ss[o.s[l]] = true
		}
		for g := range gs {
			a.ToGo[k] = append(a.ToGo[k], g)
		}
		for s := range ss {
			a.String[k] = append(a.String[k], s)
		}
		sort.Ints(a.ToGo[k])
		sort.Strings(a.String[k])
	}
	return a
}

func runC20(c *Ctx) {
	r := c.R
	if c.Leg == "child" {
		b, _ := json.Marshal(c20Collect(4000))
		os.Stdout.Write(b)
		return
	}
	if c.Leg == "child-concurrent" {
		b, _ := json.Marshal(c20CollectConcurrent(12))
		os.Stdout.Write(b)
		return
	}
	r.Rule = "forward: every sql.IsolationLevel -8..64 (exhaustive); backward: every ASE level -2..8 evaluated N times in-process and in K fresh processes; non-trivial = input that has a defined mapping (5 forward, 4 backward, 4 there-and-back), distinct = (direction,input)"
	r.Exhaustive = true
	r.Assumptions = []string{"the four ASE levels are identified by the library's named constants, not by their numeric values", "a two-way random choice survives N consecutive draws with probability 2^-N"}

	// ---- forward
	want := map[sql.IsolationLevel]dblib.ASEIsolationLevel{
		sql.LevelDefault:         dblib.ASELevelReadCommitted,
		sql.LevelReadUncommitted: dblib.ASELevelReadUncommitted,
		sql.LevelReadCommitted:   dblib.ASELevelReadCommitted,
		sql.LevelRepeatableRead:  dblib.ASELevelRepeatableRead,
		sql.LevelSerializable:    dblib.ASELevelSerializableRead,
	}
	named := map[dblib.ASEIsolationLevel]bool{}
	for _, v := range want {
		named[v] = true
	}
	if len(named) != 4 {
		r.Violate("forward/levels-not-distinct", fmt.Sprintf("the four named ASE levels are not pairwise distinct: %v", named), nil)
	}
	reps := 200
	for l := -8; l <= 64; l++ {
		sl := sql.IsolationLevel(l)
		for i := 0; i < reps; i++ {
			got, err := dblib.ASEIsolationLevelFromGo(sl)
			r.Eval(1)
			w, supported := want[sl]
			switch {
			case supported && (err != nil || got != w):
				r.Violate(fmt.Sprintf("forward/supported/%d", l), fmt.Sprintf("FromGo(%d)=(%d,%v), want (%d,nil)", l, got, err, w), map[string]int{"sql": l})
			case !supported && err == nil:
				r.Violate("forward/unsupported-accepted", fmt.Sprintf("FromGo(%d)=(%d,nil), want an error", l, got), map[string]int{"sql": l})
			}
			if supported {
				r.Distinct(fmt.Sprintf("fwd:%d", l))
			}
		}
	}
	r.Sample("forward", map[string]interface{}{"sql_levels": "-8..64", "supported": []string{"Default->ReadCommitted", "ReadUncommitted", "ReadCommitted", "RepeatableRead", "Serializable"}})

	// ---- forward and backward under concurrency: goroutines translating
	// DIFFERENT levels at the same time, every answer checked
	{
		G := 8
		per := 150000
		if !c.Quick() {
			per = 2000000
		}
		levels := []sql.IsolationLevel{sql.LevelDefault, sql.LevelReadUncommitted, sql.LevelReadCommitted, sql.LevelRepeatableRead, sql.LevelSerializable, sql.LevelSnapshot, sql.IsolationLevel(-1)}
		type bad struct {
			in       int
			got      int
			err      bool
			backward bool
		}
		var wg sync.WaitGroup
		bads := make([][]bad, G)
		var ready, goFlag int32
		for w := 0; w < G; w++ {
			wg.Add(1)
			go func(w int) {
				defer wg.Done()
				atomic.AddInt32(&ready, 1)
				for atomic.LoadInt32(&goFlag) == 0 {
				}
				for i := 0; i < per && len(bads[w]) < 3; i++ {
					sl := levels[(i+w)%len(levels)]
					got, err := dblib.ASEIsolationLevelFromGo(sl)
					wv, supported := want[sl]
					if supported && (err != nil || got != wv) || !supported && err == nil {
						bads[w] = append(bads[w], bad{in: int(sl), got: int(got), err: err != nil})
					}
					if supported && sl != sql.LevelDefault && err == nil {
						if b := got.ToGo(); b != sl && got == wv {
							bads[w] = append(bads[w], bad{in: int(sl), got: int(b), backward: true})
						}
					}
				}
			}(w)
		}
		for atomic.LoadInt32(&ready) < int32(G) {
			runtime.Gosched()
		}
		atomic.StoreInt32(&goFlag, 1)
		wg.Wait()
		r.Eval(int64(G * per))
		r.Count("concurrent_translations", int64(G*per))
		for w := range bads {
			for _, b := range bads[w] {
				if b.backward {
					r.Violate(fmt.Sprintf("concurrent/roundtrip/sql=%d", b.in), fmt.Sprintf("with %d goroutines translating different levels at the same time, FromGo(%d).ToGo() returned %d", G, b.in, b.got), map[string]int{"sql": b.in, "goroutines": G})
				} else {
					r.Violate(fmt.Sprintf("concurrent/forward/sql=%d", b.in), fmt.Sprintf("with %d goroutines translating different levels at the same time, FromGo(%d) returned (%d, error=%v)", G, b.in, b.got, b.err), map[string]int{"sql": b.in, "goroutines": G})
				}
				break
			}
		}
	}
	// ---- backward, in process
	N := 20000
	K := 8
	if !c.Quick() {
		K = 64
	}
	all := []c20Answers{c20Collect(N)}
	r.Eval(int64(11 * N * 2))
	// ---- backward, fresh processes
	exe, _ := os.Executable()
	procs := 0
	for k := 0; k < K; k++ {
		out, err := exec.Command(exe, "C20", "--leg", "child").Output()
		if err != nil {
			r.Inconclusive("child process %d failed: %v", k, err)
			continue
		}
		var a c20Answers
		if err := json.Unmarshal(out, &a); err != nil {
			r.Inconclusive("child process %d: bad output: %v", k, err)
			continue
		}
		all = append(all, a)
		procs++
		r.Eval(11 * 4000 * 2)
	}
	r.Count("fresh_processes", int64(procs))
	// ---- backward, fresh processes whose FIRST calls come from 12 goroutines at once
	cprocs := 0
	for k := 0; k < 2*K; k++ {
		out, err := exec.Command(exe, "C20", "--leg", "child-concurrent").Output()
		if err != nil {
			r.Inconclusive("child process (concurrent first use) %d failed: %v", k, err)
			continue
		}
		var a c20Answers
		if err := json.Unmarshal(out, &a); err != nil {
			r.Inconclusive("child process (concurrent first use) %d: bad output: %v", k, err)
			continue
		}
		all = append(all, a)
		cprocs++
		r.Eval(11 * 12 * 2)
	}
	r.Count("fresh_processes_with_concurrent_first_use", int64(cprocs))
	for l := -2; l <= 8; l++ {
		k := fmt.Sprint(l)
		gs := map[int]bool{}
		ss := map[string]bool{}
		for _, a := range all {
			for _, g := range a.ToGo[k] {
				gs[g] = true
			}
			for _, s := range a.String[k] {
				ss[s] = true
			}
		}
		r.Max("max_distinct_answers_per_input", int64(len(gs)))
		name := "other"
		if named[dblib.ASEIsolationLevel(l)] {
			name = dblib.ASEIsolationLevel(l).ToGo().String()
			r.Distinct("bwd:" + k)
		}
		if len(gs) != 1 {
			lst := []int{}
			for g := range gs {
				lst = append(lst, g)
			}
			sort.Ints(lst)
			r.Violate(fmt.Sprintf("backward/nondeterministic/togo/ase=%d", l), fmt.Sprintf("ASEIsolationLevel(%d).ToGo() gave %d different answers %v over %d evaluations in %d processes", l, len(gs), lst, N, procs+1), map[string]int{"ase": l})
		}
		if len(ss) != 1 {
			r.Violate(fmt.Sprintf("backward/nondeterministic/string/ase=%d", l), fmt.Sprintf("ASEIsolationLevel(%d).String() gave %d different answers over %d evaluations", l, len(ss), N), map[string]int{"ase": l})
		}
		r.Sample("backward", map[string]interface{}{"ase_level": l, "name": name, "answers_togo": len(gs), "answers_string": len(ss)})
	}
	// ---- backward answers do not depend on what was translated before:
	// every history of one and two forward calls (exhaustive over -8..64),
	// then seeded longer histories, each followed by all backward calls
	ref := all[0]
	history := func(calls []int) bool {
		for _, s := range calls {
			dblib.ASEIsolationLevelFromGo(sql.IsolationLevel(s))
		}
		for l := -2; l <= 8; l++ {
			k := fmt.Sprint(l)
			lvl := dblib.ASEIsolationLevel(l)
			r.Eval(2)
			if g := int(lvl.ToGo()); len(ref.ToGo[k]) == 1 && g != ref.ToGo[k][0] {
				r.Violate(fmt.Sprintf("backward/depends-on-history/togo/ase=%d", l), fmt.Sprintf("ASEIsolationLevel(%d).ToGo() = %d after the forward calls FromGo(%v); it was %d at the start of the process", l, g, calls, ref.ToGo[k][0]), map[string]interface{}{"ase": l, "forward_calls_before": calls})
				return false
			}
			if st := lvl.String(); len(ref.String[k]) == 1 && st != ref.String[k][0] {
				r.Violate(fmt.Sprintf("backward/depends-on-history/string/ase=%d", l), fmt.Sprintf("ASEIsolationLevel(%d).String() = %q after the forward calls FromGo(%v); it was %q at the start of the process", l, st, calls, ref.String[k][0]), map[string]interface{}{"ase": l, "forward_calls_before": calls})
				return false
			}
		}
		return true
	}
	histories := 0
	okH := true
	for a := -8; a <= 64 && okH; a++ {
		okH = history([]int{a})
		histories++
		for b := -8; b <= 64 && okH; b++ {
			okH = history([]int{a, b})
			histories++
		}
	}
	hr := rt.NewRand(c.Seed, "c20/history")
	for i := 0; i < 2000 && okH; i++ {
		calls := make([]int, hr.Range(3, 12))
		for j := range calls {
			calls[j] = hr.Range(-1, 9)
		}
		okH = history(calls)
		histories++
	}
	r.Count("forward_call_histories_before_backward_calls", int64(histories))
	// ---- forward answers do not depend on what was translated BACK or
	// printed before: every backward call (-2..8, also through String)
	// directly followed by every forward call (-8..64)
	{
		okF := true
		pairs := 0
		for l := -2; l <= 8 && okF; l++ {
			for via := 0; via < 2 && okF; via++ {
				for sq := -8; sq <= 64 && okF; sq++ {
					lvl := dblib.ASEIsolationLevel(l)
					if via == 0 {
						_ = lvl.ToGo()
					} else {
						_ = lvl.String()
					}
					sl := sql.IsolationLevel(sq)
					got, err := dblib.ASEIsolationLevelFromGo(sl)
					r.Eval(1)
					pairs++
					w, supported := want[sl]
					switch {
					case supported && (err != nil || got != w):
						r.Violate("forward/depends-on-history/after-backward-call", fmt.Sprintf("FromGo(%d) = (%d, %v) directly after ASEIsolationLevel(%d).%s; want (%d, nil)", sq, got, err, l, []string{"ToGo()", "String()"}[via], w), map[string]int{"sql": sq, "ase_before": l})
						okF = false
					case !supported && err == nil:
						r.Violate("forward/depends-on-history/after-backward-call", fmt.Sprintf("FromGo(%d) = (%d, nil) directly after ASEIsolationLevel(%d).%s; want an error", sq, got, l, []string{"ToGo()", "String()"}[via]), map[string]int{"sql": sq, "ase_before": l})
						okF = false
					}
				}
			}
		}
		r.Count("backward_then_forward_pairs", int64(pairs))
	}
	// ---- printing and translating back agree, also for integers far
	// outside the named levels (a table lookup may narrow the value)
	{
		var wide []int64
		for _, base := range []int64{0, 1 << 8, 1 << 16, 1 << 31, 1 << 32, -(1 << 32), 1 << 40, 1 << 62, math.MinInt64, math.MaxInt64 - 8} {
			for k := int64(-2); k <= 8; k++ {
				wide = append(wide, base+k)
			}
		}
		for _, w := range wide {
			lvl := dblib.ASEIsolationLevel(w)
			g, st := lvl.ToGo(), lvl.String()
			r.Eval(1)
			if st != g.String() {
				r.Violate("backward/print-disagrees-with-translation", fmt.Sprintf("ASEIsolationLevel(%d): String() = %q, but it translates back to %v (%q)", w, st, int(g), g.String()), map[string]int64{"ase": w})
				break
			}
			if w < 0 || w > 8 {
				if _, isNamed := map[sql.IsolationLevel]bool{sql.LevelDefault: true}[g]; !isNamed {
					r.Violate("backward/unnamed-level-translated", fmt.Sprintf("ASEIsolationLevel(%d) is none of the named levels but translates back to %v", w, g), map[string]int64{"ase": w})
					break
				}
			}
		}
		r.Count("wide_levels_checked", int64(len(wide)))
		// the forward direction for the same integers, and for every
		// n<<32 + k whose low word is one of the named levels: every level
		// outside the named ones must be refused
		fwd := append([]int64(nil), wide...)
		for _, n := range []int64{1, 2, 3, 255, -1, -2, 1 << 20, 1<<31 - 1, -(1 << 31)} {
			for k := int64(0); k <= 8; k++ {
				fwd = append(fwd, n<<32+k)
			}
		}
		for _, w := range fwd {
			if w >= -8 && w <= 64 {
				continue // the exhaustive part above
			}
			r.Eval(1)
			got, err := dblib.ASEIsolationLevelFromGo(sql.IsolationLevel(w))
			if err == nil {
				r.Violate("forward/unknown-accepted/wide", fmt.Sprintf("ASEIsolationLevelFromGo(%d) = %d (%s), nil; want an error: %d is none of the named levels", w, int64(got), got, w), map[string]int64{"sql": w})
				break
			}
		}
		r.Count("wide_forward_levels_checked", int64(len(fwd)))
	}
	// ---- there and back
	for _, sl := range []sql.IsolationLevel{sql.LevelReadUncommitted, sql.LevelReadCommitted, sql.LevelRepeatableRead, sql.LevelSerializable} {
		a, err := dblib.ASEIsolationLevelFromGo(sl)
		if err != nil {
			continue // reported above
		}
		bad := map[int]bool{}
		for i := 0; i < N; i++ {
			r.Eval(1)
			if b := a.ToGo(); b != sl {
				bad[int(b)] = true
			}
		}
		r.Distinct(fmt.Sprintf("rt:%d", sl))
		if len(bad) > 0 {
			r.Violate(fmt.Sprintf("roundtrip/sql=%d", int(sl)), fmt.Sprintf("FromGo(%v).ToGo() returned %v, want %v only", sl, bad, sl), map[string]int{"sql": int(sl)})
		}
	}
}
