package main

import (
	"encoding/json"
	"fmt"
	"hash/fnv"
	"reflect"
	"runtime"
	"sort"
	"strconv"
	"strings"
	"sync"
	"sync/atomic"
	"time"

	"github.com/SAP/go-dblib/namepool"
	"github.com/anishathalye/porcupine"

	"verif/harness/rt"
)

// C18 — pooled names are unique among concurrent holders.
//
// Events: every Acquire / Release / second Release / Release(nil) of a
// concurrent history, recorded at the client boundary as {goroutine, op, id,
// text, call stamp, return stamp}; both stamps come from one atomic counter
// (call stamp before invoking, return stamp with the result in hand).
// Oracles:
//   - porcupine, partitioned by id, one bit "held" per id (Acquire returning
//     the id needs not-held, the first Release by the holder needs held,
//     second releases and Release(nil) are no-ops); checker timeout =>
//     inconclusive;
//   - a direct monitor: id -> holder map under the monitor's own mutex,
//     insert after Acquire returned (must not find the id), delete before
//     Release is called — an id found present was handed out while its
//     previous holder had not even started to release it;
//   - per name: id != 0, text == format applied to id (integer-verb formats),
//     id/text stable while held, Name cleared after Release, no panic on
//     double release / Release(nil);
//   - the race detector (run.py turns go-dblib race reports into violations).
//
// One history in five runs "bare" (no stamps, no shared monitor) so that the
// race detector sees the library without the happens-before edges the
// monitors' atomics and mutex add between non-overlapping operations.

func init() { register("C18", runC18) }

type c18Case struct {
	Index      int    `json:"index"`
	Seed       int64  `json:"seed"`
	Stream     string `json:"stream"` // goroutine k draws from rt.NewRand(Seed, Stream+"/g<k>")
	Goroutines int    `json:"goroutines"`
	Steps      int    `json:"steps_per_goroutine"`
	MaxHold    int    `json:"max_hold_per_goroutine"`
	Format     string `json:"format"`
	Procs      int    `json:"gomaxprocs"`
	GC         bool   `json:"forced_gc"`
	Bare       bool   `json:"bare"`
	Note       string `json:"note"`
	// LastCase is set by run.py when the worker process died (CASE line).
	LastCase string `json:"last_case,omitempty"`
}

const c18Note = "generator parameters of one concurrent history; re-running reproduces the workload (per-goroutine op choices), not necessarily the interleaving — replay repeats the history up to 200 times and stops at the first violation"

var c18Formats = []string{"%d", "x%dy", "", "%s", "%05d", "100%%_%d", "%d%%", "a%%b%3dc", "n%-4d|", "%+d",
	// long texts (identifier limits of a server are not the pool's business)
	strings.Repeat("p", 253) + "_%d", strings.Repeat("long prefix ", 60) + "%d" + strings.Repeat("s", 40),
	// literal text made of the verb's own characters next to the verb
	"stmt_id%d", "d%dd", "%%d%d", "%d%%d",
	// formats that differ by digits behind the verb, used by different
	// pools of one process: (format, id) pairs whose concatenations coincide
	"%d1", "x%d", "x%d1", "%d0"}

const (
	c18Acq = iota
	c18Rel
	c18Rel2
	c18Nil
)

var c18OpName = []string{"Acquire", "Release", "Release-again", "Release(nil)"}

// c18Fmt is a parsed format of the documented shape: literal text (in which
// "%%" stands for a percent sign) around exactly one base-10 integer verb
// %[flags][width]d. Only for those the property fixes the text ("the format
// should include exactly one format verb for base 10 integers").
type c18Fmt struct {
	pre, suf         string
	zero, left, plus bool
	width            int
	escapes          bool
}

func c18Parse(format string) (f c18Fmt, ok bool) {
	var lit strings.Builder
	seenVerb := false
	for i := 0; i < len(format); i++ {
		c := format[i]
		if c != '%' {
			lit.WriteByte(c)
			continue
		}
		if i+1 < len(format) && format[i+1] == '%' {
			lit.WriteByte('%')
			f.escapes = true
			i++
			continue
		}
		if seenVerb {
			return f, false
		}
		seenVerb = true
		f.pre = lit.String()
		lit.Reset()
		j := i + 1
	flags:
		for j < len(format) {
			switch format[j] {
			case '0':
				f.zero = true
			case '-':
				f.left = true
			case '+':
				f.plus = true
			default:
				break flags
			}
			j++
		}
		k := j
		for k < len(format) && format[k] >= '0' && format[k] <= '9' {
			k++
		}
		if k > j {
			f.width, _ = strconv.Atoi(format[j:k])
		}
		if k >= len(format) || format[k] != 'd' {
			return f, false
		}
		i = k
	}
	f.suf = lit.String()
	return f, seenVerb
}

func c18Class(format string) (class string, judged bool) {
	f, ok := c18Parse(format)
	switch {
	case ok && f.escapes:
		return "escaped-percent-d", true
	case ok && (f.width > 0 || f.plus):
		return "padded-d", true
	case ok && (f.pre != "" || f.suf != ""):
		return "affix-d", true
	case ok:
		return "plain-d", true
	case !strings.Contains(format, "%"):
		return "no-verb", false
	}
	return "other-verb", false
}

// c18Expect is the independent oracle for the text (strconv, not fmt).
func c18Expect(format string, id uint64) string {
	f, _ := c18Parse(format)
	d := strconv.FormatUint(id, 10)
	if f.plus {
		d = "+" + d
	}
	for len(d) < f.width {
		switch {
		case f.left:
			d = d + " "
		case f.zero && f.plus:
			d = "+0" + d[1:]
		case f.zero:
			d = "0" + d
		default:
			d = " " + d
		}
	}
	return f.pre + d + f.suf
}

type c18Rec struct {
	g         int
	op        uint8
	id        uint64
	text      string
	call, ret int64
}

// a name in somebody's hands, with what the harness saw when it was acquired
type c18Name struct {
	n     *namepool.Name
	id    uint64
	text  string
	acqG  int
	token int64
}

type c18Holder struct {
	g     int
	token int64
	stamp int64
}

type c18Pool interface {
	Acquire() *namepool.Name
	Release(*namepool.Name)
}

// c18Hist is the state of one running history.
type c18Hist struct {
	c      *Ctx
	cs     c18Case
	pool   c18Pool
	judged bool
	class  string

	stamp int64 // the one global counter (atomic)
	token int64 // atomic

	// direct monitor (not used in bare histories)
	mu         sync.Mutex
	held       map[uint64]c18Holder
	texts      map[string]uint64
	seen       map[uint64]int
	maxHeld    int
	recycledWH int // acquisitions of an already used id while other names were held

	inbox []chan c18Name

	violated int32 // atomic
	panicked int32 // atomic
}

func (h *c18Hist) violate(sig, detail string) {
	atomic.StoreInt32(&h.violated, 1)
	h.c.R.Violate(sig, detail, h.cs)
}

func (h *c18Hist) now() int64 {
	if h.cs.Bare {
		return 0
	}
	return atomic.AddInt64(&h.stamp, 1)
}

type c18G struct {
	h     *c18Hist
	g     int
	rnd   *rt.Rand
	held  []c18Name
	stale []c18Name // released once, kept by the owner for a later second release
	recs  []c18Rec
	cnt   map[string]int64
}

func (w *c18G) acquire() {
	h := w.h
	var n *namepool.Name
	call := h.now()
	pi := rt.Catch(func() { n = h.pool.Acquire() })
	ret := h.now()
	if pi != nil {
		atomic.StoreInt32(&h.panicked, 1)
		h.violate("panic/"+pi.Frame, fmt.Sprintf("Acquire panicked on goroutine %d: %s\n%s", w.g, pi.Value, pi.Stack))
		return
	}
	if n == nil {
		h.violate("name/nil", fmt.Sprintf("Acquire returned a nil *Name on goroutine %d", w.g))
		return
	}
	var id uint64
	var text string
	if pi := rt.Catch(func() { id = n.ID(); text = n.Name() }); pi != nil {
		atomic.StoreInt32(&h.panicked, 1)
		h.violate("panic/"+pi.Frame, fmt.Sprintf("ID()/Name() of a freshly acquired name panicked on goroutine %d: %s\n%s", w.g, pi.Value, pi.Stack))
		return
	}
	w.recs = append(w.recs, c18Rec{g: w.g, op: c18Acq, id: id, text: text, call: call, ret: ret})
	nm := c18Name{n: n, id: id, text: text, acqG: w.g, token: atomic.AddInt64(&h.token, 1)}
	if id == 0 {
		h.violate("name/zero-id", fmt.Sprintf("Acquire returned a name with id 0 (text %q, format %q) to goroutine %d", text, h.cs.Format, w.g))
	}
	if h.judged {
		if want := c18Expect(h.cs.Format, id); text != want {
			h.violate("name/text-mismatch/"+h.class, fmt.Sprintf("format %q, id %d: text is %q, want %q", h.cs.Format, id, text, want))
		}
	} else {
		switch text {
		case fmt.Sprintf(h.cs.Format, id):
			w.cnt["unjudged_text:"+h.class+":equals-Sprintf(format,id)"]++
		case h.cs.Format:
			w.cnt["unjudged_text:"+h.class+":format-verbatim"]++
		default:
			w.cnt["unjudged_text:"+h.class+":other"]++
		}
	}
	if s := n.String(); s != text {
		h.violate("name/text-mismatch/string-vs-name", fmt.Sprintf("id %d: String()=%q but Name()=%q", id, s, text))
	}
	if !h.cs.Bare {
		h.mu.Lock()
		if prev, dup := h.held[id]; dup {
			h.mu.Unlock()
			h.violate("uniqueness/id-held-twice", fmt.Sprintf("Acquire (call stamp %d, return stamp %d) handed id %d (text %q) to goroutine %d while the name with that id acquired by goroutine %d at stamp %d was still held (its holder had not called Release yet); format %q, GOMAXPROCS %d", call, ret, id, text, w.g, prev.g, prev.stamp, h.cs.Format, h.cs.Procs))
		} else {
			if h.seen[id] > 0 && len(h.held) > 0 {
				h.recycledWH++
			}
			h.seen[id]++
			h.held[id] = c18Holder{g: w.g, token: nm.token, stamp: ret}
			if len(h.held) > h.maxHeld {
				h.maxHeld = len(h.held)
			}
			var other uint64
			clash := false
			if h.judged {
				if other, clash = h.texts[text]; !clash {
					h.texts[text] = id
				}
			}
			h.mu.Unlock()
			if clash && other != id {
				h.violate("uniqueness/text-held-twice", fmt.Sprintf("names with ids %d and %d are held at the same time and both have the text %q (format %q)", other, id, text, h.cs.Format))
			}
		}
	}
	w.held = append(w.held, nm)
}

func (w *c18G) cleared(nm c18Name, when string) {
	h := w.h
	zero := reflect.ValueOf(*nm.n).IsZero()
	txt := nm.n.Name()
	if !zero || txt != "" {
		h.violate("release/not-cleared", fmt.Sprintf("%s of the name with id %d (text %q) on goroutine %d: the Name is not reset (is zero value: %v, Name()=%q)", when, nm.id, nm.text, w.g, zero, txt))
	}
	if w.rnd.Chance(1, 16) {
		// Name.ID() of a default Name dereferences a nil pointer; whether that
		// is acceptable is not stated — counted, not judged.
		if pi := rt.Catch(func() { _ = nm.n.ID() }); pi != nil {
			w.cnt["unjudged_ID()_on_released_name_panics"]++
		} else {
			w.cnt["unjudged_ID()_on_released_name_returns"]++
		}
	}
}

func (w *c18G) callRelease(nm c18Name, op uint8) bool {
	h := w.h
	viaName := w.rnd.Bool()
	call := h.now()
	var pi *rt.PanicInfo
	if viaName {
		pi = rt.Catch(func() { nm.n.Release() })
	} else {
		pi = rt.Catch(func() { h.pool.Release(nm.n) })
	}
	ret := h.now()
	if pi != nil {
		atomic.StoreInt32(&h.panicked, 1)
		h.violate("panic/"+pi.Frame, fmt.Sprintf("%s (via Name.Release: %v) of id %d panicked on goroutine %d: %s\n%s", c18OpName[op], viaName, nm.id, w.g, pi.Value, pi.Stack))
		return false
	}
	w.recs = append(w.recs, c18Rec{g: w.g, op: op, id: nm.id, text: nm.text, call: call, ret: ret})
	return true
}

// release is the first release of a held name by its current owner.
func (w *c18G) release(i int) {
	h := w.h
	nm := w.held[i]
	w.held = append(w.held[:i], w.held[i+1:]...)
	var id uint64
	var text string
	if pi := rt.Catch(func() { id = nm.n.ID(); text = nm.n.Name() }); pi != nil {
		atomic.StoreInt32(&h.panicked, 1)
		h.violate("panic/"+pi.Frame, fmt.Sprintf("ID()/Name() of a held name panicked on goroutine %d: %s\n%s", w.g, pi.Value, pi.Stack))
	} else if id != nm.id || text != nm.text {
		h.violate("name/changed-while-held", fmt.Sprintf("name acquired as (id %d, text %q) by goroutine %d reads (id %d, text %q) before its release on goroutine %d", nm.id, nm.text, nm.acqG, id, text, w.g))
	}
	if !h.cs.Bare {
		h.mu.Lock()
		if cur, ok := h.held[nm.id]; ok && cur.token == nm.token {
			delete(h.held, nm.id)
			if h.judged && h.texts[nm.text] == nm.id {
				delete(h.texts, nm.text)
			}
		}
		h.mu.Unlock()
	}
	if nm.acqG != w.g {
		w.cnt["released_by_other_goroutine"]++
	}
	if !w.callRelease(nm, c18Rel) {
		return
	}
	w.cleared(nm, "after Release")
	switch k := w.rnd.Intn(100); {
	case k < 6:
		w.again(nm)
	case k < 12:
		w.stale = append(w.stale, nm)
	}
}

func (w *c18G) again(nm c18Name) {
	w.cnt["double_releases"]++
	if w.callRelease(nm, c18Rel2) {
		w.cleared(nm, "after the second Release")
	}
}

func (w *c18G) releaseNil() {
	h := w.h
	call := h.now()
	pi := rt.Catch(func() { h.pool.Release(nil) })
	ret := h.now()
	if pi != nil {
		atomic.StoreInt32(&h.panicked, 1)
		h.violate("panic/"+pi.Frame, fmt.Sprintf("Release(nil) panicked on goroutine %d: %s\n%s", w.g, pi.Value, pi.Stack))
		return
	}
	w.recs = append(w.recs, c18Rec{g: w.g, op: c18Nil, call: call, ret: ret})
}

func (w *c18G) receive() {
	for {
		select {
		case nm := <-w.h.inbox[w.g]:
			w.held = append(w.held, nm)
		default:
			return
		}
	}
}

func (w *c18G) run() {
	h := w.h
	G := h.cs.Goroutines
	for step := 0; step < h.cs.Steps; step++ {
		w.receive()
		k := w.rnd.Intn(100)
		switch {
		case k < 42:
			if len(w.held) < h.cs.MaxHold {
				w.acquire()
			} else {
				w.release(w.rnd.Intn(len(w.held)))
			}
		case k < 78:
			if len(w.held) > 0 {
				w.release(w.rnd.Intn(len(w.held)))
			} else {
				w.acquire()
			}
		case k < 84:
			if len(w.stale) > 0 {
				i := w.rnd.Intn(len(w.stale))
				nm := w.stale[i]
				w.stale = append(w.stale[:i], w.stale[i+1:]...)
				w.again(nm)
			} else {
				w.releaseNil()
			}
		case k < 88:
			w.releaseNil()
		default:
			if len(w.held) > 0 && G > 1 {
				to := w.rnd.Intn(G - 1)
				if to >= w.g {
					to++
				}
				i := w.rnd.Intn(len(w.held))
				select {
				case h.inbox[to] <- w.held[i]: // the channel orders everything the receiver does with the Name after us
					w.held = append(w.held[:i], w.held[i+1:]...)
					w.cnt["handovers"]++
				default:
				}
			} else {
				w.acquire()
			}
		}
		for y := w.rnd.Intn(4); y > 0; y-- {
			runtime.Gosched()
		}
	}
	w.receive()
	for len(w.held) > 0 {
		w.release(len(w.held) - 1)
	}
}

type c18In struct {
	op uint8
	id uint64
}

var c18Model = porcupine.Model{
	Partition: func(history []porcupine.Operation) [][]porcupine.Operation {
		m := map[uint64][]porcupine.Operation{}
		var keys []uint64
		for _, o := range history {
			id := o.Input.(c18In).id
			if _, ok := m[id]; !ok {
				keys = append(keys, id)
			}
			m[id] = append(m[id], o)
		}
		sort.Slice(keys, func(i, j int) bool { return keys[i] < keys[j] })
		out := make([][]porcupine.Operation, 0, len(keys))
		for _, k := range keys {
			out = append(out, m[k])
		}
		return out
	},
	Init: func() interface{} { return false },
	Step: func(state, input, output interface{}) (bool, interface{}) {
		held := state.(bool)
		switch input.(c18In).op {
		case c18Acq:
			return !held, true
		case c18Rel:
			return held, false
		}
		return true, held // second release, Release(nil): no-ops
	},
}

// c18RunHistory executes one history and judges it. Returns true if a
// violation was recorded.
func c18RunHistory(c *Ctx, cs c18Case) bool {
	r := c.R
	cs.Note = c18Note
	if b, err := json.Marshal(cs); err == nil {
		rt.CaseLog("%s", b)
	}
	class, judged := c18Class(cs.Format)
	h := &c18Hist{c: c, cs: cs, pool: namepool.Pool(cs.Format), judged: judged, class: class,
		held: map[uint64]c18Holder{}, texts: map[string]uint64{}, seen: map[uint64]int{}}
	G := cs.Goroutines
	h.inbox = make([]chan c18Name, G+1)
	for i := range h.inbox {
		h.inbox[i] = make(chan c18Name, 8)
	}
	ws := make([]*c18G, G+1)
	for g := 0; g <= G; g++ {
		ws[g] = &c18G{h: h, g: g, rnd: rt.NewRand(cs.Seed, fmt.Sprintf("%s/g%d", cs.Stream, g)), cnt: map[string]int64{}}
	}

	prev := runtime.GOMAXPROCS(cs.Procs)
	var stop int32
	var gcCycles int64
	gcDone := make(chan struct{})
	if cs.GC {
		go func() {
			defer close(gcDone)
			for atomic.LoadInt32(&stop) == 0 {
				runtime.GC()
				gcCycles++
				runtime.Gosched()
			}
		}()
	} else {
		close(gcDone)
	}
	start := make(chan struct{})
	var wg sync.WaitGroup
	for g := 0; g < G; g++ {
		wg.Add(1)
		go func(w *c18G) {
			defer wg.Done()
			<-start
			w.run()
		}(ws[g])
	}
	close(start)
	wg.Wait()
	// names handed over to a goroutine that had already finished: the main
	// goroutine is client G and releases them
	last := ws[G]
	for g := 0; g < G; g++ {
		for {
			select {
			case nm := <-h.inbox[g]:
				last.held = append(last.held, nm)
				continue
			default:
			}
			break
		}
	}
	for len(last.held) > 0 {
		last.release(len(last.held) - 1)
	}
	atomic.StoreInt32(&stop, 1)
	<-gcDone
	runtime.GOMAXPROCS(prev)

	// ---- merge what the goroutines recorded
	var recs []c18Rec
	cnt := map[string]int64{}
	for _, w := range ws {
		recs = append(recs, w.recs...)
		for k, n := range w.cnt {
			cnt[k] += n
		}
	}
	for k, n := range cnt {
		if strings.HasPrefix(k, "unjudged_text:") {
			r.SetAdd("unjudged_text_shapes", strings.TrimPrefix(k, "unjudged_text:"))
		}
		r.Count(k, n)
	}
	r.Eval(1)
	r.Count("histories", 1)
	r.Count("operations", int64(len(recs)))
	r.Max("max_operations_per_history", int64(len(recs)))
	r.Count("forced_gc_cycles", gcCycles)
	r.SetAdd("formats", fmt.Sprintf("%q", cs.Format))
	r.SetAdd("gomaxprocs", strconv.Itoa(cs.Procs))
	r.SetAdd("goroutine_counts", strconv.Itoa(G))
	acq := map[uint64]int{}
	var nOp [4]int64
	var maxID uint64
	for _, rec := range recs {
		nOp[rec.op]++
		if rec.op == c18Acq {
			acq[rec.id]++
			if rec.id > maxID {
				maxID = rec.id
			}
		}
	}
	recycled := 0
	for _, n := range acq {
		if n >= 2 {
			recycled++
		}
	}
	r.Count("op_acquire", nOp[c18Acq])
	r.Count("op_release", nOp[c18Rel])
	r.Count("op_release_again", nOp[c18Rel2])
	r.Count("op_release_nil", nOp[c18Nil])
	r.Count("ids_minted", int64(len(acq)))
	r.Count("ids_recycled", int64(recycled))
	r.Max("max_id", int64(maxID))
	if cs.Bare {
		r.Count("histories_bare", 1)
		return atomic.LoadInt32(&h.violated) != 0
	}
	r.Count("histories_monitored", 1)
	r.Max("max_simultaneous_holders", int64(h.maxHeld))
	r.Count("recycled_while_others_held", int64(h.recycledWH))
	if len(h.held) != 0 && atomic.LoadInt32(&h.violated) == 0 {
		r.Inconclusive("history %d: harness bug: %d ids still in the holder map after every name was released", cs.Index, len(h.held))
	}

	// ---- interleaving: the sequence of (call|return, op, goroutine) in stamp order
	ev := make([]uint32, 2*len(recs)+1)
	okStamps := true
	for _, rec := range recs {
		if rec.call <= 0 || rec.ret <= rec.call || rec.ret >= int64(len(ev)) {
			okStamps = false
			break
		}
		ev[rec.call] = uint32(rec.g)<<8 | uint32(rec.op)<<1
		ev[rec.ret] = uint32(rec.g)<<8 | uint32(rec.op)<<1 | 1
	}
	if !okStamps {
		if atomic.LoadInt32(&h.violated) == 0 {
			r.Inconclusive("history %d: harness bug: stamps are not a permutation of 1..%d", cs.Index, 2*len(recs))
		}
	} else {
		hs := fnv.New64a()
		open, overlapping := 0, int64(0)
		var b [4]byte
		for _, e := range ev[1:] {
			b[0], b[1], b[2], b[3] = byte(e), byte(e>>8), byte(e>>16), byte(e>>24)
			hs.Write(b[:])
			if e&1 == 0 {
				if open > 0 {
					overlapping++
				}
				open++
			} else {
				open--
			}
		}
		r.Count("calls_overlapping_another_operation", overlapping)
		r.SetAdd("interleavings", strconv.FormatUint(hs.Sum64(), 16))
		if h.recycledWH > 0 {
			r.Count("histories_nontrivial", 1)
			r.Distinct(fmt.Sprintf("%d/%d/%s/%x", cs.Seed, cs.Index, cs.Format, hs.Sum64()))
		}
	}

	// ---- porcupine
	if atomic.LoadInt32(&h.panicked) != 0 {
		r.Count("porcupine_skipped_after_panic", 1)
		return true
	}
	ops := make([]porcupine.Operation, 0, len(recs))
	for _, rec := range recs {
		in := c18In{op: rec.op, id: rec.id}
		ops = append(ops, porcupine.Operation{ClientId: rec.g, Input: in, Call: rec.call, Output: rec.id, Return: rec.ret})
	}
	res := porcupine.CheckOperationsTimeout(c18Model, ops, 30*time.Second)
	if res == porcupine.Unknown {
		r.Count("porcupine_retries", 1)
		res = porcupine.CheckOperationsTimeout(c18Model, ops, 300*time.Second)
	}
	r.Count("porcupine_"+strings.ToLower(string(res)), 1)
	r.Count("porcupine_"+strings.ToLower(string(res))+"/"+class, 1)
	switch res {
	case porcupine.Unknown:
		r.Inconclusive("history %d (%d ops): linearizability checker timed out twice", cs.Index, len(ops))
	case porcupine.Illegal:
		// find the id(s) whose sub-history is not linearizable
		detail := ""
		bad := 0
		for _, part := range c18Model.Partition(ops) {
			m := c18Model
			m.Partition = nil
			if porcupine.CheckOperations(m, part) {
				continue
			}
			bad++
			if bad > 2 {
				continue
			}
			sort.Slice(part, func(i, j int) bool { return part[i].Call < part[j].Call })
			detail += fmt.Sprintf("id %d:", part[0].Input.(c18In).id)
			for i, o := range part {
				if i == 24 {
					detail += " …"
					break
				}
				detail += fmt.Sprintf(" g%d %s [%d,%d];", o.ClientId, c18OpName[o.Input.(c18In).op], o.Call, o.Return)
			}
			detail += "\n"
		}
		h.violate("linearizability/per-id", fmt.Sprintf("the recorded history (%d ops, %d goroutines, format %q, GOMAXPROCS %d) is not linearizable against the held-bit model for %d id(s): an Acquire returned the id before the Release of its previous holder was even called. Sub-histories [call stamp, return stamp]:\n%s", len(ops), G, cs.Format, cs.Procs, bad, detail))
	}
	return atomic.LoadInt32(&h.violated) != 0
}

func c18Gen(seed int64, i int) c18Case {
	rnd := rt.NewRand(seed, fmt.Sprintf("c18/%d", i))
	cs := c18Case{Index: i, Seed: seed, Stream: fmt.Sprintf("c18/%d", i), Format: c18Formats[i%len(c18Formats)]}
	switch k := rnd.Intn(20); {
	case k < 1:
		cs.Goroutines = 1
	case k < 6:
		cs.Goroutines = rnd.Range(2, 4)
	case k < 13:
		cs.Goroutines = rnd.Range(5, 16)
	default:
		cs.Goroutines = rnd.Range(17, 64)
	}
	budget := rnd.Range(60, 1000) // steps in total; every step is one or two operations: <= 2k ops
	cs.Steps = budget / cs.Goroutines
	if cs.Steps < 3 {
		cs.Steps = 3
	}
	cs.MaxHold = rnd.Range(1, 4)
	switch k := rnd.Intn(20); {
	case k < 3:
		cs.Procs = 1
	case k < 6:
		cs.Procs = 2
	case k < 12:
		cs.Procs = rnd.Range(3, 8)
	default:
		cs.Procs = rnd.Range(9, 16)
	}
	cs.GC = rnd.Chance(1, 2)
	cs.Bare = rnd.Chance(1, 5)
	return cs
}

func runC18(c *Ctx) {
	r := c.R
	r.Rule = "seeded concurrent histories (<= 2k ops) of Acquire / Release / second Release by the owner / Release(nil) / hand-over of a held name through a channel, on a fresh pool each, over 1..64 goroutines, 0-3 yields between steps, GOMAXPROCS 1..16, optional side goroutine forcing runtime.GC(), formats %d, x%dy, \"\", %s, %05d, 100%%_%d, %d%%, a%%b%3dc, n%-4d|, %+d, a 253-byte prefix + _%d, a 720-byte prefix + %d + 40-byte suffix, stmt_id%d, d%dd, %%d%d, %d%%d, %d1, x%d, x%d1, %d0 (pools with all these formats live in one process); 4 of 5 histories are stamped and monitored (porcupine per id + holder map), 1 of 5 runs bare for the race detector; non-trivial = a monitored history in which an id was acquired again while other names were held; distinct = (generator parameters, observed interleaving hash)"
	r.TrustedBase = []string{"github.com/anishathalye/porcupine v1.3.0", "held-bit model, holder-map monitor and strconv text oracle in harness/cmd/vworker/c18.go", "Go race detector"}
	r.Assumptions = []string{
		"a *Name is used by one goroutine at a time: a name changes hands only through a channel send; two goroutines releasing the same *Name with no ordering between them is misuse and is not generated",
		"the text is judged only for formats with exactly one integer verb (literal text with %% escapes around one %[flags][width]d verb); what the text is for a format without a verb or with %s is not stated (the library returns fmt's %!(EXTRA…)/%!s(…) strings) — counted in unjudged_text_shapes, not judged; text uniqueness is judged for the same formats only",
		"'cleared' = the Name equals the zero Name and Name()==\"\"; Name.ID() on a released name panics (nil dereference) — counted, not judged; (*Name)(nil).Release() is not generated",
		"the stamp counter and the monitor mutex add happens-before edges between non-overlapping operations; overlapping operations stay unordered for the race detector, and every fifth history runs without stamps and monitor",
		"under -race sync.Pool drops a quarter of the Puts and bypasses its per-P caches less predictably; that only mints more ids",
	}
	if c.Replay != nil {
		var cs c18Case
		if err := json.Unmarshal(c.Replay, &cs); err != nil {
			r.Inconclusive("bad replay: %v", err)
			return
		}
		if cs.Goroutines == 0 && cs.LastCase != "" {
			if err := json.Unmarshal([]byte(cs.LastCase), &cs); err != nil {
				r.Inconclusive("bad replay (last_case): %v", err)
				return
			}
		}
		if cs.Goroutines > 0 {
			for rep := 0; rep < 200; rep++ {
				if c18RunHistory(c, cs) {
					return
				}
			}
			return
		}
		// a race report has no single history: fall through to the quick list
		// (meaningful with the race build only; the detector halts the process)
	}

	if c.Batch == 0 {
		runC18Leak(c)
	}
	n := 1000 // ~10 s under -race on 16 cores
	if !c.Quick() {
		n = 20000
	}
	if pi := rt.Catch(func() { var nn *namepool.Name; nn.Release() }); pi != nil {
		r.Note("(*Name)(nil).Release() panics at %s — not stated by the property, not judged", pi.Frame)
	}
	for i := 0; i < n; i++ {
		if i%c.Batches != c.Batch {
			continue
		}
		cs := c18Gen(c.Seed, i)
		if i < 10 {
			cl, _ := c18Class(cs.Format)
			r.Sample("history/"+cl, cs)
		}
		c18RunHistory(c, cs)
	}
}
