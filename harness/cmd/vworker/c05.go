package main

import (
	"encoding/hex"
	"encoding/json"
	"errors"
	"fmt"
	"math/big"
	"time"

	"github.com/SAP/go-dblib/asetime"

	"verif/harness/refdata"
	"verif/harness/rt"
)

// C05 — data type wire encodings match the TDS 5.0 layouts.
//
// Events: Bytes(v) and the reference encoder's bytes for v; GoValue of the
// reference bytes; the reference decoder's reading of Bytes(v); results of the
// asetime helpers for every day of years 1..9999.
// Oracle: verif/harness/refdata.

func init() { register("C05", runC05) }

type c05Judge struct {
	c   *Ctx
	agg *dtAgg
}

func (j *c05Judge) viol(clause string, vr *dtVariant, v *dtVal, reg, detail, dir string, wire []byte) {
	j.agg.add(clause, vr, reg, detail, dtCase{Type: vr.label(), Dir: dir, V: *v, Wire: hex.EncodeToString(wire)})
}

func dtAllZero(b []byte) bool {
	for _, x := range b {
		if x != 0 {
			return false
		}
	}
	return true
}

func (j *c05Judge) visit(acc *dtAcc, vr *dtVariant, v *dtVal, _ bool) {
	if v.K == dkNil {
		return // NULL has no layout beyond the zero length C04 judges
	}
	reg := dtRegion(vr, v)
	ref, err := dtRefEncode(vr, v)
	if err != nil {
		j.c.R.Inconclusive("C05 reference encoder, %s %s: %v", vr.label(), dtDescribe(v), err)
		return
	}
	if !dtAllZero(ref.bs) {
		acc.distinct++
	}
	tol := dtTol3Of(vr)
	lv := dtToLib(vr, v)

	// ---- encode direction: Bytes(v) against the reference
	acc.evals++
	acc.counts["encode/"+vr.Name]++
	enc := dtLibBytes(vr, lv, dtLengthArg(vr, v))
	switch {
	case enc.panic != nil:
		j.viol("panic|"+enc.panic.Frame, vr, v, "", fmt.Sprintf("Bytes(%s) panicked: %s", dtDescribe(v), enc.panic.Value), "value", nil)
	case enc.err != nil:
		acc.counts["encode_refused/"+vr.Name]++
		j.viol("encode|refused", vr, v, reg, fmt.Sprintf("Bytes(%s) returns an error for a value of the type's domain: %s", dtDescribe(v), dtTrimErr(enc.err)), "value", nil)
	case v.K == dkDec:
		neg, mag, derr := refdata.DecodeNumeric(enc.bs)
		switch {
		case derr != nil:
			j.viol("encode|not-decodable", vr, v, reg, fmt.Sprintf("%s: Bytes = %s: %v", dtDescribe(v), dtHex(enc.bs), derr), "value", enc.bs)
		case mag.Cmp(v.magnitude()) != 0:
			j.viol("encode|magnitude", vr, v, reg, fmt.Sprintf("%s: Bytes = %s carries magnitude %s", dtDescribe(v), dtHex(enc.bs), mag), "value", enc.bs)
		case neg != v.Neg:
			j.viol("encode|sign", vr, v, reg, fmt.Sprintf("%s: Bytes = %s carries sign byte %d", dtDescribe(v), dtHex(enc.bs), enc.bs[0]), "value", enc.bs)
		case len(enc.bs) > refdata.NumericLen(v.Prec):
			j.viol("encode|length", vr, v, reg, fmt.Sprintf("%s: Bytes = %s is %d bytes, the format's maximum for precision %d is %d", dtDescribe(v), dtHex(enc.bs), len(enc.bs), v.Prec, refdata.NumericLen(v.Prec)), "value", enc.bs)
		}
		if len(enc.bs) == 1 {
			acc.counts["numeric_sign_byte_only_encodings"]++
		}
	case tol > 0:
		// classic temporals: rounding is the sender's choice; the bytes must pass a server's
		// range checks and denote v to the tick
		acc.evals++
		w, derr := dtRefDecodeTemporal(vr, v, enc.bs)
		switch {
		case derr != nil && errors.Is(derr, refdata.ErrDayRange) && vr.Role == "datetime" && v.Day == refdata.DayMax && 6*v.Ns >= (2*refdata.TicksPerDay-1)*dtOneTick3:
			// the last half tick of 9999-12-31 rounds to a day beyond the
			// type's range: the instant is outside DATETIME's domain and a
			// server rejecting it is the correct outcome
			acc.counts["outside_domain/DATETIME/last-half-tick-of-9999-12-31"]++
		case derr != nil:
			j.viol("layout|"+dtRangeErrName(derr), vr, v, reg, fmt.Sprintf("%s: Bytes = %s: a conforming server rejects: %v", dtDescribe(v), dtHex(enc.bs), derr), "value", enc.bs)
		default:
			dd := w.day - v.Day
			if dd > 2 {
				dd = 2
			} else if dd < -2 {
				dd = -2
			}
			d3 := dd*3*refdata.NanosPerDay + w.tod3 - 3*v.Ns
			if d3 >= tol || d3 <= -tol {
				j.viol("encode", vr, v, reg, fmt.Sprintf("%s: Bytes = %s, which is %s + %d/3 ns by the reference decoder", dtDescribe(v), dtHex(enc.bs), refdata.Instant{Day: w.day}.String()[:10], w.tod3), "value", enc.bs)
			} else if ref.canonical && string(enc.bs) != string(ref.bs) {
				j.viol("encode", vr, v, reg, fmt.Sprintf("%s lies exactly on the grid: Bytes = %s, TDS 5.0 layout is %s", dtDescribe(v), dtHex(enc.bs), dtHex(ref.bs)), "value", enc.bs)
			}
		}
	case ref.canonical:
		if string(enc.bs) != string(ref.bs) {
			j.viol("encode", vr, v, reg, fmt.Sprintf("%s: Bytes = %s, TDS 5.0 layout is %s", dtDescribe(v), dtHex(enc.bs), dtHex(ref.bs)), "value", enc.bs)
		}
	default:
		acc.counts["encode_not_canonical_unjudged/"+vr.Name]++
	}

	// ---- decode direction: GoValue(reference bytes)
	acc.evals++
	acc.counts["decode/"+vr.Name]++
	want := dtGridBelow(vr, v, ref.canonical)
	mode := dtCmpExact
	switch {
	case vr.K == dkDec:
		mode = dtCmpNoPS
	case vr.Role == "time" || vr.Role == "bigtime":
		mode = dtCmpTickTOD
	}
	dec := dtLibGoValue(vr, ref.bs)
	switch {
	case dec.panic != nil:
		j.viol("panic|"+dec.panic.Frame, vr, v, "", fmt.Sprintf("GoValue(%s) panicked: %s", dtHex(ref.bs), dec.panic.Value), "bytes", ref.bs)
	case dtNoGoValueCase(dec.err):
		j.viol("decode", vr, v, "no-govalue-case", fmt.Sprintf("GoValue(%s) of %d bytes: %v", vr.Name, len(ref.bs), dec.err), "bytes", ref.bs)
	case dec.err != nil:
		j.viol("decode", vr, v, reg, fmt.Sprintf("a server's bytes %s for %s: GoValue failed: %v", dtHex(ref.bs), dtDescribe(&want), dec.err), "bytes", ref.bs)
	default:
		if ok, why := dtSameValue(vr, &want, dec.val, mode, tol); !ok {
			j.viol("decode", vr, v, reg, fmt.Sprintf("a server's bytes %s for %s: GoValue: %s", dtHex(ref.bs), dtDescribe(&want), why), "bytes", ref.bs)
		}
	}
}

// ---------------------------------------------------------------- fixed vectors

type c05Vector struct {
	Type string
	V    dtVal
	Hex  string
	Name string
}

func c05Tm(y, m, d int64, ns int64) dtVal {
	return dtVal{K: dkTime, Day: refdata.DaysFromCivil(y, m, d), Ns: ns}
}

func c05Vectors() []c05Vector {
	const lastTick = ((refdata.TicksPerDay-1)*10000000 + 2) / 3
	return []c05Vector{
		{"DATETIME", c05Tm(1753, 1, 1, 0), "462effff00000000", "DATETIME minimum 1753-01-01 = day -53690"},
		{"DATETIME", c05Tm(9999, 12, 31, lastTick), "7f242d00ff818b01", "DATETIME maximum 9999-12-31 23:59:59.996 = day 2958463, tick 25919999"},
		{"DATETIME", c05Tm(1900, 1, 1, 0), "0000000000000000", "DATETIME epoch"},
		{"DATETIME", c05Tm(1900, 1, 1, 1000000000), "000000002c010000", "one second = 300 ticks"},
		{"DATETIMEN(8)", c05Tm(1899, 12, 31, 12*3600*1000000000), "ffffffff00c1c500", "1899-12-31 12:00 = day -1, tick 12960000"},
		{"DATE", c05Tm(1, 1, 1, 0), "a56af5ff", "DATE minimum 0001-01-01 = day -693595"},
		{"DATE", c05Tm(9999, 12, 31, 0), "7f242d00", "DATE maximum 9999-12-31 = day 2958463"},
		{"DATEN", c05Tm(1900, 1, 1, 0), "00000000", "DATE epoch"},
		{"SHORTDATE", c05Tm(2079, 6, 6, 1439*60000000000), "ffff9f05", "SMALLDATETIME maximum 2079-06-06 23:59 = day 65535, minute 1439"},
		{"SHORTDATE", c05Tm(1900, 1, 1, 0), "00000000", "SMALLDATETIME minimum"},
		{"DATETIMEN(4)", c05Tm(1900, 1, 2, 60000000000), "01000100", "day 1 minute 1"},
		{"TIME", dtVal{K: dkTime, Day: refdata.DayMin, Ns: lastTick}, "ff818b01", "TIME maximum = tick 25919999"},
		{"TIMEN", dtVal{K: dkTime, Day: refdata.DayMin, Ns: 12 * 3600 * 1000000000}, "00c1c500", "noon = tick 12960000"},
		{"BIGDATETIMEN", c05Tm(1, 1, 1, 0), hex.EncodeToString(refdata.Uint(8, 31622400000000)), "BIGDATETIME 0001-01-01 = 31 622 400 000 000 µs"},
		{"BIGTIMEN", dtVal{K: dkTime, Day: refdata.DayMin, Ns: refdata.NanosPerDay - 1000}, hex.EncodeToString(refdata.Uint(8, 86399999999)), "BIGTIME maximum"},
		{"MONEY", dtVal{K: dkMoney, N: 1<<63 - 1}, "ffffff7fffffffff", "MONEY maximum 922337203685477.5807"},
		{"MONEY", dtVal{K: dkMoney, N: 1 << 63}, "0000008000000000", "MONEY minimum"},
		{"MONEYN(8)", dtVal{K: dkMoney, N: 10000}, "0000000010270000", "MONEY 1.0000"},
		{"MONEY", dtVal{K: dkMoney, N: uint64(1<<64 - 10000)}, "fffffffff0d8ffff", "MONEY -1.0000"},
		{"MONEY", dtVal{K: dkMoney, N: 1 << 32}, "0100000000000000", "MONEY 429496.7296: high word 1, low word 0"},
		{"SHORTMONEY", dtVal{K: dkMoney, N: 2147483647}, "ffffff7f", "SMALLMONEY maximum 214748.3647"},
		{"SHORTMONEY", dtVal{K: dkMoney, N: uint64(1<<64 - 2147483648)}, "00000080", "SMALLMONEY minimum"},
		{"INT1", dtVal{K: dkU8, N: 255}, "ff", "TINYINT maximum (unsigned)"},
		{"INT2", dtVal{K: dkI16, N: 258}, "0201", "SMALLINT 258"},
		{"INT4", dtVal{K: dkI32, N: 0xfffffffe}, "feffffff", "INT -2"},
		{"INT8", dtVal{K: dkI64, N: 1 << 63}, "0000000000000080", "BIGINT minimum"},
		{"UINT2", dtVal{K: dkU16, N: 0xfffe}, "feff", "UNSIGNED SMALLINT 65534"},
		{"UINT4", dtVal{K: dkU32, N: 0x01020304}, "04030201", "byte order"},
		{"UINT8", dtVal{K: dkU64, N: ^uint64(0)}, "ffffffffffffffff", "UNSIGNED BIGINT maximum"},
		{"FLT8", dtVal{K: dkF64, N: 0x3ff0000000000000}, "000000000000f03f", "1.0"},
		{"FLT4", dtVal{K: dkF32, N: 0xc0200000}, "000020c0", "-2.5"},
		{"BIT", dtVal{K: dkBool, N: 1}, "01", "true"},
		{"NUMN", dtVal{K: dkDec, Neg: true, Mag: "123", Prec: 5, Scale: 2}, "0100007b", "-1.23 as numeric(5,2): sign 1, magnitude 123 in 3 bytes"},
		{"DECN", dtVal{K: dkDec, Mag: "99999999999999999999999999999999999999", Prec: 38, Scale: 0}, "004b3b4ca85a86c47a098a223fffffffff", "10^38-1 in 17 bytes"},
		{"UNITEXT", dtVal{K: dkStr, B: []byte("a€\U0001F600")}, "6100ac203dd800de", "UTF-16LE with a surrogate pair"},
		{"VARCHAR", dtVal{K: dkStr, B: []byte("abc")}, "616263", "raw bytes"},
		{"VARBINARY", dtVal{K: dkBytes, B: []byte{0, 1, 0xff, 0}}, "0001ff00", "raw bytes"},
	}
}

func (j *c05Judge) vectors(acc *dtAcc) {
	for _, vec := range c05Vectors() {
		vr := dtFind(vec.Type)
		if vr == nil {
			j.c.R.Inconclusive("C05 vector %q: unknown type", vec.Name)
			continue
		}
		v := vec.V
		ref, err := dtRefEncode(vr, &v)
		if err != nil || hex.EncodeToString(ref.bs) != vec.Hex {
			j.c.R.Inconclusive("C05 vector %q: reference encoder gives %x (%v), the manual value is %s (harness fault)", vec.Name, ref.bs, err, vec.Hex)
			continue
		}
		acc.counts["vectors_checked"]++
		j.c.R.SetAdd("vectors", vec.Type+": "+vec.Name)
		j.visit(acc, vr, &v, false)
	}
}

// ---------------------------------------------------------------- calendar helpers

type c05CalCase struct {
	Helper string `json:"helper"`
	Day    int64  `json:"day"`
	Ns     int64  `json:"ns"`
	Tick   int64  `json:"tick,omitempty"`
	Text   string `json:"text"`
}

func dtCalRegion(day int64) string {
	_, m, d := refdata.CivilFromDays(day)
	switch {
	case m == 2 && d == 29:
		return "leap-day"
	case day < refdata.Day1900:
		return "before-1900"
	}
	return "1900-or-later"
}

func (j *c05Judge) calViol(helper string, day, ns, tick int64, reg, detail string) {
	cs := c05CalCase{Helper: helper, Day: day, Ns: ns, Tick: tick, Text: refdata.Instant{Day: day, Ns: ns}.String()}
	j.c.R.Violate("calendar/"+helper+"/"+reg, detail, cs)
}

// calDay checks every exported converter of asetime on one instant.
func (j *c05Judge) calDay(acc *dtAcc, day, ns int64) {
	in := refdata.Instant{Day: day, Ns: ns}
	t := in.Time()
	reg := dtCalRegion(day)
	if ns != 0 {
		reg += "-with-time-part"
	}
	wantUs := uint64(day-refdata.DayYear0)*refdata.MicrosPerDay + uint64(ns/1000)
	todUs := ns / 1000

	acc.evals += 5
	acc.counts["calendar/instants"]++
	var us uint64
	if pi := rt.Catch(func() { us = asetime.TimeToMicroseconds(t) }); pi != nil {
		j.calViol("TimeToMicroseconds", day, ns, 0, "panic", "panicked: "+pi.Value)
	} else if us != wantUs {
		j.calViol("TimeToMicroseconds", day, ns, 0, reg, fmt.Sprintf("TimeToMicroseconds(%s) = %d, reference calendar: %d µs since 0000-01-01 (difference %d µs)", in, us, wantUs, int64(us-wantUs)))
	}
	var back time.Time
	if pi := rt.Catch(func() { back = asetime.MicrosecondsToTime(wantUs) }); pi != nil {
		j.calViol("MicrosecondsToTime", day, ns, 0, "panic", "panicked: "+pi.Value)
	} else if g := refdata.FromTime(back); g.Day != day || g.Ns != todUs*1000 {
		j.calViol("MicrosecondsToTime", day, ns, 0, reg, fmt.Sprintf("MicrosecondsToTime(%d) = %s, reference calendar: %s", wantUs, g, refdata.Instant{Day: day, Ns: todUs * 1000}))
	}
	// mutually inverse (on the library's own results)
	if pi := rt.Catch(func() { back = asetime.MicrosecondsToTime(asetime.TimeToMicroseconds(t)) }); pi == nil {
		if g := refdata.FromTime(back); g.Day != day || g.Ns != todUs*1000 {
			j.calViol("MicrosecondsToTime", day, ns, 0, "not-inverse-of-TimeToMicroseconds/"+reg, fmt.Sprintf("MicrosecondsToTime(TimeToMicroseconds(%s)) = %s", in, g))
		}
	}
	var dur asetime.ASEDuration
	if pi := rt.Catch(func() { dur = asetime.DurationFromDateTime(t) }); pi != nil {
		j.calViol("DurationFromDateTime", day, ns, 0, "panic", "panicked: "+pi.Value)
	} else {
		if uint64(dur) != wantUs {
			j.calViol("DurationFromDateTime", day, ns, 0, reg, fmt.Sprintf("DurationFromDateTime(%s) = %d, reference calendar: %d µs since 0000-01-01", in, int64(dur), wantUs))
		}
		if int64(dur.Days()) != int64(dur)/refdata.MicrosPerDay || int64(dur.Microseconds()) != int64(dur) ||
			int64(dur.Hours()) != int64(dur)/3600000000 || int64(dur.Minutes()) != int64(dur)/60000000 ||
			int64(dur.Seconds()) != int64(dur)/1000000 || int64(dur.Milliseconds()) != int64(dur)/1000 {
			j.calViol("ASEDuration", day, ns, 0, reg, fmt.Sprintf("unit accessors of ASEDuration(%d) disagree with integer division", int64(dur)))
		}
	}
	var dt asetime.ASEDuration
	if pi := rt.Catch(func() { dt = asetime.DurationFromTime(t) }); pi != nil {
		j.calViol("DurationFromTime", day, ns, 0, "panic", "panicked: "+pi.Value)
	} else if int64(dt) != todUs {
		j.calViol("DurationFromTime", day, ns, 0, reg, fmt.Sprintf("DurationFromTime(%s) = %d, want %d µs since midnight", in, int64(dt), todUs))
	}
}

// calTick checks the 1/300 s helpers on one tick.
func (j *c05Judge) calTick(acc *dtAcc, k int64) {
	acc.evals += 2
	acc.counts["calendar/ticks"]++
	var d asetime.ASEDuration
	if pi := rt.Catch(func() { d = asetime.FractionalSecondToMillisecond(int(k)) }); pi != nil {
		j.calViol("FractionalSecondToMillisecond", 0, 0, k, "panic", "panicked: "+pi.Value)
		return
	}
	// to the tick: |d - k/300 s| < 1/300 s, in units of 1/3 ns
	d3 := int64(d)*3000 - k*dtOneTick3
	if d3 >= dtOneTick3 || d3 <= -dtOneTick3 {
		j.calViol("FractionalSecondToMillisecond", 0, 0, k, "tick", fmt.Sprintf("FractionalSecondToMillisecond(%d) = %d µs, the tick is at %d/3 ns", k, int64(d), k*dtOneTick3))
		return
	}
	var k2 int
	if pi := rt.Catch(func() { k2 = asetime.MillisecondToFractionalSecond(d.Microseconds()) }); pi != nil {
		j.calViol("MillisecondToFractionalSecond", 0, 0, k, "panic", "panicked: "+pi.Value)
	} else if int64(k2) != k {
		j.calViol("MillisecondToFractionalSecond", 0, 0, k, "not-inverse-of-FractionalSecondToMillisecond", fmt.Sprintf("MillisecondToFractionalSecond(FractionalSecondToMillisecond(%d) = %d µs) = %d", k, int64(d), k2))
	}
}

func (j *c05Judge) calMicros(acc *dtAcc, us int64) {
	acc.evals++
	var k int
	if pi := rt.Catch(func() { k = asetime.MillisecondToFractionalSecond(int(us)) }); pi != nil {
		j.calViol("MillisecondToFractionalSecond", 0, us*1000, 0, "panic", "panicked: "+pi.Value)
		return
	}
	d3 := int64(k)*dtOneTick3 - us*3000
	if d3 >= dtOneTick3 || d3 <= -dtOneTick3 {
		j.calViol("MillisecondToFractionalSecond", 0, us*1000, int64(k), "tick", fmt.Sprintf("MillisecondToFractionalSecond(%d µs) = tick %d, more than a tick away", us, k))
	}
}

func (j *c05Judge) calWork(quick bool) []dtWork {
	var work []dtWork
	seed := j.c.Seed
	// every day of years 1..9999 in both tiers: midnight, and a seeded microsecond of the day
	const chunk = 1 << 16
	for lo := refdata.DayMin; lo <= refdata.DayMax; lo += chunk {
		lo := lo
		work = append(work, func(acc *dtAcc) {
			rnd := rt.NewRand(seed, fmt.Sprintf("c05/cal/%d", lo))
			for d := lo; d < lo+chunk && d <= refdata.DayMax; d++ {
				j.calDay(acc, d, 0)
				acc.distinct++
				us := int64(rnd.Uint64() % refdata.MicrosPerDay)
				if d%3 == 0 {
					us = refdata.MicrosPerDay - 1 - us%1000
				}
				j.calDay(acc, d, us*1000)
				acc.distinct++
			}
			hi := lo + chunk - 1
			if hi > refdata.DayMax {
				hi = refdata.DayMax
			}
			acc.counts["calendar/days"] += hi - lo + 1
		})
	}
	stride := int64(1)
	if quick {
		stride = 97
	}
	const tchunk = 1 << 20
	for lo := int64(0); lo < refdata.TicksPerDay; lo += tchunk {
		lo := lo
		work = append(work, func(acc *dtAcc) {
			first := (lo + stride - 1) / stride * stride
			for k := first; k < lo+tchunk && k < refdata.TicksPerDay; k += stride {
				j.calTick(acc, k)
				acc.distinct++
			}
		})
	}
	n := 200000
	if !quick {
		n = 5000000
	}
	for lo := 0; lo < n; lo += 100000 {
		lo := lo
		work = append(work, func(acc *dtAcc) {
			rnd := rt.NewRand(seed, fmt.Sprintf("c05/calus/%d", lo))
			for i := 0; i < 100000; i++ {
				j.calMicros(acc, int64(rnd.Uint64()%refdata.MicrosPerDay))
				acc.distinct++
			}
		})
	}
	work = append(work, func(acc *dtAcc) {
		// epochs and the duration conversion
		acc.evals += 3
		if g := refdata.FromTime(asetime.Epoch1900()); g.Day != refdata.Day1900 || g.Ns != 0 {
			j.calViol("Epoch1900", g.Day, g.Ns, 0, "epoch", "Epoch1900() = "+g.String())
		}
		if g := refdata.FromTime(asetime.EpochRataDie()); g.Day != refdata.DayMin || g.Ns != 0 {
			j.calViol("EpochRataDie", g.Day, g.Ns, 0, "epoch", "EpochRataDie() = "+g.String())
		}
		g := refdata.FromTime(asetime.Epoch1753())
		if g.Day != refdata.Day1753 {
			j.calViol("Epoch1753", g.Day, g.Ns, 0, "epoch", "Epoch1753() = "+g.String())
		}
		j.c.R.SetAdd("epoch1753_observed_unjudged_time_part", g.String())
		for _, d := range []time.Duration{0, 1, 999, 1000, 1001, time.Second, 24 * time.Hour, -1500} {
			acc.evals++
			if got := asetime.DurationAsASEDuration(d); int64(got) != int64(d)/1000 {
				j.calViol("DurationAsASEDuration", 0, int64(d), 0, "duration", fmt.Sprintf("DurationAsASEDuration(%d ns) = %d µs", int64(d), int64(got)))
			}
		}
	})
	return work
}

func runC05(c *Ctx) {
	r := c.R
	r.Rule = "same (variant, value) domains as C04; each value: Bytes(v) against the reference encoding (byte-equal where TDS 5.0 fixes the bytes; numerics by sign, magnitude, length; 1/300 s and minute types through the reference decoder with a server's range checks, to the tick), GoValue(reference bytes) against v; asetime helpers on every day of years 1..9999 (midnight and a seeded microsecond), on every 1/300 s tick (thorough; strided in quick) and seeded microseconds; fixed vectors from the ASE manuals; non-trivial = reference encoding is not all zero bytes; distinct = distinct (variant, value) / day / tick"
	r.Assumptions = []string{
		"byte order little-endian, as go-dblib announces in its login record",
		"TDS 5.0 does not prescribe how a client rounds a time that is not on the 1/300 s (1 min) grid: such encodings are judged through the reference decoder (range checks, equal to the tick), not byte-for-byte",
		"NUMERIC/DECIMAL length is the sender's choice up to the format's maximum: Bytes is judged by sign byte, magnitude value and length <= the server length for the precision (<= 33); the decode direction uses the server's canonical length",
		"DATETIME day range 1753-01-01..9999-12-31, DATE 0001-01-01..9999-12-31, ticks < 25 920 000, minutes < 1440 are what a conforming server accepts",
		"GoValue of 1/300 s bytes is judged to the tick (the library delivers whole milliseconds)",
		"asetime.Epoch1753() carries a time part (09:09:09.000000009); only its date is judged, the helper is not used by the codec",
	}
	if !dtCommonSetup(c) {
		return
	}
	j := &c05Judge{c: c, agg: newDtAgg()}
	if c.Replay != nil {
		var probe struct {
			Helper string `json:"helper"`
		}
		_ = json.Unmarshal(c.Replay, &probe)
		acc := newDtAcc(r)
		if j.zoneReplay(acc, c.Replay) {
			acc.flush()
			return
		}
		if probe.Helper != "" {
			var cs c05CalCase
			if err := json.Unmarshal(c.Replay, &cs); err != nil {
				r.Inconclusive("bad replay: %v", err)
				return
			}
			switch {
			case cs.Helper == "FractionalSecondToMillisecond" || (cs.Helper == "MillisecondToFractionalSecond" && cs.Ns == 0):
				j.calTick(acc, cs.Tick)
			case cs.Helper == "MillisecondToFractionalSecond":
				j.calMicros(acc, cs.Ns/1000)
			default:
				j.calDay(acc, cs.Day, cs.Ns)
			}
			acc.flush()
			return
		}
		var cs dtCase
		if err := json.Unmarshal(c.Replay, &cs); err != nil {
			r.Inconclusive("bad replay: %v", err)
			return
		}
		vr := dtFind(cs.Type)
		if vr == nil {
			r.Inconclusive("bad replay: unknown type %q", cs.Type)
			return
		}
		j.visit(acc, vr, &cs.V, true)
		acc.flush()
		j.agg.flush(r, true)
		return
	}
	work := dtBuildWork(c, dtSampling(c, j.visit))
	work = append(work, func(acc *dtAcc) { j.vectors(acc) })
	work = append(work, j.calWork(c.Quick())...)
	work = append(work, func(acc *dtAcc) { j.zones(acc); j.dateClocks(acc) })
	dtRun(c, work)
	j.agg.flush(r, false)
}

var _ = big.NewInt
