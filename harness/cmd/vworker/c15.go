package main

import (
	"encoding/binary"
	"encoding/json"
	"errors"
	"fmt"
	"math"

	"github.com/SAP/go-dblib/tds"

	"verif/harness/rt"
)

// C15 — the packet queue behaves as a byte FIFO across packet boundaries.
//
// Events: every return value of every exported PacketQueue method in an
// operation sequence. Oracle: a flat byte-slice model compared step by step.
// Three disciplines implied by the single-cursor API (DESIGN.md C15):
//   recv  AddPacket / reads / save+restore / discard / failed reads
//   wrb   writes (packet size changing) then read back from position 0
//   alt   writes at the saved end position alternating with reads at the
//         saved read position (never beyond what was written)

func init() { register("C15", runC15) }

type c15Op struct {
	Op string `json:"op"`
	N  int    `json:"n,omitempty"`  // size argument
	PS int    `json:"ps,omitempty"` // packet size in force (write ops)
	E  bool   `json:"eom,omitempty"`
}

type c15Case struct {
	Disc string  `json:"discipline"`
	PS   int     `json:"packet_size"`
	Ops  []c15Op `json:"ops"`
}

// model: packets (bodies), flat cursor.
type c15Model struct {
	pk   [][]byte
	caps []int // capacity of written packets (wrb/alt); len(body) for received ones
	pos  int
	eom  bool
	next byte // next payload byte
	// unknown: a read failed with not-enough-bytes. Where the cursor is
	// after a failed read is not part of the property (only that restoring
	// a saved position makes the unread bytes readable again), so nothing
	// is judged until the position is restored or the queue is reset.
	unknown bool
}

func (m *c15Model) total() int {
	n := 0
	for _, p := range m.pk {
		n += len(p)
	}
	return n
}

func (m *c15Model) flat() []byte {
	var b []byte
	for _, p := range m.pk {
		b = append(b, p...)
	}
	return b
}

// flatOf converts a (packet, data) index pair to a flat offset, given the
// model's packet lengths; ok=false if the pair does not denote a position.
func (m *c15Model) flatOf(pi, di int) (int, bool) {
	if pi < 0 || pi > len(m.pk) || di < 0 {
		return 0, false
	}
	off := 0
	for i := 0; i < pi; i++ {
		off += len(m.pk[i])
	}
	if pi == len(m.pk) {
		return off, di == 0
	}
	if di > len(m.pk[pi]) {
		return 0, false
	}
	return off + di, true
}

func (m *c15Model) payload(n int) []byte {
	b := make([]byte, n)
	for i := range b {
		m.next++
		if m.next == 0 {
			m.next = 1
		}
		b[i] = m.next
	}
	return b
}

// c15Run executes one case; returns "" or a description of the first
// disagreement plus its signature.
func c15Run(cs c15Case, r *rt.Result) (sig, detail string) {
	ps := cs.PS
	q := tds.NewPacketQueue(func() int { return ps })
	m := &c15Model{}
	type saved struct {
		pi, di, flat int
		ok           bool
	}
	var sv, svW, svR saved
	written := 0 // bytes written (wrb/alt); reads never go beyond
	crossed := false
	state := func() string {
		switch {
		case m.total() == 0:
			return "empty"
		case m.pos == m.total():
			return "at-end"
		}
		off := 0
		for _, p := range m.pk {
			if m.pos == off {
				return "at-packet-start"
			}
			off += len(p)
		}
		return "inside-packet"
	}
	checkPos := func(op string) (string, string) {
		pi, di := q.Position()
		got, ok := m.flatOf(pi, di)
		if !ok || got != m.pos {
			return "position/" + op + "/" + state(), fmt.Sprintf("after %s: Position()=(%d,%d) which is flat %d (valid=%v), model cursor %d (packet lengths %v)", op, pi, di, got, ok, m.pos, lens(m.pk))
		}
		return "", ""
	}
	readN := func(op string, n int, call func() ([]byte, error)) (string, string) {
		st := state()
		before := m.pos
		var got []byte
		var err error
		if pi := rt.Catch(func() { got, err = call() }); pi != nil {
			return "panic/" + op + "/" + st, fmt.Sprintf("%s(%d) panicked: %s at %s", op, n, pi.Value, pi.Frame)
		}
		avail := m.total() - m.pos
		if cs.Disc != "recv" {
			avail = written - m.pos
		}
		if m.unknown {
			r.Count("reads_after_failed_read_unjudged", 1)
			return "", ""
		}
		if n < 0 {
			// a negative size is refused and changes nothing: the reads that
			// follow are judged against the unchanged model
			if err == nil {
				return "negative-read-accepted/" + op + "/" + st, fmt.Sprintf("%s(%d) returned %d bytes and no error", op, n, len(got))
			}
			r.Count("negative_reads_refused", 1)
			return "", ""
		}
		if n > avail {
			if !errors.Is(err, tds.ErrNotEnoughBytes) {
				return "short-read-not-reported/" + op + "/" + st, fmt.Sprintf("%s(%d) with %d bytes available returned err=%v, want ErrNotEnoughBytes", op, n, avail, err)
			}
			m.unknown = true
			r.Count("failed_reads", 1)
			return "", ""
		}
		if err != nil {
			return "read-error/" + op + "/" + st, fmt.Sprintf("%s(%d) with %d bytes available returned error %v", op, n, avail, err)
		}
		want := m.flat()[before : before+n]
		if len(got) != n || string(got) != string(want) {
			return "wrong-bytes/" + op + "/" + st, fmt.Sprintf("%s(%d) at flat offset %d returned %x, model has %x", op, n, before, got, want)
		}
		// what a read returns belongs to the caller: it overwrites the
		// slice and appends to it (writing into spare capacity, if any);
		// the queue's own bytes must not change, which later reads and a
		// restore + re-read show
		full := got[:cap(got)]
		for k := range full {
			full[k] ^= 0x5A
		}
		// did this read cross a packet boundary?
		off := 0
		for _, p := range m.pk {
			off += len(p)
			if before < off && off < before+n {
				crossed = true
			}
		}
		m.pos += n
		return "", ""
	}
	for i, op := range cs.Ops {
		var s, d string
		r.Count("ops", 1)
		r.SetAdd("state_classes", cs.Disc+":"+op.Op+":"+state())
		switch op.Op {
		case "add":
			body := m.payload(op.N)
			pkt := &tds.Packet{Data: append([]byte(nil), body...)}
			pkt.Header.Length = uint16(8 + len(body))
			if op.E {
				pkt.Header.Status = tds.TDS_BUFSTAT_EOM
				m.eom = true
			}
			q.AddPacket(pkt)
			m.pk = append(m.pk, body)
		case "bytes":
			s, d = readN("Bytes", op.N, func() ([]byte, error) { return q.Bytes(op.N) })
		case "byte":
			s, d = readN("Byte", 1, func() ([]byte, error) { b, e := q.Byte(); return []byte{b}, e })
		case "u8":
			s, d = readN("Uint8", 1, func() ([]byte, error) { b, e := q.Uint8(); return []byte{b}, e })
		case "i8":
			s, d = readN("Int8", 1, func() ([]byte, error) { b, e := q.Int8(); return []byte{byte(b)}, e })
		case "u16":
			s, d = readN("Uint16", 2, func() ([]byte, error) {
				v, e := q.Uint16()
				b := make([]byte, 2)
				binary.LittleEndian.PutUint16(b, v)
				return b, e
			})
		case "i16":
			s, d = readN("Int16", 2, func() ([]byte, error) {
				v, e := q.Int16()
				b := make([]byte, 2)
				binary.LittleEndian.PutUint16(b, uint16(v))
				return b, e
			})
		case "u32":
			s, d = readN("Uint32", 4, func() ([]byte, error) {
				v, e := q.Uint32()
				b := make([]byte, 4)
				binary.LittleEndian.PutUint32(b, v)
				return b, e
			})
		case "i32":
			s, d = readN("Int32", 4, func() ([]byte, error) {
				v, e := q.Int32()
				b := make([]byte, 4)
				binary.LittleEndian.PutUint32(b, uint32(v))
				return b, e
			})
		case "u64":
			s, d = readN("Uint64", 8, func() ([]byte, error) {
				v, e := q.Uint64()
				b := make([]byte, 8)
				binary.LittleEndian.PutUint64(b, v)
				return b, e
			})
		case "i64":
			s, d = readN("Int64", 8, func() ([]byte, error) {
				v, e := q.Int64()
				b := make([]byte, 8)
				binary.LittleEndian.PutUint64(b, uint64(v))
				return b, e
			})
		case "str":
			s, d = readN("String", op.N, func() ([]byte, error) { v, e := q.String(op.N); return []byte(v), e })
		case "read":
			// io.Reader: the bytes must arrive in the caller's buffer
			s, d = readN("Read", op.N, func() ([]byte, error) {
				p := make([]byte, op.N)
				for k := range p {
					p[k] = 0xEE
				}
				n, e := q.Read(p)
				if e == nil && n != op.N {
					return p[:n], nil
				}
				return p, e
			})
		case "save":
			if m.unknown {
				break
			}
			pi, di := q.Position()
			sv = saved{pi, di, m.pos, true}
		case "restore":
			if sv.ok {
				q.SetPosition(sv.pi, sv.di)
				m.pos = sv.flat
				if m.unknown {
					r.Count("restores_after_failed_read", 1)
				}
				m.unknown = false
			}
		case "discard":
			if m.unknown {
				// discarding at an unspecified position: not generated for
				// judged runs; skip the operation altogether
				break
			}
			q.DiscardUntilCurrentPosition()
			for len(m.pk) > 0 && m.pos >= len(m.pk[0]) {
				m.pos -= len(m.pk[0])
				m.pk = m.pk[1:]
			}
			sv.ok = false
			r.Count("discards", 1)
		case "reset":
			q.Reset()
			*m = c15Model{next: m.next} // also clears unknown
			sv.ok = false
			written = 0
		case "eomq":
			if m.unknown {
				break
			}
			gotA, gotE := q.AllPacketsConsumed(), q.IsEOM()
			wantA := m.pos == m.total()
			if gotA != wantA || gotE != (wantA && m.eom) {
				s, d = "eom-flags/"+state(), fmt.Sprintf("AllPacketsConsumed()=%v IsEOM()=%v; model: cursor %d of %d, eom seen=%v", gotA, gotE, m.pos, m.total(), m.eom)
			}
		// ---- write side (wrb / alt)
		case "w", "wu8", "wi8", "wu16", "wi16", "wu32", "wi32", "wu64", "wi64", "wstr", "wbyte", "write":
			if op.PS != 0 {
				ps = op.PS
			}
			n := op.N
			switch op.Op {
			case "wu8", "wi8", "wbyte":
				n = 1
			case "wu16", "wi16":
				n = 2
			case "wu32", "wi32":
				n = 4
			case "wu64", "wi64":
				n = 8
			}
			orig := m.payload(n)
			data := append([]byte(nil), orig...) // the caller's buffer
			var err error
			pi := rt.Catch(func() {
				switch op.Op {
				case "w":
					err = q.WriteBytes(data)
				case "write":
					var k int
					k, err = q.Write(data)
					if err == nil && k != n {
						err = fmt.Errorf("Write returned %d for %d bytes", k, n)
					}
				case "wstr":
					err = q.WriteString(string(data))
				case "wbyte":
					err = q.WriteByte(data[0])
				case "wu8":
					err = q.WriteUint8(data[0])
				case "wi8":
					err = q.WriteInt8(int8(data[0]))
				case "wu16":
					err = q.WriteUint16(binary.LittleEndian.Uint16(data))
				case "wi16":
					err = q.WriteInt16(int16(binary.LittleEndian.Uint16(data)))
				case "wu32":
					err = q.WriteUint32(binary.LittleEndian.Uint32(data))
				case "wi32":
					err = q.WriteInt32(int32(binary.LittleEndian.Uint32(data)))
				case "wu64":
					err = q.WriteUint64(binary.LittleEndian.Uint64(data))
				case "wi64":
					err = q.WriteInt64(int64(binary.LittleEndian.Uint64(data)))
				}
			})
			if pi != nil {
				s, d = "panic/write/"+op.Op, fmt.Sprintf("%s of %d bytes panicked: %s at %s", op.Op, n, pi.Value, pi.Frame)
				break
			}
			if err != nil {
				s, d = "write-error/"+op.Op, fmt.Sprintf("%s of %d bytes returned %v", op.Op, n, err)
				break
			}
			// the caller reuses its buffer after the call (io.Copy does):
			// the queue must hold its own copy of what was written
			for k := range data {
				data[k] ^= 0xA5
			}
			data = orig
			// model: fill the last packet completely, then open the next
			// with the packet size in force
			for len(data) > 0 {
				if len(m.pk) == 0 || len(m.pk[len(m.pk)-1]) == m.caps[len(m.caps)-1] {
					m.pk = append(m.pk, []byte{})
					m.caps = append(m.caps, ps-8)
					if len(m.pk) > 1 {
						crossed = true
					}
				}
				last := len(m.pk) - 1
				k := m.caps[last] - len(m.pk[last])
				if k > len(data) {
					k = len(data)
				}
				m.pk[last] = append(m.pk[last], data[:k]...)
				data = data[k:]
			}
			written += n
			m.pos = written
			// position must be the one "fill completely, then open the
			// next" implies: flat offset == bytes written, where a
			// written packet counts with its fill level
			s, d = checkPos(op.Op)
		case "rewind": // wrb: go to the start for reading back
			q.SetPosition(0, 0)
			m.pos = 0
		case "savew":
			pi, di := q.Position()
			svW = saved{pi, di, m.pos, true}
		case "saver":
			pi, di := q.Position()
			svR = saved{pi, di, m.pos, true}
		case "gow":
			if svW.ok {
				q.SetPosition(svW.pi, svW.di)
				m.pos = svW.flat
			}
		case "gor":
			if svR.ok {
				q.SetPosition(svR.pi, svR.di)
				m.pos = svR.flat
			} else {
				q.SetPosition(0, 0)
				m.pos = 0
			}
		default:
			panic("c15: unknown op " + op.Op)
		}
		if s == "" && op.Op != "add" && cs.Disc == "recv" && !m.unknown {
			s, d = checkPos(op.Op)
		}
		if s != "" {
			return s, fmt.Sprintf("step %d (%s): %s", i, op.Op, d)
		}
	}
	if crossed {
		return "", "crossed"
	}
	return "", ""
}

func lens(pk [][]byte) []int {
	l := make([]int, len(pk))
	for i, p := range pk {
		l[i] = len(p)
	}
	return l
}

func c15Exec(c *Ctx, cs c15Case, key string) {
	r := c.R
	r.Eval(1)
	var sig, detail string
	if pi := rt.Catch(func() { sig, detail = c15Run(cs, r) }); pi != nil {
		sig, detail = "panic/"+pi.Frame, "operation sequence made the queue panic: "+pi.Value
	}
	if sig != "" {
		r.Violate(sig, detail, cs)
		return
	}
	if detail == "crossed" {
		if key != "" {
			r.DistinctN(1)
		} else {
			b, _ := json.Marshal(cs.Ops)
			r.Distinct(cs.Disc + string(b))
		}
	}
}

func runC15(c *Ctx) {
	r := c.R
	r.Rule = "operation sequences over the exported PacketQueue API in three disciplines (recv, write-then-read-back, alternating), compared step by step with a flat byte-slice model; exhaustive: all sequences up to length L over an 11-operation receive alphabet at tiny body sizes; non-trivial = a read or write crossed at least one packet boundary; distinct = distinct operation sequence"
	r.TrustedBase = []string{"flat byte-slice model in harness/cmd/vworker/c15.go"}
	r.Assumptions = []string{"the cursor position after a failed read is not part of the property: after a not-enough-bytes result nothing is judged until the saved position is restored or the queue is reset", "writing at a non-end position and reading beyond the written bytes of a partially filled written packet are not defined by a FIFO model and are not generated", "saved positions are not reused after DiscardUntilCurrentPosition (documented as volatile)", "AddPacket bodies are non-empty (the library never enqueues header-only packets)"}
	if c.Replay != nil {
		var cs c15Case
		if err := json.Unmarshal(c.Replay, &cs); err != nil {
			r.Inconclusive("bad replay: %v", err)
			return
		}
		c15Exec(c, cs, "")
		return
	}

	// ---- exhaustive receive-discipline enumeration
	alpha := []c15Op{
		{Op: "add", N: 1}, {Op: "add", N: 3}, {Op: "add", N: 2, E: true},
		{Op: "bytes", N: 1}, {Op: "bytes", N: 2}, {Op: "bytes", N: 5},
		{Op: "u16"}, {Op: "read", N: 3},
		{Op: "save"}, {Op: "restore"}, {Op: "discard"},
	}
	L := 5
	if !c.Quick() {
		L = 7
	}
	total := 0
	for l, n := 1, len(alpha); l <= L; l++ {
		total += n
		n *= len(alpha)
	}
	_ = total
	// enumerate by first two ops in parallel
	prefixes := [][]int{}
	for a := range alpha {
		prefixes = append(prefixes, []int{a})
		for b := range alpha {
			prefixes = append(prefixes, []int{a, b})
		}
	}
	c.parallel(len(prefixes), func(pi int) {
		pre := prefixes[pi]
		var rec func(seq []int)
		run := func(seq []int) {
			ops := make([]c15Op, len(seq)+1)
			for i, s := range seq {
				ops[i] = alpha[s]
			}
			ops[len(seq)] = c15Op{Op: "eomq"}
			c15Exec(c, c15Case{Disc: "recv", PS: 10, Ops: ops}, "enum")
		}
		rec = func(seq []int) {
			run(seq)
			if len(seq) == L {
				return
			}
			for a := range alpha {
				rec(append(seq, a))
			}
		}
		if len(pre) == 1 {
			run(pre)
			return
		}
		if L >= 2 {
			rec(append([]int(nil), pre...))
		}
	})
	r.Sample("recv-exhaustive", map[string]interface{}{"alphabet": alpha, "max_length": L, "packet_size": 10})

	// ---- seeded random sequences
	nRand := 20000
	if !c.Quick() {
		nRand = 2000000
	}
	c.parallel(nRand, func(i int) {
		rnd := rt.NewRand(c.Seed, fmt.Sprintf("c15/%d", i))
		var cs c15Case
		switch i % 3 {
		case 0:
			cs = c15GenRecv(rnd)
		case 1:
			cs = c15GenWRB(rnd)
		default:
			cs = c15GenAlt(rnd)
		}
		if i < 6 {
			r.Sample("random-"+cs.Disc, cs)
		}
		c15Exec(c, cs, "")
	})
}

var c15ReadOps = []string{"bytes", "bytes", "bytes", "byte", "u8", "i8", "u16", "i16", "u32", "i32", "u64", "i64", "str", "read", "read"}
var c15WriteOps = []string{"w", "w", "w", "write", "wstr", "wbyte", "wu8", "wi8", "wu16", "wi16", "wu32", "wi32", "wu64", "wi64"}

func c15ReadSize(op string, rnd *rt.Rand, max int) int {
	switch op {
	case "byte", "u8", "i8":
		return 1
	case "u16", "i16":
		return 2
	case "u32", "i32":
		return 4
	case "u64", "i64":
		return 8
	}
	if max < 0 {
		max = 0
	}
	if (op == "bytes" || op == "str") && rnd.Chance(1, 25) {
		// a length no queue can hold (a 4-byte length field read from
		// hostile input, an arithmetic slip in a caller)
		huge := []int{math.MaxInt, math.MaxInt - 1, math.MaxInt - 7, math.MaxInt - 600, 1 << 62, 1 << 40, 1 << 32, 1<<31 - 1, 1 << 31, -1, -1, -8, math.MinInt}
		return huge[rnd.Intn(len(huge))]
	}
	return rnd.Intn(max + 1)
}

func c15GenRecv(rnd *rt.Rand) c15Case {
	body := rnd.Range(1, 40)
	if rnd.Chance(1, 4) {
		body = rnd.Range(1, 592)
	}
	cs := c15Case{Disc: "recv", PS: body + 8}
	n := rnd.Range(4, 60)
	for i := 0; i < n; i++ {
		switch k := rnd.Intn(20); {
		case k < 6:
			sz := rnd.Range(1, 3*body)
			cs.Ops = append(cs.Ops, c15Op{Op: "add", N: sz, E: rnd.Chance(1, 5)})
		case k < 13:
			op := c15ReadOps[rnd.Intn(len(c15ReadOps))]
			cs.Ops = append(cs.Ops, c15Op{Op: op, N: c15ReadSize(op, rnd, 3*body)})
		case k < 15:
			cs.Ops = append(cs.Ops, c15Op{Op: "save"})
		case k < 17:
			cs.Ops = append(cs.Ops, c15Op{Op: "restore"})
		case k < 18:
			cs.Ops = append(cs.Ops, c15Op{Op: "discard"})
		case k < 19:
			cs.Ops = append(cs.Ops, c15Op{Op: "eomq"})
		default:
			if rnd.Chance(1, 4) {
				cs.Ops = append(cs.Ops, c15Op{Op: "reset"})
			} else {
				cs.Ops = append(cs.Ops, c15Op{Op: "eomq"})
			}
		}
	}
	return cs
}

func c15PS(rnd *rt.Rand) int {
	switch rnd.Intn(4) {
	case 0:
		return rnd.Range(9, 16)
	case 1:
		return rnd.Range(9, 64)
	default:
		return rnd.Range(9, 600)
	}
}

func c15GenWRB(rnd *rt.Rand) c15Case {
	ps := c15PS(rnd)
	cs := c15Case{Disc: "wrb", PS: ps}
	nw := rnd.Range(1, 12)
	total := 0
	for i := 0; i < nw; i++ {
		if rnd.Chance(1, 3) {
			ps = c15PS(rnd)
		}
		op := c15WriteOps[rnd.Intn(len(c15WriteOps))]
		sz := rnd.Intn(3*(ps-8) + 1)
		switch op {
		case "wbyte", "wu8", "wi8":
			sz = 1
		case "wu16", "wi16":
			sz = 2
		case "wu32", "wi32":
			sz = 4
		case "wu64", "wi64":
			sz = 8
		}
		total += sz
		cs.Ops = append(cs.Ops, c15Op{Op: op, N: sz, PS: ps})
	}
	cs.Ops = append(cs.Ops, c15Op{Op: "rewind"})
	left := total
	for left > 0 {
		op := c15ReadOps[rnd.Intn(len(c15ReadOps))]
		sz := c15ReadSize(op, rnd, left)
		if sz > left {
			continue
		}
		if sz == 0 && rnd.Chance(3, 4) {
			continue
		}
		cs.Ops = append(cs.Ops, c15Op{Op: op, N: sz})
		if sz > 0 {
			left -= sz // a refused (negative) size consumes nothing
		}
	}
	return cs
}

func c15GenAlt(rnd *rt.Rand) c15Case {
	ps := c15PS(rnd)
	cs := c15Case{Disc: "alt", PS: ps}
	written, read := 0, 0
	rounds := rnd.Range(2, 10)
	for k := 0; k < rounds; k++ {
		// write phase at the saved end position
		if k > 0 {
			cs.Ops = append(cs.Ops, c15Op{Op: "gow"})
		}
		for j := rnd.Range(1, 3); j > 0; j-- {
			if rnd.Chance(1, 4) {
				ps = c15PS(rnd)
			}
			op := c15WriteOps[rnd.Intn(len(c15WriteOps))]
			sz := rnd.Intn(2*(ps-8) + 1)
			switch op {
			case "wbyte", "wu8", "wi8":
				sz = 1
			case "wu16", "wi16":
				sz = 2
			case "wu32", "wi32":
				sz = 4
			case "wu64", "wi64":
				sz = 8
			}
			written += sz
			cs.Ops = append(cs.Ops, c15Op{Op: op, N: sz, PS: ps})
		}
		cs.Ops = append(cs.Ops, c15Op{Op: "savew"}, c15Op{Op: "gor"})
		for j := rnd.Range(0, 3); j > 0 && read < written; j-- {
			op := c15ReadOps[rnd.Intn(len(c15ReadOps))]
			sz := c15ReadSize(op, rnd, written-read)
			if sz > written-read {
				continue
			}
			cs.Ops = append(cs.Ops, c15Op{Op: op, N: sz})
			if sz > 0 {
				read += sz
			}
		}
		cs.Ops = append(cs.Ops, c15Op{Op: "saver"})
	}
	return cs
}
