package main

import (
	"encoding/json"
	"fmt"
	"runtime"
	"time"

	"github.com/SAP/go-dblib/tds"

	"verif/harness/rt"
	"verif/harness/srv"
	"verif/harness/xport"
)

// C10, leg "retain": memory the client still holds after it received AND
// consumed many small responses, compared with the bytes received.
//
// The direct leg measures what one parse attempt allocates; it cannot see
// memory that every packet leaves behind (a timer, a context, a buffer kept
// in a list), which only shows as a sum. Here a connection with the default
// kind of read timeout (50 s, so nothing expires during the case) receives N
// complete responses, each consumed before the next is fed; the live heap
// (runtime.MemStats.HeapAlloc after two forced collections) before the first
// and after the last response is compared. The process runs nothing else.
//
// Verdict: retained > 1 MiB + 2 x bytes received is a violation ("memory out
// of proportion to the bytes actually received"). The bound is generous: on
// the unchanged tree the difference is a few KiB whatever N is.

type c10RetainCase struct {
	Leg       string `json:"leg"` // "retain"
	Responses int    `json:"responses"`
	Shape     string `json:"shape"`          // done | eed-done | row
	Chunk     int    `json:"bytes_per_read"` // 0: one read per packet
	Packets   int    `json:"packets_per_response"`
}

func c10LiveHeap() uint64 {
	runtime.GC()
	runtime.GC()
	var ms runtime.MemStats
	runtime.ReadMemStats(&ms)
	return ms.HeapAlloc
}

func c10RetainRun(c *Ctx, cs c10RetainCase) {
	r := c.R
	r.Eval(1)
	b, _ := json.Marshal(cs)
	rt.CaseLog("C10 retain %s", b)
	k, err := newKit(64, 50)
	if err != nil {
		r.Inconclusive("setup: %v", err)
		return
	}
	defer k.teardown()
	var body []byte
	want := 1
	switch cs.Shape {
	case "done":
		body = srv.Done(srv.TokDone, 0, 0, 0)
	case "eed-done":
		want = 2
		body = append(srv.EED{MsgNr: 5701, Class: 11, SQLState: []byte("ZZZZZ"), Msg: "changed database context", Server: "srv"}.Bytes(), srv.Done(srv.TokDone, 0, 0, 0)...)
	case "row":
		body = append(srv.ReturnStatus(7), srv.Done(srv.TokDone, 0, 0, 0)...)
		want = 2
	default:
		r.Inconclusive("retain: unknown shape %q", cs.Shape)
		return
	}
	// the response as packets
	var stream []byte
	np := cs.Packets
	if np < 1 {
		np = 1
	}
	if np > len(body) {
		np = len(body)
	}
	for i := 0; i < np; i++ {
		lo, hi := i*len(body)/np, (i+1)*len(body)/np
		st := byte(0)
		if i == np-1 {
			st = xport.EOM
		}
		stream = append(stream, xport.Packet(byte(tds.TDS_BUF_RESPONSE), st, 0, body[lo:hi])...)
	}
	var cuts []int
	if cs.Chunk > 0 {
		for o := cs.Chunk; o < len(stream); o += cs.Chunk {
			cuts = append(cuts, o)
		}
	}
	one := func() bool {
		k.tr.FeedPartition(stream, cuts)
		if !awaitIdle(k.tr, 30*time.Second) {
			return false
		}
		d := drainChannel(k.ch, k.ctx)
		return len(d.Errs) == 0 && len(d.Dumps) >= want
	}
	// warm up: lazily created state is not what is measured
	for i := 0; i < 16; i++ {
		if !one() {
			r.Inconclusive("retain: warm-up response %d not delivered cleanly", i)
			return
		}
	}
	h0 := c10LiveHeap()
	received := 0
	for i := 0; i < cs.Responses; i++ {
		if !one() {
			r.Inconclusive("retain: response %d not delivered cleanly", i)
			return
		}
		received += len(stream)
	}
	h1 := c10LiveHeap()
	retained := int64(h1) - int64(h0)
	if retained < 0 {
		retained = 0
	}
	bound := int64(1<<20) + 2*int64(received)
	r.Distinct(fmt.Sprintf("retain|%s|%d|%d|%d", cs.Shape, cs.Chunk, cs.Packets, cs.Responses))
	r.Count("retain_responses_consumed", int64(cs.Responses))
	r.Count("retain_bytes_received", int64(received))
	r.Max("retain_max_retained_bytes", retained)
	r.Sample("retain", map[string]interface{}{"case": cs, "bytes_received": received, "retained_after_two_collections": retained, "bound": bound})
	if retained > bound {
		how := "one read per packet"
		if cs.Chunk > 0 {
			how = fmt.Sprintf("%d byte(s) per read", cs.Chunk)
		}
		r.Violate(fmt.Sprintf("retained-memory/after-consumed-responses/%s/%s", cs.Shape, map[bool]string{false: "whole-packets", true: "small-reads"}[cs.Chunk > 0]),
			fmt.Sprintf("after receiving and consuming %d complete responses (%d bytes in all, %d packet(s) each, %s, PacketReadTimeout 50 s) the process holds %d bytes more than before (live heap after two forced collections); bound 1 MiB + 2 x bytes received = %d", cs.Responses, received, np, how, retained, bound), cs)
	}
}

func runC10Retain(c *Ctx) {
	r := c.R
	r.Rule = "retain: N complete responses received and consumed one after the other on one connection (PacketReadTimeout 50 s); live heap after two forced collections before and after; violation when the difference exceeds 1 MiB + 2 x bytes received"
	if c.Replay != nil {
		var cs c10RetainCase
		if json.Unmarshal(c.Replay, &cs) == nil && cs.Leg == "retain" {
			c10RetainRun(c, cs)
		}
		return
	}
	n := 20000
	if !c.Quick() {
		n = 200000
	}
	cases := []c10RetainCase{
		{Leg: "retain", Responses: n, Shape: "done", Chunk: 0, Packets: 1},
		{Leg: "retain", Responses: n / 4, Shape: "done", Chunk: 1, Packets: 1},
		{Leg: "retain", Responses: n / 2, Shape: "eed-done", Chunk: 0, Packets: 3},
		{Leg: "retain", Responses: n / 4, Shape: "row", Chunk: 3, Packets: 2},
	}
	for _, cs := range cases {
		c10RetainRun(c, cs)
	}
}
