package main

import (
	"encoding/json"
	"fmt"
	"time"

	"verif/harness/rt"
	"verif/harness/srv"
)

// C08, "never a wait that outlives the context", in the two situations the
// single-edit scripts do not produce:
//
//   never-completes: the last packet of the server's last reply does not
//       carry the end-of-message status, so nothing — no package, no
//       library-supplied DONE — follows. A rejected reply must still yield an
//       error when the context expires.
//   relogin: a first Login ends early (rejection, unsupported encryption
//       offer) and leaves more unread packages behind than the package queue
//       holds (the reader is parked on the full queue); the application
//       retries Login on the same connection. Whatever the retry's outcome, it
//       must return by the time its context expires.

type c08WaitCase struct {
	Family string   `json:"family"` // "wait"
	Kind   string   `json:"kind"`   // never-completes | relogin
	Name   string   `json:"script"`
	Script lpScript `json:"reply_script"`
	Queue  int      `json:"queue_capacity,omitempty"`
	Cut    string   `json:"cut_class"`
}

func c08WaitScripts() map[string]lpScript {
	key := lpGetKey(1024)
	nonce := []byte("0123456789abcdef0123456789abcdef")
	types := []int{srv.TInt4, srv.TLongBinary, srv.TLongBinary}
	neg := func(msg int) []lpItem {
		return []lpItem{lpLoginAck(srv.LogNegotiate), lpMsg(1, msg), lpParamFmt(types...), lpParams(types, 1, "valid", key.pem, nonce), lpDone(0)}
	}
	eed := lpItem{Kind: "eed", B: srv.EED{MsgNr: 4002, State: 1, Class: 14, SQLState: []byte("ZZZZZ"), TranState: 1, Msg: "Login failed.", Server: "S", Line: 1}.Bytes()}
	return map[string]lpScript{
		"plain-valid":              {Flow: "plain", Rounds: [][]lpItem{{lpLoginAck(srv.LogSucceed), lpDone(0)}}},
		"plain-ack-only":           {Flow: "plain", Rounds: [][]lpItem{{lpLoginAck(srv.LogSucceed)}}},
		"plain-fail-no-done":       {Flow: "plain", Rounds: [][]lpItem{{eed, lpLoginAck(srv.LogFail)}}},
		"plain-fail-many-messages": {Flow: "plain", Rounds: [][]lpItem{{eed, eed, eed, eed, lpLoginAck(srv.LogFail), eed, lpDone(0)}}},
		"plain-nothing-useful":     {Flow: "plain", Rounds: [][]lpItem{{eed}}},
		"enc-valid":                {Flow: "encrypted", Rounds: [][]lpItem{neg(lpMsgEncrypt4), {lpLoginAck(srv.LogSucceed), lpCaps("ok"), lpDone(0)}}},
		"enc-round1-no-done":       {Flow: "encrypted", Rounds: [][]lpItem{neg(lpMsgEncrypt4)[:4]}},
		"enc-round1-no-params":     {Flow: "encrypted", Rounds: [][]lpItem{neg(lpMsgEncrypt4)[:3]}},
		"enc-offer-encrypt3":       {Flow: "encrypted", Rounds: [][]lpItem{neg(lpMsgEncrypt3)}},
		"enc-round2-fail-no-done":  {Flow: "encrypted", Rounds: [][]lpItem{neg(lpMsgEncrypt4), {eed, lpLoginAck(srv.LogFail)}}},
		"enc-round2-ack-no-caps":   {Flow: "encrypted", Rounds: [][]lpItem{neg(lpMsgEncrypt4), {lpLoginAck(srv.LogSucceed)}}},
		"enc-round2-negotiate":     {Flow: "encrypted", Rounds: [][]lpItem{neg(lpMsgEncrypt4), {lpLoginAck(srv.LogNegotiate), eed}}},
	}
}

func c08WaitRun(c *Ctx, cs c08WaitCase) {
	r := c.R
	r.Eval(1)
	b, _ := json.Marshal(struct {
		K, N, C string
		Q       int
	}{cs.Kind, cs.Name, cs.Cut, cs.Queue})
	rt.CaseLog("C08 wait %s", b)
	encrypt := cs.Script.Flow == "encrypted"
	timeout := 300 * time.Millisecond
	opt := lpOptions{CutSeed: string(b), CutClass: cs.Cut, Timeout: timeout}
	if cs.Kind == "never-completes" {
		opt.NoEOM = true
	} else if cs.Kind == "trailing" {
		// a valid acceptance followed by further packages, more than the
		// package queue holds (the reader is parked on the full queue when
		// Login finishes)
		opt.QueueSize = cs.Queue
	} else {
		opt.QueueSize = cs.Queue
		second := lpScript{Flow: "plain", Rounds: [][]lpItem{{lpLoginAck(srv.LogSucceed), lpDone(0)}}}
		opt.Second, opt.SecondCfg = &second, lpConfig("sa", "secret-Pw1", false)
	}
	res := lpRun(c.Seed, cs.Script, lpConfig("sa", "secret-Pw1", encrypt), opt)
	if res.kit == nil {
		r.Inconclusive("setup: %v", res.err)
		return
	}
	defer res.kit.teardown()
	r.Distinct(string(b))
	parked := func() (bool, string) {
		for _, g := range rt.Goroutines() {
			if g.Has("tds.(*Channel).Login") && g.Parked() {
				return true, fmt.Sprintf("[%s] at %s", g.State, firstDblib(g))
			}
		}
		return false, ""
	}
	which, wd, pi, err := "Login", res.watchdog, res.panicked, res.err
	if res.ran2 {
		r.SetAdd("wait_outcomes", fmt.Sprintf("%s/%s/first:%v", cs.Kind, cs.Name, res.err != nil))
		which, wd, pi, err = "the second Login on the connection", res.watchdog2, res.panicked2, res.err2
	}
	switch {
	case res.panicked != nil:
		r.Violate("panic/"+res.panicked.Frame+"/wait/"+cs.Kind, fmt.Sprintf("script %s (%s): Login panicked: %s", cs.Name, cs.Kind, res.panicked.Value), cs)
	case res.watchdog || wd:
		if ok, where := parked(); ok {
			r.Violate("wait-outlives-context/"+cs.Kind+"/"+cs.Script.Flow, fmt.Sprintf("script %s, %s (package queue capacity %d): %s did not return 15 s after its context (%v) had expired; it is parked %s", cs.Name, cs.Kind, cs.Queue, which, timeout, where), cs)
		} else {
			r.Inconclusive("C08 wait: watchdog fired but no Login call is parked (%s)", b)
		}
	case pi != nil:
		r.Violate("panic/"+pi.Frame+"/wait/"+cs.Kind, fmt.Sprintf("script %s (%s): %s panicked: %s", cs.Name, cs.Kind, which, pi.Value), cs)
	case cs.Kind == "never-completes" && err == nil && cs.Name != "plain-valid" && cs.Name != "enc-valid":
		r.Violate("accepted-invalid-reply/never-completes/"+cs.Script.Flow, fmt.Sprintf("script %s, whose last reply neither completes nor forms an acceptance: Login returned nil", cs.Name), cs)
	default:
		r.SetAdd("wait_outcomes", fmt.Sprintf("%s/%s/error:%v", cs.Kind, cs.Name, err != nil))
		r.Count("wait_logins_returned_in_time", 1)
	}
}

// c08SlowReply: a valid acceptance whose last packet arrives slowly (see
// lpOptions.Trickle) well inside the caller's context of 10 s: Login must
// succeed. The pauses are measured; a run in which one reached 800 ms says
// nothing and is repeated, a failing Login is run once more and reported only
// if it fails again.
func c08SlowReply(c *Ctx, cs c08WaitCase) {
	r := c.R
	r.Eval(1)
	b, _ := json.Marshal(struct{ K, N string }{cs.Kind, cs.Name})
	rt.CaseLog("C08 wait %s", b)
	encrypt := cs.Script.Flow == "encrypted"
	judged, bad := 0, 0
	var lastErr error
	for attempt := 0; attempt < 6 && judged < 2 && bad == judged; attempt++ {
		res := lpRun(c.Seed, cs.Script, lpConfig("sa", "secret-Pw1", encrypt), lpOptions{CutSeed: string(b), CutClass: "one-packet", Timeout: 10 * time.Second, Trickle: true})
		if res.kit == nil {
			r.Inconclusive("setup: %v", res.err)
			return
		}
		res.kit.teardown()
		if res.panicked != nil {
			r.Violate("panic/"+res.panicked.Frame+"/wait/"+cs.Kind, fmt.Sprintf("script %s (%s): Login panicked: %s", cs.Name, cs.Kind, res.panicked.Value), cs)
			return
		}
		if !res.paceOK || res.watchdog {
			r.Count("slow_reply_runs_without_verdict", 1)
			continue
		}
		judged++
		r.Count("slow_reply_transient_eof_reads", res.softReads)
		if res.err != nil {
			bad++
			lastErr = res.err
		}
	}
	if judged > 0 {
		r.Distinct(string(b))
		r.Count("slow_reply_logins_judged", int64(judged))
	}
	if judged >= 2 && bad == judged {
		r.Violate("valid-acceptance-rejected/slow-reply/"+cs.Script.Flow, fmt.Sprintf("script %s: the server's last reply packet arrived in pieces 400 ms apart (PacketReadTimeout 1 s, reads in between return (0, io.EOF)), completely and well inside the caller's 10 s context; Login returned %v (twice in a row)", cs.Name, lastErr), cs)
	}
}

func runC08Wait(c *Ctx) {
	scripts := c08WaitScripts()
	for _, n := range []string{"plain-valid", "enc-valid"} {
		c08SlowReply(c, c08WaitCase{Family: "wait", Kind: "slow-reply", Name: n, Script: scripts[n], Cut: "one-packet"})
	}
	var names []string
	for n := range scripts {
		names = append(names, n)
	}
	sortStrings(names)
	cuts := []string{"one-packet", "per-package", "random"}
	for _, n := range names {
		for _, cut := range cuts {
			c08WaitRun(c, c08WaitCase{Family: "wait", Kind: "never-completes", Name: n, Script: scripts[n], Cut: cut})
		}
		for _, q := range []int{1, 2, 3, 5} {
			c08WaitRun(c, c08WaitCase{Family: "wait", Kind: "relogin", Name: n, Script: scripts[n], Queue: q, Cut: "one-packet"})
		}
	}
	for _, n := range []string{"plain-valid", "enc-valid"} {
		for _, q := range []int{1, 2, 3} {
			for _, extra := range []int{q + 1, q + 2, q + 6} {
				sc := scripts[n].clone()
				last := len(sc.Rounds) - 1
				for i := 0; i < extra; i++ {
					sc.Rounds[last] = append(sc.Rounds[last], lpDone(0))
				}
				c08WaitRun(c, c08WaitCase{Family: "wait", Kind: "trailing", Name: fmt.Sprintf("%s+%d-more-final-DONEs", n, extra), Script: sc, Queue: q, Cut: "one-packet"})
			}
		}
	}
}
