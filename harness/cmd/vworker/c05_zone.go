package main

import (
	_ "time/tzdata" // named locations independent of the host's zoneinfo

	"bytes"
	"encoding/json"
	"fmt"
	"sync"
	"time"

	"verif/harness/refdata"
	"verif/harness/rt"
)

// C05, zone leg. ASE temporal types carry no zone; a driver hands the
// library time.Time values in whatever Location the application uses
// (time.Now() is local). The bytes may follow the wall-clock reading of the
// value (what the tree does) or its UTC instant — the property does not say
// which — but they must follow ONE of the two, the same one for every
// temporal type: the bytes for t in zone Z equal the bytes the library
// itself produces for the same reading given as a UTC value (which the main
// leg compares with the reference encoding).

type c05ZoneCase struct {
	Zone   string `json:"zone_leg"` // "zone"
	Type   string `json:"type"`
	Wall   string `json:"wall_clock"` // RFC3339Nano of the wall-clock reading, in UTC
	Offset int    `json:"zone_offset_seconds"`
	// Loc: a named location with daylight saving (from the embedded
	// time/tzdata) instead of a fixed offset
	Loc string `json:"location,omitempty"`
}

var c05ZoneMu sync.Mutex
var c05ZoneReading = map[string]string{} // family -> reading seen where the two differ

func (j *c05Judge) zoneOne(acc *dtAcc, vr *dtVariant, wall time.Time, offset int, locName string) {
	r := j.c.R
	cs := c05ZoneCase{Zone: "zone", Type: vr.label(), Wall: wall.Format(time.RFC3339Nano), Offset: offset, Loc: locName}
	loc := time.FixedZone(fmt.Sprintf("UTC%+d", offset), offset)
	if locName != "" {
		l, err := time.LoadLocation(locName)
		if err != nil {
			r.Inconclusive("C05 zone leg: location %s not available: %v", locName, err)
			return
		}
		loc = l
	}
	tz := time.Date(wall.Year(), wall.Month(), wall.Day(), wall.Hour(), wall.Minute(), wall.Second(), wall.Nanosecond(), loc)
	if tz.Hour() != wall.Hour() || tz.Minute() != wall.Minute() || tz.Day() != wall.Day() {
		return // a wall-clock reading that does not exist in the location (inside the spring gap)
	}
	length := int64(vr.Len)
	oz := dtLibBytes(vr, tz, length)
	ow := dtLibBytes(vr, wall, length)
	oi := dtLibBytes(vr, tz.UTC(), length)
	acc.counts["zone_evaluations"]++
	r.Eval(1)
	if oz.panic != nil {
		r.Violate("panic/"+oz.panic.Frame+"/zone", fmt.Sprintf("%s: Bytes(%s) panicked: %s", vr.label(), tz.Format(time.RFC3339Nano), oz.panic.Value), cs)
		return
	}
	if ow.panic != nil || ow.err != nil {
		return // the UTC value itself is not encodable: main leg's business
	}
	if oz.err != nil {
		r.Violate("zone/refused/"+vr.Fam, fmt.Sprintf("%s: Bytes(%s) fails (%v) although the same reading in UTC is encoded", vr.label(), tz.Format(time.RFC3339Nano), oz.err), cs)
		return
	}
	isWall := bytes.Equal(oz.bs, ow.bs)
	isInst := oi.panic == nil && oi.err == nil && bytes.Equal(oz.bs, oi.bs)
	switch {
	case isWall && isInst:
		acc.counts["zone_readings_coincide"]++
		return
	case !isWall && !isInst:
		r.Violate("zone/neither-wall-clock-nor-instant/"+vr.Fam, fmt.Sprintf("%s: Bytes(%s) = %s; the wall-clock reading %s encodes to %s, the UTC instant %s to %s", vr.label(), tz.Format(time.RFC3339Nano), dtHex(oz.bs), wall.Format(time.RFC3339Nano), dtHex(ow.bs), tz.UTC().Format(time.RFC3339Nano), dtHex(oi.bs)), cs)
		return
	}
	reading := "wall-clock"
	if isInst {
		reading = "utc-instant"
	}
	acc.counts["zone_reading/"+reading]++
	c05ZoneMu.Lock()
	defer c05ZoneMu.Unlock()
	for fam, other := range c05ZoneReading {
		if other != reading {
			r.Violate("zone/reading-differs-between-types", fmt.Sprintf("%s encodes %s by its %s reading, while %s values were encoded by their %s reading", vr.label(), tz.Format(time.RFC3339Nano), reading, fam, other), cs)
			return
		}
	}
	c05ZoneReading[vr.Fam] = reading
}

func (j *c05Judge) zoneWalls() []time.Time {
	var out []time.Time
	days := [][3]int{{1900, 1, 1}, {1900, 1, 2}, {1905, 2, 28}, {1960, 12, 31}, {1970, 1, 1}, {1999, 12, 31}, {2000, 2, 29}, {2000, 3, 1}, {2024, 3, 10}, {2038, 1, 19}, {2070, 6, 30}, {2078, 12, 31}}
	clocks := [][4]int{{0, 0, 0, 0}, {0, 0, 0, 3333333}, {0, 30, 0, 0}, {1, 59, 59, 996666666}, {11, 59, 59, 0}, {12, 0, 0, 0}, {13, 14, 15, 160000000}, {22, 0, 1, 0}, {23, 30, 0, 0}, {23, 59, 59, 0}}
	for _, d := range days {
		for _, c := range clocks {
			out = append(out, time.Date(d[0], time.Month(d[1]), d[2], c[0], c[1], c[2], c[3], time.UTC))
		}
	}
	return out
}

var c05ZoneOffsets = []int{2 * 3600, -5 * 3600, 5*3600 + 45*60, 14 * 3600, -12 * 3600, 1}

func (j *c05Judge) zones(acc *dtAcc) {
	dtZoneIter(j.zoneWalls(), func(vr *dtVariant, w time.Time, off int, ln string) { j.zoneOne(acc, vr, w, off, ln) })
}

// dtZoneIter enumerates the zone leg's cases (shared by C04 and C05).
func dtZoneIter(walls []time.Time, f func(vr *dtVariant, wall time.Time, offset int, loc string)) {
	for _, vr := range dtVariants {
		if vr.K != dkTime {
			continue
		}
		for _, w := range walls {
			for _, off := range c05ZoneOffsets {
				f(vr, w, off, "")
			}
		}
		// named locations on the days their clocks change (the time elapsed
		// since local midnight differs from the wall clock then)
		for _, ln := range []string{"America/New_York", "Europe/Berlin", "Australia/Lord_Howe", "America/Sao_Paulo"} {
			for _, d := range [][3]int{{2021, 3, 14}, {2021, 11, 7}, {2021, 3, 28}, {2021, 10, 31}, {2021, 4, 4}, {2021, 10, 3}, {2018, 11, 4}, {2018, 2, 18}, {2021, 6, 15}} {
				for _, c := range [][4]int{{0, 0, 0, 0}, {0, 30, 0, 0}, {1, 30, 0, 0}, {3, 30, 15, 250000000}, {12, 0, 0, 0}, {23, 59, 59, 999999000}} {
					f(vr, time.Date(d[0], time.Month(d[1]), d[2], c[0], c[1], c[2], c[3], time.UTC), 0, ln)
				}
			}
		}
	}
}

// dateClock: a DATE holds the civil date of the value it is given; a time of
// day (time.Now(), a DATETIME column's value bound to a DATE parameter) does
// not move it to another day. Compared with the bytes for midnight of the
// same civil date, which the main leg compares with the reference.
func (j *c05Judge) dateClock(acc *dtAcc, vr *dtVariant, wall time.Time) {
	r := j.c.R
	cs := c05ZoneCase{Zone: "date-with-clock", Type: vr.label(), Wall: wall.Format(time.RFC3339Nano)}
	mid := time.Date(wall.Year(), wall.Month(), wall.Day(), 0, 0, 0, 0, time.UTC)
	ow := dtLibBytes(vr, wall, int64(vr.Len))
	om := dtLibBytes(vr, mid, int64(vr.Len))
	acc.counts["date_with_clock_evaluations"]++
	r.Eval(1)
	if om.panic != nil || om.err != nil {
		return
	}
	reg := "from-1900"
	if wall.Year() < 1900 {
		reg = "before-1900"
	}
	switch {
	case ow.panic != nil:
		r.Violate("panic/"+ow.panic.Frame+"/date-with-clock", fmt.Sprintf("%s: Bytes(%s) panicked: %s", vr.label(), cs.Wall, ow.panic.Value), cs)
	case ow.err != nil:
		r.Violate("date-with-clock/refused/"+reg, fmt.Sprintf("%s: Bytes(%s) fails: %v", vr.label(), cs.Wall, ow.err), cs)
	case !bytes.Equal(ow.bs, om.bs):
		r.Violate("date-with-clock/another-day/"+reg, fmt.Sprintf("%s: Bytes(%s) = %s (day %d since 1900-01-01), midnight of the same civil date encodes to %s (day %d)", vr.label(), cs.Wall, dtHex(ow.bs), int32(dtLE.Uint32(ow.bs)), dtHex(om.bs), int32(dtLE.Uint32(om.bs))), cs)
	}
}

func (j *c05Judge) dateClocks(acc *dtAcc) {
	days := [][3]int{{1, 1, 1}, {1, 12, 31}, {1582, 10, 10}, {1752, 9, 14}, {1850, 5, 5}, {1899, 12, 30}, {1899, 12, 31}, {1900, 1, 1}, {1900, 1, 2}, {1970, 1, 1}, {2024, 2, 29}, {9999, 12, 31}}
	clocks := [][4]int{{0, 0, 0, 1000}, {0, 0, 1, 0}, {6, 0, 0, 0}, {12, 0, 0, 0}, {23, 59, 0, 0}, {23, 59, 59, 999999000}}
	for _, vr := range dtVariants {
		if vr.K != dkTime || vr.Role != "date" {
			continue
		}
		for _, d := range days {
			for _, c := range clocks {
				j.dateClock(acc, vr, time.Date(d[0], time.Month(d[1]), d[2], c[0], c[1], c[2], c[3], time.UTC))
			}
		}
	}
}

func (j *c05Judge) zoneReplay(acc *dtAcc, raw json.RawMessage) bool {
	var cs c05ZoneCase
	if json.Unmarshal(raw, &cs) != nil || (cs.Zone != "zone" && cs.Zone != "date-with-clock") {
		return false
	}
	vr := dtFind(cs.Type)
	w, err := time.Parse(time.RFC3339Nano, cs.Wall)
	if vr == nil || err != nil {
		return false
	}
	if cs.Zone == "date-with-clock" {
		j.dateClock(acc, vr, w.UTC())
		return true
	}
	j.zoneOne(acc, vr, w.UTC(), cs.Offset, cs.Loc)
	return true
}

var _ = refdata.Day1900

// c04ZoneRoundTrip: encoding and decoding a time value of a non-UTC location
// yields what encoding and decoding its wall-clock reading, or its UTC
// instant, yields (the main leg judges those against the value itself).
func c04ZoneRoundTrip(r *rt.Result, acc *dtAcc, vr *dtVariant, wall time.Time, offset int, locName string) {
	cs := c05ZoneCase{Zone: "zone", Type: vr.label(), Wall: wall.Format(time.RFC3339Nano), Offset: offset, Loc: locName}
	loc := time.FixedZone(fmt.Sprintf("UTC%+d", offset), offset)
	if locName != "" {
		l, err := time.LoadLocation(locName)
		if err != nil {
			r.Inconclusive("C04 zone leg: location %s not available: %v", locName, err)
			return
		}
		loc = l
	}
	tz := time.Date(wall.Year(), wall.Month(), wall.Day(), wall.Hour(), wall.Minute(), wall.Second(), wall.Nanosecond(), loc)
	if tz.Hour() != wall.Hour() || tz.Minute() != wall.Minute() || tz.Day() != wall.Day() {
		return
	}
	trip := func(t time.Time) (time.Time, bool, *rt.PanicInfo) {
		o := dtLibBytes(vr, t, int64(vr.Len))
		if o.panic != nil || o.err != nil {
			return time.Time{}, false, o.panic
		}
		g := dtLibGoValue(vr, o.bs)
		if g.panic != nil || g.err != nil {
			return time.Time{}, false, g.panic
		}
		tv, ok := g.val.(time.Time)
		return tv, ok, nil
	}
	acc.counts["zone_roundtrips"]++
	r.Eval(1)
	gz, okz, pz := trip(tz)
	gw, okw, _ := trip(wall)
	gi, oki, _ := trip(tz.UTC())
	if pz != nil {
		r.Violate("panic/"+pz.Frame+"/zone", fmt.Sprintf("%s: round trip of %s panicked: %s", vr.label(), tz.Format(time.RFC3339Nano), pz.Value), cs)
		return
	}
	if !okw {
		return
	}
	if !okz {
		r.Violate("zone-roundtrip/refused/"+vr.Fam, fmt.Sprintf("%s: %s cannot be encoded and decoded although the same reading in UTC can", vr.label(), tz.Format(time.RFC3339Nano)), cs)
		return
	}
	if gz.Equal(gw) || (oki && gz.Equal(gi)) {
		return
	}
	r.Violate("zone-roundtrip/neither-wall-clock-nor-instant/"+vr.Fam, fmt.Sprintf("%s: %s encoded and decoded gives %s; its wall-clock reading gives %s, its UTC instant %s", vr.label(), tz.Format(time.RFC3339Nano), gz.Format(time.RFC3339Nano), gw.Format(time.RFC3339Nano), gi.Format(time.RFC3339Nano)), cs)
}
