// Package refdata is an independent reference codec for the TDS 5.0 data
// value layouts, written from the wire-format facts (functional
// specification / ASE reference manuals) and sharing no code with go-dblib.
// It only uses encoding/binary, math/big, unicode/utf16 (cross-check) and
// time (cross-check of the calendar arithmetic).
//
// All multi-byte integers are little-endian (the byte order go-dblib
// announces in its login record).
package refdata

import (
	"encoding/binary"
	"errors"
	"fmt"
	"math/big"
	"time"
	"unicode/utf16"
)

// ---------------------------------------------------------------- calendar

// DaysFromCivil returns the number of days since 1970-01-01 of the proleptic
// Gregorian date y-m-d (astronomical year numbering: year 0 exists and is a
// leap year). Howard Hinnant, "chrono-Compatible Low-Level Date Algorithms".
func DaysFromCivil(y, m, d int64) int64 {
	if m <= 2 {
		y--
	}
	var era int64
	if y >= 0 {
		era = y / 400
	} else {
		era = (y - 399) / 400
	}
	yoe := y - era*400 // [0, 399]
	var mp int64
	if m > 2 {
		mp = m - 3
	} else {
		mp = m + 9
	}
	doy := (153*mp+2)/5 + d - 1            // [0, 365]
	doe := yoe*365 + yoe/4 - yoe/100 + doy // [0, 146096]
	return era*146097 + doe - 719468
}

// CivilFromDays is the inverse of DaysFromCivil.
func CivilFromDays(z int64) (y, m, d int64) {
	z += 719468
	var era int64
	if z >= 0 {
		era = z / 146097
	} else {
		era = (z - 146096) / 146097
	}
	doe := z - era*146097                                  // [0, 146096]
	yoe := (doe - doe/1460 + doe/36524 - doe/146096) / 365 // [0, 399]
	y = yoe + era*400
	doy := doe - (365*yoe + yoe/4 - yoe/100) // [0, 365]
	mp := (5*doy + 2) / 153                  // [0, 11]
	d = doy - (153*mp+2)/5 + 1               // [1, 31]
	if mp < 10 {
		m = mp + 3
	} else {
		m = mp - 9
	}
	if m <= 2 {
		y++
	}
	return
}

// IsLeap reports whether y is a leap year of the proleptic Gregorian calendar.
func IsLeap(y int64) bool { return y%4 == 0 && (y%100 != 0 || y%400 == 0) }

// Day numbers (days since 1970-01-01) of the epochs and type limits.
var (
	Day1900    = DaysFromCivil(1900, 1, 1)   // epoch of DATE, DATETIME, SMALLDATETIME
	DayYear0   = DaysFromCivil(0, 1, 1)      // epoch of BIGDATETIME
	DayMin     = DaysFromCivil(1, 1, 1)      // 0001-01-01, DATE / BIGDATETIME minimum
	DayMax     = DaysFromCivil(9999, 12, 31) // maximum of all date types
	Day1753    = DaysFromCivil(1753, 1, 1)   // DATETIME minimum
	DaySmallDT = DaysFromCivil(2079, 6, 6)   // SMALLDATETIME maximum
)

const (
	TicksPerDay   = 25920000 // 1/300 s ticks
	MinutesPerDay = 1440
	MicrosPerDay  = 86400000000
	NanosPerDay   = 86400000000000
	SecondsPerDay = 86400
)

// SelfCheck cross-checks the civil arithmetic against Go's time package on
// every day from 0000-01-01 to 9999-12-31 and the fixed epoch vectors from the
// ASE manuals. A non-nil error means the two references of the harness
// disagree: a harness fault, never a violation of the library.
func SelfCheck() error {
	prevY, prevM, prevD := int64(-1), int64(12), int64(31)
	for z := DayYear0; z <= DayMax; z++ {
		y, m, d := CivilFromDays(z)
		if DaysFromCivil(y, m, d) != z {
			return fmt.Errorf("refdata: DaysFromCivil(CivilFromDays(%d)) = %d", z, DaysFromCivil(y, m, d))
		}
		t := time.Unix(z*SecondsPerDay, 0).UTC()
		gy, gm, gd := t.Date()
		if int64(gy) != y || int64(gm) != m || int64(gd) != d {
			return fmt.Errorf("refdata: day %d is %04d-%02d-%02d by own arithmetic, %04d-%02d-%02d by package time", z, y, m, d, gy, gm, gd)
		}
		if u := time.Date(int(y), time.Month(m), int(d), 0, 0, 0, 0, time.UTC).Unix(); u != z*SecondsPerDay {
			return fmt.Errorf("refdata: time.Date(%04d-%02d-%02d).Unix() = %d, own arithmetic %d", y, m, d, u, z*SecondsPerDay)
		}
		// successor relation
		switch {
		case d == prevD+1 && m == prevM && y == prevY:
		case d == 1 && m == prevM+1 && y == prevY && prevD == monthLen(prevY, prevM):
		case d == 1 && m == 1 && y == prevY+1 && prevM == 12 && prevD == 31:
		default:
			return fmt.Errorf("refdata: %04d-%02d-%02d does not follow %04d-%02d-%02d", y, m, d, prevY, prevM, prevD)
		}
		prevY, prevM, prevD = y, m, d
	}
	vec := []struct {
		name      string
		got, want int64
	}{
		{"DATETIME minimum 1753-01-01 as days since 1900-01-01", Day1753 - Day1900, -53690},
		{"9999-12-31 as days since 1900-01-01", DayMax - Day1900, 2958463},
		{"DATE minimum 0001-01-01 as days since 1900-01-01", DayMin - Day1900, -693595},
		{"SMALLDATETIME maximum 2079-06-06 as days since 1900-01-01", DaySmallDT - Day1900, 65535},
		{"0001-01-01 as days since 0000-01-01", DayMin - DayYear0, 366},
	}
	for _, v := range vec {
		if v.got != v.want {
			return fmt.Errorf("refdata: %s = %d, manual says %d", v.name, v.got, v.want)
		}
	}
	if (DayMin-DayYear0)*MicrosPerDay != 31622400000000 {
		return errors.New("refdata: 0001-01-01 is not 31 622 400 000 000 µs after 0000-01-01")
	}
	return nil
}

func monthLen(y, m int64) int64 {
	switch m {
	case 4, 6, 9, 11:
		return 30
	case 2:
		if IsLeap(y) {
			return 29
		}
		return 28
	}
	return 31
}

// Instant is a point in time as (day number since 1970-01-01, nanoseconds
// within the day); the harness' own value representation for temporal types.
type Instant struct {
	Day int64
	Ns  int64
}

// Time converts to a time.Time in UTC using only the linear second count
// (no calendar arithmetic of package time is involved).
func (i Instant) Time() time.Time {
	return time.Unix(i.Day*SecondsPerDay+i.Ns/1000000000, i.Ns%1000000000).UTC()
}

// FromTime is the inverse of Instant.Time.
func FromTime(t time.Time) Instant {
	u := t.Unix()
	day := u / SecondsPerDay
	if u%SecondsPerDay < 0 {
		day--
	}
	return Instant{Day: day, Ns: (u-day*SecondsPerDay)*1000000000 + int64(t.Nanosecond())}
}

func (i Instant) String() string {
	y, m, d := CivilFromDays(i.Day)
	s := i.Ns / 1000000000
	return fmt.Sprintf("%04d-%02d-%02d %02d:%02d:%02d.%09d", y, m, d, s/3600, s/60%60, s%60, i.Ns%1000000000)
}

// DiffNs returns a-b in nanoseconds, saturated to ±(2 days) so that it never
// overflows.
func DiffNs(a, b Instant) int64 {
	dd := a.Day - b.Day
	if dd > 2 {
		dd = 2
	}
	if dd < -2 {
		dd = -2
	}
	return dd*NanosPerDay + (a.Ns - b.Ns)
}

// ---------------------------------------------------------------- scalars

// Uint encodes the low 8*width bits of u, little-endian (two's complement
// for signed values).
func Uint(width int, u uint64) []byte {
	b := make([]byte, width)
	for i := 0; i < width; i++ {
		b[i] = byte(u >> (8 * uint(i)))
	}
	return b
}

// DecodeUint decodes a little-endian unsigned integer of len(b) bytes.
func DecodeUint(b []byte) uint64 {
	var u uint64
	for i := len(b) - 1; i >= 0; i-- {
		u = u<<8 | uint64(b[i])
	}
	return u
}

// SignExtend interprets the low 8*width bits of u as two's complement.
func SignExtend(width int, u uint64) int64 {
	sh := uint(64 - 8*width)
	return int64(u<<sh) >> sh
}

// Bit encodes a BIT value.
func Bit(v bool) []byte {
	if v {
		return []byte{1}
	}
	return []byte{0}
}

// Money encodes a MONEY value given as a count of 1/10000 units: the high
// 32-bit word first, then the low word, each little-endian.
func Money(units int64) []byte {
	b := make([]byte, 8)
	binary.LittleEndian.PutUint32(b[0:4], uint32(uint64(units)>>32))
	binary.LittleEndian.PutUint32(b[4:8], uint32(uint64(units)))
	return b
}

// DecodeMoney is the inverse of Money.
func DecodeMoney(b []byte) (int64, error) {
	if len(b) != 8 {
		return 0, fmt.Errorf("MONEY of %d bytes", len(b))
	}
	hi := binary.LittleEndian.Uint32(b[0:4])
	lo := binary.LittleEndian.Uint32(b[4:8])
	return int64(uint64(hi)<<32 | uint64(lo)), nil
}

// Money4 encodes a SHORTMONEY (MONEY4) value: int32 count of 1/10000.
func Money4(units int32) []byte { return Uint(4, uint64(uint32(units))) }

// DecodeMoney4 is the inverse of Money4.
func DecodeMoney4(b []byte) (int32, error) {
	if len(b) != 4 {
		return 0, fmt.Errorf("SHORTMONEY of %d bytes", len(b))
	}
	return int32(binary.LittleEndian.Uint32(b)), nil
}

// ---------------------------------------------------------------- numeric

// NumericLen is the length (sign byte included) a server uses for a
// NUMERIC/DECIMAL of the given precision: the bytes needed for 10^p-1 plus
// the sign byte (2 for p=1..2, ..., 17 for p=37..38).
func NumericLen(precision int) int {
	m := new(big.Int).Exp(big.NewInt(10), big.NewInt(int64(precision)), nil)
	m.Sub(m, big.NewInt(1))
	return (m.BitLen()+7)/8 + 1
}

// MaxNumericLen is the largest NUMERIC/DECIMAL field TDS 5.0 allows.
const MaxNumericLen = 33

// Numeric encodes sign byte + big-endian magnitude, left-padded with zero
// bytes to total bytes (total = 0: minimal length, at least one magnitude
// byte).
func Numeric(neg bool, mag *big.Int, total int) ([]byte, error) {
	if mag.Sign() < 0 {
		return nil, errors.New("negative magnitude")
	}
	m := mag.Bytes()
	if len(m) == 0 {
		m = []byte{0}
	}
	if total == 0 {
		total = len(m) + 1
	}
	if len(m)+1 > total {
		return nil, fmt.Errorf("magnitude of %d bytes does not fit %d", len(m), total)
	}
	b := make([]byte, total)
	if neg {
		b[0] = 1
	}
	copy(b[total-len(m):], m)
	return b, nil
}

// DecodeNumeric splits sign and magnitude. The sign byte must be 0 or 1 and
// the length within 1..33.
func DecodeNumeric(b []byte) (neg bool, mag *big.Int, err error) {
	if len(b) < 1 || len(b) > MaxNumericLen {
		return false, nil, fmt.Errorf("NUMERIC of %d bytes", len(b))
	}
	switch b[0] {
	case 0:
	case 1:
		neg = true
	default:
		return false, nil, fmt.Errorf("NUMERIC sign byte %#x", b[0])
	}
	return neg, new(big.Int).SetBytes(b[1:]), nil
}

// ---------------------------------------------------------------- temporals

// Date encodes DATE: int32 days since 1900-01-01.
func Date(day int64) []byte { return Uint(4, uint64(uint32(int32(day-Day1900)))) }

// DecodeDate returns the day number; range 0001-01-01..9999-12-31.
func DecodeDate(b []byte) (int64, error) {
	if len(b) != 4 {
		return 0, fmt.Errorf("DATE of %d bytes", len(b))
	}
	day := int64(int32(binary.LittleEndian.Uint32(b))) + Day1900
	if day < DayMin || day > DayMax {
		return day, fmt.Errorf("DATE day %d outside 0001-01-01..9999-12-31", day-Day1900)
	}
	return day, nil
}

// Time encodes TIME: int32 count of 1/300 s since midnight.
func Time(tick int64) []byte { return Uint(4, uint64(uint32(int32(tick)))) }

// ErrTickRange is the range violation a conforming server reports for a
// time part outside a day.
var ErrTickRange = errors.New("tick-out-of-range")

// ErrMinuteRange: SMALLDATETIME minutes >= 1440.
var ErrMinuteRange = errors.New("minutes-out-of-range")

// ErrDayRange: day part outside the type's range.
var ErrDayRange = errors.New("day-out-of-range")

// ErrMicroRange: microsecond count outside the type's range.
var ErrMicroRange = errors.New("microseconds-out-of-range")

// DecodeTime returns the tick count; range [0, 25 920 000).
func DecodeTime(b []byte) (int64, error) {
	if len(b) != 4 {
		return 0, fmt.Errorf("TIME of %d bytes", len(b))
	}
	tick := int64(int32(binary.LittleEndian.Uint32(b)))
	if tick < 0 || tick >= TicksPerDay {
		return tick, fmt.Errorf("%w: TIME tick %d not in [0, 25920000)", ErrTickRange, tick)
	}
	return tick, nil
}

// DateTime encodes DATETIME: int32 days since 1900-01-01, then int32 ticks.
func DateTime(day, tick int64) []byte {
	return append(Uint(4, uint64(uint32(int32(day-Day1900)))), Uint(4, uint64(uint32(int32(tick))))...)
}

// DecodeDateTime returns day number and tick; ticks in [0, 25 920 000), days
// within 1753-01-01..9999-12-31.
func DecodeDateTime(b []byte) (day, tick int64, err error) {
	if len(b) != 8 {
		return 0, 0, fmt.Errorf("DATETIME of %d bytes", len(b))
	}
	day = int64(int32(binary.LittleEndian.Uint32(b[0:4]))) + Day1900
	tick = int64(int32(binary.LittleEndian.Uint32(b[4:8])))
	if tick < 0 || tick >= TicksPerDay {
		return day, tick, fmt.Errorf("%w: DATETIME tick %d not in [0, 25920000)", ErrTickRange, tick)
	}
	if day < Day1753 || day > DayMax {
		return day, tick, fmt.Errorf("%w: DATETIME day %d outside 1753-01-01..9999-12-31", ErrDayRange, day-Day1900)
	}
	return day, tick, nil
}

// ShortDate encodes SHORTDATE (SMALLDATETIME): uint16 days since 1900-01-01,
// uint16 minutes since midnight.
func ShortDate(day, minute int64) []byte {
	return append(Uint(2, uint64(uint16(day-Day1900))), Uint(2, uint64(uint16(minute)))...)
}

// DecodeShortDate returns day number and minute; minutes in [0, 1440).
func DecodeShortDate(b []byte) (day, minute int64, err error) {
	if len(b) != 4 {
		return 0, 0, fmt.Errorf("SHORTDATE of %d bytes", len(b))
	}
	day = int64(binary.LittleEndian.Uint16(b[0:2])) + Day1900
	minute = int64(binary.LittleEndian.Uint16(b[2:4]))
	if minute >= MinutesPerDay {
		return day, minute, fmt.Errorf("%w: SHORTDATE minute %d not in [0, 1440)", ErrMinuteRange, minute)
	}
	return day, minute, nil
}

// BigDateTime encodes BIGDATETIME: uint64 microseconds since
// 0000-01-01 00:00:00.
func BigDateTime(day, micros int64) []byte {
	return Uint(8, uint64(day-DayYear0)*MicrosPerDay+uint64(micros))
}

// DecodeBigDateTime returns day number and microseconds within the day;
// range 0001-01-01 00:00:00.000000 .. 9999-12-31 23:59:59.999999.
func DecodeBigDateTime(b []byte) (day, micros int64, err error) {
	if len(b) != 8 {
		return 0, 0, fmt.Errorf("BIGDATETIME of %d bytes", len(b))
	}
	u := binary.LittleEndian.Uint64(b)
	lo := uint64(DayMin-DayYear0) * MicrosPerDay
	hi := uint64(DayMax-DayYear0+1) * MicrosPerDay
	day = int64(u/MicrosPerDay) + DayYear0
	micros = int64(u % MicrosPerDay)
	if u < lo || u >= hi {
		return day, micros, fmt.Errorf("%w: BIGDATETIME %d µs outside 0001-01-01..9999-12-31", ErrMicroRange, u)
	}
	return day, micros, nil
}

// BigTime encodes BIGTIME: uint64 microseconds since midnight.
func BigTime(micros int64) []byte { return Uint(8, uint64(micros)) }

// DecodeBigTime returns the microseconds since midnight; range one day.
func DecodeBigTime(b []byte) (int64, error) {
	if len(b) != 8 {
		return 0, fmt.Errorf("BIGTIME of %d bytes", len(b))
	}
	u := binary.LittleEndian.Uint64(b)
	if u >= MicrosPerDay {
		return int64(u % MicrosPerDay), fmt.Errorf("%w: BIGTIME %d µs not within a day", ErrMicroRange, u)
	}
	return int64(u), nil
}

// TickExact reports whether ns (nanoseconds within a day) lies exactly on a
// 1/300 s tick and which. One tick is 10^7/3 ns.
func TickExact(ns int64) (tick int64, exact bool) {
	return ns * 3 / 10000000, ns*3%10000000 == 0
}

// TickDist3 returns 3*(ns - tick/300 s) in units of 1/3 ns, i.e. the signed
// distance of ns (within a day) from the given tick, scaled by 3 to stay in
// integers. One tick is 10 000 000 of these units.
func TickDist3(ns, tick int64) int64 { return 3*ns - tick*10000000 }

// TickNs returns the instant of a tick in nanoseconds within the day,
// rounded up to whole nanoseconds (so that TickExact(TickNs(k)) gives k).
func TickNs(tick int64) int64 { return (tick*10000000 + 2) / 3 }

// ---------------------------------------------------------------- strings

// UTF16LE encodes a sequence of Unicode code points as UTF-16, little-endian
// code units (own surrogate arithmetic). Surrogate code points and values
// above U+10FFFF are rejected.
func UTF16LE(cps []rune) ([]byte, error) {
	b := make([]byte, 0, 2*len(cps))
	for _, c := range cps {
		switch {
		case c < 0 || c > 0x10FFFF || (c >= 0xD800 && c <= 0xDFFF):
			return nil, fmt.Errorf("U+%04X is not a Unicode scalar value", c)
		case c < 0x10000:
			b = append(b, byte(c), byte(c>>8))
		default:
			c -= 0x10000
			hi := 0xD800 + (c >> 10)
			lo := 0xDC00 + (c & 0x3FF)
			b = append(b, byte(hi), byte(hi>>8), byte(lo), byte(lo>>8))
		}
	}
	// cross-check against unicode/utf16
	u := utf16.Encode(cps)
	if len(u)*2 != len(b) {
		return nil, errors.New("refdata: own UTF-16 encoder disagrees with unicode/utf16 (length)")
	}
	for i, cu := range u {
		if b[2*i] != byte(cu) || b[2*i+1] != byte(cu>>8) {
			return nil, errors.New("refdata: own UTF-16 encoder disagrees with unicode/utf16")
		}
	}
	return b, nil
}

// DecodeUTF16LE decodes well-formed UTF-16LE; unpaired surrogates and odd
// lengths are errors.
func DecodeUTF16LE(b []byte) ([]rune, error) {
	if len(b)%2 != 0 {
		return nil, fmt.Errorf("UTF-16 data of odd length %d", len(b))
	}
	out := make([]rune, 0, len(b)/2)
	for i := 0; i < len(b); i += 2 {
		cu := rune(b[i]) | rune(b[i+1])<<8
		switch {
		case cu >= 0xD800 && cu <= 0xDBFF:
			if i+3 >= len(b) {
				return nil, errors.New("unpaired high surrogate at end")
			}
			lo := rune(b[i+2]) | rune(b[i+3])<<8
			if lo < 0xDC00 || lo > 0xDFFF {
				return nil, errors.New("high surrogate not followed by low surrogate")
			}
			out = append(out, 0x10000+((cu-0xD800)<<10|(lo-0xDC00)))
			i += 2
		case cu >= 0xDC00 && cu <= 0xDFFF:
			return nil, errors.New("unpaired low surrogate")
		default:
			out = append(out, cu)
		}
	}
	return out, nil
}
