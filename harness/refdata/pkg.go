package refdata

import (
	"encoding/binary"
	"fmt"
)

// TDS 5.0 data type tokens (tdspublic.h values), independent copy.
const (
	TBinary       = 0x2D
	TBit          = 0x32
	TChar         = 0x2F
	TDate         = 0x31
	TDateN        = 0x7B
	TDateTime     = 0x3D
	TDateTimeN    = 0x6F
	TDecN         = 0x6A
	TFlt4         = 0x3B
	TFlt8         = 0x3E
	TFltN         = 0x6D
	TImage        = 0x22
	TInt1         = 0x30
	TInt2         = 0x34
	TInt4         = 0x38
	TInt8         = 0xBF
	TIntN         = 0x26
	TLongBinary   = 0xE1
	TLongChar     = 0xAF
	TMoney        = 0x3C
	TMoneyN       = 0x6E
	TNumN         = 0x6C
	TShortDate    = 0x3A
	TShortMoney   = 0x7A
	TText         = 0x23
	TTime         = 0x33
	TTimeN        = 0x93
	TUint2        = 0x41
	TUint4        = 0x42
	TUint8        = 0x43
	TUintN        = 0x44
	TUnitext      = 0xAE
	TVarBinary    = 0x25
	TVarChar      = 0x27
	TXML          = 0xA3
	TBigDateTimeN = 0xBB
	TBigTimeN     = 0xBC
)

// Stream tokens.
const (
	TokParamFmt = 0xEC
	TokParams   = 0xD7
	TokRowFmt2  = 0x61
	TokRow      = 0xD1
)

// FmtClass says which format fields follow the data type token in a
// PARAMFMT/ROWFMT entry and how a data value is delimited.
type FmtClass int

const (
	ClassFixed   FmtClass = iota // nothing; data has the type's fixed size
	ClassLen1                    // 1-byte maximum length; data: 1-byte length + bytes
	ClassLen4                    // 4-byte maximum length; data: 4-byte length + bytes
	ClassDecimal                 // 1-byte maximum length, precision, scale; data: 1-byte length + bytes
	ClassBigTime                 // 1-byte maximum length, 1-byte fractional-second precision; data: 1-byte length + bytes
	ClassTextPtr                 // 4-byte maximum length, 2-byte name length + object name; data: text pointer layout
	classUnknown
)

// ClassOf returns the format class of a data type token.
func ClassOf(t byte) FmtClass {
	switch t {
	case TBit, TDate, TDateTime, TFlt4, TFlt8, TInt1, TInt2, TInt4, TInt8, TMoney, TShortDate, TShortMoney, TTime, TUint2, TUint4, TUint8:
		return ClassFixed
	case TBinary, TChar, TDateN, TDateTimeN, TFltN, TIntN, TMoneyN, TTimeN, TUintN, TVarBinary, TVarChar:
		return ClassLen1
	case TLongBinary, TLongChar:
		return ClassLen4
	case TDecN, TNumN:
		return ClassDecimal
	case TBigDateTimeN, TBigTimeN:
		return ClassBigTime
	case TImage, TText, TUnitext, TXML:
		return ClassTextPtr
	}
	return classUnknown
}

// FixedSize returns the data size of a fixed-length type.
func FixedSize(t byte) int {
	switch t {
	case TBit, TInt1:
		return 1
	case TInt2, TUint2:
		return 2
	case TInt4, TUint4, TFlt4, TDate, TTime, TShortDate, TShortMoney:
		return 4
	case TInt8, TUint8, TFlt8, TDateTime, TMoney:
		return 8
	}
	return -1
}

// Field is one column/parameter format.
type Field struct {
	Name     string
	Status   uint32
	UserType int32
	Type     byte
	MaxLen   uint32
	Prec     byte // ClassDecimal: precision; ClassBigTime: fractional-second precision (6)
	Scale    byte
	Object   string // ClassTextPtr: table name
	Locale   string
}

func (f Field) typeInfo() ([]byte, error) {
	var b []byte
	switch ClassOf(f.Type) {
	case ClassFixed:
	case ClassLen1:
		b = append(b, byte(f.MaxLen))
	case ClassLen4:
		b = binary.LittleEndian.AppendUint32(b, f.MaxLen)
	case ClassDecimal:
		b = append(b, byte(f.MaxLen), f.Prec, f.Scale)
	case ClassBigTime:
		b = append(b, byte(f.MaxLen), f.Prec)
	case ClassTextPtr:
		b = binary.LittleEndian.AppendUint32(b, f.MaxLen)
		b = binary.LittleEndian.AppendUint16(b, uint16(len(f.Object)))
		b = append(b, f.Object...)
	default:
		return nil, fmt.Errorf("refdata: no format class for data type %#x", f.Type)
	}
	return b, nil
}

// ParamFmt encodes a TDS_PARAMFMT token (0xEC) with 2-byte length, 1-byte
// status fields.
func ParamFmt(fields []Field) ([]byte, error) {
	body := binary.LittleEndian.AppendUint16(nil, uint16(len(fields)))
	for _, f := range fields {
		body = append(body, byte(len(f.Name)))
		body = append(body, f.Name...)
		body = append(body, byte(f.Status))
		body = binary.LittleEndian.AppendUint32(body, uint32(f.UserType))
		body = append(body, f.Type)
		ti, err := f.typeInfo()
		if err != nil {
			return nil, err
		}
		body = append(body, ti...)
		body = append(body, byte(len(f.Locale)))
		body = append(body, f.Locale...)
	}
	out := []byte{TokParamFmt}
	out = binary.LittleEndian.AppendUint16(out, uint16(len(body)))
	return append(out, body...), nil
}

// RowFmt2 encodes a TDS_ROWFMT2 token (0x61): 4-byte length, per column
// label, catalogue, schema, table, name (1-byte lengths), 4-byte status,
// user type, data type, type info, locale.
func RowFmt2(fields []Field) ([]byte, error) {
	body := binary.LittleEndian.AppendUint16(nil, uint16(len(fields)))
	for _, f := range fields {
		body = append(body, byte(len(f.Name)))
		body = append(body, f.Name...) // label
		body = append(body, 0)         // catalogue
		body = append(body, 0)         // schema
		body = append(body, 0)         // table
		body = append(body, byte(len(f.Name)))
		body = append(body, f.Name...) // column name
		body = binary.LittleEndian.AppendUint32(body, f.Status)
		body = binary.LittleEndian.AppendUint32(body, uint32(f.UserType))
		body = append(body, f.Type)
		ti, err := f.typeInfo()
		if err != nil {
			return nil, err
		}
		body = append(body, ti...)
		body = append(body, byte(len(f.Locale)))
		body = append(body, f.Locale...)
	}
	out := []byte{TokRowFmt2}
	out = binary.LittleEndian.AppendUint32(out, uint32(len(body)))
	return append(out, body...), nil
}

// TextPtr describes the text-pointer part of a TEXT/IMAGE/UNITEXT/XML value.
type TextPtr struct {
	Ptr       []byte  // usually 16 bytes
	Timestamp [8]byte // text timestamp
}

// DataField encodes one data value of a PARAMS/ROW token for the given
// format: nothing but the bytes for fixed types, length prefix + bytes for the
// others, and for the text-pointer family: 1-byte text pointer length, text
// pointer, 8-byte timestamp, 4-byte data length, data.
func DataField(f Field, data []byte, tp *TextPtr) ([]byte, error) {
	var b []byte
	switch ClassOf(f.Type) {
	case ClassFixed:
		if len(data) != FixedSize(f.Type) {
			return nil, fmt.Errorf("refdata: %d bytes for fixed type %#x", len(data), f.Type)
		}
	case ClassLen1, ClassDecimal, ClassBigTime:
		if len(data) > 255 {
			return nil, fmt.Errorf("refdata: %d bytes do not fit a 1-byte length", len(data))
		}
		b = append(b, byte(len(data)))
	case ClassLen4:
		b = binary.LittleEndian.AppendUint32(b, uint32(len(data)))
	case ClassTextPtr:
		if tp == nil {
			return nil, fmt.Errorf("refdata: text pointer needed for type %#x", f.Type)
		}
		b = append(b, byte(len(tp.Ptr)))
		b = append(b, tp.Ptr...)
		b = append(b, tp.Timestamp[:]...)
		b = binary.LittleEndian.AppendUint32(b, uint32(len(data)))
	default:
		return nil, fmt.Errorf("refdata: no format class for data type %#x", f.Type)
	}
	return append(b, data...), nil
}

// Row encodes a TDS_ROW token (0xD1) from already encoded data fields.
func Row(fields ...[]byte) []byte {
	out := []byte{TokRow}
	for _, f := range fields {
		out = append(out, f...)
	}
	return out
}

// SplitParams splits the body of a TDS_PARAMS token (after the 0xD7 byte)
// written for a single non-text-pointer format into its data bytes.
func SplitParams(f Field, body []byte) (data []byte, rest []byte, err error) {
	switch ClassOf(f.Type) {
	case ClassFixed:
		n := FixedSize(f.Type)
		if len(body) < n {
			return nil, nil, fmt.Errorf("short fixed field: %d of %d bytes", len(body), n)
		}
		return body[:n], body[n:], nil
	case ClassLen1, ClassDecimal, ClassBigTime:
		if len(body) < 1 || len(body) < 1+int(body[0]) {
			return nil, nil, fmt.Errorf("short field")
		}
		return body[1 : 1+int(body[0])], body[1+int(body[0]):], nil
	case ClassLen4:
		if len(body) < 4 {
			return nil, nil, fmt.Errorf("short field")
		}
		n := int(binary.LittleEndian.Uint32(body))
		if len(body) < 4+n {
			return nil, nil, fmt.Errorf("short field")
		}
		return body[4 : 4+n], body[4+n:], nil
	}
	return nil, nil, fmt.Errorf("refdata: cannot split type %#x", f.Type)
}
