package refdata

import "testing"

func TestSelfCheck(t *testing.T) {
	if err := SelfCheck(); err != nil {
		t.Fatal(err)
	}
}
